(** The checks of [aranya-policy-compiler/src/compile/lower.rs] (and the few of
    [compile.rs]) that decide whether a policy of the modelled fragment is
    accepted: types with [Never], [fits_type] / [matches] / [unify_pair] /
    [check_type], the identifier scope rules of [IdentifierTypeStack], the
    match pattern rules and the exhaustiveness computation (with
    [CompileTarget::cardinality]), the statement-context table of
    [lower_statements] and the finish-expression whitelist
    ([check_finish_expression]).

    Transcribed clause by clause, in the order the compiler performs the checks,
    so that the first error found has the class the compiler reports (leg L1
    compares acceptance and the error class on well-typed programs and on a
    stream of ill-typed / ill-scoped mutants).  No proofs here. *)
From Aranya Require Import model.VmBase gen.GenVm model.Vm model.Lang.
Local Open Scope string_scope.

(** Error classes of [compile/error.rs]. *)
Inductive cerr : Type :=
  | E_InvalidStatement | E_InvalidExpression | E_InvalidType | E_InvalidCallColor
  | E_BadArgument | E_NotDefined | E_AlreadyDefined | E_DuplicateMatchPatterns
  | E_InvalidFactLiteral | E_NoReturn | E_MissingDefaultPattern | E_UnreachableMatchArm
  | E_RedundantMatchArm | E_InvalidReturn | E_DebugModeRequired | E_InvalidCast
  | E_InvalidSubstruct | E_Bug | E_Unknown.

Definition R (A : Type) : Type := res A cerr.
Definition rbind {A B} (r : R A) (k : A -> R B) : R B :=
  match r with ROk a => k a | RErr e => RErr e end.
Notation "x <-- e ;; k" := (rbind e (fun x => k)) (at level 61, e at next level, right associativity).
Definition guard (b : bool) (e : cerr) : R unit := if b then ROk tt else RErr e.
Definition of_opt {A} (o : option A) (e : cerr) : R A := match o with Some a => ROk a | None => RErr e end.

(** ** Types ([aranya-policy-ast] [TypeKind]) *)

(** [TypeKind::matches]: the same type. *)
Fixpoint ty_matches (a b : TypeKind) : bool :=
  match a, b with
  | TK_Unit, TK_Unit | TK_String, TK_String | TK_Bytes, TK_Bytes | TK_Int, TK_Int
  | TK_Bool, TK_Bool | TK_Id, TK_Id | TK_Never, TK_Never => true
  | TK_Struct x, TK_Struct y => x =s? y
  | TK_Enum x, TK_Enum y => x =s? y
  | TK_Optional x, TK_Optional y => ty_matches x y
  | TK_Result o1 e1, TK_Result o2 e2 => ty_matches o1 o2 && ty_matches e1 e2
  | _, _ => false
  end.

(** [TypeKind::fits_type]: [Never] fits with anything. *)
Fixpoint ty_fits (a b : TypeKind) : bool :=
  match a, b with
  | TK_Never, _ => true
  | _, TK_Never => true
  | TK_Unit, TK_Unit | TK_String, TK_String | TK_Bytes, TK_Bytes | TK_Int, TK_Int
  | TK_Bool, TK_Bool | TK_Id, TK_Id => true
  | TK_Struct x, TK_Struct y => x =s? y
  | TK_Enum x, TK_Enum y => x =s? y
  | TK_Optional x, TK_Optional y => ty_fits x y
  | TK_Result o1 e1, TK_Result o2 e2 => ty_fits o1 o2 && ty_fits e1 e2
  | _, _ => false
  end.

(** [types::unify_pair]. *)
Fixpoint unify_pair (l r : TypeKind) : R TypeKind :=
  match l, r with
  | _, TK_Never => ROk l
  | TK_Never, _ => ROk r
  | TK_Optional a, TK_Optional b => t <-- unify_pair a b ;; ROk (TK_Optional t)
  | TK_Result o1 e1, TK_Result o2 e2 =>
    o <-- unify_pair o1 o2 ;; e <-- unify_pair e1 e2 ;; ROk (TK_Result o e)
  | _, _ => if ty_matches l r then ROk l else RErr E_InvalidType
  end.
(** [types::check_type]. *)
Definition check_type (ty target : TypeKind) : R TypeKind :=
  match ty with
  | TK_Never => ROk target
  | _ => if ty_fits ty target then ROk ty else RErr E_InvalidType
  end.
(** [types::unify_pair_as]. *)
Definition unify_pair_as (l r target : TypeKind) : R TypeKind :=
  a <-- check_type l target ;; b <-- check_type r target ;; unify_pair a b.

(** ** Scopes ([types::IdentifierTypeStack]): blocks of the current function, innermost first. *)
Definition tenv : Type := list (list (ident * TypeKind)).
Definition tglobals : Type := list (ident * TypeKind).

Fixpoint tenv_lookup (x : ident) (te : tenv) : option TypeKind :=
  match te with
  | [] => None
  | b :: r => match assoc x b with Some t => Some t | None => tenv_lookup x r end
  end.
Definition tenv_get (g : tglobals) (x : ident) (te : tenv) : R TypeKind :=
  match tenv_lookup x te with
  | Some t => ROk t
  | None => of_opt (assoc x g) E_NotDefined
  end.
Definition has_key {A} (x : ident) (l : list (ident * A)) : bool :=
  match assoc x l with Some _ => true | None => false end.
(** [IdentifierTypeStack::add]: a name may not repeat a global or any enclosing block. *)
Definition tenv_add (g : tglobals) (x : ident) (t : TypeKind) (te : tenv) : R tenv :=
  if has_key x g then RErr E_AlreadyDefined
  else if existsb (has_key x) te then RErr E_AlreadyDefined
  else match te with
       | [] => RErr E_Bug
       | b :: r => ROk (((x, t) :: b) :: r)
       end.
Definition tenv_push (te : tenv) : tenv := [] :: te.

(** ** Statement contexts ([StatementContext]) *)
Inductive sctx : Type :=
  | CxAction (ret : option TypeKind)
  | CxPolicy (c : cmddef)
  | CxRecall (c : cmddef)
  | CxPure (ret : TypeKind)
  | CxFinish.
Definition is_finish (cx : sctx) : bool := match cx with CxFinish => true | _ => false end.

(** A function signature: parameters and colour ([Some ret] = pure, [None] = finish). *)
Definition fsig : Type := (list (ident * TypeKind) * option TypeKind)%type.

Definition builtin_sigs : list (ident * fsig) :=
  [ ("add", ([("x", TK_Int); ("y", TK_Int)], Some (TK_Optional TK_Int)));
    ("saturating_add", ([("x", TK_Int); ("y", TK_Int)], Some TK_Int));
    ("sub", ([("x", TK_Int); ("y", TK_Int)], Some (TK_Optional TK_Int)));
    ("saturating_sub", ([("x", TK_Int); ("y", TK_Int)], Some TK_Int)) ].

(** [find_duplicate]. *)
Fixpoint has_dup (l : list ident) : bool :=
  match l with
  | [] => false
  | x :: r => existsb (fun y => x =s? y) r || has_dup r
  end.

(** ** Match patterns *)
Fixpoint lit_eqb (a b : lit) : bool :=
  match a, b with
  | LUnit, LUnit => true
  | LInt x, LInt y => Z.eqb x y
  | LStr x, LStr y => x =s? y
  | LBool x, LBool y => Bool.eqb x y
  | LEnum e1 v1, LEnum e2 v2 => (e1 =s? e2) && (v1 =s? v2)
  | LNone, LNone => true
  | LSome x, LSome y | LOk x, LOk y | LErr x, LErr y => lit_eqb x y
  | _, _ => false
  end.
Definition wrap_eqb (a b : WrapType) : bool :=
  match a, b with W_Ok, W_Ok | W_Err, W_Err | W_Some, W_Some => true | _, _ => false end.
(** [ExprKind::matches] on patterns. *)
Definition pat_eqb (a b : pat) : bool :=
  match a, b with
  | PLit x, PLit y => lit_eqb x y
  | PBind w x, PBind v y => wrap_eqb w v && (x =s? y)
  | _, _ => false
  end.
Definition is_binding (pt : pat) : bool := match pt with PBind _ _ => true | PLit _ => false end.
(** which of Ok / Err / Some a pattern is about, if any *)
Definition pat_wrap (pt : pat) : option WrapType :=
  match pt with
  | PBind w _ => Some w
  | PLit (LOk _) => Some W_Ok
  | PLit (LErr _) => Some W_Err
  | PLit (LSome _) => Some W_Some
  | PLit _ => None
  end.

Record seen := mkSeen { sn_ok : bool; sn_err : bool; sn_some : bool }.
Definition seen_get (s : seen) (w : WrapType) : bool :=
  match w with W_Ok => sn_ok s | W_Err => sn_err s | W_Some => sn_some s end.
Definition seen_set (s : seen) (w : WrapType) : seen :=
  match w with
  | W_Ok => mkSeen true (sn_err s) (sn_some s)
  | W_Err => mkSeen (sn_ok s) true (sn_some s)
  | W_Some => mkSeen (sn_ok s) (sn_err s) true
  end.
Definition seen_none : seen := mkSeen false false false.

(** The pre-pass over the alternatives of one arm: duplicates against every earlier
    pattern, a literal after a binding of its variant in an earlier arm or earlier in this arm
    (unreachable), a binding after a literal of its variant in this arm (redundant). *)
Fixpoint prepass_values (vals : list pat) (all : list pat) (bind : seen) (litl : seen)
  : R (list pat * seen) :=
  match vals with
  | [] => ROk (all, bind)
  | v :: r =>
    if existsb (pat_eqb v) all then RErr E_DuplicateMatchPatterns
    else
      match pat_wrap v with
      | None => prepass_values r (all ++ [v]) bind litl
      | Some w =>
        if is_binding v then
          if seen_get litl w then RErr E_RedundantMatchArm
          else prepass_values r (all ++ [v]) (seen_set bind w) litl
        else
          if seen_get bind w then RErr E_UnreachableMatchArm
          else prepass_values r (all ++ [v]) bind (seen_set litl w)
      end
  end.
Fixpoint prepass (pats : list pattern) (all : list pat) (bind : seen) : R (list pat) :=
  match pats with
  | [] => ROk all
  | PDefault :: r => prepass r all bind
  | PVals vals :: r =>
    ab <-- prepass_values vals all bind seen_none ;;
    (* a binding pattern must be the only pattern of its arm *)
    _ <-- guard (negb ((1 <? List.length vals)%nat && existsb is_binding vals)) E_InvalidExpression ;;
    prepass r (fst ab) (snd ab)
  end.

Definition u64_max : N := 18446744073709551615.
Definition u64_checked (n : N) : option N := if (n <=? u64_max)%N then Some n else None.

Section Check.
  Variable p : policy.
  Variable is_debug : bool.
  Variable sigs : list (ident * fsig).
  Variable g : tglobals.

  (** [CompileTarget::cardinality]; [fuel] bounds the nesting of struct definitions. *)
  Fixpoint cardinality (fuel : nat) {struct fuel} : TypeKind -> option N :=
    fix go (t : TypeKind) : option N :=
    match t with
    | TK_String | TK_Bytes | TK_Id | TK_Int => None
    | TK_Bool => Some 2%N
    | TK_Optional t' =>
      match go t' with Some c => u64_checked (c + 1) | None => None end
    | TK_Struct name =>
      match fuel with
      | O => None
      | S f =>
        match struct_fields_of p name with
        | None => None
        | Some [] => None
        | Some (fd :: fds) =>
          fold_left (fun acc fd' =>
                       match cardinality f (snd fd') with
                       | None => None
                       | Some v => match acc with Some w => u64_checked (v * w) | None => None end
                       end) fds (cardinality f (snd fd))
        end
      end
    | TK_Enum name => option_map (fun vs => N.of_nat (List.length vs)) (assoc name (p_enums p))
    | TK_Never => Some 0%N
    | TK_Unit => Some 1%N
    | TK_Result o e =>
      match go o, go e with
      | Some a, Some b => u64_checked (a + b)
      | _, _ => None
      end
    end.
  Definition card (t : TypeKind) : option N := cardinality (S (List.length (p_structs p))) t.

  (** The type of a literal pattern ([lower_expression] on a literal). *)
  Fixpoint lit_type (l : lit) : R TypeKind :=
    match l with
    | LUnit => ROk TK_Unit
    | LInt _ => ROk TK_Int
    | LStr _ => ROk TK_String
    | LBool _ => ROk TK_Bool
    | LEnum e v => _ <-- of_opt (enum_value p e v) E_NotDefined ;; ROk (TK_Enum e)
    | LNone => ROk (TK_Optional TK_Never)
    | LSome l => t <-- lit_type l ;; ROk (TK_Optional t)
    | LOk l => t <-- lit_type l ;; ROk (TK_Result t TK_Never)
    | LErr l => t <-- lit_type l ;; ROk (TK_Result TK_Never t)
    end.

  (** Lowering the patterns against the scrutinee type: literals are unified into it, a
      binding takes the payload type the scrutinee type has at that point.  Returns the final
      scrutinee type and, per arm, the variables it binds. *)
  Fixpoint lower_values (vals : list pat) (st : TypeKind) : R (TypeKind * list (ident * TypeKind)) :=
    match vals with
    | [] => ROk (st, [])
    | PLit l :: r =>
      t <-- lit_type l ;;
      st' <-- unify_pair st t ;;
      lower_values r st'
    | PBind w x :: r =>
      inner <-- match w, st with
                | W_Ok, TK_Result o _ => ROk o
                | W_Err, TK_Result _ e => ROk e
                | W_Some, TK_Optional t => ROk t
                | _, _ => RErr E_InvalidType
                end ;;
      rest <-- lower_values r st ;;
      ROk (fst rest, (x, inner) :: snd rest)
    end.
  Fixpoint lower_patterns (pats : list pattern) (st : TypeKind)
    : R (TypeKind * list (list (ident * TypeKind))) :=
    match pats with
    | [] => ROk (st, [])
    | PVals vals :: r =>
      a <-- lower_values vals st ;;
      rest <-- lower_patterns r (fst a) ;;
      ROk (fst rest, snd a :: snd rest)
    | PDefault :: r =>
      (* the default arm must be the last one *)
      _ <-- guard (match r with [] => true | _ => false end) E_Unknown ;;
      rest <-- lower_patterns r st ;;
      ROk (fst rest, [] :: snd rest)
    end.

  Definition count_lits (all : list pat) (w : WrapType) : N :=
    N.of_nat (List.length (filter (fun v => negb (is_binding v) &&
      match pat_wrap v with Some w' => wrap_eqb w w' | None => false end) all)).
  Definition has_binding (all : list pat) (w : WrapType) : bool :=
    existsb (fun v => is_binding v && match pat_wrap v with Some w' => wrap_eqb w w' | None => false end) all.
  Definition card_is (t : TypeKind) (n : N) : bool :=
    match card t with Some c => (c =? n)%N | None => false end.

  (** The exhaustiveness decision: [true] = a default arm is missing. *)
  Definition missing_default (all : list pat) (ndefault : nat) (st : TypeKind) : bool :=
    let result_exhaustive :=
      match st with
      | TK_Result o e =>
        (has_binding all W_Ok || card_is o (count_lits all W_Ok))
        && (has_binding all W_Err || card_is e (count_lits all W_Err))
      | _ => false
      end in
    let optional_exhaustive :=
      match st with
      | TK_Optional t =>
        existsb (pat_eqb (PLit LNone)) all
        && (has_binding all W_Some || card_is t (count_lits all W_Some))
      | _ => false
      end in
    (* only literal patterns cover exactly one value each *)
    let literal_count := N.of_nat (List.length (filter (fun v => negb (is_binding v)) all)) in
    Nat.eqb ndefault 0 && negb result_exhaustive && negb optional_exhaustive
    && match card st with None => true | Some c => (literal_count <? c)%N end.

  (** [lower_match_statement_or_expression] before the scrutinee is lowered: the pattern
      pre-pass and the count of default arms. *)
  Definition check_patterns_pre (pats : list pattern) : R (list pat * nat) :=
    all <-- prepass pats [] seen_none ;;
    let ndefault := List.length (filter (fun pt => match pt with PDefault => true | _ => false end) pats) in
    _ <-- guard (Nat.leb ndefault 1) E_DuplicateMatchPatterns ;;
    ROk (all, ndefault).
  (** ... and after it: pattern types, exhaustiveness.  Returns the variables each arm binds. *)
  Definition check_patterns_post (pre : list pat * nat) (pats : list pattern) (scrutinee : TypeKind)
    : R (list (list (ident * TypeKind))) :=
    lowered <-- lower_patterns pats scrutinee ;;
    _ <-- guard (negb (missing_default (fst pre) (snd pre) (fst lowered))) E_MissingDefaultPattern ;;
    ROk (snd lowered).

  Fixpoint add_bindings (bs : list (ident * TypeKind)) (te : tenv) : R tenv :=
    match bs with
    | [] => ROk te
    | (x, t) :: r => te' <-- tenv_add g x t te ;; add_bindings r te'
    end.

  Definition earms_patterns : earms -> list pattern :=
    fix go (a : earms) := match a with EANil => [] | EACons pt _ r => pt :: go r end.
  Definition sarms_patterns : sarms -> list pattern :=
    fix go (a : sarms) := match a with SANil => [] | SACons pt _ r => pt :: go r end.
  Definition fields_names : fields -> list ident :=
    fix go (f : fields) := match f with FNil => [] | FCons n _ r => n :: go r end.
  Definition exprs_len : exprs -> nat :=
    fix go (e : exprs) := match e with ENil => O | ECons _ r => S (go r) end.

  (** [check_finish_expression]. *)
  Definition finish_ok (e : expr) : bool :=
    match e with
    | EUnit | EInt _ | EStr _ | EBool _ | EVar _ | EStruct _ _ | EDot _ _ | ENone
    | EWrap W_Some _ | EEnum _ _ => true
    | _ => false
    end.

  Definition as_struct_ty (t : TypeKind) : R ident :=
    match t with TK_Struct n => ROk n | _ => RErr E_InvalidType end.

  Definition fact_def_of (name : ident) : R factdef :=
    of_opt (find (fun f => fd_name f =s? name) (p_facts p)) E_NotDefined.

  (** [lower_expression] / [lower_statements]. *)
  Fixpoint check_expr (cx : sctx) (te : tenv) (e : expr) {struct e} : R TypeKind :=
    _ <-- guard (negb (is_finish cx) || finish_ok e) E_InvalidExpression ;;
    match e with
    | EUnit => ROk TK_Unit
    | EInt _ => ROk TK_Int
    | EStr _ => ROk TK_String
    | EBool _ => ROk TK_Bool
    | EEnum en v => _ <-- of_opt (enum_value p en v) E_NotDefined ;; ROk (TK_Enum en)
    | ENone => ROk (TK_Optional TK_Never)
    | EWrap w e =>
      t <-- check_expr cx te e ;;
      ROk (match w with
           | W_Some => TK_Optional t
           | W_Ok => TK_Result t TK_Never
           | W_Err => TK_Result TK_Never t
           end)
    | EVar x => tenv_get g x te
    | EStruct name fs =>
      def <-- of_opt (struct_fields_of p name) E_NotDefined ;;
      _ <-- guard (negb (has_dup (fields_names fs))) E_AlreadyDefined ;;
      _ <-- check_fields cx te fs def ;;
      (* every field of the definition must be given *)
      _ <-- guard (forallb (fun d => existsb (fun n => n =s? fst d) (fields_names fs)) def) E_NotDefined ;;
      ROk (TK_Struct name)
    | EDot e f =>
      t <-- check_expr cx te e ;;
      name <-- as_struct_ty t ;;
      def <-- of_opt (struct_fields_of p name) E_NotDefined ;;
      of_opt (assoc f def) E_NotDefined
    | ESubstruct e s =>
      sub <-- of_opt (struct_fields_of p s) E_NotDefined ;;
      t <-- check_expr cx te e ;;
      name <-- as_struct_ty t ;;
      def <-- of_opt (struct_fields_of p name) E_NotDefined ;;
      _ <-- guard (forallb (fun fd => existsb (fun lf => (fst lf =s? fst fd) && ty_matches (snd lf) (snd fd)) def) sub)
                  E_InvalidSubstruct ;;
      ROk (TK_Struct s)
    | ECast e s =>
      rhs <-- of_opt (struct_fields_of p s) E_NotDefined ;;
      t <-- check_expr cx te e ;;
      name <-- as_struct_ty t ;;
      lhs <-- of_opt (struct_fields_of p name) E_NotDefined ;;
      _ <-- guard (Nat.eqb (List.length lhs) (List.length rhs)
                   && forallb (fun f => existsb (fun v => (fst f =s? fst v) && ty_matches (snd f) (snd v)) rhs) lhs)
                  E_InvalidCast ;;
      ROk (TK_Struct s)
    | EAnd a b | EOr a b =>
      ta <-- check_expr cx te a ;;
      tb <-- check_expr cx te b ;;
      _ <-- unify_pair_as ta tb TK_Bool ;;
      ROk TK_Bool
    | ENot a =>
      ta <-- check_expr cx te a ;;
      check_type ta TK_Bool
    | EBin op a b =>
      ta <-- check_expr cx te a ;;
      tb <-- check_expr cx te b ;;
      _ <-- match op with
            | BEq | BNe => unify_pair ta tb
            | _ => unify_pair_as ta tb TK_Int
            end ;;
      ROk TK_Bool
    | EIs e _ =>
      t <-- check_expr cx te e ;;
      match t with TK_Optional _ => ROk TK_Bool | _ => RErr E_InvalidType end
    | ECoalesce a b =>
      ta <-- check_expr cx te a ;;
      inner <-- match ta with TK_Optional t => ROk t | _ => RErr E_InvalidType end ;;
      tb <-- check_expr cx te b ;;
      unify_pair inner tb
    | EIf c t f =>
      tc <-- check_expr cx te c ;;
      _ <-- guard (ty_fits tc TK_Bool) E_InvalidType ;;
      tt' <-- check_expr cx te t ;;
      tf <-- check_expr cx te f ;;
      unify_pair tt' tf
    | EBlock ss e =>
      te' <-- check_stmts cx (tenv_push te) ss ;;
      check_expr cx te' e
    | EMatch e arms =>
      (* the pattern pre-pass comes before the scrutinee is lowered *)
      pre <-- check_patterns_pre (earms_patterns arms) ;;
      st <-- check_expr cx te e ;;
      binds <-- check_patterns_post pre (earms_patterns arms) st ;;
      ot <-- check_earms cx te arms binds None ;;
      of_opt ot E_Bug
    | ECall f args =>
      sg <-- of_opt (assoc f sigs) E_NotDefined ;;
      ret <-- of_opt (snd sg) E_InvalidCallColor ;;
      _ <-- guard (Nat.eqb (List.length (fst sg)) (exprs_len args)) E_BadArgument ;;
      _ <-- check_args cx te args (map snd (fst sg)) ;;
      ROk ret
    | EFfi md fname args =>
      d <-- of_opt (find (fun d => (ffi_module d =s? md) && (ffi_name d =s? fname)) (p_ffi p)) E_NotDefined ;;
      _ <-- guard (Nat.eqb (List.length (ffi_params d)) (exprs_len args)) E_BadArgument ;;
      _ <-- check_args cx te args (ffi_params d) ;;
      ROk (ffi_ret d)
    | EReturn e =>
      ret <-- match cx with
              | CxPure r => ROk r
              | CxAction (Some r) => ROk r
              | _ => RErr E_InvalidReturn
              end ;;
      t <-- check_expr cx te e ;;
      _ <-- guard (ty_fits t ret) E_InvalidType ;;
      ROk TK_Never
    | ERecall name args =>
      c <-- match cx with CxPolicy c => ROk c | _ => RErr E_InvalidExpression end ;;
      r <-- of_opt (find (fun r => rc_name r =s? name) (cmd_recalls c)) E_NotDefined ;;
      _ <-- guard (Nat.eqb (List.length (rc_params r)) (exprs_len args)) E_BadArgument ;;
      _ <-- check_args cx te args (map snd (rc_params r)) ;;
      ROk TK_Never
    | ETodo => _ <-- guard is_debug E_DebugModeRequired ;; ROk TK_Never
    end
  with check_args (cx : sctx) (te : tenv) (args : exprs) (params : list TypeKind) {struct args} : R unit :=
    match args, params with
    | ECons e r, pt :: ps =>
      t <-- check_expr cx te e ;;
      _ <-- guard (ty_fits t pt) E_InvalidType ;;
      check_args cx te r ps
    | _, _ => ROk tt
    end
  with check_fields (cx : sctx) (te : tenv) (fs : fields) (def : list (ident * TypeKind)) {struct fs} : R unit :=
    match fs with
    | FNil => ROk tt
    | FCons f e r =>
      ft <-- of_opt (assoc f def) E_NotDefined ;;
      t <-- check_expr cx te e ;;
      _ <-- guard (ty_fits t ft) E_InvalidType ;;
      check_fields cx te r def
    end
  with check_earms (cx : sctx) (te : tenv) (arms : earms) (binds : list (list (ident * TypeKind)))
                   (acc : option TypeKind) {struct arms} : R (option TypeKind) :=
    match arms with
    | EANil => ROk acc
    | EACons _ e r =>
      te' <-- add_bindings (hd [] binds) (tenv_push te) ;;
      t <-- check_expr cx te' e ;;
      acc' <-- match acc with None => ROk t | Some a => unify_pair a t end ;;
      check_earms cx te r (tl binds) (Some acc')
    end
  with check_stmt (cx : sctx) (te : tenv) (s : stmt) (is_last : bool) {struct s} : R tenv :=
    match s with
    | SLet x e =>
      _ <-- guard (negb (is_finish cx)) E_InvalidStatement ;;
      t <-- check_expr cx te e ;;
      tenv_add g x t te
    | SCheck e els =>
      _ <-- guard (negb (is_finish cx)) E_InvalidStatement ;;
      t <-- check_expr cx te e ;;
      _ <-- guard (ty_fits t TK_Bool) E_InvalidType ;;
      (* the else expression must be terminal *)
      tels <-- check_expr cx te els ;;
      _ <-- guard (match tels with TK_Never => true | _ => false end) E_InvalidType ;;
      ROk te
    | SMatch e arms =>
      _ <-- guard (negb (is_finish cx)) E_InvalidStatement ;;
      pre <-- check_patterns_pre (sarms_patterns arms) ;;
      st <-- check_expr cx te e ;;
      binds <-- check_patterns_post pre (sarms_patterns arms) st ;;
      _ <-- check_sarms cx te arms binds ;;
      ROk te
    | SIf bs fb =>
      _ <-- guard (negb (is_finish cx)) E_InvalidStatement ;;
      _ <-- check_branches cx te bs ;;
      _ <-- match fb with
            | ONone => ROk te
            | OSome ss => check_stmts cx (tenv_push te) ss
            end ;;
      ROk te
    | SReturn e =>
      ret <-- match cx with
              | CxPure r => ROk r
              | CxAction (Some r) => ROk r
              | CxAction None => RErr E_InvalidReturn
              | _ => RErr E_InvalidStatement
              end ;;
      t <-- check_expr cx te e ;;
      _ <-- guard (ty_fits t ret) E_InvalidType ;;
      ROk te
    | SFinish ss =>
      _ <-- guard (match cx with CxPolicy _ | CxRecall _ => true | _ => false end) E_InvalidStatement ;;
      _ <-- check_stmts CxFinish (tenv_push te) ss ;;
      (* finish must be the last statement of its block *)
      _ <-- guard is_last E_Unknown ;;
      ROk te
    | SCreate fact keys vals =>
      _ <-- guard (is_finish cx) E_InvalidStatement ;;
      d <-- fact_def_of fact ;;
      _ <-- check_fact_fields cx te keys (fd_keys d) ;;
      _ <-- check_fact_fields cx te vals (fd_vals d) ;;
      ROk te
    | SUpdate fact keys vals to =>
      _ <-- guard (is_finish cx) E_InvalidStatement ;;
      d <-- fact_def_of fact ;;
      _ <-- guard (negb (fd_immutable d)) E_Unknown ;;
      _ <-- check_fact_fields cx te keys (fd_keys d) ;;
      _ <-- match vals with
            | VNone => ROk tt
            | VSome fs => check_fact_fields cx te fs (fd_vals d)
            end ;;
      _ <-- check_fact_fields cx te to (fd_vals d) ;;
      ROk te
    | SDelete fact keys =>
      _ <-- guard (is_finish cx) E_InvalidStatement ;;
      d <-- fact_def_of fact ;;
      _ <-- check_fact_fields cx te keys (fd_keys d) ;;
      ROk te
    | SEmit e =>
      _ <-- guard (is_finish cx) E_InvalidStatement ;;
      t <-- check_expr cx te e ;;
      name <-- as_struct_ty t ;;
      _ <-- guard (has_key name (p_effects p)) E_InvalidType ;;
      ROk te
    | SCall f args =>
      _ <-- guard (is_finish cx) E_InvalidStatement ;;
      sg <-- of_opt (assoc f sigs) E_NotDefined ;;
      _ <-- guard (match snd sg with None => true | Some _ => false end) E_InvalidCallColor ;;
      _ <-- guard (Nat.eqb (List.length (fst sg)) (exprs_len args)) E_BadArgument ;;
      _ <-- check_args cx te args (map snd (fst sg)) ;;
      ROk te
    | SRecall name args =>
      c <-- match cx with CxPolicy c => ROk c | _ => RErr E_InvalidStatement end ;;
      r <-- of_opt (find (fun r => rc_name r =s? name) (cmd_recalls c)) E_NotDefined ;;
      _ <-- guard (Nat.eqb (List.length (rc_params r)) (exprs_len args)) E_BadArgument ;;
      _ <-- check_args cx te args (map snd (rc_params r)) ;;
      ROk te
    | SDebugAssert e =>
      _ <-- guard (negb (is_finish cx)) E_InvalidStatement ;;
      t <-- check_expr cx te e ;;
      _ <-- check_type t TK_Bool ;;
      ROk te
    end
  with check_stmts (cx : sctx) (te : tenv) (ss : stmts) {struct ss} : R tenv :=
    match ss with
    | SNil => ROk te
    | SCons s r =>
      te' <-- check_stmt cx te s (match r with SNil => true | _ => false end) ;;
      check_stmts cx te' r
    end
  with check_branches (cx : sctx) (te : tenv) (bs : branches) {struct bs} : R unit :=
    match bs with
    | BNil => ROk tt
    | BCons c ss r =>
      tc <-- check_expr cx te c ;;
      _ <-- guard (ty_fits tc TK_Bool) E_InvalidType ;;
      _ <-- check_stmts cx (tenv_push te) ss ;;
      check_branches cx te r
    end
  with check_sarms (cx : sctx) (te : tenv) (arms : sarms) (binds : list (list (ident * TypeKind)))
                   {struct arms} : R unit :=
    match arms with
    | SANil => ROk tt
    | SACons _ ss r =>
      te' <-- add_bindings (hd [] binds) (tenv_push te) ;;
      _ <-- check_stmts cx te' ss ;;
      check_sarms cx te r (tl binds)
    end
  (** [lower_fact_keys] / [lower_fact_values] without bind markers: the literal names the
      fields of the schema, in order, with fitting types. *)
  with check_fact_fields (cx : sctx) (te : tenv) (fs : fields) (def : list (ident * TypeKind)) {struct fs}
    : R unit :=
    match fs, def with
    | FNil, [] => ROk tt
    | FCons f e r, (n, ft) :: ds =>
      _ <-- guard (Nat.eqb (List.length (fields_names fs)) (List.length def)) E_InvalidFactLiteral ;;
      _ <-- guard (f =s? n) E_InvalidFactLiteral ;;
      t <-- check_expr cx te e ;;
      _ <-- guard (ty_fits t ft) E_InvalidType ;;
      check_fact_fields cx te r ds
    | _, _ => RErr E_InvalidFactLiteral
    end.
End Check.

(** ** Whole policies: the order of [CompileState::compile]. *)

Definition all_struct_names (p : policy) : list ident :=
  (map fst (p_structs p) ++ map fst (p_effects p) ++ map fd_name (p_facts p) ++ map cmd_name (p_cmds p))%list.

(** [ensure_type_is_defined]. *)
Fixpoint type_defined (p : policy) (t : TypeKind) : bool :=
  match t with
  | TK_Struct n => (n =s? "Envelope") || existsb (fun m => m =s? n) (all_struct_names p)
  | TK_Enum n => has_key n (p_enums p)
  | TK_Optional t => type_defined p t
  | TK_Result o e => type_defined p o && type_defined p e
  | _ => true
  end.

Definition sigs_of (p : policy) : list (ident * fsig) :=
  (builtin_sigs
   ++ map (fun d => (ff_name d, (ff_params d, None))) (p_finfuns p)
   ++ map (fun d => (fn_name d, (fn_params d, Some (fn_ret d)))) (p_funs p))%list.

Definition tglobals_of (p : policy) : R tglobals :=
  fold_right (fun gl acc =>
    a <-- acc ;;
    t <-- (fix lt (l : lit) : R TypeKind :=
             match l with
             | LUnit => ROk TK_Unit | LInt _ => ROk TK_Int | LStr _ => ROk TK_String | LBool _ => ROk TK_Bool
             | LEnum e v => _ <-- of_opt (enum_value p e v) E_NotDefined ;; ROk (TK_Enum e)
             | LNone => ROk (TK_Optional TK_Never)
             | LSome l => t <-- lt l ;; ROk (TK_Optional t)
             | LOk l => t <-- lt l ;; ROk (TK_Result t TK_Never)
             | LErr l => t <-- lt l ;; ROk (TK_Result TK_Never t)
             end) (snd gl) ;;
    ROk ((fst gl, t) :: a)) (ROk []) (p_globals p).

(** [define_interfaces]: only the checks the generated policies and their mutants can trip. *)
Definition check_defs (p : policy) : R unit :=
  _ <-- guard (negb (has_dup (map fst (p_enums p)))) E_AlreadyDefined ;;
  _ <-- guard (forallb (fun e => negb (has_dup (snd e))) (p_enums p)) E_AlreadyDefined ;;
  _ <-- guard (negb (has_dup (all_struct_names p))) E_AlreadyDefined ;;
  _ <-- guard (forallb (fun s => negb (has_dup (map fst (snd s)))) (p_structs p ++ p_effects p)%list) E_AlreadyDefined ;;
  _ <-- guard (forallb (fun s => forallb (fun f => type_defined p (snd f)) (snd s)) (p_structs p ++ p_effects p)%list)
              E_NotDefined ;;
  _ <-- guard (negb (has_dup (map fst (p_globals p)))) E_AlreadyDefined ;;
  ROk tt.

(** The part of [compile_function_like] that checks: parameters (last first), return type,
    then the body in its context.  [has_ret]: the body must contain a [return]. *)
Fixpoint add_params (p : policy) (g : tglobals) (params : list (ident * TypeKind)) (te : tenv) : R tenv :=
  match params with
  | [] => ROk te
  | (x, t) :: r =>
    _ <-- guard (type_defined p t) E_NotDefined ;;
    te' <-- tenv_add g x t te ;;
    add_params p g r te'
  end.

Definition check_function_like (p : policy) (dbg : bool) (g : tglobals) (cx : sctx)
    (params : list (ident * TypeKind)) (ret : option TypeKind) (body : stmts) : R unit :=
  _ <-- guard (negb (has_dup (map fst params))) E_AlreadyDefined ;;
  te <-- add_params p g (rev params) [ [] ] ;;
  _ <-- match ret with Some t => guard (type_defined p t) E_NotDefined | None => ROk tt end ;;
  _ <-- check_stmts p dbg (sigs_of p) g cx te body ;;
  ROk tt.
