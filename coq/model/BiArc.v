(** Interleaving model of [aranya-fast-channels/src/memory/lender.rs]:
    [biarc::BiArc] (the two-handle arc with one [AtomicBool]) as used by
    [Lender] and [Loan].

    Shared state: the flag [state] (STATE_SHARED = true), the number of times
    the allocation has been freed, and — as ghost state that mirrors Rust's
    ownership discipline — whether the [Lender] value is still owned by the
    client ([lown]), whether its handle has not yet executed its drop swap
    ([llive]), how many [&Lender] borrows are in progress ([borrows]), and a
    flag [uaf] set by any access to the allocation after it was freed.

    Each thread owns [loans] Loan handles.  A client is any interleaving of
      lend        ([Lender::lend] = [BiArc::try_clone]: swap(SHARED))
      shared      ([Lender::shared] = [get_unconditional]: plain read)
      get         ([Loan::get_mut] = [get_if_shared]: load; then the access through [&mut X])
      get_ref     ([Loan::get_ref] = [get_if_shared]: load; then the access through [&X])
      drop loan   ([BiArc::drop]: swap(UNSHARED); free iff the old value was UNSHARED)
      drop lender (same code on the Lender's handle)
    chosen by the schedule; what safe Rust forbids is disabled: using a Loan one
    does not own, borrowing the Lender after it was moved into [drop], dropping
    the Lender while a [&Lender] call is in progress.

    One model step = one yield point of the hooks:
      site 40 Idle (dispatch of the next operation)   site 20 PLend   site 24 PShared
      site 21 PGet / PGetRef    site 41 PAccess (client holds [&mut X])    site 43 PAccessRef ([&X])
      site 22 PDropLoan / PDropLender (the swap)        site 23 PFree *)
From Coq Require Import String.
From Aranya Require Import base.Tactics base.Interleave gen.GenConc.

Inductive bpc := BIdle | BLend | BShared | BGet | BAccess | BGetRef | BAccessRef | BDropLoan | BDropLender | BFree.
Inductive bop := OLend | OShared | OGet | ODropLoan | ODropLender | OGetRef.

(** [res]: outcome of the thread's last operation
    1 lend=Some 2 lend=None 3 get_mut=Some 4 get_mut=None 5 drop freed 6 drop kept 7 shared read
    8 get_ref=Some 9 get_ref=None *)
Record blocal := BL { bpc_of : bpc; loans : nat; res : N }.
Record bshared := BS { state : bool; lown : bool; llive : bool; borrows : nat; freed : nat; uaf : bool }.
Inductive bevent := BEv (t : nat) (o : bop).
Definition btid (e : bevent) : nat := match e with BEv t _ => t end.

(** Any access to the allocation after it was freed is recorded. *)
Definition touch (s : bshared) : bool := uaf s || (0 <? freed s)%nat.

Definition bstep (e : bevent) (l : blocal) (s : bshared) : option (blocal * bshared) :=
  let '(BEv _ o) := e in
  match bpc_of l with
  | BIdle =>
    match o with
    | OLend => if lown s then Some (BL BLend (loans l) (res l), BS (state s) (lown s) (llive s) (Datatypes.S (borrows s)) (freed s) (uaf s)) else None
    | OShared => if lown s then Some (BL BShared (loans l) (res l), BS (state s) (lown s) (llive s) (Datatypes.S (borrows s)) (freed s) (uaf s)) else None
    | OGet => if (1 <=? loans l)%nat then Some (BL BGet (loans l) (res l), s) else None
    | OGetRef => if (1 <=? loans l)%nat then Some (BL BGetRef (loans l) (res l), s) else None
    | ODropLoan => if (1 <=? loans l)%nat then Some (BL BDropLoan (loans l) (res l), s) else None
    | ODropLender =>
      if lown s && (borrows s =? 0)%nat
      then Some (BL BDropLender (loans l) (res l), BS (state s) false (llive s) (borrows s) (freed s) (uaf s))
      else None
    end
  | BLend =>      (* state.swap(STATE_SHARED) *)
    let s' := BS state_shared (lown s) (llive s) (pred (borrows s)) (freed s) (touch s) in
    if Bool.eqb (state s) state_unshared
    then Some (BL BIdle (Datatypes.S (loans l)) 1, s')
    else Some (BL BIdle (loans l) 2, s')
  | BShared =>    (* &self.inner().value *)
    Some (BL BIdle (loans l) 7, BS (state s) (lown s) (llive s) (pred (borrows s)) (freed s) (touch s))
  | BGet =>       (* state.load() *)
    let s' := BS (state s) (lown s) (llive s) (borrows s) (freed s) (touch s) in
    if Bool.eqb (state s) state_shared
    then Some (BL BAccess (loans l) 3, s')
    else Some (BL BIdle (loans l) 4, s')
  | BAccess =>    (* the client uses (&S, &mut X) *)
    Some (BL BIdle (loans l) (res l), BS (state s) (lown s) (llive s) (borrows s) (freed s) (touch s))
  | BGetRef =>    (* get_ref: the same conditional state.load() *)
    let s' := BS (state s) (lown s) (llive s) (borrows s) (freed s) (touch s) in
    if Bool.eqb (state s) state_shared
    then Some (BL BAccessRef (loans l) 8, s')
    else Some (BL BIdle (loans l) 9, s')
  | BAccessRef => (* the client uses (&S, &X) *)
    Some (BL BIdle (loans l) (res l), BS (state s) (lown s) (llive s) (borrows s) (freed s) (touch s))
  | BDropLoan =>  (* state.swap(STATE_UNSHARED) on a Loan's handle *)
    let s' := BS state_unshared (lown s) (llive s) (borrows s) (freed s) (touch s) in
    if Bool.eqb (state s) state_unshared
    then Some (BL BFree (pred (loans l)) 5, s')
    else Some (BL BIdle (pred (loans l)) 6, s')
  | BDropLender => (* state.swap(STATE_UNSHARED) on the Lender's handle *)
    let s' := BS state_unshared (lown s) false (borrows s) (freed s) (touch s) in
    if Bool.eqb (state s) state_unshared
    then Some (BL BFree (loans l) 5, s')
    else Some (BL BIdle (loans l) 6, s')
  | BFree =>      (* drop(Box::from_raw(..)) *)
    Some (BL BIdle (loans l) (res l), BS (state s) (lown s) (llive s) (borrows s) (Datatypes.S (freed s)) (uaf s))
  end.

Definition bstate := gstate bshared blocal.

(** [Lender::new] then [n] client threads. *)
Definition binit (n : nat) : bstate :=
  G (BS state_unshared true true O O false) (repeat (BL BIdle O 0%N) n).

Definition brun := run btid bstep.
Definition bgstep := gstep btid bstep.

(** Counters over the thread table. *)
Definition is_pc (p : bpc) (l : blocal) : nat :=
  match bpc_of l, p with
  | BIdle, BIdle | BLend, BLend | BShared, BShared | BGet, BGet | BAccess, BAccess
  | BGetRef, BGetRef | BAccessRef, BAccessRef | BDropLoan, BDropLoan | BDropLender, BDropLender | BFree, BFree => 1
  | _, _ => 0
  end.
(** A thread in one of these states is using a Loan it owns. *)
Definition needs_loan (p : bpc) : bool :=
  match p with BGet | BAccess | BGetRef | BAccessRef | BDropLoan => true | _ => false end.
Definition n_loans (g : bstate) : nat := sumf loans (th g).
Definition n_at (p : bpc) (g : bstate) : nat := sumf (is_pc p) (th g).
Definition b2n (b : bool) : nat := if b then 1 else 0.
(** Live handles: the Lender's (until its drop swap) and every Loan (until its drop swap). *)
Definition handles (g : bstate) : nat := b2n (llive (sh g)) + n_loans g.

(** ---- observation for the schedule replay ---- *)
Open Scope N_scope.
Definition bsite (l : blocal) : N :=
  match bpc_of l with
  | BIdle => 8 | BLend => 20 | BShared => 24 | BGet => 21 | BAccess => 9 | BGetRef => 21 | BAccessRef => 11
  | BDropLoan => 22 | BDropLender => 22 | BFree => 23
  end.
Fixpoint bdigits (ls : list blocal) : list N :=
  match ls with
  | [] => []
  | l :: r =>
    match bpc_of l with
    | BIdle => bsite l :: N.of_nat (loans l) :: res l :: bdigits r
    | _ => bsite l :: 0 :: 0 :: bdigits r
    end
  end.
(** [freed; per thread: site, loans, last result] — loans and result as published by an idle
    thread, 0 while an operation is in progress (site 40/41 are printed as 8/9 to stay below 32) *)
Definition bobs_digits (g : bstate) : list N := N.of_nat (freed (sh g)) :: bdigits (th g).
Definition bpack (ds : list N) : N := fold_left (fun acc d => acc * 32 + d) ds 0.
Definition bobs (g : bstate) : N := bpack (bobs_digits g).
Definition bhash_step (h : N) (o : N) : N := (h * 1000003 + o + 1) mod 2305843009213693951.
Fixpoint bdigest_from (h : N) (sched : list bevent) (g : bstate) : N * bstate :=
  match sched with
  | [] => (h, g)
  | e :: r => let g' := exec btid bstep g e in bdigest_from (bhash_step h (bobs g')) r g'
  end.
Definition bdigest (sched : list bevent) (g : bstate) : N * N :=
  let '(h, g') := bdigest_from 7 sched g in (h, bobs g').
