(** The block / LRU / spill representation of the convergence map refines the
    pure map ([conv_query] on an association list), for every block size
    B >= 1, every number of in-memory blocks >= 1 and every root capacity
    (exceeding it is the error [RootOverflow], never a wrong answer). *)
From Coq Require Import Permutation.
From Aranya Require Import base.Tactics model.Dag model.Braid model.ConvSpill proofs.BraidDag proofs.BraidCount.

Section CS.
  Variable mc : N -> N.
  Variable B : nat.
  Variable RC : nat.
  Hypothesis HB : 1 <= B.

  Notation spill_lru := (spill_lru RC).
  Notation insert_entry := (insert_entry mc B RC).
  Notation install_block := (install_block RC).
  Notation lookup := (lookup mc RC).
  Notation disk_search := (disk_search mc RC).
  Notation block_insert := (block_insert mc).
  Notation read_block := (read_block mc).

  Definition in_range (b : cblock) : Prop := forall e, In e (ents b) -> (bmin b <= mc (fst e) <= bmax b)%N.

  Record Inv (st : cstate) : Prop := {
    I_active : active st < length (blocks st);
    I_blocks : forall b, In b (blocks st) -> length (ents b) <= B /\ in_range b;
    I_root : forall nd, In nd (root st) -> exists es, file_get (file st) (noff nd) = Some es
               /\ nnum nd <= length es /\ nnum nd <= B
               /\ forall e, In e (firstn (nnum nd) es) -> (nmin nd <= mc (fst e) <= nmax nd)%N;
    I_file : forall o es, In (o, es) (file st) -> (o < next_off st)%N;
    I_keys : NoDup (map fst (absmap st));
  }.

  (** ** list surgery *)
  Lemma nodup_app_r {T} (l1 l2 : list T) : NoDup (l1 ++ l2) -> NoDup l2.
  Proof. induction l1 as [|x l1 IH]; cbn; auto. intros H. inv H. auto. Qed.

  Lemma upd_split {T} (l : list T) i d : i < length l ->
    exists l1 l2, l = l1 ++ nth i l d :: l2 /\ (forall v, upd l i v = l1 ++ v :: l2) /\ length l1 = i.
  Proof.
    revert i; induction l as [|y l IH]; intros [|i] H; cbn in *; try lia.
    - exists [], l. auto.
    - destruct (IH i) as [l1 [l2 [E1 [E2 E3]]]]; [lia|]. exists (y :: l1), l2. cbn. rewrite <- E1, E3.
      split; [auto|split; [intros v; rewrite E2; auto|auto]].
  Qed.

  Lemma upd_length {T} (l : list T) i v : length (upd l i v) = length l.
  Proof. revert i; induction l as [|y l IH]; intros [|i]; cbn; auto. Qed.

  Lemma upd_in {T} (l : list T) i v x : In x (upd l i v) -> x = v \/ In x l.
  Proof.
    revert i; induction l as [|y l IH]; intros [|i]; cbn; auto.
    - intros [<-|H]; auto.
    - intros [<-|H]; auto. destruct (IH _ H); auto.
  Qed.

  Lemma nth_upd_same {T} (l : list T) i v d : i < length l -> nth i (upd l i v) d = v.
  Proof. revert i; induction l as [|y l IH]; intros [|i] H; cbn in *; try lia; auto. apply IH; lia. Qed.

  Lemma concat_mid (l1 l2 : list cblock) x0 b :
    Permutation (ents x0 ++ concat (map ents (l1 ++ b :: l2))) (ents b ++ concat (map ents (l1 ++ x0 :: l2))).
  Proof.
    rewrite !map_app, !concat_app. cbn [map concat].
    set (c1 := concat (map ents l1)). set (c2 := concat (map ents l2)).
    transitivity (c1 ++ ents x0 ++ ents b ++ c2).
    - rewrite !app_assoc. apply Permutation_app_tail. apply Permutation_app_tail. apply Permutation_app_comm.
    - transitivity (c1 ++ ents b ++ ents x0 ++ c2).
      + apply Permutation_app_head. rewrite !app_assoc. apply Permutation_app_tail. apply Permutation_app_comm.
      + rewrite !app_assoc. apply Permutation_app_tail. apply Permutation_app_tail. apply Permutation_app_comm.
  Qed.

  Lemma concat_upd (bs : list cblock) i b : i < length bs ->
    Permutation (ents (nth i bs block_new) ++ concat (map ents (upd bs i b))) (ents b ++ concat (map ents bs)).
  Proof.
    intros H. destruct (upd_split bs i block_new H) as [l1 [l2 [E1 [E2 _]]]].
    remember (nth i bs block_new) as x0. rewrite E2, E1. apply concat_mid.
  Qed.

  Lemma swap_remove_perm {T} (l : list T) i x : nth_error l i = Some x -> Permutation (x :: swap_remove l i) l.
  Proof.
    revert i; induction l as [|y l IH]; intros [|i]; cbn [nth_error swap_remove]; try discriminate.
    - intros H; inv H. destruct (rev l) as [|z r] eqn:Er.
      + assert (l = []) by (destruct l; auto; cbn in Er; destruct (rev l); discriminate). subst. auto.
      + assert (El : l = removelast l ++ [z]).
        { assert (l <> []) by (intros ->; discriminate).
          rewrite (app_removelast_last z H) at 1. f_equal. f_equal.
          rewrite <- (rev_involutive l), Er. cbn. rewrite last_last. auto. }
        rewrite El at 2. apply perm_skip. apply Permutation_cons_append.
    - intros H. rewrite perm_swap. apply perm_skip. auto.
  Qed.

  Lemma removelast_in {T} (l : list T) x : In x (removelast l) -> In x l.
  Proof.
    induction l as [|a l IHl]; [intros []|]. cbn [removelast]. destruct l as [|b l']; [intros []|].
    intros [<-|H]; [left; auto|right; apply IHl; auto].
  Qed.

  Lemma swap_remove_in {T} (l : list T) i x : In x (swap_remove l i) -> In x l.
  Proof.
    revert i; induction l as [|y l IH]; intros [|i]; cbn [swap_remove]; auto.
    - destruct (rev l) as [|z r] eqn:Er; [intros []|]. intros [<-|H].
      + right. apply in_rev. rewrite Er. cbn; auto.
      + right. apply removelast_in; auto.
    - intros [<-|H]; [left; auto|right; eapply IH; eauto].
  Qed.

  Lemma swap_remove_length {T} (l : list T) i : length (swap_remove l i) <= length l.
  Proof.
    revert i; induction l as [|y l IH]; intros [|i]; cbn [swap_remove length]; auto.
    - destruct (rev l) eqn:Er; cbn; [lia|]. 
      assert (length (removelast l) <= length l); [|lia]. clear. induction l as [|a l IHl]; cbn; auto. destruct l; cbn in *; lia.
    - specialize (IH i). lia.
  Qed.

  (** ** file *)
  Lemma file_get_in f off es : file_get f off = Some es -> In (off, es) f.
  Proof.
    induction f as [|[o e] r IH]; cbn; [discriminate|]. destruct (o =? off)%N eqn:E.
    - intros H; inv H. apply N.eqb_eq in E. subst; auto.
    - auto.
  Qed.

  Lemma node_ents_newfile st nd (es : list entry) : Inv st -> In nd (root st) ->
    match file_get ((next_off st, es) :: file st) (noff nd) with Some e => firstn (nnum nd) e | None => [] end = node_ents st nd.
  Proof.
    intros HI Hnd. destruct (I_root st HI nd Hnd) as [es' [H1 _]].
    cbn [file_get]. destruct (next_off st =? noff nd)%N eqn:E; [|reflexivity].
    apply N.eqb_eq in E. apply file_get_in in H1. apply (I_file st HI) in H1. lia.
  Qed.

  (** ** blocks *)
  Lemma fold_insert_ents l : forall b, ents (fold_left block_insert l b) = ents b ++ l.
  Proof. induction l as [|e l IH]; intros b; cbn [fold_left]; [rewrite app_nil_r; auto|]. rewrite IH. cbn. rewrite <- app_assoc. auto. Qed.

  Lemma block_insert_range b e : in_range b -> in_range (block_insert b e).
  Proof.
    intros H x Hx. cbn [ents bmin bmax ConvSpill.block_insert] in *. apply in_app_or in Hx as [Hx|[<-|[]]].
    - specialize (H x Hx). lia.
    - lia.
  Qed.

  Lemma fold_insert_range l : forall b, in_range b -> in_range (fold_left block_insert l b).
  Proof. induction l as [|e l IH]; intros b H; cbn [fold_left]; auto. apply IH. apply block_insert_range; auto. Qed.

  Lemma block_new_range : in_range block_new.
  Proof. intros e []. Qed.

  Lemma find_ent_some l x i : find_ent l x = Some i -> exists n, nth_error l i = Some (x, n).
  Proof.
    revert i; induction l as [|[y k] l IH]; intros i; cbn [find_ent fst]; [discriminate|].
    destruct (y =? x)%N eqn:E.
    - intros H; inv H. apply N.eqb_eq in E. subst. cbn. eauto.
    - destruct (find_ent l x) eqn:Ef; cbn; [|discriminate]. intros H; inv H. cbn. apply IH; auto.
  Qed.

  Lemma find_ent_none l x : find_ent l x = None -> ~ In x (map fst l).
  Proof.
    induction l as [|[y k] l IH]; cbn [find_ent fst map In]; [tauto|].
    destruct (y =? x)%N eqn:E; [discriminate|]. apply N.eqb_neq in E.
    destruct (find_ent l x); cbn; [discriminate|]. intros _ [H|H]; auto. apply IH; auto.
  Qed.

  Lemma find_mem_some bs : forall i x bi ei, find_mem bs i x = Some (bi, ei) ->
    i <= bi /\ bi - i < length bs /\ exists n, nth_error (ents (nth (bi - i) bs block_new)) ei = Some (x, n).
  Proof.
    induction bs as [|b r IH]; intros i x bi ei; cbn [find_mem]; [discriminate|].
    destruct (find_ent (ents b) x) as [e|] eqn:Ef.
    - intros H; inv H. replace (bi - bi) with 0 by lia. cbn. split; [lia|split; [lia|]]. apply find_ent_some; auto.
    - intros H. apply IH in H as [H1 [H2 H3]]. split; [lia|split; [cbn; lia|]].
      replace (bi - i) with (S (bi - S i)) by lia. cbn. auto.
  Qed.

  Lemma find_mem_none bs : forall i x, find_mem bs i x = None -> ~ In x (map fst (concat (map ents bs))).
  Proof.
    induction bs as [|b r IH]; intros i x; cbn [find_mem map concat]; [cbn; tauto|].
    destruct (find_ent (ents b) x) eqn:Ef; [discriminate|]. intros H.
    rewrite map_app, in_app_iff. intros [Hx|Hx]; [eapply find_ent_none; eauto|eapply IH; eauto].
  Qed.

  (** ** the abstraction under the basic state changes *)
  Lemma absmap_blocks st bs' : 
    absmap {| blocks := bs'; active := active st; root := root st; file := file st; next_off := next_off st; access := access st |}
    = concat (map ents bs') ++ concat (map (node_ents st) (root st)).
  Proof. reflexivity. Qed.

  Lemma nth_in_blocks st i : i < length (blocks st) -> In (blk st i) (blocks st).
  Proof. intros H. unfold blk. apply nth_In; auto. Qed.

  (** [spill_lru] keeps the content and leaves the active block empty. *)
  Lemma lru_go_bound bs : forall i best bv, best < i -> lru_go bs i best bv < i + length bs.
  Proof.
    induction bs as [|b r IH]; intros i best bv H; cbn [lru_go length]; [lia|].
    destruct (lastacc b <? bv)%N; [specialize (IH (S i) i (lastacc b))|specialize (IH (S i) best bv)]; lia.
  Qed.

  Lemma lru_block_bound st : 0 < length (blocks st) -> lru_block st < length (blocks st).
  Proof.
    unfold lru_block. destruct (blocks st) as [|b r]; cbn [length]; [lia|]. intros _.
    pose proof (lru_go_bound r 1 0 (lastacc b)). lia.
  Qed.

  Lemma spill_lru_ok st st' : Inv st -> spill_lru st = COk st' ->
    Inv st' /\ Permutation (absmap st') (absmap st) /\ ents (blk st' (active st')) = [] /\ length (blocks st') = length (blocks st)
    /\ access st' = access st.
  Proof.
    intros HI. unfold ConvSpill.spill_lru.
    assert (Hl : lru_block st < length (blocks st)) by (apply lru_block_bound; pose proof (I_active st HI); lia).
    set (lru := lru_block st) in *. set (b := blk st lru).
    destruct (ents b) as [|e0 er] eqn:Eb.
    - intros H; inv H. cbn [active blocks]. split; [|split; [reflexivity|split; [exact Eb|auto]]].
      destruct HI. constructor; auto.
    - rewrite <- Eb. destruct (length (root st) =? RC); [discriminate|]. intros H; inv H.
      cbn [blocks active access]. unfold blk at 1. cbn [blocks]. rewrite nth_upd_same by auto.
      assert (Hbin : In b (blocks st)) by (apply nth_in_blocks; auto).
      destruct (I_blocks st HI b Hbin) as [Hlen Hrange].
      assert (Hperm : Permutation
          (absmap {| blocks := upd (blocks st) lru block_new; active := lru;
                     root := root st ++ [{| nmin := bmin b; nmax := bmax b; noff := next_off st; nnum := length (ents b) |}];
                     file := (next_off st, ents b) :: file st;
                     next_off := (next_off st + N.of_nat (length (ents b)) * entry_bytes)%N; access := access st |})
          (absmap st)).
      { unfold absmap. cbn [blocks root file]. rewrite map_app, concat_app. cbn [map concat].
        unfold node_ents at 2. cbn [file noff nnum file_get]. rewrite N.eqb_refl, firstn_all, app_nil_r.
        assert (Eold : map (node_ents {| blocks := upd (blocks st) lru block_new; active := lru;
                     root := root st ++ [{| nmin := bmin b; nmax := bmax b; noff := next_off st; nnum := length (ents b) |}];
                     file := (next_off st, ents b) :: file st;
                     next_off := (next_off st + N.of_nat (length (ents b)) * entry_bytes)%N; access := access st |}) (root st)
                     = map (node_ents st) (root st)).
        { apply map_ext_in. intros nd Hnd. unfold node_ents at 1. cbn [file]. apply node_ents_newfile; auto. }
        rewrite Eold.
        pose proof (concat_upd (blocks st) lru block_new Hl) as Hc. fold b in Hc. cbn [ents block_new app] in Hc.
        set (U := concat (map ents (upd (blocks st) lru block_new))) in *.
        set (R := concat (map (node_ents st) (root st))).
        transitivity ((ents b ++ U) ++ R).
        - rewrite <- app_assoc. rewrite (Permutation_app_comm (ents b) (U ++ R)). rewrite <- app_assoc. reflexivity.
        - apply Permutation_app_tail. exact Hc. }
      split; [|split; [exact Hperm|split; [reflexivity|split; [apply upd_length|reflexivity]]]].
      constructor; cbn [active blocks root file next_off].
      + rewrite upd_length. auto.
      + intros b' Hb'. apply upd_in in Hb' as [->|Hb']; [split; [cbn; lia|apply block_new_range]|apply (I_blocks st HI); auto].
      + intros nd Hnd. apply in_app_or in Hnd as [Hnd|[<-|[]]].
        * destruct (I_root st HI nd Hnd) as [es [H1 [H2 [H3 H4]]]]. exists es. split; [|auto].
          cbn [file_get]. destruct (next_off st =? noff nd)%N eqn:E; auto.
          apply N.eqb_eq in E. apply file_get_in in H1. apply (I_file st HI) in H1. lia.
        * exists (ents b). cbn [noff nnum nmin nmax file_get]. rewrite N.eqb_refl. split; [auto|split; [lia|split; [auto|]]].
          rewrite firstn_all. intros e He. apply Hrange; auto.
      + intros o es [H|H]; [inv H|apply (I_file st HI) in H]; try lia.
        rewrite Eb. cbn [length]. unfold entry_bytes. lia.
      + eapply Permutation_NoDup; [|apply (I_keys st HI)]. apply Permutation_map. symmetry. exact Hperm.
  Qed.

  Lemma set_blk_perm st i b : i < length (blocks st) ->
    Permutation (ents (blk st i) ++ absmap (set_blk st i b)) (ents b ++ absmap st).
  Proof.
    intros H. unfold absmap, set_blk. cbn [blocks root file].
    assert (E : map (node_ents {| blocks := upd (blocks st) i b; active := active st; root := root st; file := file st;
                                  next_off := next_off st; access := access st |}) (root st) = map (node_ents st) (root st)) by reflexivity.
    rewrite E. rewrite !app_assoc. apply Permutation_app_tail. apply concat_upd; auto.
  Qed.

  Lemma Inv_set_blk st i b : Inv st -> i < length (blocks st) -> length (ents b) <= B -> in_range b ->
    NoDup (map fst (absmap (set_blk st i b))) -> Inv (set_blk st i b).
  Proof.
    intros HI Hi Hlen Hr Hnd. constructor; cbn [set_blk active blocks root file next_off]; auto.
    - rewrite upd_length. apply (I_active st HI).
    - intros b' Hb'. apply upd_in in Hb' as [->|Hb']; auto. apply (I_blocks st HI); auto.
    - apply (I_root st HI).
    - apply (I_file st HI).
  Qed.

  (** ** insertion *)
  Theorem insert_refines st e st' : Inv st -> ~ In (fst e) (map fst (absmap st)) -> insert_entry st e = COk st' ->
    Inv st' /\ Permutation (absmap st') (e :: absmap st).
  Proof.
    intros HI Hfresh. unfold ConvSpill.insert_entry.
    assert (Hgo : forall s, Inv s -> Permutation (absmap s) (absmap st) -> length (ents (blk s (active s))) < B ->
              Inv (set_blk s (active s) (block_insert (blk s (active s)) e))
              /\ Permutation (absmap (set_blk s (active s) (block_insert (blk s (active s)) e))) (e :: absmap st)).
    { intros s Hs Hp Hlt. pose proof (I_active s Hs) as Ha.
      pose proof (set_blk_perm s (active s) (block_insert (blk s (active s)) e) Ha) as Hsp.
      cbn [ents ConvSpill.block_insert] in Hsp. rewrite <- app_assoc in Hsp. apply Permutation_app_inv_l in Hsp.
      assert (Hperm : Permutation (absmap (set_blk s (active s) (block_insert (blk s (active s)) e))) (e :: absmap st)).
      { rewrite Hsp. cbn [app]. apply perm_skip. auto. }
      split; auto.
      destruct (I_blocks s Hs _ (nth_in_blocks s _ Ha)) as [_ Hr].
      apply Inv_set_blk; auto.
      - cbn [ents ConvSpill.block_insert]. rewrite app_length. cbn. lia.
      - apply block_insert_range; auto.
      - eapply Permutation_NoDup; [apply Permutation_map; symmetry; exact Hperm|].
        cbn [map]. constructor; auto. apply (I_keys st HI). }
    destruct (length (ents (blk st (active st))) =? B) eqn:Efull.
    - destruct (spill_lru st) as [s|er] eqn:Es; [|discriminate]. intros H; inv H.
      destruct (spill_lru_ok st s HI Es) as [Hs [Hp [Hempty _]]].
      apply Hgo; auto. rewrite Hempty. cbn. lia.
    - intros H; inv H. apply Nat.eqb_neq in Efull. apply Hgo; auto.
      pose proof (I_active st HI) as Ha. destruct (I_blocks st HI _ (nth_in_blocks st _ Ha)). lia.
  Qed.

  (** ** the pure map, up to permutation *)
  (** What a query does to a map with distinct keys. *)
  Definition query_rel (m : list entry) (x : N) (m' : list entry) (go : bool) : Prop :=
    (exists n, In (x, n) m /\ (1 < n)%N /\ go = false /\ exists r, Permutation m ((x, n) :: r) /\ Permutation m' ((x, (n - 1)%N) :: r))
    \/ (exists n, In (x, n) m /\ (n <= 1)%N /\ go = true /\ Permutation m ((x, n) :: m'))
    \/ (~ In x (map fst m) /\ go = true /\ Permutation m' m).

  Lemma conv_query_rel m x : query_rel m x (fst (conv_query m x)) (snd (conv_query m x)).
  Proof.
    induction m as [|[y k] r IH]; cbn [conv_query].
    - right; right. cbn. auto.
    - destruct (y =? x)%N eqn:E.
      + apply N.eqb_eq in E. subst y. destruct (1 <? k)%N eqn:Ek; cbn [fst snd].
        * left. exists k. apply N.ltb_lt in Ek. split; [cbn; auto|split; [auto|split; [auto|exists r; auto]]].
        * right; left. exists k. apply N.ltb_ge in Ek. split; [cbn; auto|auto].
      + apply N.eqb_neq in E. destruct (conv_query r x) as [r' b] eqn:Eq. cbn [fst snd] in *.
        destruct IH as [[n [H1 [H2 [H3 [q [H4 H5]]]]]]|[[n [H1 [H2 [H3 H4]]]]|[H1 [H2 H3]]]].
        * left. exists n. split; [cbn; auto|split; [auto|split; [auto|]]]. exists ((y, k) :: q). split.
          -- rewrite H4. apply perm_swap.
          -- rewrite H5. apply perm_swap.
        * right; left. exists n. split; [cbn; auto|split; [auto|split; [auto|]]]. rewrite H4. apply perm_swap.
        * right; right. split; [|split; auto]. cbn [map fst In]. intros [H|H]; auto.
  Qed.

  (** With distinct keys the relation determines the answer, and the new map up to permutation. *)
  Lemma nodup_key_unique (m : list entry) x n n' : NoDup (map fst m) -> In (x, n) m -> In (x, n') m -> n = n'.
  Proof.
    induction m as [|[y k] r IH]; cbn [map fst In]; [tauto|]. intros Hnd. inv Hnd. intros [H|H] [H'|H'].
    - congruence.
    - inv H. exfalso. apply H1. apply (in_map fst) in H'. auto.
    - inv H'. exfalso. apply H1. apply (in_map fst) in H. auto.
    - auto.
  Qed.

  Lemma query_rel_perm m1 m2 x m1' m2' g1 g2 : NoDup (map fst m1) -> Permutation m1 m2 ->
    query_rel m1 x m1' g1 -> query_rel m2 x m2' g2 -> g1 = g2 /\ Permutation m1' m2'.
  Proof.
    intros Hnd Hp R1 R2.
    assert (Hnd2 : NoDup (map fst m2)) by (eapply Permutation_NoDup; [apply Permutation_map; exact Hp|auto]).
    assert (Hin : forall e, In e m1 <-> In e m2) by (intros e; split; apply Permutation_in; [auto|symmetry; auto]).
    assert (Hkeys : forall k, In k (map fst m1) <-> In k (map fst m2)).
    { intros k. split; apply Permutation_in; apply Permutation_map; [auto|symmetry; auto]. }
    destruct R1 as [[n [A1 [A2 [A3 [r [A4 A5]]]]]]|[[n [A1 [A2 [A3 A4]]]]|[A1 [A2 A3]]]];
    destruct R2 as [[n' [B1 [B2 [B3 [r' [B4 B5]]]]]]|[[n' [B1 [B2 [B3 B4]]]]|[B1 [B2 B3]]]].
    - assert (n = n') by (apply (nodup_key_unique m2 x); auto; apply Hin; auto). subst n'. split; [congruence|].
      rewrite A5, B5. apply perm_skip. apply (Permutation_cons_inv (a := (x, n))). rewrite <- A4, <- B4. auto.
    - assert (n = n') by (apply (nodup_key_unique m2 x); auto; apply Hin; auto). lia.
    - exfalso. apply B1. apply Hkeys. apply (in_map fst) in A1. auto.
    - assert (n = n') by (apply (nodup_key_unique m2 x); auto; apply Hin; auto). lia.
    - assert (n = n') by (apply (nodup_key_unique m2 x); auto; apply Hin; auto). subst n'. split; [congruence|].
      apply (Permutation_cons_inv (a := (x, n))). rewrite <- A4, <- B4. auto.
    - exfalso. apply B1. apply Hkeys. apply (in_map fst) in A1. auto.
    - exfalso. apply A1. apply Hkeys. apply (in_map fst) in B1. auto.
    - exfalso. apply A1. apply Hkeys. apply (in_map fst) in B1. auto.
    - split; [congruence|]. rewrite A3, B3. auto.
  Qed.

  Lemma query_rel_perm_l m m0 x m' go : Permutation m m0 -> query_rel m x m' go -> query_rel m0 x m' go.
  Proof.
    intros Hp [[n [A1 [A2 [A3 [r [A4 A5]]]]]]|[[n [A1 [A2 [A3 A4]]]]|[A1 [A2 A3]]]].
    - left. exists n. split; [eapply Permutation_in; eauto|split; [auto|split; [auto|]]]. exists r. split; auto.
      rewrite <- Hp. auto.
    - right; left. exists n. split; [eapply Permutation_in; eauto|split; [auto|split; [auto|]]]. rewrite <- Hp. auto.
    - right; right. split; [|split; auto].
      + intros H. apply A1. eapply Permutation_in; [apply Permutation_map; symmetry; exact Hp|auto].
      + rewrite A3. auto.
  Qed.

  Lemma perm_concat_map {T U} (f : T -> list U) l l' : Permutation l l' -> Permutation (concat (map f l)) (concat (map f l')).
  Proof.
    induction 1; cbn [map concat]; auto.
    - apply Permutation_app_head; auto.
    - rewrite !app_assoc. apply Permutation_app_tail. apply Permutation_app_comm.
    - etransitivity; eauto.
  Qed.

  (** the block at [bi] inside the abstraction *)
  Lemma absmap_block_split st bi : bi < length (blocks st) ->
    exists pre post, absmap st = pre ++ ents (blk st bi) ++ post
      /\ forall b', absmap (set_blk st bi b') = pre ++ ents b' ++ post.
  Proof.
    intros H. destruct (upd_split (blocks st) bi block_new H) as [l1 [l2 [E1 [E2 _]]]].
    exists (concat (map ents l1)), (concat (map ents l2) ++ concat (map (node_ents st) (root st))). split.
    - unfold absmap. rewrite E1 at 1. rewrite map_app, concat_app. cbn [map concat]. unfold blk. rewrite <- !app_assoc. reflexivity.
    - intros b'. unfold absmap, set_blk. cbn [blocks root file]. rewrite E2, map_app, concat_app. cbn [map concat]. rewrite <- !app_assoc. reflexivity.
  Qed.

  Lemma perm_mid4 {T} (pre e1 e2 post : list T) a :
    Permutation (pre ++ (e1 ++ a :: e2) ++ post) (a :: pre ++ e1 ++ e2 ++ post).
  Proof.
    assert (E1 : pre ++ (e1 ++ a :: e2) ++ post = (pre ++ e1) ++ a :: (e2 ++ post)).
    { rewrite <- !app_assoc. cbn [app]. reflexivity. }
    assert (E2 : pre ++ e1 ++ e2 ++ post = (pre ++ e1) ++ (e2 ++ post)) by (rewrite <- !app_assoc; reflexivity).
    rewrite E1, E2. symmetry. apply Permutation_middle.
  Qed.

  Lemma consume_ok st bi ei x n : Inv st -> bi < length (blocks st) ->
    nth_error (ents (blk st bi)) ei = Some (x, n) ->
    Inv (fst (consume_entry st bi ei)) /\ query_rel (absmap st) x (absmap (fst (consume_entry st bi ei))) (snd (consume_entry st bi ei)).
  Proof.
    intros HI Hbi Hn. unfold consume_entry. rewrite Hn.
    destruct (absmap_block_split st bi Hbi) as [pre [post [Eabs Eset]]].
    destruct (I_blocks st HI _ (nth_in_blocks st bi Hbi)) as [Hlen Hrange].
    assert (Hin : In (x, n) (ents (blk st bi))) by (eapply nth_error_In; eauto).
    assert (Hinabs : In (x, n) (absmap st)) by (rewrite Eabs; apply in_or_app; right; apply in_or_app; auto).
    assert (Hei : ei < length (ents (blk st bi))) by (apply nth_error_Some; congruence).
    destruct (1 <? n)%N eqn:E1; cbn [fst snd].
    - apply N.ltb_lt in E1.
      destruct (upd_split (ents (blk st bi)) ei (x, n) Hei) as [e1 [e2 [F1 [F2 _]]]].
      rewrite (nth_error_nth _ _ _ Hn) in F1.
      set (r := pre ++ e1 ++ e2 ++ post).
      assert (P1 : Permutation (absmap st) ((x, n) :: r)).
      { rewrite Eabs, F1. unfold r. apply perm_mid4. }
      assert (P2 : Permutation (absmap (set_blk st bi {| ents := upd (ents (blk st bi)) ei (x, (n - 1)%N); lastacc := access st;
                                 bmin := bmin (blk st bi); bmax := bmax (blk st bi) |})) ((x, (n - 1)%N) :: r)).
      { rewrite Eset. cbn [ents]. rewrite F2. unfold r. apply perm_mid4. }
      split.
      + apply Inv_set_blk; auto; cbn [ents bmin bmax].
        * rewrite upd_length. auto.
        * intros e He. cbn [ents bmin bmax] in *. apply upd_in in He as [->|He]; [apply (Hrange (x, n)); auto|apply Hrange; auto].
        * eapply Permutation_NoDup; [apply Permutation_map; symmetry; exact P2|].
          change (map fst ((x, (n - 1)%N) :: r)) with (map fst ((x, n) :: r)).
          eapply Permutation_NoDup; [apply Permutation_map; exact P1|]. apply (I_keys st HI).
      + left. exists n. split; [auto|split; [auto|split; [auto|exists r; auto]]].
    - apply N.ltb_ge in E1.
      assert (P : Permutation (absmap st) ((x, n) :: absmap (set_blk st bi {| ents := swap_remove (ents (blk st bi)) ei; lastacc := access st;
                                 bmin := bmin (blk st bi); bmax := bmax (blk st bi) |}))).
      { rewrite Eabs, Eset. cbn [ents]. rewrite <- (swap_remove_perm _ _ _ Hn) at 1. cbn [app]. symmetry. apply Permutation_middle. }
      split.
      + apply Inv_set_blk; auto; cbn [ents bmin bmax].
        * pose proof (swap_remove_length (ents (blk st bi)) ei). lia.
        * intros e He. cbn [ents bmin bmax] in *. apply Hrange. eapply swap_remove_in; eauto.
        * assert (Hnd := I_keys st HI). eapply Permutation_NoDup in Hnd; [|apply Permutation_map; exact P].
          cbn [map] in Hnd. inv Hnd. auto.
      + right; left. exists n. auto.
  Qed.

  Lemma read_block_ok st ri nd : Inv st -> nth_error (root st) ri = Some nd ->
    exists blkr, read_block st ri = COk blkr /\ ents blkr = node_ents st nd /\ in_range blkr /\ length (ents blkr) <= B.
  Proof.
    intros HI Hn. assert (Hnd : In nd (root st)) by (eapply nth_error_In; eauto).
    destruct (I_root st HI nd Hnd) as [es [H1 [H2 [H3 H4]]]].
    unfold ConvSpill.read_block. rewrite Hn, H1. eexists. split; [reflexivity|].
    rewrite fold_insert_ents. cbn [ents block_new app]. unfold node_ents. rewrite H1.
    split; [auto|split; [apply fold_insert_range, block_new_range|]]. rewrite firstn_length. lia.
  Qed.

  Lemma install_ok st ri nd blkr st' bi : Inv st -> nth_error (root st) ri = Some nd ->
    ents blkr = node_ents st nd -> in_range blkr -> length (ents blkr) <= B ->
    install_block st ri blkr = COk (st', bi) ->
    Inv st' /\ Permutation (absmap st') (absmap st) /\ bi < length (blocks st') /\ ents (blk st' bi) = ents blkr.
  Proof.
    intros HI Hn Hents Hrange Hlen. unfold ConvSpill.install_block.
    set (st1 := {| blocks := blocks st; active := active st; root := swap_remove (root st) ri; file := file st;
                   next_off := next_off st; access := access st |}).
    assert (Hp1 : Permutation (node_ents st nd ++ absmap st1) (absmap st)).
    { unfold absmap, st1. cbn [blocks root file].
      assert (E : map (node_ents {| blocks := blocks st; active := active st; root := swap_remove (root st) ri; file := file st;
                   next_off := next_off st; access := access st |}) (swap_remove (root st) ri) = map (node_ents st) (swap_remove (root st) ri)) by reflexivity.
      rewrite E. pose proof (perm_concat_map (node_ents st) _ _ (swap_remove_perm (root st) ri nd Hn)) as Hc. cbn [map concat] in Hc.
      rewrite <- Hc. rewrite !app_assoc. apply Permutation_app_tail. apply Permutation_app_comm. }
    assert (HI1 : Inv st1).
    { constructor; cbn [st1 active blocks root file next_off]; try apply HI.
      - intros nd' Hnd'. apply (I_root st HI). eapply swap_remove_in; eauto.
      - assert (Hnd := I_keys st HI). eapply Permutation_NoDup in Hnd; [|apply Permutation_map; symmetry; exact Hp1].
        rewrite map_app in Hnd. apply nodup_app_r in Hnd. auto. }
    destruct (spill_lru st1) as [st2|er] eqn:Es; [|discriminate]. intros H; inv H.
    destruct (spill_lru_ok st1 st2 HI1 Es) as [HI2 [Hp2 [Hempty [Hlen2 _]]]].
    pose proof (I_active st2 HI2) as Ha2.
    set (ld := {| ents := ents blkr; lastacc := access st2; bmin := bmin blkr; bmax := bmax blkr |}).
    pose proof (set_blk_perm st2 (active st2) ld Ha2) as Hsp. rewrite Hempty in Hsp. cbn [app ents ld] in Hsp.
    assert (Hperm : Permutation (absmap (set_blk st2 (active st2) ld)) (absmap st)).
    { rewrite Hsp, Hents, Hp2. auto. }
    split; [|split; [auto|split]].
    - apply Inv_set_blk; auto.
      eapply Permutation_NoDup; [apply Permutation_map; symmetry; exact Hperm|apply (I_keys st HI)].
    - cbn [set_blk blocks]. rewrite upd_length. auto.
    - unfold blk. cbn [set_blk blocks]. rewrite nth_upd_same by auto. reflexivity.
  Qed.

  Lemma install_err st ri blkr e : install_block st ri blkr = CErr e -> e = RootOverflow.
  Proof.
    unfold ConvSpill.install_block, ConvSpill.spill_lru.
    match goal with |- context [ents ?b] => destruct (ents b) end; [discriminate|].
    match goal with |- context [?a =? RC] => destruct (a =? RC) end; [|discriminate]. intros H; inv H. auto.
  Qed.

  Definition good (st : cstate) (x : N) (res : cres (cstate * bool)) : Prop :=
    match res with
    | COk (st', go) => Inv st' /\ query_rel (absmap st) x (absmap st') go
    | CErr e => e = RootOverflow
    end.

  Lemma disk_ok : forall fuel st ri x, Inv st ->
    ~ In x (map fst (concat (map ents (blocks st)))) ->
    (forall j nd, j < ri -> nth_error (root st) j = Some nd -> ~ In x (map fst (node_ents st nd))) ->
    length (root st) <= ri + fuel ->
    good st x (disk_search fuel st ri x).
  Proof.
    assert (Hnot : forall st ri x, ~ In x (map fst (concat (map ents (blocks st)))) ->
              (forall j nd, j < ri -> nth_error (root st) j = Some nd -> ~ In x (map fst (node_ents st nd))) ->
              length (root st) <= ri -> ~ In x (map fst (absmap st))).
    { intros st ri x H1 H2 H3. unfold absmap. rewrite map_app, in_app_iff. intros [H|H]; [auto|].
      apply in_map_iff in H as [[y k] [Ey Hy]]. cbn in Ey. subst y. apply in_concat in Hy as [l [Hl Hy]].
      apply in_map_iff in Hl as [nd [<- Hnd]]. apply In_nth_error in Hnd as [j Hj].
      assert (j < length (root st)) by (apply nth_error_Some; congruence).
      apply (H2 j nd); [lia|auto|]. apply (in_map fst) in Hy. auto. }
    induction fuel as [|f IH]; intros st ri x HI Hmem Hprev Hlen; cbn [ConvSpill.disk_search].
    - split; auto. right; right. split; [apply (Hnot st ri); auto; lia|auto].
    - destruct (nth_error (root st) ri) as [nd|] eqn:En.
      2:{ split; auto. right; right. split; [apply (Hnot st ri); auto; apply nth_error_None; auto|auto]. }
      assert (Hnd : In nd (root st)) by (eapply nth_error_In; eauto).
      assert (Hnext : forall j nd', j < S ri -> nth_error (root st) j = Some nd' -> ~ In x (map fst (node_ents st nd')) ->
                 True) by auto.
      destruct ((nmin nd <=? mc x)%N && (mc x <=? nmax nd)%N) eqn:Er.
      + destruct (read_block_ok st ri nd HI En) as [blkr [Hrb [Hents [Hrange Hlenb]]]]. rewrite Hrb.
        destruct (find_ent (ents blkr) x) as [ei|] eqn:Ef.
        * destruct (install_block st ri blkr) as [[st' bi]|e] eqn:Ei.
          -- destruct (install_ok st ri nd blkr st' bi HI En Hents Hrange Hlenb Ei) as [HI' [Hp [Hbi Hsame]]].
             apply find_ent_some in Ef as [n Hn]. rewrite <- Hsame in Hn.
             destruct (consume_ok st' bi ei x n HI' Hbi Hn) as [C1 C2].
             destruct (consume_entry st' bi ei) as [st'' go]. cbn [fst snd] in *. split; auto.
             eapply query_rel_perm_l; eauto.
          -- cbn. eapply install_err; eauto.
        * apply IH; auto; [|lia]. intros j nd' Hj Hnj. destruct (Nat.eq_dec j ri) as [->|Hne]; [|apply (Hprev j); auto; lia].
          rewrite En in Hnj. inv Hnj. rewrite <- Hents. apply find_ent_none; auto.
      + apply IH; auto; [|lia]. intros j nd' Hj Hnj. destruct (Nat.eq_dec j ri) as [->|Hne]; [|apply (Hprev j); auto; lia].
        rewrite En in Hnj. inv Hnj. intros Hx. apply in_map_iff in Hx as [[y k] [Ey Hy]]. cbn in Ey. subst y.
        destruct (I_root st HI nd' Hnd) as [es [G1 [G2 [G3 G4]]]]. unfold node_ents in Hy. rewrite G1 in Hy.
        specialize (G4 _ Hy). cbn [fst] in G4. apply andb_false_iff in Er as [Er|Er]; [apply N.leb_gt in Er|apply N.leb_gt in Er]; lia.
  Qed.

  (** ** the lookup *)
  Definition conv_lookup_refines_stmt : Prop :=
    forall (st : cstate) (m : list entry) (x : N),
      Inv st -> Permutation (absmap st) m ->
      match lookup st x with
      | COk (st', go) => Inv st' /\ go = snd (conv_query m x) /\ Permutation (absmap st') (fst (conv_query m x))
      | CErr e => e = RootOverflow
      end.

  Lemma conv_lookup_refines_proof : conv_lookup_refines_stmt.
  Proof.
    intros st m x HI Hp. unfold ConvSpill.lookup.
    set (sa := {| blocks := blocks st; active := active st; root := root st; file := file st;
                  next_off := next_off st; access := (access st + 1)%N |}).
    assert (HIa : Inv sa) by (destruct HI; constructor; auto).
    assert (Eabs : absmap sa = absmap st) by reflexivity.
    assert (Hgood : good sa x (match find_mem (blocks sa) 0 x with
                               | Some (bi, ei) => COk (consume_entry sa bi ei)
                               | None => disk_search (length (root sa)) sa 0 x end)).
    { destruct (find_mem (blocks sa) 0 x) as [[bi ei]|] eqn:Ef.
      - apply find_mem_some in Ef as [_ [Hbi [n Hn]]]. rewrite Nat.sub_0_r in *.
        destruct (consume_ok sa bi ei x n HIa Hbi Hn) as [C1 C2].
        destruct (consume_entry sa bi ei) as [s' go]. cbn [fst snd good] in *. auto.
      - apply disk_ok; auto.
        + eapply find_mem_none; eauto.
        + intros j nd Hj. lia. }
    cbn [blocks root] in Hgood.
    match goal with |- match ?r with _ => _ end => destruct r as [[st' go]|e] end; cbn [good] in Hgood; auto.
    destruct Hgood as [HI' Hq]. rewrite Eabs in Hq.
    pose proof (conv_query_rel m x) as Hq2.
    destruct (query_rel_perm (absmap st) m x (absmap st') (fst (conv_query m x)) go (snd (conv_query m x)) (I_keys st HI) Hp Hq Hq2) as [E1 E2].
    auto.
  Qed.

  Lemma Inv_init nb : 1 <= nb -> Inv (cs_init nb) /\ absmap (cs_init nb) = [].
  Proof.
    intros H.
    assert (E : forall n, concat (map ents (repeat block_new n)) = []) by (induction n; cbn; auto).
    split.
    - constructor; cbn [cs_init active blocks root file next_off].
      + rewrite repeat_length. lia.
      + intros b Hb. apply repeat_spec in Hb. subst. split; [cbn; lia|apply block_new_range].
      + intros nd [].
      + intros o es [].
      + unfold absmap. cbn [cs_init blocks root map concat]. rewrite E. constructor.
    - unfold absmap. cbn [cs_init blocks root map concat]. rewrite E. reflexivity.
  Qed.
End CS.

(** * Any interleaving of BFS insertions and strand queries *)
Inductive cop := OIns (e : N * N) | OQry (x : N).

Section Run.
  Variable mc : N -> N.
  Variables B RC : nat.

  (** The pure map: insertion at the front, [conv_query]. *)
  Fixpoint run_spec (m : list (N * N)) (ops : list cop) : list bool :=
    match ops with
    | [] => []
    | OIns e :: r => run_spec (e :: m) r
    | OQry x :: r => let '(m', go) := conv_query m x in go :: run_spec m' r
    end.

  (** The implementation: [None] = ConvergenceRootOverflow. *)
  Fixpoint run_impl (st : cstate) (ops : list cop) : option (list bool) :=
    match ops with
    | [] => Some []
    | OIns e :: r => match insert_entry mc B RC st e with COk st' => run_impl st' r | CErr _ => None end
    | OQry x :: r =>
      match lookup mc RC st x with
      | COk (st', go) => option_map (cons go) (run_impl st' r)
      | CErr _ => None
      end
    end.

  (** Every location is inserted at most once (the BFS pops each location once). *)
  Fixpoint fresh_inserts (seen : list N) (ops : list cop) : Prop :=
    match ops with
    | [] => True
    | OIns e :: r => ~ In (fst e) seen /\ fresh_inserts (fst e :: seen) r
    | OQry _ :: r => fresh_inserts seen r
    end.

  Definition conv_spill_refines_stmt : Prop :=
    forall (nb : nat) (ops : list cop) (out : list bool),
      1 <= B -> 1 <= nb -> fresh_inserts [] ops ->
      run_impl (cs_init nb) ops = Some out -> out = run_spec [] ops.
End Run.

Lemma conv_query_keys m x : forall k, In k (map fst (fst (conv_query m x))) -> In k (map fst m).
Proof.
  induction m as [|[y n] r IH]; cbn [conv_query]; [cbn; auto|]. intros k.
  destruct (y =? x)%N.
  - destruct (1 <? n)%N; cbn [fst map In]; auto.
  - destruct (conv_query r x) as [r' b] eqn:E. cbn [fst map In] in *. intros [H|H]; auto.
Qed.

Lemma conv_spill_refines_proof : forall mc B RC, conv_spill_refines_stmt mc B RC.
Proof.
  intros mc B RC nb ops out HB Hnb Hfresh.
  destruct (Inv_init mc B HB nb Hnb) as [HI0 E0].
  assert (H : forall ops st m seen out, Inv mc B st -> Permutation (absmap st) m ->
             (forall k, In k (map fst m) -> In k seen) -> fresh_inserts seen ops ->
             run_impl mc B RC st ops = Some out -> out = run_spec m ops).
  { clear - HB. induction ops as [|[e|x] r IH]; intros st m seen out HI Hp Hseen Hf; cbn [run_impl run_spec].
    - intros H; inv H. auto.
    - destruct Hf as [Hf1 Hf2].
      destruct (insert_entry mc B RC st e) as [st'|er] eqn:Ei; [|discriminate]. intros H.
      assert (Hfr : ~ In (fst e) (map fst (absmap st))).
      { intros Hk. apply Hf1. apply Hseen. eapply Permutation_in; [apply Permutation_map; exact Hp|auto]. }
      edestruct insert_refines as [HI' Hp']; eauto.
      apply (IH st' (e :: m) (fst e :: seen)); auto.
      + rewrite Hp'. apply perm_skip. auto.
      + intros k [<-|Hk]; cbn; auto.
    - first [pose proof (conv_lookup_refines_proof mc B RC HB st m x HI Hp) as Hl|pose proof (conv_lookup_refines_proof mc B RC st m x HI Hp) as Hl].
      destruct (lookup mc RC st x) as [[st' go]|er]; [|discriminate].
      destruct Hl as [HI' [Hgo Hp']]. destruct (conv_query m x) as [m' go'] eqn:Eq. cbn [fst snd] in *.
      destruct (run_impl mc B RC st' r) as [o|] eqn:Er; [|discriminate]. cbn. intros H; inv H. f_equal.
      apply (IH st' m' seen); auto. intros k Hk. apply Hseen.
      pose proof (conv_query_keys m x k) as Hkk. rewrite Eq in Hkk. auto. }
  intros Hr. apply (H ops (cs_init nb) [] []); auto. rewrite E0. auto.
Qed.

(** * The lookup as it was before the repair (F30) *)
Definition mc_flat (x : N) : N := 7%N.
Definition st_f30 : cres cstate :=
  fold_left (fun s e => match s with COk s => insert_entry mc_flat 1 100 s e | CErr er => CErr er end)
    [(1, 2); (2, 2); (3, 2); (4, 2); (5, 2); (6, 2); (7, 2)]%N (COk (cs_init 3)).

(** Seven convergence points on one max_cut level, block size 1, three
    blocks: the old disk loop is still evicting blocks after 2000
    iterations when asked for location 3 (which IS in the map), while the
    repaired lookup answers after at most [length root] reads. *)
Definition conv_lookup_old_refuted_stmt : Prop :=
  exists st, st_f30 = COk st
    /\ In (3, 2)%N (absmap st)
    /\ disk_search_old mc_flat 100 2000
         {| blocks := blocks st; active := active st; root := root st; file := file st;
            next_off := next_off st; access := (access st + 1)%N |} 0 3%N = None
    /\ exists st', lookup mc_flat 100 st 3%N = COk (st', false).

Lemma conv_lookup_old_refuted_proof : conv_lookup_old_refuted_stmt.
Proof.
  eexists. split; [vm_compute; reflexivity|].
  split; [vm_compute; tauto|]. split; [vm_compute; reflexivity|].
  eexists. vm_compute. reflexivity.
Qed.
