(** C15: the writer's operations preserve the invariants of [CrashInv.v] at every
    system call, hence every crash image of every prefix of an epoch's trace has an
    allowed outcome ([crash_recovery]). *)
From Aranya Require Import base.Tactics gen.GenCrash model.Crash proofs.CrashBase proofs.CrashInv.
Open Scope Z_scope.

(** * Stepping through a chunk of events *)

Definition steps_ok (P : list ev -> Prop) (evs chunk : list ev) : Prop :=
  forall k, P (evs ++ firstn k chunk).

Lemma steps_nil (P : list ev -> Prop) evs : P evs -> steps_ok P evs [].
Proof. intros H k. rewrite firstn_nil, app_nil_r. auto. Qed.

Lemma steps_cons (P : list ev -> Prop) evs e chunk : P evs -> steps_ok P (evs ++ [e]) chunk -> steps_ok P evs (e :: chunk).
Proof.
  intros H0 H [|k]; cbn [firstn]; [rewrite app_nil_r; auto|].
  specialize (H k). rewrite <- app_assoc in H. exact H.
Qed.

Lemma steps_app (P : list ev -> Prop) evs c1 c2 : steps_ok P evs c1 -> steps_ok P (evs ++ c1) c2 -> steps_ok P evs (c1 ++ c2).
Proof.
  intros H1 H2 k. rewrite firstn_app.
  destruct (Nat.le_gt_cases k (length c1)) as [Hle|Hgt].
  - replace (k - length c1)%nat with 0%nat by lia. cbn [firstn]. rewrite app_nil_r. apply H1.
  - rewrite firstn_all2 by lia. rewrite app_assoc. apply H2.
Qed.

Section Proofs.
Variable sip : list N -> N.
Hypothesis sip_range : forall l, (sip l <= u64_max)%N.

Notation lv := (load_valid sip).
Notation idle := (idle sip).
Notation rw := (rw sip).
Notation good := (good sip).
Notation tear_ok := (tear_ok sip).

(** * Root-write steps *)

Lemma in_snoc_other evs e off bs :
  (forall o b, e <> EAppended o b) -> In (EAppended off bs) (evs ++ [e]) -> In (EAppended off bs) evs.
Proof. intros Hne H. apply in_app_or in H. destruct H as [H|[H|[]]]; auto. exfalso. eapply Hne; eauto. Qed.

Lemma view_synced d : pnd d = [] -> view d = dur d.
Proof. unfold view. intros ->. reflexivity. Qed.

Lemma rw_begin s evs stable fo ae r :
  idle s evs stable fo ae -> pnd (D s evs) = [] ->
  wf_root r -> checksum r = calc_checksum sip r -> generation r = (stable_gen stable + 1)%N ->
  free_offset r = fo -> tear_ok (dur (D s evs)) (next_slot stable) r ->
  rw s (evs ++ [ERootBegin r]) stable r (dur (D s evs)).
Proof.
  intros [Hst Hinf Hord Hsz Hp Hv Hd Hold Hsl Hsep] Hpn Hwf Hck Hgen Hfo Htear.
  assert (HD : D s (evs ++ [ERootBegin r]) = D s evs) by (rewrite D_snoc; reflexivity).
  constructor; auto.
  - unfold stable_root in *. rewrite marks_snoc. cbn [mark_step fst]. auto.
  - unfold inflight. rewrite marks_snoc. reflexivity.
  - lia.
  - intros off bs Hin. apply in_snoc_other in Hin; [|discriminate].
    destruct (Hv off bs Hin) as (A & B & C). rewrite view_synced in C by auto. splitc; auto. lia.
  - intros img' Hc. rewrite HD in Hc. apply crash_synced in Hc; auto. subst img'. split; [lia | auto].
  - intros o b Hin. apply in_snoc_other in Hin; [|discriminate]. auto.
  - intros pre r' He. apply app_inj_tail in He. destruct He as [-> _]. exact Hpn.
Qed.

Lemma rw_pwrite s evs stable r D0 off bs :
  rw s evs stable r D0 -> piece_of (rec (ser_root r)) (next_slot stable) off bs ->
  rw s (evs ++ [ESys (SPwrite off bs)]) stable r D0.
Proof.
  intros [Hst Hinf Hwf Hck Hgen Hfree Hrecs Hold Hsl Htear Himgs Hsep Hsyn] (Hp1 & Hp2 & Hp3).
  constructor; auto.
  - unfold stable_root in *. rewrite marks_sys. auto.
  - unfold inflight in *. rewrite marks_sys. auto.
  - intros o b Hin. apply in_snoc_other in Hin; [|discriminate]. auto.
  - intros img' Hc. rewrite D_snoc in Hc. cbn [ev_step] in Hc.
    apply crash_step_pwrite in Hc. destruct Hc as (mid & Hmid & Hsz & Hpt).
    destruct (Himgs mid Hmid) as [Hsz0 Hpt0]. split; [lia|].
    intros x. destruct (Hpt x) as [E|[Hr E]].
    + rewrite E. apply Hpt0.
    + right. split; [lia|]. rewrite E. apply Hp3. auto.
  - intros o b Hin. apply in_snoc_other in Hin; [|discriminate]. auto.
  - intros pre r' He. apply app_inj_tail in He. destruct He as [_ He]. discriminate.
Qed.

Lemma rw_sync s evs stable r D0 :
  rw s evs stable r D0 -> rw s (evs ++ [ESys SFdatasync]) stable r D0.
Proof.
  intros [Hst Hinf Hwf Hck Hgen Hfree Hrecs Hold Hsl Htear Himgs Hsep Hsyn].
  constructor; auto.
  - unfold stable_root in *. rewrite marks_sys. auto.
  - unfold inflight in *. rewrite marks_sys. auto.
  - intros o b Hin. apply in_snoc_other in Hin; [|discriminate]. auto.
  - intros img' Hc. rewrite D_snoc in Hc. cbn [ev_step disk_step] in Hc.
    apply crash_synced in Hc; [|reflexivity]. cbn [dur] in Hc. subst img'.
    apply Himgs. apply crash_view.
  - intros o b Hin. apply in_snoc_other in Hin; [|discriminate]. auto.
  - intros pre r' He. apply app_inj_tail in He. destruct He as [_ He]. discriminate.
Qed.

(** A slot that holds the complete record of a well-formed, correctly checksummed root validates. *)
Lemma lv_full img slot r :
  0 <= slot -> slot + 260 <= isize img -> wf_root r -> checksum r = calc_checksum sip r ->
  (forall x, slot <= x < slot + zlen (rec (ser_root r)) ->
     ibyte img x = nth (Z.to_nat (x - slot)) (rec (ser_root r)) 0%N) ->
  lv img slot = Some r /\ slot_sane img slot.
Proof.
  intros H0 Hs Hwf Hck Hb.
  destruct (rec_ser_root_prefix r) as (L & HL & HR & HLz).
  pose proof (zlen_ser_root r) as Hz.
  assert (Hzr : zlen (rec (ser_root r)) = 4 + zlen (ser_root r)) by apply zlen_rec.
  assert (B0 : ibyte img slot = 0%N).
  { rewrite Hb by lia. rewrite HR. replace (slot - slot) with 0 by lia. reflexivity. }
  assert (B1 : ibyte img (slot + 1) = 0%N).
  { rewrite Hb by lia. rewrite HR. replace (slot + 1 - slot) with 1 by lia. reflexivity. }
  assert (B2 : ibyte img (slot + 2) = 0%N).
  { rewrite Hb by lia. rewrite HR. replace (slot + 2 - slot) with 2 by lia. reflexivity. }
  assert (B3 : ibyte img (slot + 3) = L).
  { rewrite Hb by lia. rewrite HR. replace (slot + 3 - slot) with 3 by lia. reflexivity. }
  split.
  - unfold load_valid, load_root. rewrite read4 by lia. rewrite B0, B1, B2, B3, be32_small, HLz.
    unfold LEN_PREFIX_LEN.
    assert (Hh : holds img (slot + 4) (ser_root r)).
    { unfold holds. splitc; try lia. intros i Hi. rewrite Hb by lia. rewrite HR.
      rewrite app_nth2 by (cbn [length]; lia). cbn [length]. f_equal. lia. }
    rewrite (holds_read _ _ _ Hh).
    rewrite <- (app_nil_r (ser_root r)). rewrite parse_root_ser by auto.
    unfold validate. rewrite Hck, N.eqb_refl. reflexivity.
  - unfold slot_sane. rewrite B0, B1, B2, B3. splitc; auto. lia.
Qed.

Lemma rw_commit s evs stable r D0 ae :
  rw s evs stable r D0 -> pnd (D s evs) = [] ->
  (forall x, next_slot stable <= x < next_slot stable + zlen (rec (ser_root r)) ->
     ibyte (dur (D s evs)) x = nth (Z.to_nat (x - next_slot stable)) (rec (ser_root r)) 0%N) ->
  free_offset r <= ae -> ae <= isize (dur (D s evs)) ->
  idle s (evs ++ [ECommitted r]) (Some (r, next_slot stable)) (free_offset r) ae.
Proof.
  intros [Hst Hinf Hwf Hck Hgen Hfree Hrecs Hold Hsl Htear Himgs Hsep Hsyn] Hpn Hfull Hae1 Hae2.
  set (slot := next_slot stable) in *.
  set (R := rec (ser_root r)) in *.
  assert (HzR : zlen R <= 56) by (unfold R; rewrite zlen_rec; pose proof (zlen_ser_root r); lia).
  assert (Hcr : crash (D s evs) (dur (D s evs))) by (unfold crash; rewrite Hpn; constructor).
  destruct (Himgs _ Hcr) as [Hsize Hpt].
  assert (Hslot : slot = ROOT_A \/ slot = ROOT_B).
  { unfold slot, next_slot. destruct stable as [[rs cs]|]; auto.
    destruct Hsl as (_ & Hcs & _). destruct Hcs; subst cs; [right | left]; reflexivity. }
  assert (Hdata : forall x, FREE_START <= x -> ibyte (dur (D s evs)) x = ibyte D0 x).
  { intros x Hx. destruct (Hpt x) as [E|[Hr _]]; auto. exfalso. destruct Hslot as [Hs|Hs]; rewrite Hs in Hr; consts; lia. }
  assert (HD : D s (evs ++ [ECommitted r]) = D s evs) by (rewrite D_snoc; reflexivity).
  assert (HF : FREE_START <= isize (dur (D s evs))) by lia.
  destruct (lv_full (dur (D s evs)) slot r) as [Hlvnew Hsanenew]; auto;
    try (destruct Hslot as [-> | ->]; consts; lia).
  assert (HsaneD : slot_sane D0 ROOT_A /\ slot_sane D0 ROOT_B).
  { destruct stable as [[rs cs]|]; cbn [slots_ok] in Hsl.
    - destruct Hsl as (_ & _ & _ & _ & A & B & _). auto.
    - destruct Hsl as [_ Hz]. split; apply zeros_sane; intros x Hx; apply Hz; consts; lia. }
  assert (Hother : forall o, (o = ROOT_A \/ o = ROOT_B) -> o <> slot ->
             lv (dur (D s evs)) o = lv D0 o /\ slot_sane (dur (D s evs)) o).
  { intros o Ho Hne.
    assert (He : forall x, o <= x < o + 260 -> ibyte (dur (D s evs)) x = ibyte D0 x).
    { intros x Hx. destruct (Hpt x) as [E|[Hr _]]; auto. exfalso.
      destruct Ho as [-> | ->]; destruct Hslot as [Hs|Hs]; rewrite Hs in Hr, Hne; consts; try lia; congruence. }
    split.
    - apply lv_ext; try (destruct Ho as [-> | ->]; consts; lia); auto. destruct Ho as [-> | ->]; tauto.
    - apply slot_sane_ext with (img := D0); [destruct Ho as [-> | ->]; tauto|]. intros x Hx. apply He. lia. }
  constructor; rewrite ?HD; cbn [sfront option_map fst]; auto.
  - unfold stable_root. rewrite marks_snoc. reflexivity.
  - unfold inflight. rewrite marks_snoc. reflexivity.
  - lia.
  - rewrite Hpn. constructor.
  - intros off bs Hin. apply in_snoc_other in Hin; [|discriminate].
    destruct (Hrecs off bs Hin) as (A & B & C). splitc; auto.
    rewrite view_synced by auto. eapply holds_ext; eauto. intros x Hx. apply Hdata. lia.
  - intros off bs Hin Hb. apply in_snoc_other in Hin; [|discriminate].
    destruct (Hrecs off bs Hin) as (A & B & C). eapply holds_ext; eauto. intros x Hx. apply Hdata. lia.
  - unfold old_ok in *. cbn [sfront]. destruct s as [|img0 w0]; auto. destruct Hold as [H1 H2].
    split; [lia|]. intros x Hx. rewrite Hdata by lia. auto.
  - cbn [slots_ok]. splitc; auto.
    + (* the newest valid root wins *)
      destruct stable as [[rs cs]|]; cbn [slots_ok next_slot stable_gen] in *.
      * destruct Hsl as (_ & Hcs & Hlv & _).
        destruct (other_root_cases cs Hcs) as [[-> Ho]|[-> Ho]]; unfold slot in *; rewrite Ho in *.
        -- rewrite Hlvnew. destruct (Hother ROOT_A) as [E _]; [auto | consts; lia |]. rewrite E, Hlv.
           cbn [choose_root]. replace (generation rs <? generation r)%N with true by lia. reflexivity.
        -- rewrite Hlvnew. destruct (Hother ROOT_B) as [E _]; [auto | consts; lia |]. rewrite E, Hlv.
           cbn [choose_root]. replace (generation r <? generation rs)%N with false by lia. reflexivity.
      * destruct Hsl as [_ Hz]. unfold slot in *. rewrite Hlvnew.
        destruct (Hother ROOT_B) as [E _]; [auto | consts; lia |]. rewrite E.
        rewrite lv_zero by (intros x Hx; apply Hz; consts; lia). reflexivity.
    + destruct (Z.eq_dec ROOT_A slot) as [E|E]; [rewrite E; auto | apply Hother; auto].
    + destruct (Z.eq_dec ROOT_B slot) as [E|E]; [rewrite E; auto | apply Hother; auto].
  - intros o b Hin. apply in_snoc_other in Hin; [|discriminate].
    destruct (Hrecs o b Hin) as (A & B & C). left. auto.
Qed.

(** * The writer *)

Record wrel (w : writer) (stable : option (root * Z)) (fo ae : Z) : Prop := {
  wr_free : free_offset (w_root w) = fo;
  wr_ae : alloc_end w = ae;
  wr_next : next_root w = next_slot stable;
  wr_gen : generation (w_root w) = stable_gen stable;
}.

Lemma grow_ge a e : a < e -> e <= grow a e /\ a <= grow a e.
Proof.
  intros H. unfold grow. consts.
  pose proof (Z.div_mod (e - a + 4194304 - 1) 4194304 ltac:(lia)).
  pose proof (Z.mod_pos_bound (e - a + 4194304 - 1) 4194304 ltac:(lia)). lia.
Qed.

Lemma isize_view_ge d : isize (dur d) <= isize (view d).
Proof. unfold view. eapply torn_size. apply torn_flush. Qed.

Lemma ensure_steps s evs stable fo ae w e w1 e1 :
  idle s evs stable fo ae -> wrel w stable fo ae -> fo <= e ->
  ensure_capacity w e = (Some w1, e1) ->
  steps_ok (good s) evs e1 /\ idle s (evs ++ e1) stable fo (alloc_end w1)
  /\ wrel w1 stable fo (alloc_end w1) /\ e <= alloc_end w1 /\ data_dirty w1 = data_dirty w.
Proof.
  intros Hid [Wf Wa Wn Wg] Hfe. unfold ensure_capacity. rewrite Wa.
  destruct (e <=? ae) eqn:E.
  - intros H; inversion H; subst w1 e1. rewrite app_nil_r, Wa.
    splitc; auto; try lia. + apply steps_nil. eapply idle_good; eauto. + constructor; auto.
  - destruct (i64_max <? grow ae e) eqn:E2; [discriminate|].
    intros H; inversion H; subst w1 e1. cbn [alloc_end w_root next_root data_dirty].
    destruct (grow_ge ae e ltac:(lia)) as [G1 G2].
    assert (Hid1 : idle s (evs ++ [ESys (SFalloc 0 0 (grow ae e))]) stable fo ae) by (apply idle_falloc; auto).
    assert (Hid2 : idle s ((evs ++ [ESys (SFalloc 0 0 (grow ae e))]) ++ [ESys SFsync]) stable fo (grow ae e)).
    { eapply idle_sync; eauto; try lia.
      rewrite D_snoc. cbn [ev_step]. rewrite view_falloc. cbn. lia. }
    unfold fallocate_evs. splitc; auto.
    + apply steps_cons; [eapply idle_good; eauto|]. apply steps_cons; [eapply idle_good; eauto|].
      apply steps_nil. eapply idle_good; eauto.
    + replace (evs ++ [ESys (SFalloc 0 0 (grow ae e)); ESys SFsync])
        with ((evs ++ [ESys (SFalloc 0 0 (grow ae e))]) ++ [ESys SFsync]) by (rewrite <- app_assoc; reflexivity).
      auto.
    + constructor; auto.
Qed.

Lemma write_all_cases off bs :
  (bs = [] /\ write_all off bs = []) \/ (bs <> [] /\ write_all off bs = [ESys (SPwrite off bs)]).
Proof. destruct bs; [left | right]; split; auto; discriminate. Qed.

(** The two writes of a record followed by the ghost mark. *)
Lemma dump_steps s evs stable fo ae bs :
  idle s evs stable fo ae -> 0 <= fo -> fo + 4 + zlen bs <= ae ->
  let chunk := write_all fo (be32_bytes (zlen bs)) ++ write_all (fo + 4) bs ++ [EAppended fo bs] in
  steps_ok (good s) evs chunk /\ idle s (evs ++ chunk) stable (fo + 4 + zlen bs) ae.
Proof.
  intros Hid H0 Hend. pose proof (zlen_nonneg bs) as Hz.
  set (pfx := be32_bytes (zlen bs)).
  assert (Hw1 : write_all fo pfx = [ESys (SPwrite fo pfx)]) by reflexivity.
  rewrite Hw1. clear Hw1.
  assert (Hid1 : idle s (evs ++ [ESys (SPwrite fo pfx)]) stable fo ae) by (apply idle_pwrite; auto; [lia | change (zlen pfx) with 4; lia]).
  set (evs1 := evs ++ [ESys (SPwrite fo pfx)]) in *.
  assert (Hsz1 : ae <= isize (view (D s evs))).
  { pose proof (isize_view_ge (D s evs)). pose proof (id_size _ _ _ _ _ _ Hid). lia. }
  assert (Hv1 : view (D s evs1) = write_full (view (D s evs)) fo pfx).
  { unfold evs1. rewrite D_snoc. cbn [ev_step]. apply view_pwrite. }
  assert (Hh1 : holds (view (D s evs1)) fo pfx).
  { rewrite Hv1. apply holds_write_full; [lia | change (zlen pfx) with 4; lia]. }
  destruct (write_all_cases (fo + 4) bs) as [[Ebs Hw2]|[Hne Hw2]]; rewrite Hw2; clear Hw2.
  - (* empty item: only the length is written *)
    subst bs. cbn [app].
    assert (Hidf : idle s (evs1 ++ [EAppended fo []]) stable (fo + 4 + zlen (@nil N)) ae).
    { apply idle_appended with (fo := fo); auto; try lia. }
    split.
    + apply steps_cons; [eapply idle_good; eauto|]. apply steps_cons; [eapply idle_good; eauto|].
      apply steps_nil. eapply idle_good; eauto.
    + replace (evs ++ [ESys (SPwrite fo pfx); EAppended fo []]) with (evs1 ++ [EAppended fo []])
        by (unfold evs1; rewrite <- app_assoc; reflexivity). exact Hidf.
  - cbn [app].
    assert (Hid2 : idle s (evs1 ++ [ESys (SPwrite (fo + 4) bs)]) stable fo ae) by (apply idle_pwrite; auto; lia).
    set (evs2 := evs1 ++ [ESys (SPwrite (fo + 4) bs)]) in *.
    assert (Hv2 : view (D s evs2) = write_full (view (D s evs1)) (fo + 4) bs).
    { unfold evs2. rewrite D_snoc. cbn [ev_step]. apply view_pwrite. }
    assert (Hsz2 : ae <= isize (view (D s evs1))).
    { rewrite Hv1. pose proof (isize_apply_ge (view (D s evs)) fo pfx (all_true pfx)). unfold write_full. lia. }
    assert (Hh2 : holds (view (D s evs2)) fo (rec bs)).
    { unfold rec. fold pfx. apply holds_app.
      - rewrite Hv2. eapply holds_ext; [exact Hh1 | apply isize_apply_ge |].
        intros x Hx. apply ibyte_write_full_out. change (zlen pfx) with 4 in Hx. lia.
      - change (zlen pfx) with 4. rewrite Hv2. apply holds_write_full; lia. }
    assert (Hidf : idle s (evs2 ++ [EAppended fo bs]) stable (fo + 4 + zlen bs) ae).
    { apply idle_appended with (fo := fo); auto; lia. }
    split.
    + apply steps_cons; [eapply idle_good; eauto|]. apply steps_cons; [eapply idle_good; eauto|].
      apply steps_cons; [eapply idle_good; eauto|]. apply steps_nil. eapply idle_good; eauto.
    + replace (evs ++ [ESys (SPwrite fo pfx); ESys (SPwrite (fo + 4) bs); EAppended fo bs])
        with (evs2 ++ [EAppended fo bs]) by (unfold evs2, evs1; repeat rewrite <- app_assoc; reflexivity).
      exact Hidf.
Qed.

Lemma dump_bytes_ok off bs :
  zlen bs <= u32_max -> off + 4 + zlen bs <= i64_max ->
  dump_bytes off bs = (Some (off + 4 + zlen bs), write_all off (be32_bytes (zlen bs)) ++ write_all (off + 4) bs).
Proof.
  intros H1 H2. pose proof (zlen_nonneg bs). unfold dump_bytes, LEN_PREFIX_LEN.
  replace (u32_max <? zlen bs) with false by lia.
  replace (i64_max <? off + 4) with false by lia.
  replace (i64_max <? off + 4 + zlen bs) with false by lia. reflexivity.
Qed.

(** [append_at]: every step keeps [idle]; on success the frontier advances past the item. *)
Lemma append_steps s evs stable fo ae w bs res w' chunk :
  idle s evs stable fo ae -> wrel w stable fo ae -> append_at w bs = (res, w', chunk) ->
  steps_ok (good s) evs chunk
  /\ (forall r, ~ In (ERootBegin r) chunk)
  /\ exists fo' ae', idle s (evs ++ chunk) stable fo' ae' /\ wrel w' stable fo' ae'
     /\ match res with
        | Some off => off = fo /\ 0 <= fo /\ fo <= fo' /\ fo' <= i64_max /\ data_dirty w' = true
                      /\ heads (w_root w') = heads (w_root w) /\ fact_cache (w_root w') = fact_cache (w_root w)
        | None => True
        end.
Proof.
  intros Hid Hw. pose proof Hw as [Wf Wa Wn Wg]. unfold append_at. rewrite Wf. unfold LEN_PREFIX_LEN.
  destruct (fo <? 0) eqn:E0.
  { intros H; inversion H; subst res w' chunk. rewrite app_nil_r. splitc; [apply steps_nil; eapply idle_good; eauto | intros r []|].
    exists fo, ae. auto. }
  destruct ((i64_max <? zlen bs) || (i64_max <? fo + 4) || (i64_max <? fo + 4 + zlen bs)) eqn:E1.
  { intros H; inversion H; subst res w' chunk. rewrite app_nil_r. splitc; [apply steps_nil; eapply idle_good; eauto | intros r []|].
    exists fo, ae. auto. }
  pose proof (zlen_nonneg bs) as Hz.
  destruct (ensure_capacity w (fo + 4 + zlen bs)) as [[w1|] e1] eqn:Een.
  2:{ (* overflow of the preallocation size: no event *)
    unfold ensure_capacity in Een. destruct (fo + 4 + zlen bs <=? alloc_end w); [discriminate|].
    destruct (i64_max <? grow (alloc_end w) (fo + 4 + zlen bs)); [|discriminate].
    inversion Een; subst e1. intros H; inversion H; subst res w' chunk. rewrite app_nil_r.
    splitc; [apply steps_nil; eapply idle_good; eauto | intros r []|]. exists fo, ae. auto. }
  assert (Hfe : fo <= fo + 4 + zlen bs) by lia.
  destruct (ensure_steps s evs stable fo ae w _ w1 e1 Hid Hw Hfe Een) as (Hs1 & Hid1 & Hw1 & Hcap & Hdd).
  assert (He1 : forall r, ~ In (ERootBegin r) e1).
  { unfold ensure_capacity in Een. destruct (fo + 4 + zlen bs <=? alloc_end w).
    - inversion Een; subst. intros r [].
    - destruct (i64_max <? grow (alloc_end w) (fo + 4 + zlen bs)); [discriminate|].
      inversion Een; subst. intros r [H|[H|[]]]; discriminate. }
  assert (Hroot1 : w_root w1 = w_root w).
  { unfold ensure_capacity in Een. destruct (fo + 4 + zlen bs <=? alloc_end w).
    - inversion Een; subst; auto.
    - destruct (i64_max <? grow (alloc_end w) (fo + 4 + zlen bs)); [discriminate|]. inversion Een; subst; auto. }
  destruct (Z_le_gt_dec (zlen bs) u32_max) as [Hu|Hu].
  - rewrite dump_bytes_ok by lia.
    intros H; inversion H; subst res w' chunk. clear H.
    destruct (dump_steps s (evs ++ e1) stable fo (alloc_end w1) bs Hid1 ltac:(lia) ltac:(lia)) as [Hs2 Hid2].
    cbv zeta in Hs2, Hid2.
    splitc.
    + apply steps_app; auto.
    + intros r Hin. apply in_app_or in Hin. destruct Hin as [Hin|Hin]; [eapply He1; eauto|].
      destruct Hin as [Hin|Hin]; [discriminate|].
      apply in_app_or in Hin. destruct Hin as [Hin|[Hin|[]]]; [|discriminate].
      unfold write_all in Hin. destruct bs; [destruct Hin | destruct Hin as [Hin|[]]; discriminate].
    + exists (fo + 4 + zlen bs), (alloc_end w1). split; [|split].
      * repeat rewrite <- app_assoc in *. exact Hid2.
      * destruct Hw1 as [A B C E]. constructor; cbn [w_root free_offset alloc_end next_root generation]; auto.
      * cbn [w_root data_dirty heads fact_cache]. rewrite Hroot1. splitc; auto; lia.
  - (* longer than a u32: Bug, after the preallocation *)
    unfold dump_bytes. replace (u32_max <? zlen bs) with true by lia.
    intros H; inversion H; subst res w' chunk. rewrite app_nil_r.
    splitc; auto. exists fo, (alloc_end w1). auto.
Qed.

(** [commit]: append the head set, barrier, write the root to the other slot, barrier. *)
Lemma ser_root_cons r : exists b l, ser_root r = b :: l.
Proof. pose proof (zlen_ser_root r). destruct (ser_root r) as [|b l]; [unfold zlen in *; cbn in *; lia | eauto]. Qed.

Lemma piece_prefix R slot p rest : R = p ++ rest -> piece_of R slot slot p.
Proof.
  intros ->. unfold piece_of. rewrite zlen_app. pose proof (zlen_nonneg rest). splitc; try lia.
  intros x Hx. rewrite app_nth1 by (unfold zlen in *; lia). reflexivity.
Qed.
Lemma piece_suffix R slot p rest : R = p ++ rest -> piece_of R slot (slot + zlen p) rest.
Proof.
  intros ->. unfold piece_of. rewrite zlen_app. pose proof (zlen_nonneg p). splitc; try lia.
  intros x Hx. rewrite app_nth2 by (unfold zlen in *; lia). f_equal. unfold zlen in *. lia.
Qed.

Lemma stable_gen_wf s img stable : slots_ok sip s img stable -> (stable_gen stable <= u64_max)%N.
Proof.
  destruct stable as [[rs cs]|]; cbn [slots_ok stable_gen].
  - intros (_ & _ & _ & _ & _ & _ & [Hg _ _ _ _]). auto.
  - intros _. unfold u64_max. lia.
Qed.

Lemma D_root_write s ev0 r slot pfx body :
  pnd (D s ev0) = [] ->
  D s ((((ev0 ++ [ERootBegin r]) ++ [ESys (SPwrite slot pfx)]) ++ [ESys (SPwrite (slot + 4) body)]) ++ [ESys SFdatasync])
  = {| dur := write_full (write_full (dur (D s ev0)) slot pfx) (slot + 4) body; pnd := [] |}.
Proof.
  intros H. rewrite !D_snoc. cbn [ev_step disk_step].
  destruct (D s ev0) as [du pn]. cbn [pnd dur] in *. subst pn. reflexivity.
Qed.

Lemma commit_steps s evs stable fo ae w hb fc ok w' chunk :
  idle s evs stable fo ae -> wrel w stable fo ae -> (fc <= u64_max)%N ->
  commit sip w hb fc = (ok, w', chunk) ->
  (forall pre r slot p rest, chunk = pre ++ ERootBegin r :: ESys (SPwrite slot p) :: rest ->
     tear_ok (view (D s (evs ++ pre))) slot r) ->
  steps_ok (good s) evs chunk
  /\ exists stable' fo' ae', idle s (evs ++ chunk) stable' fo' ae' /\ wrel w' stable' fo' ae'.
Proof.
  intros Hid Hw Hfc. unfold commit.
  destruct (append_at w hb) as [[res w1] e1] eqn:Eap.
  destruct (append_steps s evs stable fo ae w hb res w1 e1 Hid Hw Eap) as (Hs1 & Hnr1 & fo1 & ae1 & Hid1 & Hw1 & Hres).
  destruct res as [ho|].
  2:{ intros H; inversion H; subst. intros _. split; auto. eauto. }
  destruct Hres as (Hho & Hfo0 & Hfofo & Hfo1 & Hdirty & _ & _). subst ho.
  unfold set_root. cbn [data_dirty w_root alloc_end next_root]. rewrite Hdirty.
  pose proof Hw1 as [W1f W1a W1n W1g].
  (* barrier 1 *)
  assert (Hid2 : idle s ((evs ++ e1) ++ [ESys SFdatasync]) stable fo1 ae1).
  { eapply idle_sync; eauto; try lia.
    - pose proof (id_order _ _ _ _ _ _ Hid1). lia.
    - pose proof (id_size _ _ _ _ _ _ Hid1). pose proof (isize_view_ge (D s (evs ++ e1))). lia. }
  set (evs2 := (evs ++ e1) ++ [ESys SFdatasync]) in *.
  assert (Hpn2 : pnd (D s evs2) = []) by (unfold evs2; rewrite D_snoc; reflexivity).
  unfold write_root. cbn [w_root generation heads fact_cache free_offset checksum next_root alloc_end data_dirty].
  rewrite W1g.
  pose proof (stable_gen_wf _ _ _ (id_slots _ _ _ _ _ _ Hid2)) as Hgwf.
  destruct (stable_gen stable =? u64_max)%N eqn:Egen.
  { (* generation overflow: Bug before anything is written *)
    intros H; inversion H; subst ok w' chunk. intros _. rewrite ?app_nil_r. unfold sync_evs. cbn [app].
    split.
    - apply steps_app; auto. apply steps_cons; [eapply idle_good; eauto|]. apply steps_nil. eapply idle_good; eauto.
    - exists stable, fo1, ae1. rewrite app_assoc. split; auto.
      constructor; cbn [w_root free_offset alloc_end next_root generation]; auto. }
  set (r := {| generation := stable_gen stable + 1; heads := Some (Z.to_N fo); fact_cache := Some fc;
               free_offset := free_offset (w_root w1);
               checksum := calc_checksum sip {| generation := stable_gen stable + 1; heads := Some (Z.to_N fo);
                                                 fact_cache := Some fc; free_offset := free_offset (w_root w1);
                                                 checksum := checksum (w_root w1) |} |}).
  assert (Hck : checksum r = calc_checksum sip r) by reflexivity.
  assert (Hwf : wf_root r).
  { constructor; cbn [r generation heads fact_cache free_offset checksum wf_opt]; auto.
    - unfold u64_max in *. lia.
    - unfold u64_max, i64_max in *. lia.
    - rewrite W1f. pose proof (id_order _ _ _ _ _ _ Hid1). unfold i64_min. consts. lia.
    - apply sip_range. }
  pose proof (zlen_ser_root r) as Hzr.
  pose proof (id_order _ _ _ _ _ _ Hid2) as Hord2.
  assert (Hslot : next_slot stable = ROOT_A \/ next_slot stable = ROOT_B).
  { unfold next_slot. destruct stable as [[rs cs]|]; auto.
    destruct (id_slots _ _ _ _ _ _ Hid2) as (_ & Hcs & _). destruct Hcs; subst cs; [right | left]; reflexivity. }
  rewrite W1n.
  rewrite dump_bytes_ok by (unfold u32_max, i64_max; destruct Hslot as [Hs|Hs]; rewrite ?Hs; consts; lia).
  destruct (ser_root_cons r) as (b & l & Hser).
  assert (Hwa1 : write_all (next_slot stable) (be32_bytes (zlen (ser_root r))) = [ESys (SPwrite (next_slot stable) (be32_bytes (zlen (ser_root r))))]) by reflexivity.
  assert (Hwa2 : write_all (next_slot stable + 4) (ser_root r) = [ESys (SPwrite (next_slot stable + 4) (ser_root r))]) by (rewrite Hser; reflexivity).
  rewrite Hwa1, Hwa2. clear Hwa1 Hwa2. unfold sync_evs. cbn [app].
  intros H; inversion H; subst ok w' chunk. clear H. intros Htear.
  set (slot := next_slot stable) in *. set (pfx := be32_bytes (zlen (ser_root r))) in *.
  (* the tear hypothesis for this root write *)
  assert (Ht : tear_ok (dur (D s evs2)) slot r).
  { rewrite <- (view_synced (D s evs2)) by auto.
    specialize (Htear (e1 ++ [ESys SFdatasync]) r slot pfx [ESys (SPwrite (slot + 4) (ser_root r)); ESys SFdatasync; ECommitted r]).
    unfold evs2. rewrite <- app_assoc. apply Htear. rewrite <- app_assoc. reflexivity. }
  pose proof (rw_begin s evs2 stable fo1 ae1 r Hid2 Hpn2 Hwf Hck ltac:(reflexivity) ltac:(cbn; auto) Ht) as Hrw0.
  set (D0 := dur (D s evs2)) in *.
  set (evs3 := evs2 ++ [ERootBegin r]) in *.
  assert (HR : rec (ser_root r) = pfx ++ ser_root r) by reflexivity.
  pose proof (rw_pwrite s evs3 stable r D0 slot pfx Hrw0 (piece_prefix _ slot _ _ HR)) as Hrw1.
  set (evs4 := evs3 ++ [ESys (SPwrite slot pfx)]) in *.
  pose proof (rw_pwrite s evs4 stable r D0 (slot + 4) (ser_root r) Hrw1) as Hrw2.
  specialize (Hrw2 (piece_suffix _ slot pfx _ HR)).
  set (evs5 := evs4 ++ [ESys (SPwrite (slot + 4) (ser_root r))]) in *.
  pose proof (rw_sync s evs5 stable r D0 Hrw2) as Hrw3.
  set (evs6 := evs5 ++ [ESys SFdatasync]) in *.
  (* after the barrier the slot holds the whole record *)
  assert (HD6 : D s evs6 = {| dur := write_full (write_full D0 slot pfx) (slot + 4) (ser_root r); pnd := [] |}).
  { unfold evs6, evs5, evs4, evs3, D0. apply D_root_write; auto. }
  assert (Hpn6 : pnd (D s evs6) = []) by (rewrite HD6; reflexivity).
  assert (Hfull : forall x, slot <= x < slot + zlen (rec (ser_root r)) ->
             ibyte (dur (D s evs6)) x = nth (Z.to_nat (x - slot)) (rec (ser_root r)) 0%N).
  { intros x Hx. rewrite HD6. cbn [dur]. rewrite HR in *. rewrite zlen_app in Hx. change (zlen pfx) with 4 in Hx.
    destruct (Z_lt_ge_dec x (slot + 4)) as [Hlt|Hge].
    - rewrite ibyte_write_full_out by lia. rewrite ibyte_write_full_in by (change (zlen pfx) with 4; lia).
      rewrite app_nth1 by (change (length pfx) with 4%nat; lia). reflexivity.
    - rewrite ibyte_write_full_in by lia.
      rewrite app_nth2 by (change (length pfx) with 4%nat; lia). change (length pfx) with 4%nat. f_equal. lia. }
  assert (Hsz6 : ae1 <= isize (dur (D s evs6))).
  { rewrite HD6. cbn [dur]. unfold write_full.
    pose proof (isize_apply_ge D0 slot pfx (all_true pfx)).
    pose proof (isize_apply_ge (apply_masked D0 slot pfx (all_true pfx)) (slot + 4) (ser_root r) (all_true (ser_root r))).
    pose proof (id_size _ _ _ _ _ _ Hid2). fold D0 in H1. lia. }
  pose proof (rw_commit s evs6 stable r D0 ae1 Hrw3 Hpn6 Hfull ltac:(cbn [r free_offset]; lia) Hsz6) as Hid7.
  split.
  - apply steps_app; auto.
    apply steps_cons; [eapply idle_good; eauto|]. fold evs2.
    apply steps_cons; [eapply idle_good; eauto|]. fold evs3.
    apply steps_cons; [eapply rw_good; eauto|]. fold evs4.
    apply steps_cons; [eapply rw_good; eauto|]. fold evs5.
    apply steps_cons; [eapply rw_good; eauto|]. fold evs6.
    apply steps_cons; [eapply rw_good; eauto|].
    apply steps_nil. eapply idle_good; eauto.
  - exists (Some (r, slot)), (free_offset r), ae1. split.
    + replace (evs ++ e1 ++ ESys SFdatasync :: ERootBegin r :: ESys (SPwrite slot pfx)
                 :: ESys (SPwrite (slot + 4) (ser_root r)) :: [ESys SFdatasync; ECommitted r])
        with (evs6 ++ [ECommitted r]); [exact Hid7|].
      unfold evs6, evs5, evs4, evs3, evs2. repeat rewrite <- app_assoc. reflexivity.
    + constructor; cbn [w_root free_offset alloc_end next_root generation next_slot stable_gen r]; auto.
Qed.

(** * Workloads *)

Definition op_typed (o : op) : Prop :=
  match o with OCommit _ fc => (fc <= u64_max)%N | OAppend _ => True end.

Lemma run_ops_steps s : forall ops evs stable fo ae w,
  idle s evs stable fo ae -> wrel w stable fo ae -> Forall op_typed ops ->
  (forall pre r slot p rest, snd (run_ops sip w ops) = pre ++ ERootBegin r :: ESys (SPwrite slot p) :: rest ->
     tear_ok (view (D s (evs ++ pre))) slot r) ->
  steps_ok (good s) evs (snd (run_ops sip w ops)).
Proof.
  induction ops as [|o ops IH]; intros evs stable fo ae w Hid Hw Hty Htear; cbn [run_ops].
  - cbn. apply steps_nil. eapply idle_good; eauto.
  - inversion Hty as [|? ? Ho Hty']; subst.
    destruct (run_op sip w o) as [w1 e1] eqn:Eop.
    destruct (run_ops sip w1 ops) as [w2 e2] eqn:Eops.
    cbn [snd]. cbn [run_ops] in Htear. rewrite Eop, Eops in Htear. cbn [snd] in Htear.
    assert (Hstep : steps_ok (good s) evs e1 /\ exists stable' fo' ae', idle s (evs ++ e1) stable' fo' ae' /\ wrel w1 stable' fo' ae').
    { destruct o as [bs | hb fc]; cbn [run_op] in Eop.
      - destruct (append_at w bs) as [[res w'] ch] eqn:Eap. inversion Eop; subst w1 e1.
        destruct (append_steps s evs stable fo ae w bs res w' ch Hid Hw Eap) as (A & _ & fo' & ae' & B & C & _).
        split; auto. eauto.
      - destruct (commit sip w hb fc) as [[ok w'] ch] eqn:Ec. inversion Eop; subst w1 e1.
        eapply commit_steps; eauto.
        intros pre r slot p rest Hch. apply (Htear pre r slot p (rest ++ e2)).
        rewrite Hch. rewrite <- app_assoc. reflexivity. }
    destruct Hstep as (Hs1 & stable' & fo' & ae' & Hid1 & Hw1).
    apply steps_app; auto.
    replace e2 with (snd (run_ops sip w1 ops)) by (rewrite Eops; reflexivity).
    eapply IH; eauto.
    intros pre r slot p rest He2. rewrite Eops in He2. cbn [snd] in He2.
    rewrite <- app_assoc. apply (Htear (e1 ++ pre) r slot p rest). rewrite He2. rewrite <- app_assoc. reflexivity.
Qed.

(** The checksum idealisation for a whole epoch: every root-record write of the run is tear-free. *)
Definition tear_free (s : start) (ops : list op) : Prop :=
  forall pre r slot p rest,
    epoch_events sip s ops = pre ++ ERootBegin r :: ESys (SPwrite slot p) :: rest ->
    tear_ok (view (D s pre)) slot r.

Lemma choose_root_inv a b r c :
  choose_root a b = Some (r, c) -> (c = ROOT_A /\ a = Some r) \/ (c = ROOT_B /\ b = Some r).
Proof.
  unfold choose_root. destruct a as [ra|], b as [rb|]; try discriminate.
  - destruct (generation ra <? generation rb)%N; intros H; inversion H; subst; auto.
  - intros H; inversion H; subst; auto.
  - intros H; inversion H; subst; auto.
Qed.

Lemma good_zeros s evs :
  stable_root s evs = None -> (forall pre r, evs <> pre ++ [ERootBegin r]) ->
  (forall img', crash (D s evs) img' -> forall x, ibyte img' x = 0%N) -> good s evs.
Proof.
  intros Hst Hne Hz. split.
  - intros img' Hc. unfold outcome_ok, open.
    rewrite !lv_zero by (intros; eapply Hz; eauto). cbn. auto.
  - intros pre r He. exfalso. eapply Hne; eauto.
Qed.

Lemma epoch_steps s ops :
  start_ok sip s -> Forall op_typed ops -> tear_free s ops ->
  steps_ok (good s) [] (epoch_events sip s ops).
Proof.
  intros Hstart Hty Htf.
  destruct s as [|img0 w0]; cbn [epoch_events].
    - (* fresh file: fallocate, fsync, then the operations *)
      cbn [create fst snd fallocate_evs].
      set (a := FREE_START + PREALLOC_CHUNK).
      assert (H0 : good Fresh []).
      { apply good_zeros; [reflexivity | intros pre r He; destruct pre; discriminate |].
        intros i Hc' x. apply crash_synced in Hc'; [|reflexivity]. subst i. reflexivity. }
      assert (H1 : good Fresh ([] ++ [ESys (SFalloc 0 0 a)])).
      { apply good_zeros; [reflexivity | intros pre r He; apply app_inj_tail in He; destruct He as [_ He]; discriminate |].
        intros i Hc' x. rewrite D_snoc in Hc'. cbn [ev_step] in Hc'.
        apply crash_step_falloc in Hc'. destruct Hc' as (mid & Hmid & _ & Hb). rewrite Hb.
        apply crash_synced in Hmid; [|reflexivity]. subst mid. reflexivity. }
      assert (Hid : idle Fresh (([] ++ [ESys (SFalloc 0 0 a)]) ++ [ESys SFsync]) None FREE_START a).
      { constructor; cbn [sfront option_map]; try reflexivity.
        - unfold a. consts. lia.
        - cbn. constructor.
        - intros off bs [H|[H|[]]]; discriminate.
        - intros off bs [H|[H|[]]]; discriminate.
        - cbn. split; auto.
        - intros off bs [H|[H|[]]]; discriminate. }
      apply (steps_cons _ [] _ _ H0). apply steps_cons; [exact H1|].
      eapply run_ops_steps; eauto.
      + constructor; reflexivity.
      + intros pre r slot p rest He. apply (Htf ([ESys (SFalloc 0 0 a); ESys SFsync] ++ pre) r slot p rest).
        cbn [epoch_events create fst snd fallocate_evs]. fold a. rewrite He. reflexivity.
    - (* recovered writer *)
      destruct Hstart as (Hopen & Hfree & Hwf & HsA & HsB).
      unfold open in Hopen.
      destruct (choose_root (lv img0 ROOT_A) (lv img0 ROOT_B)) as [[r0 c0]|] eqn:Ech; [|discriminate].
      inversion Hopen; subst w0. cbn [w_root] in *. clear Hopen.
      assert (Hid : idle (Recovered img0 {| w_root := r0; alloc_end := free_offset r0; next_root := other_root c0; data_dirty := false |})
                         [] (Some (r0, c0)) (free_offset r0) (free_offset r0)).
      { constructor; cbn [sfront option_map fst]; try reflexivity; try (cbn; lia).
        - cbn. constructor.
        - cbn. split; [lia | auto].
        - cbn [slots_ok D disk_after fold_left dur start_image]. splitc; auto; try lia.
          + destruct (choose_root_inv _ _ _ _ Ech) as [[? _]|[? _]]; auto.
          + destruct (choose_root_inv _ _ _ _ Ech) as [[-> E]|[-> E]]; auto.
        - intros off bs []. }
      eapply run_ops_steps; eauto.
      constructor; reflexivity.
Qed.

Definition crash_recovery_epoch_stmt : Prop :=
  forall (s : start) (ops : list op) (n : nat) (img' : image),
    start_ok sip s -> Forall op_typed ops -> tear_free s ops ->
    let evs := firstn n (epoch_events sip s ops) in
    crash (disk_after (start_image s) evs) img' ->
    outcome_ok sip s evs img'.

Lemma crash_recovery_epoch_proof : crash_recovery_epoch_stmt.
Proof.
  intros s ops n img' Hstart Hty Htf evs Hc.
  pose proof (epoch_steps s ops Hstart Hty Htf n) as Hall. cbn [app] in Hall.
  apply (proj1 Hall). exact Hc.
Qed.

(** Data before root: whenever a root-record write begins, no write is pending — everything
    written before (all appended items, in particular) has been made durable by a barrier. *)
Definition data_before_root_stmt : Prop :=
  forall (s : start) (ops : list op) pre r rest,
    start_ok sip s -> Forall op_typed ops -> tear_free s ops ->
    epoch_events sip s ops = pre ++ ERootBegin r :: rest ->
    pnd (disk_after (start_image s) pre) = [].

Lemma data_before_root_proof : data_before_root_stmt.
Proof.
  intros s ops pre r rest Hstart Hty Htf He.
  pose proof (epoch_steps s ops Hstart Hty Htf (length pre + 1)%nat) as Hall. cbn [app] in Hall.
  rewrite He in Hall. rewrite firstn_app in Hall.
  rewrite firstn_all2 in Hall by lia.
  replace (length pre + 1 - length pre)%nat with 1%nat in Hall by lia. cbn [firstn] in Hall.
  exact (proj2 Hall pre r eq_refl).
Qed.

(** ** The headline case: a file created by this run *)

Definition last_committed (evs : list ev) : option root := fst (marks evs).
Definition root_in_flight (evs : list ev) : option root := snd (marks evs).

Definition crash_recovery_stmt : Prop :=
  forall (ops : list op) (n : nat) (img' : image),
    Forall op_typed ops -> tear_free Fresh ops ->
    let evs := firstn n (epoch_events sip Fresh ops) in
    crash (disk_after empty_image evs) img' ->
    match open sip img' with
    | None => last_committed evs = None
    | Some w' =>
      let r := w_root w' in
      (Some r = last_committed evs \/ Some r = root_in_flight evs)
      /\ FREE_START <= free_offset r <= isize img'
      /\ (forall off bs, In (EAppended off bs) evs -> off + 4 + zlen bs <= free_offset r ->
            FREE_START <= off /\ read img' off (4 + zlen bs) = Some (be32_bytes (zlen bs) ++ bs))
      /\ (forall off bs, In (EAppended off bs) evs ->
            off + 4 + zlen bs <= free_offset r \/ free_offset r <= off)
    end.

Lemma crash_recovery_proof : crash_recovery_stmt.
Proof.
  intros ops n img' Hty Htf evs Hc.
  pose proof (crash_recovery_epoch_proof Fresh ops n img' I Hty Htf Hc) as H.
  unfold outcome_ok in H. fold evs in H.
  destruct (open sip img') as [w'|].
  - destruct H as [Hr (Hf & Hrec & Hsep & _)]. cbv zeta. splitc; auto; try lia.
    unfold stable_root, last_committed, root_in_flight, inflight, base_root in *.
    destruct (fst (marks evs)); auto.
  - unfold stable_root, last_committed, base_root in *. destruct (fst (marks evs)); auto.
Qed.

(** ** Any number of crash / recover epochs *)

(** The starts reachable from a fresh file through epochs that each end in a crash
    and a successful reopen. *)
Inductive reachable_start : start -> Prop :=
| rs_fresh : reachable_start Fresh
| rs_next s ops n img' w' :
    reachable_start s -> Forall op_typed ops -> tear_free s ops ->
    crash (disk_after (start_image s) (firstn n (epoch_events sip s ops))) img' ->
    open sip img' = Some w' ->
    reachable_start (Recovered img' w').

Definition recovery_composes_stmt : Prop := forall s, reachable_start s -> start_ok sip s.

Lemma recovery_composes_proof : recovery_composes_stmt.
Proof.
  intros s H. induction H as [|s ops n img' w' Hr IH Hty Htf Hc Hop]; [exact I|].
  pose proof (crash_recovery_epoch_proof s ops n img' IH Hty Htf Hc) as Hout.
  unfold outcome_ok in Hout. rewrite Hop in Hout.
  destruct Hout as [_ (Hf & _ & _ & _ & Hwf & HA & HB)].
  cbn [start_ok]. splitc; auto; lia.
Qed.

End Proofs.
