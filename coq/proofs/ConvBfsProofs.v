(** The lazily advanced BFS answers every sequence of region queries exactly
    like the arrival map computed up front ([conv_init]), whatever the
    tie-break between locations of equal max_cut. *)
From Aranya Require Import base.Tactics model.Dag model.Braid model.ConvBfs
  proofs.BraidDag proofs.BraidKey proofs.BraidSpec proofs.BraidLca proofs.BraidCount proofs.BraidRefine.

Lemma contrib_in_ext_x l f f' x : (forall c, In c l -> In x (parents c) -> f c = f' c) -> contrib_in l f x = contrib_in l f' x.
Proof.
  unfold contrib_in. induction l as [|c l IH]; intros H; cbn [filter flat_map]; auto.
  assert (IH' := IH (fun c Hc => H c (or_intror Hc))).
  destruct (in_dec N.eq_dec x (parents c)) as [Hx|Hx].
  - rewrite (H c (or_introl eq_refl) Hx). destruct (f' c); cbn [flat_map]; rewrite ?countN_app; lia.
  - assert (E : countN x (parents c) = 0%N) by (apply countN_zero; auto).
    destruct (f c); destruct (f' c); cbn [flat_map]; rewrite ?countN_app; lia.
Qed.

Section Lazy.
  Variable g : graph.
  Variable hs : list N.
  Variable d : N.
  Variable tie : N -> N -> bool.
  Hypothesis Hwf : wf_graph g.
  Hypothesis Hin : incl hs (ids g).
  Hypothesis Hd : forall h, In h hs -> cdom g d h.

  Let A := closure g hs.
  Let Lc := BraidRefine.L g d.
  Let mcg := max_cut g.
  Let m0 := conv_init g Lc hs.
  Let inR := inRb g hs d.
  Let arrx := arr g hs d.

  Notation advance := (advance g Lc tie).
  Notation top_of := (top_of g tie).

  Definition popped_contrib (P : list N) (y : N) : N := contrib g (fun c => inR c && mem (cid c) P) y.

  Record K (P : list N) (st : bfs) (m : list (N * N)) : Prop := {
    K_nd : NoDup P;
    K_PA : forall y, In y P -> In y A;
    K_qA : forall z, In z (bq st) -> In z A;
    K_cnt : forall y, ~ In y P -> countN y (bq st) = (countN y hs + popped_contrib P y)%N;
    K_cnt0 : forall y, In y P -> ~ In y (bq st);
    K_ord : forall y z, In y P -> In z (bq st) -> (mcg z <= mcg y)%N;
    K_nd1 : NoDup (map fst (bm st));
    K_nd2 : NoDup (map fst m);
    K_map : forall k, clook (bm st) k = if mem k P then clook m k else None;
    K_m : forall k, ~ In k P -> clook m k = clook m0 k;
  }.

  Lemma m0_look x : clook m0 x =
    if in_dec N.eq_dec x (ids g) then (if (Lc <? mcg x)%N && (2 <=? arrx x)%N then Some (arrx x) else None) else None.
  Proof. unfold m0, Lc, arrx, mcg. apply (conv_init_look g hs (fun _ _ => false) d); auto. intros; discriminate. Qed.

  Lemma top_of_spec l : forall x, In (top_of x l) (x :: l) /\ forall z, In z (x :: l) -> (mcg z <= mcg (top_of x l))%N.
  Proof.
    induction l as [|y r IH]; intros x; cbn [ConvBfs.top_of].
    - split; [cbn; auto|]. intros z [<-|[]]. lia.
    - unfold before_loc. fold mcg.
      destruct ((mcg x <? mcg y)%N || ((mcg x =? mcg y)%N && tie x y)) eqn:E.
      + destruct (IH y) as [H1 H2]. split; [destruct H1 as [H1|H1]; cbn; auto|].
        intros z [<-|[<-|Hz]]; [|apply H2; cbn; auto|apply H2; cbn; auto].
        specialize (H2 y (or_introl eq_refl)). apply orb_true_iff in E as [E|E].
        * apply N.ltb_lt in E. lia.
        * apply andb_true_iff in E as [E _]. apply N.eqb_eq in E. lia.
      + destruct (IH x) as [H1 H2]. split; [destruct H1 as [H1|H1]; cbn; auto|].
        intros z [<-|[<-|Hz]]; [apply H2; cbn; auto| |apply H2; cbn; auto].
        specialize (H2 x (or_introl eq_refl)). apply orb_false_iff in E as [E _]. apply N.ltb_ge in E. lia.
  Qed.

  Lemma countN_remove_all x y l : countN y (remove_all x l) = if (y =? x)%N then 0%N else countN y l.
  Proof.
    unfold remove_all. induction l as [|z l IH]; cbn [filter countN]; [destruct (y =? x)%N; auto|].
    destruct (z =? x)%N eqn:Ezx; cbn [negb].
    - rewrite IH. apply N.eqb_eq in Ezx. subst z. destruct (y =? x)%N eqn:E; auto.
      rewrite N.eqb_sym in E. rewrite E. auto.
    - cbn [countN]. rewrite IH. destruct (y =? x)%N eqn:E.
      + apply N.eqb_eq in E. subst y. rewrite Ezx. auto.
      + auto.
  Qed.

  Lemma remove_all_in x l z : In z (remove_all x l) -> In z l /\ z <> x.
  Proof.
    unfold remove_all. rewrite filter_In, negb_true_iff, N.eqb_neq. tauto.
  Qed.

  (** An unpopped region command has an unpopped descendant-or-self in the queue. *)
  Lemma desc_in_queue P st m : K P st m -> forall x, In x A -> (Lc < mcg x)%N -> ~ In x P ->
    exists z, In z (bq st) /\ anc g x z.
  Proof.
    intros HK.
    assert (H : forall x, In x (ids g) -> In x A -> (Lc < mcg x)%N -> ~ In x P -> exists z, In z (bq st) /\ anc g x z).
    { apply (up_induction g (fun x => In x A -> (Lc < mcg x)%N -> ~ In x P -> exists z, In z (bq st) /\ anc g x z) Hwf).
      intros x Hx IH HxA Hm HxP.
      assert (Hself : (0 < countN x (bq st))%N -> exists z, In z (bq st) /\ anc g x z).
      { intros Hc. exists x. split; [apply countN_pos; auto|apply anc_refl; auto]. }
      pose proof (K_cnt P st m HK x HxP) as Hcnt.
      destruct (proj1 (closure_spec g hs Hwf x) HxA) as [h [Hh Hxh]].
      destruct (anc_first_step g x h Hwf Hxh) as [->|[c [Hc Hch]]].
      - apply Hself. assert (0 < countN h hs)%N by (apply countN_pos; auto). lia.
      - assert (HcA : In c A) by (apply closure_spec; auto; eauto).
        assert (Hcm : (Lc < mcg c)%N) by (pose proof (max_cut_parent g x c Hwf Hc); unfold mcg in *; lia).
        destruct (in_dec N.eq_dec c P) as [HcP|HcP].
        + apply Hself. assert (0 < popped_contrib P x)%N; [|lia].
          destruct Hc as [cc [Hl Hp]]. destruct (lookup_In _ _ _ Hl) as [Hcc Hid].
          apply contrib_in_pos. exists cc. split; [auto|split; [|auto]].
          apply andb_true_iff. split; [apply inRb_spec; auto; rewrite Hid; auto|rewrite Hid; apply mem_In; auto].
        + destruct (IH c Hc HcA Hcm HcP) as [z [Hz Hcz]]. exists z. split; auto.
          eapply anc_trans; [apply anc_parent; eauto|auto]. }
    intros x HxA. apply H; auto. apply (closure_ids g hs); auto.
  Qed.

  (** One iteration of [advance_to]. *)
  Lemma pop_step P st m x0 r : K P st m -> bq st = x0 :: r ->
    let top := top_of x0 r in
    let cnt := countN top (bq st) in
    let q' := remove_all top (bq st) in
    ~ In top P /\
    K (top :: P)
      (if (mcg top <=? Lc)%N then {| bq := q'; bm := bm st |}
       else {| bq := parents_of g top ++ q'; bm := if (2 <=? cnt)%N then (top, cnt) :: bm st else bm st |}) m.
  Proof.
    intros HK Eq. cbv zeta. set (top := top_of x0 r).
    destruct (top_of_spec r x0) as [Htin Htmax]. fold top in Htin, Htmax. rewrite <- Eq in Htin, Htmax.
    assert (HtP : ~ In top P) by (intros H; apply (K_cnt0 P st m HK top H); auto).
    split; auto.
    assert (HtA : In top A) by (apply (K_qA P st m HK); auto).
    destruct (ids_lookup g top (closure_ids g hs top HtA)) as [ct Hct].
    destruct (lookup_In _ _ _ Hct) as [Hctg Hctid].
    assert (Hpar : parents_of g top = parents ct) by (unfold parents_of; rewrite Hct; auto).
    assert (Hparlt : forall p, In p (parents ct) -> (mcg p < mcg top)%N).
    { intros p Hp. apply (max_cut_parent g p top Hwf). exists ct. auto. }
    assert (HparA : forall p, In p (parents ct) -> In p A).
    { intros p Hp. apply (closure_down g hs Hwf p top); auto. apply anc_parent; auto. exists ct. auto. }
    assert (Hmem : forall c, In c g -> cid c <> top -> mem (cid c) (top :: P) = mem (cid c) P).
    { intros c _ Hne. unfold mem. cbn [existsb]. apply N.eqb_neq in Hne. rewrite Hne. auto. }
    assert (Hcnt_keep : forall y, y <> top -> countN y (remove_all top (bq st)) = countN y (bq st)).
    { intros y Hy. rewrite countN_remove_all. apply N.eqb_neq in Hy. rewrite Hy. auto. }
    (* all region children of top are popped *)
    assert (Hkids : forall c, In c g -> inR c = true -> In top (parents c) -> In (cid c) P).
    { intros c Hc Hr Hp. destruct (in_dec N.eq_dec (cid c) P) as [|HcP]; auto. exfalso.
      apply inRb_spec in Hr as [HcA Hcm]; auto.
      destruct (desc_in_queue P st m HK (cid c) HcA Hcm HcP) as [z [Hz Hcz]].
      pose proof (anc_max_cut g (cid c) z Hwf Hcz).
      assert (Hpo : parent_of g top (cid c)) by (exists c; split; auto; apply lookup_self; auto).
      pose proof (max_cut_parent g top (cid c) Hwf Hpo). specialize (Htmax z Hz). unfold mcg, Lc, BraidRefine.L, BraidRefine.mc in *. lia. }
    assert (Hcnt_top : countN top (bq st) = arrx top).
    { rewrite (K_cnt P st m HK top HtP). unfold arrx, arr, popped_contrib. f_equal. unfold contrib.
      apply contrib_in_ext_x. intros c Hc Hp. change (inRb g hs d c) with (inR c). destruct (inR c) eqn:Er; cbn [andb]; auto.
      apply mem_In. apply Hkids; auto. }
    destruct (mcg top <=? Lc)%N eqn:Em.
    - (* at or below the cut: not expanded *)
      apply N.leb_le in Em.
      assert (HnotR : inR ct = false).
      { destruct (inR ct) eqn:E; auto. apply inRb_spec in E as [_ E]; auto. rewrite Hctid in E. unfold mcg, Lc, BraidRefine.L, BraidRefine.mc in *. lia. }
      constructor; cbn [bq bm].
      + constructor; auto. apply (K_nd P st m HK).
      + intros y [<-|Hy]; auto. apply (K_PA P st m HK); auto.
      + intros z Hz. apply remove_all_in in Hz as [Hz _]. apply (K_qA P st m HK); auto.
      + intros y Hy. assert (y <> top) by (intros ->; apply Hy; cbn; auto).
        rewrite Hcnt_keep by auto. rewrite (K_cnt P st m HK y) by (intros H'; apply Hy; cbn; auto).
        f_equal. unfold popped_contrib, contrib. apply contrib_in_ext. intros c Hc.
        destruct (N.eq_dec (cid c) top) as [E|E]; [|rewrite Hmem; auto].
        assert (c = ct) by (rewrite <- E in Hct; rewrite (lookup_self g c Hwf Hc) in Hct; congruence). subst c.
        rewrite HnotR. auto.
      + intros y [<-|Hy] Hz; apply remove_all_in in Hz as [Hz Hne]; [congruence|]. apply (K_cnt0 P st m HK y Hy); auto.
      + intros y z [<-|Hy] Hz; apply remove_all_in in Hz as [Hz _]; [apply Htmax; auto|apply (K_ord P st m HK); auto].
      + apply (K_nd1 P st m HK).
      + apply (K_nd2 P st m HK).
      + intros k. rewrite (K_map P st m HK k). destruct (N.eq_dec k top) as [->|Hne].
        * assert (E1 : mem top P = false) by (apply mem_false; auto).
          assert (E2 : mem top (top :: P) = true) by (apply mem_In; cbn; auto). rewrite E1, E2.
          rewrite (K_m P st m HK top HtP), m0_look.
          destruct (in_dec N.eq_dec top (ids g)); auto.
          assert (E3 : (Lc <? mcg top)%N = false) by (apply N.ltb_ge; auto). rewrite E3. auto.
        * assert (E : mem k (top :: P) = mem k P) by (unfold mem; cbn [existsb]; apply N.eqb_neq in Hne; rewrite Hne; auto).
          rewrite E. auto.
      + intros k Hk. apply (K_m P st m HK). intros H'. apply Hk. cbn; auto.
    - (* expanded *)
      apply N.leb_gt in Em.
      assert (HisR : inR ct = true) by (apply inRb_spec; auto; rewrite Hctid; auto).
      rewrite Hpar.
      constructor; cbn [bq bm].
      + constructor; auto. apply (K_nd P st m HK).
      + intros y [<-|Hy]; auto. apply (K_PA P st m HK); auto.
      + intros z Hz. apply in_app_or in Hz as [Hz|Hz]; auto. apply remove_all_in in Hz as [Hz _]. apply (K_qA P st m HK); auto.
      + intros y Hy. assert (y <> top) by (intros ->; apply Hy; cbn; auto).
        rewrite countN_app, Hcnt_keep by auto. rewrite (K_cnt P st m HK y) by (intros H'; apply Hy; cbn; auto).
        unfold popped_contrib, contrib.
        rewrite (contrib_in_split g (fun c => inR c && mem (cid c) (top :: P)) ct y); auto.
        * assert (E : contrib_in g (fun c => inR c && mem (cid c) (top :: P) && negb (cid c =? cid ct)%N) y
                      = contrib_in g (fun c => inR c && mem (cid c) P) y).
          { apply contrib_in_ext. intros c Hc. rewrite Hctid. destruct (cid c =? top)%N eqn:E.
            - apply N.eqb_eq in E. cbn [negb]. rewrite andb_false_r.
              assert (c = ct) by (rewrite <- E in Hct; rewrite (lookup_self g c Hwf Hc) in Hct; congruence). subst c.
              rewrite E. apply mem_false in HtP. rewrite HtP. rewrite andb_false_r. auto.
            - apply N.eqb_neq in E. rewrite Hmem by auto. cbn [negb]. rewrite andb_true_r. auto. }
          rewrite E. lia.
        * apply wf_nodup; auto.
        * rewrite HisR, Hctid. unfold mem. cbn [existsb]. rewrite N.eqb_refl. auto.
      + intros y Hy Hz. apply in_app_or in Hz as [Hz|Hz].
        * destruct Hy as [<-|Hy]; [specialize (Hparlt _ Hz); lia|].
          pose proof (K_ord P st m HK y top Hy Htin). specialize (Hparlt _ Hz). lia.
        * apply remove_all_in in Hz as [Hz Hne]. destruct Hy as [<-|Hy]; [congruence|]. apply (K_cnt0 P st m HK y Hy); auto.
      + intros y z Hy Hz. apply in_app_or in Hz as [Hz|Hz].
        * specialize (Hparlt _ Hz). destruct Hy as [<-|Hy]; [lia|]. pose proof (K_ord P st m HK y top Hy Htin). lia.
        * apply remove_all_in in Hz as [Hz _]. destruct Hy as [<-|Hy]; [apply Htmax; auto|apply (K_ord P st m HK); auto].
      + destruct (2 <=? countN top (bq st))%N; [|apply (K_nd1 P st m HK)]. cbn [map fst]. constructor; [|apply (K_nd1 P st m HK)].
        intros Hk. apply clook_of_in in Hk as [n Hn]. rewrite (K_map P st m HK top) in Hn.
        apply mem_false in HtP. rewrite HtP in Hn. discriminate.
      + apply (K_nd2 P st m HK).
      + intros k. destruct (N.eq_dec k top) as [->|Hne].
        * assert (E1 : mem top P = false) by (apply mem_false; auto).
          assert (E2 : mem top (top :: P) = true) by (apply mem_In; cbn; auto). rewrite E2.
          rewrite (K_m P st m HK top HtP), m0_look.
          destruct (in_dec N.eq_dec top (ids g)) as [|Hni]; [|exfalso; apply Hni; apply (closure_ids g hs); auto].
          apply N.ltb_lt in Em. rewrite Em. cbn [andb]. rewrite Hcnt_top.
          destruct (2 <=? arrx top)%N.
          -- cbn [clook]. rewrite N.eqb_refl. auto.
          -- rewrite (K_map P st m HK top). rewrite E1. auto.
        * assert (E : mem k (top :: P) = mem k P) by (unfold mem; cbn [existsb]; apply N.eqb_neq in Hne; rewrite Hne; auto).
          rewrite E. rewrite <- (K_map P st m HK k).
          destruct (2 <=? countN top (bq st))%N; auto. cbn [clook].
          assert (E' : (top =? k)%N = false) by (apply N.eqb_neq; auto). rewrite E'. auto.
      + intros k Hk. apply (K_m P st m HK). intros H'. apply Hk. cbn; auto.
  Qed.

  Lemma advance_K : forall fuel P st m target, K P st m -> length A <= fuel + length P ->
    exists P', K P' (advance fuel st target) m /\ forall z, In z (bq (advance fuel st target)) -> (mcg z < target)%N.
  Proof.
    induction fuel as [|f IH]; intros P st m target HK Hf.
    - exists P. split; auto. intros z Hz. exfalso.
      (* all of A is popped, so the queue is empty *)
      assert (Hall : incl A P).
      { apply NoDup_length_incl; [apply (K_nd P st m HK)|cbn in Hf; lia|intros y Hy; apply (K_PA P st m HK); auto]. }
      apply (K_cnt0 P st m HK z); auto. apply Hall. apply (K_qA P st m HK); auto.
    - cbn [ConvBfs.advance]. destruct (bq st) as [|x0 r] eqn:Eq.
      + exists P. split; auto. rewrite Eq. intros z [].
      + fold mcg. destruct (mcg (top_of x0 r) <? target)%N eqn:Et.
        * exists P. split; auto. rewrite Eq. intros z Hz. apply N.ltb_lt in Et.
          destruct (top_of_spec r x0) as [_ Hmax]. specialize (Hmax z Hz). lia.
        * destruct (pop_step P st m x0 r HK Eq) as [HtP HK']. cbv zeta in HK'. rewrite Eq in HK'.
          destruct (mcg (top_of x0 r) <=? Lc)%N; eapply IH; eauto; cbn [length]; lia.
  Qed.

  Lemma lazy_query_K P st m x : K P st m -> In x A -> (Lc < mcg x)%N ->
    let '(st', go) := lazy_query g Lc tie (length g) st x in
    let '(m', go') := conv_query m x in
    go = go' /\ exists P', K P' st' m'.
  Proof.
    intros HK HxA Hm. unfold lazy_query. fold mcg.
    assert (HlenA : length A <= length g).
    { unfold A. rewrite <- (map_length cid g). apply NoDup_incl_length; [apply (closure_nodup g hs Hwf)|intros y; apply (closure_ids g hs)]. }
    destruct (advance_K (length g) P st m (mcg x) HK) as [P' [HK' Hbelow]]; [lia|].
    set (st1 := advance (length g) st (mcg x)) in *.
    assert (HxP : In x P').
    { destruct (in_dec N.eq_dec x P') as [|Hn]; auto. exfalso.
      destruct (desc_in_queue P' st1 m HK' x HxA Hm Hn) as [z [Hz Hxz]].
      pose proof (anc_max_cut g x z Hwf Hxz). specialize (Hbelow z Hz). unfold mcg, Lc, BraidRefine.L, BraidRefine.mc in *. lia. }
    pose proof (conv_query_spec (bm st1) x (K_nd1 P' st1 m HK')) as Q1.
    pose proof (conv_query_spec m x (K_nd2 P' st1 m HK')) as Q2.
    destruct (conv_query (bm st1) x) as [b1 go1]. destruct (conv_query m x) as [b2 go2].
    destruct Q1 as [N1 [O1 R1]]. destruct Q2 as [N2 [O2 R2]].
    assert (Elook : clook (bm st1) x = clook m x).
    { rewrite (K_map P' st1 m HK' x). apply mem_In in HxP. rewrite HxP. auto. }
    rewrite Elook in R1.
    assert (Hsame : go1 = go2 /\ clook b1 x = clook b2 x).
    { destruct (clook m x) as [n|]; [destruct (1 <? n)%N|]; destruct R1 as [-> ->]; destruct R2 as [-> ->]; auto. }
    destruct Hsame as [Hgo Hx]. split; auto. exists P'.
    destruct HK'. constructor; cbn [bq bm]; auto.
    - intros k. destruct (N.eq_dec k x) as [->|Hne].
      + rewrite Hx. apply mem_In in HxP. rewrite HxP. auto.
      + rewrite O1, O2 by auto. auto.
    - intros k Hk. assert (k <> x) by (intros ->; auto). rewrite O2 by auto. auto.
  Qed.

  Lemma K_init : K [] (bfs_init hs) m0.
  Proof.
    constructor; cbn [bfs_init bq bm]; auto.
    - constructor.
    - intros y [].
    - intros z Hz. apply closure_head; auto.
    - intros y _. unfold popped_contrib, contrib, contrib_in.
      assert (E : forall l : graph, filter (fun c => inR c && mem (cid c) []) l = []).
      { induction l as [|c l IH]; cbn [filter]; auto. unfold mem at 1. cbn [existsb]. rewrite andb_false_r. auto. }
      rewrite E. cbn. lia.
    - intros y z [].
    - constructor.
    - unfold m0, conv_init. apply filter_map_keys_nodup. apply NoDup_filter. apply wf_nodup; auto.
  Qed.

  Theorem lazy_bfs_refines_run : forall xs P st m, K P st m ->
    (forall x, In x xs -> In x A /\ (Lc < mcg x)%N) ->
    lazy_run g Lc tie (length g) st xs = eager_run m xs.
  Proof.
    induction xs as [|x r IH]; intros P st m HK Hxs; cbn [lazy_run eager_run]; auto.
    destruct (Hxs x (or_introl eq_refl)) as [HxA Hm].
    pose proof (lazy_query_K P st m x HK HxA Hm) as Hq.
    destruct (lazy_query g Lc tie (length g) st x) as [st' go]. destruct (conv_query m x) as [m' go'].
    destruct Hq as [-> [P' HK']]. f_equal. apply (IH P' st' m' HK'). intros y Hy. apply Hxs. cbn; auto.
  Qed.
End Lazy.

Definition lazy_bfs_refines_stmt : Prop :=
  forall (g : graph) (hs : list N) (d : N) (tie : N -> N -> bool) (xs : list N),
    wf_graph g -> incl hs (ids g) -> (forall h, In h hs -> cdom g d h) ->
    (forall x, In x xs -> (exists h, In h hs /\ anc g x h) /\ (max_cut g d < max_cut g x)%N) ->
    lazy_run g (max_cut g d) tie (length g) (bfs_init hs) xs = eager_run (conv_init g (max_cut g d) hs) xs.

Lemma lazy_bfs_refines_proof : lazy_bfs_refines_stmt.
Proof.
  intros g hs d tie xs Hwf Hin Hd Hxs.
  apply (lazy_bfs_refines_run g hs d tie Hwf Hin Hd xs [] (bfs_init hs)).
  - apply K_init; auto.
  - intros x Hx. destruct (Hxs x Hx) as [H1 H2]. split; auto. apply closure_spec; auto.
Qed.
