(** Coverage reasoning about [find_needed_segments]: covered entries of the
    traversal are ancestors of locations the peer advertised; if some head of
    the store is NOT such an ancestor the result is non-empty
    ([needed_nonempty]); hence an empty result means the peer's sample covers
    the whole store ([quiescent_covered]). *)
From Aranya Require Import base.Tactics gen.GenQueue gen.GenSync model.Dag model.TravQueue model.Wire model.SyncStore model.SyncResp
  proofs.TravQueueVec proofs.TravQueueMoves proofs.TravQueueSpec proofs.TravQueueProofs
  proofs.SyncStoreProofs proofs.SyncQueueFacts proofs.SyncRespProofs.
From Coq Require Import Sorted.
Local Open Scope N_scope.

Section Cover.
Variable dbg : bool.
Variable st : store.
Hypothesis W : wf_store st.
Variable haves : list loc.
Hypothesis Hhaves : Forall (valid_loc st) haves.

(** [x] is a location the peer is known to hold: an ancestor-or-equal of an advertised location *)
Definition Cov (x : loc) : Prop := exists h, In h haves /\ loc_anc st x h.

Lemma cov_down x y : Cov x -> loc_anc st y x -> Cov y.
Proof. intros (h & Hh & Ha) Hy. exists h. split; auto. eapply loc_anc_trans; eauto. Qed.

Lemma same_seg_anc a b : valid_loc st a -> valid_loc st b -> lseg a = lseg b -> lmc a <= lmc b -> loc_anc st a b.
Proof.
  intros (sa & Hfa & Hra) (sb & Hfb & Hrb) Hs Hm. rewrite Hs in Hfa. assert (sa = sb) by congruence. subst sb.
  pose proof Hfb as Hf'. apply find_seg_some in Hf' as [Hin Hidx].
  rewrite <- (loc_eta a), <- (loc_eta b), Hs, <- Hidx. apply anc_in_seg'; auto.
Qed.

(** the last location of the segment of [y] *)
Definition tip (y : loc) : loc :=
  match find_seg (st_segs st) (lseg y) with Some sg => L (seg_longest sg) (lseg y) | None => L 0 (lseg y) end.

Lemma tip_anc y : valid_loc st y -> valid_loc st (tip y) /\ loc_anc st y (tip y).
Proof.
  intros Hv. pose proof Hv as (sg & Hf & Hr). unfold tip. rewrite Hf.
  pose proof Hf as Hf'. apply find_seg_some in Hf' as [Hin Hidx].
  assert (Hvt : valid_loc st (L (seg_longest sg) (lseg y))).
  { exists sg. cbn. split; auto. unfold in_range in *. lia. }
  split; auto. apply same_seg_anc; auto. cbn. unfold in_range in Hr. lia.
Qed.

Lemma tip_same a b : lseg a = lseg b -> tip a = tip b.
Proof. intro H. unfold tip. rewrite H. reflexivity. Qed.

(** * Queue facts with flags *)
Lemma push_keeps_uncovered q l c q' :
  rep_ok q -> quniq q -> push_covered q l c = Ok q' ->
  (forall e b, qin q e b -> valid_loc st e) -> valid_loc st l -> (c = true -> Cov l) ->
  (exists e, qin q e false /\ ~ Cov e) -> exists e, qin q' e false /\ ~ Cov e.
Proof.
  intros Hr Hu E Hv Hvl Hc (e & He & Hn).
  destruct (q_push q l c Hr) as (q2 & E2 & _ & Hin1 & Hoth & Hhi & Hex & _). rewrite E in E2. inv E2.
  destruct (N.eq_dec (lseg e) (lseg l)) as [Hs|Hs]; [|exists e; split; auto].
  destruct (N.lt_ge_cases (lmc l) (lmc e)); [exists e; split; auto|].
  destruct Hex as (e' & b' & Hq' & Hs' & Hm').
  assert (Hae : loc_anc st e l) by (apply same_seg_anc; eauto).
  destruct (Hin1 e' b' Hq') as [Hold|[-> Hb]].
  - (* an old entry of the same segment: it is [e] *)
    assert (e' = e /\ b' = false) as [-> ->].
    { unfold quniq, uniq_ms, qin in *. clear - Hu Hold He Hs Hs'.
      assert (Hsame : lseg e' = lseg e) by congruence.
      induction (absq q) as [|[x bx] m IH]; [destruct He|]. cbn in Hu. apply NoDup_cons_iff in Hu as [Hni Hnd].
      destruct Hold as [Eo|Ho], He as [Ee|He'].
      - inv Eo. inv Ee. auto.
      - inv Eo. exfalso. apply Hni. rewrite Hsame. apply in_map_iff. exists (e, false). auto.
      - inv Ee. exfalso. apply Hni. rewrite <- Hsame. apply in_map_iff. exists (e', b'). auto.
      - auto. }
    exists e. auto.
  - destruct Hb as [->|(b0 & Hb0 & ->)].
    + destruct c; [exfalso; apply Hn; eapply cov_down; eauto|]. exists l. split; auto.
      intro Hcl. apply Hn. eapply cov_down; eauto.
    + destruct c; [exfalso; apply Hn; eapply cov_down; eauto|].
      rewrite orb_false_r in *.
      assert (l = e /\ b0 = false) as [-> ->].
      { unfold quniq, uniq_ms, qin in *. clear - Hu Hb0 He Hs.
        assert (Hsame : lseg l = lseg e) by congruence.
        induction (absq q) as [|[x bx] m IH]; [destruct He|]. cbn in Hu. apply NoDup_cons_iff in Hu as [Hni Hnd].
        destruct Hb0 as [Eo|Ho], He as [Ee|He'].
        - inv Eo. inv Ee. auto.
        - inv Eo. exfalso. apply Hni. rewrite Hsame. apply in_map_iff. exists (e, false). auto.
        - inv Ee. exfalso. apply Hni. rewrite <- Hsame. apply in_map_iff. exists (l, b0). auto.
        - auto. }
      exists e. auto.
Qed.

Lemma push_covered_flags q l c q' :
  rep_ok q -> push_covered q l c = Ok q' -> (c = true -> Cov l) ->
  (forall e, qin q e true -> Cov e) -> forall e, qin q' e true -> Cov e.
Proof.
  intros Hr E Hc Hold e Hq. destruct (q_push q l c Hr) as (q2 & E2 & _ & Hin1 & _). rewrite E in E2. inv E2.
  destruct (Hin1 e true Hq) as [H|[-> [Hb|(b0 & Hb0 & Hb)]]]; auto.
  destruct c; auto. rewrite orb_false_r in Hb. subst b0. auto.
Qed.

(** * The invariant *)
Record cinv (s : fstate) : Prop := {
  ci_hr : rep_ok (f_heads s);
  ci_pr : rep_ok (f_pending s);
  ci_hu : quniq (f_heads s);
  ci_pu : quniq (f_pending s);
  ci_hv : forall e b, qin (f_heads s) e b -> valid_loc st e;
  ci_pv : forall e b, qin (f_pending s) e b -> valid_loc st e;
  ci_hc : forall e, qin (f_heads s) e true -> Cov e;
  ci_pc : forall y, qin (f_pending s) y true -> Cov (tip y);
  ci_cl : (length (f_collected s) <= cap_segs)%nat }.

(** something will be sent: an uncovered pending entry whose segment tip the peer lacks, or a collected entry *)
Definition will_send (s : fstate) : Prop :=
  (exists y, qin (f_pending s) y false /\ ~ Cov (tip y)) \/ f_collected s <> [].
(** ... or an uncovered head that the peer lacks is still to be processed *)
Definition wit (s : fstate) : Prop := (exists e, qin (f_heads s) e false /\ ~ Cov e) \/ will_send s.

Lemma lift_q_inv {A} (r : TravQueue.res A) a : lift_q dbg r = ROk a -> r = TravQueue.Ok a.
Proof. destruct r; cbn; try discriminate; [congruence|destruct dbg; discriminate]. Qed.

Lemma push_all_cover ps c : forall q q',
  push_all dbg q ps c = ROk q' -> rep_ok q -> quniq q ->
  (forall e b, qin q e b -> valid_loc st e) -> (forall p, In p ps -> valid_loc st p /\ (c = true -> Cov p)) ->
  (forall e, qin q e true -> Cov e) ->
  rep_ok q' /\ quniq q' /\ (forall e b, qin q' e b -> valid_loc st e) /\ (forall e, qin q' e true -> Cov e) /\
  ((exists e, qin q e false /\ ~ Cov e) -> exists e, qin q' e false /\ ~ Cov e).
Proof.
  induction ps as [|p ps IH]; intros q q' E Hr Hu Hv Hps Hc; cbn [push_all] in E.
  - inv E. repeat split; auto.
  - apply rbind_ok in E as (q1 & E1 & E). apply lift_q_inv in E1.
    destruct (Hps p (or_introl eq_refl)) as [Hvp Hcp].
    destruct (q_push q p c Hr) as (q2 & E2 & Hr1 & Hin1 & _ & _ & _ & Hu1). rewrite E1 in E2. inv E2.
    assert (Hv1 : forall e b, qin q2 e b -> valid_loc st e).
    { intros e b Hq. destruct (Hin1 e b Hq) as [?|[-> _]]; eauto. }
    destruct (IH q2 q' E Hr1 (Hu1 Hu) Hv1) as (R1 & R2 & R3 & R4 & R5).
    + intros p' Hp'. apply Hps. now right.
    + exact (push_covered_flags q p c q2 Hr E1 Hcp Hc).
    + repeat split; auto. intro Hw. apply R5. exact (push_keeps_uncovered q p c q2 Hr Hu E1 Hv Hvp Hcp Hw).
Qed.

(** pushing an uncovered location into [pending] *)
Lemma pending_push q l q' :
  push q l = Ok q' -> rep_ok q -> quniq q -> valid_loc st l ->
  (forall e b, qin q e b -> valid_loc st e) -> (forall y, qin q y true -> Cov (tip y)) ->
  rep_ok q' /\ quniq q' /\ (forall e b, qin q' e b -> valid_loc st e) /\ (forall y, qin q' y true -> Cov (tip y)) /\
  ((exists y, qin q y false /\ ~ Cov (tip y)) -> exists y, qin q' y false /\ ~ Cov (tip y)) /\
  (~ Cov (tip l) -> exists y, qin q' y false /\ ~ Cov (tip y)).
Proof.
  unfold push. intros E Hr Hu Hvl Hv Hc.
  destruct (q_push q l false Hr) as (q2 & E2 & Hr1 & Hin1 & Hoth & Hhi & Hex & Hu1). rewrite E in E2. inv E2.
  assert (Hc' : forall y, qin q2 y true -> Cov (tip y)).
  { intros y Hq. destruct (Hin1 y true Hq) as [H|[-> [Hb|(b0 & Hb0 & Hb)]]]; auto; [discriminate|].
    rewrite orb_false_r in Hb. subst b0. auto. }
  assert (Hnew : ~ Cov (tip l) -> exists y, qin q2 y false /\ ~ Cov (tip y)).
  { intro Hn. destruct Hex as (e' & b' & Hq' & Hs' & _). exists e'. rewrite (tip_same e' l Hs'). split; auto.
    destruct b'; auto. exfalso. apply Hn. rewrite <- (tip_same e' l Hs'). auto. }
  repeat split; auto.
  - intros e b Hq. destruct (Hin1 e b Hq) as [?|[-> _]]; eauto.
  - intros (y & Hy & Hn). destruct (N.eq_dec (lseg y) (lseg l)) as [Hs|Hs]; [|exists y; split; auto].
    apply Hnew. now rewrite <- (tip_same y l Hs).
Qed.

Lemma scan_have_in shortest sgi : forall n scan h,
  scan_have haves scan n shortest sgi = ROk (Some h) -> In h haves /\ lseg h = sgi /\ shortest <= lmc h.
Proof.
  induction n as [|n IH]; intros scan h; cbn [scan_have]; [discriminate|].
  destruct (nth_error haves scan) as [x|] eqn:Ex; [|discriminate].
  destruct (N.ltb_spec (lmc x) shortest); [discriminate|].
  destruct (N.eqb_spec (lseg x) sgi).
  - intro E; inv E. repeat split; auto. eapply nth_error_In; eauto.
  - apply IH.
Qed.

Definition ctl_state := SyncRespProofs.ctl_state.

Lemma push_bounded_all_ne v ls v' : push_bounded_all v ls = ROk v' -> (length v <= cap_segs)%nat ->
  (length v' <= cap_segs)%nat /\ ((v <> [] \/ ls <> []) -> v' <> []).
Proof.
  intros E Hl. destruct (push_bounded_all_ok (fun _ => True) ls v) as (v2 & E2 & _ & Hl2 & _ & Hne); auto.
  - apply Forall_forall; auto.
  - apply Forall_forall; auto.
  - rewrite E in E2. inv E2. auto.
Qed.

Lemma body_cover s head covered c :
  cinv s -> valid_loc st head -> (covered = true -> Cov head) ->
  fns_body dbg st haves s head covered = ROk c ->
  cinv (ctl_state c) /\ ((wit s \/ (covered = false /\ ~ Cov head)) -> wit (ctl_state c)) /\
  (forall s2, c = Break s2 -> early_stop (f_heads s2) = true).
Proof.
  intros [Hhr Hpr Hhu Hpu Hhv Hpv Hhc Hpc Hcl] Hvh Hcov Hb. unfold fns_body in Hb.
  apply rbind_ok in Hb as (s1 & E1 & Hb).
  (* the flush *)
  assert (Hs1 : cinv s1 /\ f_heads s1 = f_heads s /\ (will_send s -> will_send s1)).
  { destruct (opt_N_eqb (f_prev s) (lmc head)).
    - inv E1. split; [constructor; auto|auto].
    - apply rbind_ok in E1 as ([p' ls] & Ed & E1). apply lift_q_inv in Ed.
      apply rbind_ok in E1 as (c' & Ec & E1). inv E1.
      destruct (q_drain_above (f_pending s) (lmc head) Hpr) as (p2 & ls2 & E2 & Hr2 & Hin2 & Hls2 & Hu2). rewrite Ed in E2. inv E2.
      destruct (push_bounded_all_ne _ _ _ Ec Hcl) as [Hcl' Hne].
      split; [|split; [reflexivity|]].
      + constructor; cbn; auto.
        * intros e b Hq. apply Hin2 in Hq as [Hq _]. eauto.
        * intros y Hq. apply Hin2 in Hq as [Hq _]. eauto.
      + intros [(y & Hy & Hn)|Hne0]; unfold will_send; cbn.
        * destruct (N.le_gt_cases (lmc y) (lmc head)).
          -- left. exists y. split; auto. apply Hin2. auto.
          -- right. apply Hne. right. intro E0. assert (Hin : In y ls2) by (apply Hls2; auto). rewrite E0 in Hin. destruct Hin.
        * right. apply Hne. now left. }
  destruct Hs1 as ([Hhr1 Hpr1 Hhu1 Hpu1 Hhv1 Hpv1 Hhc1 Hpc1 Hcl1] & Eh & Hws).
  apply rbind_ok in Hb as (sg & Hsg & Hb).
  pose proof (get_segment_in _ _ _ Hsg) as [Hin Hidx].
  assert (Hfs : find_seg (st_segs st) (lseg head) = Some sg) by now apply get_segment_ok.
  assert (Hr : in_range sg (lmc head)).
  { destruct Hvh as (sg' & Hf' & Hr'). rewrite Hfs in Hf'. inv Hf'. exact Hr'. }
  assert (Hlg : seg_longest sg <= u64_max) by (pose proof (wf_bound _ W sg Hin); lia).
  assert (Htip : tip head = L (seg_longest sg) (lseg head)) by (unfold tip; now rewrite Hfs).
  assert (Hpv_pri : forall p, In p (prior_list (g_prior sg)) -> valid_loc st p).
  { intros p Hp. now destruct (wf_prior _ W sg p Hin Hp). }
  assert (Hw1 : (exists e, qin (f_heads s) e false /\ ~ Cov e) -> exists e, qin (f_heads s1) e false /\ ~ Cov e) by (rewrite Eh; auto).
  destruct covered.
  - (* covered *)
    specialize (Hcov eq_refl).
    apply rbind_ok in Hb as (p' & Ep & Hb). apply lift_q_inv in Ep.
    apply rbind_ok in Hb as (h' & Eh' & Hb).
    destruct (q_cover (f_pending s1) (lseg head) (lmc head) (seg_longest sg) Hpr1 Hlg) as (p2 & E2 & Hrp & Hinp & Hoth & Habove & Hraise & Hup).
    rewrite Ep in E2. inv E2.
    assert (Hfull : seg_longest sg <= lmc head -> Cov (tip head)).
    { intro Hle. rewrite Htip. replace (seg_longest sg) with (lmc head) by (unfold in_range in Hr; lia). now rewrite loc_eta. }
    destruct (push_all_cover _ true _ _ Eh' Hhr1 Hhu1 Hhv1) as (R1 & R2 & R3 & R4 & R5); auto.
    { intros p Hp. split; auto. intros _. eapply cov_down; [exact Hcov|].
      rewrite <- (loc_eta head), <- Hidx. apply prior_anc; auto. }
    set (s2 := {| f_heads := h'; f_pending := p2; f_collected := f_collected s1; f_prev := f_prev s1; f_cursor := f_cursor s1 |}).
    assert (Hinv : cinv s2).
    { constructor; cbn; auto.
      - intros e b Hq. destruct (Hinp e b Hq) as [H|[(_ & _ & H & _)|(_ & e0 & H0 & Hs0 & Hle & Hltc & ->)]]; eauto.
        exists sg. cbn. rewrite Hs0. split; auto. pose proof (Hpv1 e0 false H0) as (sg0 & Hf0 & Hr0).
        rewrite Hs0, Hfs in Hf0. inv Hf0. unfold in_range in *. lia.
      - intros y Hq. destruct (Hinp y true Hq) as [H|[(_ & Hs0 & H & Hle)|(Hf & _)]]; auto; [|discriminate].
        rewrite (tip_same y head Hs0). auto. }
    assert (Hwit : wit s \/ true = false /\ ~ Cov head -> wit s2).
    { intros [[Hw|Hw]|[Ef _]]; [| |discriminate].
      - left. cbn. apply R5. auto.
      - right. destruct (Hws Hw) as [(y & Hy & Hn)|Hne]; [|right; exact Hne].
        left. cbn. destruct (N.eq_dec (lseg y) (lseg head)) as [Hs|Hs]; [|exists y; split; auto].
        destruct (N.le_gt_cases (seg_longest sg) (lmc head)) as [Hle|Hgt].
        + exfalso. apply Hn. rewrite (tip_same y head Hs). auto.
        + destruct (N.le_gt_cases (lmc y) (lmc head)).
          * exists (with_mc y (lmc head + 1)). split; [apply Hraise; auto|].
            rewrite (tip_same _ y); auto.
          * exists y. split; auto. }
    destruct (early_stop h') eqn:Ees; inv Hb; cbn [ctl_state SyncRespProofs.ctl_state]; (split; [exact Hinv|split; [exact Hwit|]]).
    + intros s3 E3. inv E3. exact Ees.
    + intros s3 E3. discriminate.
  - (* uncovered *)
    apply rbind_ok in Hb as (best & Eb & Hb).
    apply rbind_ok in Hb as (s2 & E2 & Hb).
    assert (Hfin : cinv s2 /\ (wit s \/ false = false /\ ~ Cov head -> wit s2)).
    { destruct best as [hloc|].
      - apply scan_have_in in Eb as (Hinh & Hsegh & Hsh).
        assert (Hvl : valid_loc st hloc) by (eapply Forall_forall in Hhaves; eauto).
        assert (Hrl : in_range sg (lmc hloc)).
        { destruct Hvl as (sg' & Hf' & Hr'). rewrite Hsegh, Hfs in Hf'. inv Hf'. exact Hr'. }
        assert (Hch : Cov hloc) by (exists hloc; split; [auto|apply la_refl]).
        apply rbind_ok in E2 as (h' & Eh' & E2). apply rbind_ok in E2 as (p' & Ep & E2). inv E2.
        destruct (push_all_cover _ true _ _ Eh' Hhr1 Hhu1 Hhv1) as (R1 & R2 & R3 & R4 & R5); auto.
        { intros p Hp. split; auto. intros _. eapply cov_down; [exact Hch|].
          rewrite <- (loc_eta hloc), Hsegh, <- Hidx. apply prior_anc; auto. }
        assert (Hp : rep_ok p' /\ quniq p' /\ (forall e b, qin p' e b -> valid_loc st e) /\ (forall y, qin p' y true -> Cov (tip y)) /\
                     ((exists y, qin (f_pending s1) y false /\ ~ Cov (tip y)) -> exists y, qin p' y false /\ ~ Cov (tip y)) /\
                     (~ Cov head -> exists y, qin p' y false /\ ~ Cov (tip y))).
        { destruct (N.ltb_spec (lmc hloc) (seg_longest sg)).
          - destruct (N.ltb_spec (lmc hloc) u64_max); [|destruct dbg; discriminate].
            apply lift_q_inv in Ep.
            assert (Hvn : valid_loc st (L (lmc hloc + 1) (lseg head))).
            { exists sg. cbn. split; auto. unfold in_range in *. lia. }
            destruct (pending_push _ _ _ Ep Hpr1 Hpu1 Hvn Hpv1 Hpc1) as (Q1 & Q2 & Q3 & Q4 & Q5 & Q6).
            repeat split; auto. intro Hn. apply Q6. rewrite (tip_same _ head) by reflexivity.
            intro Hc. apply Hn. eapply cov_down; [exact Hc|]. now apply tip_anc.
          - inv Ep. repeat split; auto. intro Hn. exfalso. apply Hn. eapply cov_down; [exact Hch|].
            apply same_seg_anc; auto. unfold in_range in *. lia. }
        destruct Hp as (Q1 & Q2 & Q3 & Q4 & Q5 & Q6).
        split; [constructor; cbn; auto|].
        intros [[Hw|Hw]|[_ Hn]].
        + left. cbn. apply R5. auto.
        + right. destruct (Hws Hw) as [Hy|Hne]; [left; cbn; auto|right; exact Hne].
        + right. left. cbn. auto.
      - apply rbind_ok in E2 as (p' & Ep & E2). apply lift_q_inv in Ep. apply rbind_ok in E2 as (h' & Eh' & E2). inv E2.
        destruct (pending_push _ _ _ Ep Hpr1 Hpu1 (valid_first _ _ W Hin) Hpv1 Hpc1) as (Q1 & Q2 & Q3 & Q4 & Q5 & Q6).
        destruct (push_all_cover _ false _ _ Eh' Hhr1 Hhu1 Hhv1) as (R1 & R2 & R3 & R4 & R5); auto.
        { intros p Hp. split; auto. discriminate. }
        split; [constructor; cbn; auto|].
        intros [[Hw|Hw]|[_ Hn]].
        + left. cbn. apply R5. auto.
        + right. destruct (Hws Hw) as [Hy|Hne]; [left; cbn; auto|right; exact Hne].
        + right. left. cbn. apply Q6. rewrite (tip_same (seg_first_loc sg) head) by (cbn; auto).
          intro Hc. apply Hn. eapply cov_down; [exact Hc|]. now apply tip_anc. }
    destruct Hfin as [Hinv Hwit].
    destruct (early_stop (f_heads s2)) eqn:Ees; inv Hb; cbn [ctl_state SyncRespProofs.ctl_state]; (split; [exact Hinv|split; [exact Hwit|]]).
    + intros s3 E3. inv E3. exact Ees.
    + intros s3 E3. discriminate.
Qed.

Lemma loop_cover : forall fuel s s',
  fns_loop fuel dbg st haves s = ROk s' -> cinv s -> cinv s' /\ (wit s -> will_send s').
Proof.
  induction fuel as [|f IH]; intros s s' E Hinv; cbn [fns_loop] in E; [discriminate|].
  pose proof Hinv as [Hhr Hpr Hhu Hpu Hhv Hpv Hhc Hpc Hcl].
  apply rbind_ok in E as ([h' r] & Ep & E). apply lift_q_inv in Ep.
  destruct (q_pop (f_heads s) Hhr) as (h2 & r2 & E2 & Hr' & Hspec & Hu'). rewrite Ep in E2. inv E2.
  destruct r2 as [[head covered]|].
  - destruct Hspec as (Hin & Hmax & Hsub & Hoth & Hdiff).
    apply rbind_ok in E as (c & Ec & E).
    set (s0 := {| f_heads := h2; f_pending := f_pending s; f_collected := f_collected s; f_prev := f_prev s; f_cursor := f_cursor s |}) in *.
    assert (Hinv0 : cinv s0) by (constructor; cbn; eauto).
    assert (Hvh : valid_loc st head) by eauto.
    assert (Hcv : covered = true -> Cov head) by (intros ->; auto).
    destruct (body_cover s0 head covered c Hinv0 Hvh Hcv Ec) as (Hic & Hwc & Hbr).
    assert (Hw0 : wit s -> wit s0 \/ covered = false /\ ~ Cov head).
    { intros [(e & He & Hn)|Hw]; [|left; right; exact Hw].
      destruct (N.eq_dec (lseg e) (lseg head)) as [Hs|Hs]; [|left; left; exists e; split; auto; cbn; eapply Hoth; eauto].
      (* same segment as the popped entry: it is the popped entry *)
      assert (e = head /\ covered = false) as [-> ->].
      { unfold quniq, uniq_ms, qin in *. clear - Hhu He Hin Hs.
        induction (absq (f_heads s)) as [|[x bx] m IHm]; [destruct He|]. cbn in Hhu. apply NoDup_cons_iff in Hhu as [Hni Hnd].
        destruct He as [Ee|He'], Hin as [Eo|Ho].
        - inv Ee. inv Eo. auto.
        - inv Ee. exfalso. apply Hni. rewrite Hs. apply in_map_iff. exists (head, covered). auto.
        - inv Eo. exfalso. apply Hni. rewrite <- Hs. apply in_map_iff. exists (e, false). auto.
        - auto. }
      right. auto. }
    destruct c as [s1|s1]; cbn [ctl_state SyncRespProofs.ctl_state] in *.
    + destruct (IH s1 s' E Hic) as [Hi' Hw']. split; auto.
    + inv E. split; auto. intro Hw. destruct (Hwc (Hw0 Hw)) as [(e & He & Hn)|Hws]; auto.
      exfalso. specialize (Hbr _ eq_refl). unfold early_stop in Hbr. apply andb_true_iff in Hbr as [Hall _].
      pose proof (proj1 (q_all_covered _ (ci_hr _ Hic)) Hall e false He). discriminate.
  - inv E. destruct Hspec as [Hn1 Hn2]. split.
    + constructor; cbn; auto.
      * intros e b Hq. exfalso. eapply Hn2; eauto.
      * intros e Hq. exfalso. eapply Hn2; eauto.
    + intros [(e & He & _)|Hw]; [exfalso; eapply Hn1; eauto|exact Hw].
Qed.
End Cover.

(** * From the traversal to [find_needed_segments] *)
Lemma skip_loop_ge st target : wf_store st -> forall fuel current l,
  valid_loc st current -> target <= lmc current -> skip_loop fuel st current target = ROk l -> target <= lmc l.
Proof.
  intro W. induction fuel as [|f IH]; intros current l Hv Hge E; cbn [skip_loop] in E; [discriminate|].
  apply rbind_ok in E as (sg & Hsg & E). pose proof (get_segment_in _ _ _ Hsg) as [Hin Hidx].
  destruct (min_mc None _) as [skip|] eqn:Em.
  - apply min_mc_in in Em as [Em|Em]; [discriminate|]. apply filter_In in Em as [Hsk Hc].
    apply andb_true_iff in Hc as [Hc _]. apply N.leb_le in Hc.
    destruct (wf_skip _ W sg skip Hin Hsk) as [Hvs _]. eapply IH; eauto.
  - destruct (g_prior sg) as [|p|a b] eqn:Ep.
    + inv E. auto.
    + destruct (N.ltb_spec (lmc p) target); [inv E; auto|].
      destruct (wf_prior _ W sg p Hin) as [Hvp _]; [rewrite Ep; cbn; auto|]. eapply IH; eauto.
    + destruct (_ || _); inv E; auto.
Qed.

Section Top.
Variable dbg : bool.
Variable st : store.
Hypothesis W : wf_store st.
Variable cmds : list addr.

(** [x] is an ancestor-or-equal of a command the peer advertised and this store holds *)
Definition covered_by (x : loc) : Prop :=
  exists a l, In a cmds /\ get_location st a = Some l /\ loc_anc st x l.

Let haves := sort_desc_mc (have_locations st cmds).

Lemma haves_valid : Forall (valid_loc st) haves.
Proof.
  apply Forall_forall. intros x Hx. unfold haves in Hx. apply (proj1 (sort_desc_in _ _)) in Hx.
  pose proof (have_locations_valid st cmds W) as Hf. eapply Forall_forall in Hf; eauto.
Qed.

Lemma cov_covered x : Cov st haves x <-> covered_by x.
Proof.
  unfold Cov, covered_by, haves. split.
  - intros (h & Hh & Ha). apply (proj1 (sort_desc_in _ _)) in Hh. unfold have_locations in Hh.
    apply in_flat_map in Hh as (a & Hina & Hl). destruct (get_location st a) eqn:E; [|destruct Hl].
    destruct Hl as [<-|[]]. exists a, l. auto.
  - intros (a & l & Hina & Hl & Ha). exists l. split; auto. apply sort_desc_in. unfold have_locations.
    apply in_flat_map. exists a. split; auto. rewrite Hl. now left.
Qed.

Definition highest : N := match haves with h :: _ => lmc h | [] => 0 end.

Lemma cov_below x : Cov st haves x -> lmc x <= highest.
Proof.
  intros (h & Hh & Ha). pose proof (loc_anc_mc _ _ _ W Ha) as Hm. pose proof (sort_desc_sorted (have_locations st cmds)) as Hs.
  unfold highest, haves in *. unfold desc_sorted in Hs. destruct (sort_desc_mc (have_locations st cmds)) as [|h0 r]; [destruct Hh|].
  apply StronglySorted_inv in Hs as [_ Hall]. destruct Hh as [E|Hh]; [subst h0; exact Hm|].
  pose proof (proj1 (Forall_forall _ _) Hall h Hh) as Hb. cbn in Hb. lia.
Qed.

Lemma seed_cover target : highest < target -> forall hs q q',
  seed_heads dbg st q hs target = ROk q' -> rep_ok q -> quniq q ->
  (forall e b, qin q e b -> valid_loc st e /\ b = false) -> (forall i h, In (i, h) hs -> valid_loc st h) ->
  rep_ok q' /\ quniq q' /\ (forall e b, qin q' e b -> valid_loc st e /\ b = false) /\
  ((exists e, qin q e false /\ ~ Cov st haves e) \/ (exists i h, In (i, h) hs /\ ~ Cov st haves h) ->
   exists e, qin q' e false /\ ~ Cov st haves e).
Proof.
  intro Ht. induction hs as [|[i h] hs IH]; intros q q' E Hr Hu Hq Hhs; cbn [seed_heads] in E.
  - inv E. split; [auto|split; [auto|split; [auto|]]]. intros [Hw|(i & h & Hf & _)]; [exact Hw|destruct Hf].
  - apply rbind_ok in E as (start & Es & E). apply rbind_ok in E as (q1 & Ep & E). apply (lift_q_inv dbg) in Ep.
    assert (Hvh : valid_loc st h) by (eapply Hhs; now left).
    assert (Hvs : valid_loc st start /\ (~ Cov st haves h -> ~ Cov st haves start)).
    { unfold skip_jump in Es. destruct (N.leb_spec (lmc h) target).
      - inv Es. auto.
      - destruct (skip_loop_ok st target W (S (N.to_nat (lmc h))) h Hvh ltac:(lia)) as (l & El & Hvl).
        rewrite Es in El. inv El. split; auto. intros _ Hc. apply cov_below in Hc.
        pose proof (skip_loop_ge st target W _ _ _ Hvh ltac:(lia) Es). lia. }
    destruct Hvs as [Hvs Hns]. unfold push in Ep.
    destruct (q_push q start false Hr) as (q2 & E2 & Hr1 & Hin1 & _ & _ & Hex & Hu1). rewrite Ep in E2. inv E2.
    assert (Hq1 : forall e b, qin q2 e b -> valid_loc st e /\ b = false).
    { intros e b Hqe. destruct (Hin1 e b Hqe) as [Ho|[-> [->|(b0 & Hb0 & ->)]]]; auto.
      destruct (Hq _ _ Hb0) as [_ ->]. auto. }
    destruct (IH q2 q' E Hr1 (Hu1 Hu) Hq1) as (R1 & R2 & R3 & R4).
    { intros i' h' Hin. eapply Hhs. right. eauto. }
    split; [exact R1|split; [exact R2|split; [exact R3|]]]. intros Hw. apply R4.
    destruct Hw as [Hw|(i' & h' & [Ei|Hin] & Hn)].
    + left. eapply (push_keeps_uncovered st W haves q start false q2); eauto.
      * intros e b Hqe. now destruct (Hq e b Hqe).
      * discriminate.
    + inv Ei. left. destruct Hex as (e' & b' & Hqe & Hs' & Hm'). destruct (Hq1 e' b' Hqe) as [Hve ->].
      exists e'. split; auto. intro Hc. apply (Hns Hn). eapply cov_down; [exact Hc|].
      apply same_seg_anc; auto.
    + right. eauto.
Qed.

Theorem needed_nonempty0 r :
  find_needed_segments dbg st cmds = ROk r ->
  (exists i h, In (i, h) (st_heads st) /\ ~ covered_by h) -> r <> [].
Proof.
  intros E (i & h & Hin & Hn). unfold find_needed_segments in E.
  destruct (Nat.ltb _ _); [destruct dbg; discriminate|]. fold haves in E. fold highest in E.
  destruct (N.ltb_spec (u64_max - SEGMENT_BUFFER_MAX) highest); [destruct dbg; discriminate|].
  apply rbind_ok in E as (heads & Eh & E). apply rbind_ok in E as (s & Es & E).
  destruct (drain_all (f_pending s)) as [q' rest] eqn:Ed. apply rbind_ok in E as (c & Ec & E). inv E.
  destruct qnew_ok as (Hr0 & Hu0 & Hn0).
  destruct (seed_cover (highest + SEGMENT_BUFFER_MAX) ltac:(rewrite SEGMENT_BUFFER_MAX_pin; lia) (st_heads st) qnew heads Eh Hr0 Hu0)
    as (R1 & R2 & R3 & R4).
  { intros e b Hq. exfalso. eapply Hn0; eauto. }
  { intros i' h' Hi'. eapply wf_heads; eauto. }
  assert (Hw : exists e, qin heads e false /\ ~ Cov st haves e).
  { apply R4. right. exists i, h. split; auto. intro Hc. apply Hn. now apply cov_covered. }
  destruct (loop_cover dbg st W haves haves_valid _ _ _ Es) as [Hinv Hsend].
  { constructor; cbn; auto; try lia;
      try (intros e b Hq; now destruct (R3 e b Hq));
      try (intros e Hq; destruct (R3 e true Hq) as [_ Hf]; discriminate);
      try (intros; exfalso; eapply Hn0; eauto). }
  destruct (push_bounded_all_ne _ _ _ Ec (ci_cl _ _ _ Hinv)) as [_ Hne].
  assert (Hc : c <> []).
  { apply Hne. destruct (Hsend (or_introl Hw)) as [(y & Hy & _)|Hcne]; [right|left; exact Hcne].
    pose proof (q_drain_all (f_pending s) (ci_pr _ _ _ Hinv) y) as Hd. rewrite Ed in Hd. cbn [snd] in Hd.
    intro E0. apply Hd in Hy. rewrite E0 in Hy. destruct Hy. }
  intro E0. apply Hc. apply (f_equal (@length _)) in E0. rewrite sort_locs_length in E0. destruct c; [reflexivity|discriminate].
Qed.
End Top.
