(** [find_needed_segments]: totality (no panic, no bug, enough fuel) and
    soundness (every returned location is a committed command's location; the
    result is sorted and bounded) on every well-formed store. *)
From Aranya Require Import base.Tactics gen.GenQueue gen.GenSync model.Dag model.TravQueue model.Wire model.SyncStore model.SyncResp
  proofs.TravQueueVec proofs.TravQueueMoves proofs.TravQueueSpec proofs.TravQueueProofs
  proofs.SyncStoreProofs proofs.SyncQueueFacts.
From Coq Require Import Sorted.
Local Open Scope N_scope.

(** * Pins on the generated constants *)
Lemma SEGMENT_BUFFER_MAX_pin : SEGMENT_BUFFER_MAX = 100. Proof. reflexivity. Qed.
Lemma COMMAND_RESPONSE_MAX_pin : COMMAND_RESPONSE_MAX = 100. Proof. reflexivity. Qed.
Lemma COMMAND_SAMPLE_MAX_pin : COMMAND_SAMPLE_MAX = 100. Proof. reflexivity. Qed.
Lemma cap_segs_pos : (1 <= cap_segs)%nat.
Proof. unfold cap_segs. rewrite SEGMENT_BUFFER_MAX_pin. cbn. lia. Qed.
Lemma cap_resp_pos : (1 <= cap_resp)%nat.
Proof. unfold cap_resp. rewrite COMMAND_RESPONSE_MAX_pin. cbn. lia. Qed.

(** * Sorting *)
Lemma ins_loc_in x y l : In y (ins_loc x l) <-> y = x \/ In y l.
Proof.
  induction l as [|z l IH]; cbn; [intuition|].
  destruct (loc_leb x z); cbn; [intuition|]. rewrite IH. intuition.
Qed.
Lemma sort_locs_cons x l : sort_locs (x :: l) = ins_loc x (sort_locs l).
Proof. reflexivity. Qed.
Lemma sort_desc_cons x l : sort_desc_mc (x :: l) = ins_desc x (sort_desc_mc l).
Proof. reflexivity. Qed.
Lemma sort_locs_in y l : In y (sort_locs l) <-> In y l.
Proof.
  induction l as [|x l IH]; [cbn; tauto|]. rewrite sort_locs_cons, ins_loc_in, IH. cbn. intuition.
Qed.
Lemma ins_loc_length x l : length (ins_loc x l) = S (length l).
Proof. induction l as [|z l IH]; cbn; auto. destruct (loc_leb x z); cbn; auto. Qed.
Lemma sort_locs_length l : length (sort_locs l) = length l.
Proof. induction l as [|x l IH]; [reflexivity|]. rewrite sort_locs_cons, ins_loc_length, IH. reflexivity. Qed.

Definition loc_le (a b : loc) : Prop := loc_leb a b = true.
Lemma ins_loc_sorted x l : StronglySorted loc_le l -> StronglySorted loc_le (ins_loc x l).
Proof.
  induction 1 as [|z l Hs IH Hall]; cbn.
  - constructor; constructor.
  - destruct (loc_leb x z) eqn:E.
    + constructor; [constructor; auto|]. constructor; auto.
      eapply Forall_impl; [|exact Hall]. intros a Ha. eapply loc_leb_trans; eauto.
    + constructor; auto. apply Forall_forall. intros a Ha. apply ins_loc_in in Ha as [->|Ha].
      * now apply loc_leb_false.
      * eapply Forall_forall in Hall; eauto.
Qed.
Lemma sort_locs_sorted l : StronglySorted loc_le (sort_locs l).
Proof. induction l; [constructor|]. rewrite sort_locs_cons. now apply ins_loc_sorted. Qed.

Lemma ins_desc_in x y l : In y (ins_desc x l) <-> y = x \/ In y l.
Proof.
  induction l as [|z l IH]; cbn; [intuition|].
  destruct (lmc z <=? lmc x); cbn; [intuition|]. rewrite IH. intuition.
Qed.
Lemma sort_desc_in y l : In y (sort_desc_mc l) <-> In y l.
Proof. induction l as [|x l IH]; [cbn; tauto|]. rewrite sort_desc_cons, ins_desc_in, IH. cbn. intuition. Qed.

(** the first element of the descending sort has the greatest max cut *)
Definition desc_sorted (l : list loc) : Prop := StronglySorted (fun a b => lmc b <= lmc a) l.
Lemma ins_desc_sorted x l : desc_sorted l -> desc_sorted (ins_desc x l).
Proof.
  unfold desc_sorted. induction 1 as [|z l Hs IH Hall]; cbn.
  - constructor; constructor.
  - destruct (N.leb_spec (lmc z) (lmc x)).
    + constructor; [constructor; auto|]. constructor; auto.
      eapply Forall_impl; [|exact Hall]. cbn. intros; lia.
    + constructor; auto. apply Forall_forall. intros a Ha. apply ins_desc_in in Ha as [->|Ha]; [lia|].
      eapply Forall_forall in Hall; eauto.
Qed.
Lemma sort_desc_sorted l : desc_sorted (sort_desc_mc l).
Proof. induction l; [constructor|]. rewrite sort_desc_cons. now apply ins_desc_sorted. Qed.

(** * push_bounded *)
Lemma argmax_mc_from_spec l : forall i b,
  let r := argmax_mc_from i b l in
  r = b \/ exists k, nth_error l k = Some (snd r) /\ fst r = (i + k)%nat.
Proof.
  induction l as [|x l IH]; intros i b; cbn [argmax_mc_from]; auto.
  destruct (lmc (snd b) <=? lmc x).
  - destruct (IH (S i) (i, x)) as [->|(k & Hk & Hf)].
    + right. exists 0%nat. cbn. split; auto.
    + right. exists (S k). cbn [nth_error]. split; auto. lia.
  - destruct (IH (S i) b) as [->|(k & Hk & Hf)]; auto.
    right. exists (S k). cbn [nth_error]. split; auto. lia.
Qed.
Lemma argmax_mc_spec l :
  match argmax_mc l with
  | None => l = []
  | Some (i, x) => nth_error l i = Some x
  end.
Proof.
  destruct l as [|x l]; cbn [argmax_mc]; auto.
  pose proof (argmax_mc_from_spec l 1 (0%nat, x)) as H. cbn zeta in H.
  destruct (argmax_mc_from 1 (0%nat, x) l) as [i y]. cbn [fst snd] in H.
  destruct H as [H|(k & Hk & ->)]; [inv H; reflexivity|]. exact Hk.
Qed.

Lemma in_set_at {A} (l : list A) i y x : In x (set_at l i y) -> x = y \/ In x l.
Proof.
  revert i; induction l as [|z l IH]; intros [|i]; cbn; auto.
  - intros [->|H]; auto.
  - intros [->|H]; auto. destruct (IH _ H); auto.
Qed.

Lemma push_bounded_ok (P : loc -> Prop) v l :
  Forall P v -> P l -> (length v <= cap_segs)%nat ->
  exists v', push_bounded v l = ROk v' /\ Forall P v' /\ (length v' <= cap_segs)%nat /\
             (forall x, In x v' -> In x v \/ x = l) /\ (v' <> []).
Proof.
  intros Hv Hl Hlen. unfold push_bounded. destruct (Nat.ltb_spec (length v) cap_segs).
  - exists (v ++ [l]). repeat split; auto.
    + apply Forall_app. auto.
    + rewrite app_length. cbn. lia.
    + intros x Hx. apply in_app_or in Hx as [?| [->|[]]]; auto.
    + destruct v; discriminate.
  - pose proof (argmax_mc_spec v) as Ha. pose proof cap_segs_pos.
    destruct (argmax_mc v) as [[i m]|]; [|subst v; cbn in *; lia].
    rewrite Ha. destruct (lmc l <? lmc m).
    + exists (set_at v i l). repeat split.
      * apply Forall_forall. intros x Hx. apply in_set_at in Hx as [->|Hx]; auto. eapply Forall_forall in Hv; eauto.
      * rewrite set_at_length. lia.
      * intros x Hx. apply in_set_at in Hx as [->|Hx]; auto.
      * intro E. apply (f_equal (@length _)) in E. rewrite set_at_length in E. cbn in E. lia.
    + exists v. repeat split; auto. intro E. subst v. cbn in *. lia.
Qed.

Lemma push_bounded_all_ok (P : loc -> Prop) ls : forall v,
  Forall P v -> Forall P ls -> (length v <= cap_segs)%nat ->
  exists v', push_bounded_all v ls = ROk v' /\ Forall P v' /\ (length v' <= cap_segs)%nat /\
             (forall x, In x v' -> In x v \/ In x ls) /\ ((v <> [] \/ ls <> []) -> v' <> []).
Proof.
  induction ls as [|l ls IH]; intros v Hv Hls Hlen; cbn [push_bounded_all].
  - exists v. repeat split; auto. intros [?|?]; congruence.
  - inv Hls. destruct (push_bounded_ok P v l Hv H1 Hlen) as (v1 & E1 & Hv1 & Hl1 & Hin1 & Hne1).
    rewrite E1. cbn [rbind]. destruct (IH v1 Hv1 H2 Hl1) as (v' & E' & Hv' & Hl' & Hin' & Hne').
    exists v'. repeat split; auto.
    intros x Hx. destruct (Hin' x Hx) as [H|H]; [|right; now right].
    destruct (Hin1 x H) as [? | ->]; auto. right. now left.
Qed.

(** * skip_jump *)
Lemma min_mc_in l : forall b x, min_mc b l = Some x -> b = Some x \/ In x l.
Proof.
  induction l as [|y l IH]; intros b x; cbn [min_mc]; auto.
  intro H. apply IH in H as [H|H]; [|right; now right].
  destruct b as [b0|].
  - destruct (lmc y <? lmc b0); inv H; auto. right. now left.
  - inv H. right. now left.
Qed.

Lemma skip_loop_ok st target : wf_store st -> forall fuel current,
  valid_loc st current -> (N.to_nat (lmc current) < fuel)%nat ->
  exists l, skip_loop fuel st current target = ROk l /\ valid_loc st l.
Proof.
  intro W. induction fuel as [|f IH]; intros current Hv Hf; [lia|]. cbn [skip_loop].
  destruct (valid_get_segment _ _ Hv) as (sg & Hsg & Hr). rewrite Hsg. cbn [rbind].
  pose proof (get_segment_in _ _ _ Hsg) as [Hin Hidx].
  destruct (min_mc None _) as [skip|] eqn:Em.
  - apply min_mc_in in Em as [Em|Em]; [discriminate|]. apply filter_In in Em as [Hsk Hc].
    apply andb_true_iff in Hc as [_ Hlt]. apply N.ltb_lt in Hlt.
    destruct (wf_skip _ W sg skip Hin Hsk) as [Hvs _]. apply IH; auto. lia.
  - destruct (g_prior sg) as [|p|a b] eqn:Ep.
    + exists current. auto.
    + destruct (lmc p <? target); [exists current; auto|].
      destruct (wf_prior _ W sg p Hin) as [Hvp Hlt]; [rewrite Ep; cbn; auto|].
      apply IH; auto. unfold in_range in Hr. lia.
    + destruct ((lmc a <? target) || (lmc b <? target)); exists current; auto.
Qed.

Lemma skip_jump_ok st h target : wf_store st -> valid_loc st h ->
  exists l, skip_jump st h target = ROk l /\ valid_loc st l.
Proof.
  intros W Hv. unfold skip_jump. destruct (lmc h <=? target); [exists h; auto|].
  apply skip_loop_ok; auto.
Qed.

(** * The traversal *)
Section Traversal.
Variable dbg : bool.
Variable st : store.
Hypothesis W : wf_store st.
Variable haves : list loc.
Hypothesis Hhaves : Forall (valid_loc st) haves.

Record finv (s : fstate) : Prop := {
  fi_hr : rep_ok (f_heads s);
  fi_pr : rep_ok (f_pending s);
  fi_hu : quniq (f_heads s);
  fi_hv : forall e b, qin (f_heads s) e b -> valid_loc st e;
  fi_pv : forall e b, qin (f_pending s) e b -> valid_loc st e;
  fi_cv : Forall (valid_loc st) (f_collected s);
  fi_cl : (length (f_collected s) <= cap_segs)%nat }.

Lemma lift_q_ok {A} (r : TravQueue.res A) a : r = TravQueue.Ok a -> lift_q dbg r = ROk a.
Proof. intros ->. reflexivity. Qed.

(** pushing valid locations that lie below [bound] *)
Lemma push_all_ok (bound : loc) ps c : forall q,
  rep_ok q -> quniq q ->
  (forall e b, qin q e b -> valid_loc st e /\ loc_ltb e bound = true) ->
  (forall p, In p ps -> valid_loc st p /\ loc_ltb p bound = true) ->
  exists q', push_all dbg q ps c = ROk q' /\ rep_ok q' /\ quniq q' /\
    (forall e b, qin q' e b -> valid_loc st e /\ loc_ltb e bound = true).
Proof.
  induction ps as [|p ps IH]; intros q Hr Hu Hq Hps; cbn [push_all].
  - exists q. auto.
  - destruct (q_push q p c Hr) as (q1 & E & Hr1 & Hin1 & _ & _ & _ & Hu1).
    rewrite (lift_q_ok _ _ E). cbn [rbind]. apply IH; auto.
    + intros e b Hin. destruct (Hin1 e b Hin) as [H| [-> _]]; [eapply Hq; eauto|]. apply Hps. now left.
    + intros p' Hp'. apply Hps. now right.
Qed.

Lemma advance_cursor_le fuel : forall cursor longest,
  (cursor <= length haves)%nat -> (advance_cursor haves cursor longest fuel <= length haves)%nat.
Proof.
  induction fuel as [|f IH]; intros cursor longest Hc; cbn [advance_cursor]; auto.
  destruct (nth_error haves cursor) eqn:E; auto. destruct (longest <? lmc l); auto.
  apply IH. apply nth_error_Some_lt in E. lia.
Qed.

Lemma scan_have_ok shortest sgi : forall n scan,
  (scan + n <= length haves)%nat ->
  exists r, scan_have haves scan n shortest sgi = ROk r /\
    match r with Some h => In h haves /\ lseg h = sgi /\ shortest <= lmc h | None => True end.
Proof.
  induction n as [|n IH]; intros scan Hs; cbn [scan_have]; [exists None; auto|].
  destruct (nth_error_lt_Some haves scan) as [h Hh]; [lia|]. rewrite Hh.
  destruct (N.ltb_spec (lmc h) shortest); [exists None; auto|].
  destruct (N.eqb_spec (lseg h) sgi).
  - exists (Some h). repeat split; auto. eapply nth_error_In; eauto.
  - apply IH. lia.
Qed.

Definition ctl_state (c : loop_ctl) : fstate := match c with Continue s => s | Break s => s end.

Lemma fns_body_ok s head covered :
  finv s -> valid_loc st head -> (f_cursor s <= length haves)%nat ->
  (forall e b, qin (f_heads s) e b -> loc_ltb e head = true) ->
  exists c, fns_body dbg st haves s head covered = ROk c /\ finv (ctl_state c) /\
    (f_cursor (ctl_state c) <= length haves)%nat /\
    (forall e b, qin (f_heads (ctl_state c)) e b -> loc_ltb e head = true).
Proof.
  intros [Hhr Hpr Hhu Hhv Hpv Hcv Hcl] Hvh Hcur Hlt. unfold fns_body.
  (* the flush *)
  assert (Hflush : exists s1,
    (if opt_N_eqb (f_prev s) (lmc head) then ROk s
     else rlet (p', ls) <- lift_q dbg (drain_above (f_pending s) (lmc head));
          rlet c' <- push_bounded_all (f_collected s) ls;
          ROk {| f_heads := f_heads s; f_pending := p'; f_collected := c'; f_prev := Some (lmc head); f_cursor := f_cursor s |})
    = ROk s1 /\ finv s1 /\ f_heads s1 = f_heads s /\ f_cursor s1 = f_cursor s).
  { destruct (opt_N_eqb (f_prev s) (lmc head)).
    - exists s. repeat split; auto.
    - destruct (q_drain_above (f_pending s) (lmc head) Hpr) as (p' & ls & E & Hr' & Hin' & Hls & _).
      rewrite (lift_q_ok _ _ E). cbn [rbind].
      destruct (push_bounded_all_ok (valid_loc st) ls (f_collected s)) as (c' & Ec & Hc1 & Hc2 & _); auto.
      { apply Forall_forall. intros x Hx. apply Hls in Hx as [Hx _]. eauto. }
      rewrite Ec. cbn [rbind]. eexists. split; [reflexivity|]. repeat split; cbn; auto.
      intros e b Hin. apply Hin' in Hin as [Hin _]. eauto. }
  destruct Hflush as (s1 & E1 & [Hhr1 Hpr1 Hhu1 Hhv1 Hpv1 Hcv1 Hcl1] & Eh & Ec). rewrite E1. cbn [rbind].
  destruct (valid_get_segment _ _ Hvh) as (sg & Hsg & Hr). rewrite Hsg. cbn [rbind].
  pose proof (get_segment_in _ _ _ Hsg) as [Hin Hidx].
  assert (Hfs : find_seg (st_segs st) (lseg head) = Some sg) by now apply get_segment_ok.
  assert (Hlg : seg_longest sg <= u64_max) by (pose proof (wf_bound _ W sg Hin); lia).
  assert (Hpri : forall p, In p (prior_list (g_prior sg)) -> valid_loc st p /\ loc_ltb p head = true).
  { intros p Hp. destruct (wf_prior _ W sg p Hin Hp) as [Hv Hl]. split; auto. apply mc_lt_ltb. unfold in_range in Hr. lia. }
  assert (Hheads1 : forall e b, qin (f_heads s1) e b -> valid_loc st e /\ loc_ltb e head = true).
  { rewrite Eh. intros e b Hq. split; eauto. }
  destruct covered.
  - (* covered *)
    destruct (q_cover (f_pending s1) (lseg head) (lmc head) (seg_longest sg) Hpr1 Hlg) as (p' & Ep & Hrp & Hinp & _).
    rewrite (lift_q_ok _ _ Ep). cbn [rbind].
    destruct (push_all_ok head (prior_list (g_prior sg)) true (f_heads s1)) as (h' & Eh' & Hrh & Huh & Hinh); auto.
    rewrite Eh'. cbn [rbind].
    assert (Hinv : finv {| f_heads := h'; f_pending := p'; f_collected := f_collected s1; f_prev := f_prev s1; f_cursor := f_cursor s1 |}).
    { constructor; cbn; auto.
      - intros e b Hq. now apply (Hinh e b).
      - intros e b Hq. destruct (Hinp e b Hq) as [H|[(_ & _ & H & _)|(_ & e0 & H0 & Hs0 & Hle & Hltc & ->)]]; eauto.
        exists sg. cbn. rewrite Hs0. split; auto. pose proof (Hpv1 e0 false H0) as (sg0 & Hf0 & Hr0).
        rewrite Hs0, Hfs in Hf0. inv Hf0. unfold in_range in *. lia. }
    destruct (early_stop h'); eexists; (split; [reflexivity|]); cbn [ctl_state];
      (split; [exact Hinv|split; [cbn; lia|cbn; intros e b Hq; now apply (Hinh e b)]]).
  - (* uncovered *)
    set (cursor := advance_cursor haves (f_cursor s1) (seg_longest sg) (length haves)).
    assert (Hcle : (cursor <= length haves)%nat) by (apply advance_cursor_le; lia).
    destruct (scan_have_ok (g_first sg) (lseg head) (length haves - cursor) cursor) as (best & Eb & Hb); [lia|].
    rewrite Eb. cbn [rbind].
    destruct best as [hloc|].
    + destruct Hb as (Hinh0 & Hsegh & Hsh).
      destruct (push_all_ok head (prior_list (g_prior sg)) true (f_heads s1)) as (h' & Eh' & Hrh & Huh & Hinh); auto.
      rewrite Eh'. cbn [rbind].
      assert (Hvl : valid_loc st hloc) by (eapply Forall_forall in Hhaves; eauto).
      assert (Hp' : exists p', (if lmc hloc <? seg_longest sg
                    then (if lmc hloc <? u64_max
                          then lift_q dbg (push (f_pending s1) (L (lmc hloc + 1) (lseg head)))
                          else bug dbg 4)
                    else ROk (f_pending s1)) = ROk p' /\ rep_ok p' /\ (forall e b, qin p' e b -> valid_loc st e)).
      { destruct (N.ltb_spec (lmc hloc) (seg_longest sg)).
        - pose proof (valid_mc_bound _ _ W Hvl). destruct (N.ltb_spec (lmc hloc) u64_max); [|lia].
          unfold push. destruct (q_push (f_pending s1) (L (lmc hloc + 1) (lseg head)) false Hpr1) as (p' & Ep & Hrp & Hinp & _).
          exists p'. rewrite (lift_q_ok _ _ Ep). repeat split; auto.
          intros e b Hq. destruct (Hinp e b Hq) as [Hq'| [-> _]]; eauto.
          exists sg. cbn. split; auto. unfold in_range in *. lia.
        - exists (f_pending s1). auto. }
      destruct Hp' as (p' & Ep & Hrp & Hvp). rewrite Ep. cbn [rbind].
      assert (Hinv : finv {| f_heads := h'; f_pending := p'; f_collected := f_collected s1; f_prev := f_prev s1; f_cursor := cursor |}).
      { constructor; cbn; auto. intros e b Hq. now apply (Hinh e b). }
      cbn [f_heads]. destruct (early_stop h'); eexists; (split; [reflexivity|]); cbn [ctl_state];
        (split; [exact Hinv|split; [cbn; lia|cbn; intros e b Hq; now apply (Hinh e b)]]).
    + unfold push. destruct (q_push (f_pending s1) (seg_first_loc sg) false Hpr1) as (p' & Ep & Hrp & Hinp & _).
      rewrite (lift_q_ok _ _ Ep). cbn [rbind].
      destruct (push_all_ok head (prior_list (g_prior sg)) false (f_heads s1)) as (h' & Eh' & Hrh & Huh & Hinh); auto.
      rewrite Eh'. cbn [rbind].
      assert (Hvp : forall e b, qin p' e b -> valid_loc st e).
      { intros e b Hq. destruct (Hinp e b Hq) as [Hq'| [-> _]]; eauto. now apply valid_first. }
      assert (Hinv : finv {| f_heads := h'; f_pending := p'; f_collected := f_collected s1; f_prev := f_prev s1; f_cursor := cursor |}).
      { constructor; cbn; auto. intros e b Hq. now apply (Hinh e b). }
      cbn [f_heads]. destruct (early_stop h'); eexists; (split; [reflexivity|]); cbn [ctl_state];
        (split; [exact Hinv|split; [cbn; lia|cbn; intros e b Hq; now apply (Hinh e b)]]).
Qed.

Lemma fns_loop_ok : forall fuel s,
  finv s -> (f_cursor s <= length haves)%nat -> (1 <= fuel)%nat ->
  (forall e b, qin (f_heads s) e b -> (rank st e + 1 < fuel)%nat) ->
  exists s', fns_loop fuel dbg st haves s = ROk s' /\ finv s'.
Proof.
  induction fuel as [|f IH]; intros s Hinv Hcur Hf Hrank; [lia|]. cbn [fns_loop].
  pose proof Hinv as [Hhr Hpr Hhu Hhv Hpv Hcv Hcl].
  destruct (q_pop (f_heads s) Hhr) as (h' & r & E & Hr' & Hspec & Hu').
  rewrite (lift_q_ok _ _ E). cbn [rbind].
  destruct r as [[head covered]|].
  - destruct Hspec as (Hin & Hmax & Hsub & _ & Hdiff).
    set (s0 := {| f_heads := h'; f_pending := f_pending s; f_collected := f_collected s; f_prev := f_prev s; f_cursor := f_cursor s |}).
    assert (Hinv0 : finv s0) by (constructor; cbn; eauto).
    assert (Hvh : valid_loc st head) by eauto.
    assert (Hlt0 : forall e b, qin (f_heads s0) e b -> loc_ltb e head = true).
    { cbn. intros e b Hq. apply loc_ltb_iff. split; [eapply Hmax; eauto|].
      intros ->. eapply Hdiff; eauto. }
    destruct (fns_body_ok s0 head covered Hinv0 Hvh Hcur Hlt0) as (c & Ec & Hic & Hcc & Hltc).
    rewrite Ec. cbn [rbind]. destruct c as [s'|s']; cbn in *.
    + pose proof (Hrank head covered Hin) as Hrh.
      apply IH; auto; try lia.
      intros e b Hq. pose proof (Hltc e b Hq) as Hl.
      assert (valid_loc st e) by (eapply fi_hv; eauto).
      pose proof (rank_lt st e head W H Hl). lia.
    + eauto.
  - eexists. split; [reflexivity|]. destruct Hspec as [_ Hn]. constructor; cbn; auto.
    intros e b Hq. exfalso. eapply Hn; eauto.
Qed.
End Traversal.

Lemma have_locations_valid st cmds : wf_store st -> Forall (valid_loc st) (have_locations st cmds).
Proof.
  intro W. unfold have_locations. apply Forall_forall. intros l Hl. apply in_flat_map in Hl as (a & _ & Hl).
  destruct (get_location st a) eqn:E; [|destruct Hl]. destruct Hl as [<-|[]]. eapply get_location_valid; eauto.
Qed.

Lemma seed_heads_ok dbg st target : wf_store st -> forall hs q,
  (forall i h, In (i, h) hs -> valid_loc st h) ->
  rep_ok q -> quniq q -> (forall e b, qin q e b -> valid_loc st e) ->
  exists q', seed_heads dbg st q hs target = ROk q' /\ rep_ok q' /\ quniq q' /\ (forall e b, qin q' e b -> valid_loc st e).
Proof.
  intro W. induction hs as [|[i h] hs IH]; intros q Hhs Hr Hu Hv; cbn [seed_heads].
  - exists q. auto.
  - destruct (skip_jump_ok st h target W) as (l & El & Hvl); [eapply Hhs; now left|].
    rewrite El. cbn [rbind]. unfold push.
    destruct (q_push q l false Hr) as (q1 & E & Hr1 & Hin1 & _ & _ & _ & Hu1).
    rewrite (lift_q_ok _ _ _ E). cbn [rbind]. apply IH; auto.
    + intros i' h' Hin. eapply Hhs. right. eauto.
    + intros e b Hq. destruct (Hin1 e b Hq) as [?| [-> _]]; eauto.
Qed.

(** ** Totality and soundness of [find_needed_segments] *)
Definition committed_loc (st : store) (l : loc) : Prop :=
  valid_loc st l /\ exists i h, In (i, h) (st_heads st) /\ loc_anc st l h.

Theorem find_needed_ok dbg st cmds :
  wf_store st -> (length cmds <= N.to_nat COMMAND_SAMPLE_MAX)%nat ->
  exists r, find_needed_segments dbg st cmds = ROk r /\
    Forall (committed_loc st) r /\ StronglySorted loc_le r /\ (length r <= cap_segs)%nat.
Proof.
  intros W Hlen. unfold find_needed_segments.
  destruct (Nat.ltb_spec (N.to_nat COMMAND_SAMPLE_MAX) (length cmds)); [lia|].
  set (haves := sort_desc_mc (have_locations st cmds)).
  assert (Hhv : Forall (valid_loc st) haves).
  { apply Forall_forall. intros x Hx. unfold haves in Hx. apply (proj1 (sort_desc_in _ _)) in Hx.
    pose proof (have_locations_valid st cmds W) as Hf. eapply Forall_forall in Hf; eauto. }
  assert (Hhh : match haves with h :: _ => lmc h | [] => 0 end <= u64_max - SEGMENT_BUFFER_MAX).
  { destruct haves as [|h r]; [rewrite SEGMENT_BUFFER_MAX_pin; unfold u64_max; lia|].
    inv Hhv. pose proof (valid_mc_bound _ _ W H2). lia. }
  destruct (N.ltb_spec (u64_max - SEGMENT_BUFFER_MAX) (match haves with h :: _ => lmc h | [] => 0 end)); [lia|].
  destruct qnew_ok as (Hr0 & Hu0 & Hn0).
  destruct (seed_heads_ok dbg st (match haves with h :: _ => lmc h | [] => 0 end + SEGMENT_BUFFER_MAX) W (st_heads st) qnew)
    as (heads & Eh & Hrh & Huh & Hvh); auto.
  { intros i h Hin. eapply wf_heads; eauto. }
  { intros e b Hq. exfalso. eapply Hn0; eauto. }
  rewrite Eh. cbn [rbind].
  destruct (fns_loop_ok dbg st W haves Hhv (fns_fuel st)
              {| f_heads := heads; f_pending := qnew; f_collected := []; f_prev := None; f_cursor := 0 |})
    as (s & Es & [Hhr Hpr Hhu Hhv' Hpv Hcv Hcl]).
  - constructor; cbn; auto; try lia; try (intros e b Hq; exfalso; eapply Hn0; eauto).
  - cbn. lia.
  - unfold fns_fuel. lia.
  - cbn. intros e b Hq. pose proof (rank_bound st e W (Hvh e b Hq)). unfold fns_fuel. lia.
  - rewrite Es. cbn [rbind].
    pose proof (q_drain_all (f_pending s) Hpr) as Hda.
    destruct (drain_all (f_pending s)) as [q' rest] eqn:Ed. cbn [snd] in Hda.
    destruct (push_bounded_all_ok (valid_loc st) rest (f_collected s)) as (c & Ec & Hc1 & Hc2 & _); auto.
    { apply Forall_forall. intros x Hx. apply Hda in Hx. eauto. }
    rewrite Ec. cbn [rbind]. eexists. split; [reflexivity|]. repeat split.
    + apply Forall_forall. intros x Hx. apply (proj1 (sort_locs_in _ _)) in Hx. eapply Forall_forall in Hc1; eauto.
      split; auto. now apply valid_committed.
    + apply sort_locs_sorted.
    + now rewrite sort_locs_length.
Qed.
