(** Lemmas about the codec of the root record and about images, reads and the crash
    relation of [model/Crash.v]. *)
From Coq Require Import String.
From Aranya Require Import base.Tactics gen.GenCrash model.Crash.
Open Scope Z_scope.

(** * Pinned constants (a changed constant in imp.rs breaks these) *)
Lemma consts_pinned :
  PAGE = 4096 /\ ROOT_A = 4096 /\ ROOT_B = 8192 /\ FREE_START = 12288
  /\ PREALLOC_CHUNK = 4194304 /\ LEN_PREFIX_LEN = 4.
Proof. repeat split; reflexivity. Qed.

(** The shape of the protocol functions the model transcribes, as extracted from imp.rs:
    field order of [Root], checksum input order, and the order of storage calls and
    barriers in [commit] / [write_root] / [append_at] / [ensure_capacity] / [create] /
    [open] / [File::{fallocate,sync,dump_bytes}].  A reordering or a removed barrier in
    the source changes the generated lists and breaks this lemma. *)
Lemma protocol_pinned :
  ROOT_FIELDS = [("generation", "u64"); ("heads", "Option<u64>"); ("fact_cache", "Option<u64>");
                 ("free_offset", "i64"); ("checksum", "u64")]%string
  /\ ROOT_DERIVES = ["Debug"; "Serialize"; "Deserialize"]%string
  /\ ROOT_NEW = [("generation", "0"); ("heads", "None"); ("fact_cache", "None");
                  ("free_offset", "FREE_START"); ("checksum", "0")]%string
  /\ CHECKSUM_ORDER = ["new:SipHasher"; "write_u64(self.generation)"; "for[self.heads,self.fact_cache]";
                        "write_u8(1)"; "write_u64(offset)"; "write_u8(0)"; "write_i64(self.free_offset)"; "finish"]%string
  /\ COMMIT_CALLS = ["append_at"; "set_heads"; "set_fact_cache"; "if_data_dirty"; "file.sync"; "clear_dirty"; "write_root"]%string
  /\ WRITE_ROOT_CALLS = ["generation+1"; "calc_checksum"; "slot=next_root"; "file.dump(slot,root)"; "file.sync";
                          "next_root=other_root(slot)"]%string
  /\ APPEND_AT_CALLS = ["offset=free_offset"; "ensure_capacity"; "dump_bytes"; "free_offset=new"; "set_dirty"]%string
  /\ ENSURE_CAPACITY_CALLS = ["if_end<=alloc_end"; "while_new_end<end"; "checked_add(PREALLOC_CHUNK)";
                               "fallocate(0,new_end)"; "alloc_end=new_end"]%string
  /\ FALLOCATE_CALLS = ["libc::fallocate(mode0)"; "libc::fsync"]%string
  /\ SYNC_CALLS = ["libc::fdatasync"]%string
  /\ DUMP_BYTES_CALLS = ["write_all(offset,len_be)"; "offset2=offset+LEN_PREFIX_LEN"; "write_all(offset2,bytes)"]%string
  /\ CREATE_CALLS = ["alloc_end=FREE_START+PREALLOC_CHUNK"; "fallocate(0,alloc_end)"; "root=Root::new";
                      "next_root=ROOT_A"; "data_dirty=false"]%string
  /\ OPEN_CALLS = ["load(ROOT_A).validate"; "load(ROOT_B).validate"; "cmp(a.gen,b.gen)"; "Less=>B"; "Equal|Greater=>A";
                    "(Ok,Err)=>A"; "(Err,Ok)=>B"; "(Err,Err)=>Err"; "alloc_end=root.free_offset";
                    "next_root=other_root(chosen)"; "data_dirty=false"]%string
  /\ VALIDATE_CALLS = ["if_checksum!=calc"; "Err"; "Ok(self)"]%string
  /\ OTHER_ROOT_BODY = ["if_slot==ROOT_A_then_ROOT_B_else_ROOT_A"]%string.
Proof. repeat split; reflexivity. Qed.

Ltac consts := unfold ROOT_A, ROOT_B, FREE_START, PREALLOC_CHUNK, LEN_PREFIX_LEN, PAGE in *.

(** * Varint round trip *)

Definition p7 (i : N) : N := (2 ^ (7 * i))%N.
Lemma p7_succ i : p7 (i + 1) = (128 * p7 i)%N.
Proof. unfold p7. replace (7 * (i + 1))%N with (7 + 7 * i)%N by lia. rewrite N.pow_add_r. reflexivity. Qed.
Lemma p7_pos i : (0 < p7 i)%N.
Proof. unfold p7. apply N.neq_0_lt_0. apply N.pow_nonzero. discriminate. Qed.

Definition two64N : N := 18446744073709551616.
Lemma p7_9 : p7 9 = 9223372036854775808%N. Proof. reflexivity. Qed.
Lemma p7_mono i j : (i <= j)%N -> (p7 i <= p7 j)%N.
Proof. intros. unfold p7. apply N.pow_le_mono_r; lia. Qed.

Lemma take_varint_ser : forall fuel i acc n tail,
  (1 <= fuel)%nat -> (N.of_nat fuel + i = 10)%N -> (n * p7 i < two64N)%N ->
  take_varint fuel i acc (varint_fuel fuel n ++ tail) = Some ((acc + n * p7 i)%N, tail).
Proof.
  induction fuel as [|f IH]; intros i acc n tail Hf Hi Hn; [lia|].
  cbn [varint_fuel take_varint].
  destruct (n <? 128)%N eqn:E.
  - cbn [app]. rewrite E.
    assert (Hm : (n mod 128 = n)%N) by (apply N.mod_small; lia). rewrite Hm.
    fold (p7 i).
    destruct ((i =? 9)%N && (1 <? n)%N) eqn:E9; [|reflexivity].
    exfalso. apply andb_prop in E9. destruct E9 as [E9 E1].
    apply N.eqb_eq in E9. subst i. rewrite p7_9 in Hn. unfold two64N in Hn. lia.
  - cbn [app].
    assert (Hb : ((n mod 128 + 128) <? 128)%N = false) by lia. rewrite Hb.
    assert (Hbm : ((n mod 128 + 128) mod 128 = n mod 128)%N).
    { rewrite N.add_mod by lia. rewrite N.mod_same by lia. rewrite N.add_0_r.
      rewrite N.mod_mod by lia. apply N.mod_small. apply N.mod_lt. lia. }
    rewrite Hbm. fold (p7 i).
    assert (Hi8 : (i <= 8)%N).
    { destruct (N.le_gt_cases i 8) as [|Hgt]; auto. exfalso.
      assert (p7 9 <= p7 i)%N by (apply p7_mono; lia). rewrite p7_9 in *. unfold two64N in *. nia. }
    pose proof (N.div_mod n 128 ltac:(lia)) as Hdm.
    pose proof (p7_pos i).
    rewrite IH.
    + rewrite p7_succ. f_equal. f_equal. nia.
    + lia.
    + lia.
    + rewrite p7_succ. nia.
Qed.

Lemma parse_varint_ser n tail :
  (n <= u64_max)%N -> parse_varint (varint n ++ tail) = Some (n, tail).
Proof.
  intros H. unfold parse_varint, varint. rewrite take_varint_ser.
  - change (p7 0) with 1%N. f_equal. f_equal. lia.
  - lia.
  - reflexivity.
  - change (p7 0) with 1%N. unfold two64N, u64_max in *. lia.
Qed.

Lemma varint_fuel_len fuel n : (length (varint_fuel fuel n) <= fuel)%nat.
Proof. revert n; induction fuel as [|f IH]; intros n; cbn; [lia|]. destruct (n <? 128)%N; cbn; [lia|]. specialize (IH (n / 128)%N). lia. Qed.
Lemma varint_len n : (length (varint n) <= 10)%nat.
Proof. apply varint_fuel_len. Qed.

Lemma parse_opt_ser o tail :
  match o with Some v => (v <= u64_max)%N | None => True end ->
  parse_opt (ser_opt o ++ tail) = Some (o, tail).
Proof.
  destruct o as [v|]; intros H; cbn [ser_opt app parse_opt]; [|reflexivity].
  rewrite parse_varint_ser by auto. reflexivity.
Qed.
Lemma ser_opt_len o : (length (ser_opt o) <= 11)%nat.
Proof. destruct o as [v|]; cbn [ser_opt length]; [pose proof (varint_len v); lia | lia]. Qed.

Lemma unzigzag_zigzag z : unzigzag (zigzag z) = z.
Proof.
  unfold zigzag, unzigzag. destruct (0 <=? z) eqn:E.
  - assert (N.even (Z.to_N (2 * z)) = true).
    { rewrite N.even_spec. exists (Z.to_N z). lia. }
    rewrite H. assert (Z.to_N (2 * z) / 2 = Z.to_N z)%N.
    { replace (Z.to_N (2 * z)) with (Z.to_N z * 2)%N by lia. apply N.div_mul. lia. }
    lia.
  - assert (Hodd : N.even (Z.to_N (- 2 * z - 1)) = false).
    { rewrite <- N.negb_odd. apply Bool.negb_false_iff. rewrite N.odd_spec. exists (Z.to_N (- z - 1)). lia. }
    rewrite Hodd.
    assert (Z.to_N (- 2 * z - 1) / 2 = Z.to_N (- z - 1))%N.
    { replace (Z.to_N (- 2 * z - 1)) with (1 + Z.to_N (- z - 1) * 2)%N by lia.
      rewrite N.div_add by lia. cbn. lia. }
    lia.
Qed.

Definition i64_min : Z := -9223372036854775808.

Definition wf_opt (o : option N) : Prop := match o with Some v => (v <= u64_max)%N | None => True end.
Record wf_root (r : root) : Prop := {
  wf_gen : (generation r <= u64_max)%N;
  wf_heads : wf_opt (heads r);
  wf_fc : wf_opt (fact_cache r);
  wf_free : i64_min <= free_offset r <= i64_max;
  wf_ck : (checksum r <= u64_max)%N;
}.

Lemma zigzag_range z : i64_min <= z <= i64_max -> (zigzag z <= u64_max)%N.
Proof. unfold zigzag, i64_min, i64_max, u64_max. intros. destruct (0 <=? z) eqn:E; lia. Qed.

Lemma parse_root_ser r tail : wf_root r -> parse_root (ser_root r ++ tail) = Some r.
Proof.
  intros [Hg Hh Hf Hfo Hc]. unfold ser_root, parse_root.
  repeat rewrite <- app_assoc.
  rewrite parse_varint_ser by auto.
  rewrite parse_opt_ser by auto.
  rewrite parse_opt_ser by auto.
  rewrite parse_varint_ser by (apply zigzag_range; auto).
  rewrite parse_varint_ser by auto.
  rewrite unzigzag_zigzag. destruct r; reflexivity.
Qed.

Lemma ser_root_len r : (length (ser_root r) <= 52)%nat.
Proof.
  unfold ser_root. repeat rewrite app_length.
  pose proof (varint_len (generation r)). pose proof (ser_opt_len (heads r)).
  pose proof (ser_opt_len (fact_cache r)). pose proof (varint_len (zigzag (free_offset r))).
  pose proof (varint_len (checksum r)). lia.
Qed.

(** * be32 *)
Lemma be32_bytes_small n : 0 <= n <= 255 -> be32_bytes n = [0; 0; 0; Z.to_N n]%N.
Proof.
  intros H. unfold be32_bytes.
  assert (Hn : (Z.to_N n < 256)%N) by lia.
  rewrite (N.div_small (Z.to_N n) 16777216) by lia.
  rewrite (N.div_small (Z.to_N n) 65536) by lia.
  rewrite (N.div_small (Z.to_N n) 256) by lia.
  rewrite (N.mod_small (Z.to_N n) 256) by lia. reflexivity.
Qed.
Lemma be32_small b : be32 [0; 0; 0; b]%N = Z.of_N b.
Proof. unfold be32. f_equal. Qed.

(** * Images *)

Lemma kept_extent_bound : forall n i mask, kept_extent i n mask = 0 \/ (i < kept_extent i n mask <= i + Z.of_nat n).
Proof.
  induction n as [|n IH]; intros i mask; cbn [kept_extent]; [left; destruct mask; reflexivity|].
  destruct mask as [|k m]; [left; reflexivity|].
  destruct (IH (i + 1) m) as [H|H]; destruct k; lia.
Qed.

Lemma ibyte_apply_masked img off bs mask x :
  ibyte (apply_masked img off bs mask) x =
  if (0 <=? x - off) && (x - off <? zlen bs) && nth (Z.to_nat (x - off)) mask false
  then nth (Z.to_nat (x - off)) bs 0%N else ibyte img x.
Proof.
  cbn [apply_masked ibyte]. cbv zeta.
  destruct ((0 <=? x - off) && (x - off <? zlen bs)); cbn [andb]; reflexivity.
Qed.

Lemma ibyte_apply_cases img off bs mask x :
  ibyte (apply_masked img off bs mask) x = ibyte img x
  \/ (off <= x < off + zlen bs /\ ibyte (apply_masked img off bs mask) x = nth (Z.to_nat (x - off)) bs 0%N).
Proof.
  rewrite ibyte_apply_masked.
  destruct ((0 <=? x - off) && (x - off <? zlen bs) && nth (Z.to_nat (x - off)) mask false) eqn:E; auto.
  right. split; [lia | reflexivity].
Qed.

Lemma ibyte_apply_outside img off bs mask x :
  x < off \/ off + zlen bs <= x -> ibyte (apply_masked img off bs mask) x = ibyte img x.
Proof.
  intros H. rewrite ibyte_apply_masked.
  destruct ((0 <=? x - off) && (x - off <? zlen bs)) eqn:E; [lia | reflexivity].
Qed.

Lemma isize_apply_ge img off bs mask : isize img <= isize (apply_masked img off bs mask).
Proof. cbn. lia. Qed.

Lemma nth_all_true {A} (l : list A) i : (i < length l)%nat -> nth i (all_true l) false = true.
Proof.
  revert i; induction l as [|a l IH]; intros [|i] H; cbn in *; try lia; auto. apply IH. lia.
Qed.

Lemma ibyte_write_full_in img off bs x :
  off <= x < off + zlen bs -> ibyte (write_full img off bs) x = nth (Z.to_nat (x - off)) bs 0%N.
Proof.
  intros H. unfold write_full. rewrite ibyte_apply_masked.
  rewrite nth_all_true by (unfold zlen in *; lia).
  replace ((0 <=? x - off) && (x - off <? zlen bs)) with true by lia. reflexivity.
Qed.

Lemma ibyte_write_full_out img off bs x :
  x < off \/ off + zlen bs <= x -> ibyte (write_full img off bs) x = ibyte img x.
Proof. apply ibyte_apply_outside. Qed.

(** ** Pending operations that leave a region alone *)

Definition pw_outside (lo hi : Z) (p : pend) : Prop :=
  match p with PW off bs => off + zlen bs <= lo \/ hi <= off | PF _ => True end.

Lemma torn_frame img ps img' lo hi :
  torn img ps img' -> Forall (pw_outside lo hi) ps ->
  isize img <= isize img' /\ forall x, lo <= x < hi -> ibyte img' x = ibyte img x.
Proof.
  induction 1 as [img | img off bs mask rest img' Ht IH | img n s rest img' Hs Ht IH]; intros HF.
  - split; [lia | auto].
  - inversion HF as [|? ? Hp HF']; subst. destruct (IH HF') as [Hsz Hb].
    split.
    + pose proof (isize_apply_ge img off bs mask). lia.
    + intros x Hx. rewrite Hb by auto. apply ibyte_apply_outside. cbn in Hp. lia.
  - inversion HF as [|? ? Hp HF']; subst. destruct (IH HF') as [Hsz Hb].
    split; [cbn in Hsz; lia | intros x Hx; rewrite Hb by auto; reflexivity].
Qed.

Lemma torn_size img ps img' : torn img ps img' -> isize img <= isize img'.
Proof.
  induction 1 as [img | img off bs mask rest img' Ht IH | img n s rest img' Hs Ht IH]; try lia.
  - pose proof (isize_apply_ge img off bs mask). lia.
  - cbn in IH. lia.
Qed.

Lemma torn_flush img ps : torn img ps (flush img ps).
Proof.
  revert img; induction ps as [|p ps IH]; intros img; cbn [flush fold_left]; [constructor|].
  destruct p as [off bs | n]; cbn [apply_full].
  - apply torn_pw with (mask := all_true bs). apply IH.
  - apply torn_pf with (s := Z.max (isize img) n); [lia|].
    replace (extend img (Z.max (isize img) n)) with (extend img n); [apply IH|].
    unfold extend. f_equal. lia.
Qed.

Lemma torn_app img ps qs img' :
  torn img (ps ++ qs) img' -> exists mid, torn img ps mid /\ torn mid qs img'.
Proof.
  revert img; induction ps as [|p ps IH]; intros img H; cbn [app] in H.
  - exists img. split; [constructor | auto].
  - inversion H as [| ? ? ? mask ? ? Hn | ? ? s ? ? Hs Hn]; subst.
    + destruct (IH _ Hn) as [mid [H1 H2]]. exists mid. split; [econstructor; eauto | auto].
    + destruct (IH _ Hn) as [mid [H1 H2]]. exists mid. split; [econstructor; eauto | auto].
Qed.

Lemma flush_app img ps qs : flush img (ps ++ qs) = flush (flush img ps) qs.
Proof. unfold flush. apply fold_left_app. Qed.

Lemma flush_frame img ps lo hi :
  Forall (pw_outside lo hi) ps ->
  isize img <= isize (flush img ps) /\ forall x, lo <= x < hi -> ibyte (flush img ps) x = ibyte img x.
Proof. intros. eapply torn_frame; eauto. apply torn_flush. Qed.

(** Crash images after one more system call. *)
Lemma crash_step_pwrite d off bs img' :
  crash (disk_step d (SPwrite off bs)) img' ->
  exists mid, crash d mid /\ isize mid <= isize img' /\
    forall x, ibyte img' x = ibyte mid x
              \/ (off <= x < off + zlen bs /\ ibyte img' x = nth (Z.to_nat (x - off)) bs 0%N).
Proof.
  unfold crash. cbn [disk_step dur pnd]. intros H.
  apply torn_app in H. destruct H as [mid [H1 H2]]. exists mid. split; auto.
  inversion H2 as [| ? ? ? mask ? ? Hn |]; subst. inversion Hn; subst.
  split; [apply isize_apply_ge | intros x; apply ibyte_apply_cases].
Qed.

Lemma crash_step_falloc d m off len img' :
  crash (disk_step d (SFalloc m off len)) img' ->
  exists mid, crash d mid /\ isize mid <= isize img' /\ forall x, ibyte img' x = ibyte mid x.
Proof.
  unfold crash. cbn [disk_step dur pnd]. intros H.
  apply torn_app in H. destruct H as [mid [H1 H2]]. exists mid. split; auto.
  inversion H2 as [| | ? ? s ? ? Hs Hn]; subst. inversion Hn; subst. cbn. split; [lia | auto].
Qed.

Lemma crash_view d : crash d (view d).
Proof. apply torn_flush. Qed.

Lemma crash_synced d img' : pnd d = [] -> crash d img' -> img' = dur d.
Proof. unfold crash. intros -> H. inversion H; auto. Qed.

(** * Reads *)

(** [l] is stored at [off] and lies inside the file. *)
Definition holds (img : image) (off : Z) (l : list N) : Prop :=
  0 <= off /\ off + zlen l <= isize img
  /\ forall i, 0 <= i < zlen l -> ibyte img (off + i) = nth (Z.to_nat i) l 0%N.

Lemma map_seq_nth_eq (f : nat -> N) (l : list N) :
  (forall i, (i < length l)%nat -> f i = nth i l 0%N) -> map f (seq 0 (length l)) = l.
Proof.
  revert f; induction l as [|a l IH]; intros f H; cbn [length seq map]; [reflexivity|].
  f_equal; [apply (H 0%nat); cbn; lia|].
  rewrite <- seq_shift, map_map. apply IH. intros i Hi. apply (H (S i)). cbn; lia.
Qed.

Lemma holds_read img off l : holds img off l -> read img off (zlen l) = Some l.
Proof.
  intros (H0 & Hs & Hb). unfold read.
  destruct (zlen l <=? 0) eqn:E.
  - destruct l; [reflexivity | unfold zlen in E; cbn in E; lia].
  - replace ((0 <=? off) && (off + zlen l <=? isize img)) with true by lia.
    f_equal. unfold zlen. rewrite Nat2Z.id. apply map_seq_nth_eq.
    intros i Hi. rewrite Hb by (unfold zlen; lia). rewrite Nat2Z.id. reflexivity.
Qed.

Lemma holds_ext img img' off l :
  holds img off l -> isize img <= isize img' ->
  (forall x, off <= x < off + zlen l -> ibyte img' x = ibyte img x) -> holds img' off l.
Proof.
  intros (H0 & Hs & Hb) Hsz He. repeat split; try lia.
  intros i Hi. rewrite He by lia. auto.
Qed.

Lemma holds_app img off l1 l2 :
  holds img off l1 -> holds img (off + zlen l1) l2 -> holds img off (l1 ++ l2).
Proof.
  intros (H0 & Hs & Hb) (H0' & Hs' & Hb'). unfold holds, zlen in *. rewrite app_length.
  repeat split; try lia.
  intros i Hi. destruct (Z_lt_ge_dec i (Z.of_nat (length l1))) as [Hlt|Hge].
  - rewrite app_nth1 by lia. apply Hb. lia.
  - rewrite app_nth2 by lia. replace (off + i) with (off + Z.of_nat (length l1) + (i - Z.of_nat (length l1))) by lia.
    rewrite Hb' by lia. f_equal. lia.
Qed.

Lemma holds_nil img off : 0 <= off -> off <= isize img -> holds img off [].
Proof. intros. repeat split; unfold zlen; cbn; try lia. Qed.

Lemma holds_write_full img off bs :
  0 <= off -> off + zlen bs <= isize img -> holds (write_full img off bs) off bs.
Proof.
  intros H0 Hs. repeat split; auto.
  - pose proof (isize_apply_ge img off bs (all_true bs)). unfold write_full. lia.
  - intros i Hi. rewrite ibyte_write_full_in by lia. f_equal. lia.
Qed.

(** [read] depends only on the bytes of the range, once the range is inside both files. *)
Lemma read_ext img img' off len :
  off + len <= isize img -> isize img <= isize img' ->
  (forall x, off <= x < off + len -> ibyte img' x = ibyte img x) ->
  read img' off len = read img off len.
Proof.
  intros Hs Hsz He. unfold read. destruct (len <=? 0) eqn:E; [reflexivity|].
  destruct (0 <=? off) eqn:E0; cbn [andb]; [|reflexivity].
  replace (off + len <=? isize img) with true by lia.
  replace (off + len <=? isize img') with true by lia.
  f_equal. apply map_ext_in. intros i Hi. apply in_seq in Hi. apply He. lia.
Qed.

(** * The two root slots *)

(** The four length bytes of a slot are [0,0,0,L] with [L <= 255]. *)
Definition slot_sane (img : image) (slot : Z) : Prop :=
  ibyte img slot = 0%N /\ ibyte img (slot + 1) = 0%N /\ ibyte img (slot + 2) = 0%N
  /\ (ibyte img (slot + 3) <= 255)%N.

Lemma read4 img off : 0 <= off -> off + 4 <= isize img ->
  read img off 4 = Some [ibyte img off; ibyte img (off + 1); ibyte img (off + 2); ibyte img (off + 3)].
Proof.
  intros H0 Hs. unfold read. cbn [Z.leb].
  replace ((0 <=? off) && (off + 4 <=? isize img)) with true by lia.
  change (Z.to_nat 4) with 4%nat. cbn [seq map].
  change (Z.of_nat 0) with 0. change (Z.of_nat 1) with 1. change (Z.of_nat 2) with 2. change (Z.of_nat 3) with 3.
  rewrite Z.add_0_r. reflexivity.
Qed.

(** Inside a file of at least [FREE_START] bytes, what a sane slot loads depends only on the
    260 bytes at the slot. *)
Lemma load_root_ext img img' slot :
  0 <= slot -> slot + 260 <= isize img -> slot + 260 <= isize img' ->
  slot_sane img slot ->
  (forall x, slot <= x < slot + 260 -> ibyte img' x = ibyte img x) ->
  load_root img' slot = load_root img slot.
Proof.
  intros H0 Hs Hs' (S0 & S1 & S2 & S3) He. unfold load_root.
  rewrite !read4 by lia.
  rewrite !He by lia. rewrite S0, S1, S2. rewrite be32_small.
  set (L := ibyte img (slot + 3)) in *.
  unfold LEN_PREFIX_LEN.
  assert (Hr : read img' (slot + 4) (Z.of_N L) = read img (slot + 4) (Z.of_N L)).
  { unfold read. destruct (Z.of_N L <=? 0); [reflexivity|].
    replace ((0 <=? slot + 4) && (slot + 4 + Z.of_N L <=? isize img)) with true by lia.
    replace ((0 <=? slot + 4) && (slot + 4 + Z.of_N L <=? isize img')) with true by lia.
    f_equal. apply map_ext_in. intros i Hi. apply in_seq in Hi. apply He. lia. }
  rewrite Hr. reflexivity.
Qed.

(** A slot that is all zero loads nothing, whatever the file size. *)
Lemma parse_root_nil : parse_root [] = None.
Proof. reflexivity. Qed.

Lemma load_root_zero img slot :
  (forall x, slot <= x < slot + 4 -> ibyte img x = 0%N) -> load_root img slot = None.
Proof.
  intros Hz. unfold load_root.
  destruct (read img slot 4) as [p|] eqn:E; [|reflexivity].
  unfold read in E. cbn [Z.leb] in E.
  destruct ((0 <=? slot) && (slot + 4 <=? isize img)); [|discriminate].
  inversion E; subst p. cbn. rewrite Z.add_0_r.
  rewrite !Hz by lia. cbn [be32]. cbn. reflexivity.
Qed.
