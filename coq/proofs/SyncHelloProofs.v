(** C19: a hello notification never suppresses a needed sync.

    [merge_id] stands for the hash that derives a merge command's id from its
    id-sorted parents; its injectivity and the fact that a command carrying
    such an id IS that merge (collision freedom incl. domain separation) are
    Section hypotheses — the theorem is "partial: hash injectivity assumed". *)
From Aranya Require Import base.Tactics model.Dag model.Wire model.SyncHello proofs.BraidDag.
Local Open Scope N_scope.

Section HelloProofs.
Variable merge_id : N -> N -> N.
Hypothesis merge_id_inj : forall a b c d, merge_id a b = merge_id c d -> a = c /\ b = d.

Variable g : graph.
Hypothesis Wg : wf_graph g.
(** a command whose id is a merge id is the merge of exactly those parents *)
Hypothesis merge_wf : forall c x y, In c g -> cid c = merge_id x y -> cpar c = PMerge2 x y.

(** * The fold as a tree over the head addresses *)
Inductive tree := Leaf (a : addr) | Node (l r : tree).

Fixpoint taddr (t : tree) : addr :=
  match t with Leaf a => a | Node l r => merge_addr merge_id (taddr l) (taddr r) end.
Fixpoint leaves (t : tree) : list addr :=
  match t with Leaf a => [a] | Node l r => leaves l ++ leaves r end.

Fixpoint fold_t (fuel : nat) (q : list tree) : option tree :=
  match fuel with
  | O => None
  | S f =>
    match q with
    | [] => None
    | [x] => Some x
    | l :: r :: rest => if aid (taddr l) =? aid (taddr r) then None else fold_t f (rest ++ [Node l r])
    end
  end.

Lemma fold_pairs_tree fuel : forall q,
  fold_pairs merge_id fuel (map taddr q) = option_map taddr (fold_t fuel q).
Proof.
  induction fuel as [|f IH]; intro q; cbn [fold_pairs fold_t]; auto.
  destruct q as [|l [|r rest]]; cbn [map]; auto.
  destruct (aid (taddr l) =? aid (taddr r)); auto.
  rewrite <- IH, map_app. reflexivity.
Qed.

Lemma fold_t_leaves fuel : forall q t, fold_t fuel q = Some t ->
  forall a, In a (leaves t) <-> In a (flat_map leaves q).
Proof.
  induction fuel as [|f IH]; intros q t; cbn [fold_t]; [discriminate|].
  destruct q as [|l [|r rest]]; [discriminate| |].
  - intro E; inv E. intro a. cbn. rewrite app_nil_r. tauto.
  - destruct (aid (taddr l) =? aid (taddr r)); [discriminate|]. intro E. intro a.
    rewrite (IH _ _ E a), flat_map_app, in_app_iff. cbn [flat_map leaves]. rewrite app_nil_r, !in_app_iff. tauto.
Qed.

(** trees produced by the fold never merge two equal ids *)
Fixpoint tree_ok (t : tree) : Prop :=
  match t with Leaf _ => True | Node l r => aid (taddr l) <> aid (taddr r) /\ tree_ok l /\ tree_ok r end.

Lemma fold_t_ok fuel : forall q t, Forall tree_ok q -> fold_t fuel q = Some t -> tree_ok t.
Proof.
  induction fuel as [|f IH]; intros q t Hq; cbn [fold_t]; [discriminate|].
  destruct q as [|l [|r rest]]; [discriminate| |].
  - intro E; inv E. now inv Hq.
  - destruct (N.eqb_spec (aid (taddr l)) (aid (taddr r))); [discriminate|]. apply IH.
    inv Hq. inv H2. apply Forall_app. split; auto. constructor; auto. cbn. auto.
Qed.

(** the hello head of a head set is the address of a tree whose leaves are the heads *)
Lemma hello_head_tree hs a : hello_head merge_id g hs = Some a ->
  exists t, taddr t = a /\ tree_ok t /\ forall x, In x (leaves t) <-> In x (map (head_addr g) hs).
Proof.
  unfold hello_head, synthetic_head. intro H.
  assert (Hf : fold_pairs merge_id (length (map (head_addr g) hs)) (map (head_addr g) hs) = Some a \/
               (exists x, map (head_addr g) hs = [x] /\ a = x)).
  { destruct (map (head_addr g) hs) as [|x [|y r]]; auto; try (right; exists x; inv H; auto). }
  destruct Hf as [Hf|(x & E & ->)].
  - replace (map (head_addr g) hs) with (map taddr (map Leaf (map (head_addr g) hs))) in Hf at 2
      by (rewrite map_map; cbn; apply map_id).
    rewrite fold_pairs_tree in Hf. destruct (fold_t _ _) as [t|] eqn:Et; [|discriminate]. inv Hf.
    exists t. split; auto. split.
    { eapply fold_t_ok; [|exact Et]. apply Forall_forall. intros y Hy. apply in_map_iff in Hy as (z & <- & _). exact I. }
    intro x. rewrite (fold_t_leaves _ _ _ Et x).
    rewrite flat_map_concat_map, map_map. cbn [leaves]. rewrite <- flat_map_concat_map.
    clear. induction (map (head_addr g) hs) as [|y l IH]; cbn; [tauto|]. rewrite IH. tauto.
  - exists (Leaf x). split; auto. split; [exact I|]. intro y. rewrite E. cbn. tauto.
Qed.

(** * Committed sets *)
Definition cm (hs : list N) (x : N) : Prop := exists h, In h hs /\ anc g x h.

Lemma cm_down hs x y : cm hs x -> anc g y x -> cm hs y.
Proof. intros (h & Hh & Ha) Hy. exists h. split; auto. eapply anc_trans; eauto. Qed.

Lemma cm_in hs x : cm hs x -> In x (ids g).
Proof. intros (h & _ & Ha). now destruct (anc_in g x h Wg Ha). Qed.

Lemma committedb_cm hs x : committedb g hs x = true <-> cm hs x.
Proof.
  unfold committedb, cm. rewrite existsb_exists. split; intros (h & Hh & H); exists h; split; auto; now apply (ancb_spec g Wg).
Qed.

Lemma in_ids_lookup x : In x (ids g) -> exists c, In c g /\ cid c = x.
Proof. unfold ids. intro H. apply in_map_iff in H as (c & E & Hc). eauto. Qed.

(** the parents of a committed merge are committed *)
Lemma cm_merge_parents hs x y : cm hs (merge_id x y) -> cm hs x /\ cm hs y.
Proof.
  intro H. destruct (in_ids_lookup _ (cm_in _ _ H)) as (c & Hc & Hid).
  pose proof (merge_wf c x y Hc Hid) as Hp.
  assert (Hpar : forall p, In p [x; y] -> parent_of g p (merge_id x y)).
  { intros p Hin. exists c. split; [rewrite <- Hid; now apply lookup_self|]. unfold parents. rewrite Hp. exact Hin. }
  split; eapply cm_down; eauto; apply anc_parent; auto; apply Hpar; cbn; auto.
Qed.

Lemma merge_addr_id a b : aid a <> aid b ->
  aid (merge_addr merge_id a b) = merge_id (N.min (aid a) (aid b)) (N.max (aid a) (aid b)).
Proof.
  intro Hne. unfold merge_addr. destruct (N.ltb_spec (aid a) (aid b)); cbn [aid].
  - rewrite N.min_l, N.max_r by lia. reflexivity.
  - rewrite N.min_r, N.max_l by lia. reflexivity.
Qed.

(** Case 2 core: a committed tree root has all its leaves committed *)
Lemma committed_root_leaves hs t : tree_ok t -> cm hs (aid (taddr t)) -> forall a, In a (leaves t) -> cm hs (aid a).
Proof.
  induction t as [a0|l IHl r IHr]; cbn [taddr leaves tree_ok].
  - intros _ H a [<-|[]]. exact H.
  - intros (Hne & Hl & Hr) H a Ha. rewrite merge_addr_id in H by auto.
    destruct (cm_merge_parents _ _ _ H) as [Hmin Hmax].
    assert (cm hs (aid (taddr l)) /\ cm hs (aid (taddr r))) as [Cl Cr].
    { destruct (N.ltb_spec (aid (taddr l)) (aid (taddr r))).
      - rewrite N.min_l, N.max_r in * by lia. auto.
      - rewrite N.min_r, N.max_l in * by lia. auto. }
    apply in_app_or in Ha as [Ha|Ha]; auto.
Qed.

(** committed up to materialised merges: the least superset closed under
    "a merge command of the graph both of whose parents are in the set" *)
Inductive mclose (S : N -> Prop) : N -> Prop :=
| mc_base x : S x -> mclose S x
| mc_merge c l r : In c g -> cpar c = PMerge2 l r -> mclose S l -> mclose S r -> mclose S (cid c).

Lemma mclose_down hs x y : mclose (cm hs) x -> anc g y x -> mclose (cm hs) y.
Proof.
  intro H. revert y. induction H as [x Hx|c l r Hc Hp Hl IHl Hr IHr]; intros y Hy.
  - apply mc_base. eapply cm_down; eauto.
  - destruct (anc_inv _ _ _ Hy) as [->|(p & Hpar & Hap)]; [eapply mc_merge; eauto|].
    destruct Hpar as (c' & Hlk & Hin). rewrite (lookup_self g c Wg Hc) in Hlk. inv Hlk.
    unfold parents in Hin. rewrite Hp in Hin. destruct Hin as [<-|[<-|[]]]; auto.
Qed.

(** a tree all of whose leaves are committed, and whose root is a real command, is in the closure *)
Lemma root_in_closure hs t : tree_ok t -> (forall a, In a (leaves t) -> cm hs (aid a)) ->
  In (aid (taddr t)) (ids g) -> mclose (cm hs) (aid (taddr t)).
Proof.
  induction t as [a0|l IHl r IHr]; cbn [taddr leaves tree_ok].
  - intros _ H _. apply mc_base. apply H. now left.
  - intros (Hne & Hl & Hr) H Hin. rewrite merge_addr_id in * by auto.
    destruct (in_ids_lookup _ Hin) as (c & Hc & Hid). pose proof (merge_wf c _ _ Hc Hid) as Hp.
    assert (Hpin : forall p, In p (parents c) -> In p (ids g)).
    { intros p Hpp. apply (parent_in_ids g p (cid c) Wg). exists c. split; auto. now apply lookup_self. }
    unfold parents in Hpin. rewrite Hp in Hpin.
    rewrite <- Hid. eapply mc_merge; eauto.
    + destruct (N.ltb_spec (aid (taddr l)) (aid (taddr r))).
      * rewrite N.min_l in * by lia. apply IHl; auto. { intros a Ha. apply H. apply in_or_app. now left. } apply Hpin; cbn; auto.
      * rewrite N.min_r in * by lia. apply IHr; auto. { intros a Ha. apply H. apply in_or_app. now right. } apply Hpin; cbn; auto.
    + destruct (N.ltb_spec (aid (taddr l)) (aid (taddr r))).
      * rewrite N.max_r in * by lia. apply IHr; auto. { intros a Ha. apply H. apply in_or_app. now right. } apply Hpin; cbn; auto.
      * rewrite N.max_l in * by lia. apply IHl; auto. { intros a Ha. apply H. apply in_or_app. now left. } apply Hpin; cbn; auto.
Qed.

(** Case 1 core: two trees with the same root id *)
Lemma same_root hs_r : forall tp tr, tree_ok tp -> tree_ok tr ->
  aid (taddr tp) = aid (taddr tr) ->
  (forall a, In a (leaves tp) -> In (aid a) (ids g)) ->
  (forall a, In a (leaves tr) -> cm hs_r (aid a)) ->
  forall a, In a (leaves tp) -> mclose (cm hs_r) (aid a).
Proof.
  induction tp as [a0|lp IHl rp IHr]; intros tr Hp Hr Eid Hreal Hcm a Ha; cbn [taddr leaves tree_ok] in *.
  - destruct Ha as [<-|[]]. rewrite Eid. apply root_in_closure; auto. rewrite <- Eid. apply Hreal. now left.
  - destruct Hp as (Hne & Hpl & Hpr). rewrite merge_addr_id in Eid by auto.
    destruct tr as [b|lr rr]; cbn [taddr leaves tree_ok] in *.
    + (* the receiver's head is the materialised merge: its parents, hence all leaves of tp, are committed *)
      assert (Hb : cm hs_r (aid b)) by (apply Hcm; now left).
      rewrite <- Eid in Hb. destruct (cm_merge_parents _ _ _ Hb) as [Hmin Hmax].
      assert (cm hs_r (aid (taddr lp)) /\ cm hs_r (aid (taddr rp))) as [Cl Cr].
      { destruct (N.ltb_spec (aid (taddr lp)) (aid (taddr rp))).
        - rewrite N.min_l, N.max_r in * by lia. auto.
        - rewrite N.min_r, N.max_l in * by lia. auto. }
      apply mc_base. apply in_app_or in Ha as [Ha|Ha];
        [exact (committed_root_leaves hs_r lp Hpl Cl a Ha)|exact (committed_root_leaves hs_r rp Hpr Cr a Ha)].
    + destruct Hr as (Hner & Hrl & Hrr). rewrite merge_addr_id in Eid by auto.
      apply merge_id_inj in Eid as [Emin Emax].
      assert (Hcases : (aid (taddr lp) = aid (taddr lr) /\ aid (taddr rp) = aid (taddr rr)) \/
                       (aid (taddr lp) = aid (taddr rr) /\ aid (taddr rp) = aid (taddr lr))) by lia.
      assert (Hl1 : forall a, In a (leaves lp) -> In (aid a) (ids g)) by (intros; apply Hreal; apply in_or_app; now left).
      assert (Hl2 : forall a, In a (leaves rp) -> In (aid a) (ids g)) by (intros; apply Hreal; apply in_or_app; now right).
      assert (Hc1 : forall a, In a (leaves lr) -> cm hs_r (aid a)) by (intros; apply Hcm; apply in_or_app; now left).
      assert (Hc2 : forall a, In a (leaves rr) -> cm hs_r (aid a)) by (intros; apply Hcm; apply in_or_app; now right).
      apply in_app_or in Ha as [Ha|Ha]; destruct Hcases as [[E1 E2]|[E1 E2]].
      * eapply (IHl lr); eauto.
      * eapply (IHl rr); eauto.
      * eapply (IHr rr); eauto.
      * eapply (IHr lr); eauto.
Qed.

(** * The theorem *)
Definition heads_ok (hs : list N) : Prop := forall h, In h hs -> In h (ids g).

Theorem hello_no_false_negative0 hs_r hs_p a :
  heads_ok hs_r -> heads_ok hs_p ->
  should_sync merge_id (Some (g, hs_r)) a = Some false ->
  (* the decision is "no sync" only for the receiver's own hello head or an address it has committed *)
  (hello_head merge_id g hs_r = Some a \/ has_addr g hs_r a = true) /\
  (* and if the address is the advertiser's hello head, the advertiser's commands are all committed at the
     receiver, up to merge commands the receiver holds only virtually *)
  (hello_head merge_id g hs_p = Some a ->
   (forall x, cm hs_p x -> mclose (cm hs_r) x) /\
   (has_addr g hs_r a = true -> forall x, cm hs_p x -> cm hs_r x)).
Proof.
  intros Hr Hp Hs. unfold should_sync in Hs.
  destruct (hello_head merge_id g hs_r) as [hh|] eqn:Ehr; [|discriminate].
  assert (Hdec : hh = a \/ has_addr g hs_r a = true).
  { destruct (addr_eqb hh a) eqn:Ea.
    - left. unfold addr_eqb in Ea. apply andb_true_iff in Ea as [E1 E2]. apply N.eqb_eq in E1, E2. destruct hh, a; cbn in *; congruence.
    - right. inv Hs. now destruct (has_addr g hs_r a). }
  split; [destruct Hdec as [->|H]; auto|].
  intro Ehp. destruct (hello_head_tree hs_p a Ehp) as (tp & Etp & Htp_ok & Hlp).
  assert (Hleaf_p : forall a', In a' (leaves tp) -> In (aid a') hs_p).
  { intros a' Ha'. apply Hlp in Ha'. apply in_map_iff in Ha' as (h & <- & Hh). exact Hh. }
  assert (Hcover : forall x, cm hs_p x -> exists a', In a' (leaves tp) /\ anc g x (aid a')).
  { intros x (h & Hh & Ha). exists (head_addr g h). split; auto. apply Hlp. now apply in_map. }
  assert (Hstrict : has_addr g hs_r a = true -> forall x, cm hs_p x -> cm hs_r x).
  { intros Hh x Hx. unfold has_addr in Hh. apply andb_true_iff in Hh as [Hc _]. apply committedb_cm in Hc.
    destruct (Hcover x Hx) as (a' & Ha' & Hanc). eapply cm_down; [|exact Hanc].
    eapply committed_root_leaves; eauto. now rewrite Etp. }
  split; auto. intros x Hx. destruct Hdec as [->|Hh]; [|apply mc_base; auto].
  destruct (hello_head_tree hs_r a Ehr) as (tr & Etr & Htr_ok & Hlr).
  destruct (Hcover x Hx) as (a' & Ha' & Hanc). eapply mclose_down; [|exact Hanc].
  apply (same_root hs_r tp tr Htp_ok Htr_ok).
  - now rewrite Etp, Etr.
  - intros a2 Ha2. apply Hp. now apply Hleaf_p.
  - intros a2 Ha2. apply Hlr in Ha2. apply in_map_iff in Ha2 as (h & <- & Hh). cbn. exists h. split; auto. apply anc_refl. now apply Hr.
  - exact Ha'.
Qed.
End HelloProofs.

(** * Statements *)
Definition merge_hyps (merge_id : N -> N -> N) (g : graph) : Prop :=
  (forall a b c d, merge_id a b = merge_id c d -> a = c /\ b = d) /\
  wf_graph g /\
  (forall c x y, In c g -> cid c = merge_id x y -> cpar c = PMerge2 x y).

Definition hello_no_false_negative_stmt : Prop :=
  forall (merge_id : N -> N -> N) (g : graph) (hs_r hs_p : list N) (a : addr),
  merge_hyps merge_id g -> heads_ok g hs_r -> heads_ok g hs_p ->
  should_sync merge_id (Some (g, hs_r)) a = Some false ->
  (hello_head merge_id g hs_r = Some a \/ has_addr g hs_r a = true) /\
  (hello_head merge_id g hs_p = Some a ->
   (forall x, cm g hs_p x -> mclose g (cm g hs_r) x) /\
   (has_addr g hs_r a = true -> forall x, cm g hs_p x -> cm g hs_r x)).

Lemma hello_no_false_negative_proof : hello_no_false_negative_stmt.
Proof.
  intros merge_id g hs_r hs_p a (Hinj & Wg & Hmw) Hr Hp Hs.
  exact (hello_no_false_negative0 merge_id Hinj g Wg Hmw hs_r hs_p a Hr Hp Hs).
Qed.

(** same head set => same hello head; no graph => always sync *)
Definition hello_basics_stmt : Prop :=
  (forall merge_id g hs1 hs2, hs1 = hs2 -> hello_head merge_id g hs1 = hello_head merge_id g hs2) /\
  (forall merge_id a, should_sync merge_id None a = Some true).
Lemma hello_basics_proof : hello_basics_stmt.
Proof. split; [intros; subst; reflexivity|reflexivity]. Qed.

(** * The strict reading fails for a materialised merge head (finding F13) *)
Definition f_merge (a b : N) : N := 2 * (2 ^ a * (2 * b + 1)).

Lemma f_merge_inj a b c d : f_merge a b = f_merge c d -> a = c /\ b = d.
Proof.
  unfold f_merge. intro H. assert (H' : 2 ^ a * (2 * b + 1) = 2 ^ c * (2 * d + 1)) by lia. clear H.
  assert (Hk : forall x y u v, x < y -> 2 ^ x * (2 * u + 1) = 2 ^ y * (2 * v + 1) -> False).
  { intros x y u v Hlt E. replace y with (x + N.succ (y - x - 1)) in E by lia.
    rewrite N.pow_add_r, N.pow_succ_r' in E. rewrite <- N.mul_assoc in E.
    apply N.mul_cancel_l in E; [|apply N.pow_nonzero; lia].
    set (m := 2 ^ (y - x - 1) * (2 * v + 1)) in *. lia. }
  destruct (N.lt_trichotomy a c) as [Hl|[->|Hl]].
  - exfalso. eapply Hk; eauto.
  - apply N.mul_cancel_l in H'; [|apply N.pow_nonzero; lia]. split; auto. lia.
  - exfalso. symmetry in H'. eapply Hk; eauto.
Qed.

Lemma f_merge_even a b : N.even (f_merge a b) = true.
Proof. unfold f_merge. rewrite N.even_mul. reflexivity. Qed.

Definition x_cmd (i : N) (p : prior) : cmd := {| cid := i; cprio := PBasic 0; cpar := p; cbody := 0 |}.
(** init 1; x = 3 and y = 5 on top of it; m = merge(x, y) *)
Definition x_graph : graph :=
  [ {| cid := f_merge 3 5; cprio := PMerge; cpar := PMerge2 3 5; cbody := 0 |};
    x_cmd 5 (PSingle 1); x_cmd 3 (PSingle 1); {| cid := 1; cprio := PInit; cpar := PNone; cbody := 0 |} ].

Definition hello_strict_refuted_stmt : Prop :=
  exists (merge_id : N -> N -> N) (g : graph) (hs_r hs_p : list N) (a : addr),
    merge_hyps merge_id g /\ heads_ok g hs_r /\ heads_ok g hs_p /\
    hello_head merge_id g hs_p = Some a /\
    should_sync merge_id (Some (g, hs_r)) a = Some false /\
    exists x, cm g hs_p x /\ ~ cm g hs_r x /\ (exists c, In c g /\ cid c = x /\ cprio c = PMerge).

Lemma hello_strict_refuted_proof : hello_strict_refuted_stmt.
Proof.
  exists f_merge, x_graph, [3; 5], [f_merge 3 5], (A (f_merge 3 5) 2).
  assert (Wg : wf_graph x_graph) by (apply wf_graphb_spec; vm_compute; reflexivity).
  split; [|split; [|split; [|split; [|split]]]].
  - split; [exact f_merge_inj|]. split; [exact Wg|].
    intros c x y Hin E. cbn in Hin. destruct Hin as [<-|[<-|[<-|[<-|[]]]]]; cbn [cid x_cmd] in E.
    + apply f_merge_inj in E as [<- <-]. reflexivity.
    + pose proof (f_merge_even x y) as He. rewrite <- E in He. discriminate.
    + pose proof (f_merge_even x y) as He. rewrite <- E in He. discriminate.
    + pose proof (f_merge_even x y) as He. rewrite <- E in He. discriminate.
  - intros h [<-|[<-|[]]]; vm_compute; auto.
  - intros h [<-|[]]. vm_compute. auto.
  - vm_compute. reflexivity.
  - vm_compute. reflexivity.
  - exists (f_merge 3 5). split; [|split].
    + exists (f_merge 3 5). split; [now left|]. apply anc_refl. vm_compute. auto.
    + intros (h & Hh & Ha). apply (ancb_spec x_graph Wg) in Ha. destruct Hh as [<-|[<-|[]]]; vm_compute in Ha; discriminate.
    + eexists. split; [left; reflexivity|]. split; reflexivity.
Qed.

(** * Non-vacuity of the hypotheses: the same graph satisfies [merge_hyps], and a two-head
    replica that already holds the advertiser's single head does not sync *)
Example hello_example :
  merge_hyps f_merge x_graph /\
  should_sync f_merge (Some (x_graph, [f_merge 3 5])) (A 3 1) = Some false /\
  should_sync f_merge (Some (x_graph, [3])) (A 5 1) = Some true /\
  should_sync f_merge (Some (x_graph, [3; 5])) (A 5 2) = Some true.
Proof.
  destruct hello_strict_refuted_proof as (_ & _ & _ & _ & _ & _). split; [|vm_compute; repeat split; reflexivity].
  assert (Wg : wf_graph x_graph) by (apply wf_graphb_spec; vm_compute; reflexivity).
  split; [exact f_merge_inj|]. split; [exact Wg|].
  intros c x y Hin E. cbn in Hin. destruct Hin as [<-|[<-|[<-|[<-|[]]]]]; cbn [cid x_cmd] in E.
  - apply f_merge_inj in E as [<- <-]. reflexivity.
  - pose proof (f_merge_even x y) as He. rewrite <- E in He. discriminate.
  - pose proof (f_merge_even x y) as He. rewrite <- E in He. discriminate.
  - pose proof (f_merge_even x y) as He. rewrite <- E in He. discriminate.
Qed.
