From Aranya Require Import base.Tactics model.CStr.

Lemma upd_length m i b : length (upd m i b) = length m.
Proof. revert i; induction m as [|x m IH]; intros [|i]; cbn; auto. Qed.

Lemma upd_nth_other m i b j : j <> i -> nth_error (upd m i b) j = nth_error m j.
Proof.
  revert i j; induction m as [|x m IH]; intros [|i] [|j] H; cbn; auto; try congruence.
Qed.

Lemma upd_nth_same m i b : i < length m -> nth_error (upd m i b) i = Some b.
Proof.
  revert i; induction m as [|x m IH]; intros [|i] H; cbn in *; try lia; auto.
  apply IH; lia.
Qed.

Lemma blit_length src : forall m pos, length (blit m pos src) = length m.
Proof. induction src as [|b r IH]; intros; cbn; auto. rewrite IH, upd_length; auto. Qed.

Lemma blit_nth_outside src : forall m pos j,
  j < pos \/ pos + length src <= j -> nth_error (blit m pos src) j = nth_error m j.
Proof.
  induction src as [|b r IH]; intros m pos j H; cbn in *; auto.
  rewrite IH by lia. apply upd_nth_other; lia.
Qed.

Lemma blit_nth_inside src : forall m pos k,
  pos + length src <= length m -> k < length src ->
  nth_error (blit m pos src) (pos + k) = nth_error src k.
Proof.
  induction src as [|b r IH]; intros m pos k Hl Hk; cbn in *; try lia.
  destruct k as [|k].
  - rewrite Nat.add_0_r, blit_nth_outside by lia. cbn. apply upd_nth_same; lia.
  - replace (pos + S k) with (S pos + k) by lia. rewrite IH; auto.
    + rewrite upd_length; lia.
    + lia.
Qed.

(** State of the writer after emitting the fragments [done] from memory [m0]. *)
Definition total (frags : list (list N)) : N := len (concat frags).

Lemma total_app a b : total (a ++ b) = (total a + total b)%N.
Proof. unfold total, len. rewrite concat_app, app_length. lia. Qed.

Lemma total_one f : total [f] = len f.
Proof. unfold total, len. cbn. rewrite app_nil_r. reflexivity. Qed.

Record winv (off : nat) (n : N) (m0 : list N) (done : list (list N)) (s : wstate) : Prop := {
  wi_nw : nw s = total done;
  wi_len : length (mem s) = length m0;
  wi_out : forall j, j < off \/ off + N.to_nat n <= j -> nth_error (mem s) j = nth_error m0 j;
  wi_in : (total done + 1 <= n)%N ->
          forall k, k < length (concat done) -> nth_error (mem s) (off + k) = nth_error (concat done) k;
}.

Lemma write_winv off n m0 done s f :
  off + N.to_nat n <= length m0 ->
  (total (done ++ [f]) < usize_max)%N ->
  winv off n m0 done s -> winv off n m0 (done ++ [f]) (write off n s f).
Proof.
  intros Hwin Hmax [Hnw Hlen Hout Hin].
  rewrite total_app, total_one in Hmax.
  destruct f as [|b r] eqn:Ef.
  { cbn [write].
    assert (Ht : total (done ++ [[]]) = total done) by (rewrite total_app, total_one; unfold len; cbn; lia).
    assert (Hc : concat (done ++ [[]]) = concat done) by (rewrite concat_app; cbn; rewrite app_nil_r; reflexivity).
    constructor; rewrite ?Ht, ?Hc; auto. }
  rewrite <- Ef in *. assert (Hne : f <> []) by (subst; discriminate).
  assert (Hw : write off n s f =
    let e := sat_add (nw s) (len f) in
    if (1 <=? n)%N && (nw s <=? e)%N && (e <=? n - 1)%N
    then {| mem := blit (mem s) (off + N.to_nat (nw s)) f; nw := e |}
    else {| mem := mem s; nw := e |}) by (subst f; reflexivity).
  rewrite Hw; clear Hw. cbv zeta.
  assert (He : sat_add (nw s) (len f) = (total done + len f)%N) by (unfold sat_add in *; lia).
  rewrite He.
  destruct ((1 <=? n)%N && (nw s <=? total done + len f)%N && (total done + len f <=? n - 1)%N) eqn:Efit.
  - (* the fragment fits *)
    constructor; cbn [mem CStr.nw].
    + rewrite total_app, total_one; reflexivity.
    + rewrite blit_length; auto.
    + intros j Hj. rewrite blit_nth_outside; auto. unfold len in *. lia.
    + intros _ k Hk. rewrite concat_app in *. cbn [concat] in *. rewrite app_nil_r in *.
      rewrite app_length in Hk.
      assert (Hd : N.to_nat (nw s) = length (concat done)) by (rewrite Hnw; unfold total, len; lia).
      destruct (Nat.lt_ge_cases k (length (concat done))) as [Hlt|Hge].
      * rewrite nth_error_app1 by auto. rewrite blit_nth_outside by lia.
        apply Hin; auto. unfold len in *. lia.
      * rewrite nth_error_app2 by auto.
        replace (off + k) with (off + N.to_nat (nw s) + (k - length (concat done))) by lia.
        apply blit_nth_inside; try lia. unfold len in *. lia.
  - (* the fragment does not fit: only [nw] moves *)
    constructor; cbn [mem CStr.nw]; auto.
    + rewrite total_app, total_one; reflexivity.
    + intros H. exfalso. rewrite total_app, total_one in H. unfold len in *. lia.
Qed.

Lemma fold_winv off n m0 :
  off + N.to_nat n <= length m0 ->
  forall frags done s,
  (total (done ++ frags) < usize_max)%N ->
  winv off n m0 done s ->
  winv off n m0 (done ++ frags) (fold_left (write off n) frags s).
Proof.
  intros Hwin frags; induction frags as [|f frags IH]; intros done s Hmax Hinv; cbn [fold_left].
  - rewrite app_nil_r; auto.
  - replace (done ++ f :: frags) with ((done ++ [f]) ++ frags) in * by (rewrite <- app_assoc; reflexivity).
    apply IH; auto. apply write_winv; auto.
    rewrite total_app in Hmax. lia.
Qed.

Lemma winv_init off n m0 : winv off n m0 [] {| mem := m0; nw := 0 |}.
Proof. constructor; cbn; auto. intros _ k Hk; lia. Qed.

(** Full specification of [write_c_str]. *)
Definition write_c_str_spec_stmt : Prop :=
  forall (off : nat) (n : N) (m : list N) (frags : list (list N)),
  off + N.to_nat n <= length m ->           (* the buffer is a window of memory *)
  (total frags < usize_max)%N ->            (* true of every Rust string: len <= isize::MAX *)
  let '(m', nw', ok) := write_c_str off n m frags in
  length m' = length m
  /\ (forall j, j < off \/ off + N.to_nat n <= j -> nth_error m' j = nth_error m j)
  /\ nw' = (total frags + 1)%N
  /\ ok = (total frags + 1 <=? n)%N
  /\ (ok = true ->
      (forall k, k < length (concat frags) -> nth_error m' (off + k) = nth_error (concat frags) k)
      /\ nth_error m' (off + length (concat frags)) = Some 0%N).

Lemma write_c_str_spec_proof : write_c_str_spec_stmt.
Proof.
  intros off n m frags Hwin Hmax.
  unfold write_c_str, finish.
  pose proof (fold_winv off n m Hwin frags [] _ Hmax (winv_init off n m)) as [Hnw Hlen Hout Hin].
  cbn [app] in *. set (s := fold_left (write off n) frags _) in *.
  cbn [mem nw].
  assert (Hs : sat_add (nw s) 1 = (total frags + 1)%N) by (unfold sat_add in *; lia).
  rewrite Hs.
  assert (Ht : N.to_nat (total frags) = length (concat frags)) by (unfold total, len; lia).
  destruct (N.min (nw s) n <? n)%N eqn:Elt.
  - split; [|split; [|split; [|split]]]; auto.
    + rewrite upd_length; auto.
    + intros j Hj. rewrite upd_nth_other by lia. auto.
    + intros Hok. split.
      * intros k Hk. rewrite upd_nth_other by lia. apply Hin; auto. lia.
      * replace (N.min (nw s) n) with (total frags) by lia. rewrite Ht.
        apply upd_nth_same. lia.
  - split; [|split; [|split; [|split]]]; auto.
    intros Hok. exfalso. lia.
Qed.

(** The frame part holds with no assumption on the text length at all. *)
Definition write_c_str_frame_stmt : Prop :=
  forall (off : nat) (n : N) (m : list N) (frags : list (list N)),
  off + N.to_nat n <= length m ->
  (n <= usize_max)%N ->                      (* the buffer length is a usize *)
  let '(m', _, _) := write_c_str off n m frags in
  length m' = length m
  /\ forall j, j < off \/ off + N.to_nat n <= j -> nth_error m' j = nth_error m j.

Lemma write_frame off n s f :
  off + N.to_nat n <= length (mem s) -> (n <= usize_max)%N ->
  length (mem (write off n s f)) = length (mem s)
  /\ forall j, j < off \/ off + N.to_nat n <= j -> nth_error (mem (write off n s f)) j = nth_error (mem s) j.
Proof.
  intros Hwin Hn. destruct f as [|b r]; [cbn; auto|].
  unfold write. set (f := b :: r). cbv zeta.
  destruct ((1 <=? n)%N && _ && _) eqn:E; cbn [mem]; auto.
  split; [apply blit_length|].
  intros j Hj. apply blit_nth_outside. unfold len, sat_add in *. lia.
Qed.

Lemma write_c_str_frame_proof : write_c_str_frame_stmt.
Proof.
  intros off n m frags Hwin Hn. unfold write_c_str, finish.
  assert (H : forall frags s, off + N.to_nat n <= length (mem s) ->
     length (mem (fold_left (write off n) frags s)) = length (mem s)
     /\ forall j, j < off \/ off + N.to_nat n <= j ->
          nth_error (mem (fold_left (write off n) frags s)) j = nth_error (mem s) j).
  { clear - Hn. induction frags as [|f frags IH]; intros s Hw; cbn [fold_left]; auto.
    destruct (write_frame off n s f Hw Hn) as [Hl Ho].
    destruct (IH (write off n s f)) as [Hl' Ho']; [lia|].
    split; [lia|]. intros j Hj. rewrite Ho', Ho; auto. }
  destruct (H frags {| mem := m; nw := 0 |} Hwin) as [Hl Ho]. cbn [mem] in *.
  set (s := fold_left _ _ _) in *.
  destruct (N.min (nw s) n <? n)%N eqn:E; cbn [mem]; split; auto.
  - rewrite upd_length; auto.
  - intros j Hj. rewrite upd_nth_other by lia. auto.
Qed.

(** Non-vacuity: a concrete buffer inside guarded memory. *)
Example write_c_str_example :
  write_c_str 2 4 [9;9;7;7;7;7;9;9]%N [[104;105]%N; []; [33]%N] = ([9;9;104;105;33;0;9;9]%N, 4%N, true)
  /\ write_c_str 2 3 [9;9;7;7;7;9;9]%N [[104;105]%N; []; [33]%N] = ([9;9;104;105;7;9;9]%N, 4%N, false).
Proof. split; vm_compute; reflexivity. Qed.

(** * The two-call idiom of the C API: ask, then retry with the reported size.
    Whatever the first call did (any buffer, any size, success or not), a
    second call on ANY buffer of exactly the reported size succeeds, reports
    the same size and writes the whole text and its NUL; and a call succeeds
    if and only if its buffer is at least the reported size. *)
Definition write_c_str_retry_stmt : Prop :=
  forall (off : nat) (n : N) (m : list N) (frags : list (list N)) (off2 : nat) (m2 : list N),
  off + N.to_nat n <= length m ->
  (total frags < usize_max)%N ->
  let '(_, nw1, ok1) := write_c_str off n m frags in
  (ok1 = true <-> (nw1 <= n)%N)
  /\ (off2 + N.to_nat nw1 <= length m2 ->
      let '(m2', nw2, ok2) := write_c_str off2 nw1 m2 frags in
      ok2 = true /\ nw2 = nw1
      /\ (forall k, k < length (concat frags) -> nth_error m2' (off2 + k) = nth_error (concat frags) k)
      /\ nth_error m2' (off2 + length (concat frags)) = Some 0%N
      /\ length m2' = length m2
      /\ (forall j, j < off2 \/ off2 + N.to_nat nw1 <= j -> nth_error m2' j = nth_error m2 j)).
Lemma write_c_str_retry_proof : write_c_str_retry_stmt.
Proof.
  intros off n m frags off2 m2 Hwin Hmax.
  pose proof (write_c_str_spec_proof off n m frags Hwin Hmax) as H1.
  destruct (write_c_str off n m frags) as [[m' nw1] ok1].
  destruct H1 as (_ & _ & Hnw & Hok & _). split.
  - rewrite Hok, Hnw. rewrite N.leb_le. reflexivity.
  - intros Hwin2.
    pose proof (write_c_str_spec_proof off2 nw1 m2 frags Hwin2 Hmax) as H2.
    destruct (write_c_str off2 nw1 m2 frags) as [[m2' nw2] ok2].
    destruct H2 as (Hl & Hf & Hnw2 & Hok2 & Hbody).
    assert (ok2 = true) as Ht by (rewrite Hok2, Hnw; apply N.leb_refl).
    destruct (Hbody Ht) as [Hb Hz].
    split; [exact Ht|]. split; [congruence|]. auto.
Qed.

Example write_c_str_retry_example :
  write_c_str 2 3 [9;9;7;7;7;9;9]%N [[104;105]%N; []; [33]%N] = ([9;9;104;105;7;9;9]%N, 4%N, false)
  /\ write_c_str 1 4 [8;7;7;7;7;8]%N [[104;105]%N; []; [33]%N] = ([8;104;105;33;0;8]%N, 4%N, true).
Proof. split; vm_compute; reflexivity. Qed.
