(** [LinearPerspective]: the fact overlay always equals the replay of the recorded
    updates; [revert] to a checkpoint restores the perspective exactly (C13). *)
From Aranya Require Import base.Tactics base.ListLex base.SortedAssoc model.Facts model.FactsWorld
     proofs.FactsMaps proofs.FactsIndex.

Definition updates_of (cs : list cmd) : list update := concat (map c_updates cs).
Definition all_updates (P : persp) : list update := updates_of (p_cmds P) ++ p_cur P.

(** The overlay is the replay of every recorded update on top of the (cleared) prior. *)
Definition persp_inv (P : persp) : Prop :=
  p_facts P = apply_updates (fp_new (fp_prior (p_facts P))) (all_updates P).

Lemma updates_of_app a b : updates_of (a ++ b) = updates_of a ++ updates_of b.
Proof. unfold updates_of. rewrite map_app, concat_app; auto. Qed.

Lemma replay_updates cs : forall fp, replay fp cs = apply_updates fp (updates_of cs).
Proof.
  unfold replay. induction cs as [|c cs IH]; intros fp; cbn [fold_left]; auto.
  rewrite IH. unfold updates_of. cbn [map concat]. rewrite apply_updates_app. reflexivity.
Qed.

Lemma persp_inv_new pr mc pa : persp_inv (p_new pr mc pa).
Proof. reflexivity. Qed.

Lemma fp_insert_prior fp n k v : fp_prior (fp_insert fp n k v) = fp_prior fp.
Proof. reflexivity. Qed.

Lemma fp_delete_prior fp n k : fp_prior (fp_delete fp n k) = fp_prior fp.
Proof. unfold fp_delete. destruct (is_none (fp_prior fp)); auto. Qed.

Lemma persp_inv_insert P n k v : persp_inv P -> persp_inv (p_insert P n k v).
Proof.
  unfold persp_inv, all_updates. intros H. cbn [p_insert p_facts p_cmds p_cur].
  rewrite fp_insert_prior, app_assoc, apply_updates_app, <- H. cbn. apply fp_insert_apply.
Qed.

Lemma persp_inv_delete P n k : persp_inv P -> persp_inv (p_delete P n k).
Proof.
  unfold persp_inv, all_updates. intros H. cbn [p_delete p_facts p_cmds p_cur].
  rewrite fp_delete_prior, app_assoc, apply_updates_app, <- H. cbn. apply fp_delete_apply.
Qed.

Lemma p_add_command_ok P id : exists P' n, p_add_command P id (p_head_address P) = Ok (P', n) /\
  p_facts P' = p_facts P /\ p_cmds P' = p_cmds P ++ [{| c_id := id; c_updates := p_cur P |}] /\
  p_cur P' = [] /\ p_max_cut P' = p_max_cut P /\ p_parents P' = p_parents P.
Proof.
  unfold p_add_command.
  assert (E : paddr_eqb (p_head_address P) (p_head_address P) = true).
  { destruct (p_head_address P) as [|i m|[a b] [c d]]; cbn; rewrite ?N.eqb_refl; auto. }
  rewrite E. cbn. do 2 eexists; split; [reflexivity|]. cbn. tauto.
Qed.

Lemma persp_inv_add_command P id P' n :
  p_add_command P id (p_head_address P) = Ok (P', n) -> persp_inv P -> persp_inv P'.
Proof.
  destruct (p_add_command_ok P id) as (P1 & n1 & E & Hf & Hc & Hu & _). rewrite E. intros H; inv H.
  unfold persp_inv, all_updates. rewrite Hf, Hc, Hu, updates_of_app. intros H.
  unfold updates_of at 2. cbn. rewrite !app_nil_r. exact H.
Qed.

(** ** [revert] *)

(** [T] was reached from [S] without reverting past [S]: its command list extends
    [S]'s, and what was pending in [S] is still pending, or became the beginning of
    the updates of the command added next. *)
Definition extends (S T : persp) : Prop :=
  fp_prior (p_facts T) = fp_prior (p_facts S) /\ p_max_cut T = p_max_cut S /\ p_parents T = p_parents S /\
  exists rest, p_cmds T = p_cmds S ++ rest /\
    exists more, match rest with
                 | [] => p_cur T = p_cur S ++ more
                 | c :: _ => c_updates c = p_cur S ++ more
                 end.

Lemma extends_refl S : extends S S.
Proof.
  repeat split; auto. exists []. rewrite app_nil_r. split; auto. exists []. rewrite app_nil_r; auto.
Qed.

Lemma extends_insert S T n k v : extends S T -> extends S (p_insert T n k v).
Proof.
  intros (H1 & H2 & H3 & rest & Hc & more & Hm). repeat split; auto.
  exists rest. split; auto. destruct rest.
  - exists (more ++ [(n, k, Some v)]). cbn. rewrite Hm, app_assoc; auto.
  - exists more; auto.
Qed.

Lemma extends_delete S T n k : extends S T -> extends S (p_delete T n k).
Proof.
  intros (H1 & H2 & H3 & rest & Hc & more & Hm). repeat split; auto.
  - cbn. rewrite fp_delete_prior; auto.
  - exists rest. split; auto. destruct rest.
    + exists (more ++ [(n, k, None)]). cbn. rewrite Hm, app_assoc; auto.
    + exists more; auto.
Qed.

Lemma extends_add_command S T id T' n :
  p_add_command T id (p_head_address T) = Ok (T', n) -> extends S T -> extends S T'.
Proof.
  destruct (p_add_command_ok T id) as (P1 & n1 & E & Hf & Hc & Hu & Hmc & Hpa). rewrite E. intros H; inv H.
  intros (H1 & H2 & H3 & rest & Hcs & more & Hm). repeat split; try congruence.
  exists (rest ++ [{| c_id := id; c_updates := p_cur T |}]). rewrite Hc, Hcs, app_assoc. split; auto.
  destruct rest; cbn.
  - exists more; auto.
  - exists more; auto.
Qed.

Lemma extends_trans A B C : extends A B -> extends B C -> extends A C.
Proof.
  intros (H1 & H2 & H3 & r1 & Hc1 & m1 & Hm1) (G1 & G2 & G3 & r2 & Hc2 & m2 & Hm2).
  repeat split; try congruence.
  exists (r1 ++ r2). rewrite Hc2, Hc1, app_assoc. split; auto.
  destruct r1 as [|c r1]; cbn.
  - destruct r2 as [|c2 r2].
    + exists (m1 ++ m2). rewrite Hm2, Hm1, app_assoc; auto.
    + exists (m1 ++ m2). rewrite Hm2, Hm1, app_assoc; auto.
  - exists m1; auto.
Qed.

Lemma firstn_length_app {A} (a b : list A) : firstn (length a) (a ++ b) = a.
Proof. rewrite firstn_app, Nat.sub_diag, firstn_all. cbn. apply app_nil_r. Qed.

Lemma persp_eq P Q :
  p_facts P = p_facts Q -> p_cmds P = p_cmds Q -> p_cur P = p_cur Q ->
  p_max_cut P = p_max_cut Q -> p_parents P = p_parents Q -> P = Q.
Proof. destruct P, Q; cbn; intros; subst; auto. Qed.

(** Reverting any later state to a checkpoint gives back exactly the perspective
    as it was when the checkpoint was taken. *)
Theorem revert_step_exact S T :
  persp_inv S -> persp_inv T -> extends S T -> p_revert T (p_checkpoint S) = Ok S.
Proof.
  intros IS IT (H1 & H2 & H3 & rest & Hc & more & Hm).
  unfold p_revert, p_checkpoint. cbn [cp_index cp_pending].
  rewrite !Nat2N.id. rewrite Hc, app_length.
  assert (Hfacts : apply_updates (replay (fp_clear (p_facts T)) (p_cmds S)) (p_cur S) = p_facts S).
  { rewrite replay_updates, <- apply_updates_app. unfold fp_clear. rewrite H1. symmetry. exact IS. }
  destruct rest as [|c rest].
  - cbn [length]. rewrite Nat.add_0_r, N.eqb_refl. cbn [andb].
    rewrite Hm, app_length.
    destruct (N.of_nat (length (p_cur S)) =? N.of_nat (length (p_cur S) + length more))%N eqn:E.
    + (* nothing happened since the checkpoint *)
      f_equal. assert (more = []) by (destruct more; auto; cbn in E; lia). subst more.
      rewrite app_nil_r in *. apply persp_eq; auto.
      unfold persp_inv, all_updates in IS, IT. rewrite IT, IS. rewrite H1, Hc, Hm. reflexivity.
    + destruct (N.of_nat (length (p_cmds S)) <? N.of_nat (length (p_cmds S)))%N eqn:E2; [lia|].
      rewrite app_nil_r.
      assert (nth_error (p_cmds S) (length (p_cmds S)) = None) as -> by (apply nth_error_None; lia).
      rewrite app_length.
      destruct (N.of_nat (length (p_cur S) + length more) <? N.of_nat (length (p_cur S)))%N eqn:E3; [lia|].
      rewrite firstn_length_app, firstn_all. f_equal.
      apply persp_eq; cbn; auto.
  - cbn [length].
    destruct (N.of_nat (length (p_cmds S)) =? N.of_nat (length (p_cmds S) + Datatypes.S (length rest)))%N eqn:E; [lia|].
    cbn [andb].
    destruct (N.of_nat (length (p_cmds S) + Datatypes.S (length rest)) <? N.of_nat (length (p_cmds S)))%N eqn:E2; [lia|].
    rewrite nth_error_app2, Nat.sub_diag by lia. cbn [nth_error].
    rewrite Hm, app_length.
    destruct (N.of_nat (length (p_cur S) + length more) <? N.of_nat (length (p_cur S)))%N eqn:E3; [lia|].
    rewrite !firstn_length_app. f_equal.
    apply persp_eq; cbn; auto.
Qed.

(** A failed rule: checkpoint, the rule's writes, revert. *)
Lemma extends_apply_writes S us : forall T, extends S T -> extends S (apply_writes T us).
Proof.
  unfold apply_writes. induction us as [|[[n k] [v|]] us IH]; intros T H; cbn [fold_left]; auto.
  - apply IH, extends_insert; auto.
  - apply IH, extends_delete; auto.
Qed.

Lemma persp_inv_apply_writes us : forall T, persp_inv T -> persp_inv (apply_writes T us).
Proof.
  unfold apply_writes. induction us as [|[[n k] [v|]] us IH]; intros T H; cbn [fold_left]; auto.
  - apply IH, persp_inv_insert; auto.
  - apply IH, persp_inv_delete; auto.
Qed.

Lemma failed_rule_exact P us : persp_inv P -> p_revert (apply_writes P us) (p_checkpoint P) = Ok P.
Proof.
  intros H. apply revert_step_exact; auto using persp_inv_apply_writes.
  apply extends_apply_writes, extends_refl.
Qed.
