(** C28 proofs: module <-> machine conversion, and order-insensitivity of the
    membership operations on hash collections. *)
From Coq Require Import List NArith Bool Lia Sorting.Sorted Sorting.Permutation.
From Aranya Require Import model.ModuleMap.
Import ListNotations.

(** ** The key order is a strict total order *)
Lemma key_ltb_irrefl a : key_ltb a a = false.
Proof. induction a as [|x a IH]; cbn; auto. rewrite N.ltb_irrefl. auto. Qed.

Lemma key_ltb_trans a : forall b c, key_ltb a b = true -> key_ltb b c = true -> key_ltb a c = true.
Proof.
  induction a as [|x a IH]; intros [|y b] [|z c]; cbn; intros H1 H2; try discriminate; auto.
  destruct (x <? y)%N eqn:Exy.
  - apply N.ltb_lt in Exy. destruct (y <? z)%N eqn:Eyz.
    + apply N.ltb_lt in Eyz. assert (E : (x <? z)%N = true) by (apply N.ltb_lt; lia). rewrite E. auto.
    + destruct (z <? y)%N eqn:Ezy; [discriminate|].
      apply N.ltb_ge in Eyz, Ezy. assert (y = z) by lia. subst.
      assert (E : (x <? z)%N = true) by (apply N.ltb_lt; lia). rewrite E. auto.
  - destruct (y <? x)%N eqn:Eyx; [discriminate|]. apply N.ltb_ge in Exy, Eyx. assert (x = y) by lia. subst.
    destruct (y <? z)%N; auto. destruct (z <? y)%N; [discriminate|]. eapply IH; eauto.
Qed.

Lemma key_total a : forall b, key_ltb a b = false -> key_ltb b a = false -> a = b.
Proof.
  induction a as [|x a IH]; intros [|y b]; cbn; intros H1 H2; try discriminate; auto.
  destruct (x <? y)%N eqn:Exy; [discriminate|]. destruct (y <? x)%N eqn:Eyx; [discriminate|].
  apply N.ltb_ge in Exy, Eyx. assert (x = y) by lia. subst. f_equal. apply IH; auto.
Qed.

Lemma key_eqb_eq a : forall b, key_eqb a b = true <-> a = b.
Proof.
  induction a as [|x a IH]; intros [|y b]; cbn; split; intros H; try discriminate; auto.
  - apply andb_true_iff in H as [H1 H2]. apply N.eqb_eq in H1. apply IH in H2. subst; auto.
  - inversion H; subst. rewrite N.eqb_refl. apply IH. auto.
Qed.

Lemma key_eqb_refl a : key_eqb a a = true.
Proof. apply key_eqb_eq; auto. Qed.

Section MapProofs.
  Variable V : Type.
  Variable name : V -> key.

  Definition lt (x y : V) : Prop := key_ltb (name x) (name y) = true.
  Definition sorted (m : list V) : Prop := Sorted lt m.

  Lemma lt_trans : Relations_1.Transitive lt.
  Proof. intros x y z. unfold lt. apply key_ltb_trans. Qed.

  Lemma sorted_strong m : sorted m -> StronglySorted lt m.
  Proof. apply Sorted_StronglySorted. exact lt_trans. Qed.

  Notation ins := (insert V name).
  Notation fv := (from_vec V name).

  Lemma hdrel_insert x v m : HdRel lt x m -> lt x v -> HdRel lt x (ins v m).
  Proof.
    intros Hm Hv. destruct m as [|y r]; cbn; [constructor; auto|].
    destruct (key_ltb (name v) (name y)); [constructor; auto|].
    destruct (key_ltb (name y) (name v)); constructor; auto. inversion Hm; auto.
  Qed.

  Lemma insert_sorted v m : sorted m -> sorted (ins v m).
  Proof.
    unfold sorted. induction m as [|x r IH]; intros H; cbn; [repeat constructor|].
    inversion H as [|? ? Hr Hh]; subst.
    destruct (key_ltb (name v) (name x)) eqn:E1.
    - constructor; auto.
    - destruct (key_ltb (name x) (name v)) eqn:E2.
      + constructor; auto. apply hdrel_insert; auto.
      + constructor; auto.
        assert (En : name v = name x) by (apply key_total; auto).
        destruct r as [|y r]; constructor. inversion Hh; subst. unfold lt in *. rewrite En. auto.
  Qed.

  Lemma fold_sorted l : forall acc, sorted acc -> sorted (fold_left (fun m v => ins v m) l acc).
  Proof. induction l as [|v l IH]; intros acc H; cbn; auto. apply IH. apply insert_sorted; auto. Qed.

  Theorem from_vec_sorted l : sorted (fv l).
  Proof. apply fold_sorted. constructor. Qed.

  Lemma insert_last v m : (forall x, In x m -> lt x v) -> ins v m = m ++ [v].
  Proof.
    induction m as [|x r IH]; intros H; cbn; auto.
    assert (Hx : lt x v) by (apply H; left; auto). unfold lt in Hx.
    assert (E : key_ltb (name v) (name x) = false).
    { destruct (key_ltb (name v) (name x)) eqn:E; auto.
      pose proof (key_ltb_trans _ _ _ Hx E) as C. rewrite key_ltb_irrefl in C. discriminate. }
    rewrite E, Hx. f_equal. apply IH. intros y Hy. apply H. right; auto.
  Qed.

  Lemma fold_sorted_id l : forall acc,
    StronglySorted lt l -> (forall x y, In x acc -> In y l -> lt x y) ->
    fold_left (fun m v => ins v m) l acc = acc ++ l.
  Proof.
    induction l as [|v l IH]; intros acc Hs Hacc; cbn; [rewrite app_nil_r; auto|].
    inversion Hs as [|? ? Hl Hall]; subst.
    rewrite insert_last by (intros x Hx; apply Hacc; [auto|left; auto]).
    rewrite IH; auto.
    - rewrite <- app_assoc. reflexivity.
    - intros x y Hx Hy. apply in_app_or in Hx as [Hx|[<-|[]]].
      + apply Hacc; auto. right; auto.
      + rewrite Forall_forall in Hall. apply Hall; auto.
  Qed.

  (** A vector already in strict name order is reproduced exactly. *)
  Theorem from_vec_of_sorted l : sorted l -> fv l = l.
  Proof.
    intros H. unfold from_vec. rewrite fold_sorted_id; auto.
    - apply sorted_strong; auto.
    - intros x y [].
  Qed.

  Lemma insert_perm v m : ~ In (name v) (map name m) -> Permutation (ins v m) (v :: m).
  Proof.
    induction m as [|x r IH]; intros H; cbn; auto.
    destruct (key_ltb (name v) (name x)) eqn:E1; auto.
    destruct (key_ltb (name x) (name v)) eqn:E2.
    - rewrite IH by (intros C; apply H; right; auto). apply perm_swap.
    - exfalso. apply H. left. symmetry. apply key_total; auto.
  Qed.

  Lemma fold_perm l : forall acc, NoDup (map name (acc ++ l)) ->
    Permutation (fold_left (fun m v => ins v m) l acc) (acc ++ l).
  Proof.
    induction l as [|v l IH]; intros acc H; cbn; [rewrite app_nil_r; auto|].
    assert (Hv : ~ In (name v) (map name acc)).
    { rewrite map_app in H. cbn in H. apply NoDup_remove_2 in H. intros C. apply H. apply in_or_app. left; auto. }
    pose proof (insert_perm v acc Hv) as Hp.
    assert (Hn : NoDup (map name (ins v acc ++ l))).
    { eapply Permutation_NoDup; [|exact H]. apply Permutation_map.
      rewrite Hp. cbn. symmetry. apply Permutation_middle. }
    rewrite (IH _ Hn). rewrite Hp. cbn. apply Permutation_middle.
  Qed.

  (** With unique names nothing is lost: the map's values are the vector's definitions, in name order. *)
  Theorem from_vec_perm l : NoDup (map name l) -> Permutation (to_vec V (fv l)) l.
  Proof. intros H. unfold to_vec. apply (fold_perm l []). auto. Qed.

  Lemma find_perm (l l' : list V) k : Permutation l l' -> NoDup (map name l) ->
    find (fun v => key_eqb (name v) k) l = find (fun v => key_eqb (name v) k) l'.
  Proof.
    induction 1; intros Hn; cbn; auto.
    - cbn in Hn. inversion Hn; subst. rewrite IHPermutation; auto.
    - cbn in Hn. destruct (key_eqb (name y) k) eqn:Ey, (key_eqb (name x) k) eqn:Ex; auto.
      apply key_eqb_eq in Ey, Ex. inversion Hn; subst. exfalso. apply H1. left. congruence.
    - rewrite IHPermutation1 by auto. apply IHPermutation2.
      eapply Permutation_NoDup; [|exact Hn]. apply Permutation_map; auto.
  Qed.

  (** Every definition is found under its name exactly as in the vector. *)
  Theorem lookup_from_vec l k : NoDup (map name l) ->
    lookup V name k (fv l) = find (fun v => key_eqb (name v) k) l.
  Proof.
    intros H. unfold lookup. symmetry. apply find_perm; auto.
    symmetry. apply from_vec_perm; auto.
  Qed.

  (** [NamedMap] (the compiler's action / command tables) only ever holds unique names, in insertion order. *)
  Lemma named_insert_all_nodup l : forall acc out,
    NoDup (map name acc) -> named_insert_all V name acc l = Some out ->
    NoDup (map name out) /\ out = acc ++ l.
  Proof.
    induction l as [|v l IH]; intros acc out Hn H; cbn in H.
    - inversion H; subst. rewrite app_nil_r. auto.
    - destruct (existsb (fun x => key_eqb (name x) (name v)) acc) eqn:E; [discriminate|].
      assert (Hv : ~ In (name v) (map name acc)).
      { intros C. apply in_map_iff in C as (x & Hx & Hin).
        assert (existsb (fun x => key_eqb (name x) (name v)) acc = true).
        { apply existsb_exists. exists x. split; auto. apply key_eqb_eq; auto. }
        congruence. }
      assert (Hn' : NoDup (map name (acc ++ [v]))).
      { rewrite map_app. cbn. eapply Permutation_NoDup; [apply Permutation_cons_append|].
        constructor; auto. }
      destruct (IH _ _ Hn' H) as [H1 H2]. split; auto. rewrite H2, <- app_assoc. reflexivity.
  Qed.

  Theorem named_map_unique l out : named_insert_all V name [] l = Some out -> NoDup (map name out) /\ out = l.
  Proof. intros H. apply (named_insert_all_nodup l [] out); [constructor|auto]. Qed.
End MapProofs.

(** ** Module <-> machine *)

Definition machine_wf (k : machine) : Prop :=
  sorted defs d_name (k_actions k) /\ sorted defs d_name (k_commands k) /\ sorted defs d_name (k_facts k)
  /\ sorted defs d_name (k_structs k) /\ sorted defs d_name (k_enums k).

Definition module_names_unique (m : module_v0) : Prop :=
  NoDup (map d_name (m_actions m)) /\ NoDup (map d_name (m_commands m)) /\ NoDup (map d_name (m_facts m))
  /\ NoDup (map d_name (m_structs m)) /\ NoDup (map d_name (m_enums m)).

(** Every machine is the image of its own module: machine -> module -> machine is the identity. *)
Definition from_module_to_module_stmt : Prop :=
  forall k : machine, machine_wf k -> from_module (to_module k) = k.

Lemma from_module_to_module_proof : from_module_to_module_stmt.
Proof.
  intros [a c f s e r] (Ha & Hc & Hf & Hs & He). unfold from_module, to_module, to_vec.
  cbn [m_actions m_commands m_facts m_structs m_enums m_rest k_actions k_commands k_facts k_structs k_enums k_rest] in *.
  rewrite !from_vec_of_sorted; auto.
Qed.

(** Loading always gives a well-formed machine; with unique definition names (which the compiler
    guarantees: [NamedMap] for actions / commands, [BTreeMap] keys for facts / structs / enums) no
    definition is lost, every definition is found under its name, and the five vectors come back
    in name order (exactly the same vector when it already was in name order). *)
Definition module_load_faithful_stmt : Prop :=
  forall m : module_v0,
    machine_wf (from_module m)
    /\ (module_names_unique m ->
        Permutation (m_actions (to_module (from_module m))) (m_actions m)
        /\ Permutation (m_commands (to_module (from_module m))) (m_commands m)
        /\ Permutation (m_facts (to_module (from_module m))) (m_facts m)
        /\ Permutation (m_structs (to_module (from_module m))) (m_structs m)
        /\ Permutation (m_enums (to_module (from_module m))) (m_enums m)
        /\ (forall k, lookup defs d_name k (k_actions (from_module m)) = find (fun v => key_eqb (d_name v) k) (m_actions m))
        /\ (forall k, lookup defs d_name k (k_commands (from_module m)) = find (fun v => key_eqb (d_name v) k) (m_commands m))
        /\ (forall k, lookup defs d_name k (k_facts (from_module m)) = find (fun v => key_eqb (d_name v) k) (m_facts m))
        /\ (forall k, lookup defs d_name k (k_structs (from_module m)) = find (fun v => key_eqb (d_name v) k) (m_structs m))
        /\ (forall k, lookup defs d_name k (k_enums (from_module m)) = find (fun v => key_eqb (d_name v) k) (m_enums m)))
    /\ (sorted defs d_name (m_actions m) -> sorted defs d_name (m_commands m) -> sorted defs d_name (m_facts m) ->
        sorted defs d_name (m_structs m) -> sorted defs d_name (m_enums m) -> to_module (from_module m) = m).

Lemma module_load_faithful_proof : module_load_faithful_stmt.
Proof.
  intros [a c f s e r]. unfold from_module, to_module, machine_wf, module_names_unique.
  cbn [m_actions m_commands m_facts m_structs m_enums m_rest k_actions k_commands k_facts k_structs k_enums k_rest] in *. split; [|split].
  - repeat split; apply from_vec_sorted.
  - intros (Ha & Hc & Hf & Hs & He).
    repeat split; try (apply from_vec_perm; auto); intros k; apply lookup_from_vec; auto.
  - intros Ha Hc Hf Hs He. unfold to_vec. rewrite !from_vec_of_sorted; auto.
Qed.

(** Without unique names the conversion loses definitions: the hypothesis is needed. *)
Definition duplicate_names_lose_definitions_stmt : Prop :=
  exists m : module_v0, length (m_actions (to_module (from_module m))) < length (m_actions m).

Lemma duplicate_names_lose_definitions_proof : duplicate_names_lose_definitions_stmt.
Proof.
  exists {| m_actions := [{| d_name := [97%N]; d_payload := 1 |}; {| d_name := [97%N]; d_payload := 2 |}];
            m_commands := []; m_facts := []; m_structs := []; m_enums := []; m_rest := 0 |}.
  vm_compute. lia.
Qed.

(** ** Hash collections: membership operations do not observe the iteration order *)

Lemma hfind_perm l l' k : Permutation l l' -> NoDup (map fst l) -> hfind k l = hfind k l'.
Proof.
  intros Hp Hn. unfold hfind. rewrite (find_perm (key * N) fst l l' k Hp Hn). reflexivity.
Qed.

Lemma hdel_perm l l' k : Permutation l l' -> Permutation (hdel k l) (hdel k l').
Proof.
  unfold hdel. induction 1; cbn; auto.
  - destruct (negb (key_eqb (fst x) k)); auto.
  - destruct (negb (key_eqb (fst x) k)), (negb (key_eqb (fst y) k)); auto. apply perm_swap.
  - etransitivity; eauto.
Qed.

Lemma hdel_keys l k : NoDup (map fst l) -> NoDup (map fst (hdel k l)) /\ ~ In k (map fst (hdel k l)).
Proof.
  unfold hdel. induction l as [|[k0 v0] l IH]; cbn; intros H; [split; [constructor|auto]|].
  inversion H; subst. destruct (IH H3) as [I1 I2].
  destruct (key_eqb k0 k) eqn:E; cbn; [auto|].
  split.
  - constructor; auto. intros C. apply H2. apply in_map_iff in C as (x & Hx & Hin).
    apply filter_In in Hin as [Hin _]. apply in_map_iff. exists x. auto.
  - intros [C|C]; [|auto]. subst. rewrite key_eqb_refl in E. discriminate.
Qed.

Definition hash_membership_order_insensitive_stmt : Prop :=
  forall (ops : list hop) (l l' : list (key * N)),
    Permutation l l' -> NoDup (map fst l) -> hrun l ops = hrun l' ops.

Lemma hash_membership_order_insensitive_proof : hash_membership_order_insensitive_stmt.
Proof.
  intros ops. induction ops as [|o ops IH]; intros l l' Hp Hn; cbn [hrun]; auto.
  assert (Hn' : NoDup (map fst l')) by (eapply Permutation_NoDup; [apply Permutation_map; exact Hp|auto]).
  destruct o as [k|k v|k|]; cbn [hstep].
  - rewrite (hfind_perm l l' k Hp Hn). f_equal. apply IH; auto.
  - rewrite (hfind_perm l l' k Hp Hn). f_equal. apply IH.
    + constructor. apply hdel_perm; auto.
    + cbn. destruct (hdel_keys l k Hn). constructor; auto.
  - rewrite (hfind_perm l l' k Hp Hn). f_equal. apply IH.
    + apply hdel_perm; auto.
    + apply hdel_keys; auto.
  - rewrite (Permutation_length Hp). f_equal. apply IH; auto.
Qed.

(** Non-vacuity: two different iteration orders of the same contents. *)
Example hash_example :
  let l  := [([1%N], 10%N); ([2%N], 20%N); ([3%N], 30%N)] in
  let l' := [([3%N], 30%N); ([1%N], 10%N); ([2%N], 20%N)] in
  Permutation l l' /\ NoDup (map fst l)
  /\ hrun l [HGet [2%N]; HInsert [2%N] 21%N; HRemove [1%N]; HGet [1%N]; HLen]
     = [Some 20%N; Some 20%N; Some 10%N; None; Some 2%N].
Proof.
  cbn zeta. split; [|split].
  - apply Permutation_sym. apply (Permutation_cons_append [([1%N], 10%N); ([2%N], 20%N)] ([3%N], 30%N)).
  - repeat constructor; cbn; intuition discriminate.
  - vm_compute. reflexivity.
Qed.

Example module_example :
  let d n p := {| d_name := n; d_payload := p |} in
  let m := {| m_actions := [d [98%N] 1%N; d [97%N] 2%N]; m_commands := [d [99%N] 3%N]; m_facts := []; m_structs := []; m_enums := []; m_rest := 7%N |} in
  module_names_unique m
  /\ m_actions (to_module (from_module m)) = [d [97%N] 2%N; d [98%N] 1%N].
Proof.
  cbn zeta. split.
  - unfold module_names_unique. cbn. repeat split; repeat constructor; cbn; intuition discriminate.
  - vm_compute. reflexivity.
Qed.
