(** C13 — reverting to a checkpoint is exact: graph perspectives and sessions. *)
From Coq Require Import String.
From Aranya Require Import base.Tactics base.ListLex base.SortedAssoc model.Facts model.FactsWorld
     model.Session proofs.FactsMaps proofs.FactsIndex proofs.FactsPersp proofs.CheckpointGeneric
     proofs.SessionProofs gen.GenFacts.

(** What the checkpoints record, as the code has it now (regenerated): the repair of
    finding F12 added the count of pending writes. *)
Lemma checkpoint_shape_pinned :
  checkpoint_fields = [("index", "usize"); ("pending", "usize")]%string /\
  linear_checkpoint = "index: self.commands.len(), pending: self.current_updates.len()"%string /\
  session_checkpoint = "index: self.session.fact_log.len(), pending: 0"%string.
Proof. repeat split; reflexivity. Qed.

(** ** Graph perspectives *)

(** Everything a perspective's user can do to it besides checkpoint/revert. *)
Inductive pwrite :=
| WInsert (n : name) (k : keys) (v : bytes)
| WDelete (n : name) (k : keys)
| WAddCmd (id : N)
| WFailedRule (body : list update).    (* a nested checkpoint / writes / revert, as the runtime does for a failing rule *)

Definition p_stepw (P : persp) (w : pwrite) : persp :=
  match w with
  | WInsert n k v => p_insert P n k v
  | WDelete n k => p_delete P n k
  | WAddCmd id => match p_add_command P id (p_head_address P) with Ok (P', _) => P' | Err _ => P end
  | WFailedRule body => match p_revert (apply_writes P body) (p_checkpoint P) with Ok P' => P' | Err _ => P end
  end.

Lemma p_ext_step S T w : persp_inv T -> extends S T -> extends S (p_stepw T w).
Proof.
  intros Hi He. destruct w as [n k v|n k|id|body]; cbn [p_stepw].
  - apply extends_insert; auto.
  - apply extends_delete; auto.
  - destruct (p_add_command T id (p_head_address T)) as [[T' c]|e] eqn:E; auto.
    eapply extends_add_command; eauto.
  - rewrite failed_rule_exact; auto.
Qed.

Lemma p_inv_step T w : persp_inv T -> persp_inv (p_stepw T w).
Proof.
  intros Hi. destruct w as [n k v|n k|id|body]; cbn [p_stepw].
  - apply persp_inv_insert; auto.
  - apply persp_inv_delete; auto.
  - destruct (p_add_command T id (p_head_address T)) as [[T' c]|e] eqn:E; auto.
    eapply persp_inv_add_command; eauto.
  - rewrite failed_rule_exact; auto.
Qed.

Notation pop := (gop pwrite).
Notation prun := (grun persp checkpoint pwrite p_checkpoint p_revert p_stepw).
Notation pinit := (ginit persp checkpoint).

(** [revert (ops2 (checkpoint (ops1 P0)))] is exactly [ops1 P0], for every perspective
    the storage hands out, every history [ops1] (which may itself contain checkpoints
    and reverts) and every continuation [ops2] -- writes, deletes, added commands,
    failing rules, nested checkpoints, reverts to this or to later checkpoints -- as
    long as [ops2] does not revert to an older checkpoint (that invalidates this one).
    Equality of the perspective values gives equal commands, head address and query
    answers in every store. *)
Definition revert_exact_stmt : Prop :=
  forall (pr : fprior) (max_cut : N) (parents : paddr) (ops1 ops2 : list pop),
  let s1 := prun (pinit (p_new pr max_cut parents)) ops1 in
  let j := length (g_cps _ _ s1) in
  Forall (above pwrite j) ops2 ->
  g_st _ _ (prun s1 (GCheckpoint _ :: ops2 ++ [GRevert _ j])) = g_st _ _ s1.

Lemma revert_exact_proof : revert_exact_stmt.
Proof.
  intros pr mc pa ops1 ops2 s1 j Hab.
  apply (revert_exact_generic persp checkpoint pwrite p_checkpoint p_revert p_stepw persp_inv extends);
    auto using extends_refl, p_ext_step, p_inv_step, revert_step_exact, persp_inv_new.
Qed.

(** The one-step form: any perspective reached from [S] without reverting past it
    reverts to exactly [S]. *)
Definition revert_step_exact_stmt : Prop :=
  forall S T, persp_inv S -> persp_inv T -> extends S T -> p_revert T (p_checkpoint S) = Ok S.

(** ** The defect this property exposed (before the repair) *)

(** [revert] as it was: insert; checkpoint; revert loses the inserted fact. *)
Definition revert_old_refuted_stmt : Prop :=
  exists (P : persp) (n : name) (k : keys) (v : bytes),
    let P1 := p_insert P n k v in
    let index := cp_index (p_checkpoint P1) in
    exists P2, p_revert_old P1 index = Ok P2 /\
               p_query [] P1 n k = Ok (Some v) /\ p_query [] P2 n k = Ok None.

Lemma revert_old_refuted_proof : revert_old_refuted_stmt.
Proof.
  exists (p_new PNone 0 PaNone), [120]%N, [[97]%N], [1]%N. cbv zeta.
  eexists. split; [vm_compute; reflexivity|]. split; vm_compute; reflexivity.
Qed.

(** ** Sessions *)

Definition s_stepw (s : session) (u : update) : session := s_write s u.

Notation sopx := (gop update).
Notation srunx := (grun session checkpoint update s_checkpoint s_revert s_stepw).
Notation sinit := (ginit session checkpoint).

Definition session_revert_exact_stmt : Prop :=
  forall (base : N) (ops1 ops2 : list sopx),
  let s1 := srunx (sinit (s_new base)) ops1 in
  let j := length (g_cps _ _ s1) in
  Forall (above update j) ops2 ->
  g_st _ _ (srunx s1 (GCheckpoint _ :: ops2 ++ [GRevert _ j])) = g_st _ _ s1.

Lemma session_revert_exact_proof : session_revert_exact_stmt.
Proof.
  intros base ops1 ops2 s1 j Hab.
  apply (revert_exact_generic session checkpoint update s_checkpoint s_revert s_stepw session_inv s_extends);
    auto using s_extends_refl, s_revert_step_exact, session_inv_new.
  - intros s t w _ H. apply s_extends_write; auto.
  - intros t w H. apply session_inv_write; auto.
Qed.

(** ** Non-vacuity *)

Definition nx : name := [120]%N.
Definition ka : keys := [[97]%N].
Definition kb : keys := [[98]%N].

(** a pending write, then the checkpoint, then a command absorbing the pending write, a
    nested checkpoint and a failed rule: reverting restores the pending write and drops
    the command. *)
Example revert_example :
  let ops1 := [GStep _ (WInsert nx ka [1]%N); GStep _ (WAddCmd 1); GStep _ (WInsert nx kb [2]%N)] in
  let ops2 := [GStep _ (WDelete nx kb); GStep _ (WAddCmd 2); GCheckpoint _; GStep _ (WInsert nx ka [3]%N);
               GStep _ (WFailedRule [(nx, kb, Some [9]%N)]); GRevert _ 1; GStep _ (WInsert nx kb [4]%N)] in
  let s1 := prun (pinit (p_new PNone 0 PaNone)) ops1 in
  let s2 := prun s1 (GCheckpoint _ :: ops2) in
  let s3 := prun s2 [GRevert _ 0] in
  Forall (above pwrite 0) ops2 /\
  p_query [] (g_st _ _ s2) nx kb = Ok (Some [4]%N) /\ length (p_cmds (g_st _ _ s2)) = 2%nat /\
  p_query [] (g_st _ _ s3) nx kb = Ok (Some [2]%N) /\ length (p_cmds (g_st _ _ s3)) = 1%nat /\
  p_cur (g_st _ _ s3) = [(nx, kb, Some [2]%N)].
Proof.
  cbv zeta. split; [repeat constructor|]. vm_compute. repeat split; reflexivity.
Qed.
