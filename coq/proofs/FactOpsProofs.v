(** Refinement: the VM-level fact operations over [VmPolicyIO] + storage
    ([model/FactOps.v], first half) return and store exactly what the typed
    specification store (second half) does. *)
From Aranya Require Import base.Tactics base.ListLex base.SortedAssoc gen.GenKeyEnc
  model.KeyEnc model.FactOps proofs.KeyEncProofs.
Local Open Scope N_scope.

(** * Decidable equalities *)
Lemma beqb_spec a b : beqb a b = true <-> a = b.
Proof.
  revert b; induction a as [|x a IH]; intros [|y b]; cbn; try (split; congruence).
  rewrite andb_true_iff, N.eqb_eq, IH. split; [intros []; congruence|intros H; inv H; auto].
Qed.
Lemma beqb_refl a : beqb a a = true.
Proof. apply beqb_spec; auto. Qed.
Lemma beqb_false a b : beqb a b = false <-> a <> b.
Proof. rewrite <- beqb_spec. destruct (beqb a b); split; congruence. Qed.

Lemma hval_eqb_refl a : hval_eqb a a = true.
Proof. apply hval_eqb_spec; auto. Qed.

(** * Building the literal: [FactNew; FactKeySet*; FactValueSet*] *)
Lemma upd_assoc_fresh {V} n (v : V) l : ~ In n (map fst l) -> upd_assoc n v l = l ++ [(n, v)].
Proof.
  induction l as [|[n' v'] r IH]; cbn; intros H; auto.
  destruct (beqb n' n) eqn:E.
  - apply beqb_spec in E. subst. tauto.
  - rewrite IH; auto.
Qed.

Lemma fold_upd_fresh {V} (kvs acc : list (bytes * V)) :
  NoDup (map fst acc ++ map fst kvs) ->
  fold_left (fun a kv => upd_assoc (fst kv) (snd kv) a) kvs acc = acc ++ kvs.
Proof.
  revert acc; induction kvs as [|[n v] r IH]; intros acc H; cbn [fold_left fst snd].
  - rewrite app_nil_r; auto.
  - cbn in H. rewrite upd_assoc_fresh.
    + rewrite IH; [rewrite <- app_assoc; auto|].
      rewrite map_app; cbn. rewrite <- app_assoc. cbn. auto.
    + apply NoDup_remove_2 in H. intros Hin. apply H. apply in_or_app; auto.
Qed.

Lemma fold_set_key f kvs :
  fold_left (fun f kv => set_key f (fst kv) (snd kv)) kvs f =
  {| f_name := f_name f;
     f_keys := fold_left (fun a kv => upd_assoc (fst kv) (snd kv) a) kvs (f_keys f);
     f_vals := f_vals f |}.
Proof. revert f; induction kvs as [|kv r IH]; intros f; cbn [fold_left]; [destruct f; auto|]. rewrite IH. reflexivity. Qed.
Lemma fold_set_value f kvs :
  fold_left (fun f kv => set_value f (fst kv) (snd kv)) kvs f =
  {| f_name := f_name f;
     f_keys := f_keys f;
     f_vals := fold_left (fun a kv => upd_assoc (fst kv) (snd kv) a) kvs (f_vals f) |}.
Proof. revert f; induction kvs as [|kv r IH]; intros f; cbn [fold_left]; [destruct f; auto|]. rewrite IH. reflexivity. Qed.

Lemma map_fst_combine {A B} (a : list A) (b : list B) : (length b <= length a)%nat ->
  map fst (combine a b) = firstn (length b) a.
Proof.
  revert b; induction a as [|x a IH]; intros [|y b] H; cbn in *; auto; try lia.
  f_equal. apply IH. lia.
Qed.

Lemma in_firstn {A} (x : A) n l : In x (firstn n l) -> In x l.
Proof.
  revert n; induction l as [|y l IH]; intros [|n]; cbn; try tauto.
  intros [H|H]; eauto.
Qed.
Lemma NoDup_firstn {A} n (l : list A) : NoDup l -> NoDup (firstn n l).
Proof.
  revert n; induction l as [|x l IH]; intros [|n] H; cbn; try constructor.
  - inv H. intros Hin. apply H2. eapply in_firstn; eauto.
  - inv H. auto.
Qed.

(** * Well-formedness predicates (boolean, so that instances are checked by computation) *)
Fixpoint nodupb (l : list bytes) : bool :=
  match l with [] => true | x :: r => negb (existsb (beqb x) r) && nodupb r end.
Lemma nodupb_spec l : nodupb l = true -> NoDup l.
Proof.
  induction l as [|x r IH]; cbn; intros H; constructor; apply andb_prop in H as [H1 H2]; auto.
  intros Hin. apply negb_true_iff in H1. assert (existsb (beqb x) r = true); [|congruence].
  apply existsb_exists. exists x. split; auto. apply beqb_refl.
Qed.

Fixpoint keys_fit (ks : list hval) (tys : list (bytes * ty)) : bool :=
  match ks, tys with
  | [], _ => true
  | k :: ks', (_, t) :: tys' => hval_fits k t && keys_fit ks' tys'
  | _ :: _, [] => false
  end.
Definition vals_fit (s : schema) (vs : list fval) : bool :=
  forallb (fun v => match lookup (fst v) (s_vals s) with
                    | Some (_, t) => value_fits (snd v) t
                    | None => false end) vs.

Section Wf.
  Variable utf8 : bytes -> bool.
  Definition name_okb (n : bytes) : bool :=
    utf8 n && ident_ok n && (N.of_nat (length n) <? pow256 ident_len_width).
  (** what the compiler guarantees of a fact definition *)
  Definition schema_okb (s : schema) : bool :=
    nodupb (key_names s) && forallb name_okb (key_names s).
  (** a fact literal accepted by [lower_fact_literal] for this schema, with run-time values *)
  Definition lit_okb (s : schema) (l : lit) : bool :=
    keys_fit (l_keys l) (s_keys s) && forallb (wf_hvalb utf8) (l_keys l)
    && nodupb (map fst (l_vals l)) && vals_fit s (l_vals l).
  Definition full_keys (s : schema) (l : lit) : bool := (length (l_keys l) =? length (s_keys s))%nat.
  Definition op_okb (s : schema) (o : op) : bool :=
    match o with
    | OQuery l | OExists l | OMap l => lit_okb s l
    | OCount _ n l => lit_okb s l && in_i64b n
    | OCreate l | ODelete l | OUpdate l _ => lit_okb s l && full_keys s l
    end.
  Definition sfact_okb (s : schema) (e : sfact) : bool :=
    (length (fst e) =? length (s_keys s))%nat && forallb (wf_hvalb utf8) (fst e).
End Wf.

Lemma keys_fit_length ks tys : keys_fit ks tys = true -> (length ks <= length tys)%nat.
Proof.
  revert tys; induction ks as [|k ks IH]; intros [|[n t] tys] H; cbn in *; try lia; try discriminate.
  apply andb_prop in H as [_ H]. apply IH in H. lia.
Qed.

Lemma key_names_length s : length (key_names s) = length (s_keys s).
Proof. apply map_length. Qed.

Lemma lower_lit_name s l : f_name (lower_lit s l) = s_name s.
Proof. unfold lower_lit. rewrite fold_set_value, fold_set_key. reflexivity. Qed.

Lemma lower_lit_keys s l : NoDup (key_names s) -> (length (l_keys l) <= length (s_keys s))%nat ->
  f_keys (lower_lit s l) = mk_keys (key_names s) (l_keys l).
Proof.
  intros ND Hl. unfold lower_lit. rewrite fold_set_value, fold_set_key. cbn [f_keys fact_new].
  rewrite fold_upd_fresh; auto. cbn [map app]. unfold mk_keys.
  rewrite map_fst_combine by (rewrite key_names_length; auto). apply NoDup_firstn; auto.
Qed.

Lemma lower_lit_vals s l : NoDup (map fst (l_vals l)) -> f_vals (lower_lit s l) = l_vals l.
Proof.
  intros ND. unfold lower_lit. rewrite fold_set_value, fold_set_key. cbn [f_vals fact_new].
  rewrite fold_upd_fresh; auto.
Qed.

Lemma lower_to_eq from to :
  lower_to from to = {| f_name := f_name from; f_keys := f_keys from;
                        f_vals := fold_left (fun a kv => upd_assoc (fst kv) (snd kv) a) to (f_vals from) |}.
Proof. apply fold_set_value. Qed.

(** [lookup] in the schema finds the field of that name at its own position. *)
Lemma lookup_combine_fit names tys ks n k :
  NoDup names -> length names = length tys ->
  In (n, k) (combine names ks) -> keys_fit ks (combine names tys) = true ->
  exists t, lookup n (combine names tys) = Some (n, t) /\ hval_fits k t = true.
Proof.
  revert tys ks; induction names as [|m names IH]; intros [|t tys] [|k0 ks] ND Hl Hin Hf; cbn in *; try tauto; try lia.
  apply andb_prop in Hf as [Hf1 Hf2]. inv ND. destruct Hin as [Hin|Hin].
  - inv Hin. exists t. unfold lookup; cbn. rewrite beqb_refl. auto.
  - destruct (IH tys ks) as [t' [Hlk Hft]]; auto.
    exists t'. split; auto. unfold lookup in *; cbn.
    destruct (beqb m n) eqn:E; auto. apply beqb_spec in E; subst.
    exfalso. apply H1. apply in_combine_l in Hin; auto.
Qed.

Lemma schema_keys_combine s : s_keys s = combine (key_names s) (map snd (s_keys s)).
Proof. unfold key_names. induction (s_keys s) as [|[n t] r IH]; cbn; congruence. Qed.

Lemma validate_lower_lit utf8 s l :
  schema_okb utf8 s = true -> lit_okb utf8 s l = true ->
  validate_fact_literal (Some s) (lower_lit s l) = true.
Proof.
  intros Hs Hl. unfold schema_okb in Hs. apply andb_prop in Hs as [Hnd _]. apply nodupb_spec in Hnd.
  unfold lit_okb in Hl. repeat (apply andb_prop in Hl as [Hl ?]).
  pose proof (keys_fit_length _ _ Hl) as Hlen.
  cbn [validate_fact_literal]. unfold validate_fact_schema.
  rewrite lower_lit_name, beqb_refl, lower_lit_keys, lower_lit_vals; auto using nodupb_spec.
  cbn [andb]. apply andb_true_intro; split; [|exact H].
  apply forallb_forall. intros [n k] Hin. cbn [fst snd].
  rewrite (schema_keys_combine s) in Hl |- *.
  destruct (lookup_combine_fit (key_names s) (map snd (s_keys s)) (l_keys l) n k) as [t [-> Ht]]; auto.
  rewrite map_length. apply key_names_length.
Qed.

(** [fact_match] of a lowered literal against a row whose keys extend the literal's keys
    is the comparison of the bound value fields. *)
Lemma starts_with_mk_keys names ks pk :
  is_prefix hval_cmp pk ks = true -> starts_with fkey_eqb (mk_keys names ks) (mk_keys names pk) = true.
Proof.
  unfold mk_keys. revert ks pk; induction names as [|n names IH]; intros ks pk H.
  - destruct pk; reflexivity.
  - destruct pk as [|p pk]; [destruct ks; reflexivity|]. destruct ks as [|k ks]; [discriminate|].
    cbn in H |- *. destruct (hval_cmp p k) eqn:E; try discriminate.
    apply (cmp_eq _ hval_cmp_laws) in E; subst.
    unfold fkey_eqb; cbn. rewrite beqb_refl, hval_eqb_refl. cbn. auto.
Qed.

Lemma fact_match_lowered s l ks vs :
  NoDup (key_names s) -> (length (l_keys l) <= length (s_keys s))%nat -> NoDup (map fst (l_vals l)) ->
  is_prefix hval_cmp (l_keys l) ks = true ->
  fact_match (lower_lit s l) (mk_keys (key_names s) ks) vs = vals_match (l_vals l) vs.
Proof.
  intros. unfold fact_match. rewrite lower_lit_keys, lower_lit_vals, starts_with_mk_keys; auto.
Qed.

(** * Monotone images of sorted maps *)
Section MapEnc.
  Context {K1 K2 V1 V2 : Type} (c1 : K1 -> K1 -> comparison) (c2 : K2 -> K2 -> comparison).
  Variable fk : K1 -> K2.
  Variable fv : V1 -> V2.
  Variable ok : K1 -> Prop.
  Hypothesis mono : forall a b, ok a -> ok b -> c2 (fk a) (fk b) = c1 a b.
  Let enc (e : K1 * V1) : K2 * V2 := (fk (fst e), fv (snd e)).

  Lemma sput_map_enc k v m : ok k -> Forall (fun e => ok (fst e)) m ->
    sput c2 (fk k) (fv v) (map enc m) = map enc (sput c1 k v m).
  Proof.
    intros Hk. induction 1 as [|[k' v'] r H _ IH]; cbn [map sput]; auto.
    unfold enc at 1; cbn [fst snd] in *. rewrite mono by auto.
    destruct (c1 k k'); cbn [map]; try rewrite <- IH; reflexivity.
  Qed.
  Lemma sdel_map_enc k m : ok k -> Forall (fun e => ok (fst e)) m ->
    sdel c2 (fk k) (map enc m) = map enc (sdel c1 k m).
  Proof.
    intros Hk. induction 1 as [|[k' v'] r H _ IH]; cbn [map sdel]; auto.
    unfold enc at 1; cbn [fst snd] in *. rewrite mono by auto.
    destruct (c1 k k'); cbn [map]; try rewrite <- IH; reflexivity.
  Qed.
End MapEnc.

Lemma sput_sdel {K V} (cmp : K -> K -> comparison) (L : CmpLaws cmp) k (v : V) m :
  sorted cmp m -> sput cmp k v (sdel cmp k m) = sput cmp k v m.
Proof.
  intros S. apply (sorted_ext cmp L).
  - apply sorted_sput, sorted_sdel; auto.
  - apply sorted_sput; auto.
  - intros k2. rewrite !(sget_sput cmp L), (sget_sdel cmp L) by auto.
    destruct (cmp_eqb cmp k2 k); auto.
Qed.

Lemma filter_filter {A} (f g : A -> bool) l : filter g (filter f l) = filter (fun x => f x && g x) l.
Proof.
  induction l as [|x l IH]; cbn; auto. destruct (f x); cbn; [destruct (g x)|]; cbn; congruence.
Qed.

Lemma filter_map_comm {A B} (f : A -> B) (p : B -> bool) l : filter p (map f l) = map f (filter (fun x => p (f x)) l).
Proof. induction l as [|x l IH]; cbn; auto. destruct (p (f x)); cbn; congruence. Qed.

Lemma filter_ext_Forall {A} (P : A -> Prop) (f g : A -> bool) l :
  Forall P l -> (forall x, P x -> f x = g x) -> filter f l = filter g l.
Proof. induction 1 as [|x l Hx _ IH]; intros H; cbn; auto. rewrite (H x Hx), IH; auto. Qed.

(** full-length prefix = equality *)
Lemma is_prefix_full p k : length p = length k -> is_prefix hval_cmp p k = cmp_eqb tcmp p k.
Proof.
  unfold cmp_eqb, tcmp. revert k; induction p as [|x p IH]; intros [|y k] H; cbn in *; try discriminate; auto.
  destruct (hval_cmp x y); auto.
Qed.

Lemma filter_key_sget {V} ks (m : list (list hval * V)) : sorted tcmp m ->
  filter (fun e => cmp_eqb tcmp ks (fst e)) m = match sget tcmp ks m with Some v => [(ks, v)] | None => [] end.
Proof.
  pose proof tcmp_laws as L.
  induction m as [|[k' v'] r IH]; intros S; cbn [filter sget fst]; auto.
  apply (sorted_inv tcmp) in S as [Sr Hall]. unfold cmp_eqb at 1.
  destruct (tcmp ks k') eqn:E.
  - apply (cmp_eq _ L) in E; subst k'. f_equal.
    rewrite IH by auto. rewrite (lb_sget_none tcmp); auto.
  - rewrite IH by auto. rewrite (lb_sget_none tcmp); auto.
    eapply (lt_all tcmp L); [|exact Hall]; auto.
  - apply IH; auto.
Qed.

Lemma forallb_forall' {A} (f : A -> bool) l : forallb f l = true <-> Forall (fun x => f x = true) l.
Proof. rewrite forallb_forall, Forall_forall. tauto. Qed.

(** * The refinement *)
Section Refine.
  Variable utf8 : bytes -> bool.
  Variables St VB : Type.
  Variable st_insert : St -> bytes -> list bytes -> VB -> St.
  Variable st_delete : St -> bytes -> list bytes -> St.
  Variable st_prefix : St -> bytes -> list bytes -> list (list bytes * VB).
  Variable ser_vals : list fval -> VB.
  Variable deser_vals : VB -> option (list fval).

  (** Named component C12 ([facts_refine_flat]): the runtime's fact storage behaves as a flat map
      per fact name, sorted by the serialised compound key, with [query_prefix] = the entries whose
      key list starts with the prefix, in ascending key order. *)
  Variable flat : St -> bytes -> list (list bytes * VB).
  Hypothesis storage_prefix : forall st n p,
    st_prefix st n p = filter (fun e => is_prefix bcmp p (fst e)) (flat st n).
  Hypothesis storage_insert : forall st n k v n',
    flat (st_insert st n k v) n' = if beqb n' n then sput kcmp k v (flat st n') else flat st n'.
  Hypothesis storage_delete : forall st n k n',
    flat (st_delete st n k) n' = if beqb n' n then sdel kcmp k (flat st n') else flat st n'.
  (** postcard round-trips a [Vec<FactValue>] (external crate, modelled). *)
  Hypothesis values_roundtrip : forall vs, deser_vals (ser_vals vs) = Some vs.

  Variable s : schema.
  Hypothesis Hs : schema_okb utf8 s = true.

  Definition enc (e : sfact) : list bytes * VB :=
    (ser_keys (mk_keys (key_names s) (fst e)), ser_vals (snd e)).
  (** the simulation relation: the stored entries of this fact name are the encodings of the
      specification store's facts, in the same order *)
  Definition R (sp : sstore) (st : St) : Prop :=
    flat st (s_name s) = map enc sp /\ sorted tcmp sp /\ Forall (fun e => sfact_okb utf8 s e = true) sp.

  Let names := key_names s.
  Definition ok_keys (ks : list hval) : Prop :=
    (length ks <= length (s_keys s))%nat /\ Forall (fun v => wf_hvalb utf8 v = true) ks.

  Lemma names_nodup : NoDup names.
  Proof. unfold schema_okb in Hs. apply andb_prop in Hs as [H _]. apply nodupb_spec; auto. Qed.
  Lemma names_ok : Forall (fun n => name_okb utf8 n = true) names.
  Proof. unfold schema_okb in Hs. apply andb_prop in Hs as [_ H]. apply forallb_forall' in H. auto. Qed.

  Lemma sfact_ok_keys e : sfact_okb utf8 s e = true -> ok_keys (fst e) /\ length (fst e) = length (s_keys s).
  Proof.
    unfold sfact_okb, ok_keys. intros H. apply andb_prop in H as [H1 H2].
    apply Nat.eqb_eq in H1. apply forallb_forall' in H2. repeat split; auto. lia.
  Qed.

  Lemma lit_ok_keys l : lit_okb utf8 s l = true -> ok_keys (l_keys l) /\ NoDup (map fst (l_vals l)).
  Proof.
    unfold lit_okb, ok_keys. intros H. repeat (apply andb_prop in H as [H ?]).
    repeat split; auto using keys_fit_length, nodupb_spec. apply forallb_forall'; auto.
  Qed.

  Lemma mono a b : ok_keys a -> ok_keys b ->
    kcmp (ser_keys (mk_keys names a)) (ser_keys (mk_keys names b)) = tcmp a b.
  Proof.
    intros [La Wa] [Lb Wb]. apply (ser_keys_cmp utf8); auto; unfold names; rewrite key_names_length; auto.
  Qed.

  Lemma mk_keys_wf ks : ok_keys ks -> Forall (fun k => wf_keyb utf8 k = true) (mk_keys names ks).
  Proof.
    intros [_ W]. pose proof names_ok as N. unfold mk_keys. revert ks W.
    induction N as [|n ns Hn _ IH]; intros [|k ks] W; cbn [combine]; constructor.
    - inv W. unfold wf_keyb, name_okb in *. cbn [fst snd]. rewrite Hn, H1. reflexivity.
    - inv W. auto.
  Qed.

  Notation F := (fun e : sfact => Some (row_of s e)).

  (** the VM's cursor over a key prefix = the spec store's facts with those leading keys, in order *)
  Lemma fact_query_rows sp st pk : R sp st -> ok_keys pk ->
    fact_query utf8 St VB st_prefix deser_vals st (s_name s) (mk_keys names pk)
    = map F (filter (fun e => is_prefix hval_cmp pk (fst e)) sp).
  Proof.
    intros [Hf [_ Hok]] Hpk. unfold fact_query. rewrite storage_prefix, Hf.
    clear Hf. induction Hok as [|e sp He _ IH]; cbn [map filter]; auto.
    apply sfact_ok_keys in He as [He Hlen].
    unfold enc at 1. cbn [fst].
    rewrite (prefix_respected utf8) by (destruct He, Hpk; auto; unfold names; rewrite key_names_length; auto; lia).
    destruct (is_prefix hval_cmp pk (fst e)); cbn [map]; auto.
    rewrite IH. f_equal. unfold enc. cbn [fst snd].
    rewrite (deser_ser_keys utf8) by (apply mk_keys_wf; auto). rewrite values_roundtrip. reflexivity.
  Qed.

  Lemma next_row_fst q (M : sfact -> bool) L :
    (forall e, In e L -> fact_match q (fst (row_of s e)) (snd (row_of s e)) = M e) ->
    fst (next_row q (map F L)) = option_map F (hd_error (filter M L)).
  Proof.
    induction L as [|e L IH]; intros H; cbn [map next_row filter]; auto.
    rewrite (H e) by (left; auto). destruct (M e); cbn; auto. apply IH. intros; apply H; right; auto.
  Qed.

  Lemma drain_spec q (M : sfact -> bool) L :
    (forall e, In e L -> fact_match q (fst (row_of s e)) (snd (row_of s e)) = M e) ->
    forall fuel, (length L < fuel)%nat ->
    drain fuel (q, map F L) = Ok (map (row_of s) (filter M L)).
  Proof.
    induction L as [|e L IH]; intros H fuel Hf.
    - destruct fuel; [lia|]. reflexivity.
    - destruct fuel as [|fu]; [cbn in Hf; lia|].
      assert (Hrest : forall e0, In e0 L -> fact_match q (fst (row_of s e0)) (snd (row_of s e0)) = M e0)
        by (intros; apply H; right; auto).
      cbn [drain]. unfold exec_query_next. cbn [fst snd map next_row filter].
      rewrite (H e) by (left; auto). destruct (M e) eqn:E.
      + cbn [map]. rewrite IH by (auto; cbn in Hf; lia). reflexivity.
      + specialize (IH Hrest (S fu)). cbn [drain] in IH. unfold exec_query_next in IH. cbn [fst snd] in IH.
        apply IH. cbn in Hf; lia.
  Qed.

  Lemma count_loop_spec q (M : sfact -> bool) limit L :
    (limit <= i64_max)%Z ->
    (forall e, In e L -> fact_match q (fst (row_of s e)) (snd (row_of s e)) = M e) ->
    forall c, count_loop q limit c (map F L)
              = Ok (Z.max c (Z.min limit (c + Z.of_nat (length (filter M L))))).
  Proof.
    intros Hlim. induction L as [|e L IH]; intros H c; cbn [map count_loop filter].
    - destruct (Z.ltb_spec c limit); f_equal; cbn; lia.
    - assert (Hrest : forall e0, In e0 L -> fact_match q (fst (row_of s e0)) (snd (row_of s e0)) = M e0)
        by (intros; apply H; right; auto).
      destruct (Z.ltb_spec c limit).
      + rewrite (H e) by (left; auto). destruct (M e).
        * destruct (Z.leb_spec (c + 1) i64_max); [|lia]. rewrite IH by auto. f_equal. cbn [length]. lia.
        * rewrite IH by auto. reflexivity.
      + f_equal. lia.
  Qed.

  Local Opaque two63.

  Definition Lq (l : lit) (sp : sstore) : list sfact := filter (fun e => is_prefix hval_cmp (l_keys l) (fst e)) sp.
  Definition Mq (l : lit) (e : sfact) : bool := vals_match (l_vals l) (snd e).
  Lemma spec_rows_eq sp l : spec_rows sp l = filter (Mq l) (Lq l sp).
  Proof. unfold spec_rows, Lq, Mq. rewrite filter_filter. reflexivity. Qed.

  Lemma match_rows l sp : lit_okb utf8 s l = true ->
    forall e, In e (Lq l sp) -> fact_match (lower_lit s l) (fst (row_of s e)) (snd (row_of s e)) = Mq l e.
  Proof.
    intros Hl e Hin. apply lit_ok_keys in Hl as [[Hlen _] Hnd].
    apply filter_In in Hin as [_ Hp]. unfold row_of, Mq. cbn [fst snd].
    apply fact_match_lowered; auto. apply names_nodup.
  Qed.

  Lemma lowered_query sp st l : R sp st -> lit_okb utf8 s l = true ->
    fact_query utf8 St VB st_prefix deser_vals st (f_name (lower_lit s l)) (f_keys (lower_lit s l)) = map F (Lq l sp).
  Proof.
    intros HR Hl. pose proof (lit_ok_keys _ Hl) as [[Hlen Hw] Hnd].
    rewrite lower_lit_name, lower_lit_keys by (auto; apply names_nodup).
    apply fact_query_rows; auto. split; auto.
  Qed.

  Lemma exec_query_spec sp st l : R sp st -> lit_okb utf8 s l = true ->
    exec_query utf8 St VB st_prefix deser_vals (Some s) st (lower_lit s l)
    = Ok (option_map (row_of s) (hd_error (spec_rows sp l))).
  Proof.
    intros HR Hl. unfold exec_query. rewrite (validate_lower_lit utf8) by auto. cbn [negb].
    rewrite (lowered_query sp) by auto.
    rewrite (next_row_fst _ (Mq l)) by (apply match_rows; auto).
    rewrite spec_rows_eq. destruct (hd_error (filter (Mq l) (Lq l sp))); reflexivity.
  Qed.

  Lemma exec_fact_count_spec sp st l limit : R sp st -> lit_okb utf8 s l = true -> (limit <= i64_max)%Z ->
    exec_fact_count utf8 St VB st_prefix deser_vals (Some s) st limit (lower_lit s l)
    = Ok (Z.max 0 (Z.min limit (Z.of_nat (length (spec_rows sp l))))).
  Proof.
    intros HR Hl Hlim. unfold exec_fact_count. rewrite (validate_lower_lit utf8) by auto. cbn [negb].
    rewrite (lowered_query sp) by auto.
    rewrite (count_loop_spec _ (Mq l)) by (auto; apply match_rows; auto).
    rewrite spec_rows_eq. reflexivity.
  Qed.

  Lemma exec_map_spec sp st l : R sp st -> lit_okb utf8 s l = true ->
    exec_map utf8 St VB st_prefix deser_vals (Some s) st (lower_lit s l) = Ok (map (row_of s) (spec_rows sp l)).
  Proof.
    intros HR Hl. unfold exec_map, exec_query_start. rewrite (validate_lower_lit utf8) by auto. cbn [negb].
    rewrite (lowered_query sp) by auto. cbn [snd].
    rewrite (drain_spec _ (Mq l)); [rewrite spec_rows_eq; reflexivity|apply match_rows; auto|].
    rewrite map_length. lia.
  Qed.

  Lemma in_i64_max n : in_i64b n = true -> (n <= i64_max)%Z.
  Proof. intros H. apply in_i64b_spec in H. unfold in_i64, i64_max in *. lia. Qed.

  Notation vstep := (vm_step utf8 St VB st_insert st_delete st_prefix ser_vals deser_vals).
  Notation vrun := (run utf8 St VB st_prefix deser_vals).

  (** [exists] = [Query; Const None; Eq; Not] *)
  Lemma exists_spec sp st l : R sp st -> lit_okb utf8 s l = true ->
    fst (vstep s st (OExists l)) = RBool (negb (is_nil (spec_rows sp l))).
  Proof.
    intros HR Hl. cbn [vm_step fst].
    change (compile_gs 0 exists_lowering) with (Ok [IQuery; IConstNone; IEq; INot]).
    cbn [run run_instr]. rewrite (exec_query_spec sp) by auto. cbn [run run_instr of_stack].
    destruct (spec_rows sp l); reflexivity.
  Qed.

  (** the counting functions, through [compile_counting_function]'s table *)
  Lemma count_spec sp st k n l : R sp st -> lit_okb utf8 s l = true -> in_i64b n = true ->
    fst (vstep s st (OCount k n l)) = fst (spec_step s sp (OCount k n l)).
  Proof.
    intros HR Hl Hn. pose proof (in_i64_max _ Hn) as Hmax.
    cbn [vm_step spec_step fst]. unfold compile_counting.
    destruct (Z.leb_spec n 0) as [Hle|Hpos]; [reflexivity|].
    set (c := Z.of_nat (length (spec_rows sp l))). assert (0 <= c)%Z by (unfold c; lia).
    destruct k.
    - change (find _ counting_table) with (Some (GUpTo, [GFactCount GLimit])).
      cbn [compile_gs compile_g run run_instr].
      rewrite (exec_fact_count_spec sp) by auto. cbn [run of_stack]. fold c. f_equal. lia.
    - change (find _ counting_table) with (Some (GAtLeast, [GFactCount GLimit; GConstLimit; GLt; GNot])).
      cbn [compile_gs compile_g run run_instr].
      rewrite (exec_fact_count_spec sp) by auto. cbn [run run_instr of_stack]. fold c. f_equal.
      destruct (Z.ltb_spec (Z.max 0 (Z.min n c)) n), (Z.leb_spec n c); cbn; auto; lia.
    - change (find _ counting_table) with (Some (GAtMost, [GFactCount GLimitPlus1; GConstLimit; GGt; GNot])).
      cbn [compile_gs compile_g].
      destruct (Z.leb_spec (n + 1) i64_max), (Z.eqb_spec n i64_max); try lia; [|reflexivity].
      cbn [run run_instr]. rewrite (exec_fact_count_spec sp) by (auto; lia). cbn [run run_instr of_stack]. fold c. f_equal.
      unfold Z.gtb. destruct (Z.compare_spec (Z.max 0 (Z.min (n + 1) c)) n), (Z.leb_spec c n); cbn; auto; lia.
    - change (find _ counting_table) with (Some (GExactly, [GFactCount GLimitPlus1; GConstLimit; GEq])).
      cbn [compile_gs compile_g].
      destruct (Z.leb_spec (n + 1) i64_max), (Z.eqb_spec n i64_max); try lia; [|reflexivity].
      cbn [run run_instr]. rewrite (exec_fact_count_spec sp) by (auto; lia). cbn [run run_instr of_stack sval_eqb]. fold c. f_equal.
      destruct (Z.eqb_spec (Z.max 0 (Z.min (n + 1) c)) n), (Z.eqb_spec c n); auto; lia.
  Qed.

  (** stores *)
  Lemma R_insert sp st ks vs : R sp st -> ok_keys ks -> length ks = length (s_keys s) ->
    R (sput tcmp ks vs sp) (st_insert st (s_name s) (ser_keys (mk_keys names ks)) (ser_vals vs)).
  Proof.
    intros [Hf [Hsrt Hok]] Hk Hlen. split; [|split].
    - rewrite storage_insert, beqb_refl, Hf.
      apply (sput_map_enc tcmp kcmp (fun k => ser_keys (mk_keys names k)) ser_vals ok_keys mono); auto.
      eapply Forall_impl; [|exact Hok]. intros e He. apply sfact_ok_keys in He. tauto.
    - apply (sorted_sput tcmp tcmp_laws); auto.
    - apply (Forall_sput tcmp); auto. unfold sfact_okb. cbn [fst]. destruct Hk as [_ Hw].
      rewrite Hlen, Nat.eqb_refl. apply forallb_forall' in Hw. rewrite Hw. reflexivity.
  Qed.

  Lemma R_delete sp st ks : R sp st -> ok_keys ks ->
    R (sdel tcmp ks sp) (st_delete st (s_name s) (ser_keys (mk_keys names ks))).
  Proof.
    intros [Hf [Hsrt Hok]] Hk. split; [|split].
    - rewrite storage_delete, beqb_refl, Hf.
      apply (sdel_map_enc tcmp kcmp (fun k => ser_keys (mk_keys names k)) ser_vals ok_keys mono); auto.
      eapply Forall_impl; [|exact Hok]. intros e He. apply sfact_ok_keys in He. tauto.
    - apply sorted_sdel; auto.
    - apply (Forall_sdel tcmp); auto.
  Qed.

  Lemma frame_insert st n k v n' : n' <> n -> flat (st_insert st n k v) n' = flat st n'.
  Proof. intros H. rewrite storage_insert. apply beqb_false in H. rewrite H. reflexivity. Qed.
  Lemma frame_delete st n k n' : n' <> n -> flat (st_delete st n k) n' = flat st n'.
  Proof. intros H. rewrite storage_delete. apply beqb_false in H. rewrite H. reflexivity. Qed.

  (** a full key selects at most the one fact with that key *)
  Lemma Lq_sget l sp : sorted tcmp sp -> Forall (fun e => sfact_okb utf8 s e = true) sp ->
    length (l_keys l) = length (s_keys s) ->
    Lq l sp = match sget tcmp (l_keys l) sp with Some v => [(l_keys l, v)] | None => [] end.
  Proof.
    intros Hsrt Hok Hlen. etransitivity; [|apply filter_key_sget; auto]. unfold Lq.
    eapply filter_ext_Forall; [exact Hok|]. intros e He. apply sfact_ok_keys in He as [_ He].
    apply is_prefix_full. lia.
  Qed.

  Theorem step_refines sp st o : R sp st -> op_okb utf8 s o = true ->
    fst (vstep s st o) = fst (spec_step s sp o)
    /\ R (snd (spec_step s sp o)) (snd (vstep s st o))
    /\ (forall n', n' <> s_name s -> flat (snd (vstep s st o)) n' = flat st n').
  Proof.
    intros HR Hop. destruct o as [l|l|k n l|l|l|l|l to]; cbn [op_okb] in Hop.
    - (* query *) cbn [vm_step spec_step fst snd]. rewrite (exec_query_spec sp) by auto. auto.
    - (* exists *) rewrite (exists_spec sp) by auto. cbn [vm_step spec_step fst snd]. auto.
    - (* counting *) apply andb_prop in Hop as [Hl Hn]. rewrite (count_spec sp) by auto.
      cbn [vm_step spec_step fst snd]. auto.
    - (* map *) cbn [vm_step spec_step fst snd]. rewrite (exec_map_spec sp) by auto. auto.
    - (* create *) apply andb_prop in Hop as [Hl Hfull]. apply Nat.eqb_eq in Hfull.
      pose proof (lit_ok_keys _ Hl) as [Hk Hnd].
      cbn [vm_step spec_step fst snd]. unfold exec_create, fact_insert.
      rewrite lower_lit_name, lower_lit_keys, lower_lit_vals by (auto using names_nodup; lia).
      split; [reflexivity|split]; [apply R_insert; auto|intros; apply frame_insert; auto].
    - (* delete *) apply andb_prop in Hop as [Hl Hfull]. apply Nat.eqb_eq in Hfull.
      pose proof (lit_ok_keys _ Hl) as [Hk Hnd].
      cbn [vm_step spec_step fst snd]. unfold exec_delete, fact_delete.
      rewrite lower_lit_name, lower_lit_keys by (auto using names_nodup; lia).
      split; [reflexivity|split]; [apply R_delete; auto|intros; apply frame_delete; auto].
    - (* update *) apply andb_prop in Hop as [Hl Hfull]. apply Nat.eqb_eq in Hfull.
      pose proof (lit_ok_keys _ Hl) as [Hk Hnd]. pose proof HR as [Hf [Hsrt Hok]].
      cbn [vm_step spec_step]. unfold exec_update.
      rewrite (lowered_query sp) by auto. rewrite Lq_sget by auto.
      rewrite lower_to_eq. cbn [f_name f_keys f_vals].
      rewrite lower_lit_name, lower_lit_keys, lower_lit_vals by (auto using names_nodup; lia).
      destruct (sget tcmp (l_keys l) sp) as [old|] eqn:Eg; cbn [map row_of fst snd].
      + destruct (l_vals l) as [|v0 vr] eqn:Ev; cbn [is_nil andb orb negb].
        * cbn [fst snd]. split; [reflexivity|split].
          -- unfold fact_insert, fact_delete.
             pose proof (R_insert _ _ (l_keys l) (fold_left (fun a kv => upd_assoc (fst kv) (snd kv) a) to [])
                           (R_delete _ _ (l_keys l) HR Hk) Hk Hfull) as HR'.
             rewrite (sput_sdel tcmp tcmp_laws) in HR' by auto. exact HR'.
          -- intros. unfold fact_insert, fact_delete. rewrite frame_insert, frame_delete; auto.
        * destruct (list_eqb fval_eqb (sort_vals old) (sort_vals (v0 :: vr))); cbn [negb fst snd].
          -- split; [reflexivity|split].
             ++ unfold fact_insert, fact_delete.
                pose proof (R_insert _ _ (l_keys l) (fold_left (fun a kv => upd_assoc (fst kv) (snd kv) a) to (v0 :: vr))
                              (R_delete _ _ (l_keys l) HR Hk) Hk Hfull) as HR'.
                rewrite (sput_sdel tcmp tcmp_laws) in HR' by auto. exact HR'.
             ++ intros. unfold fact_insert, fact_delete. rewrite frame_insert, frame_delete; auto.
          -- auto.
      + cbn [fst snd]. auto.
  Qed.
End Refine.

(** * Closed statements *)

(** Named component C12 ([facts_refine_flat]), as the three equations this development uses. *)
Definition storage_is_flat_map {St VB : Type}
  (st_insert : St -> bytes -> list bytes -> VB -> St) (st_delete : St -> bytes -> list bytes -> St)
  (st_prefix : St -> bytes -> list bytes -> list (list bytes * VB))
  (flat : St -> bytes -> list (list bytes * VB)) : Prop :=
  (forall st n p, st_prefix st n p = filter (fun e => is_prefix bcmp p (fst e)) (flat st n))
  /\ (forall st n k v n', flat (st_insert st n k v) n' = if beqb n' n then sput kcmp k v (flat st n') else flat st n')
  /\ (forall st n k n', flat (st_delete st n k) n' = if beqb n' n then sdel kcmp k (flat st n') else flat st n').

Definition vm_fact_ops_refine_stmt : Prop :=
  forall (utf8 : bytes -> bool) (St VB : Type) st_insert st_delete st_prefix
         (ser_vals : list fval -> VB) (deser_vals : VB -> option (list fval)) flat,
  storage_is_flat_map st_insert st_delete st_prefix flat ->
  (forall vs, deser_vals (ser_vals vs) = Some vs) ->
  forall s, schema_okb utf8 s = true ->
  forall sp st, R utf8 St VB ser_vals flat s sp st ->
  forall o, op_okb utf8 s o = true ->
    let vm := vm_step utf8 St VB st_insert st_delete st_prefix ser_vals deser_vals s st o in
    let spec := spec_step s sp o in
    fst vm = fst spec
    /\ R utf8 St VB ser_vals flat s (snd spec) (snd vm)
    /\ (forall n', n' <> s_name s -> flat (snd vm) n' = flat st n').

Lemma vm_fact_ops_refine_proof : vm_fact_ops_refine_stmt.
Proof.
  intros utf8 St VB ins del pre ser deser flat [H1 [H2 H3]] Hc s Hs sp st HR o Ho.
  cbv zeta. eapply step_refines; eauto.
Qed.

(** All histories: any sequence of policy fact operations from related stores. *)
Definition vm_fact_history_refine_stmt : Prop :=
  forall (utf8 : bytes -> bool) (St VB : Type) st_insert st_delete st_prefix
         (ser_vals : list fval -> VB) (deser_vals : VB -> option (list fval)) flat,
  storage_is_flat_map st_insert st_delete st_prefix flat ->
  (forall vs, deser_vals (ser_vals vs) = Some vs) ->
  forall s, schema_okb utf8 s = true ->
  forall os, Forall (fun o => op_okb utf8 s o = true) os ->
  forall sp st, R utf8 St VB ser_vals flat s sp st ->
    let vm := vm_run utf8 St VB st_insert st_delete st_prefix ser_vals deser_vals s st os in
    let spec := spec_run s sp os in
    fst vm = fst spec /\ R utf8 St VB ser_vals flat s (snd spec) (snd vm).

Lemma vm_fact_history_refine_proof : vm_fact_history_refine_stmt.
Proof.
  intros utf8 St VB ins del pre ser deser flat Hst Hc s Hs os Hos. cbv zeta.
  induction Hos as [|o os Ho _ IH]; intros sp st HR; cbn [vm_run spec_run]; auto.
  destruct (vm_fact_ops_refine_proof utf8 St VB ins del pre ser deser flat Hst Hc s Hs sp st HR o Ho) as [E1 [HR' _]].
  destruct (vm_step utf8 St VB ins del pre ser deser s st o) as [x st'].
  destruct (spec_step s sp o) as [y sp']. cbn [fst snd] in *.
  specialize (IH sp' st' HR').
  destruct (vm_run utf8 St VB ins del pre ser deser s st' os) as [xs st''].
  destruct (spec_run s sp' os) as [ys sp'']. cbn [fst snd] in *. destruct IH. split; congruence.
Qed.

(** What the specification store's query means. *)
Definition spec_rows_meaning_stmt : Prop :=
  forall (sp : sstore) (l : lit),
  (forall e, In e (spec_rows sp l) <->
      In e sp /\ (exists rest, fst e = l_keys l ++ rest)
      /\ (forall n v, In (n, v) (l_vals l) -> exists v', lookup n (snd e) = Some v' /\ value_eqb (snd v') v = true))
  /\ (sorted tcmp sp -> sorted tcmp (spec_rows sp l))
  /\ spec_rows sp l = filter (fun e => is_prefix hval_cmp (l_keys l) (fst e) && vals_match (l_vals l) (snd e)) sp.

Lemma spec_rows_meaning_proof : spec_rows_meaning_stmt.
Proof.
  intros sp l. split; [|split]; try reflexivity.
  - intros e. unfold spec_rows. rewrite filter_In, andb_true_iff, (is_prefix_app _ hval_cmp_laws).
    unfold vals_match. rewrite forallb_forall. split.
    + intros [Hin [Hp Hv]]. repeat split; auto. intros n v Hnv. specialize (Hv _ Hnv). cbn [fst snd] in Hv.
      destruct (lookup n (snd e)) as [v'|]; [|discriminate]. eauto.
    + intros [Hin [Hp Hv]]. repeat split; auto. intros [n v] Hnv. cbn [fst snd].
      destruct (Hv _ _ Hnv) as [v' [-> E]]. auto.
  - intros S. apply sorted_filter; auto.
Qed.

(** * The concrete flat store is an instance of the storage component *)
Lemma bcmp_eqb_beqb a b : cmp_eqb bcmp a b = beqb a b.
Proof.
  destruct (beqb a b) eqn:E.
  - apply beqb_spec in E. subst. apply (cmp_eqb_refl _ bcmp_laws).
  - apply (cmp_eqb_false _ bcmp_laws). apply beqb_false; auto.
Qed.

Lemma lstore_flat_map VB : storage_is_flat_map (l_insert VB) (l_delete VB) (l_prefix VB) (l_flat VB).
Proof.
  split; [|split].
  - reflexivity.
  - intros st n k v n'. unfold l_insert. unfold l_flat at 1. rewrite (sget_sput bcmp bcmp_laws), bcmp_eqb_beqb.
    destruct (beqb n' n) eqn:E; auto. apply beqb_spec in E; subst; auto.
  - intros st n k n'. unfold l_delete. unfold l_flat at 1. rewrite (sget_sput bcmp bcmp_laws), bcmp_eqb_beqb.
    destruct (beqb n' n) eqn:E; auto. apply beqb_spec in E; subst; auto.
Qed.

(** * Non-vacuity and the repaired defect *)
Definition ex_utf8 (b : bytes) : bool := true.
Definition ex_schema : schema :=
  {| s_name := [70]; s_keys := [([97], TInt); ([98], TString)]; s_vals := [([118], TInt); ([119], TBool)] |}.
Definition ex_lit (ks : list hval) (vs : list fval) : lit := {| l_keys := ks; l_vals := vs |}.
Definition ex_ops : list op :=
  [ OCreate (ex_lit [HInt 1; HString [97]] [([118], VInt 5); ([119], VBool true)]);
    OCreate (ex_lit [HInt 1; HString [97; 98]] [([118], VInt 6); ([119], VBool false)]);
    OCreate (ex_lit [HInt 1; HString []] [([118], VInt 5); ([119], VBool false)]);
    OCreate (ex_lit [HInt (-1); HString [122]] [([118], VInt 5); ([119], VBool true)]);
    OMap (ex_lit [HInt 1] []);
    OMap (ex_lit [HInt 1] [([118], VInt 5)]);
    OQuery (ex_lit [HInt 1] [([118], VInt 6)]);
    OCount GUpTo 2 (ex_lit [HInt 1] []);
    OCount GAtLeast 2 (ex_lit [HInt 1] [([118], VInt 5)]);
    OCount GAtMost 2 (ex_lit [] []);
    OCount GExactly 4 (ex_lit [] []);
    OExists (ex_lit [HInt 7] []);
    OUpdate (ex_lit [HInt 1; HString [97]] [([118], VInt 5); ([119], VBool true)]) [([118], VInt 9); ([119], VBool true)];
    OUpdate (ex_lit [HInt 1; HString [97]] [([118], VInt 5); ([119], VBool true)]) [([118], VInt 9); ([119], VBool true)];
    ODelete (ex_lit [HInt (-1); HString [122]] []);
    OMap (ex_lit [] []) ].
Definition ex_vm_run (os : list op) :=
  vm_run ex_utf8 (lstore (list fval)) (list fval) (l_insert _) (l_delete _) (l_prefix _) (fun v => v) Some ex_schema [] os.

Example vm_fact_ops_nonvacuous :
  schema_okb ex_utf8 ex_schema = true
  /\ forallb (op_okb ex_utf8 ex_schema) ex_ops = true
  /\ R ex_utf8 (lstore (list fval)) (list fval) (fun v => v) (l_flat _) ex_schema [] []
  /\ fst (ex_vm_run ex_ops) = fst (spec_run ex_schema [] ex_ops)
  /\ map (fun r => match r with RRows l => length l | _ => 99%nat end)
         (fst (ex_vm_run ex_ops)) = [99; 99; 99; 99; 3; 2; 99; 99; 99; 99; 99; 99; 99; 99; 99; 3]%nat
  /\ nth 13 (fst (ex_vm_run ex_ops)) RUnit = RErr EInvalidFact.
Proof.
  split; [reflexivity|]. split; [reflexivity|]. split.
  { split; [reflexivity|]. split; constructor. }
  split; [vm_compute; reflexivity|]. split; vm_compute; reflexivity.
Qed.

(** Before the repair ([QueryNext] = [iter.next()]) [map] ignored the literal's value fields:
    the witness below is the input replayed on the real code (known_findings.d/F29M.json). *)
Definition exec_map_unfiltered utf8 St VB st_prefix deser_vals (def : option schema) (st : St) (f : fact) :=
  match exec_query_start utf8 St VB st_prefix deser_vals def st f with
  | Err e => Err e
  | Ok c => drain_unfiltered (S (length (snd c))) c
  end.
Lemma map_unfiltered_refuted :
  exists (s : schema) (os : list op) (l : lit),
    schema_okb ex_utf8 s = true /\ forallb (op_okb ex_utf8 s) os = true /\ lit_okb ex_utf8 s l = true
    /\ let st := snd (vm_run ex_utf8 (lstore (list fval)) (list fval) (l_insert _) (l_delete _) (l_prefix _) (fun v => v) Some s [] os) in
       let sp := snd (spec_run s [] os) in
       exec_map_unfiltered ex_utf8 _ _ (l_prefix _) Some (Some s) st (lower_lit s l)
       <> Ok (map (row_of s) (spec_rows sp l)).
Proof.
  exists ex_schema, (firstn 3 ex_ops), (ex_lit [HInt 1] [([118], VInt 5)]).
  split; [reflexivity|]. split; [reflexivity|]. split; [reflexivity|].
  vm_compute. discriminate.
Qed.
