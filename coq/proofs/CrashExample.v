(** C15 non-vacuity: the hypotheses of [crash_recovery] are satisfiable.

    A concrete checksum (a 32-bit polynomial hash, standing in for SipHash-2-4) and a
    concrete three-commit workload for which [tear_free] holds: for every root-record
    write of the run, every bytewise mix of the old slot contents and the new record is
    enumerated and checked ([tear_ok_dec], by [vm_compute]). *)
From Aranya Require Import base.Tactics gen.GenCrash model.Crash proofs.CrashBase proofs.CrashInv proofs.CrashProofs.
Open Scope Z_scope.

(** * Deciding [tear_ok] by enumeration *)

Definition window (img : image) (slot : Z) (n : nat) : list N :=
  map (fun i => ibyte img (slot + Z.of_nat i)) (seq 0 n).

Lemma window_length img slot n : length (window img slot n) = n.
Proof. unfold window. rewrite map_length, seq_length. reflexivity. Qed.

Lemma nth_map_seq (f : nat -> N) n i d : (i < n)%nat -> nth i (map f (seq 0 n)) d = f i.
Proof.
  intros H. rewrite (nth_indep _ d (f 0%nat)) by (rewrite map_length, seq_length; lia).
  rewrite map_nth. rewrite seq_nth by lia. reflexivity.
Qed.

Lemma window_nth img slot n i : (i < n)%nat -> nth i (window img slot n) 0%N = ibyte img (slot + Z.of_nat i).
Proof. intros H. unfold window. rewrite nth_map_seq by lia. reflexivity. Qed.

(** All lists that agree position-wise with [old] or with [new]. *)
Fixpoint mixes (old new : list N) : list (list N) :=
  match old, new with
  | o :: old', n :: new' =>
    let rest := mixes old' new' in
    if (o =? n)%N then map (cons o) rest else map (cons o) rest ++ map (cons n) rest
  | _, _ => [[]]
  end.

Lemma mixes_complete : forall old new l,
  length new = length old -> length l = length old ->
  (forall i, (i < length old)%nat -> nth i l 0%N = nth i old 0%N \/ nth i l 0%N = nth i new 0%N) ->
  In l (mixes old new).
Proof.
  induction old as [|o old IH]; intros new l Hn Hl Hm.
  - destruct l; [left; reflexivity | discriminate].
  - destruct new as [|n new]; [discriminate|]. destruct l as [|x l]; [discriminate|].
    cbn [mixes]. cbn [length] in *.
    assert (Hrest : In l (mixes old new)).
    { apply IH; try lia. intros i Hi. apply (Hm (S i)). lia. }
    destruct (Hm 0%nat ltac:(lia)) as [E|E]; cbn [nth] in E; subst x.
    + destruct (o =? n)%N; [|apply in_or_app; left]; apply in_map; auto.
    + destruct (o =? n)%N eqn:Eq.
      * apply N.eqb_eq in Eq. subst. apply in_map; auto.
      * apply in_or_app; right. apply in_map; auto.
Qed.

Definition img_of_window (slot : Z) (l : list N) : image :=
  let n := zlen l in
  {| isize := FREE_START;
     ibyte := fun x => if (slot <=? x) && (x <? slot + n) then nth (Z.to_nat (x - slot)) l 0%N else 0%N |}.

Definition sane_list (l : list N) : bool :=
  match l with
  | a :: b :: c :: d :: _ => (a =? 0)%N && (b =? 0)%N && (c =? 0)%N && (d <=? 255)%N
  | _ => false
  end.

Definition opt_N_eqb (a b : option N) : bool :=
  match a, b with Some x, Some y => (x =? y)%N | None, None => true | _, _ => false end.
Definition root_eqb (a b : root) : bool :=
  (generation a =? generation b)%N && opt_N_eqb (heads a) (heads b) && opt_N_eqb (fact_cache a) (fact_cache b)
  && (free_offset a =? free_offset b) && (checksum a =? checksum b)%N.
Definition opt_root_eqb (a b : option root) : bool :=
  match a, b with Some x, Some y => root_eqb x y | None, None => true | _, _ => false end.

Lemma opt_N_eqb_eq a b : opt_N_eqb a b = true -> a = b.
Proof. destruct a, b; cbn; intros H; try discriminate; auto. apply N.eqb_eq in H. subst; auto. Qed.
Lemma root_eqb_eq a b : root_eqb a b = true -> a = b.
Proof.
  unfold root_eqb. intros H. repeat (apply andb_prop in H; destruct H as [H ?]).
  destruct a, b; cbn in *. apply N.eqb_eq in H. apply opt_N_eqb_eq in H3. apply opt_N_eqb_eq in H2.
  apply Z.eqb_eq in H1. apply N.eqb_eq in H0. subst. reflexivity.
Qed.
Lemma opt_root_eqb_eq a b : opt_root_eqb a b = true -> a = b.
Proof. destruct a, b; cbn; intros H; try discriminate; auto. apply root_eqb_eq in H. subst; auto. Qed.

Section Dec.
Variable sip : list N -> N.

Definition lv_list (slot : Z) (l : list N) : option root := load_valid sip (img_of_window slot l) slot.

Definition new_window (D0 : image) (slot : Z) (R : list N) (n : nat) : list N :=
  map (fun i => if (i <? length R)%nat then nth i R 0%N else ibyte D0 (slot + Z.of_nat i)) (seq 0 n).

Definition tear_check (D0 : image) (slot : Z) (r : root) : bool :=
  let old := window D0 slot 260 in
  let new := new_window D0 slot (rec (ser_root r)) 260 in
  (FREE_START <=? isize D0) && ((slot =? ROOT_A) || (slot =? ROOT_B))
  && (let vold := lv_list slot old in
      forallb (fun l => sane_list l
                        && (let v := lv_list slot l in
                            opt_root_eqb v (Some r) || opt_root_eqb v vold || opt_root_eqb v None))
              (mixes old new)).

Lemma lv_window img slot :
  (slot = ROOT_A \/ slot = ROOT_B) -> FREE_START <= isize img -> sane_list (window img slot 260) = true ->
  load_valid sip img slot = lv_list slot (window img slot 260).
Proof.
  intros Hs Hsz Hsane. unfold lv_list. symmetry.
  assert (Hb : forall x, slot <= x < slot + 260 ->
            ibyte (img_of_window slot (window img slot 260)) x = ibyte img x).
  { intros x Hx. cbn [img_of_window ibyte]. unfold zlen. rewrite window_length.
    replace ((slot <=? x) && (x <? slot + Z.of_nat 260)) with true by lia.
    rewrite window_nth by lia. f_equal. lia. }
  apply lv_ext; auto; cbn [img_of_window isize]; try (destruct Hs as [-> | ->]; consts; lia).
  unfold slot_sane.
  pose proof (window_nth img slot 260 0 ltac:(lia)) as W0. pose proof (window_nth img slot 260 1 ltac:(lia)) as W1.
  pose proof (window_nth img slot 260 2 ltac:(lia)) as W2. pose proof (window_nth img slot 260 3 ltac:(lia)) as W3.
  destruct (window img slot 260) as [|a [|b [|c [|d t]]]]; try discriminate.
  cbn [sane_list nth] in *. cbn in W0, W1, W2, W3. rewrite Z.add_0_r in W0.
  rewrite <- W0, <- W1, <- W2, <- W3.
  repeat (apply andb_prop in Hsane; destruct Hsane as [Hsane ?]).
  apply N.eqb_eq in Hsane. apply N.eqb_eq in H1. apply N.eqb_eq in H0. apply N.leb_le in H.
  subst. repeat split; auto.
Qed.

Lemma tear_ok_dec D0 slot r : tear_check D0 slot r = true -> tear_ok sip D0 slot r.
Proof.
  unfold tear_check. intros H.
  apply andb_prop in H. destruct H as [H Hall]. apply andb_prop in H. destruct H as [Hsz Hslot].
  assert (Hs : slot = ROOT_A \/ slot = ROOT_B) by lia.
  assert (HF : FREE_START <= isize D0) by lia.
  rewrite forallb_forall in Hall.
  set (R := rec (ser_root r)) in *.
  set (old := window D0 slot 260) in *. set (new := new_window D0 slot R 260) in *.
  assert (Hmix : forall img', mix_of D0 slot R img' -> In (window img' slot 260) (mixes old new)).
  { intros img' [_ Hm]. apply mixes_complete.
    - unfold new, old, new_window. rewrite map_length, seq_length, window_length. reflexivity.
    - unfold old. rewrite !window_length. reflexivity.
    - unfold old. rewrite window_length. intros i Hi. rewrite !window_nth by lia.
      unfold new, new_window. rewrite nth_map_seq by lia.
      destruct (Hm (slot + Z.of_nat i) ltac:(lia)) as [E|[Hr E]]; auto.
      right. rewrite E. replace (Z.to_nat (slot + Z.of_nat i - slot)) with i by lia.
      replace (i <? length R)%nat with true by (unfold zlen in Hr; lia). reflexivity. }
  (* the old image is itself a mix *)
  assert (Hold : mix_of D0 slot R D0) by (split; auto).
  pose proof (Hall _ (Hmix _ Hold)) as Ho. apply andb_prop in Ho. destruct Ho as [Hsane0 _].
  intros img' Hm.
  pose proof (Hall _ (Hmix _ Hm)) as Hc. apply andb_prop in Hc. destruct Hc as [Hsane Hc].
  destruct Hm as [HF' Hm'].
  rewrite (lv_window img' slot Hs HF' Hsane). rewrite (lv_window D0 slot Hs HF Hsane0). fold old.
  apply orb_prop in Hc. destruct Hc as [Hc|Hc]; [apply orb_prop in Hc; destruct Hc as [Hc|Hc]|];
    apply opt_root_eqb_eq in Hc; auto.
Qed.

End Dec.

(** * A concrete instance *)

Definition toy_sip (l : list N) : N :=
  (fold_left (fun h b => N.land (h * 16777619 + b + 1) 4294967295) l 2166136261 mod 4294967296)%N.

Lemma toy_sip_range : forall l, (toy_sip l <= u64_max)%N.
Proof.
  intros l. unfold toy_sip.
  pose proof (N.mod_lt (fold_left (fun h b => N.land (h * 16777619 + b + 1) 4294967295) l 2166136261) 4294967296 ltac:(lia))%N.
  unfold u64_max. lia.
Qed.

Definition example_ops : list op :=
  [OAppend [1; 2; 3]%N; OCommit [9; 9]%N 5%N; OAppend [7]%N; OCommit []%N 300%N; OCommit [4]%N 70000%N].

(** [P pre suf] for every split [l = pre ++ suf] with [suf] non-empty. *)
Fixpoint forall_splits (P : list ev -> list ev -> Prop) (pre l : list ev) : Prop :=
  match l with
  | [] => True
  | x :: rest => P pre (x :: rest) /\ forall_splits P (pre ++ [x]) rest
  end.

Lemma forall_splits_spec P : forall l pre0,
  forall_splits P pre0 l -> forall pre x rest, l = pre ++ x :: rest -> P (pre0 ++ pre) (x :: rest).
Proof.
  induction l as [|y l IH]; intros pre0 H pre x rest He.
  - destruct pre; discriminate.
  - destruct H as [H0 H1]. destruct pre as [|p pre]; cbn [app] in He.
    + inversion He; subst. rewrite app_nil_r. exact H0.
    + inversion He; subst. specialize (IH _ H1 pre x rest eq_refl).
      rewrite <- app_assoc in IH. exact IH.
Qed.

Definition tear_at (pre suf : list ev) : Prop :=
  match suf with
  | ERootBegin r :: ESys (SPwrite slot _) :: _ => tear_check toy_sip (view (D Fresh pre)) slot r = true
  | _ => True
  end.

Example example_tear_free : tear_free toy_sip Fresh example_ops.
Proof.
  assert (H : forall_splits tear_at [] (epoch_events toy_sip Fresh example_ops)).
  { vm_compute. repeat split. }
  intros pre r slot p rest He.
  pose proof (forall_splits_spec _ _ _ H pre _ _ He) as Ht. cbn [app tear_at] in Ht.
  apply tear_ok_dec. exact Ht.
Qed.

(** The hypotheses of [crash_recovery] hold for this instance, and the instance is not
    trivial: the run performs three commits into alternating slots. *)
Example crash_recovery_hypotheses_satisfiable :
  (forall l, (toy_sip l <= u64_max)%N)
  /\ Forall op_typed example_ops
  /\ tear_free toy_sip Fresh example_ops
  /\ map (fun r => (generation r, free_offset r))
         (flat_map (fun e => match e with ECommitted r => [r] | _ => [] end) (epoch_events toy_sip Fresh example_ops))
     = [(1%N, 12301); (2%N, 12310); (3%N, 12315)]
  /\ flat_map (fun e => match e with ESys (SPwrite off _) => if off <? FREE_START then [off] else [] | _ => [] end)
              (epoch_events toy_sip Fresh example_ops)
     = [4096; 4100; 8192; 8196; 4096; 4100].
Proof.
  split; [exact toy_sip_range|].
  split; [unfold example_ops; repeat (apply Forall_cons; [cbn; unfold u64_max; try lia; exact I|]); apply Forall_nil|].
  split; [exact example_tear_free|]. split; vm_compute; reflexivity.
Qed.
