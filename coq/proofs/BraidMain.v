(** The theorems about the braid model [braid_L1] (C02, C03). *)
From Aranya Require Import base.Tactics model.Dag model.Braid
  proofs.BraidDag proofs.BraidKey proofs.BraidSpec proofs.BraidLca proofs.BraidCount proofs.BraidRefine.

(** C02: for ANY non-empty list of heads (no antichain hypothesis: the
    repaired braid handles comparable and duplicate heads). *)
Definition braid_exactly_once_stmt : Prop :=
  forall (g : graph) (hs : list N) (base : N) (order : list N),
    wf_graph g -> single_root g -> hs <> [] -> incl hs (ids g) ->
    braid_L1 g hs = BOk base order ->
    NoDup order
    /\ (exists h, In h hs /\ anc g base h)
    /\ (forall c, In c order ->
          is_merge_id g c = false /\ (exists h, In h hs /\ anc g c h) /\ ~ anc g c base)
    /\ (forall x h, In h hs -> anc g x h -> is_merge_id g x = false -> In x order \/ anc g x base)
    /\ (forall a c, In a order -> In c order -> anc g a c -> a <> c -> before a c order).

Lemma braid_exactly_once_proof : braid_exactly_once_stmt.
Proof.
  intros g hs base order Hwf Hsr Hne Hin H.
  rewrite braid_refines_spec_proof in H by auto.
  destruct (spec_result_props g hs Hwf base order H) as [P1 [P2 [P3 [P4 [P5 P6]]]]].
  split; [auto|split; [|split; [|split]]]; auto.
  - apply closure_spec in P2; auto.
  - intros c Hc. destruct (P4 c Hc) as [Q1 [Q2 Q3]]. apply closure_spec in Q2; auto.
  - intros x h Hh Hx Hm. apply P5; auto. apply closure_spec; auto. eauto.
Qed.

(** The braid of a well-formed graph never ends in the internal-error state. *)
Definition braid_total_stmt : Prop :=
  forall (g : graph) (hs : list N),
    wf_graph g -> single_root g -> hs <> [] -> incl hs (ids g) -> braid_L1 g hs <> BBug.

Lemma braid_total_proof : braid_total_stmt.
Proof.
  intros g hs Hwf Hsr Hne Hin. rewrite braid_refines_spec_proof by auto. apply spec_total; auto.
Qed.

(** Independence of the storage layout: whatever the same-segment oracle
    answers (soundly), the result is the one of [braid_L1], which mentions no
    segment, skip list or spill threshold. *)
Definition layout_independent_stmt : Prop :=
  forall (ss1 ss2 : N -> N -> bool) (g : graph) (hs : list N),
    wf_graph g -> single_root g -> hs <> [] -> incl hs (ids g) ->
    (forall x o, ss1 x o = true -> anc g x o) -> (forall x o, ss2 x o = true -> anc g x o) ->
    braid_gen ss1 g hs = braid_gen ss2 g hs.

Lemma layout_independent_proof : layout_independent_stmt.
Proof.
  intros ss1 ss2 g hs Hwf Hsr Hne Hin H1 H2.
  rewrite !braid_gen_refines_spec_proof; auto.
Qed.

(** Fact states: the braid state equals the reference braid state, for every policy. *)
Section States.
  Variable facts : Type.
  Variable eval : cmd -> facts -> outcome facts.
  Variable empty : facts.

  Lemma wf_parents_in c r p : wf_graph (c :: r) -> In p (parents c) -> In p (ids r).
  Proof. intros [_ [_ H]]; auto. Qed.

  Lemma state_at_spec_eq g : wf_graph g -> single_root g -> forall i,
    state_at facts eval empty g i = spec_state_at facts eval empty g i.
  Proof.
    unfold state_at, spec_state_at.
    induction g as [|c r IH]; intros Hwf Hsr i; cbn [state_at_with]; auto.
    assert (Hwr : wf_graph r) by (eapply wf_tail; eauto).
    assert (Hsrr : single_root r) by (eapply single_root_tail; eauto).
    destruct (cid c =? i)%N; [|apply IH; auto].
    destruct (cpar c) as [|p|a b] eqn:Ep; auto.
    - rewrite IH by auto. reflexivity.
    - rewrite braid_refines_spec_proof; auto.
      + destruct (braid_spec r [a; b]); auto. rewrite IH by auto. reflexivity.
      + discriminate.
      + intros x [<-|[<-|[]]]; apply (wf_parents_in c r); auto; unfold parents; rewrite Ep; cbn; auto.
  Qed.

  Theorem braid_state_spec_eq g hs : wf_graph g -> single_root g -> hs <> [] -> incl hs (ids g) ->
    braid_state facts eval empty g hs = spec_braid_state facts eval empty g hs.
  Proof.
    intros Hwf Hsr Hne Hin. unfold braid_state, spec_braid_state, braid_state_with.
    rewrite braid_refines_spec_proof by auto. destruct (braid_spec g hs); auto.
    fold (state_at facts eval empty g base). fold (spec_state_at facts eval empty g base).
    rewrite state_at_spec_eq by auto. reflexivity.
  Qed.
End States.

Definition braid_state_refines_spec_stmt : Prop :=
  forall (facts : Type) (eval : cmd -> facts -> outcome facts) (empty : facts) (g : graph) (hs : list N),
    wf_graph g -> single_root g -> hs <> [] -> incl hs (ids g) ->
    braid_state facts eval empty g hs = spec_braid_state facts eval empty g hs.

Lemma braid_state_refines_spec_proof : braid_state_refines_spec_stmt.
Proof. unfold braid_state_refines_spec_stmt. intros. apply braid_state_spec_eq; auto. Qed.

(** * Non-vacuity and the refuted statement for the unrepaired algorithm *)

Definition C (i : N) (p : prio) (par : prior) : cmd := {| cid := i; cprio := p; cpar := par; cbody := 0 |}.

(** test_simple of transaction.rs: a; a<b; a<c; b c<ma; b<d; ma d<mb. *)
Definition g_simple : graph :=
  [C 101 PMerge (PMerge2 100 4); C 4 (PBasic 4) (PSingle 2); C 100 PMerge (PMerge2 2 3);
   C 3 (PBasic 3) (PSingle 1); C 2 (PBasic 2) (PSingle 1); C 1 PInit PNone]%N.

Lemma single_root_b g : (length (filter (fun c => match cpar c with PNone => true | _ => false end) g) <=? 1) = true -> single_root g.
Proof.
  intros H c1 c2 H1 H2 E1 E2. apply Nat.leb_le in H.
  destruct (N.eq_dec (cid c1) (cid c2)) as [|Hne]; auto. exfalso.
  set (f := fun c => match cpar c with PNone => true | _ => false end) in *.
  assert (Hinc : incl [c1; c2] (filter f g)).
  { intros y [<-|[<-|[]]]; apply filter_In; split; auto; unfold f; [rewrite E1|rewrite E2]; auto. }
  destruct (filter f g) as [|a [|b l]] eqn:Ef; cbn [length] in H; try lia.
  - apply (Hinc c1). cbn; auto.
  - assert (A1 : In c1 [a]) by (apply Hinc; cbn; auto). assert (A2 : In c2 [a]) by (apply Hinc; cbn; auto).
    destruct A1 as [<-|[]]. destruct A2 as [<-|[]]. congruence.
Qed.

Example braid_example :
  wf_graph g_simple /\ single_root g_simple
  /\ braid_L1 g_simple [100; 4]%N = BOk 4%N [3]%N
  /\ braid_L1 g_simple [2; 3]%N = BOk 3%N [2]%N.
Proof.
  split; [apply wf_graphb_spec; vm_compute; reflexivity|].
  split; [apply single_root_b; vm_compute; reflexivity|].
  split; vm_compute; reflexivity.
Qed.

(** The braid as it was before the repair (F7): every head is pushed as a
    strand without consulting the cut-off or the convergence map. *)
Definition braid_unrepaired (g : graph) (hs : list N) : bres :=
  match last_common_ancestor g hs with
  | None => BBug
  | Some lca =>
    let L := max_cut g lca in
    let s0 := {| heap := []; hasfin := false; conv := conv_init g L hs; out := [] |} in
    match fold_left (fun s h => match s with Some s => push_strand g s h | None => None end) hs (Some s0) with
    | None => BParFin
    | Some s1 => braid_loop (fun _ _ => false) g L (S (length g)) s1
    end
  end.

(** init -> a -> b, M = merge(a, b): [a] is applied on top of the state of
    [b], which already contains it. *)
Definition g_f7 : graph := [C 3 (PBasic 3) (PSingle 2); C 2 (PBasic 2) (PSingle 1); C 1 PInit PNone]%N.

Definition braid_comparable_heads_refuted_stmt : Prop :=
  exists (g : graph) (hs : list N) (base : N) (order : list N),
    wf_graph g /\ single_root g /\ hs <> [] /\ incl hs (ids g)
    /\ braid_unrepaired g hs = BOk base order
    /\ exists c, In c order /\ anc g c base.

Lemma braid_comparable_heads_refuted_proof : braid_comparable_heads_refuted_stmt.
Proof.
  exists g_f7, [2; 3]%N, 3%N, [2]%N.
  split; [apply wf_graphb_spec; vm_compute; reflexivity|].
  split; [apply single_root_b; vm_compute; reflexivity|].
  split; [discriminate|].
  split; [intros x [<-|[<-|[]]]; vm_compute; auto|].
  split; [vm_compute; reflexivity|].
  exists 2%N. split; [cbn; auto|].
  apply ancb_spec; [apply wf_graphb_spec; vm_compute; reflexivity|vm_compute; reflexivity].
Qed.

(** ... while the repaired braid returns the state of [b] and applies nothing. *)
Example braid_comparable_heads_repaired : braid_L1 g_f7 [2; 3]%N = BOk 3%N [].
Proof. vm_compute. reflexivity. Qed.
