(** Soundness, completeness and termination of the backward searches
    ([search_queued], [get_location], [get_location_from], [is_ancestor]) on
    stores satisfying [store_ok]. *)
From Aranya Require Import base.Tactics gen.GenQueue model.TravQueue model.SegStore
  proofs.TravQueueVec proofs.TravQueueMoves proofs.TravQueueSpec proofs.TravQueueProofs
  proofs.SegStoreGraph.

(** * What searches need from the queue (consequences of C21's refinement) *)
Lemma entries_absq q : entries q = map fst (absq q).
Proof. unfold absq. now rewrite map_fst_tag. Qed.

Lemma in_entries_absq q x : In x (entries q) <-> exists b, In (x, b) (absq q).
Proof.
  rewrite entries_absq, in_map_iff. split.
  - intros ([y b] & <- & H). exists b. exact H.
  - intros [b H]. exists (x, b). auto.
Qed.

(** [x] is in the queue, possibly raised to a later command of its segment *)
Definition covers (q : queue) (x : loc) : Prop :=
  exists x2, In x2 (entries q) /\ lseg x2 = lseg x /\ (lmc x <= lmc x2)%N.

Lemma covers_self q x : In x (entries q) -> covers q x.
Proof. intro. exists x. repeat split; auto. lia. Qed.

Lemma covers_mono q q' x : covers q x -> (forall y, In y (entries q) -> covers q' y) -> covers q' x.
Proof.
  intros (x2 & H1 & H2 & H3) H. destruct (H x2 H1) as (x3 & G1 & G2 & G3).
  exists x3. repeat split; auto; [congruence|lia].
Qed.

Lemma push_locs q l :
  rep_ok q -> uniq_q q ->
  exists q', push q l = Ok q' /\ rep_ok q' /\ uniq_q q'
    /\ (forall x, In x (entries q') -> x = l \/ In x (entries q))
    /\ covers q' l /\ (forall x, In x (entries q) -> covers q' x).
Proof.
  intros Hr Hu. destruct (push_covered_spec q l false Hr) as (q' & Hp & Hr' & Hs).
  exists q'. unfold push. split; auto. split; auto. split.
  { apply uniq_q_ms. apply (spec_preserves_uniq (absq q) (OPush l) (absq q') VUnit); auto.
    - cbn. auto.
    - now apply uniq_q_ms. }
  assert (Hin : forall m m' : ms, Permutation m m' -> forall x, (exists b, In (x, b) m) -> exists b, In (x, b) m').
  { intros m m' P x [b H]. exists b. eapply Permutation_in; eauto. }
  destruct Hs as [[Hno P]|(e & b & rest & P & Hseg & Hc)].
  - split; [|split].
    + intros x Hx. apply in_entries_absq in Hx. apply (Hin _ _ P) in Hx as [b [H|H]].
      * inv H. auto.
      * right. apply in_entries_absq. eauto.
    + apply covers_self. apply in_entries_absq. exists false. eapply Permutation_in; [symmetry; exact P|left; auto].
    + intros x Hx. apply covers_self. apply in_entries_absq in Hx as [b0 Hx]. apply in_entries_absq.
      exists b0. eapply Permutation_in; [symmetry; exact P|right; auto].
  - assert (He : In e (entries q)).
    { apply in_entries_absq. exists b. eapply Permutation_in; [symmetry; exact P|left; auto]. }
    destruct Hc as [[Hlt P']|[[Heq P']|[Hgt P']]].
    + split; [|split].
      * intros x Hx. apply in_entries_absq in Hx. apply (Hin _ _ P') in Hx as [b0 [H|H]].
        -- inv H. auto.
        -- right. apply in_entries_absq. exists b0. eapply Permutation_in; [symmetry; exact P|right; auto].
      * apply covers_self. apply in_entries_absq. exists false. eapply Permutation_in; [symmetry; exact P'|left; auto].
      * intros x Hx. apply in_entries_absq in Hx. apply (Hin _ _ P) in Hx as [b0 [H|H]].
        -- inv H. exists l. repeat split; auto; [|lia].
           apply in_entries_absq. exists false. eapply Permutation_in; [symmetry; exact P'|left; auto].
        -- apply covers_self. apply in_entries_absq. exists b0. eapply Permutation_in; [symmetry; exact P'|right; auto].
    + assert (Hsame : forall x, In x (entries q') <-> In x (entries q)).
      { intro x. rewrite !in_entries_absq. split; intros [b0 H].
        - apply (Permutation_in _ P') in H. destruct H as [H|H].
          + inv H. exists b. eapply Permutation_in; [symmetry; exact P|left; auto].
          + exists b0. eapply Permutation_in; [symmetry; exact P|right; auto].
        - apply (Permutation_in _ P) in H. destruct H as [H|H].
          + inv H. exists (b0 || false). eapply Permutation_in; [symmetry; exact P'|left; auto].
          + exists b0. eapply Permutation_in; [symmetry; exact P'|right; auto]. }
      split; [|split].
      * intros x Hx. right. now apply Hsame.
      * exists e. repeat split; auto; [now apply Hsame|lia].
      * intros x Hx. apply covers_self. now apply Hsame.
    + assert (Hsame : forall x, In x (entries q') <-> In x (entries q)).
      { intro x. rewrite !in_entries_absq. split; intros [b0 H]; exists b0.
        - eapply Permutation_in; [exact P'|auto].
        - eapply Permutation_in; [symmetry; exact P'|auto]. }
      split; [|split].
      * intros x Hx. right. now apply Hsame.
      * exists e. repeat split; auto; [now apply Hsame|lia].
      * intros x Hx. apply covers_self. now apply Hsame.
Qed.

Lemma pop_locs q :
  rep_ok q -> uniq_q q ->
  exists q' r, pop q = Ok (q', r) /\ rep_ok q' /\ uniq_q q' /\
    match r with
    | None => entries q = []
    | Some l => Permutation (entries q) (l :: entries q') /\ forall e, In e (entries q) -> loc_leb e l = true
    end.
Proof.
  intros Hr Hu. destruct (pop_covered_spec q Hr) as (q' & r & Hp & Hr' & Hs).
  exists q', (option_map fst r). unfold pop. rewrite Hp. cbn [bind]. split; auto. split; auto. split.
  { apply uniq_q_ms. apply (spec_preserves_uniq (absq q) OPopCovered (absq q') (VLocCov r)); auto.
    - cbn. eauto.
    - now apply uniq_q_ms. }
  destruct r as [[l c]|]; cbn [option_map fst spec_pop] in *.
  - destruct Hs as [P Hmax]. split.
    + rewrite !entries_absq. apply (Permutation_map fst) in P. exact P.
    + intros e He. apply in_entries_absq in He as [b He]. eapply Hmax; eauto.
  - destruct Hs as [Hnil _]. rewrite entries_absq, Hnil. reflexivity.
Qed.

Lemma uniq_q_nodup q : uniq_q q -> NoDup (entries q).
Proof. unfold uniq_q. apply NoDup_map_inv. Qed.

(** * pushing a list of candidate locations *)
Lemma push_priors_locs k : forall ps q,
  rep_ok q -> uniq_q q ->
  exists q', push_priors q ps k = Ok q' /\ rep_ok q' /\ uniq_q q'
    /\ (forall x, In x (entries q') -> In x (entries q) \/ (In x ps /\ (k <= lmc x)%N))
    /\ (forall x, In x (entries q) -> covers q' x)
    /\ (forall x, In x ps -> (k <= lmc x)%N -> covers q' x).
Proof.
  induction ps as [|p ps IH]; intros q Hr Hu; cbn [push_priors].
  - exists q. repeat split; auto using covers_self. intros x [].
  - destruct (N.leb_spec k (lmc p)).
    + destruct (push_locs q p Hr Hu) as (q1 & Hp & Hr1 & Hu1 & Hin1 & Hc1 & Hold1).
      rewrite Hp. cbn [bind]. destruct (IH q1 Hr1 Hu1) as (q' & Hq & Hr' & Hu' & Hin & Hold & Hnew).
      exists q'. repeat split; auto.
      * intros x Hx. destruct (Hin x Hx) as [H1|[H1 H2]].
        -- destruct (Hin1 x H1) as [->|H3]; [right; split; [left; auto|auto]|left; auto].
        -- right. split; [right; auto|auto].
      * intros x Hx. eapply covers_mono; [apply Hold1; exact Hx|exact Hold].
      * intros x [->|Hx] Hk; [eapply covers_mono; [exact Hc1|exact Hold]|auto].
    + destruct (IH q Hr Hu) as (q' & Hq & Hr' & Hu' & Hin & Hold & Hnew).
      exists q'. repeat split; auto.
      * intros x Hx. destruct (Hin x Hx) as [H1|[H1 H2]]; [left; auto|right; split; [right; auto|auto]].
      * intros x [->|Hx] Hk; [lia|auto].
Qed.

Lemma push_heads_priors q hs k : push_heads q hs k = push_priors q (map snd hs) k.
Proof.
  revert q; induction hs as [|[i h] hs IH]; intro q; cbn [push_heads push_priors map snd]; auto.
  destruct (k <=? lmc h)%N; auto. destruct (push q h); cbn [bind]; auto.
Qed.

(** the locations [enqueue_next] pushes *)
Definition next_locs (s : segment) (k : N) : list loc :=
  match find (fun sk => (k <=? lmc sk)%N) (s_skip s) with
  | Some sk => [sk]
  | None => filter (fun p => (k <=? lmc p)%N) (prior_list (s_prior s))
  end.

Lemma enqueue_next_locs q s k :
  rep_ok q -> uniq_q q ->
  exists q', enqueue_next q s k = Ok q' /\ rep_ok q' /\ uniq_q q'
    /\ (forall x, In x (entries q') -> In x (entries q) \/ In x (next_locs s k))
    /\ (forall x, In x (entries q) -> covers q' x)
    /\ (forall x, In x (next_locs s k) -> covers q' x).
Proof.
  intros Hr Hu. unfold enqueue_next, next_locs. destruct (find _ (s_skip s)) as [sk|].
  - destruct (push_locs q sk Hr Hu) as (q' & Hp & Hr' & Hu' & Hin & Hc & Hold).
    exists q'. repeat split; auto.
    + intros x Hx. destruct (Hin x Hx) as [->|]; [right; left; auto|left; auto].
    + intros x [<-|[]]. exact Hc.
  - destruct (push_priors_locs k (prior_list (s_prior s)) q Hr Hu) as (q' & Hp & Hr' & Hu' & Hin & Hold & Hnew).
    exists q'. repeat split; auto.
    + intros x Hx. destruct (Hin x Hx) as [|[H1 H2]]; [left; auto|right].
      apply filter_In. split; auto. now apply N.leb_le.
    + intros x Hx. apply filter_In in Hx as [H1 H2]. apply N.leb_le in H2. auto.
Qed.

(** * The generic backward search *)
Section Search.
Context {A : Type}.
Variable test : N -> segment -> option A.

Fixpoint gsearch (fuel : nat) (st : store) (k : N) (q : queue) : rs (option A) :=
  match fuel with
  | O => RErr EFuel
  | S f =>
    dor (q1, r) <- of_res (pop q);
    match r with
    | None => ROk None
    | Some l =>
      if (lmc l <? k)%N then RErr EPanic
      else
      match get_segment st l with
      | None => RErr ENoSegment
      | Some s =>
        match test (lseg l) s with
        | Some a => ROk (Some a)
        | None => dor q2 <- of_res (enqueue_next q1 s k); gsearch f st k q2
        end
      end
    end
  end.

Variable st : store.
Hypothesis Hok : store_ok st.
Variable k : N.
(** the set of locations the search is looking for: all at max cut [k] *)
Variable tgt : loc -> Prop.
Hypothesis tgt_mc : forall t, tgt t -> lmc t = k.
(** [test] decides whether the target is in the loaded segment *)
Hypothesis test_hit : forall idx s a, lookup idx st = Some s -> test idx s = Some a ->
  exists t, tgt t /\ in_seg idx s t.
Hypothesis test_miss : forall idx s t, lookup idx st = Some s -> test idx s = None ->
  tgt t -> in_seg idx s t -> False.
(** the region being searched: closed under ancestors *)
Variable R : loc -> Prop.
Hypothesis R_valid : forall e, R e -> valid st e.
Hypothesis R_closed : forall e t, R e -> reach st e t -> R t.

Definition qmeasure (q : queue) : nat :=
  length (filter (fun v => existsb (fun e => loc_leb v e) (entries q)) (all_locs st)).

Lemma cover_reach x x2 : valid st x -> valid st x2 -> lseg x2 = lseg x -> (lmc x <= lmc x2)%N -> reach st x2 x.
Proof.
  intros (s & Hs & (_ & H1 & _)) (s2 & Hs2 & _) Hseg Hle.
  unfold get_segment in *. rewrite Hseg in Hs2. assert (s2 = s) by congruence. subst s2.
  replace x with {| lmc := lmc x; lseg := lseg x2 |} by (rewrite Hseg; apply loc_eta).
  apply (reach_same_seg st s); auto. unfold get_segment. now rewrite Hseg.
Qed.

Lemma gsearch_spec : forall fuel q,
  rep_ok q -> uniq_q q ->
  (forall e, In e (entries q) -> R e /\ (k <= lmc e)%N) ->
  qmeasure q < fuel ->
  exists r, gsearch fuel st k q = ROk r /\
    match r with
    | Some a => exists t s, tgt t /\ R t /\ lookup (lseg t) st = Some s /\ test (lseg t) s = Some a
    | None => forall e t, In e (entries q) -> reach st e t -> tgt t -> False
    end.
Proof.
  induction fuel as [|f IH]; intros q Hr Hu Hq Hm; [lia|]. cbn [gsearch].
  destruct (pop_locs q Hr Hu) as (q1 & r & Hp & Hr1 & Hu1 & Hpop). rewrite Hp. cbn [of_res rbind].
  destruct r as [l|].
  2:{ exists None. split; auto. rewrite Hpop. intros e t []. }
  destruct Hpop as [P Hmax].
  assert (Hl : In l (entries q)) by (eapply Permutation_in; [symmetry; exact P|left; auto]).
  destruct (Hq l Hl) as [HRl Hkl]. destruct (N.ltb_spec (lmc l) k); [lia|].
  destruct (R_valid l HRl) as (s & Hs & Hins). rewrite Hs.
  assert (Hlk : lookup (lseg l) st = Some s) by exact Hs.
  destruct Hins as (_ & Hs1 & Hs2).
  destruct (test (lseg l) s) as [a|] eqn:Et.
  - exists (Some a). split; auto.
    destruct (test_hit _ _ _ Hlk Et) as (t & Ht & (T1 & T2 & T3)).
    exists t, s. rewrite T1. repeat split; auto.
    apply (R_closed l); auto.
    replace t with {| lmc := k; lseg := lseg l |} by (rewrite <- T1, <- (tgt_mc t Ht); apply loc_eta).
    apply (reach_same_seg st s); auto. rewrite <- (tgt_mc t Ht). exact T2.
  - destruct (enqueue_next_locs q1 s k Hr1 Hu1) as (q2 & He & Hr2 & Hu2 & Hin2 & Hold2 & Hnew2).
    rewrite He. cbn [of_res rbind].
    assert (Hfirst : reach st l (first_location (lseg l) s)) by (apply (funnel_first st s l); auto).
    assert (Hnext : forall x, In x (next_locs s k) -> R x /\ (k <= lmc x)%N /\ (lmc x < s_mc s)%N).
    { intros x Hx. unfold next_locs in Hx. destruct (Hok _ _ Hlk) as (_ & Hpr & Hsk).
      destruct (find _ (s_skip s)) as [sk|] eqn:Ef.
      - destruct Hx as [<-|[]]. apply find_some in Ef as [Hin Hk]. apply N.leb_le in Hk.
        destruct (Hsk sk Hin) as (_ & Hlt & [Hrk _]). repeat split; auto.
        apply (R_closed l); auto. eapply reach_trans; eauto.
      - apply filter_In in Hx as [Hin Hk]. apply N.leb_le in Hk. destruct (Hpr x Hin) as [_ Hlt].
        repeat split; auto. apply (R_closed l); auto. eapply reach_trans; [exact Hfirst|].
        eapply reach_step; [|constructor]. rewrite (first_parents st); auto. }
    assert (Hnd : ~ In l (entries q1)).
    { apply uniq_q_nodup in Hu. apply (Permutation_NoDup P) in Hu. now inv Hu. }
    assert (Hq1 : forall x, In x (entries q1) -> In x (entries q)).
    { intros x Hx. eapply Permutation_in; [symmetry; exact P|right; auto]. }
    assert (Hlt2 : forall x, In x (entries q2) -> loc_leb l x = false).
    { intros x Hx. destruct (Hin2 x Hx) as [H1|H1].
      - destruct (loc_leb l x) eqn:E; auto. exfalso. apply Hnd.
        assert (x = l) by (apply loc_leb_antisym; auto). now subst.
      - destruct (Hnext x H1) as (_ & _ & Hlt). destruct (loc_leb l x) eqn:E; auto.
        apply loc_leb_mc in E. lia. }
    destruct (IH q2 Hr2 Hu2) as (r & Hg & Hspec).
    + intros x Hx. destruct (Hin2 x Hx) as [H1|H1]; [apply Hq; auto|]. destruct (Hnext x H1) as (? & ? & _). auto.
    + assert (qmeasure q2 < qmeasure q); [|lia]. unfold qmeasure.
      apply filter_length_lt with (w := l).
      * intros v _ Hv. apply existsb_exists in Hv as (x & Hx & Hvx). apply existsb_exists.
        exists l. split; auto. eapply loc_leb_trans; [exact Hvx|]. apply loc_leb_false. auto.
      * apply valid_in_all_locs. auto.
      * destruct (existsb _ (entries q2)) eqn:E; auto. apply existsb_exists in E as (x & Hx & Hlx).
        rewrite (Hlt2 x Hx) in Hlx. discriminate.
      * apply existsb_exists. exists l. split; auto using loc_leb_refl.
    + exists r. split; auto. destruct r as [a|]; auto.
      intros e t He' Hre Ht.
      assert (Hcov : forall x, valid st x -> covers q2 x -> reach st x t -> False).
      { intros x Hvx (x2 & G1 & G2 & G3) Hrx. apply (Hspec x2 t G1); auto.
        eapply reach_trans; [|exact Hrx]. apply cover_reach; auto.
        destruct (Hin2 x2 G1) as [H1|H1]; [apply R_valid, Hq, Hq1; auto|apply R_valid, Hnext; auto]. }
      apply (Permutation_in _ P) in He'. destruct He' as [<-|He1].
      * pose proof (tgt_mc t Ht) as Hmc.
        destruct (reach_cases st s l t Hre Hs Hs1) as [(E1 & E2 & E3)|(p & Hpp & Hrp)].
        -- apply (test_miss _ _ t Hlk Et Ht). repeat split; auto. lia.
        -- assert (Hvp : valid st p /\ (lmc p < s_mc s)%N) by (destruct (Hok _ _ Hlk) as (_ & Hpr & _); auto).
           destruct Hvp as [Hvp Hltp].
           destruct (reach_valid st Hok p t Hrp Hvp) as (_ & Hle & _).
           unfold next_locs in Hnew2. destruct (find _ (s_skip s)) as [sk|] eqn:Ef.
           ++ apply find_some in Ef as [Hin Hk]. apply N.leb_le in Hk.
              apply (Hcov sk).
              ** destruct (Hok _ _ Hlk) as (_ & _ & Hsk). apply Hsk; auto.
              ** apply Hnew2. left; auto.
              ** apply (skip_sound st Hok s l sk t); auto. lia.
           ++ apply (Hcov p); auto. apply Hnew2. apply filter_In. split; auto. apply N.leb_le. lia.
      * apply (Hcov e); auto. apply R_valid, Hq, Hq1; auto.
Qed.

End Search.

(** * The model's searches are instances of the generic search *)
Lemma search_queued_gsearch fuel st id mc q :
  search_queued fuel st id mc q = gsearch (fun idx s => get_by_address idx s id mc) fuel st mc q.
Proof.
  revert q; induction fuel as [|f IH]; intro q; cbn [search_queued gsearch]; auto.
  destruct (of_res (pop q)) as [[q1 [l|]]|e]; cbn [rbind]; auto.
  destruct (lmc l <? mc)%N; auto. destruct (get_segment st l); auto.
  destruct (get_by_address (lseg l) s id mc); auto.
  destruct (of_res (enqueue_next q1 s mc)); cbn [rbind]; auto.
Qed.

Definition bool_of {A} (r : rs (option A)) : rs bool :=
  match r with ROk (Some _) => ROk true | ROk None => ROk false | RErr e => RErr e end.

Lemma is_ancestor_loop_gsearch fuel st target q :
  is_ancestor_loop fuel st target q
  = bool_of (gsearch (fun idx s => get_command idx s target) fuel st (lmc target) q).
Proof.
  revert q; induction fuel as [|f IH]; intro q; cbn [is_ancestor_loop gsearch]; auto.
  destruct (of_res (pop q)) as [[q1 [l|]]|e]; cbn [rbind bool_of]; auto.
  destruct (lmc l <? lmc target)%N; auto. destruct (get_segment st l); auto.
  destruct (get_command (lseg l) s target); auto.
  destruct (of_res (enqueue_next q1 s (lmc target))); cbn [rbind]; auto.
Qed.

Lemma qmeasure_fuel st q : qmeasure st q < search_fuel st.
Proof.
  unfold qmeasure, search_fuel. rewrite <- all_locs_length.
  pose proof (filter_length_le (fun v => existsb (fun e => loc_leb v e) (entries q)) (fun _ => true) (all_locs st)) as H.
  rewrite (filter_all (fun _ => true)) in H by auto. specialize (H (fun _ _ _ => eq_refl)). lia.
Qed.

Lemma qnew_ok : rep_ok qnew /\ uniq_q qnew.
Proof. split; [unfold rep_ok; cbn; lia|constructor]. Qed.

(** * Exactness of the three queries *)
Definition heads_ok (st : store) (hs : heads) : Prop := forall h, In h hs -> valid st (snd h).
(** [l] is a command of the committed graph: an ancestor-or-equal of a head *)
Definition from_heads (st : store) (hs : heads) (l : loc) : Prop :=
  exists h, In h hs /\ reach st (snd h) l.
(** the command at [l] has address (id, mc) *)
Definition holds (st : store) (l : loc) (id mc : N) : Prop := lmc l = mc /\ id_at st l = Some id.

Section Exact.
Variable st : store.
Hypothesis Hok : store_ok st.

(** searching for an address from a set of seed locations *)
Lemma search_from_seeds (seeds : list loc) id mc q :
  (forall x, In x seeds -> valid st x) ->
  rep_ok q -> uniq_q q ->
  (forall x, In x (entries q) -> In x seeds /\ (mc <= lmc x)%N) ->
  (forall x, In x seeds -> (mc <= lmc x)%N -> covers q x) ->
  exists r, search_queued (search_fuel st) st id mc q = ROk r /\
    match r with
    | Some l => (exists x, In x seeds /\ reach st x l) /\ holds st l id mc
    | None => forall x l, In x seeds -> reach st x l -> ~ holds st l id mc
    end.
Proof.
  intros Hseeds Hr Hu Hq Hcov. rewrite search_queued_gsearch.
  set (tgt := fun t => valid st t /\ holds st t id mc).
  set (R := fun t => exists x, In x seeds /\ reach st x t).
  destruct (gsearch_spec (fun idx s => get_by_address idx s id mc) st Hok mc tgt) with (R := R) (fuel := search_fuel st) (q := q)
    as (r & Hg & Hspec); auto.
  - intros t [_ [H _]]. exact H.
  - intros idx s a Hl Ha. unfold get_by_address in Ha.
    destruct (get_command idx s {| lmc := mc; lseg := idx |}) as [i|] eqn:Ec; [|discriminate].
    destruct (N.eqb_spec i id); [|discriminate]. subst i.
    exists {| lmc := mc; lseg := idx |}. pose proof (proj1 (get_command_some _ _ _ _) Ec) as [Hin _].
    split; auto. split.
    + exists s. cbn. split; auto.
    + split; [reflexivity|]. unfold id_at, get_segment. cbn [lseg]. rewrite Hl. exact Ec.
  - intros idx s t Hl Ha [Hv [Hmc Hid]] Hin. unfold get_by_address in Ha.
    assert (t = {| lmc := mc; lseg := idx |}).
    { destruct Hin as (E1 & _). destruct t; cbn in *. congruence. }
    subst t. unfold id_at, get_segment in Hid. cbn [lseg] in Hid. rewrite Hl in Hid. rewrite Hid in Ha.
    rewrite N.eqb_refl in Ha. discriminate.
  - intros e (x & Hx & Hrx). apply (reach_valid st Hok x e Hrx). auto.
  - intros e t (x & Hx & Hrx) Hre. exists x. split; auto. eapply reach_trans; eauto.
  - intros e He. destruct (Hq e He). split; auto. exists e. split; auto. constructor.
  - apply qmeasure_fuel.
  - exists (match r with Some a => Some a | None => None end). destruct r as [a|].
    + split; auto. destruct Hspec as (t & s & [Hv Hh] & HR & Hl & Ht).
      unfold get_by_address in Ht.
      destruct (get_command (lseg t) s {| lmc := mc; lseg := lseg t |}); [|discriminate].
      destruct (n =? id)%N; [|discriminate]. inv Ht.
      assert (t = {| lmc := mc; lseg := lseg t |}) as <-; [|split; auto].
      destruct Hh as [<- _]. symmetry. apply loc_eta.
    + split; auto. intros x l Hx Hrl Hh.
      assert (Hvl : valid st l) by (apply (reach_valid st Hok x l Hrl); auto).
      assert (Hle : (mc <= lmc x)%N).
      { destruct (reach_valid st Hok x l Hrl (Hseeds x Hx)) as (_ & H & _). destruct Hh as [<- _]. exact H. }
      destruct (Hcov x Hx Hle) as (x2 & G1 & G2 & G3).
      apply (Hspec x2 l G1).
      * eapply reach_trans; [|exact Hrl]. apply cover_reach; auto. apply Hseeds. apply Hq. auto.
      * split; auto.
Qed.

Lemma get_location_exact_here hs id mc :
  heads_ok st hs ->
  exists r, get_location st hs id mc = ROk r /\
    match r with
    | Some l => from_heads st hs l /\ holds st l id mc
    | None => forall l, from_heads st hs l -> ~ holds st l id mc
    end.
Proof.
  intro Hh. unfold get_location. rewrite push_heads_priors.
  destruct qnew_ok as [Hr0 Hu0].
  destruct (push_priors_locs mc (map snd hs) qnew Hr0 Hu0) as (q & Hp & Hr & Hu & Hin & _ & Hnew).
  rewrite Hp. cbn [of_res rbind].
  destruct (search_from_seeds (map snd hs) id mc q) as (r & Hs & Hspec); auto.
  - intros x Hx. apply in_map_iff in Hx as (h & <- & Hh'). auto.
  - intros x Hx. destruct (Hin x Hx) as [[]|]; auto.
  - exists r. split; auto. destruct r as [l|].
    + destruct Hspec as [(x & Hx & Hrx) Hh']. split; auto.
      apply in_map_iff in Hx as (h & <- & Hin'). exists h. auto.
    + intros l (h & Hin' & Hrl). apply (Hspec (snd h)); auto. apply in_map. auto.
Qed.

Lemma get_location_from_exact_here start id mc :
  valid st start ->
  exists r, get_location_from st start id mc = ROk r /\
    match r with
    | Some l => reach st start l /\ holds st l id mc
    | None => forall l, reach st start l -> ~ holds st l id mc
    end.
Proof.
  intro Hv. unfold get_location_from. destruct (N.ltb_spec (lmc start) mc).
  - exists None. split; auto. intros l Hr [Hmc _].
    destruct (reach_valid st Hok start l Hr Hv) as (_ & Hle & _). lia.
  - destruct qnew_ok as [Hr0 Hu0].
    destruct (push_locs qnew start Hr0 Hu0) as (q & Hp & Hr & Hu & Hin & Hc & _).
    rewrite Hp. cbn [of_res rbind].
    destruct (search_from_seeds [start] id mc q) as (r & Hs & Hspec); auto.
    + intros x [<-|[]]. auto.
    + intros x Hx. destruct (Hin x Hx) as [->|[]]. split; [left; auto|auto].
    + intros x [<-|[]] _. exact Hc.
    + exists r. split; auto. destruct r as [l|].
      * destruct Hspec as [(x & [<-|[]] & Hrx) Hh]. auto.
      * intros l Hrl. apply (Hspec start); auto. left; auto.
Qed.

Lemma is_ancestor_exact_here target start :
  valid st start ->
  exists b, is_ancestor st target start = ROk b /\
    (b = true <-> (reach st start target /\ target <> start)).
Proof.
  intro Hv. unfold is_ancestor.
  destruct ((lmc start <? lmc target)%N || loc_eqb target start) eqn:E.
  - exists false. split; auto. split; [discriminate|]. intros [Hr Hne]. exfalso.
    apply orb_true_iff in E as [E|E].
    + apply N.ltb_lt in E. destruct (reach_valid st Hok start target Hr Hv) as (_ & Hle & _). lia.
    + apply loc_eqb_eq in E. auto.
  - apply orb_false_iff in E as [E1 E2]. apply N.ltb_ge in E1.
    assert (Hne : target <> start) by (intro H; apply loc_eqb_eq in H; congruence).
    destruct qnew_ok as [Hr0 Hu0].
    destruct (push_locs qnew start Hr0 Hu0) as (q & Hp & Hr & Hu & Hin & Hc & _).
    rewrite Hp. cbn [of_res rbind]. rewrite is_ancestor_loop_gsearch.
    set (tgt := fun t => t = target /\ valid st target).
    destruct (gsearch_spec (fun idx s => get_command idx s target) st Hok (lmc target) tgt)
      with (R := reach st start) (fuel := search_fuel st) (q := q) as (r & Hg & Hspec); auto.
    + intros t [-> _]. reflexivity.
    + intros idx s a Hl Ha. apply get_command_some in Ha as [Hin' _]. exists target. split; auto.
      split; auto. exists s. pose proof Hin' as (E & _). unfold get_segment. rewrite E. split; auto.
    + intros idx s t Hl Ha [-> _] Hin'. destruct (get_command_in_seg idx s target Hin') as [i Hi]. congruence.
    + intros e Hre. apply (reach_valid st Hok start e Hre Hv).
    + intros e t H1 H2. eapply reach_trans; eauto.
    + intros e He. destruct (Hin e He) as [->|[]]. split; [constructor|auto].
    + apply qmeasure_fuel.
    + rewrite Hg. destruct r as [a|]; cbn [bool_of].
      * exists true. split; auto. split; auto. intros _.
        destruct Hspec as (t & s & [-> _] & HR & _). split; auto.
      * exists false. split; auto. split; [discriminate|]. intros [Hrt _]. exfalso.
        destruct Hc as (x2 & G1 & G2 & G3). destruct (Hin x2 G1) as [->|[]].
        apply (Hspec start target G1 Hrt). split; auto.
        apply (reach_valid st Hok start target Hrt Hv).
Qed.

End Exact.
