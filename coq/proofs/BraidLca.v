(** The last-common-ancestor walk: every location it visits is comparable
    with every ancestor of the head it started from ("dominates" it in the
    sense needed by the braid), hence the [max_cut <= lca.max_cut] cut-off is
    sound; in a graph with a single root the walk never fails. *)
From Aranya Require Import base.Tactics model.Dag model.Braid proofs.BraidDag.

(** [d] is an ancestor-or-equal of [x] comparable with every ancestor of [x]. *)
Definition cdom (g : graph) (d x : N) : Prop :=
  anc g d x /\ forall y, anc g y x -> anc g y d \/ anc g d y.

Lemma cdom_refl g x : In x (ids g) -> cdom g x x.
Proof. intros H. split; [apply anc_refl; auto|auto]. Qed.

Lemma cdom_trans g d e x : cdom g d e -> cdom g e x -> cdom g d x.
Proof.
  intros [H1 H2] [H3 H4]. split; [eapply anc_trans; eauto|].
  intros y Hy. destruct (H4 y Hy) as [H|H]; auto. right. eapply anc_trans; eauto.
Qed.

Lemma cdom_single g x c p : wf_graph g -> lookup g x = Some c -> cpar c = PSingle p -> cdom g p x.
Proof.
  intros Hwf Hl Hp.
  assert (Hpo : parent_of g p x) by (exists c; split; auto; unfold parents; rewrite Hp; cbn; auto).
  split; [apply anc_parent; auto|].
  intros y Hy. destruct (anc_inv _ _ _ Hy) as [->|[q [[c' [Hl' Hq]] Hyq]]].
  - right. apply anc_parent; auto.
  - rewrite Hl in Hl'. inv Hl'. unfold parents in Hq. rewrite Hp in Hq. destruct Hq as [<-|[]]. auto.
Qed.

Lemma cdom_merge g x c a b d : wf_graph g -> lookup g x = Some c -> cpar c = PMerge2 a b ->
  cdom g d a -> cdom g d b -> cdom g d x.
Proof.
  intros Hwf Hl Hp [Ha1 Ha2] [Hb1 Hb2].
  assert (Hpa : parent_of g a x) by (exists c; split; auto; unfold parents; rewrite Hp; cbn; auto).
  split; [eapply anc_step; eauto|].
  intros y Hy. destruct (anc_inv _ _ _ Hy) as [->|[q [[c' [Hl' Hq]] Hyq]]].
  - right. eapply anc_step; eauto.
  - rewrite Hl in Hl'. inv Hl'. unfold parents in Hq. rewrite Hp in Hq. destruct Hq as [<-|[<-|[]]]; auto.
Qed.

Lemma cdom_cons c r d x : wf_graph (c :: r) -> cdom r d x -> cdom (c :: r) d x.
Proof.
  intros Hwf [H1 H2]. split; [apply anc_cons; auto|].
  intros y Hy.
  assert (Hx : In x (ids r)) by (apply (anc_in r d x); [eapply wf_tail; eauto|auto]).
  assert (Hne : x <> cid c) by (intros ->; destruct Hwf as [_ [Hn _]]; auto).
  apply (anc_cons_inv c r) in Hy; auto.
  destruct (H2 y Hy); [left|right]; apply anc_cons; auto.
Qed.

Lemma cdom_in g d x : wf_graph g -> cdom g d x -> In d (ids g) /\ In x (ids g).
Proof. intros Hwf [H _]. apply anc_in; auto. Qed.

(** The loop only moves along [step]; if every step lands on a [cdom], so does the result. *)
Lemma lca_loop_cdom g step mc : wf_graph g ->
  (forall i j, step i = Some j -> cdom g j i) ->
  forall fuel l r d, In l (ids g) -> In r (ids g) ->
  lca_loop step mc fuel l r = Some d -> cdom g d l /\ cdom g d r.
Proof.
  intros Hwf Hstep. induction fuel as [|f IH]; intros l r d Hl Hr; cbn [lca_loop].
  - destruct (l =? r)%N eqn:E; [|discriminate]. apply N.eqb_eq in E. subst. intros H; inv H.
    split; apply cdom_refl; auto.
  - destruct (l =? r)%N eqn:E.
    + apply N.eqb_eq in E. subst. intros H; inv H. split; apply cdom_refl; auto.
    + destruct (mc r <? mc l)%N.
      * destruct (step l) as [l'|] eqn:Es; [|discriminate]. intros H.
        pose proof (Hstep _ _ Es) as Hc. apply IH in H; auto.
        -- destruct H as [Ha Hb]. split; [apply cdom_trans with l'; auto|auto].
        -- apply (cdom_in g l' l); auto.
      * destruct (step r) as [r'|] eqn:Es; [|discriminate]. intros H.
        pose proof (Hstep _ _ Es) as Hc. apply IH in H; auto.
        -- destruct H as [Ha Hb]. split; [auto|apply cdom_trans with r'; auto].
        -- apply (cdom_in g r' r); auto.
Qed.

Lemma jump_cdom g : wf_graph g -> forall i j, jump g i = Some j -> cdom g j i.
Proof.
  induction g as [|c r IH]; intros Hwf i j; cbn [jump]; [discriminate|].
  pose proof Hwf as [H1 [H2 H3]].
  destruct (cid c =? i)%N eqn:E.
  - apply N.eqb_eq in E. subst i.
    assert (Hl : lookup (c :: r) (cid c) = Some c) by (cbn; rewrite N.eqb_refl; auto).
    destruct (cpar c) as [|p|a b] eqn:Ep; [discriminate| |].
    + intros H; inv H. eapply cdom_single; eauto.
    + intros H.
      assert (Ha : In a (ids r)) by (apply H3; unfold parents; rewrite Ep; cbn; auto).
      assert (Hb : In b (ids r)) by (apply H3; unfold parents; rewrite Ep; cbn; auto).
      apply (lca_loop_cdom r) in H; auto.
      destruct H as [Hda Hdb]. eapply cdom_merge; eauto; apply cdom_cons; auto.
  - intros H. apply cdom_cons; auto.
Qed.

Lemma lca_pair_cdom g l r d : wf_graph g -> In l (ids g) -> In r (ids g) ->
  lca_pair g l r = Some d -> cdom g d l /\ cdom g d r.
Proof. intros Hwf Hl Hr. unfold lca_pair. apply lca_loop_cdom; auto. apply jump_cdom; auto. Qed.

Lemma lca_fold_cdom g : wf_graph g -> forall t acc d, In acc (ids g) -> incl t (ids g) ->
  fold_left (fun a x => match a with Some l => lca_pair g l x | None => None end) t (Some acc) = Some d ->
  cdom g d acc /\ forall h, In h t -> cdom g d h.
Proof.
  intros Hwf. induction t as [|x t IH]; intros acc d Hacc Hin; cbn [fold_left].
  - intros H; inv H. split; [apply cdom_refl; auto|intros h []].
  - destruct (lca_pair g acc x) as [e|] eqn:E.
    + intros H. apply lca_pair_cdom in E as [E1 E2]; auto; [|apply Hin; cbn; auto].
      apply IH in H.
      * destruct H as [He Ht]. split; [eapply cdom_trans; eauto|].
        intros h [<-|Hh]; auto. eapply cdom_trans; eauto.
      * apply (cdom_in g e acc); auto.
      * intros y Hy. apply Hin. cbn; auto.
    + intros H. exfalso. clear - H. induction t as [|y t IHt]; cbn in H; [discriminate|auto].
Qed.

Theorem lca_cdom g hs d : wf_graph g -> incl hs (ids g) ->
  last_common_ancestor g hs = Some d -> forall h, In h hs -> cdom g d h.
Proof.
  intros Hwf Hin. destruct hs as [|h0 t]; cbn [last_common_ancestor]; [discriminate|].
  intros H. apply lca_fold_cdom in H; auto.
  - destruct H as [H1 H2]. intros h [<-|Hh]; auto.
  - apply Hin; cbn; auto.
  - intros y Hy. apply Hin; cbn; auto.
Qed.

(** Soundness of the cut-off. *)
Lemma cdom_below g d h x : wf_graph g -> cdom g d h -> anc g x h -> (max_cut g x <= max_cut g d)%N -> anc g x d.
Proof.
  intros Hwf [H1 H2] Hx Hm. destruct (H2 x Hx) as [H|H]; auto.
  pose proof (anc_max_cut g d x Hwf H).
  assert (d = x) by (apply (anc_same_cut g); auto; lia). subst. apply anc_refl. apply (anc_in g x h); auto.
Qed.

Lemma cdom_above g d h x : wf_graph g -> cdom g d h -> anc g x h -> (max_cut g d < max_cut g x)%N -> anc g d x.
Proof.
  intros Hwf [H1 H2] Hx Hm. destruct (H2 x Hx) as [H|H]; auto.
  pose proof (anc_max_cut g x d Hwf H). lia.
Qed.

(** * Totality *)

Lemma single_root_tail c r : single_root (c :: r) -> single_root r.
Proof. intros H c1 c2 H1 H2. apply H; cbn; auto. Qed.

Lemma max_cut_zero_root g : wf_graph g -> forall i c, lookup g i = Some c -> max_cut g i = 0%N -> cpar c = PNone.
Proof.
  induction g as [|x r IH]; intros Hwf i c; cbn [lookup max_cut]; [discriminate|].
  destruct (cid x =? i)%N eqn:E.
  - intros H; inv H. destruct (cpar c); auto; lia.
  - intros H1 H2. eapply IH; eauto. eapply wf_tail; eauto.
Qed.

Lemma lca_loop_total g : wf_graph g -> single_root g ->
  (forall i c, lookup g i = Some c -> cpar c <> PNone -> exists j, jump g i = Some j) ->
  forall fuel l r, In l (ids g) -> In r (ids g) ->
  N.to_nat (max_cut g l) + N.to_nat (max_cut g r) < fuel ->
  exists d, lca_loop (jump g) (max_cut g) fuel l r = Some d.
Proof.
  intros Hwf Hsr Hj. induction fuel as [|f IH]; intros l r Hl Hr Hf; [lia|].
  cbn [lca_loop]. destruct (l =? r)%N eqn:E; [eauto|]. apply N.eqb_neq in E.
  destruct (ids_lookup _ _ Hl) as [cl Hcl]. destruct (ids_lookup _ _ Hr) as [cr Hcr].
  destruct (max_cut g r <? max_cut g l)%N eqn:Em.
  - apply N.ltb_lt in Em.
    assert (Hnr : cpar cl <> PNone).
    { intros Hn. assert (max_cut g l = 0%N); [|lia].
      clear - Hcl Hn Hwf. revert Hcl. induction g as [|x g IHg]; cbn [lookup max_cut]; [discriminate|].
      destruct (cid x =? l)%N; [intros H; inv H; rewrite Hn; auto|apply IHg; eapply wf_tail; eauto]. }
    destruct (Hj _ _ Hcl Hnr) as [l' Hl']. rewrite Hl'.
    pose proof (jump_cdom g Hwf _ _ Hl') as Hc.
    assert (Hlt : (max_cut g l' < max_cut g l)%N).
    { apply anc_max_cut_lt; auto; [apply Hc|]. intros ->.
      (* jump never returns its argument *)
      clear - Hwf Hl'. revert Hwf Hl'. induction g as [|x g IHg]; cbn [jump]; [discriminate|]. intros Hwf.
      destruct (cid x =? l)%N eqn:Ex.
      + apply N.eqb_eq in Ex. subst l. pose proof Hwf as [H1 [H2 H3]]. destruct (cpar x) as [|p|a b] eqn:Ep; [discriminate| |].
        * intros H; inv H. apply H2. apply H3. unfold parents; rewrite Ep; cbn; auto.
        * intros H. apply (lca_loop_cdom g) in H; auto.
          -- destruct H as [Hd _]. apply H2. apply (cdom_in g (cid x) a); auto.
          -- apply jump_cdom; auto.
          -- apply H3. unfold parents; rewrite Ep; cbn; auto.
          -- apply H3. unfold parents; rewrite Ep; cbn; auto.
      + apply IHg. eapply wf_tail; eauto. }
    apply IH; auto; [apply (cdom_in g l' l); auto|lia].
  - apply N.ltb_ge in Em.
    assert (Hnr : cpar cr <> PNone).
    { intros Hn.
      assert (max_cut g r = 0%N).
      { clear - Hcr Hn Hwf. revert Hcr. induction g as [|x g IHg]; cbn [lookup max_cut]; [discriminate|].
        destruct (cid x =? r)%N; [intros H; inv H; rewrite Hn; auto|apply IHg; eapply wf_tail; eauto]. }
      assert (Hl0 : max_cut g l = 0%N) by lia.
      pose proof (max_cut_zero_root g Hwf l cl Hcl Hl0) as Hln.
      destruct (lookup_In _ _ _ Hcl) as [A1 A2]. destruct (lookup_In _ _ _ Hcr) as [B1 B2].
      apply E. rewrite <- A2, <- B2. apply Hsr; auto. }
    destruct (Hj _ _ Hcr Hnr) as [r' Hr']. rewrite Hr'.
    pose proof (jump_cdom g Hwf _ _ Hr') as Hc.
    assert (Hlt : (max_cut g r' < max_cut g r)%N).
    { apply anc_max_cut_lt; auto; [apply Hc|]. intros ->.
      clear - Hwf Hr'. revert Hwf Hr'. induction g as [|x g IHg]; cbn [jump]; [discriminate|]. intros Hwf.
      destruct (cid x =? r)%N eqn:Ex.
      + apply N.eqb_eq in Ex. subst r. pose proof Hwf as [H1 [H2 H3]]. destruct (cpar x) as [|p|a b] eqn:Ep; [discriminate| |].
        * intros H; inv H. apply H2. apply H3. unfold parents; rewrite Ep; cbn; auto.
        * intros H. apply (lca_loop_cdom g) in H; auto.
          -- destruct H as [Hd _]. apply H2. apply (cdom_in g (cid x) a); auto.
          -- apply jump_cdom; auto.
          -- apply H3. unfold parents; rewrite Ep; cbn; auto.
          -- apply H3. unfold parents; rewrite Ep; cbn; auto.
      + apply IHg. eapply wf_tail; eauto. }
    apply IH; auto; [apply (cdom_in g r' r); auto|lia].
Qed.

Lemma fuel_ok g l r : wf_graph g -> In l (ids g) -> In r (ids g) ->
  N.to_nat (max_cut g l) + N.to_nat (max_cut g r) < S (length g + length g).
Proof.
  intros Hwf Hl Hr. pose proof (max_cut_lt_length g Hwf l Hl). pose proof (max_cut_lt_length g Hwf r Hr). lia.
Qed.

Lemma jump_total g : wf_graph g -> single_root g ->
  forall i c, lookup g i = Some c -> cpar c <> PNone -> exists j, jump g i = Some j.
Proof.
  induction g as [|x r IH]; intros Hwf Hsr i c; cbn [lookup jump]; [discriminate|].
  pose proof Hwf as [H1 [H2 H3]].
  destruct (cid x =? i)%N eqn:E.
  - intros H Hn; inv H. destruct (cpar c) as [|p|a b] eqn:Ep; [congruence|eauto|].
    apply lca_loop_total; auto.
    + eapply single_root_tail; eauto.
    + intros i' c' Hl' Hn'. eapply IH; eauto. eapply single_root_tail; eauto.
    + apply H3. unfold parents; rewrite Ep; cbn; auto.
    + apply H3. unfold parents; rewrite Ep; cbn; auto.
    + apply fuel_ok; auto; apply H3; unfold parents; rewrite Ep; cbn; auto.
  - intros H Hn. eapply IH; eauto. eapply single_root_tail; eauto.
Qed.

Theorem lca_pair_total g l r : wf_graph g -> single_root g -> In l (ids g) -> In r (ids g) ->
  exists d, lca_pair g l r = Some d.
Proof.
  intros Hwf Hsr Hl Hr. unfold lca_pair. apply lca_loop_total; auto.
  - apply jump_total; auto.
  - apply fuel_ok; auto.
Qed.

Theorem lca_total g hs : wf_graph g -> single_root g -> hs <> [] -> incl hs (ids g) ->
  exists d, last_common_ancestor g hs = Some d.
Proof.
  intros Hwf Hsr Hne Hin. destruct hs as [|h t]; [congruence|]. cbn [last_common_ancestor].
  assert (Hh : In h (ids g)) by (apply Hin; cbn; auto).
  assert (Ht : incl t (ids g)) by (intros y Hy; apply Hin; cbn; auto).
  clear Hne Hin. revert h Hh. induction t as [|x t IH]; intros h Hh; cbn [fold_left]; [eauto|].
  destruct (lca_pair_total g h x Hwf Hsr Hh) as [d Hd]; [apply Ht; cbn; auto|].
  rewrite Hd. apply IH.
  - intros y Hy. apply Ht. cbn; auto.
  - apply lca_pair_cdom in Hd; auto; [|apply Ht; cbn; auto]. apply (cdom_in g d h); auto. apply Hd.
Qed.
