(** C28 (second half) - a module that survives its serialized forms loads into an identical machine.

    [Machine::from_module] ([model/Vm.v] [from_module]) turns the definition vectors of a module
    into name-keyed maps.  Proved here, for all modules:
      - loading always yields name-sorted, duplicate-free definition maps ([from_module_canonical]);
      - a lookup in the loaded machine finds the LAST definition of that name in the module's vector
        ([load_lookup]: the semantics of [collect] into a [BTreeMap]);
      - loading is the identity on what it produces: projecting a loaded machine back to vectors
        (what the compiler's [into_module] does) and loading again gives the same machine
        ([from_module_to_module], [from_module_idempotent]);
      - if decoding an encoded module returns that module (the serde / rkyv derives, assumed), the
        reloaded machine is the same value and every run of it from any state under any oracle gives
        the same result ([roundtrip_same_machine_same_runs]). *)
From Coq Require Import OrdersEx Sorting.Sorted RelationClasses.
From Aranya Require Import base.Tactics model.VmBase gen.GenVm model.Vm.

Notation slt := OrdersEx.String_as_OT.lt.
Lemma slt_def a b : slt a b <-> String.compare a b = Lt.
Proof. reflexivity. Qed.
Lemma slt_trans a b c : slt a b -> slt b c -> slt a c.
Proof. apply OrdersEx.String_as_OT.lt_strorder. Qed.
Lemma slt_irrefl a : ~ slt a a.
Proof. apply OrdersEx.String_as_OT.lt_strorder. Qed.
Lemma compare_gt_lt a b : String.compare a b = Gt -> slt b a.
Proof. intros H. unfold slt, OrdersEx.String_as_OT.lt. change (String.compare b a = Lt). rewrite String.compare_antisym, H. reflexivity. Qed.
Lemma lt_compare_gt a b : slt a b -> String.compare b a = Gt.
Proof. intros H. rewrite String.compare_antisym. change (String.compare a b = Lt) in H. rewrite H. reflexivity. Qed.
Lemma slt_neqb a b : slt a b -> String.eqb a b = false /\ String.eqb b a = false.
Proof.
  intros H. split; apply String.eqb_neq; intros E; subst; exact (slt_irrefl _ H).
Qed.

Section AutoMapFacts.
  Context {T : Type} (name : T -> ident).
  Definition dlt (a b : T) : Prop := slt (name a) (name b).
  Definition sorted (l : list T) : Prop := StronglySorted dlt l.

  Lemma insert_in x : forall l y, In y (automap_insert name x l) -> y = x \/ In y l.
  Proof.
    induction l as [|z l IH]; intros y H; cbn [automap_insert] in H.
    - destruct H as [<-|[]]. auto.
    - destruct (String.compare (name x) (name z)); cbn in H.
      + destruct H as [<-|H]; auto. right. right. exact H.
      + destruct H as [<-|H]; auto.
      + destruct H as [<-|H]; [right; left; reflexivity|]. destruct (IH _ H); auto. right. right. assumption.
  Qed.

  Lemma insert_sorted x : forall l, sorted l -> sorted (automap_insert name x l).
  Proof.
    induction l as [|z l IH]; intros Hs; cbn [automap_insert].
    - repeat constructor.
    - inversion Hs as [|? ? Hs' Hall]; subst.
      destruct (String.compare (name x) (name z)) eqn:E.
      + (* equal names: x replaces z *)
        apply String.compare_eq_iff in E. constructor; [assumption|].
        rewrite Forall_forall in *. intros y Hy. unfold dlt. rewrite E. apply Hall, Hy.
      + constructor; [assumption|]. constructor; [exact E|].
        rewrite Forall_forall in *. intros y Hy. eapply slt_trans; [exact E|apply Hall, Hy].
      + constructor; [apply IH, Hs'|].
        rewrite Forall_forall in *. intros y Hy. destruct (insert_in x l y Hy) as [->|Hy'].
        * apply compare_gt_lt, E.
        * apply Hall, Hy'.
  Qed.

  Lemma fold_insert_sorted l : forall acc, sorted acc -> sorted (fold_left (fun m x => automap_insert name x m) l acc).
  Proof. induction l; intros acc H; cbn [fold_left]; [assumption|]. apply IHl, insert_sorted, H. Qed.
  Lemma automap_of_list_sorted l : sorted (automap_of_list name l).
  Proof. apply fold_insert_sorted. constructor. Qed.

  (** inserting a name greater than all present appends *)
  Lemma insert_last x : forall acc, Forall (fun y => dlt y x) acc -> automap_insert name x acc = (acc ++ [x])%list.
  Proof.
    induction acc as [|y acc IH]; intros H; cbn [automap_insert app]; [reflexivity|].
    inversion H as [|? ? Hy Hrest]; subst.
    rewrite (lt_compare_gt _ _ Hy). f_equal. apply IH, Hrest.
  Qed.
  Lemma sorted_app_inv (a : list T) x l : sorted (a ++ x :: l)%list -> Forall (fun y => dlt y x) a.
  Proof.
    induction a as [|y a IH]; intros H; [constructor|].
    cbn in H. inversion H as [|? ? Hs Hall]; subst. constructor.
    - rewrite Forall_forall in Hall. apply Hall. apply in_or_app. right. left. reflexivity.
    - apply IH, Hs.
  Qed.
  Lemma fold_insert_sorted_id l : forall acc, sorted (acc ++ l)%list ->
    fold_left (fun m x => automap_insert name x m) l acc = (acc ++ l)%list.
  Proof.
    induction l as [|x l IH]; intros acc H; cbn [fold_left]; [now rewrite app_nil_r|].
    rewrite (insert_last x acc (sorted_app_inv acc x l H)).
    rewrite IH; rewrite <- app_assoc; cbn; [reflexivity|exact H].
  Qed.
  (** loading a sorted vector changes nothing *)
  Lemma automap_of_list_id l : sorted l -> automap_of_list name l = l.
  Proof. intros H. unfold automap_of_list. now rewrite fold_insert_sorted_id. Qed.

  (** lookups *)
  Lemma get_insert x k : forall l, sorted l ->
    automap_get name k (automap_insert name x l) = if String.eqb (name x) k then Some x else automap_get name k l.
  Proof.
    unfold automap_get.
    induction l as [|z l IH]; intros Hs; cbn [automap_insert find].
    - destruct (String.eqb (name x) k); reflexivity.
    - inversion Hs as [|? ? Hs' Hall]; subst.
      destruct (String.compare (name x) (name z)) eqn:E; cbn [find].
      + apply String.compare_eq_iff in E. rewrite <- E. destruct (String.eqb (name x) k); reflexivity.
      + reflexivity.
      + rewrite (IH Hs'). destruct (String.eqb (name z) k) eqn:Ez; [|reflexivity].
        apply String.eqb_eq in Ez. subst k.
        destruct (slt_neqb _ _ (compare_gt_lt _ _ E)) as [_ ->]. reflexivity.
  Qed.
  Lemma find_app' (f : T -> bool) (a b : list T) :
    find f (a ++ b)%list = match find f a with Some x => Some x | None => find f b end.
  Proof. induction a as [|x a IH]; cbn [app find]; [reflexivity|]. destruct (f x); [reflexivity|exact IH]. Qed.
  Lemma get_fold k l : forall acc, sorted acc ->
    automap_get name k (fold_left (fun m x => automap_insert name x m) l acc)
    = match find (fun d => String.eqb (name d) k) (rev l) with Some d => Some d | None => automap_get name k acc end.
  Proof.
    induction l as [|x l IH]; intros acc Hs; cbn [fold_left rev]; [reflexivity|].
    rewrite (IH _ (insert_sorted x acc Hs)), (get_insert x k acc Hs).
    rewrite find_app'. destruct (find (fun d => String.eqb (name d) k) (rev l)); [reflexivity|].
    cbn [find]. destruct (String.eqb (name x) k); reflexivity.
  Qed.
  (** a lookup in the loaded map finds the last definition of that name in the vector *)
  Lemma get_automap_of_list k l :
    automap_get name k (automap_of_list name l) = find (fun d => String.eqb (name d) k) (rev l).
  Proof.
    unfold automap_of_list. rewrite get_fold by constructor.
    destruct (find (fun d => String.eqb (name d) k) (rev l)); reflexivity.
  Qed.
End AutoMapFacts.

(** The projection back to vectors ([CompileTarget::into_module] / what a serializer sees). *)
Definition to_module (m : Machine) : ModuleV0 :=
  mkModuleV0 (progmem m) (labels m) (action_defs m) (command_defs m) (fact_defs m) (struct_defs m)
             (enum_defs m) (codemap m) (globals m).

Definition machine_canonical (m : Machine) : Prop :=
  sorted ActionDef_name (action_defs m) /\ sorted CommandDef_name (command_defs m)
  /\ sorted FactDef_name (fact_defs m) /\ sorted StructDef_name (struct_defs m)
  /\ sorted EnumDef_name (enum_defs m).

Definition from_module_canonical_stmt : Prop := forall md, machine_canonical (from_module md).
Lemma from_module_canonical_proof : from_module_canonical_stmt.
Proof. intros md. repeat split; apply automap_of_list_sorted. Qed.

Definition from_module_to_module_stmt : Prop :=
  forall m, machine_canonical m -> from_module (to_module m) = m.
Lemma from_module_to_module_proof : from_module_to_module_stmt.
Proof.
  intros [p l a c f s e cm g] (Ha & Hc & Hf & Hs & He). cbn in *.
  unfold from_module, to_module.
  cbn [mod_progmem mod_labels mod_action_defs mod_command_defs mod_fact_defs mod_struct_defs mod_enum_defs
       mod_codemap mod_globals progmem labels action_defs command_defs fact_defs struct_defs enum_defs codemap globals].
  rewrite !automap_of_list_id by assumption. reflexivity.
Qed.

Definition from_module_idempotent_stmt : Prop :=
  forall md, from_module (to_module (from_module md)) = from_module md.
Lemma from_module_idempotent_proof : from_module_idempotent_stmt.
Proof. intros md. apply from_module_to_module_proof, from_module_canonical_proof. Qed.

Definition load_lookup_stmt : Prop :=
  forall md k,
    automap_get StructDef_name k (struct_defs (from_module md))
      = find (fun d => String.eqb (StructDef_name d) k) (rev (mod_struct_defs md))
    /\ automap_get FactDef_name k (fact_defs (from_module md))
      = find (fun d => String.eqb (FactDef_name d) k) (rev (mod_fact_defs md))
    /\ automap_get ActionDef_name k (action_defs (from_module md))
      = find (fun d => String.eqb (ActionDef_name d) k) (rev (mod_action_defs md))
    /\ automap_get CommandDef_name k (command_defs (from_module md))
      = find (fun d => String.eqb (CommandDef_name d) k) (rev (mod_command_defs md)).
Lemma load_lookup_proof : load_lookup_stmt.
Proof. intros md k. repeat split; apply get_automap_of_list. Qed.

(** The statement of the second half of C28: for ANY encoder/decoder pair that round-trips modules
    (what the serde and rkyv derives are trusted to do), the machine loaded from the decoded module
    is the machine loaded from the original, and hence every run of it - any entry state, any
    oracle, any fuel, either profile - gives the same result. *)
Definition roundtrip_same_machine_same_runs_stmt : Prop :=
  forall (B : Type) (enc : ModuleV0 -> B) (dec : B -> option ModuleV0),
    (forall md, dec (enc md) = Some md) ->
    forall md,
      exists md', dec (enc md) = Some md'
        /\ from_module md' = from_module md
        /\ forall (St : Type) (dbg : bool) (io : MachineIO St) (fuel : nat) (rs : RunState St),
             run dbg io (from_module md') fuel rs = run dbg io (from_module md) fuel rs
             /\ (forall name args, call_action dbg io (from_module md') fuel name args rs
                                   = call_action dbg io (from_module md) fuel name args rs)
             /\ (forall t e, call_command_policy dbg io (from_module md') fuel t e rs
                             = call_command_policy dbg io (from_module md) fuel t e rs).
Lemma roundtrip_same_machine_same_runs_proof : roundtrip_same_machine_same_runs_stmt.
Proof.
  intros B enc dec Hrt md. exists md. split; [apply Hrt|]. split; [reflexivity|]. intros. repeat split.
Qed.

(** Non-vacuity: a module with a duplicated and unsorted definition vector. *)
Example load_example :
  let md := mkModuleV0 [] [] [] [] []
              [mkStructDef "T" []; mkStructDef "S" [mkField "a" TK_Int]; mkStructDef "S" [mkField "b" TK_Bool]]
              [] None [] in
  struct_defs (from_module md) = [mkStructDef "S" [mkField "b" TK_Bool]; mkStructDef "T" []]
  /\ from_module (to_module (from_module md)) = from_module md
  /\ to_module (from_module md) <> md.
Proof. cbv zeta. repeat split; try (vm_compute; reflexivity). vm_compute. discriminate. Qed.
