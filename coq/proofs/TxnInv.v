(** Invariants of the transaction model and their preservation by every
    client operation (unbounded: induction over arbitrary operation lists). *)
From Aranya Require Import base.Tactics model.Dag model.Txn proofs.TxnGraph.
From Coq Require Import Sorted.

(** split conjunctions only (not records, not iff) *)
Ltac splits := repeat match goal with |- _ /\ _ => split end.

Section Inv.
Context (facts : Type) (fempty : facts) (eval : cmd -> facts -> outcome facts) (has_policy : cmd -> bool)
        (merge_id : N -> N -> N) (facts_effs : facts -> list eff)
        (braid : list (wcmd facts) -> list N -> bres facts) (libc : bool) (gid : N).

Notation wcmd := (Txn.wcmd facts).
Notation store := (Txn.store facts).
Notation persp := (Txn.persp facts).
Notation txn := (Txn.txn facts).
Notation replica := (Txn.replica facts).
Notation R := (TxnGraph.R facts).
Notation commit_heads := (Txn.commit_heads facts libc).
Notation add_single := (Txn.add_single facts eval).
Notation add_merge := (Txn.add_merge facts braid).
Notation add_loop := (Txn.add_loop facts eval braid gid).
Notation init := (Txn.init facts fempty eval has_policy libc gid).
Notation add_commands := (Txn.add_commands facts fempty eval has_policy braid libc gid).
Notation commit := (Txn.commit facts braid libc).
Notation merge_persp := (Txn.merge_persp facts).
Notation collapse_step := (Txn.collapse_step facts merge_id braid).
Notation collapse_go := (Txn.collapse_go facts merge_id braid).
Notation collapse_heads := (Txn.collapse_heads facts merge_id braid).
Notation publish := (Txn.publish facts eval).
Notation do_action := (Txn.do_action facts eval merge_id facts_effs braid libc).
Notation step := (Txn.step facts fempty eval has_policy merge_id facts_effs braid libc gid).
Notation run := (Txn.run facts fempty eval has_policy merge_id facts_effs braid libc gid).
Notation mk_merge := (Txn.mk_merge merge_id).

Implicit Types (W : list wcmd) (w : wcmd) (s : store) (t : txn).

(** * The stored graph *)

(** What is stored with a command is determined by what is stored below it. *)
Definition entry_ok W w : Prop :=
  match cpar (wc w) with
  | PNone => False
  | PSingle a =>
    exists wa, wlookup W a = Some wa /\ wmc w = (wmc wa + 1)%N
               /\ exists effs, eval (wc w) (wfacts wa) = Accept (wfacts w) effs
  | PMerge2 a b =>
    In a (map wid W) /\ In b (map wid W) /\ wmc w = (N.max (wmc_of W a) (wmc_of W b) + 1)%N
    /\ exists effs, braid (reachset W [a; b]) [a; b] = BOk (wfacts w) effs
  end.

Inductive WInv : list wcmd -> Prop :=
| WInv_init c f effs :
    cid c = gid -> cpar c = PNone -> eval c fempty = Accept f effs ->
    WInv [{| wc := c; wmc := 0; wfacts := f |}]
| WInv_cons w r : WInv r -> ~ In (wid w) (map wid r) -> entry_ok r w -> WInv (w :: r).

Lemma entry_ok_parents W w p : entry_ok W w -> In p (parents (wc w)) -> In p (map wid W).
Proof.
  unfold entry_ok, parents. destruct (cpar (wc w)) as [|a|a b]; cbn; [tauto| |].
  - intros (wa & Hl & _) [<-|[]]. apply wlookup_Some in Hl. destruct Hl as [Hi <-]. apply in_map; auto.
  - intros (Ha & Hb & _) [<-|[<-|[]]]; auto.
Qed.

Lemma WInv_wf W : WInv W -> wf_graph (sg W).
Proof.
  induction 1 as [c f effs Hc Hp He | w r Hr IH Hn Hok].
  - cbn. repeat split; auto. unfold parents. cbn. rewrite Hp. cbn. tauto.
  - change (sg (w :: r)) with (wc w :: sg r). cbn [wf_graph]. rewrite ids_sg. repeat split; auto.
    intros p Hp. eapply entry_ok_parents; eauto.
Qed.
Lemma WInv_NoDup W : WInv W -> NoDup (map wid W).
Proof. intros H. rewrite <- ids_sg. apply wf_graph_NoDup. apply WInv_wf; auto. Qed.
Lemma WInv_nonempty W : WInv W -> W <> [].
Proof. destruct 1; discriminate. Qed.

Lemma WInv_app new W : WInv (new ++ W) -> W <> [] -> WInv W.
Proof.
  induction new as [|d new IH]; cbn; auto. intros H Hne. inv H.
  - destruct new; [|discriminate]. cbn in *. subst. congruence.
  - auto.
Qed.

Lemma wmc_of_app new W i : ~ In i (map wid new) -> wmc_of (new ++ W) i = wmc_of W i.
Proof. intros H. unfold wmc_of. rewrite wlookup_app; auto. Qed.

Lemma NoDup_app_disj {A} (l1 l2 : list A) x : NoDup (l1 ++ l2) -> In x l2 -> ~ In x l1.
Proof.
  induction l1 as [|a l1 IH]; cbn; [tauto|]. intros Hn Hx [->|Hin].
  - inv Hn. apply H1. apply in_or_app; auto.
  - inv Hn. apply IH; auto.
Qed.

Lemma entry_ok_grow new W w : WInv (new ++ W) -> entry_ok W w -> entry_ok (new ++ W) w.
Proof.
  intros HW. pose proof (WInv_NoDup _ HW) as Hn. rewrite map_app in Hn.
  assert (Hd : forall i, In i (map wid W) -> ~ In i (map wid new)) by (intros; eapply NoDup_app_disj; eauto).
  unfold entry_ok. destruct (cpar (wc w)) as [|a|a b]; auto.
  - intros (wa & Hl & Hm & He). exists wa. split; auto.
    rewrite wlookup_app; auto. apply Hd. apply wlookup_Some in Hl. destruct Hl as [Hi <-]. apply in_map; auto.
  - intros (Ha & Hb & Hm & He). rewrite map_app. repeat split; try (apply in_or_app; auto).
    + rewrite !wmc_of_app; auto.
    + rewrite reachset_grow; auto.
      * apply WInv_wf; auto.
      * intros h [<-|[<-|[]]]; auto.
Qed.

(** every stored command is the init command or satisfies its equation w.r.t. the whole store *)
Lemma WInv_entry W : WInv W -> forall w, In w W -> cpar (wc w) = PNone \/ entry_ok W w.
Proof.
  induction 1 as [c f effs Hc Hp He | w0 r Hr IH Hn Hok]; intros w Hin.
  - destruct Hin as [<-|[]]. cbn. auto.
  - assert (HW : WInv ([w0] ++ r)) by (cbn; constructor; auto).
    destruct Hin as [<-|Hin].
    + right. apply (entry_ok_grow [w0] r); auto.
    + destruct (IH _ Hin) as [E|E]; auto. right. apply (entry_ok_grow [w0] r); auto.
Qed.

Lemma WInv_init_last W : WInv W -> exists w0 pre, W = pre ++ [w0] /\ wid w0 = gid /\ cpar (wc w0) = PNone.
Proof.
  induction 1 as [c f effs Hc Hp He | w r Hr IH Hn Hok].
  - eexists; exists []. cbn. repeat split; auto.
  - destruct IH as (w0 & pre & -> & H1 & H2). exists w0, (w :: pre). cbn. auto.
Qed.

(** determinism of what is stored *)
Lemma entry_det W w w0 :
  entry_ok W w -> entry_ok W w0 -> wc w = wc w0 -> wfacts w = wfacts w0 /\ wmc w = wmc w0.
Proof.
  unfold entry_ok. intros H H0 E. rewrite E in H. destruct (cpar (wc w0)) as [|a|a b]; [tauto| |].
  - destruct H as (wa & Hl & Hm & effs & He). destruct H0 as (wa' & Hl' & Hm' & effs' & He').
    rewrite Hl in Hl'. inv Hl'. rewrite He in He'. inv He'. split; auto. congruence.
  - destruct H as (_ & _ & Hm & effs & He). destruct H0 as (_ & _ & Hm' & effs' & He').
    rewrite He in He'. inv He'. split; auto. congruence.
Qed.

(** [x] is stored in [W] with exactly these attributes *)
Definition stored W w : Prop :=
  exists w0, wlookup W (wid w) = Some w0 /\ wc w0 = wc w /\ wfacts w0 = wfacts w /\ wmc w0 = wmc w.

Lemma stored_grow new W w : WInv (new ++ W) -> stored W w -> stored (new ++ W) w.
Proof.
  intros HW (w0 & Hl & H). exists w0. split; auto. rewrite wlookup_app; auto.
  pose proof (WInv_NoDup _ HW) as Hn. rewrite map_app in Hn.
  eapply NoDup_app_disj; eauto. apply wlookup_Some in Hl. destruct Hl as [Hi <-]. apply in_map; auto.
Qed.

Lemma cmd_eqb_eq a b : cmd_eqb a b = true -> a = b.
Proof.
  unfold cmd_eqb. intros H. repeat (apply andb_prop in H; destruct H as [H ?]).
  destruct a as [i1 p1 r1 b1], b as [i2 p2 r2 b2]; cbn in *.
  apply N.eqb_eq in H. apply N.eqb_eq in H0. subst. f_equal.
  - unfold prio_eqb, prio_rank in H2. destruct p1, p2; cbn in H2; try discriminate; auto.
    apply andb_prop in H2. destruct H2 as [_ H2]. apply N.eqb_eq in H2. congruence.
  - destruct r1, r2; cbn in H1; try discriminate; auto.
    + apply N.eqb_eq in H1. congruence.
    + apply andb_prop in H1. destruct H1 as [A B]. apply N.eqb_eq in A. apply N.eqb_eq in B. congruence.
Qed.

(** One command offered to [add_all]: it satisfies its equation w.r.t. [W];
    if no id collision is recorded the resulting store is well formed and holds it. *)
Lemma add_one W w cl :
  WInv W -> entry_ok W w ->
  match wlookup W (wid w) with
  | Some w0 => (cl || negb (cmd_eqb (wc w0) (wc w))) = false -> stored W w
  | None => WInv (w :: W) /\ stored (w :: W) w
  end.
Proof.
  intros HW Hok. destruct (wlookup W (wid w)) as [w0|] eqn:El.
  - intros Hc. apply orb_false_elim in Hc. destruct Hc as [_ Hc]. apply negb_false_iff in Hc.
    apply cmd_eqb_eq in Hc. exists w0. split; auto. split; auto.
    pose proof (wlookup_Some _ _ _ _ El) as [Hin _].
    destruct (WInv_entry _ HW _ Hin) as [E|E].
    + unfold entry_ok in Hok. rewrite <- Hc, E in Hok. tauto.
    + destruct (entry_det W w w0 Hok E (eq_sym Hc)) as [A B]. auto.
  - apply wlookup_None in El. split.
    + constructor; auto.
    + exists w. cbn. rewrite N.eqb_refl. auto.
Qed.

Definition ext W W' : Prop := exists new, W' = new ++ W.
Lemma ext_refl W : ext W W. Proof. exists []; auto. Qed.
Lemma ext_trans W1 W2 W3 : ext W1 W2 -> ext W2 W3 -> ext W1 W3.
Proof. intros (a & ->) (b & ->). exists (b ++ a). rewrite app_assoc; auto. Qed.
Lemma ext_cons W w : ext W (w :: W). Proof. exists [w]; auto. Qed.

Lemma stored_ext W W' w : WInv W' -> ext W W' -> stored W w -> stored W' w.
Proof. intros HW (new & ->). apply stored_grow; auto. Qed.

Lemma add_all_flag_mono cs : forall W W' c', add_all cs W true = (W', c') -> c' = true.
Proof.
  induction cs as [|x cs IHc]; cbn; intros W1 W2 c' H; [inv H; auto|].
  destruct (wlookup W1 (wid x)); cbn in H; eapply IHc; eauto.
Qed.

Lemma add_all_app cs1 : forall cs2 W c,
  add_all (cs1 ++ cs2) W c = let '(W1, c1) := add_all cs1 W c in add_all cs2 W1 c1.
Proof.
  induction cs1 as [|x cs1 IH]; intros cs2 W c; cbn [app add_all]; auto.
  destruct (wlookup W (wid x)); apply IH.
Qed.

(** * Perspectives *)
Definition prev_addr (pp0 : prior) (rest : list wcmd) : prior :=
  match rest with w :: _ => PSingle (wid w) | [] => pp0 end.
Definition prev_facts (base : facts) (rest : list wcmd) : facts :=
  match rest with w :: _ => wfacts w | [] => base end.

(** the pending commands (newest first) hang below each other and carry the
    facts the policy computed for them *)
Inductive chain (pp0 : prior) (base : facts) (mc0 : N) : list wcmd -> Prop :=
| chain_nil : chain pp0 base mc0 []
| chain_cons w rest :
    chain pp0 base mc0 rest ->
    cpar (wc w) = prev_addr pp0 rest ->
    wmc w = (mc0 + N.of_nat (length rest))%N ->
    (match rest, pp0 with
     | [], PMerge2 _ _ => wfacts w = base
     | _, _ => exists effs, eval (wc w) (prev_facts base rest) = Accept (wfacts w) effs
     end) ->
    chain pp0 base mc0 (w :: rest).

Definition base_ok W (p : persp) : Prop :=
  match pp p with
  | PNone => False
  | PSingle a => exists wa, wlookup W a = Some wa /\ pbase p = wfacts wa /\ pmc p = (wmc wa + 1)%N
  | PMerge2 a b =>
    In a (map wid W) /\ In b (map wid W) /\ pmc p = (N.max (wmc_of W a) (wmc_of W b) + 1)%N
    /\ (exists effs, braid (reachset W [a; b]) [a; b] = BOk (pbase p) effs) /\ pcmds p <> []
  end.
Definition PInv W (p : persp) : Prop := chain (pp p) (pbase p) (pmc p) (pcmds p) /\ base_ok W p.

Lemma base_ok_grow new W p : WInv (new ++ W) -> base_ok W p -> base_ok (new ++ W) p.
Proof.
  intros HW. pose proof (WInv_NoDup _ HW) as Hn. rewrite map_app in Hn.
  assert (Hd : forall i, In i (map wid W) -> ~ In i (map wid new)) by (intros; eapply NoDup_app_disj; eauto).
  unfold base_ok. destruct (pp p) as [|a|a b]; auto.
  - intros (wa & Hl & H). exists wa. split; auto. rewrite wlookup_app; auto.
    apply Hd. apply wlookup_Some in Hl. destruct Hl as [Hi <-]. apply in_map; auto.
  - intros (Ha & Hb & Hm & He & Hne). rewrite map_app. repeat split; auto; try (apply in_or_app; auto).
    + rewrite !wmc_of_app; auto.
    + rewrite reachset_grow; auto.
      * apply WInv_wf; auto.
      * intros h [<-|[<-|[]]]; auto.
Qed.
Lemma PInv_ext W W' p : WInv W' -> ext W W' -> PInv W p -> PInv W' p.
Proof. intros HW (new & ->) [H1 H2]. split; auto. apply base_ok_grow; auto. Qed.

Lemma base_ok_parents W p a : base_ok W p -> In a (prior_ids (pp p)) -> In a (map wid W).
Proof.
  unfold base_ok. destruct (pp p) as [|x|x y]; cbn; [tauto| |].
  - intros (wa & Hl & _) [<-|[]]. apply wlookup_Some in Hl. destruct Hl as [Hi <-]. apply in_map; auto.
  - intros (Ha & Hb & _) [<-|[<-|[]]]; auto.
Qed.

(** writing the pending commands of a perspective, oldest first *)
Lemma write_chain pp0 base mc0 pcm :
  chain pp0 base mc0 pcm -> forall W W' p,
  pp p = pp0 -> pbase p = base -> pmc p = mc0 -> base_ok W p -> WInv W ->
  add_all (rev pcm) W false = (W', false) ->
  WInv W' /\ ext W W' /\ forall w, In w pcm -> stored W' w.
Proof.
  induction 1 as [|w rest Hch IH Hpar Hmc Hev]; intros W W' p Ep Eb Em Hb HW Ha.
  - cbn in Ha. inv Ha. repeat split; auto using ext_refl. intros w [].
  - cbn [rev] in Ha. rewrite add_all_app in Ha.
    destruct (add_all (rev rest) W false) as [W1 c1] eqn:E1.
    assert (c1 = false).
    { cbn in Ha. destruct (wlookup W1 (wid w)).
      - injection Ha as _ Hc. apply orb_false_elim in Hc. tauto.
      - injection Ha as _ Hc. auto. }
    subst c1. destruct (IH W W1 p Ep Eb Em Hb HW E1) as (HW1 & He1 & Hs1).
    assert (Hok : entry_ok W1 w).
    { destruct He1 as (new & ->). pose proof (base_ok_grow new W p HW1 Hb) as Hb1.
      unfold entry_ok. rewrite Hpar. unfold base_ok in Hb1. rewrite Ep in Hb1.
      destruct rest as [|w' rest0]; cbn [prev_addr].
      - destruct pp0 as [|a|a b]; [tauto| |].
        + destruct Hb1 as (wa & Hl & Hf & Hm). exists wa. split; auto. split.
          * rewrite Hmc. cbn. rewrite <- Em, Hm. lia.
          * cbn [prev_facts] in Hev. rewrite <- Eb, Hf in Hev. auto.
        + destruct Hb1 as (Ha1 & Hb2 & Hm & (effs & He) & _). repeat split; auto.
          * rewrite Hmc. cbn. rewrite <- Em, Hm. lia.
          * exists effs. rewrite Hev, <- Eb. auto.
      - destruct (Hs1 w') as (w0 & Hl & Hc & Hf & Hm0); [cbn; auto|].
        exists w0. split; auto. split.
        + inv Hch. rewrite Hmc, Hm0. match goal with H : wmc w' = _ |- _ => rewrite H end. cbn [length]. lia.
        + cbn [prev_facts] in Hev. rewrite Hf. destruct pp0; auto. }
    cbn [add_all] in Ha. pose proof (add_one W1 w false HW1 Hok) as Hone.
    destruct (wlookup W1 (wid w)) as [w0|] eqn:El.
    + injection Ha as <- Hc.
      specialize (Hone Hc). repeat split; auto. intros x [<-|Hx]; auto.
    + injection Ha as <-. destruct Hone as [HW' Hs]. repeat split; auto.
      * eapply ext_trans; [eauto|apply ext_cons].
      * intros x [<-|Hx]; auto. eapply stored_ext; eauto using ext_cons.
Qed.

(** * Store-level growth *)
Definition sext s s' : Prop :=
  ext (sW s) (sW s') /\ sheads s' = sheads s /\ scache s' = scache s /\ sstamp s' = sstamp s
  /\ sncommit s' = sncommit s /\ (sfree s <= sfree s')%N.
Lemma sext_refl s : sext s s.
Proof. unfold sext. repeat split; auto using ext_refl. lia. Qed.
Lemma sext_trans s1 s2 s3 : sext s1 s2 -> sext s2 s3 -> sext s1 s3.
Proof.
  unfold sext. intros (A1 & A2 & A3 & A4 & A5 & A6) (B1 & B2 & B3 & B4 & B5 & B6).
  repeat split; try congruence; [eapply ext_trans; eauto|lia].
Qed.

Lemma write_ok s p s' hid :
  WInv (sW s) -> PInv (sW s) p -> write s p = Some (s', hid) -> sclash s' = false -> sclash s = false ->
  WInv (sW s') /\ sext s s' /\ (forall w, In w (pcmds p) -> stored (sW s') w)
  /\ exists w rest, pcmds p = w :: rest /\ hid = wid w.
Proof.
  intros HW [Hch Hb] Hw Hc Hc0. unfold write in Hw. destruct (pcmds p) as [|w rest] eqn:Ep; [discriminate|].
  rewrite Hc0 in Hw. destruct (add_all (rev (w :: rest)) (sW s) false) as [W' cl] eqn:Ea. inv Hw. cbn in Hc. subst cl.
  destruct (write_chain _ _ _ _ Hch (sW s) W' p eq_refl eq_refl eq_refl Hb HW Ea) as (HW' & He & Hs).
  cbn [sW]. repeat split; auto; cbn; try lia.
  eauto.
Qed.

(** * Reachability through stored commands *)
Lemma anc_unfold g i c x :
  lookup g i = Some c -> (anc g x i <-> x = i \/ exists q, In q (parents c) /\ anc g x q).
Proof.
  intros Hl. split.
  - intros H. inversion H as [j Hj | a q j (d & Hl' & Hq) Ha]; subst; auto.
    rewrite Hl in Hl'. inv Hl'. right; eauto.
  - intros [->|(q & Hq & Ha)].
    + apply anc_refl. eapply lookup_ids; eauto.
    + apply anc_step with q; auto. exists c; auto.
Qed.

Lemma stored_lookup W w : stored W w -> lookup (sg W) (wid w) = Some (wc w).
Proof. intros (w0 & Hl & Hc & _). rewrite wlookup_lookup, Hl. cbn. congruence. Qed.

Lemma prior_ids_parents c : prior_ids (cpar c) = parents c.
Proof. unfold parents. destruct (cpar c); auto. Qed.

(** what is reachable from the head of a stored chain *)
Lemma chain_reach pp0 base mc0 pcm :
  chain pp0 base mc0 pcm -> forall W w rest, pcm = w :: rest ->
  (forall x, In x pcm -> stored W x) ->
  forall x, anc (sg W) x (wid w) <-> In x (map wid pcm) \/ R W (prior_ids pp0) x.
Proof.
  induction 1 as [|w0 rest0 Hch IH Hpar Hmc Hev]; intros W w rest E Hst x; [discriminate|].
  inv E. rewrite (anc_unfold _ _ _ x (stored_lookup W w (Hst w (or_introl eq_refl)))).
  rewrite <- prior_ids_parents, Hpar. destruct rest as [|w' rest']; cbn [prev_addr prior_ids map In].
  - unfold R. split.
    + intros [->|(q & Hq & Ha)]; eauto.
    + intros [[<-|[]]|(q & Hq & Ha)]; eauto.
  - specialize (IH W w' rest' eq_refl (fun y Hy => Hst y (or_intror Hy))). split.
    + intros [->|(q & [<-|[]] & Ha)]; auto. apply IH in Ha. cbn [map In] in Ha. tauto.
    + intros [[<-|H]|H]; auto; right; exists (wid w'); split; cbn; auto; apply IH; cbn [map In]; tauto.
Qed.

(** * Invariants *)
Definition phead_id (p : persp) : option N :=
  match pcmds p with
  | w :: _ => Some (wid w)
  | [] => match pp p with PSingle a => Some a | _ => None end
  end.
Definition pids t : list N := match tpersp t with Some p => map wid (pcmds p) | None => [] end.

(** holds of every open transaction *)
Record TInv0 W t : Prop := {
  ti_sorted : StronglySorted N.lt (ttips t);
  ti_tips_in : forall x, In x (ttips t) -> In x (map wid W);
  ti_persp : match tpersp t with
             | None => tphead t = None /\ tpparents t = PNone
             | Some p => PInv W p /\ tpparents t = pp p /\ tphead t = phead_id p /\ phead_id p <> None
             end;
  ti_nostamp : tstamp t = None -> ttips t = [] /\ tpersp t = None /\ tadded t = []
}.

(** holds of a transaction whose stamp is still current: its tips are the
    frontier of what it holds, and what it holds is the committed graph plus
    the commands it added *)
Record TFresh s t : Prop := {
  tf_cover : forall h, In h (sheads s) -> R (sW s) (ttips t) h;
  tf_anti : forall a b, In a (ttips t) -> In b (ttips t) -> anc (sg (sW s)) a b -> a = b;
  tf_par : match tpersp t with
           | Some p => forall a, In a (prior_ids (pp p)) -> R (sW s) (ttips t) a
           | None => True
           end;
  tf_fresh : forall x, In x (pids t) -> ~ R (sW s) (ttips t) x;
  tf_acct : forall x, (R (sW s) (ttips t) x \/ In x (pids t)) <-> (R (sW s) (sheads s) x \/ In x (tadded t))
}.

Definition stamp_ok s t : Prop :=
  match tstamp t with
  | None => True
  | Some o => (o <= sstamp s)%N /\ (tseen t <= sncommit s)%N /\ (o = sstamp s <-> tseen t = sncommit s)
  end.

Definition TInv s t : Prop := TInv0 (sW s) t /\ (tstamp t = Some (sstamp s) -> TFresh s t) /\ stamp_ok s t.

Record SInv s : Prop := {
  si_W : WInv (sW s);
  si_heads_ne : sheads s <> [];
  si_sorted : StronglySorted N.lt (sheads s);
  si_heads_in : forall h, In h (sheads s) -> In h (map wid (sW s));
  si_anti : forall a b, In a (sheads s) -> In b (sheads s) -> anc (sg (sW s)) a b -> a = b;
  si_cache : match sheads s with
             | [h] => exists wh, wlookup (sW s) h = Some wh /\ scache s = wfacts wh
             | _ => exists effs, braid (reachset (sW s) (sheads s)) (sheads s) = BOk (scache s) effs
             end;
  si_stamp : libc = true -> (sstamp s < sfree s)%N;
  si_clash : sclash s = false
}.

(** ** stability under growth of the stored graph *)
Lemma ids_ext W W' i : ext W W' -> In i (map wid W) -> In i (map wid W').
Proof. intros (new & ->) H. rewrite map_app. apply in_or_app; auto. Qed.

Lemma anc_ext W W' x h :
  WInv W' -> ext W W' -> In h (map wid W) -> (anc (sg W') x h <-> anc (sg W) x h).
Proof.
  intros HW (new & ->) Hh. unfold sg. rewrite map_app. apply anc_app.
  - rewrite <- map_app. apply (WInv_wf _ HW).
  - fold (sg W). rewrite ids_sg; auto.
Qed.
Lemma R_ext W W' hs x :
  WInv W' -> ext W W' -> (forall h, In h hs -> In h (map wid W)) -> (R W' hs x <-> R W hs x).
Proof. intros HW (new & ->) H. apply R_grow; auto. apply WInv_wf; auto. Qed.
Lemma reachset_ext W W' hs :
  WInv W' -> ext W W' -> (forall h, In h hs -> In h (map wid W)) -> reachset W' hs = reachset W hs.
Proof. intros HW (new & ->) H. apply reachset_grow; auto. apply WInv_wf; auto. Qed.
Lemma wlookup_ext W W' i w : WInv W' -> ext W W' -> wlookup W i = Some w -> wlookup W' i = Some w.
Proof.
  intros HW (new & ->) Hl. rewrite wlookup_app; auto.
  pose proof (WInv_NoDup _ HW) as Hn. rewrite map_app in Hn. eapply NoDup_app_disj; eauto.
  apply wlookup_Some in Hl. destruct Hl as [Hi <-]. apply in_map; auto.
Qed.

Lemma TInv0_ext W W' t : WInv W' -> ext W W' -> TInv0 W t -> TInv0 W' t.
Proof.
  intros HW He [H1 H2 H3 H4]. constructor; auto.
  - intros x Hx. eapply ids_ext; eauto.
  - destruct (tpersp t) as [p|]; auto. destruct H3 as (A & B & C & D). repeat split; auto.
    + apply A.
    + destruct A as [_ A]. destruct He as (new & ->). apply base_ok_grow; auto.
Qed.

Lemma TFresh_sext s s' t :
  SInv s -> TInv0 (sW s) t -> sext s s' -> WInv (sW s') -> TFresh s t -> TFresh s' t.
Proof.
  intros HS HT (He & Eh & _) HW [F1 F2 F3 F4 F5].
  assert (Rt : forall x, R (sW s') (ttips t) x <-> R (sW s) (ttips t) x)
    by (intros; apply R_ext; auto; apply (ti_tips_in _ _ HT)).
  assert (Rh : forall x, R (sW s') (sheads s) x <-> R (sW s) (sheads s) x)
    by (intros; apply R_ext; auto; apply (si_heads_in _ HS)).
  constructor; rewrite ?Eh.
  - intros h Hh. apply Rt; auto.
  - intros a b Ha Hb Hanc. apply F2; auto.
    apply (proj1 (anc_ext (sW s) (sW s') a b HW He (ti_tips_in _ _ HT b Hb))); auto.
  - destruct (tpersp t); auto. intros a Ha. apply Rt; auto.
  - intros x Hx Hr. apply (F4 x Hx). apply Rt; auto.
  - intros x. rewrite Rt, Rh. auto.
Qed.

Lemma stamp_ok_sext s s' t : sext s s' -> stamp_ok s t -> stamp_ok s' t.
Proof.
  intros (_ & _ & _ & E1 & E2 & _). unfold stamp_ok. destruct (tstamp t); auto. rewrite E1, E2. auto.
Qed.

Lemma TInv_sext s s' t : SInv s -> sext s s' -> WInv (sW s') -> TInv s t -> TInv s' t.
Proof.
  intros HS He HW (H0 & Hf & Hs). pose proof He as (He1 & _ & _ & E1 & _).
  split; [|split].
  - eapply TInv0_ext; eauto.
  - rewrite E1. intros Hst. eapply TFresh_sext; eauto.
  - eapply stamp_ok_sext; eauto.
Qed.

Lemma SInv_sext s s' : SInv s -> sext s s' -> WInv (sW s') -> sclash s' = false -> SInv s'.
Proof.
  intros [S1 S2 S3 S4 S5 S6 S7 S8] (He & Eh & Ec & Es & En & Ef) HW Hc.
  constructor; rewrite ?Eh, ?Ec, ?Es; auto.
  - intros h Hh. eapply ids_ext; eauto.
  - intros a b Ha Hb Hanc. apply S5; auto.
    apply (proj1 (anc_ext (sW s) (sW s') a b HW He (S4 b Hb))); auto.
  - destruct (sheads s) as [|h [|h2 hs]] eqn:E; [congruence| |].
    + destruct S6 as (wh & Hl & Hf). exists wh. split; auto. eapply wlookup_ext; eauto.
    + rewrite reachset_ext with (W := sW s); auto.
  - intros Hl. specialize (S7 Hl). lia.
Qed.

(** ** writing out the in-flight perspective *)
Lemma fold_trem_In ids : forall l x, StronglySorted N.lt l ->
  (In x (fold_left (fun l i => trem i l) ids l) <-> In x l /\ ~ In x ids).
Proof.
  induction ids as [|i ids IH]; intros l x Hs; cbn [fold_left].
  - cbn. tauto.
  - rewrite IH by (apply trem_sorted; auto). rewrite trem_In by auto. cbn. intuition.
Qed.
Lemma fold_trem_sorted ids : forall l, StronglySorted N.lt l -> StronglySorted N.lt (fold_left (fun l i => trem i l) ids l).
Proof. induction ids as [|i ids IH]; intros l Hs; cbn; auto. apply IH. apply trem_sorted; auto. Qed.

(** The graph argument: replacing the parents [P] of a written chain [C] by its head
    keeps the tips an antichain covering everything held. *)
Lemma write_fresh W W' (tips tips' heads P C : list N) hid :
  WInv W -> WInv W' -> ext W W' ->
  (forall x, In x tips -> In x (map wid W)) -> (forall x, In x P -> In x (map wid W)) ->
  (forall x, In x heads -> In x (map wid W)) ->
  (forall x, anc (sg W') x hid <-> In x C \/ R W' P x) ->
  In hid C ->
  (forall x, In x tips' <-> x = hid \/ (In x tips /\ ~ In x P)) ->
  (forall h, In h heads -> R W tips h) ->
  (forall a b, In a tips -> In b tips -> anc (sg W) a b -> a = b) ->
  (forall a, In a P -> R W tips a) ->
  (forall x, In x C -> ~ R W tips x) ->
  (forall h, In h heads -> R W' tips' h)
  /\ (forall a b, In a tips' -> In b tips' -> anc (sg W') a b -> a = b)
  /\ (forall x, R W' tips' x <-> R W tips x \/ In x C).
Proof.
  intros HW HW' He Htin HPin Hhin F1 HhC Hmem Hcov Hanti Hpar Hfresh.
  assert (Hwf : wf_graph (sg W)) by (apply WInv_wf; auto).
  assert (Rt : forall hs x, (forall h, In h hs -> In h (map wid W)) -> (R W' hs x <-> R W hs x))
    by (intros; apply R_ext; auto).
  assert (Ae : forall x h, In h (map wid W) -> (anc (sg W') x h <-> anc (sg W) x h))
    by (intros; apply anc_ext; auto).
  (* reachability from the new tips *)
  assert (Hreach : forall x, R W' tips' x <-> R W tips x \/ In x C).
  { intros x. split.
    - intros (t0 & Ht0 & Ha). apply Hmem in Ht0. destruct Ht0 as [->|[Ht0 Hn]].
      + apply F1 in Ha. destruct Ha as [Ha|Ha]; auto. left.
        apply Rt in Ha; auto. destruct Ha as (q & Hq & Ha). eapply R_trans; eauto.
      + left. exists t0. split; auto. apply Ae; auto.
    - intros [(t0 & Ht0 & Ha)|Hc].
      + destruct (in_dec N.eq_dec t0 P) as [Hp|Hp].
        * exists hid. split; [apply Hmem; auto|]. apply F1. right. apply Rt; auto. exists t0. auto.
        * exists t0. split; [apply Hmem; auto|]. apply Ae; auto.
      + exists hid. split; [apply Hmem; auto|]. apply F1. auto. }
  split; [|split]; auto.
  - intros h Hh. apply Hreach. left. auto.
  - intros a b Ha Hb Hanc. apply Hmem in Ha. apply Hmem in Hb.
    destruct Ha as [->|[Ha Hna]], Hb as [->|[Hb Hnb]]; auto.
    + (* hid below an old tip: hid would be reachable from the old tips *)
      exfalso. apply (Hfresh hid HhC). exists b. split; auto. apply Ae; auto.
    + (* an old tip below hid *)
      apply F1 in Hanc. destruct Hanc as [Hc|Hr].
      * exfalso. apply (Hfresh a Hc). apply R_self; auto.
      * apply Rt in Hr; auto. destruct Hr as (q & Hq & Haq).
        destruct (Hpar q Hq) as (t0 & Ht0 & Hqt).
        assert (a = t0) by (apply Hanti; auto; eapply anc_trans; eauto). subst t0.
        assert (a = q) by (eapply anc_antisym; eauto). subst q. tauto.
    + apply Hanti; auto. apply Ae; auto.
Qed.

Definition tclear t : txn :=
  {| tstamp := tstamp t; tpersp := None; tphead := None; tpparents := PNone; ttips := ttips t;
     tseen := tseen t; tadded := tadded t |}.

Lemma TInv_clear s t :
  TInv s t -> pids t = [] -> TInv s (tclear t).
Proof.
  intros (H0 & Hf & Hs) Hp. split; [|split]; auto.
  - destruct H0 as [A B C D]. constructor; cbn; auto.
    intros E. destruct (D E) as (D1 & D2 & D3). auto.
  - cbn. intros E. destruct (Hf E) as [F1 F2 F3 F4 F5]. constructor; cbn; auto.
    intros x. rewrite <- F5. rewrite Hp. unfold pids; cbn. tauto.
Qed.

Lemma write_perspective_ok s t s1 t1 e :
  SInv s -> TInv s t -> write_perspective s t = (s1, t1, e) -> sclash s1 = false ->
  SInv s1 /\ sext s s1 /\ TInv s1 t1 /\ tpersp t1 = None
  /\ tstamp t1 = tstamp t /\ tseen t1 = tseen t /\ tadded t1 = tadded t
  /\ (tstamp t = Some (sstamp s) ->
      forall x, R (sW s1) (ttips t1) x <-> (R (sW s) (ttips t) x \/ In x (pids t))).
Proof.
  intros HS HT Hw Hc. unfold write_perspective in Hw.
  destruct (tpersp t) as [p|] eqn:Ep.
  2:{ inv Hw. splits; auto using sext_refl.
      intros _ x. unfold pids. rewrite Ep. cbn. tauto. }
  fold (tclear t) in Hw.
  pose proof HT as (H0 & Hf & Hst). pose proof H0 as [T1 T2 T3 T4]. rewrite Ep in T3.
  destruct T3 as (HP & Epp & Eph & Hphn).
  (* a perspective without commands *)
  assert (Hempty : pcmds p = [] ->
           SInv s /\ sext s s /\ TInv s (tclear t) /\ tpersp (tclear t) = None
           /\ tstamp (tclear t) = tstamp t /\ tseen (tclear t) = tseen t /\ tadded (tclear t) = tadded t
           /\ (tstamp t = Some (sstamp s) ->
               forall x, R (sW s) (ttips (tclear t)) x <-> (R (sW s) (ttips t) x \/ In x (pids t)))).
  { intros E. assert (Hp0 : pids t = []) by (unfold pids; rewrite Ep, E; auto).
    splits; auto using sext_refl.
    - apply TInv_clear; auto.
    - intros _ x. cbn. rewrite Hp0. cbn. tauto. }
  destruct (match tpparents t with
            | PSingle parent => match tphead t with Some ph => (ph =? parent)%N | None => false end
            | _ => false end) eqn:Etest.
  { (* the emptiness test fired *)
    inv Hw.
    destruct (pcmds p) as [|w rest] eqn:Ec; [apply Hempty; auto|].
    (* non-empty but head id = parent id: impossible for a current transaction; in any case the
       invariant survives dropping the perspective only when nothing is pending *)
    destruct (tpparents t) as [|parent|] eqn:Epar; try discriminate.
    destruct (tphead t) as [ph|] eqn:Eh; try discriminate. apply N.eqb_eq in Etest. subst ph.
    unfold phead_id in Eph. rewrite Ec in Eph. inv Eph.
    (* stale or current, we show the invariant of the cleared transaction directly *)
    assert (Hstale : tstamp t = Some (sstamp s1) -> False).
    { intros E. destruct (Hf E) as [F1 F2 F3 F4 F5]. rewrite Ep in F3.
      apply (F4 (wid w)).
      + unfold pids. rewrite Ep, Ec. cbn; auto.
      + apply F3. rewrite <- Epp. cbn. auto. }
    splits; auto using sext_refl.
    - split; [|split]; auto.
      + destruct H0 as [A B C D]. constructor; cbn; auto.
        intros E. destruct (D E) as (_ & D2 & _). congruence.
      + cbn. intros E. tauto.
    - intros E. tauto. }
  destruct (write s p) as [[s' hid]|] eqn:Ewr.
  2:{ inv Hw. apply Hempty. unfold write in Ewr. destruct (pcmds p); auto.
      destruct (add_all _ _ _); discriminate. }
  inv Hw.
  destruct (write_ok s p s1 hid (si_W _ HS) HP Ewr Hc (si_clash _ HS)) as (HW' & Hse & Hsto & w & rest & Ec & ->).
  assert (HS1 : SInv s1) by (eapply SInv_sext; eauto).
  pose proof Hse as (He & Eh & _ & Est & _).
  set (tips' := tins (wid w) (fold_left (fun l i => trem i l) (prior_ids (tpparents t)) (ttips t))).
  assert (Hmem : forall x, In x tips' <-> x = wid w \/ (In x (ttips t) /\ ~ In x (prior_ids (pp p)))).
  { intros x. unfold tips'. rewrite tins_In, fold_trem_In, Epp by auto. tauto. }
  assert (Hsorted : StronglySorted N.lt tips') by (apply tins_sorted, fold_trem_sorted; auto).
  assert (Hin' : forall x, In x tips' -> In x (map wid (sW s1))).
  { intros x Hx. apply Hmem in Hx. destruct Hx as [->|[Hx _]].
    - destruct (Hsto w) as (w0 & Hl & _); [rewrite Ec; cbn; auto|].
      apply wlookup_Some in Hl. destruct Hl as [Hi <-]. apply in_map; auto.
    - eapply ids_ext; eauto. }
  assert (F1 : forall x, anc (sg (sW s1)) x (wid w) <-> In x (map wid (pcmds p)) \/ R (sW s1) (prior_ids (pp p)) x).
  { destruct HP as [Hch _]. eapply chain_reach; eauto. }
  splits; auto; [split; [|split]|].
  - (* TInv0 *)
    constructor; cbn; auto.
    intros E. destruct (T4 E) as (_ & D2 & _). congruence.
  - (* TFresh *)
    cbn [tstamp]. rewrite Est. intros E. destruct (Hf E) as [G1 G2 G3 G4 G5]. rewrite Ep in G3.
    destruct (write_fresh (sW s) (sW s1) (ttips t) tips' (sheads s) (prior_ids (pp p)) (map wid (pcmds p)) (wid w))
      as (C1 & C2 & C3); auto.
    + apply (si_W _ HS).
    + intros x Hx. destruct HP as [_ Hb]. eapply base_ok_parents; eauto.
    + apply (si_heads_in _ HS).
    + rewrite Ec. cbn; auto.
    + intros x Hx. apply G4. unfold pids. rewrite Ep. auto.
    + constructor; cbn; rewrite ?Eh; auto.
      intros x. rewrite C3. unfold pids in G5. rewrite Ep in G5. rewrite G5.
        rewrite (R_ext (sW s) (sW s1) (sheads s)); auto; [tauto|apply (si_heads_in _ HS)].
  - eapply stamp_ok_sext; eauto.
  - (* accounting *)
    intros E x. cbn [ttips]. destruct (Hf E) as [G1 G2 G3 G4 G5]. rewrite Ep in G3.
    destruct (write_fresh (sW s) (sW s1) (ttips t) tips' (sheads s) (prior_ids (pp p)) (map wid (pcmds p)) (wid w))
      as (C1 & C2 & C3); auto.
    + apply (si_W _ HS).
    + intros y Hy. destruct HP as [_ Hb]. eapply base_ok_parents; eauto.
    + apply (si_heads_in _ HS).
    + rewrite Ec. cbn; auto.
    + intros y Hy. apply G4. unfold pids. rewrite Ep. auto.
    + rewrite C3. unfold pids. rewrite Ep. tauto.
Qed.

(** ** [locate], [get_perspective], [add_single], [add_merge] *)
Lemma locate_spec s t i : WInv (sW s) -> (locate s t i = true <-> R (sW s) (sheads s ++ ttips t) i).
Proof. intros HW. unfold locate. rewrite mem_In, closure_spec; [tauto|apply WInv_wf; auto]. Qed.

Lemma prior_eqb_eq a b : prior_eqb a b = true -> a = b.
Proof.
  destruct a, b; cbn; try discriminate; auto.
  - intros H. apply N.eqb_eq in H. congruence.
  - intros H. apply andb_prop in H. destruct H as [A B]. apply N.eqb_eq in A. apply N.eqb_eq in B. congruence.
Qed.
Lemma includes_false (p : persp) i : includes p i = false -> ~ In i (map wid (pcmds p)).
Proof.
  unfold includes. intros H Hin. apply in_map_iff in Hin. destruct Hin as (w & <- & Hw).
  assert (existsb (fun w0 : wcmd => (wid w0 =? wid w)%N) (pcmds p) = true)
    by (apply existsb_exists; exists w; split; auto; apply N.eqb_refl).
  congruence.
Qed.

Lemma R_heads_tips s t x :
  WInv (sW s) -> TFresh s t -> R (sW s) (sheads s ++ ttips t) x -> R (sW s) (ttips t) x.
Proof.
  intros HW F H. apply R_app in H. destruct H as [H|H]; auto.
  eapply R_mono; [|exact H]. apply (tf_cover _ _ F).
Qed.

Definition held s t x : Prop := R (sW s) (ttips t) x \/ In x (pids t).

Lemma get_perspective_ok s t parent s1 t1 r :
  SInv s -> TInv s t -> tstamp t <> None ->
  get_perspective s t parent = (s1, t1, r) -> sclash s1 = false ->
  SInv s1 /\ sext s s1 /\ TInv s1 t1
  /\ tstamp t1 = tstamp t /\ tseen t1 = tseen t /\ tadded t1 = tadded t
  /\ (tstamp t = Some (sstamp s) -> forall x, held s1 t1 x <-> held s t x)
  /\ match r with inl p => tpersp t1 = Some p | inr _ => True end.
Proof.
  intros HS HT Hns Hg Hc. unfold get_perspective in Hg.
  destruct (match tphead t with Some ph => (ph =? parent)%N | None => false end) eqn:Eph.
  { destruct (tpersp t) as [p|] eqn:Ep; inv Hg; splits; auto using sext_refl; intros; tauto. }
  destruct (write_perspective s t) as [[s' t'] e] eqn:Ew.
  destruct e as [err|].
  { inv Hg. destruct (write_perspective_ok _ _ _ _ _ HS HT Ew Hc) as (A & B & C & D & E1 & E2 & E3 & F).
    assert (Hp1 : pids t1 = []) by (unfold pids; rewrite D; auto).
    splits; auto. intros Hf x. unfold held. rewrite (F Hf), Hp1. cbn. tauto. }
  assert (Hc' : sclash s' = false).
  { destruct (locate s' t' parent); [destruct (get_linear_perspective (sW s') parent)|]; inv Hg; auto. }
  destruct (write_perspective_ok _ _ _ _ _ HS HT Ew Hc') as (A & B & C & D & E1 & E2 & E3 & F).
  assert (Hheld : tstamp t = Some (sstamp s) -> forall x, held s' t' x <-> held s t x).
  { assert (Hp1 : pids t' = []) by (unfold pids; rewrite D; auto).
    intros Hf x. unfold held. rewrite (F Hf), Hp1. cbn. tauto. }
  destruct (locate s' t' parent) eqn:El.
  2:{ inv Hg. splits; auto. }
  destruct (get_linear_perspective (sW s') parent) as [p|] eqn:Eg.
  2:{ inv Hg. splits; auto. }
  inv Hg. unfold get_linear_perspective in Eg. destruct (wlookup (sW s1) parent) as [wp|] eqn:Elk; inv Eg.
  pose proof C as (C0 & Cf & Cs). pose proof C0 as [T1 T2 T3 T4].
  splits; auto.
  - split; [|split].
    + constructor; cbn; auto.
      * splits; auto; try discriminate. split; [constructor|]. unfold base_ok. cbn. exists wp. auto.
      * intros E. rewrite E1 in E. tauto.
    + cbn [tstamp set_persp]. intros E. destruct (Cf E) as [G1 G2 G3 G4 G5]. rewrite D in G3.
      constructor; cbn; auto.
      * intros a [<-|[]]. apply R_heads_tips; auto; [apply (si_W _ A)|].
        apply locate_spec in El; auto. apply (si_W _ A).
      * intros x. rewrite <- G5. unfold pids. rewrite D. cbn. tauto.
    + exact Cs.
  - intros Hf x. rewrite <- (Hheld Hf). unfold held, pids. cbn. rewrite D. cbn. tauto.
Qed.

Lemma chain_prev_facts (p : persp) : prev_facts (pbase p) (pcmds p) = pfacts p.
Proof. unfold prev_facts, pfacts. destruct (pcmds p); auto. Qed.
Lemma chain_prev_addr (p : persp) : prev_addr (pp p) (pcmds p) = phead_addr p.
Proof. unfold prev_addr, phead_addr. destruct (pcmds p); auto. Qed.

Lemma add_single_ok s t c parent s1 t1 l e :
  SInv s -> TInv s t -> tstamp t <> None ->
  ~ In (cid c) (pids t) -> (tstamp t = Some (sstamp s) -> ~ R (sW s) (ttips t) (cid c)) ->
  add_single s t c parent = (s1, t1, l, e) -> sclash s1 = false ->
  SInv s1 /\ sext s s1 /\ TInv s1 t1 /\ tstamp t1 = tstamp t /\ tseen t1 = tseen t
  /\ (tstamp t = Some (sstamp s) -> forall x, held s1 t1 x <-> (held s t x \/ (e = None /\ x = cid c)))
  /\ tadded t1 = (match e with None => cid c :: tadded t | Some _ => tadded t end).
Proof.
  intros HS HT Hns Hnp Hnr Ha Hc. unfold add_single in Ha.
  destruct (get_perspective s t parent) as [[s' t'] r] eqn:Eg.
  assert (Hc' : sclash s' = false).
  { destruct r as [p|err]; [|inv Ha; auto]. destruct (eval c (pfacts p)); [destruct (add_command p c f)|]; inv Ha; auto. }
  destruct (get_perspective_ok _ _ _ _ _ _ HS HT Hns Eg Hc') as (A & B & C & E1 & E2 & E3 & Hh & Hr).
  destruct r as [p|err].
  2:{ inv Ha. splits; auto. intros Hf x. rewrite (Hh Hf). intuition congruence. }
  destruct (eval c (pfacts p)) as [f effs|err dirty effs] eqn:Ee.
  2:{ inv Ha. splits; auto. intros Hf x. rewrite (Hh Hf). intuition congruence. }
  destruct (add_command p c f) as [p'|] eqn:Eac.
  2:{ inv Ha. splits; auto. intros Hf x. rewrite (Hh Hf). intuition congruence. }
  inv Ha. unfold add_command in Eac. destruct (prior_eqb (cpar c) (phead_addr p)) eqn:Epe; inv Eac.
  apply prior_eqb_eq in Epe.
  pose proof C as (C0 & Cf & Cs). pose proof C0 as [T1 T2 T3 T4]. rewrite Hr in T3.
  destruct T3 as ((Hch & Hb) & Epp & Ephd & Hphn).
  set (wnew := {| wc := c; wmc := (pmc p + N.of_nat (length (pcmds p)))%N; wfacts := f |}).
  splits; auto.
  - split; [|split].
    + constructor; cbn; auto.
      * splits; auto; try discriminate. split; cbn.
        -- apply chain_cons; [exact Hch | rewrite chain_prev_addr; exact Epe | reflexivity | ].
           rewrite chain_prev_facts. cbn [wc wfacts].
           destruct (pcmds p) eqn:Epc; [|eauto]. destruct (pp p) eqn:Eppp; eauto.
           unfold base_ok in Hb. rewrite Eppp, Epc in Hb. tauto.
        -- unfold base_ok in *. cbn. destruct (pp p); auto. destruct Hb as (B1 & B2 & B3 & B4 & B5).
           splits; auto. discriminate.
      * intros E. rewrite E1 in E. tauto.
    + cbn [tstamp set_persp]. intros E. destruct (Cf E) as [G1 G2 G3 G4 G5]. rewrite Hr in G3.
      assert (Hf : tstamp t = Some (sstamp s)).
      { rewrite <- E1. destruct B as (_ & _ & _ & <- & _). auto. }
      constructor; cbn; auto.
      * intros x [<-|Hx].
        -- intros Hreach. apply (Hnr Hf). destruct (Hh Hf (cid c)) as [H1 _].
           destruct H1 as [H1|H1]; [left; auto|auto|tauto].
        -- apply G4. unfold pids. rewrite Hr. auto.
      * intros x. unfold pids in G5. rewrite Hr in G5.
        specialize (G5 x). change (wid wnew) with (cid c). tauto.
    + exact Cs.
  - intros Hf x. rewrite <- (Hh Hf). unfold held, pids. cbn. rewrite Hr. cbn. intuition.
  - cbn. rewrite E3. auto.
Qed.

(** ** the collision flag is monotone *)
Definition cmono s s' : Prop := sclash s = true -> sclash s' = true.
Lemma cmono_refl s : cmono s s. Proof. unfold cmono; auto. Qed.
Lemma cmono_trans a b c : cmono a b -> cmono b c -> cmono a c. Proof. unfold cmono; auto. Qed.
Lemma cmono_false s s' : cmono s s' -> sclash s' = false -> sclash s = false.
Proof. unfold cmono. destruct (sclash s); auto. intros H E. rewrite H in E; auto. Qed.

Lemma write_cmono s (p : persp) s' hid : write s p = Some (s', hid) -> cmono s s'.
Proof.
  unfold write, cmono. destruct (pcmds p); [discriminate|].
  destruct (add_all _ _ _) as [W' cl] eqn:E. intros H Hc. inv H. cbn. rewrite Hc in E.
  eapply add_all_flag_mono; eauto.
Qed.
Lemma write_perspective_cmono s t s1 t1 e : write_perspective s t = (s1, t1, e) -> cmono s s1.
Proof.
  unfold write_perspective. destruct (tpersp t) as [p|]; [|intros H; inv H; apply cmono_refl].
  destruct (match tpparents t with PSingle parent => _ | _ => false end); [intros H; inv H; apply cmono_refl|].
  destruct (write s p) as [[s' hid]|] eqn:E; intros H; inv H; [eapply write_cmono; eauto|apply cmono_refl].
Qed.
Lemma get_perspective_cmono s t parent s1 t1 r : get_perspective s t parent = (s1, t1, r) -> cmono s s1.
Proof.
  unfold get_perspective. destruct (match tphead t with Some ph => _ | None => false end).
  { destruct (tpersp t); intros H; inv H; apply cmono_refl. }
  destruct (write_perspective s t) as [[s' t'] e] eqn:E. apply write_perspective_cmono in E.
  destruct e; [intros H; inv H; auto|].
  destruct (locate s' t' parent); [destruct (get_linear_perspective (sW s') parent)|]; intros H; inv H; auto.
Qed.
Lemma add_single_cmono s t c parent s1 t1 l e : add_single s t c parent = (s1, t1, l, e) -> cmono s s1.
Proof.
  unfold add_single. destruct (get_perspective s t parent) as [[s' t'] r] eqn:E. apply get_perspective_cmono in E.
  destruct r as [p|]; [|intros H; inv H; auto].
  destruct (eval c (pfacts p)); [destruct (add_command p c f)|]; intros H; inv H; auto.
Qed.
Lemma add_merge_cmono s t c l r s1 t1 lg e : add_merge s t c l r = (s1, t1, lg, e) -> cmono s s1.
Proof.
  unfold add_merge. destruct (write_perspective s t) as [[s' t'] e'] eqn:E. apply write_perspective_cmono in E.
  destruct e'; [intros H; inv H; auto|].
  destruct (negb (locate s' t' l)); [intros H; inv H; auto|].
  destruct (negb (locate s' t' r)); [intros H; inv H; auto|].
  destruct (braid _ _); try solve [intros H; inv H; auto].
  destruct (merge_persp _ _ _ _ _); intros H; inv H; auto.
Qed.
Lemma add_loop_cmono cs : forall s t count log s1 t1 l r,
  add_loop s t cs count log = (s1, t1, l, r) -> cmono s s1.
Proof.
  induction cs as [|c cs IH]; intros s t count log s1 t1 l r H; cbn [Txn.add_loop] in H.
  - inv H. apply cmono_refl.
  - destruct (match tpersp t with Some p => includes p (cid c) | None => false end); [eapply IH; eauto|].
    destruct (locate s t (cid c)); [eapply IH; eauto|].
    destruct (cpar c) as [|parent|a b].
    + destruct (cid c =? gid)%N; [eapply IH; eauto|]. inv H. apply cmono_refl.
    + destruct (add_single s t c parent) as [[[s' t'] l'] e] eqn:E. apply add_single_cmono in E.
      destruct e; [inv H; auto|]. eapply cmono_trans; eauto.
    + destruct (add_merge s t c a b) as [[[s' t'] l'] e] eqn:E. apply add_merge_cmono in E.
      destruct e; [inv H; auto|]. eapply cmono_trans; eauto.
Qed.

Lemma add_merge_ok s t c l r s1 t1 lg e :
  SInv s -> TInv s t -> tstamp t <> None ->
  ~ In (cid c) (pids t) -> (tstamp t = Some (sstamp s) -> ~ R (sW s) (ttips t) (cid c)) ->
  add_merge s t c l r = (s1, t1, lg, e) -> sclash s1 = false ->
  SInv s1 /\ sext s s1 /\ TInv s1 t1 /\ tstamp t1 = tstamp t /\ tseen t1 = tseen t
  /\ (tstamp t = Some (sstamp s) -> forall x, held s1 t1 x <-> (held s t x \/ (e = None /\ x = cid c)))
  /\ tadded t1 = (match e with None => cid c :: tadded t | Some _ => tadded t end).
Proof.
  intros HS HT Hns Hnp Hnr Ha Hc. unfold add_merge in Ha.
  destruct (write_perspective s t) as [[s' t'] e'] eqn:Ew.
  assert (Hc' : sclash s' = false).
  { destruct e'; [inv Ha; auto|].
    destruct (negb (locate s' t' l)); [inv Ha; auto|]. destruct (negb (locate s' t' r)); [inv Ha; auto|].
    destruct (braid _ _); try solve [inv Ha; auto]. destruct (merge_persp _ _ _ _ _); inv Ha; auto. }
  destruct (write_perspective_ok _ _ _ _ _ HS HT Ew Hc') as (A & B & C & D & E1 & E2 & E3 & F).
  assert (Hp1 : pids t' = []) by (unfold pids; rewrite D; auto).
  assert (Hh : tstamp t = Some (sstamp s) -> forall x, held s' t' x <-> held s t x).
  { intros Hf x. unfold held. rewrite (F Hf), Hp1. cbn. tauto. }
  assert (Herr : forall err : cerr, SInv s' /\ sext s s' /\ TInv s' t' /\ tstamp t' = tstamp t /\ tseen t' = tseen t
    /\ (tstamp t = Some (sstamp s) -> forall x, held s' t' x <-> (held s t x \/ (Some err = None /\ x = cid c)))
    /\ tadded t' = tadded t).
  { intros err. splits; auto. intros Hf x. rewrite (Hh Hf). intuition congruence. }
  destruct e' as [err|]; [inv Ha; apply Herr|].
  destruct (locate s' t' l) eqn:Ll; cbn [negb] in Ha; [|inv Ha; apply Herr].
  destruct (locate s' t' r) eqn:Lr; cbn [negb] in Ha; [|inv Ha; apply Herr].
  destruct (braid (reachset (sW s') [l; r]) [l; r]) as [f effs| |err effs|] eqn:Eb; try solve [inv Ha; apply Herr].
  destruct (merge_persp (sW s') c l r f) as [p|] eqn:Em; [|inv Ha; apply Herr].
  inv Ha. unfold Txn.merge_persp, add_command in Em. cbn [phead_addr pcmds pp] in Em.
  destruct (prior_eqb (cpar c) (PMerge2 l r)) eqn:Epe; inv Em. apply prior_eqb_eq in Epe.
  pose proof C as (C0 & Cf & Cs). pose proof C0 as [T1 T2 T3 T4].
  pose proof (si_W _ A) as HW1.
  apply locate_spec in Ll; auto. apply locate_spec in Lr; auto.
  assert (Hl : In l (map wid (sW s1))) by (eapply R_in; eauto; apply WInv_wf; auto).
  assert (Hr : In r (map wid (sW s1))) by (eapply R_in; eauto; apply WInv_wf; auto).
  cbn [length N.of_nat pmc pcmds].
  set (M := (N.max (wmc_of (sW s1) l) (wmc_of (sW s1) r) + 1)%N).
  set (wnew := {| wc := c; wmc := (M + N.of_nat 0)%N; wfacts := f |}).
  splits; auto.
  - split; [|split].
    + constructor; cbn; auto.
      * splits; auto; try discriminate. split; cbn.
        -- apply chain_cons; [constructor | exact Epe | reflexivity | reflexivity].
        -- unfold base_ok. cbn. splits; eauto. discriminate.
      * intros E. rewrite E1 in E. tauto.
    + cbn [tstamp set_persp]. intros E. destruct (Cf E) as [G1 G2 G3 G4 G5].
      assert (Hf : tstamp t = Some (sstamp s)).
      { rewrite <- E1. destruct B as (_ & _ & _ & <- & _). auto. }
      constructor; cbn; auto.
      * intros a [<-|[<-|[]]]; apply R_heads_tips; auto.
      * intros x [<-|[]]. intros Hreach. destruct (Hh Hf (cid c)) as [H1 _].
        destruct H1 as [H1|H1]; [left; auto|apply (Hnr Hf); auto|tauto].
      * intros x. rewrite Hp1 in G5. specialize (G5 x). cbn in G5. change (wid wnew) with (cid c).
        tauto.
    + exact Cs.
  - intros Hf x. rewrite <- (Hh Hf). unfold held, pids. cbn. rewrite D. cbn. intuition.
  - cbn. rewrite E3. auto.
Qed.

Lemma add_loop_ok cs : forall s t count log s1 t1 l r,
  SInv s -> TInv s t -> tstamp t <> None ->
  add_loop s t cs count log = (s1, t1, l, r) -> sclash s1 = false ->
  SInv s1 /\ sext s s1 /\ TInv s1 t1 /\ tstamp t1 = tstamp t /\ tseen t1 = tseen t.
Proof.
  induction cs as [|c cs IH]; intros s t count log s1 t1 l r HS HT Hns H Hc; cbn [Txn.add_loop] in H.
  - inv H. splits; auto using sext_refl.
  - destruct (match tpersp t with Some p => includes p (cid c) | None => false end) eqn:Einc; [eapply IH; eauto|].
    destruct (locate s t (cid c)) eqn:Eloc; [eapply IH; eauto|].
    assert (Hnp : ~ In (cid c) (pids t)).
    { unfold pids. destruct (tpersp t); [apply includes_false; auto|cbn; tauto]. }
    assert (Hnr : tstamp t = Some (sstamp s) -> ~ R (sW s) (ttips t) (cid c)).
    { intros _ Hr. assert (locate s t (cid c) = true); [|congruence].
      apply locate_spec; [apply (si_W _ HS)|]. apply R_app; auto. }
    destruct (cpar c) as [|parent|a b].
    + destruct (cid c =? gid)%N; [eapply IH; eauto|]. inv H. splits; auto using sext_refl.
    + destruct (add_single s t c parent) as [[[s' t'] l'] e] eqn:E.
      assert (Hc' : sclash s' = false).
      { destruct e; [inv H; auto|]. eapply cmono_false; [eapply add_loop_cmono; eauto|auto]. }
      destruct (add_single_ok _ _ _ _ _ _ _ _ HS HT Hns Hnp Hnr E Hc') as (A & B & C & E1 & E2 & _).
      destruct e; [inv H; splits; auto|].
      destruct (IH _ _ _ _ _ _ _ _ A C ltac:(congruence) H Hc) as (A' & B' & C' & E1' & E2').
      splits; auto; try congruence. eapply sext_trans; eauto.
    + destruct (add_merge s t c a b) as [[[s' t'] l'] e] eqn:E.
      assert (Hc' : sclash s' = false).
      { destruct e; [inv H; auto|]. eapply cmono_false; [eapply add_loop_cmono; eauto|auto]. }
      destruct (add_merge_ok _ _ _ _ _ _ _ _ _ HS HT Hns Hnp Hnr E Hc') as (A & B & C & E1 & E2 & _).
      destruct e; [inv H; splits; auto|].
      destruct (IH _ _ _ _ _ _ _ _ A C ltac:(congruence) H Hc) as (A' & B' & C' & E1' & E2').
      splits; auto; try congruence. eapply sext_trans; eauto.
Qed.

(** ** transactions table *)
Lemma tx_get_del (l : list (N * txn)) k k' : tx_get (tx_del l k) k' = if (k =? k')%N then None else tx_get l k'.
Proof.
  induction l as [|[j t] l IH]; cbn.
  - destruct (k =? k')%N; auto.
  - destruct (N.eqb_spec j k); cbn; rewrite ?IH.
    + subst. destruct (N.eqb_spec k k'); auto.
    + destruct (N.eqb_spec j k'); auto. subst. destruct (N.eqb_spec k k'); [congruence|auto].
Qed.
Lemma tx_get_set (l : list (N * txn)) k t k' : tx_get (tx_set l k t) k' = if (k =? k')%N then Some t else tx_get l k'.
Proof. unfold tx_set. cbn. rewrite tx_get_del. destruct (k =? k')%N; auto. Qed.

(** ** replica invariant *)
Definition tnew_like t : Prop :=
  tstamp t = None /\ ttips t = [] /\ tpersp t = None /\ tphead t = None /\ tpparents t = PNone /\ tadded t = [].

Definition RInv (r : replica) : Prop :=
  match rstore r with
  | None => forall k t, tx_get (rtxs r) k = Some t -> tnew_like t
  | Some s => SInv s /\ forall k t, tx_get (rtxs r) k = Some t -> TInv s t
  end.

Lemma TInv_new s t : tnew_like t -> TInv s t.
Proof.
  intros (A & B & C & D & E & F). split; [|split].
  - constructor; rewrite ?B, ?C; auto; try constructor. intros x [].
  - rewrite A. discriminate.
  - unfold stamp_ok. rewrite A. auto.
Qed.

Lemma capture_ok s t : SInv s -> TInv s t -> TInv s (capture s t) /\ tstamp (capture s t) <> None.
Proof.
  intros HS HT. unfold capture. destruct (tstamp t) as [o|] eqn:Es.
  - split; auto. congruence.
  - split; [|cbn; discriminate].
    destruct HT as (H0 & _ & _). pose proof H0 as [T1 T2 T3 T4]. destruct (T4 Es) as (Et & Ep & Ea).
    rewrite Ep in T3. destruct T3 as [Eh Epa].
    rewrite Et. rewrite (tins_sorted_id _ (si_sorted _ HS)).
    split; [|split].
    + constructor; cbn; auto.
      * apply (si_sorted _ HS).
      * apply (si_heads_in _ HS).
      * rewrite Ep. auto.
      * discriminate.
    + cbn. intros _. constructor; cbn; rewrite ?Ep; auto.
      * intros h Hh. apply R_self; auto. apply (si_heads_in _ HS); auto.
      * apply (si_anti _ HS).
      * intros x. unfold pids. cbn. rewrite Ea. tauto.
    + unfold stamp_ok. cbn. splits; try lia.
Qed.

Lemma init_ok c s0 l e : init c = (Some s0, l, e) -> SInv s0.
Proof.
  unfold Txn.init. destruct (negb (cid c =? gid)%N) eqn:E1; [discriminate|].
  destruct (negb (prior_eqb (cpar c) PNone)) eqn:E2; [discriminate|].
  destruct (negb (has_policy c)); [discriminate|].
  destruct (eval c fempty) as [f effs|] eqn:Ee; [|discriminate]. intros H. inv H.
  apply negb_false_iff in E1. apply N.eqb_eq in E1. apply negb_false_iff in E2. apply prior_eqb_eq in E2.
  assert (HW : WInv [{| wc := c; wmc := 0; wfacts := f |}]) by (econstructor; eauto).
  constructor; cbn; auto.
  - discriminate.
  - repeat constructor.
  - intros a b [<-|[]] [<-|[]]; auto.
  - unfold wid. cbn. rewrite N.eqb_refl. eauto.
  - intros ->. lia.
Qed.

Lemma init_none c l e : init c = (None, l, e) -> True. Proof. auto. Qed.

(** ** [commit_heads] *)
Lemma commit_heads_stamp s hs fc : SInv s -> (sstamp s < sstamp (commit_heads s hs fc))%N.
Proof. intros HS. unfold Txn.commit_heads. cbn. destruct libc eqn:E; [apply (si_stamp _ HS); auto|lia]. Qed.

Lemma TInv_commit_heads s hs fc t : SInv s -> TInv s t -> TInv (commit_heads s hs fc) t.
Proof.
  intros HS (H0 & Hf & Hs). pose proof (commit_heads_stamp s hs fc HS) as Hlt.
  split; [|split]; auto.
  - intros E. unfold stamp_ok in Hs. rewrite E in Hs. lia.
  - unfold stamp_ok in *. destruct (tstamp t) as [o|]; auto. destruct Hs as (A & B & C).
    cbn [sncommit Txn.commit_heads]. splits; try lia.
Qed.

Lemma SInv_commit_heads s hs fc :
  SInv s -> hs <> [] -> StronglySorted N.lt hs -> (forall h, In h hs -> In h (map wid (sW s))) ->
  (forall a b, In a hs -> In b hs -> anc (sg (sW s)) a b -> a = b) ->
  match hs with
  | [h] => exists wh, wlookup (sW s) h = Some wh /\ fc = wfacts wh
  | _ => exists effs, braid (reachset (sW s) hs) hs = BOk fc effs
  end ->
  SInv (commit_heads s hs fc).
Proof.
  intros HS H1 H2 H3 H4 H5. constructor; cbn; auto.
  - apply (si_W _ HS).
  - intros ->. lia.
  - apply (si_clash _ HS).
Qed.

Lemma commit_ok so t so' l x :
  match so with Some s => SInv s /\ TInv s t | None => True end ->
  commit so t = (so', l, x) ->
  match so' with Some s' => sclash s' = false | None => True end ->
  match so, so' with
  | Some s, Some s' => SInv s' /\ (forall t', TInv s t' -> TInv s' t') /\ cmono s s'
  | None, None => True
  | _, _ => False
  end.
Proof.
  intros Hpre Hcm Hc. unfold Txn.commit in Hcm. destruct so as [s|]; [|inv Hcm; auto].
  destruct Hpre as [HS HT].
  destruct (tstamp t) as [o|] eqn:Es; [|inv Hcm; splits; auto using cmono_refl].
  destruct (negb (o =? sstamp s)%N) eqn:Eo; [inv Hcm; splits; auto using cmono_refl|].
  apply negb_false_iff in Eo. apply N.eqb_eq in Eo. subst o.
  destruct (write_perspective s t) as [[s1 t1] e] eqn:Ew.
  pose proof (write_perspective_cmono _ _ _ _ _ Ew) as Hm.
  assert (Hc1 : sclash s1 = false).
  { destruct e; [inv Hcm; auto|]. destruct (ttips t1) as [|h0 tl]; [inv Hcm; auto|].
    destruct (fold_left _ _ _) as [|h [|h2 hs]]; try solve [destruct (braid _ _); inv Hcm; auto].
    destruct (wlookup (sW s1) h); inv Hcm; auto. }
  destruct (write_perspective_ok _ _ _ _ _ HS HT Ew Hc1) as (A & B & C & D & E1 & E2 & E3 & F).
  assert (Hkeep : SInv s1 /\ (forall t', TInv s t' -> TInv s1 t') /\ cmono s s1).
  { splits; auto. intros t' Ht'. apply (TInv_sext s s1 t' HS B (si_W _ A) Ht'). }
  destruct e; [inv Hcm; auto|].
  destruct (ttips t1) as [|h0 tl] eqn:Et; [inv Hcm; auto|].
  pose proof C as (C0 & Cf & Cs). pose proof C0 as [T1 T2 T3 T4].
  assert (Efresh : tstamp t1 = Some (sstamp s1)).
  { rewrite E1, Es. destruct B as (_ & _ & _ & -> & _). auto. }
  destruct (Cf Efresh) as [G1 G2 G3 G4 G5].
  assert (Ehs : fold_left (fun l i => hs_push i l) (ttips t1) [] = ttips t1) by (apply tins_sorted_id; auto).
  rewrite <- Et in Hcm. rewrite Ehs in Hcm.
  assert (Hne : ttips t1 <> []) by (rewrite Et; discriminate).
  assert (Hfin : forall fc,
            match ttips t1 with
            | [h] => exists wh, wlookup (sW s1) h = Some wh /\ fc = wfacts wh
            | _ => exists effs, braid (reachset (sW s1) (ttips t1)) (ttips t1) = BOk fc effs
            end ->
            SInv (commit_heads s1 (ttips t1) fc)
            /\ (forall t', TInv s t' -> TInv (commit_heads s1 (ttips t1) fc) t')
            /\ cmono s (commit_heads s1 (ttips t1) fc)).
  { intros fc Hfc. splits.
    - apply SInv_commit_heads; auto.
    - intros t' Ht'. apply TInv_commit_heads; auto. apply (TInv_sext s s1 t' HS B (si_W _ A) Ht').
    - unfold cmono in *. cbn. auto. }
  destruct (ttips t1) as [|h [|h2 hs]] eqn:Et1; [congruence| |].
  - destruct (wlookup (sW s1) h) as [wh|] eqn:El; inv Hcm; auto. apply Hfin. eauto.
  - destruct (braid (reachset (sW s1) (h :: h2 :: hs)) (h :: h2 :: hs)) as [fc effs| | |] eqn:Eb; inv Hcm; auto.
    apply Hfin. eauto.
Qed.

(** ** [add_commands] *)
Lemma add_commands_ok so t cs so' t' l x :
  match so with Some s => SInv s /\ TInv s t | None => tnew_like t end ->
  add_commands so t cs = (so', t', l, x) ->
  match so' with Some s' => sclash s' = false | None => True end ->
  match so' with
  | None => so = None /\ t' = t
  | Some s' =>
    SInv s' /\ TInv s' t'
    /\ match so with
       | Some s => sext s s' /\ cmono s s'
       | None => forall t2, tnew_like t2 -> TInv s' t2
       end
  end.
Proof.
  intros Hpre Ha Hc. unfold Txn.add_commands in Ha. destruct so as [s|].
  - destruct Hpre as [HS HT].
    destruct (add_loop s (capture s t) cs 0 []) as [[[s1 t1] l1] r1] eqn:El. inv Ha.
    destruct (capture_ok s t HS HT) as [HT' Hns].
    destruct (add_loop_ok _ _ _ _ _ _ _ _ _ HS HT' Hns El Hc) as (A & B & C & _).
    splits; auto. eapply add_loop_cmono; eauto.
  - destruct cs as [|c rest]; [inv Ha; auto|].
    destruct (init c) as [[[s0|] l0] e0] eqn:Ei.
    + destruct (add_loop s0 (capture s0 t) rest 1 l0) as [[[s1 t1] l1] r1] eqn:El. inv Ha.
      pose proof (init_ok _ _ _ _ Ei) as HS0.
      assert (HT0 : TInv s0 t) by (apply TInv_new; auto).
      destruct (capture_ok s0 t HS0 HT0) as [HT' Hns].
      destruct (add_loop_ok _ _ _ _ _ _ _ _ _ HS0 HT' Hns El Hc) as (A & B & C & _).
      splits; auto. intros t2 H2. apply (TInv_sext s0 s1 t2 HS0 B (si_W _ A)). apply TInv_new; auto.
    + destruct e0; inv Ha; auto.
Qed.

(** ** actions *)
Lemma merge_persp_PInv W c l r f effs (p : persp) :
  In l (map wid W) -> In r (map wid W) -> braid (reachset W [l; r]) [l; r] = BOk f effs ->
  merge_persp W c l r f = Some p -> PInv W p /\ exists w, pcmds p = [w] /\ wc w = c.
Proof.
  intros Hl Hr Hb Hm. unfold Txn.merge_persp, add_command in Hm. cbn [phead_addr pcmds pp] in Hm.
  destruct (prior_eqb (cpar c) (PMerge2 l r)) eqn:E; inv Hm. apply prior_eqb_eq in E.
  split; [split|]; cbn.
  - apply chain_cons; [constructor | exact E | reflexivity | reflexivity].
  - unfold base_ok. cbn. splits; eauto. discriminate.
  - eauto.
Qed.

Lemma collapse_step_ok s a b s' m :
  SInv s -> In a (map wid (sW s)) -> In b (map wid (sW s)) ->
  collapse_step s a b = inl (s', m) -> sclash s' = false ->
  SInv s' /\ sext s s' /\ In m (map wid (sW s')) /\ cmono s s'.
Proof.
  intros HS Ha Hb Hst Hc. unfold Txn.collapse_step in Hst.
  destruct (a =? b)%N; [discriminate|].
  destruct (if (b <? a)%N then (b, a) else (a, b)) as [l r] eqn:Elr.
  assert (Hl : In l (map wid (sW s)) /\ In r (map wid (sW s))) by (destruct (b <? a)%N; inv Elr; auto).
  destruct Hl as [Hl Hr].
  destruct (braid (reachset (sW s) [l; r]) [l; r]) as [f effs| | |] eqn:Eb; try discriminate.
  destruct (merge_persp (sW s) (mk_merge l r) l r f) as [p|] eqn:Em; [|discriminate].
  destruct (write s p) as [[s2 hid]|] eqn:Ew; inv Hst.
  destruct (merge_persp_PInv _ _ _ _ _ _ _ Hl Hr Eb Em) as (HP & w & Epc & Ewc).
  destruct (write_ok s p s' m (si_W _ HS) HP Ew Hc (si_clash _ HS)) as (HW' & Hse & Hsto & w0 & rest & Ec & ->).
  splits; auto.
  - eapply SInv_sext; eauto.
  - destruct (Hsto w0) as (w1 & Hlk & _); [rewrite Ec; cbn; auto|].
    apply wlookup_Some in Hlk. destruct Hlk as [Hi <-]. apply in_map; auto.
  - eapply write_cmono; eauto.
Qed.

Lemma collapse_go_ok n : forall s q s1 r,
  SInv s -> (forall x, In x q -> In x (map wid (sW s))) ->
  collapse_go n s q = (s1, r) -> sclash s1 = false ->
  SInv s1 /\ sext s s1 /\ cmono s s1 /\ match r with inl h => In h (map wid (sW s1)) | inr _ => True end.
Proof.
  induction n as [|n IH]; intros s q s1 r HS Hq Hg Hc; cbn [Txn.collapse_go] in Hg.
  - inv Hg. splits; auto using sext_refl, cmono_refl.
  - destruct q as [|a [|b rest]].
    + inv Hg. splits; auto using sext_refl, cmono_refl.
    + inv Hg. splits; auto using sext_refl, cmono_refl. apply Hq. cbn; auto.
    + destruct (collapse_step s a b) as [[s' m]|e] eqn:Es.
      2:{ inv Hg. splits; auto using sext_refl, cmono_refl. }
      assert (Hgo : exists s2 r2, collapse_go n s' (rest ++ [m]) = (s2, r2)) by eauto.
      (* clash monotonicity of the remaining fold is needed before the IH can be used *)
      assert (Hmono : forall k s0 q0 s3 r3, collapse_go k s0 q0 = (s3, r3) -> cmono s0 s3).
      { clear. induction k as [|k IHk]; intros s0 q0 s3 r3 H; cbn [Txn.collapse_go] in H.
        - inv H. apply cmono_refl.
        - destruct q0 as [|a [|b rest]]; try (inv H; apply cmono_refl).
          destruct (collapse_step s0 a b) as [[s' m]|e] eqn:Es; [|inv H; apply cmono_refl].
          eapply cmono_trans; [|eapply IHk; eauto].
          unfold Txn.collapse_step in Es. destruct (a =? b)%N; [discriminate|].
          destruct (if (b <? a)%N then (b, a) else (a, b)) as [l r].
          destruct (braid _ _); try discriminate. destruct (merge_persp _ _ _ _ _); [|discriminate].
          destruct (write s0 p) as [[s2 hid]|] eqn:Ew; inv Es. eapply write_cmono; eauto. }
      assert (Hc' : sclash s' = false) by (eapply cmono_false; [eapply Hmono; eauto|auto]).
      destruct (collapse_step_ok s a b s' m HS) as (A & B & C & D); auto; try (apply Hq; cbn; auto).
      destruct (IH s' (rest ++ [m]) s1 r A) as (A' & B' & C' & D'); auto.
      * intros x Hx. apply in_app_or in Hx. destruct Hx as [Hx|[<-|[]]]; auto.
        eapply ids_ext; [apply B|]. apply Hq. cbn; auto.
      * splits; auto. eapply sext_trans; eauto. eapply cmono_trans; eauto.
Qed.

Lemma publish_PInv W cs : forall (p : persp) i fail log p' log',
  PInv W p -> publish p cs i fail log = inl (p', log') -> PInv W p' /\ pp p' = pp p.
Proof.
  induction cs as [|pc cs IH]; intros p i fail log p' log' HP Hp; cbn [Txn.publish] in Hp.
  - destruct (match fail with Some k => Nat.eqb k i | None => false end); inv Hp. auto.
  - destruct (match fail with Some k => Nat.eqb k i | None => false end); [discriminate|].
    set (c := {| cid := pid pc; cprio := pprio pc; cpar := phead_addr p; cbody := pbody pc |}) in *.
    destruct (eval c (pfacts p)) as [f effs|] eqn:Ee; [|discriminate].
    destruct (add_command p c f) as [p1|] eqn:Ea; [|discriminate].
    unfold add_command in Ea. destruct (prior_eqb (cpar c) (phead_addr p)); inv Ea.
    destruct HP as [Hch Hb].
    match type of Hp with publish ?q _ _ _ _ = _ => assert (HP1 : PInv W q) end.
    { split; cbn.
      - apply chain_cons; [exact Hch | rewrite chain_prev_addr; reflexivity | reflexivity |].
        rewrite chain_prev_facts. cbn [wc wfacts].
        destruct (pcmds p) eqn:Epc; [|eauto]. destruct (pp p) eqn:Eppp; eauto.
        unfold base_ok in Hb. rewrite Eppp, Epc in Hb. tauto.
      - unfold base_ok in *. cbn. destruct (pp p); auto. destruct Hb as (B1 & B2 & B3 & B4 & B5).
        splits; auto. discriminate. }
    destruct (IH _ _ _ _ _ _ HP1 Hp) as [A B]. auto.
Qed.

Lemma do_action_ok s a so' l x :
  SInv s -> do_action (Some s) a = (so', l, x) ->
  match so' with Some s' => sclash s' = false | None => True end ->
  exists s', so' = Some s' /\ SInv s' /\ (forall t', TInv s t' -> TInv s' t') /\ cmono s s'.
Proof.
  intros HS Hd Hc. unfold Txn.do_action in Hd.
  destruct (collapse_heads s (sheads s)) as [s1 r] eqn:Ecol. unfold Txn.collapse_heads in Ecol.
  assert (Hc1 : sclash s1 = false).
  { destruct r as [head|e]; [|inv Hd; auto].
    destruct (get_linear_perspective (sW s1) head) as [p|]; [|inv Hd; auto].
    destruct (publish p (acmds a) 0 (afail a) _) as [[p' lg]|[e lg]]; [|inv Hd; auto].
    destruct (write s1 p') as [[s2 hid]|] eqn:Ew; [|inv Hd; auto].
    pose proof (write_cmono _ _ _ _ Ew) as Hm.
    destruct (wlookup (sW s2) hid); inv Hd; eapply cmono_false; eauto. }
  destruct (collapse_go_ok _ _ _ _ _ HS (si_heads_in _ HS) Ecol Hc1) as (A & B & C & D).
  assert (Hkeep : exists s', Some s1 = Some s' /\ SInv s' /\ (forall t', TInv s t' -> TInv s' t') /\ cmono s s').
  { exists s1. splits; auto. intros t' Ht'. apply (TInv_sext s s1 t' HS B (si_W _ A) Ht'). }
  destruct r as [head|e]; [|inv Hd; auto].
  destruct (get_linear_perspective (sW s1) head) as [p|] eqn:Eg; [|inv Hd; auto].
  destruct (publish p (acmds a) 0 (afail a) _) as [[p' lg]|[e lg]] eqn:Ep; [|inv Hd; auto].
  destruct (write s1 p') as [[s2 hid]|] eqn:Ew; [|inv Hd; auto].
  assert (HP : PInv (sW s1) p).
  { unfold get_linear_perspective in Eg. destruct (wlookup (sW s1) head) as [wh|] eqn:El; inv Eg.
    split; cbn; [constructor|]. unfold base_ok. cbn. eauto. }
  destruct (publish_PInv _ _ _ _ _ _ _ _ HP Ep) as [HP' _].
  assert (Hc2 : sclash s2 = false) by (destruct (wlookup (sW s2) hid); inv Hd; auto).
  destruct (write_ok s1 p' s2 hid (si_W _ A) HP' Ew Hc2 (si_clash _ A)) as (HW2 & Hse & Hsto & w0 & rest & Ec & ->).
  assert (A2 : SInv s2) by (eapply SInv_sext; eauto).
  assert (Hkeep2 : exists s', Some s2 = Some s' /\ SInv s' /\ (forall t', TInv s t' -> TInv s' t') /\ cmono s s').
  { exists s2. splits; auto.
    - intros t' Ht'. apply (TInv_sext s1 s2 t' A Hse HW2). apply (TInv_sext s s1 t' HS B (si_W _ A) Ht').
    - eapply cmono_trans; eauto. eapply write_cmono; eauto. }
  destruct (wlookup (sW s2) (wid w0)) as [wh|] eqn:El; [|inv Hd; auto].
  inv Hd. eexists. split; [reflexivity|]. splits.
  - apply SInv_commit_heads; auto.
    + discriminate.
    + repeat constructor.
    + intros h [<-|[]]. apply wlookup_Some in El. destruct El as [Hi <-]. apply in_map; auto.
    + intros x y [<-|[]] [<-|[]]; auto.
    + eauto.
  - intros t' Ht'. apply TInv_commit_heads; auto.
    apply (TInv_sext s1 s2 t' A Hse HW2). apply (TInv_sext s s1 t' HS B (si_W _ A) Ht').
  - unfold cmono. cbn. intros Hx. apply (write_cmono _ _ _ _ Ew). apply C. auto.
Qed.

(** ** one client operation, and arbitrary operation lists *)
Definition rclash (r : replica) : bool := match rstore r with Some s => sclash s | None => false end.
Definition ocmono (a b : option store) : Prop :=
  match a, b with
  | Some s, Some s' => cmono s s'
  | Some s, None => sclash s = true -> False
  | None, _ => True
  end.

Lemma collapse_go_cmono k : forall s0 q0 s3 r3, collapse_go k s0 q0 = (s3, r3) -> cmono s0 s3.
Proof.
  induction k as [|k IHk]; intros s0 q0 s3 r3 H; cbn [Txn.collapse_go] in H.
  - inv H. apply cmono_refl.
  - destruct q0 as [|a [|b rest]]; try (inv H; apply cmono_refl).
    destruct (collapse_step s0 a b) as [[s' m]|e] eqn:Es; [|inv H; apply cmono_refl].
    eapply cmono_trans; [|eapply IHk; eauto].
    unfold Txn.collapse_step in Es. destruct (a =? b)%N; [discriminate|].
    destruct (if (b <? a)%N then (b, a) else (a, b)) as [l r].
    destruct (braid _ _); try discriminate. destruct (merge_persp _ _ _ _ _); [|discriminate].
    destruct (write s0 p) as [[s2 hid]|] eqn:Ew; inv Es. eapply write_cmono; eauto.
Qed.

Lemma do_action_cmono so a so' l x : do_action so a = (so', l, x) -> ocmono so so'.
Proof.
  unfold Txn.do_action. destruct so as [s|]; [|intros H; inv H; cbn; auto].
  destruct (collapse_heads s (sheads s)) as [s1 r] eqn:Ecol. apply collapse_go_cmono in Ecol.
  destruct r as [head|e]; [|intros H; inv H; auto].
  destruct (get_linear_perspective (sW s1) head) as [p|]; [|intros H; inv H; auto].
  destruct (publish p (acmds a) 0 (afail a) _) as [[p' lg]|[e lg]]; [|intros H; inv H; auto].
  destruct (write s1 p') as [[s2 hid]|] eqn:Ew; [|intros H; inv H; auto].
  apply write_cmono in Ew.
  destruct (wlookup (sW s2) hid); intros H; inv H; cbn; unfold cmono in *; cbn; auto.
Qed.

Lemma commit_cmono so t so' l x : commit so t = (so', l, x) -> ocmono so so'.
Proof.
  unfold Txn.commit. destruct so as [s|]; [|intros H; inv H; cbn; auto].
  destruct (tstamp t) as [o|]; [|intros H; inv H; apply cmono_refl].
  destruct (negb (o =? sstamp s)%N); [intros H; inv H; apply cmono_refl|].
  destruct (write_perspective s t) as [[s1 t1] e] eqn:Ew. apply write_perspective_cmono in Ew.
  destruct e; [intros H; inv H; auto|].
  destruct (ttips t1); [intros H; inv H; auto|].
  destruct (fold_left _ _ _) as [|h [|h2 hs]].
  - destruct (braid _ _); intros H; inv H; cbn; unfold cmono in *; cbn; auto.
  - destruct (wlookup (sW s1) h); intros H; inv H; cbn; unfold cmono in *; cbn; auto.
  - destruct (braid _ _); intros H; inv H; cbn; unfold cmono in *; cbn; auto.
Qed.

Lemma add_commands_cmono so t cs so' t' l x : add_commands so t cs = (so', t', l, x) -> ocmono so so'.
Proof.
  unfold Txn.add_commands. destruct so as [s|]; [|cbn; auto].
  destruct (add_loop s (capture s t) cs 0 []) as [[[s1 t1] l1] r1] eqn:El. intros H; inv H.
  cbn. eapply add_loop_cmono; eauto.
Qed.

Lemma step_cmono (r : replica) o : rclash r = true -> rclash (fst (fst (step r o))) = true.
Proof.
  unfold rclash. destruct (rstore r) as [s|] eqn:Es; [|discriminate]. intros Hc.
  destruct o as [k|k cs|k|k|a]; cbn [Txn.step].
  - cbn. rewrite Es. auto.
  - destruct (tx_get (rtxs r) k) as [t|]; [|cbn; rewrite Es; auto].
    destruct (add_commands (rstore r) t cs) as [[[so t'] l] x] eqn:E. cbn.
    apply add_commands_cmono in E. rewrite Es in E. destruct so; cbn in E; auto; try tauto.
  - destruct (tx_get (rtxs r) k) as [t|]; [|cbn; rewrite Es; auto]. rewrite Es.
    destruct (write_perspective s t) as [[s1 t1] e] eqn:E. cbn. apply write_perspective_cmono in E. auto.
  - destruct (tx_get (rtxs r) k) as [t|]; [|cbn; rewrite Es; auto].
    destruct (commit (rstore r) t) as [[so l] x] eqn:E. cbn.
    apply commit_cmono in E. rewrite Es in E. destruct so; cbn in E; auto; try tauto.
  - destruct (do_action (rstore r) a) as [[so l] x] eqn:E. cbn.
    apply do_action_cmono in E. rewrite Es in E. destruct so; cbn in E; auto; try tauto.
Qed.

Lemma RInv_r0 : RInv r0.
Proof. unfold RInv. cbn. intros k t H. discriminate. Qed.
Opaque tx_set tx_get tx_del.

Lemma tnew_like_new : tnew_like tnew.
Proof. unfold tnew_like, tnew. cbn. tauto. Qed.

Lemma step_ok (r : replica) o :
  RInv r -> rclash (fst (fst (step r o))) = false -> RInv (fst (fst (step r o))).
Proof.
  intros HR Hc. unfold RInv in HR.
  destruct o as [k|k cs|k|k|a]; cbn [Txn.step] in *.
  - (* Open *)
    unfold RInv. cbn. destruct (rstore r) as [s|].
    + destruct HR as [HS HT]. split; auto. intros k' t. rewrite tx_get_set.
      destruct (k =? k')%N; [intros E; inv E; apply TInv_new, tnew_like_new|apply HT].
    + intros k' t. rewrite tx_get_set.
      destruct (k =? k')%N; [intros E; inv E; apply tnew_like_new|apply HR].
  - (* Add *)
    destruct (tx_get (rtxs r) k) as [t|] eqn:Et; [|exact HR].
    destruct (add_commands (rstore r) t cs) as [[[so t'] l] x] eqn:E. cbn in *.
    assert (Hpre : match rstore r with Some s => SInv s /\ TInv s t | None => tnew_like t end).
    { destruct (rstore r); [destruct HR; split; eauto|eauto]. }
    pose proof (add_commands_ok _ _ _ _ _ _ _ Hpre E) as Hok.
    unfold RInv, rclash in *. cbn in *. destruct so as [s'|].
    + destruct (Hok Hc) as (A & B & C). split; auto. intros k' t2. rewrite tx_get_set.
      destruct (k =? k')%N; [intros E2; inv E2; auto|].
      intros Hg. destruct (rstore r) as [s|].
      * destruct HR as [HS HT]. destruct C as [C _]. apply (TInv_sext s s' t2 HS C (si_W _ A)). eauto.
      * apply C. eauto.
    + destruct (Hok I) as [E1 ->]. rewrite E1 in HR. intros k' t2. rewrite tx_get_set.
      destruct (k =? k')%N; [intros E2; inv E2; eauto|apply HR].
  - (* Flush *)
    destruct (tx_get (rtxs r) k) as [t|] eqn:Et; [|exact HR].
    destruct (rstore r) as [s|] eqn:Es; [|unfold RInv; cbn; rewrite Es; exact HR].
    destruct HR as [HS HT].
    destruct (write_perspective s t) as [[s1 t1] e] eqn:E. cbn in *. unfold rclash in Hc. cbn in Hc.
    destruct (write_perspective_ok _ _ _ _ _ HS (HT _ _ Et) E Hc) as (A & B & C & _).
    unfold RInv. cbn. split; auto. intros k' t2. rewrite tx_get_set.
    destruct (k =? k')%N; [intros E2; inv E2; auto|].
    intros Hg. apply (TInv_sext s s1 t2 HS B (si_W _ A)). eauto.
  - (* Commit *)
    destruct (tx_get (rtxs r) k) as [t|] eqn:Et; [|exact HR].
    destruct (commit (rstore r) t) as [[so l] x] eqn:E. cbn in *.
    assert (Hpre : match rstore r with Some s => SInv s /\ TInv s t | None => True end).
    { destruct (rstore r); [destruct HR; split; eauto|auto]. }
    pose proof (commit_ok _ _ _ _ _ Hpre E) as Hok. unfold RInv, rclash in *. cbn in *.
    destruct (rstore r) as [s|], so as [s'|]; try (exfalso; apply Hok; auto; fail).
    + destruct (Hok Hc) as (A & B & _). destruct HR as [HS HT]. split; auto.
      intros k' t2. rewrite tx_get_del. destruct (k =? k')%N; [discriminate|]. intros Hg. apply B. eauto.
    + intros k' t2. rewrite tx_get_del. destruct (k =? k')%N; [discriminate|]. apply HR.
  - (* Action *)
    destruct (do_action (rstore r) a) as [[so l] x] eqn:E. cbn in *.
    destruct (rstore r) as [s|] eqn:Es.
    + destruct HR as [HS HT]. unfold rclash in Hc. cbn in Hc.
      assert (Hc2 : match so with Some s' => sclash s' = false | None => True end) by (destruct so; auto).
      destruct (do_action_ok _ _ _ _ _ HS E Hc2) as (s' & -> & A & B & _).
      unfold RInv. cbn. split; auto. intros k' t2 Hg. apply B. eauto.
    + unfold Txn.do_action in E. inv E. unfold RInv. cbn. exact HR.
Qed.

Lemma run_cmono ops : forall (r : replica), rclash r = true -> rclash (run r ops) = true.
Proof.
  induction ops as [|o ops IH]; intros r H; cbn [Txn.run]; auto.
  apply IH. apply step_cmono; auto.
Qed.

Theorem RInv_run_from ops : forall (r : replica), RInv r -> rclash (run r ops) = false -> RInv (run r ops).
Proof.
  induction ops as [|o ops IH]; intros r HR Hc; cbn [Txn.run] in *; auto.
  apply IH; auto. apply step_ok; auto.
  destruct (rclash (fst (fst (step r o)))) eqn:E; auto.
  apply (run_cmono ops) in E. congruence.
Qed.

Theorem RInv_run ops : rclash (run r0 ops) = false -> RInv (run r0 ops).
Proof. apply RInv_run_from. apply RInv_r0. Qed.

End Inv.
