(** Non-vacuity: concrete histories of the instantiated model (audit policy +
    reference braid) satisfying the hypothesis [rclash = false], reaching
    multi-head states, rejected commands, concurrent transactions, actions. *)
From Aranya Require Import base.Tactics model.Dag model.Txn model.TxnRef proofs.TxnGraph proofs.TxnInv.
Local Open Scope N_scope.

Definition ex_progs : list (list aop) :=
  [ []; [ASet 0 1]; [AApp 0 2]; [AApp 0 3; AEmit 7]; [AWrej 4 4]; [AApp 0 9] ].
(* body = 2 * program index + policy bit *)
Definition c_init := Build_cmd 1 PInit PNone 3.            (* program 1, has policy *)
Definition c_a := Build_cmd 5 (PBasic 1) (PSingle 1) 4.    (* program 2 *)
Definition c_b := Build_cmd 3 (PBasic 1) (PSingle 1) 6.    (* program 3 *)
Definition c_rej := Build_cmd 8 (PBasic 0) (PSingle 1) 8.  (* program 4: write then reject *)
Definition c_child := Build_cmd 9 (PBasic 0) (PSingle 8) 4.
Definition c_c := Build_cmd 6 (PBasic 2) (PSingle 5) 10.

Definition ex_run := run afacts [] (audit_eval ex_progs) audit_has_policy merge_id_ref dump_effs
                         (braid_ref ex_progs) false 1 r0.

(** two transactions; a rejected command in the middle of a batch; a child of the
    rejected command; a duplicate; the second transaction loses the race *)
Definition ex_ops : list op :=
  [ Open 0; Add 0 [c_init; c_a]; Open 1; Add 1 [c_b]; Add 0 [c_rej]; Add 0 [c_child]; Add 0 [c_a; c_b];
    Commit 0; Commit 1; Action (Build_action true [Build_pubcmd 20 (PBasic 0) 10] None) ].

Example ex_two_heads :
  let r := ex_run [ Open 0; Add 0 [c_init; c_a]; Add 0 [c_rej]; Add 0 [c_b]; Commit 0 ] in
  rclash afacts r = false
  /\ option_map (@sheads afacts) (rstore r) = Some [3; 5]
  /\ option_map (@scache afacts) (rstore r) = Some [(0, [1; 2; 3])].
Proof. vm_compute. repeat split; reflexivity. Qed.

Example ex_full :
  let r := ex_run ex_ops in
  rclash afacts r = false
  /\ option_map (@sheads afacts) (rstore r) = Some [20]
  /\ option_map (fun s => length (sW s)) (rstore r) = Some 5%nat.
Proof. vm_compute. repeat split; reflexivity. Qed.

(** the three defects repaired in /repo (F10, F12, F13), replayed on the model of the repaired code *)
Definition c_m := Build_cmd 77 PMerge (PMerge2 5 4242) 0.
Example ex_F10_failed_merge_then_child :
  map (fun x => fst (fst x)) (trace afacts [] (audit_eval ex_progs) audit_has_policy merge_id_ref dump_effs
        (braid_ref ex_progs) false 1 r0 [ Open 0; Add 0 [c_init; c_a]; Add 0 [c_m]; Add 0 [c_c]; Commit 0 ])
  = [ ROk; ROkN 2; RErr (ENoSuchParent 4242); ROkN 1; ROkB true ].
Proof. vm_compute. reflexivity. Qed.

Example ex_F12_duplicate_of_perspective_parent :
  let r := ex_run [ Open 0; Add 0 [c_init; c_a]; Flush 0; Add 0 [c_c]; Add 0 [c_a]; Commit 0 ] in
  option_map (@sheads afacts) (rstore r) = Some [6].
Proof. vm_compute. reflexivity. Qed.

Example ex_F13_rejected_first_command :
  map (fun x => fst (fst x)) (trace afacts [] (audit_eval ex_progs) audit_has_policy merge_id_ref dump_effs
        (braid_ref ex_progs) false 1 r0 [ Open 0; Add 0 [c_init; c_a]; Add 0 [c_rej]; Commit 0 ])
  = [ ROk; ROkN 2; RErr (EPolicy PERejected); ROkB true ].
Proof. vm_compute. reflexivity. Qed.

(** two different delivery histories ending with the same committed commands: same heads, cache, hello head *)
Example ex_convergence :
  let r1 := ex_run [ Open 0; Add 0 [c_init; c_a; c_b]; Commit 0 ] in
  let r2 := ex_run [ Open 0; Add 0 [c_init; c_b]; Commit 0; Open 1; Add 1 [c_b; c_a]; Flush 1; Commit 1 ] in
  rclash afacts r1 = false /\ rclash afacts r2 = false
  /\ option_map (fun s => nsort (closure (sW s) (sheads s))) (rstore r1) = Some [1; 3; 5]
  /\ option_map (fun s => nsort (closure (sW s) (sheads s))) (rstore r2) = Some [1; 3; 5]
  /\ option_map (@sheads afacts) (rstore r1) = option_map (@sheads afacts) (rstore r2)
  /\ option_map (@scache afacts) (rstore r1) = option_map (@scache afacts) (rstore r2)
  /\ option_map (hello_head afacts merge_id_ref) (rstore r1) = option_map (hello_head afacts merge_id_ref) (rstore r2)
  /\ option_map (fun s => length (sheads s)) (rstore r1) = Some 2%nat.
Proof. vm_compute. repeat split; reflexivity. Qed.

(** an action on the two-head state: collapse, publish, one new head; and a failing one that changes nothing *)
Example ex_action :
  let r := ex_run [ Open 0; Add 0 [c_init; c_a; c_b]; Commit 0 ] in
  let ok := step afacts [] (audit_eval ex_progs) audit_has_policy merge_id_ref dump_effs (braid_ref ex_progs) false 1 r
              (Action (Build_action false [Build_pubcmd 20 (PBasic 0) 10; Build_pubcmd 21 (PBasic 0) 4] None)) in
  let bad := step afacts [] (audit_eval ex_progs) audit_has_policy merge_id_ref dump_effs (braid_ref ex_progs) false 1 r
              (Action (Build_action false [Build_pubcmd 20 (PBasic 0) 10; Build_pubcmd 21 (PBasic 0) 4] (Some 1%nat))) in
  snd ok = ROk /\ option_map (@sheads afacts) (rstore (fst (fst ok))) = Some [21]
  /\ snd bad = RErr (EPolicy PERejected)
  /\ option_map (@sheads afacts) (rstore (fst (fst bad))) = Some [3; 5]
  /\ option_map (@scache afacts) (rstore (fst (fst bad))) = option_map (@scache afacts) (rstore r).
Proof. vm_compute. repeat split; reflexivity. Qed.
