(** The reference braid [braid_spec] (reverse Kahn with minimum key):
    invariants of the processed list, the exactly-once / ancestors-first
    properties of its result, and totality. *)
From Aranya Require Import base.Tactics model.Dag model.Braid proofs.BraidDag proofs.BraidKey.

Section Spec.
  Variable g : graph.
  Variable hs : list N.
  Hypothesis Hwf : wf_graph g.

  Let A := closure g hs.

  Lemma closure_spec x : In x (closure g hs) <-> exists h, In h hs /\ anc g x h.
  Proof.
    unfold closure. rewrite filter_In, existsb_exists. split.
    - intros [Hx [h [Hh Ha]]]. exists h. split; auto. apply ancb_spec; auto.
    - intros [h [Hh Ha]]. split.
      + apply (anc_in g x h); auto.
      + exists h. split; auto. apply ancb_spec; auto.
  Qed.

  Lemma closure_ids x : In x A -> In x (ids g).
  Proof. unfold A, closure. rewrite filter_In. tauto. Qed.

  Lemma closure_down x y : In y A -> anc g x y -> In x A.
  Proof.
    unfold A. rewrite !closure_spec. intros [h [Hh Ha]] Hxy. exists h. split; auto.
    eapply anc_trans; eauto.
  Qed.

  Lemma closure_head h : In h hs -> In h (ids g) -> In h A.
  Proof. intros. apply closure_spec. exists h. split; auto. apply anc_refl; auto. Qed.

  Lemma closure_nodup : NoDup A.
  Proof. apply NoDup_filter. apply wf_nodup; auto. Qed.

  Lemma kids_spec x c : In c (kids g A x) <-> parent_of g x c /\ In c A.
  Proof. unfold kids. rewrite filter_In, mem_In, children_spec; tauto. Qed.

  Lemma ready_spec done x : In x (ready g A done) <->
    In x A /\ ~ In x done /\ forall c, parent_of g x c -> In c A -> In c done.
  Proof.
    unfold ready. rewrite filter_In, andb_true_iff, negb_true_iff, mem_false, forallb_forall.
    split.
    - intros [H1 [H2 H3]]. repeat split; auto. intros c Hc Hin. apply mem_In. apply H3. apply kids_spec; auto.
    - intros [H1 [H2 H3]]. repeat split; auto. intros c Hc. apply kids_spec in Hc as [Hc1 Hc2]. apply mem_In. auto.
  Qed.

  Lemma ready_nodup done : NoDup (ready g A done).
  Proof. apply NoDup_filter. apply closure_nodup. Qed.

  (** The processed list, newest first: every command was ready when processed. *)
  Inductive okdone : list N -> Prop :=
  | ok_nil : okdone []
  | ok_cons x l : okdone l -> In x A -> ~ In x l ->
      (forall c, parent_of g x c -> In c A -> In c l) -> okdone (x :: l).

  Lemma okdone_ready done x : okdone done -> In x (ready g A done) -> okdone (x :: done).
  Proof. intros H Hr. apply ready_spec in Hr as [H1 [H2 H3]]. constructor; auto. Qed.

  Lemma okdone_nodup l : okdone l -> NoDup l.
  Proof. induction 1; constructor; auto. Qed.

  Lemma okdone_incl l : okdone l -> incl l A.
  Proof. induction 1; intros y Hy; [destruct Hy|]. destruct Hy as [<-|Hy]; auto. Qed.

  Lemma okdone_up l : okdone l -> forall x c, In x l -> parent_of g x c -> In c A -> In c l.
  Proof.
    induction 1 as [|y l Hl IH Hy Hny Hc]; intros x c Hx Hp HcA; [destruct Hx|].
    destruct Hx as [<-|Hx]; cbn; right; eauto.
  Qed.

  Lemma okdone_desc l : okdone l -> forall x y, In x l -> anc g x y -> In y A -> In y l.
  Proof.
    intros Hl x y Hx Ha. induction Ha as [i Hi|a p i Hp Ha IH]; intros HyA; auto.
    apply (okdone_up l Hl p i); auto. apply IH; auto.
    apply closure_down with i; auto. apply anc_parent; auto.
  Qed.

  Lemma okdone_suffix l1 l2 : okdone (l1 ++ l2) -> okdone l2.
  Proof. induction l1 as [|x l1 IH]; cbn; auto. intros H. inv H. auto. Qed.

  (** A proper descendant was processed earlier (occurs later in the list). *)
  Lemma okdone_order l1 a l2 b : okdone (l1 ++ a :: l2) -> anc g a b -> a <> b -> In b A -> In b l2.
  Proof.
    intros H Hab Hne HbA. apply okdone_suffix in H. inv H.
    destruct (anc_first_step g a b Hwf Hab) as [E|[c [Hc Hcb]]]; [congruence|].
    apply (okdone_desc l2 H2 c b); auto. apply H5; auto. apply closure_down with b; auto.
  Qed.

  (** Unprocessed commands lie below the ready ones. *)
  Lemma unprocessed_below_ready done : okdone done -> forall x, In x A -> ~ In x done ->
    exists b, In b (ready g A done) /\ anc g x b.
  Proof.
    intros Hd.
    assert (H : forall x, In x (ids g) -> In x A -> ~ In x done -> exists b, In b (ready g A done) /\ anc g x b).
    { apply (up_induction g (fun x => In x A -> ~ In x done -> exists b, In b (ready g A done) /\ anc g x b) Hwf).
      intros x Hx IH HxA Hxd.
      destruct (forallb (fun c => mem c done) (kids g A x)) eqn:E.
      - exists x. split; [|apply anc_refl; auto]. apply ready_spec. repeat split; auto.
        intros c Hc HcA. rewrite forallb_forall in E. apply mem_In. apply E. apply kids_spec; auto.
      - assert (Hex : exists c, In c (kids g A x) /\ mem c done = false).
        { clear - E. induction (kids g A x) as [|c l IHl]; cbn in E; [discriminate|].
          destruct (mem c done) eqn:Ec; cbn in E.
          - destruct (IHl E) as [c' [H1 H2]]. exists c'. cbn; auto.
          - exists c. cbn; auto. }
        destruct Hex as [c [Hc Hcd]]. apply kids_spec in Hc as [Hp HcA]. apply mem_false in Hcd.
        destruct (IH c Hp HcA Hcd) as [b [Hb Hcb]]. exists b. split; auto.
        eapply anc_trans; [apply anc_parent; eauto|auto]. }
    intros x HxA. apply H; auto. apply closure_ids; auto.
  Qed.

  Definition nm (x : N) : bool := negb (is_merge_id g x).

  (** What a successful run of the loop means. *)
  Lemma spec_loop_ok fuel : forall done b order, okdone done ->
    spec_loop g A fuel done = BOk b order ->
    exists done', okdone done' /\ ready g A done' = [b] /\ order = filter nm done' /\ (exists l, done' = l ++ done).
  Proof.
    induction fuel as [|f IH]; intros done b order Hd; cbn [spec_loop]; [discriminate|].
    destruct (2 <=? count_fin g (ready g A done)); [discriminate|].
    destruct (ready g A done) as [|x [|y r]] eqn:Er; [discriminate| |].
    - intros H; inv H. exists done. repeat split; auto. exists []. reflexivity.
    - intros H. apply IH in H.
      + destruct H as [done' [H1 [H2 [H3 [l H4]]]]]. exists done'. repeat split; auto.
        exists (l ++ [min_by g x (y :: r)]). rewrite <- app_assoc. auto.
      + apply okdone_ready; auto. rewrite Er. apply min_by_in.
  Qed.

  Lemma is_merge_id_spec x : is_merge_id g x = true <-> exists c l r, lookup g x = Some c /\ cpar c = PMerge2 l r.
  Proof.
    unfold is_merge_id, is_merge. destruct (lookup g x) as [c|]; [|split; [discriminate|intros [c [l [r [H _]]]]; discriminate]].
    destruct (cpar c) eqn:E; split; try discriminate; eauto.
    - intros [c' [l [r [H H']]]]. inv H. congruence.
    - intros [c' [l [r [H H']]]]. inv H. congruence.
  Qed.

  (** * The properties of a result (C02 on the reference). *)
  Definition before {T} (a b : T) (l : list T) : Prop := exists l1 l2 l3, l = l1 ++ a :: l2 ++ b :: l3.

  Lemma filter_before (f : N -> bool) a b l1 l2 : f a = true -> f b = true -> In b l2 ->
    before a b (filter f (l1 ++ a :: l2)).
  Proof.
    intros Ha Hb Hin. apply in_split in Hin as [m1 [m2 ->]].
    exists (filter f l1), (filter f m1), (filter f m2).
    rewrite !filter_app. cbn [filter]. rewrite Ha. cbn [app]. rewrite filter_app. cbn [filter]. rewrite Hb. reflexivity.
  Qed.

  Theorem spec_result_props b order : braid_spec g hs = BOk b order ->
    NoDup order
    /\ In b A /\ ~ In b order
    /\ (forall c, In c order -> is_merge_id g c = false /\ In c A /\ ~ anc g c b)
    /\ (forall x, In x A -> is_merge_id g x = false -> In x order \/ anc g x b)
    /\ (forall a c, In a order -> In c order -> anc g a c -> a <> c -> before a c order).
  Proof.
    unfold braid_spec. fold A. intros H. apply spec_loop_ok in H; [|constructor].
    destruct H as [done [Hd [Hr [-> _]]]].
    assert (Hb : In b (ready g A done)) by (rewrite Hr; cbn; auto).
    apply ready_spec in Hb as [HbA [Hbd Hbc]].
    assert (Hnot : forall c, In c done -> ~ anc g c b).
    { intros c Hc Ha. apply Hbd. apply (okdone_desc done Hd c b); auto. }
    split; [apply NoDup_filter, okdone_nodup; auto|].
    split; [auto|]. split; [rewrite filter_In; tauto|].
    split; [|split].
    - intros c Hc. apply filter_In in Hc as [Hc1 Hc2]. unfold nm in Hc2. apply negb_true_iff in Hc2.
      repeat split; auto. apply okdone_incl with done; auto.
    - intros x HxA Hm. destruct (in_dec N.eq_dec x done) as [Hin|Hin].
      + left. apply filter_In. split; auto. unfold nm. rewrite Hm. auto.
      + right. destruct (unprocessed_below_ready done Hd x HxA Hin) as [b' [Hb' Hx]].
        rewrite Hr in Hb'. destruct Hb' as [<-|[]]. auto.
    - intros a c Ha Hc Hac Hne. apply filter_In in Ha as [Ha1 Ha2]. apply filter_In in Hc as [Hc1 Hc2].
      apply in_split in Ha1 as [l1 [l2 ->]].
      apply filter_before; auto. apply (okdone_order l1 a l2 c); auto.
      apply okdone_incl with (l1 ++ a :: l2); auto.
  Qed.

  (** * Totality: the reference never gets stuck. *)
  Lemma ready_keep done m x : In x (ready g A done) -> x <> m -> In x (ready g A (m :: done)).
  Proof.
    rewrite !ready_spec. intros [H1 [H2 H3]] Hne. repeat split; auto.
    - intros [E|E]; auto.
    - intros c Hc HcA. right. auto.
  Qed.

  Lemma ready_done_disjoint_length done : okdone done ->
    length done + length (ready g A done) <= length A.
  Proof.
    intros Hd. rewrite <- app_length. apply NoDup_incl_length.
    - apply nodup_app; [apply okdone_nodup; auto|apply ready_nodup|].
      intros x H1 H2. apply ready_spec in H2. tauto.
    - intros x Hx. apply in_app_or in Hx as [Hx|Hx]; [apply okdone_incl with done; auto|].
      apply ready_spec in Hx. tauto.
  Qed.

  Lemma spec_loop_total fuel : forall done, okdone done -> ready g A done <> [] ->
    length A < fuel + length done + 1 ->
    spec_loop g A fuel done <> BBug.
  Proof.
    induction fuel as [|f IH]; intros done Hd Hne Hf.
    - exfalso. pose proof (ready_done_disjoint_length done Hd).
      destruct (ready g A done); [congruence|]. cbn in *. lia.
    - cbn [spec_loop]. destruct (2 <=? count_fin g (ready g A done)); [discriminate|].
      destruct (ready g A done) as [|x [|y r]] eqn:Er; [congruence|discriminate|].
      set (m := min_by g x (y :: r)).
      assert (Hm : In m (ready g A done)) by (rewrite Er; apply min_by_in).
      apply IH.
      + apply okdone_ready; auto.
      + assert (Hex : exists z, In z (ready g A done) /\ z <> m).
        { pose proof (ready_nodup done) as Hnd. rewrite Er in Hnd, Hm.
          destruct (N.eq_dec x m) as [E|E].
          - exists y. split; [rewrite Er; cbn; auto|]. inversion Hnd as [|? ? Hn1 Hn2]. intros E'. apply Hn1. rewrite E, <- E'. cbn; auto.
          - exists x. split; [rewrite Er; cbn; auto|auto]. }
        destruct Hex as [z [Hz Hzm]]. intros E. pose proof (ready_keep done m z Hz Hzm) as Hk. rewrite E in Hk. destruct Hk.
      + cbn [length]. lia.
  Qed.

  Theorem spec_total : hs <> [] -> incl hs (ids g) -> braid_spec g hs <> BBug.
  Proof.
    intros Hne Hin. unfold braid_spec. fold A. apply spec_loop_total.
    - constructor.
    - assert (Hex : exists h, In h hs) by (clear - Hne; destruct hs; [congruence|eexists; cbn; eauto]).
      destruct Hex as [h Hh].
      assert (HhA : In h A) by (apply closure_head; auto).
      destruct (unprocessed_below_ready [] ok_nil h HhA) as [b [Hb _]]; [tauto|].
      intros E. rewrite E in Hb. destruct Hb.
    - cbn [length].
      assert (length A <= length (ids g)) by (apply NoDup_incl_length; [apply closure_nodup|intros x; apply closure_ids]).
      unfold ids in H. rewrite map_length in H. lia.
  Qed.
End Spec.
