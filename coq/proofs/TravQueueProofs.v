(** Refinement: every [TraversalQueue] method implements the multiset
    specification, the representation invariant is preserved, and no
    [Bug]/[Panic]/[Fuel] outcome is reachable. *)
From Aranya Require Import base.Tactics gen.GenQueue model.TravQueue
  proofs.TravQueueVec proofs.TravQueueMoves proofs.TravQueueSpec.
From Coq Require Import Sorting.Sorted.

Lemma in_absq_entries q e b : In (e, b) (absq q) -> In e (entries q).
Proof.
  intro H. unfold absq in H. rewrite <- (map_fst_tag 0 (part q) (entries q)).
  apply in_map_iff. exists (e, b). split; auto.
Qed.

Lemma absq_nth q i e :
  nth_error (entries q) i = Some e -> nth_error (absq q) i = Some (e, part q <=? i).
Proof. intro H. unfold absq. rewrite nth_error_tag, H. reflexivity. Qed.

Lemma absq_split q i e :
  nth_error (entries q) i = Some e ->
  Permutation (absq q) ((e, part q <=? i) :: remove_at i (absq q)).
Proof. intro H. apply remove_at_perm. now apply absq_nth. Qed.

(** ** repartition / append *)
Lemma repartition_spec es p i was new e :
  p <= length es -> nth_error es i = Some e -> was = (p <=? i) ->
  exists q' rest, repartition es p i was new = Ok q' /\ rep_ok q' /\
    length (entries q') = length es /\
    Permutation (tag_from 0 p es) ((e, was) :: rest) /\ Permutation (absq q') ((e, new) :: rest).
Proof.
  intros Hp He Hwas. pose proof (nth_error_Some_lt _ _ _ He) as Hi. unfold repartition.
  destruct was, new; cbn [negb andb].
  - exists {| entries := es; part := p |}, (remove_at i (tag_from 0 p es)).
    unfold rep_ok, absq; cbn. repeat split; auto; rewrite Hwas; apply remove_at_perm; rewrite nth_error_tag, He; reflexivity.
  - symmetry in Hwas. apply Nat.leb_le in Hwas.
    destruct (move_to_uncovered p es i e Hwas He) as (es' & rest & Hs & P1 & P2).
    rewrite Hs. exists {| entries := es'; part := S p |}, rest.
    unfold rep_ok, absq; cbn. rewrite (swap_length _ _ _ _ Hs). repeat split; auto. lia.
  - symmetry in Hwas. apply Nat.leb_gt in Hwas. destruct p as [|p']; [lia|].
    destruct (move_to_covered p' es i e) as (es' & rest & Hs & P1 & P2); auto; try lia.
    rewrite Hs. exists {| entries := es'; part := p' |}, rest.
    unfold rep_ok, absq; cbn. rewrite (swap_length _ _ _ _ Hs). repeat split; auto. lia.
  - exists {| entries := es; part := p |}, (remove_at i (tag_from 0 p es)).
    unfold rep_ok, absq; cbn. repeat split; auto; rewrite Hwas; apply remove_at_perm; rewrite nth_error_tag, He; reflexivity.
Qed.

Lemma append_uncovered_spec es p l :
  p <= length es ->
  exists q', append_uncovered es p l = Ok q' /\ rep_ok q' /\
    Permutation (absq q') ((l, false) :: tag_from 0 p es).
Proof.
  intro Hp. unfold append_uncovered. rewrite app_length. cbn [length]. rewrite Nat.add_1_r.
  assert (He : nth_error (es ++ [l]) (length es) = Some l).
  { rewrite nth_error_app2, Nat.sub_diag by lia. reflexivity. }
  destruct (move_to_uncovered p (es ++ [l]) (length es) l Hp He) as (es' & rest & Hs & P1 & P2).
  rewrite swap_comm, Hs. exists {| entries := es'; part := S p |}.
  unfold rep_ok, absq; cbn. rewrite (swap_length _ _ _ _ Hs), app_length. cbn. repeat split; auto; try lia.
  rewrite P2. constructor. rewrite tag_snoc in P1 by auto.
  apply Permutation_cons_inv with (a := (l, true)). rewrite <- P1.
  rewrite Permutation_app_comm. reflexivity.
Qed.

(** ** push_covered *)
Lemma push_covered_spec q l c :
  rep_ok q ->
  exists q', push_covered q l c = Ok q' /\ rep_ok q' /\ spec_push (absq q) l c (absq q').
Proof.
  intro Hr. unfold push_covered.
  pose proof (position_spec (fun x => same_segment x l) (entries q)) as Hpos.
  destruct (position _ (entries q)) as [i|].
  - destruct Hpos as (e & He & Hseg & _). rewrite He. unfold same_segment in Hseg. apply N.eqb_eq in Hseg.
    pose proof (absq_split q i e He) as Psplit.
    destruct (N.ltb_spec (lmc e) (lmc l)).
    + (* higher max cut *)
      set (es1 := set_at (entries q) i (with_mc e (lmc l))).
      assert (He1 : nth_error es1 i = Some (with_mc e (lmc l))).
      { unfold es1. rewrite nth_error_set_at, Nat.eqb_refl. apply nth_error_Some_lt in He.
        destruct (Nat.ltb_spec i (length (entries q))); [reflexivity|lia]. }
      assert (Hr1 : part q <= length es1) by (unfold es1; rewrite set_at_length; exact Hr).
      destruct (repartition_spec es1 (part q) i (part q <=? i) c _ Hr1 He1 eq_refl)
        as (q' & rest & Hq & Hr' & Hlen & P1 & P2).
      rewrite Hq. exists q'. repeat split; auto.
      right. exists e, (part q <=? i), (remove_at i (absq q)). repeat split; auto.
      left. split; auto. rewrite P2. rewrite (with_mc_same_seg e l Hseg). constructor.
      unfold es1 in P1. rewrite tag_set_at in P1.
      rewrite (set_at_perm _ i (e, part q <=? i)) in P1 by (apply absq_nth; auto).
      apply Permutation_cons_inv in P1. symmetry. exact P1.
    + destruct (N.eqb_spec (lmc l) (lmc e)).
      * (* equal max cut *)
        destruct (repartition_spec (entries q) (part q) i (part q <=? i) ((part q <=? i) || c) e Hr He eq_refl)
          as (q' & rest & Hq & Hr' & Hlen & P1 & P2).
        rewrite Hq. exists q'. repeat split; auto.
        right. exists e, (part q <=? i), rest. repeat split; auto.
      * (* lower: ignored *)
        exists q. repeat split; auto.
        right. exists e, (part q <=? i), (remove_at i (absq q)). repeat split; auto.
        right. right. split; [lia|reflexivity].
  - assert (Hno : no_seg (lseg l) (absq q)).
    { intros e b Hin. apply in_absq_entries in Hin. apply Hpos in Hin. unfold same_segment in Hin.
      apply N.eqb_neq in Hin. exact Hin. }
    destruct c.
    + exists {| entries := entries q ++ [l]; part := part q |}.
      unfold rep_ok, absq in *; cbn. rewrite app_length. repeat split; auto; try lia.
      left. split; auto. rewrite tag_snoc by auto. rewrite Permutation_app_comm. reflexivity.
    + destruct (append_uncovered_spec (entries q) (part q) l Hr) as (q' & Hq & Hr' & P).
      rewrite Hq. exists q'. repeat split; auto. left. split; auto.
Qed.

Lemma push_duplicate_spec q l :
  rep_ok q ->
  exists q', push_duplicate q l = Ok q' /\ rep_ok q' /\ Permutation (absq q') ((l, false) :: absq q).
Proof. intro Hr. apply append_uncovered_spec. exact Hr. Qed.

(** ** remove_uncovered *)
Lemma remove_uncovered_spec q i x :
  rep_ok q -> i < part q -> nth_error (entries q) i = Some x ->
  exists q', remove_uncovered q i = Ok (q', x) /\ rep_ok q' /\
    Permutation (absq q) ((x, false) :: absq q') /\
    part q' = part q - 1 /\ length (entries q') = length (entries q) - 1 /\
    (forall k, k < i -> nth_error (entries q') k = nth_error (entries q) k) /\
    (forall k y, i <= k -> nth_error (entries q') k = Some y ->
                 exists k', i < k' /\ nth_error (entries q) k' = Some y).
Proof.
  intros Hr Hi Hx. unfold remove_uncovered. unfold rep_ok in Hr.
  destruct (part q) as [|p'] eqn:Ep; [lia|].
  destruct (swap_some (entries q) i p') as [es1 Hs]; try lia. rewrite Hs.
  pose proof (swap_length _ _ _ _ Hs) as Hl1.
  destruct (swap_remove_some es1 p') as (y & es' & Hsr); try lia. rewrite Hsr.
  pose proof (swap_remove_spec _ _ _ _ Hsr) as (Hy & _ & Hl' & Hk).
  assert (y = x).
  { rewrite (nth_error_swap _ _ _ _ p' Hs), Nat.eqb_refl in Hy. congruence. }
  subst y. exists {| entries := es'; part := p' |}.
  unfold rep_ok, absq; cbn [entries part]. rewrite Ep.
  split; auto. split; [lia|]. split.
  - assert (Hside : (S p' <=? i) = (S p' <=? p')) by (natb; lia).
    pose proof (tag_swap_same (S p') _ _ _ _ Hs Hside) as Hz.
    rewrite (swap_perm _ _ _ _ Hz).
    apply swap_remove_perm with (i := p'). apply tag_swap_remove_unc; auto. lia.
  - split; [lia|]. split; [lia|]. split.
    + intros k Hki. rewrite Hk, Hl1, (nth_error_swap _ _ _ _ k Hs). pwfin.
    + intros k z Hik. rewrite Hk, Hl1. intro Hz.
      destruct (Nat.ltb_spec (S k) (length (entries q))); [|discriminate].
      destruct (Nat.eqb_spec k p').
      * subst k. rewrite (nth_error_swap _ _ _ _ _ Hs) in Hz.
        exists (length (entries q) - 1). split; [lia|]. revert Hz. natb; try lia; auto.
      * rewrite (nth_error_swap _ _ _ _ _ Hs) in Hz.
        destruct (Nat.eqb_spec k p'); [lia|]. destruct (Nat.eqb_spec k i).
        -- subst k. exists p'. split; [lia|auto].
        -- exists k. split; [lia|auto].
Qed.

(** ** pop_covered / pop / peek *)
Lemma maximal_absq q x : (forall y, In y (entries q) -> loc_leb y x = true) -> maximal x (absq q).
Proof. intros H e c Hin. apply H. eapply in_absq_entries; eauto. Qed.

Lemma absq_nil q : entries q = [] -> absq q = [].
Proof. unfold absq. intros ->. reflexivity. Qed.

Lemma pop_covered_spec q :
  rep_ok q ->
  exists q' r, pop_covered q = Ok (q', r) /\ rep_ok q' /\ spec_pop (absq q) r (absq q').
Proof.
  intro Hr. unfold pop_covered. pose proof (argmax_spec (entries q)) as Ha.
  destruct (argmax (entries q)) as [[i x]|].
  - destruct Ha as [Hx Hmax]. destruct (Nat.ltb_spec i (part q)).
    + destruct (remove_uncovered_spec q i x Hr H Hx) as (q' & Hq & Hr' & P & _).
      rewrite Hq. cbn [bind]. exists q', (Some (x, false)). repeat split; auto. now apply maximal_absq.
    + pose proof (nth_error_Some_lt _ _ _ Hx) as Hi.
      destruct (swap_remove_some (entries q) i Hi) as (y & es' & Hsr). rewrite Hsr.
      pose proof (swap_remove_spec _ _ _ _ Hsr) as (Hy & _ & Hl' & _).
      assert (y = x) by congruence. subst y.
      exists {| entries := es'; part := part q |}, (Some (x, true)).
      unfold rep_ok in *. cbn [entries part]. repeat split; auto; try lia.
      * unfold absq; cbn [entries part]. apply swap_remove_perm with (i := i).
        apply tag_swap_remove_cov; auto.
      * now apply maximal_absq.
  - exists q, None. repeat split; auto; now apply absq_nil.
Qed.

(** ** pop_duplicates *)
Lemma filter_perm_cons {A} (f : A -> bool) l x l' :
  Permutation l (x :: l') ->
  Permutation (filter f l) (if f x then x :: filter f l' else filter f l').
Proof. intro P. apply (perm_filter f) in P. exact P. Qed.

Lemma filter_all {A} (f : A -> bool) l : (forall x, In x l -> f x = true) -> filter f l = l.
Proof.
  induction l as [|x l IH]; cbn; auto. intro H. rewrite (H x) by auto. f_equal. apply IH. intros; apply H; auto.
Qed.
Lemma filter_none {A} (f : A -> bool) l : (forall x, In x l -> f x = false) -> filter f l = [].
Proof.
  induction l as [|x l IH]; cbn; auto. intro H. rewrite (H x) by auto. apply IH. intros; apply H; auto.
Qed.

Lemma filter_step location (m m1 : ms) e b :
  Permutation m ((e, b) :: m1) -> loc_eqb e location = true ->
  Permutation (filter (fun x => negb (is_loc location x)) m) (filter (fun x => negb (is_loc location x)) m1)
  /\ length (filter (is_loc location) m) = S (length (filter (is_loc location) m1)).
Proof.
  intros P E. split.
  - rewrite (perm_filter _ _ _ P). cbn [filter]. unfold is_loc at 1. cbn [fst]. rewrite E. reflexivity.
  - rewrite (Permutation_length (perm_filter (is_loc location) _ _ P)). cbn [filter].
    unfold is_loc at 1. cbn [fst]. rewrite E. reflexivity.
Qed.

Lemma pd_loop_spec location : forall j q count,
  rep_ok q -> j <= length (entries q) ->
  (forall k e, j <= k -> nth_error (entries q) k = Some e -> loc_eqb e location = false) ->
  exists q' n, pd_loop location j q count = Ok (q', n) /\ rep_ok q' /\
    Permutation (absq q') (filter (fun x => negb (is_loc location x)) (absq q)) /\
    n = count + length (filter (is_loc location) (absq q)).
Proof.
  induction j as [|j IH]; intros q count Hr Hj Hdone; cbn [pd_loop].
  - exists q, count. split; auto. split; auto.
    assert (Hall : forall x, In x (absq q) -> is_loc location x = false).
    { intros [e b] Hin. apply in_absq_entries in Hin. apply In_nth_error in Hin as [k Hk].
      apply (Hdone k e); [lia|exact Hk]. }
    split.
    + rewrite filter_all; auto. intros x Hx. now rewrite (Hall x Hx).
    + rewrite (filter_none (is_loc location)) by auto. cbn; lia.
  - destruct (nth_error_lt_Some (entries q) j) as [e He]; [lia|]. rewrite He.
    destruct (loc_eqb e location) eqn:Eeq.
    + destruct (Nat.ltb_spec j (part q)) as [Hjp|Hjp].
      * (* uncovered: same moves as remove_uncovered *)
        destruct (remove_uncovered_spec q j e Hr Hjp He) as (q1 & Hq1 & Hr1 & P & Hp1 & Hl1 & _ & Hfrom).
        unfold remove_uncovered in Hq1. destruct (part q) as [|p'] eqn:Ep; [lia|].
        destruct (swap (entries q) j p') as [es1|]; [|discriminate].
        destruct (swap_remove es1 p') as [[y es']|]; [|discriminate]. inv Hq1.
        destruct (IH {| entries := es'; part := p' |} (S count)) as (q' & n & Hq' & Hr' & P' & Hn); auto.
        { cbn [entries] in *. lia. }
        { intros k z Hk Hz. destruct (Hfrom k z Hk Hz) as (k' & Hk' & Hz'). apply (Hdone k' z); [lia|exact Hz']. }
        rewrite Hq'. exists q', n. repeat split; auto.
        -- rewrite P'. symmetry. apply (filter_step location _ _ _ _ P Eeq).
        -- rewrite Hn. rewrite (proj2 (filter_step location _ _ _ _ P Eeq)). lia.
      * pose proof (nth_error_Some_lt _ _ _ He) as Hi.
        destruct (swap_remove_some (entries q) j Hi) as (y & es' & Hsr). rewrite Hsr.
        pose proof (swap_remove_spec _ _ _ _ Hsr) as (Hy & _ & Hl' & Hk).
        assert (y = e) by congruence. subst y.
        assert (P : Permutation (absq q) ((e, true) :: absq {| entries := es'; part := part q |})).
        { unfold absq; cbn [entries part]. apply swap_remove_perm with (i := j). apply tag_swap_remove_cov; auto. }
        destruct (IH {| entries := es'; part := part q |} (S count)) as (q' & n & Hq' & Hr' & P' & Hn).
        { unfold rep_ok in *; cbn [entries part]. lia. }
        { cbn [entries]. lia. }
        { cbn [entries]. intros k z Hkj Hz. rewrite Hk in Hz.
          destruct (Nat.ltb_spec (S k) (length (entries q))); [|discriminate].
          destruct (Nat.eqb_spec k j); eapply Hdone; try exact Hz; lia. }
        rewrite Hq'. exists q', n. repeat split; auto.
        -- rewrite P'. symmetry. apply (filter_step location _ _ _ _ P Eeq).
        -- rewrite Hn. rewrite (proj2 (filter_step location _ _ _ _ P Eeq)). lia.
    + apply IH; auto; try lia.
      intros k z Hk Hz. destruct (Nat.eq_dec k j) as [->|]; [congruence|]. apply (Hdone k z); [lia|exact Hz].
Qed.

Lemma pop_duplicates_spec q :
  rep_ok q ->
  exists q' r, pop_duplicates q = Ok (q', r) /\ rep_ok q' /\ spec (absq q) OPopDups (absq q') (VLocCnt r).
Proof.
  intro Hr. unfold pop_duplicates. pose proof (argmax_spec (entries q)) as Ha.
  destruct (argmax (entries q)) as [[i x]|].
  - destruct Ha as [Hx Hmax].
    destruct (pd_loop_spec x (length (entries q)) q 0 Hr (le_n _)) as (q' & n & Hq & Hr' & P & Hn).
    { intros k e Hk He. apply nth_error_Some_lt in He. lia. }
    rewrite Hq. cbn [bind]. exists q', (Some (x, n)). repeat split; auto.
    right. exists x, (part q <=? i). split.
    + eapply nth_error_In. apply absq_nth. exact Hx.
    + split; [now apply maximal_absq|]. split; auto. now rewrite Hn.
  - exists q, None. repeat split; auto. left. rewrite (absq_nil q Ha). auto.
Qed.

(** ** drain_above *)
Lemma da_unc_spec thr : forall fuel i q acc,
  rep_ok q -> i <= part q -> part q - i < fuel ->
  (forall k e, k < i -> nth_error (entries q) k = Some e -> (lmc e <= thr)%N) ->
  exists q' xs, da_unc fuel thr i q acc = Ok (q', acc ++ xs) /\ rep_ok q' /\
    Permutation (absq q) (map (fun x => (x, false)) xs ++ absq q') /\
    Forall (fun x => (thr < lmc x)%N) xs /\
    (forall e, In (e, false) (absq q') -> (lmc e <= thr)%N).
Proof.
  induction fuel as [|fuel IH]; intros i q acc Hr Hi Hf Hlow; [lia|]. cbn [da_unc].
  destruct (Nat.ltb_spec i (part q)) as [Hlt|Hge].
  - destruct (nth_error_lt_Some (entries q) i) as [e He]; [unfold rep_ok in Hr; lia|]. rewrite He.
    destruct (N.ltb_spec thr (lmc e)).
    + destruct (remove_uncovered_spec q i e Hr Hlt He) as (q1 & Hq1 & Hr1 & P & Hp1 & Hl1 & Hsame & _).
      rewrite Hq1. cbn [bind].
      destruct (IH i q1 (acc ++ [e])) as (q' & xs & Hq' & Hr' & P' & Hall & Hrest); auto; try lia.
      { intros k z Hk Hz. rewrite Hsame in Hz by auto. eapply Hlow; eauto. }
      rewrite Hq'. exists q', (e :: xs). rewrite <- app_assoc. repeat split; auto.
      rewrite P, P'. reflexivity.
    + destruct (IH (S i) q acc) as (q' & xs & Hq' & Hr' & P' & Hall & Hrest); auto; try lia.
      { intros k z Hk Hz. destruct (Nat.eq_dec k i) as [->|]; [assert (z = e) by congruence; subst; lia|].
        apply (Hlow k z); [lia|auto]. }
      rewrite Hq'. exists q', xs. repeat split; auto.
  - exists q, []. rewrite app_nil_r. repeat split; auto.
    intros e Hin. apply In_nth_error in Hin as [k Hk]. unfold absq in Hk. rewrite nth_error_tag in Hk.
    destruct (nth_error (entries q) k) as [z|] eqn:Ez; [|discriminate]. cbn [option_map] in Hk.
    injection Hk as -> Hb. apply Nat.leb_gt in Hb. apply (Hlow k e); auto. lia.
Qed.

Lemma da_cov_spec thr : forall fuel i q,
  rep_ok q -> part q <= i -> i <= length (entries q) -> length (entries q) - i < fuel ->
  (forall k e, part q <= k -> k < i -> nth_error (entries q) k = Some e -> (lmc e <= thr)%N) ->
  exists q' ys, da_cov fuel thr i q = Ok q' /\ rep_ok q' /\ part q' = part q /\
    Permutation (absq q) (map (fun x => (x, true)) ys ++ absq q') /\
    Forall (fun x => (thr < lmc x)%N) ys /\
    (forall e, In (e, true) (absq q') -> (lmc e <= thr)%N).
Proof.
  induction fuel as [|fuel IH]; intros i q Hr Hpi Hi Hf Hlow; [lia|]. cbn [da_cov].
  destruct (Nat.ltb_spec i (length (entries q))) as [Hlt|Hge].
  - destruct (nth_error_lt_Some (entries q) i Hlt) as [e He]. rewrite He.
    destruct (N.ltb_spec thr (lmc e)).
    + destruct (swap_remove_some (entries q) i Hlt) as (y & es' & Hsr). rewrite Hsr.
      pose proof (swap_remove_spec _ _ _ _ Hsr) as (Hy & _ & Hl' & Hk).
      assert (y = e) by congruence. subst y.
      set (q1 := {| entries := es'; part := part q |}).
      assert (P : Permutation (absq q) ((e, true) :: absq q1)).
      { unfold absq, q1; cbn [entries part]. apply swap_remove_perm with (i := i). apply tag_swap_remove_cov; auto. }
      destruct (IH i q1) as (q' & ys & Hq' & Hr' & Hp' & P' & Hall & Hrest).
      { unfold rep_ok, q1 in *. cbn [entries part]. lia. }
      { unfold q1; cbn [part]; lia. }
      { unfold q1; cbn [entries]; lia. }
      { unfold q1; cbn [entries]; lia. }
      { unfold q1; cbn [entries part]. intros k z Hpk Hki Hz. rewrite Hk in Hz.
        destruct (Nat.ltb_spec (S k) (length (entries q))); [|discriminate].
        destruct (Nat.eqb_spec k i); [lia|]. eapply Hlow; eauto. }
      fold q1. rewrite Hq'. exists q', (e :: ys). repeat split; auto.
      rewrite P, P'. reflexivity.
    + destruct (IH (S i) q) as (q' & ys & Hq' & Hr' & Hp' & P' & Hall & Hrest); auto; try lia.
      { intros k z Hpk Hk Hz. destruct (Nat.eq_dec k i) as [->|]; [assert (z = e) by congruence; subst; lia|].
        apply (Hlow k z); auto; lia. }
      rewrite Hq'. exists q', ys. repeat split; auto.
  - exists q, []. repeat split; auto.
    intros e Hin. apply In_nth_error in Hin as [k Hk]. unfold absq in Hk. rewrite nth_error_tag in Hk.
    destruct (nth_error (entries q) k) as [z|] eqn:Ez; [|discriminate]. cbn [option_map] in Hk.
    injection Hk as -> Hb. apply Nat.leb_le in Hb. apply (Hlow k e); auto.
    apply nth_error_Some_lt in Ez. lia.
Qed.

Lemma filter_app_map_false t (xs : list loc) :
  Forall (fun x => (t < lmc x)%N) xs ->
  filter (to_drain t) (map (fun x => (x, false)) xs) = map (fun x => (x, false)) xs
  /\ filter (at_most t) (map (fun x => (x, false)) xs) = [].
Proof.
  induction 1 as [|x xs Hx _ [IH1 IH2]]; [split; reflexivity|].
  cbn [map filter]. rewrite IH1, IH2. unfold to_drain, at_most. cbn [fst snd negb andb].
  destruct (N.ltb_spec t (lmc x)); [|lia]. destruct (N.leb_spec (lmc x) t); [lia|]. auto.
Qed.

Lemma filter_app_map_true t (ys : list loc) :
  Forall (fun x => (t < lmc x)%N) ys ->
  filter (to_drain t) (map (fun x => (x, true)) ys) = []
  /\ filter (at_most t) (map (fun x => (x, true)) ys) = [].
Proof.
  induction 1 as [|x xs Hx _ [IH1 IH2]]; [split; reflexivity|].
  cbn [map filter]. rewrite IH1, IH2. unfold to_drain, at_most. cbn [fst snd negb andb].
  destruct (N.leb_spec (lmc x) t); [lia|]. auto.
Qed.

Lemma drain_above_spec q t :
  rep_ok q ->
  exists q' ls, drain_above q t = Ok (q', ls) /\ rep_ok q' /\ spec (absq q) (ODrainAbove t) (absq q') (VLocs ls).
Proof.
  intro Hr. unfold drain_above.
  assert (A1 : 0 <= part q) by lia.
  assert (A2 : part q - 0 < S (length (entries q))) by (unfold rep_ok in Hr; lia).
  assert (A3 : forall k e, k < 0 -> nth_error (entries q) k = Some e -> (lmc e <= t)%N) by (intros; lia).
  destruct (da_unc_spec t (S (length (entries q))) 0 q [] Hr A1 A2 A3) as (q1 & xs & Hq1 & Hr1 & P1 & Hxs & Hlow1).
  rewrite Hq1. cbn [bind app].
  assert (B1 : part q1 <= length (entries q1)) by exact Hr1.
  assert (B2 : length (entries q1) - part q1 < S (length (entries q1))) by lia.
  assert (B3 : forall k e, part q1 <= k -> k < part q1 -> nth_error (entries q1) k = Some e -> (lmc e <= t)%N) by (intros; lia).
  destruct (da_cov_spec t (S (length (entries q1))) (part q1) q1 Hr1 (le_n _) B1 B2 B3) as (q2 & ys & Hq2 & Hr2 & Hp2 & P2 & Hys & Hlow2).
  rewrite Hq2. cbn [bind]. exists q2, xs. split; [reflexivity|]. split; [exact Hr2|].
  assert (Hlow1' : forall e, In (e, false) (absq q2) -> (lmc e <= t)%N).
  { intros e Hin. apply Hlow1. rewrite P2. apply in_or_app. right. exact Hin. }
  assert (Hkeep : forall x, In x (absq q2) -> at_most t x = true /\ to_drain t x = false).
  { intros [e b] Hin. unfold at_most, to_drain. cbn [fst snd].
    assert ((lmc e <= t)%N) by (destruct b; auto).
    destruct (N.leb_spec (lmc e) t); [|lia]. destruct (N.ltb_spec t (lmc e)); [lia|]. rewrite andb_false_r. auto. }
  destruct (filter_app_map_false t xs Hxs) as [F1 F2].
  destruct (filter_app_map_true t ys Hys) as [F3 F4].
  assert (P : Permutation (absq q) (map (fun x => (x, false)) xs ++ map (fun x => (x, true)) ys ++ absq q2)).
  { rewrite P1, P2. reflexivity. }
  cbn [spec]. split.
  - rewrite (perm_filter _ _ _ P), !filter_app, F2, F4. cbn [app].
    rewrite filter_all; [reflexivity|]. intros x Hx. apply Hkeep; auto.
  - exists xs. split; auto.
    rewrite (perm_filter _ _ _ P), !filter_app, F1, F3. cbn [app].
    rewrite filter_none by (intros x Hx; apply Hkeep; auto).
    rewrite app_nil_r, map_map. cbn [fst]. rewrite map_id. reflexivity.
Qed.

(** ** cover_up_to *)
Lemma cover_up_to_spec q s c lg :
  rep_ok q -> (lg <= u64_max)%N ->
  exists q', cover_up_to q s c lg = Ok q' /\ rep_ok q' /\ spec_cover (absq q) s c lg (absq q').
Proof.
  intros Hr Hlg. unfold cover_up_to.
  pose proof (position_spec (fun x => (lseg x =? s)%N) (entries q)) as Hpos.
  destruct (position _ (entries q)) as [i|].
  - destruct Hpos as (e & He & Hseg & _). apply N.eqb_eq in Hseg.
    pose proof (absq_split q i e He) as Psplit.
    destruct (Nat.leb_spec (part q) i) as [Hcov|Hunc].
    + exists q. split; [reflexivity|]. split; [exact Hr|]. right.
      exists e, true, (remove_at i (absq q)). split; [exact Psplit|]. split; [exact Hseg|].
      left. split; reflexivity.
    + destruct (N.leb_spec lg c).
      * destruct (part q) as [|p'] eqn:Ep; [lia|].
        destruct (move_to_covered p' (entries q) i e) as (es' & rest & Hs & P1 & P2); auto; try lia.
        { unfold rep_ok in Hr. lia. }
        rewrite Hs. exists {| entries := es'; part := p' |}.
        unfold rep_ok in *. cbn [entries part]. rewrite (swap_length _ _ _ _ Hs). repeat split; try lia.
        right. exists e, false, rest. unfold absq at 1. rewrite Ep. repeat split; auto.
      * rewrite He. destruct (N.leb_spec (lmc e) c).
        -- destruct (N.ltb_spec c u64_max); [|lia].
           exists {| entries := set_at (entries q) i (with_mc e (c + 1)); part := part q |}.
           unfold rep_ok in *. cbn [entries part]. rewrite set_at_length. repeat split; auto.
           right. exists e, false, (remove_at i (absq q)). repeat split; auto.
           right. right. left. repeat split; auto.
           unfold absq at 1. cbn [entries part]. rewrite tag_set_at.
           destruct (Nat.leb_spec (part q) i); [lia|].
           apply set_at_perm with (x := (e, false)). rewrite <- (proj2 (Nat.leb_gt _ _) Hunc). now apply absq_nth.
        -- exists q. repeat split; auto. right. exists e, false, (remove_at i (absq q)). repeat split; auto.
           right. right. right. repeat split; auto.
  - exists q. repeat split; auto. left. split; [|reflexivity].
    intros e b Hin. apply in_absq_entries in Hin. apply Hpos in Hin. now apply N.eqb_neq in Hin.
Qed.

(** ** drain_all, all_covered, is_empty *)
Lemma uncovered_prefix p es : forall k0,
  map fst (filter uncovered (tag_from k0 p es)) = firstn (p - k0) es.
Proof.
  induction es as [|e es IH]; intro k0; cbn [tag_from filter map].
  - now rewrite firstn_nil.
  - unfold uncovered at 1. cbn [snd]. destruct (Nat.leb_spec p k0); cbn [negb].
    + rewrite IH. replace (p - k0) with 0 by lia. replace (p - S k0) with 0 by lia. reflexivity.
    + cbn [map fst]. rewrite IH. replace (p - k0) with (S (p - S k0)) by lia. reflexivity.
Qed.

Lemma all_covered_spec q : rep_ok q -> all_covered q = forallb snd (absq q).
Proof.
  unfold rep_ok, all_covered, absq. destruct (part q) as [|p'].
  - intros _. symmetry. apply forallb_forall. intros [e b] Hin.
    apply In_nth_error in Hin as [k Hk]. rewrite nth_error_tag in Hk.
    destruct (nth_error (entries q) k); cbn in Hk; [|discriminate]. now inv Hk.
  - destruct (entries q); cbn [length]; [lia|]. intros _. reflexivity.
Qed.

(** * One step *)
Lemma step_refines q o :
  rep_ok q -> op_wf o ->
  exists q' v, step q o = Ok (q', v) /\ rep_ok q' /\ spec (absq q) o (absq q') v.
Proof.
  intros Hr Hwf. destruct o; cbn [step spec].
  - exists qnew, VUnit. repeat split. unfold rep_ok; cbn; lia.
  - exists q, (VBool (is_empty q)). repeat split; auto. exists (is_empty q). split; auto.
    unfold is_empty, absq. destruct (entries q); cbn; split; intro; auto; discriminate.
  - destruct (push_covered_spec q l false Hr) as (q' & Hq & Hr' & Hs). unfold push. rewrite Hq.
    exists q', VUnit. repeat split; auto.
  - destruct (push_covered_spec q l c Hr) as (q' & Hq & Hr' & Hs). rewrite Hq.
    exists q', VUnit. repeat split; auto.
  - destruct (push_duplicate_spec q l Hr) as (q' & Hq & Hr' & Hs). rewrite Hq.
    exists q', VUnit. repeat split; auto.
  - destruct (pop_covered_spec q Hr) as (q' & r & Hq & Hr' & Hs). unfold pop. rewrite Hq. cbn [bind].
    exists q', (VLoc (option_map fst r)). repeat split; auto. exists r. auto.
  - destruct (pop_covered_spec q Hr) as (q' & r & Hq & Hr' & Hs). rewrite Hq. cbn [bind].
    exists q', (VLocCov r). repeat split; auto. exists r. auto.
  - exists q, (VLoc (peek q)). repeat split; auto. unfold peek.
    pose proof (argmax_spec (entries q)) as Ha. destruct (argmax (entries q)) as [[i x]|]; cbn [option_map snd].
    + right. destruct Ha as [Hx Hmax]. exists x, (part q <=? i). repeat split.
      * eapply nth_error_In. apply absq_nth. exact Hx.
      * now apply maximal_absq.
    + left. split; auto. now apply absq_nil.
  - destruct (pop_duplicates_spec q Hr) as (q' & r & Hq & Hr' & Hs). rewrite Hq. cbn [bind].
    exists q', (VLocCnt r). repeat split; auto.
  - exists q, (VBool (all_covered q)). repeat split; auto. now rewrite all_covered_spec.
  - destruct (drain_above_spec q t Hr) as (q' & ls & Hq & Hr' & Hs). rewrite Hq. cbn [bind].
    exists q', (VLocs ls). repeat split; auto; apply Hs.
  - destruct (cover_up_to_spec q s c lg Hr Hwf) as (q' & Hq & Hr' & Hs). rewrite Hq. cbn [bind].
    exists q', VUnit. repeat split; auto.
  - unfold drain_all. exists qnew, (VLocs (firstn (part q) (entries q))). repeat split.
    + unfold rep_ok; cbn; lia.
    + exists (firstn (part q) (entries q)). split; auto. unfold absq.
      rewrite uncovered_prefix, Nat.sub_0_r. reflexivity.
Qed.

(** * Sequences of operations *)
Fixpoint spec_trace (m : ms) (ops : list op) (tr : list (out * queue)) : Prop :=
  match ops, tr with
  | [], [] => True
  | o :: ops', (v, q') :: tr' => spec m o (absq q') v /\ spec_trace (absq q') ops' tr'
  | _, _ => False
  end.

(** at most one entry per segment, on the concrete vector *)
Definition uniq_q (q : queue) : Prop := NoDup (map lseg (entries q)).

Lemma uniq_q_ms q : uniq_q q <-> uniq_ms (absq q).
Proof.
  unfold uniq_q, uniq_ms, absq.
  rewrite <- (map_map fst lseg), map_fst_tag. reflexivity.
Qed.

Definition travqueue_refines_stmt : Prop :=
  forall (ops : list op) (q0 : queue),
    rep_ok q0 -> Forall op_wf ops ->
    exists tr,
      (* no Bug / Panic / Fuel outcome, whatever the sequence *)
      run q0 ops = Ok tr
      (* every step satisfies the multiset specification between the abstractions *)
      /\ spec_trace (absq q0) ops tr
      (* the representation invariant holds in every state *)
      /\ Forall (fun vq => rep_ok (snd vq)) tr
      (* one entry per segment unless push_duplicate is used *)
      /\ (uniq_q q0 -> existsb is_push_dup ops = false -> Forall (fun vq => uniq_q (snd vq)) tr).

Lemma travqueue_refines_proof : travqueue_refines_stmt.
Proof.
  intro ops. induction ops as [|o ops IH]; intros q0 Hr Hwf.
  - exists []. cbn. repeat split; auto.
  - inv Hwf. destruct (step_refines q0 o Hr H1) as (q' & v & Hstep & Hr' & Hspec).
    destruct (IH q' Hr' H2) as (tr & Hrun & Htr & Hreps & Huniq).
    exists ((v, q') :: tr). cbn [run]. rewrite Hstep. cbn [bind]. rewrite Hrun. cbn [bind].
    split; [reflexivity|]. split; [split; assumption|]. split; [constructor; assumption|].
    intros Hu Hnd. cbn [existsb] in Hnd. apply orb_false_iff in Hnd as [Hnd1 Hnd2].
    assert (Hu' : uniq_q q').
    { apply uniq_q_ms. eapply spec_preserves_uniq; eauto. now apply uniq_q_ms. }
    constructor; auto.
Qed.

(** The queue as created by [TraversalQueue::new]. *)
Definition travqueue_from_new_stmt : Prop :=
  forall ops : list op, Forall op_wf ops ->
    exists tr, run qnew ops = Ok tr /\ spec_trace [] ops tr
      /\ Forall (fun vq => rep_ok (snd vq)) tr
      /\ (existsb is_push_dup ops = false -> Forall (fun vq => uniq_q (snd vq)) tr).
Lemma travqueue_from_new_proof : travqueue_from_new_stmt.
Proof.
  intros ops Hwf.
  destruct (travqueue_refines_proof ops qnew) as (tr & H1 & H2 & H3 & H4); auto.
  { unfold rep_ok; cbn; lia. }
  exists tr. repeat split; auto. intro. apply H4; auto. constructor.
Qed.

(** What a pop returns has the highest max cut in the queue. *)
Definition pop_highest_max_cut_stmt : Prop :=
  forall (m m' : ms) l c, spec_pop m (Some (l, c)) m' ->
    In (l, c) m /\ forall e b, In (e, b) m -> (lmc e <= lmc l)%N.
Lemma pop_highest_max_cut_proof : pop_highest_max_cut_stmt.
Proof.
  intros m m' l c [P Hmax]. split.
  - eapply Permutation_in; [symmetry; exact P|left; reflexivity].
  - intros e b Hin. apply loc_leb_mc. eapply Hmax; eauto.
Qed.

(** * On queues with one entry per segment the specification is a function *)
Lemma uniq_ms_same_seg m x y :
  uniq_ms m -> In x m -> In y m -> lseg (fst x) = lseg (fst y) -> x = y.
Proof.
  unfold uniq_ms. induction m as [|z m IH]; cbn [map In]; [tauto|].
  intros Hn Hx Hy Hs. inv Hn. destruct Hx as [->|Hx], Hy as [->|Hy]; auto.
  - exfalso. apply H1. rewrite Hs. apply in_map_iff. exists y. auto.
  - exfalso. apply H1. rewrite <- Hs. apply in_map_iff. exists x. auto.
Qed.

Lemma uniq_split m x r1 y r2 :
  uniq_ms m -> Permutation m (x :: r1) -> Permutation m (y :: r2) ->
  lseg (fst x) = lseg (fst y) -> x = y /\ Permutation r1 r2.
Proof.
  intros Hu P1 P2 Hs.
  assert (x = y).
  { eapply uniq_ms_same_seg; eauto.
    - eapply Permutation_in; [symmetry; exact P1|left; auto].
    - eapply Permutation_in; [symmetry; exact P2|left; auto]. }
  subst y. split; auto. eapply Permutation_cons_inv. rewrite <- P1. exact P2.
Qed.

Definition out_equiv (v w : out) : Prop :=
  match v, w with
  | VLocs a, VLocs b => Permutation a b
  | _, _ => v = w
  end.

Definition spec_functional_stmt : Prop :=
  forall (m : ms) (o : op) m1 v1 m2 v2,
    uniq_ms m -> spec m o m1 v1 -> spec m o m2 v2 ->
    Permutation m1 m2 /\ out_equiv v1 v2.

Lemma spec_push_functional m l c m1 m2 :
  uniq_ms m -> spec_push m l c m1 -> spec_push m l c m2 -> Permutation m1 m2.
Proof.
  intros Hu [[N1 P1]|(e1 & b1 & r1 & Q1 & S1 & C1)] [[N2 P2]|(e2 & b2 & r2 & Q2 & S2 & C2)].
  - now rewrite P1, P2.
  - exfalso. eapply (N1 e2 b2); auto. eapply Permutation_in; [symmetry; exact Q2|left; auto].
  - exfalso. eapply (N2 e1 b1); auto. eapply Permutation_in; [symmetry; exact Q1|left; auto].
  - destruct (uniq_split m (e1, b1) r1 (e2, b2) r2 Hu Q1 Q2) as [Heq Pr]; [cbn; congruence|].
    inv Heq.
    destruct C1 as [[? P1]|[[? P1]|[? P1]]], C2 as [[? P2]|[[? P2]|[? P2]]]; try lia;
      rewrite P1, P2; try reflexivity; now rewrite Pr.
Qed.

Lemma spec_pop_functional m r1 m1 r2 m2 :
  uniq_ms m -> spec_pop m r1 m1 -> spec_pop m r2 m2 -> r1 = r2 /\ Permutation m1 m2.
Proof.
  intros Hu H1 H2. destruct r1 as [[l1 c1]|], r2 as [[l2 c2]|]; cbn [spec_pop] in *.
  - destruct H1 as [P1 M1], H2 as [P2 M2].
    assert (I1 : In (l1, c1) m) by (eapply Permutation_in; [symmetry; exact P1|left; auto]).
    assert (I2 : In (l2, c2) m) by (eapply Permutation_in; [symmetry; exact P2|left; auto]).
    assert (l1 = l2) by (apply loc_leb_antisym; eauto). subst l2.
    destruct (uniq_split m (l1, c1) m1 (l1, c2) m2 Hu P1 P2) as [Heq Pr]; auto. inv Heq. auto.
  - destruct H2 as [-> _]. destruct H1 as [P1 _]. apply Permutation_nil in P1. discriminate.
  - destruct H1 as [-> _]. destruct H2 as [P2 _]. apply Permutation_nil in P2. discriminate.
  - destruct H1 as [_ ->], H2 as [_ ->]. auto.
Qed.

Lemma maximal_unique m l1 c1 l2 c2 :
  In (l1, c1) m -> maximal l1 m -> In (l2, c2) m -> maximal l2 m -> l1 = l2.
Proof. intros. apply loc_leb_antisym; eauto. Qed.

Lemma spec_cover_functional m s c lg m1 m2 :
  uniq_ms m -> spec_cover m s c lg m1 -> spec_cover m s c lg m2 -> Permutation m1 m2.
Proof.
  intros Hu [[N1 P1]|(e1 & b1 & r1 & Q1 & S1 & C1)] [[N2 P2]|(e2 & b2 & r2 & Q2 & S2 & C2)].
  - now rewrite P1, P2.
  - exfalso. eapply (N1 e2 b2); auto. eapply Permutation_in; [symmetry; exact Q2|left; auto].
  - exfalso. eapply (N2 e1 b1); auto. eapply Permutation_in; [symmetry; exact Q1|left; auto].
  - destruct (uniq_split m (e1, b1) r1 (e2, b2) r2 Hu Q1 Q2) as [Heq Pr]; [cbn; congruence|].
    inv Heq.
    destruct C1 as [[? P1]|[(? & ? & P1)|[(? & ? & ? & P1)|(? & ? & ? & P1)]]],
             C2 as [[? P2]|[(? & ? & P2)|[(? & ? & ? & P2)|(? & ? & ? & P2)]]];
      try congruence; try lia; rewrite P1, P2; try reflexivity; now rewrite Pr.
Qed.

Lemma spec_functional_proof : spec_functional_stmt.
Proof.
  intros m o m1 v1 m2 v2 Hu H1 H2. destruct o; cbn [spec] in *.
  - destruct H1 as [-> ->], H2 as [-> ->]. split; [reflexivity|reflexivity].
  - destruct H1 as (P1 & b1 & -> & E1), H2 as (P2 & b2 & -> & E2). split; [now rewrite P1, P2|].
    cbn. f_equal. destruct b1, b2; auto.
    + assert (m = []) by tauto. assert (false = true) by tauto. discriminate.
    + assert (m = []) by tauto. assert (false = true) by tauto. discriminate.
  - destruct H1 as [S1 ->], H2 as [S2 ->]. split; [|reflexivity]. eapply spec_push_functional; eauto.
  - destruct H1 as [S1 ->], H2 as [S2 ->]. split; [|reflexivity]. eapply spec_push_functional; eauto.
  - destruct H1 as [P1 ->], H2 as [P2 ->]. split; [now rewrite P1, P2|reflexivity].
  - destruct H1 as (r1 & S1 & ->), H2 as (r2 & S2 & ->).
    destruct (spec_pop_functional m r1 m1 r2 m2 Hu S1 S2) as [-> P]. split; [exact P|reflexivity].
  - destruct H1 as (r1 & S1 & ->), H2 as (r2 & S2 & ->).
    destruct (spec_pop_functional m r1 m1 r2 m2 Hu S1 S2) as [-> P]. split; [exact P|reflexivity].
  - destruct H1 as [P1 O1], H2 as [P2 O2]. split; [now rewrite P1, P2|].
    destruct O1 as [[E1 ->]|(l1 & c1 & I1 & M1 & ->)], O2 as [[E2 ->]|(l2 & c2 & I2 & M2 & ->)]; try reflexivity.
    + subst m. destruct I2.
    + subst m. destruct I1.
    + cbn. do 2 f_equal. eapply maximal_unique; eauto.
  - destruct H1 as [(E1 & -> & ->)|(l1 & c1 & I1 & M1 & P1 & ->)],
             H2 as [(E2 & -> & ->)|(l2 & c2 & I2 & M2 & P2 & ->)].
    + split; reflexivity.
    + subst m. destruct I2.
    + subst m. destruct I1.
    + assert (l1 = l2) by (eapply maximal_unique; eauto). subst l2.
      split; [now rewrite P1, P2|reflexivity].
  - destruct H1 as [P1 ->], H2 as [P2 ->]. split; [now rewrite P1, P2|reflexivity].
  - destruct H1 as (P1 & l1 & -> & Q1), H2 as (P2 & l2 & -> & Q2).
    split; [now rewrite P1, P2|]. cbn. now rewrite Q1, Q2.
  - destruct H1 as [S1 ->], H2 as [S2 ->]. split; [|reflexivity]. eapply spec_cover_functional; eauto.
  - destruct H1 as (-> & l1 & -> & Q1), H2 as (-> & l2 & -> & Q2).
    split; [reflexivity|]. cbn. now rewrite Q1, Q2.
Qed.

(** Non-vacuity: a concrete run exercising every method, including the
    duplicate-breaking one, reaches the states the real queue reaches. *)
Example travqueue_example :
  run qnew [OPush (L 5 0); OPush (L 8 0); OPushCovered (L 3 1) true; OPushDup (L 3 1); OPushDup (L 3 1);
            OPeek; OPopCovered; OPopDups; ODrainAbove 2; OIsEmpty]
  = Ok [(VUnit, Q [L 5 0] 1); (VUnit, Q [L 8 0] 1); (VUnit, Q [L 8 0; L 3 1] 1);
        (VUnit, Q [L 8 0; L 3 1; L 3 1] 2); (VUnit, Q [L 8 0; L 3 1; L 3 1; L 3 1] 3);
        (VLoc (Some (L 8 0)), Q [L 8 0; L 3 1; L 3 1; L 3 1] 3);
        (VLocCov (Some (L 8 0, false)), Q [L 3 1; L 3 1; L 3 1] 2);
        (VLocCnt (Some (L 3 1, 3)), Q [] 0); (VLocs [], Q [] 0); (VBool true, Q [] 0)]
  /\ run qnew [OPushCovered (L 5 0) true; OPushCovered (L 8 0) false; OPush (L 2 3);
               OCoverUpTo 3 2 9; OCoverUpTo 3 9 9; ODrainAll; OAllCovered; OClear]
  = Ok [(VUnit, Q [L 5 0] 0); (VUnit, Q [L 8 0] 1); (VUnit, Q [L 8 0; L 2 3] 2);
        (VUnit, Q [L 8 0; L 3 3] 2); (VUnit, Q [L 8 0; L 3 3] 1); (VLocs [L 8 0], Q [] 0);
        (VBool true, Q [] 0); (VUnit, Q [] 0)].
Proof. split; vm_compute; reflexivity. Qed.

(** * Any number of consecutive pops: a heap-sort of the multiset.
    [spec_pops m xs m'] says popping [length xs] times from [m] returned
    [xs] in that order and left [m'].  The popped entries come out in
    non-increasing max-cut order, every remaining entry is at most the last
    one popped, and popped + remaining is exactly what was there. *)
Fixpoint spec_pops (m : ms) (xs : list (loc * bool)) (m' : ms) : Prop :=
  match xs with
  | [] => m' = m
  | x :: r => exists m1, spec_pop m (Some x) m1 /\ spec_pops m1 r m'
  end.

Definition mc_ge (a b : loc * bool) : Prop := (lmc (fst b) <= lmc (fst a))%N.

Definition pops_descending_stmt : Prop :=
  forall (xs : list (loc * bool)) (m m' : ms), spec_pops m xs m' ->
    Permutation m (xs ++ m')
    /\ StronglySorted mc_ge xs
    /\ forall x y, In x xs -> In y m' -> mc_ge x y.
Lemma pops_descending_proof : pops_descending_stmt.
Proof.
  intros xs. induction xs as [|[l c] r IH]; cbn [spec_pops app]; intros m m' H.
  - subst m'. split; [reflexivity|]. split; [constructor|]. intros x y [].
  - destruct H as (m1 & [P Hmax] & Hr). destruct (IH _ _ Hr) as (P1 & S1 & B1).
    assert (Hsub : forall y, In y (r ++ m') -> mc_ge (l, c) y).
    { intros [e b] Hy. unfold mc_ge. cbn [fst]. apply loc_leb_mc. eapply Hmax.
      eapply Permutation_in; [symmetry; exact P|]. right.
      eapply Permutation_in; [symmetry; exact P1|exact Hy]. }
    split; [|split].
    + rewrite P. constructor. exact P1.
    + constructor; [exact S1|]. apply Forall_forall. intros y Hy. apply Hsub, in_or_app. auto.
    + intros x y [<-|Hx] Hy; [apply Hsub, in_or_app; auto|]. eapply B1; eauto.
Qed.

(** The same for the model of the code: [n] calls of [pop_covered] on any
    well-formed queue never fail, and when all of them returned an entry
    those entries are in non-increasing max-cut order and were all in the
    queue at the start. *)
Fixpoint popped (tr : list (out * queue)) : option (list (loc * bool)) :=
  match tr with
  | [] => Some []
  | (VLocCov (Some x), _) :: r => option_map (cons x) (popped r)
  | _ => None
  end.

Lemma spec_trace_pops n : forall m tr xs,
  spec_trace m (repeat OPopCovered n) tr -> popped tr = Some xs -> exists m', spec_pops m xs m'.
Proof.
  induction n as [|n IH]; cbn [repeat spec_trace]; intros m tr xs Ht Hp.
  - destruct tr; [|destruct Ht]. cbn in Hp. inversion Hp; subst. exists m. reflexivity.
  - destruct tr as [|[v q'] tr']; [destruct Ht|]. destruct Ht as [Hs Ht].
    cbn [spec] in Hs. destruct Hs as (r & Hpop & ->). cbn [popped] in Hp.
    destruct r as [x|]; [|discriminate].
    destruct (popped tr') as [xs'|] eqn:E; [|discriminate]. cbn in Hp. inversion Hp; subst.
    destruct (IH _ _ _ Ht E) as (m' & Hm'). exists m'. cbn [spec_pops]. exists (absq q'). auto.
Qed.

Definition queue_pops_descending_stmt : Prop :=
  forall (n : nat) (q0 : queue), rep_ok q0 ->
    exists tr, run q0 (repeat OPopCovered n) = Ok tr
      /\ forall xs, popped tr = Some xs ->
           StronglySorted mc_ge xs /\ forall x, In x xs -> In x (absq q0).
Lemma queue_pops_descending_proof : queue_pops_descending_stmt.
Proof.
  intros n q0 Hq.
  destruct (travqueue_refines_proof (repeat OPopCovered n) q0 Hq) as (tr & Hrun & Htr & _).
  { apply Forall_forall. intros o Ho. apply repeat_spec in Ho. subst o. exact I. }
  exists tr. split; [exact Hrun|]. intros xs Hp.
  destruct (spec_trace_pops _ _ _ _ Htr Hp) as (m' & Hm').
  destruct (pops_descending_proof _ _ _ Hm') as (P & S & _). split; [exact S|].
  intros x Hx. eapply Permutation_in; [symmetry; exact P|]. apply in_or_app. auto.
Qed.

(** Non-vacuity of [queue_pops_descending]: three pops that all return an entry. *)
Example queue_pops_example :
  rep_ok (Q [L 5 0; L 8 1; L 3 2] 2)
  /\ option_map (fun tr => popped tr) (match run (Q [L 5 0; L 8 1; L 3 2] 2) (repeat OPopCovered 3) with Ok tr => Some tr | _ => None end)
     = Some (Some [(L 8 1, false); (L 5 0, false); (L 3 2, true)]).
Proof. split; [vm_compute; auto|vm_compute; reflexivity]. Qed.

(** Non-vacuity: three pops of a four-entry multiset. *)
Example pops_descending_example :
  spec_pops [(L 3 1, true); (L 8 0, false); (L 5 2, false); (L 1 4, false)]
            [(L 8 0, false); (L 5 2, false); (L 3 1, true)] [(L 1 4, false)].
Proof.
  cbn [spec_pops].
  exists [(L 3 1, true); (L 5 2, false); (L 1 4, false)]. split.
  { split; [apply perm_swap|]. intros e b H; cbn in H.
    repeat (destruct H as [H|H]; [inversion H; subst; vm_compute; reflexivity|]). destruct H. }
  exists [(L 3 1, true); (L 1 4, false)]. split.
  { split; [apply perm_swap|]. intros e b H; cbn in H.
    repeat (destruct H as [H|H]; [inversion H; subst; vm_compute; reflexivity|]). destruct H. }
  exists [(L 1 4, false)]. split; [|reflexivity].
  split; [reflexivity|]. intros e b H; cbn in H.
  repeat (destruct H as [H|H]; [inversion H; subst; vm_compute; reflexivity|]). destruct H.
Qed.
