(** Fact index chains and fact perspectives denote flat maps; queries read them. *)
From Aranya Require Import base.Tactics base.ListLex base.SortedAssoc model.Facts proofs.FactsMaps.

(** ** Layers, newest first *)

Fixpoint layers_raw (ls : list nmap) (n : name) (k : keys) : option val :=
  match ls with
  | [] => None
  | m :: r => match nm_get m n k with Some v => Some v | None => layers_raw r n k end
  end.

Definition layers_flat (ls : list nmap) : flat :=
  fun n k => match layers_raw ls n k with Some v => v | None => None end.

Lemma layers_flat_nil : layers_flat [] ≡ fempty.
Proof. intros n k; reflexivity. Qed.

Lemma layers_flat_cons m ls : layers_flat (m :: ls) ≡ over m (layers_flat ls).
Proof. intros n k. unfold layers_flat, over. cbn. destruct (nm_get m n k); auto. Qed.

(** ** Stores *)

Lemma fetch_facts_nth st off fi :
  fetch_facts st off = Some fi <-> nth_error st (N.to_nat off) = Some (IFacts fi).
Proof.
  unfold fetch_facts. destruct (nth_error st (N.to_nat off)) as [[f|s]|]; split; congruence.
Qed.

Lemma fetch_seg_nth st off sg :
  fetch_seg st off = Some sg <-> nth_error st (N.to_nat off) = Some (ISeg sg).
Proof.
  unfold fetch_seg. destruct (nth_error st (N.to_nat off)) as [[f|s]|]; split; congruence.
Qed.

Lemma fetch_facts_app st ext off fi : fetch_facts st off = Some fi -> fetch_facts (st ++ ext) off = Some fi.
Proof.
  rewrite !fetch_facts_nth. intros H. rewrite nth_error_app1; auto.
  apply nth_error_Some. congruence.
Qed.

Lemma fetch_seg_app st ext off sg : fetch_seg st off = Some sg -> fetch_seg (st ++ ext) off = Some sg.
Proof.
  rewrite !fetch_seg_nth. intros H. rewrite nth_error_app1; auto.
  apply nth_error_Some. congruence.
Qed.

Lemma fetch_facts_lt st off fi : fetch_facts st off = Some fi -> (N.to_nat off < length st)%nat.
Proof. rewrite fetch_facts_nth. intros H. apply nth_error_Some. congruence. Qed.

Lemma fetch_facts_last st fi : fetch_facts (st ++ [IFacts fi]) (next_offset st) = Some fi.
Proof.
  apply fetch_facts_nth. unfold next_offset. rewrite Nat2N.id.
  rewrite nth_error_app2, Nat.sub_diag; auto.
Qed.

Lemma fetch_seg_last st sg : fetch_seg (st ++ [ISeg sg]) (next_offset st) = Some sg.
Proof.
  apply fetch_seg_nth. unfold next_offset. rewrite Nat2N.id.
  rewrite nth_error_app2, Nat.sub_diag; auto.
Qed.

(** The chain of layers reachable from an index offset. *)
Inductive chain (st : store) : N -> list nmap -> Prop :=
| chain_base off fi :
    fetch_facts st off = Some fi -> fi_prior fi = None -> chain st off [fi_facts fi]
| chain_step off fi p ls :
    fetch_facts st off = Some fi -> fi_prior fi = Some p -> chain st p ls ->
    chain st off (fi_facts fi :: ls).

Lemma chain_app st ext off ls : chain st off ls -> chain (st ++ ext) off ls.
Proof.
  induction 1.
  - eapply chain_base; eauto using fetch_facts_app.
  - eapply chain_step; eauto using fetch_facts_app.
Qed.

Lemma chain_det st off ls1 : chain st off ls1 -> forall ls2, chain st off ls2 -> ls1 = ls2.
Proof.
  induction 1 as [off fi Hf Hp|off fi p ls Hf Hp Hc IH]; intros ls2 H2; inversion H2 as [? fi0 Hf0 Hp0|? fi0 p0 ls0 Hf0 Hp0 Hc0]; subst;
    assert (fi0 = fi) by congruence; subst fi0; try congruence.
  assert (p0 = p) by congruence; subst. f_equal. auto.
Qed.

Section WithDepth.
  Variable maxd : N.

  Definition wf_index (st : store) (off : nat) (fi : findex) : Prop :=
    fi_offset fi = N.of_nat off /\ nm_ok (fi_facts fi) /\ (1 <= fi_depth fi <= maxd)%N /\
    match fi_prior fi with
    | None => fi_depth fi = 1%N
    | Some p => (N.to_nat p < off)%nat /\
                exists fp, fetch_facts st p = Some fp /\ fi_depth fi = (fi_depth fp + 1)%N
    end.

  Definition wf_store (st : store) : Prop :=
    forall off fi, nth_error st off = Some (IFacts fi) -> wf_index st off fi.

  Lemma wf_store_nil : wf_store [].
  Proof. intros [|off] fi H; discriminate. Qed.

  Lemma wf_fetch st off fi : wf_store st -> fetch_facts st off = Some fi -> wf_index st (N.to_nat off) fi.
  Proof. intros W H. apply W. apply fetch_facts_nth; auto. Qed.

  Lemma wf_fetch_offset st off fi : wf_store st -> fetch_facts st off = Some fi -> fi_offset fi = off.
  Proof. intros W H. destruct (wf_fetch _ _ _ W H) as [Ho _]. rewrite Ho. lia. Qed.

  (** Every stored index heads a chain whose length is its depth. *)
  Lemma wf_chain st : wf_store st -> forall n off fi, (N.to_nat off < n)%nat ->
    fetch_facts st off = Some fi ->
    exists ls, chain st off ls /\ N.of_nat (length ls) = fi_depth fi /\ Forall nm_ok ls /\
               (length ls <= S (N.to_nat off))%nat.
  Proof.
    intros W. induction n as [|n IH]; intros off fi Hlt Hf; [lia|].
    destruct (wf_fetch _ _ _ W Hf) as (Ho & Hok & Hd & Hp).
    destruct (fi_prior fi) as [p|] eqn:Ep.
    - destruct Hp as [Hpl (fp & Hfp & Hdp)].
      destruct (IH p fp) as (ls & Hc & Hl & Hall & Hlen); auto; [lia|].
      exists (fi_facts fi :: ls). repeat split.
      + eapply chain_step; eauto.
      + cbn [length]. lia.
      + constructor; auto.
      + cbn [length]. lia.
    - exists [fi_facts fi]. repeat split.
      + eapply chain_base; eauto.
      + cbn. lia.
      + constructor; auto.
      + cbn; lia.
  Qed.

  Lemma wf_chain' st off fi : wf_store st -> fetch_facts st off = Some fi ->
    exists ls, chain st off ls /\ N.of_nat (length ls) = fi_depth fi /\ Forall nm_ok ls /\
               (length ls <= length st)%nat.
  Proof.
    intros W Hf. destruct (wf_chain st W (S (N.to_nat off)) off fi) as (ls & H1 & H2 & H3 & H4); auto.
    exists ls. repeat split; auto. apply fetch_facts_lt in Hf. lia.
  Qed.

  Lemma chain_fetch st off ls : chain st off ls -> exists fi, fetch_facts st off = Some fi.
  Proof. intros H; inv H; eauto. Qed.

  Lemma chain_wf st off ls : wf_store st -> chain st off ls ->
    Forall nm_ok ls /\ (length ls <= length st)%nat /\
    exists fi, fetch_facts st off = Some fi /\ N.of_nat (length ls) = fi_depth fi.
  Proof.
    intros W Hc. destruct (chain_fetch _ _ _ Hc) as [fi Hf].
    destruct (wf_chain' st off fi W Hf) as (ls' & Hc' & Hl & Hall & Hlen).
    assert (ls = ls') by (eapply chain_det; eauto). subst. eauto.
  Qed.

  (** ** Index queries read the chain *)

  Lemma ix_query_chain st off ls n k : chain st off ls ->
    forall fuel, (length ls <= fuel)%nat -> ix_query st fuel off n k = Ok (layers_flat ls n k).
  Proof.
    induction 1 as [off fi Hf Hp|off fi p ls Hf Hp Hc IH]; intros fuel Hfu;
      (destruct fuel as [|fuel]; [cbn in Hfu; lia|]); cbn [ix_query]; rewrite Hf.
    - unfold layers_flat. cbn. destruct (nm_get (fi_facts fi) n k); auto. rewrite Hp; auto.
    - unfold layers_flat. cbn [layers_raw]. destruct (nm_get (fi_facts fi) n k); auto.
      rewrite Hp. rewrite IH; [|cbn in Hfu; lia]. reflexivity.
  Qed.

  Definition step_matches (m : nmap) (n : name) (p : keys) (matches : fmap) : fmap :=
    match sget bcmp n m with
    | Some fm => merge_keep matches (find_prefixes fm p)
    | None => matches
    end.

  Lemma step_matches_spec m n p matches : nm_ok m -> fm_ok matches ->
    fm_ok (step_matches m n p matches) /\
    forall k, sget kcmp k (step_matches m n p matches) =
      match sget kcmp k matches with
      | Some x => Some x
      | None => if is_prefix bcmp p k then nm_get m n k else None
      end.
  Proof.
    intros Hok Hm. unfold step_matches, nm_get.
    destruct (sget bcmp n m) as [fm|] eqn:E.
    - assert (fm_ok fm) by (eapply nm_ok_inner; eauto).
      split; [apply merge_keep_sorted; auto|]. intros k.
      rewrite merge_keep_get, find_prefixes_get; auto.
    - split; auto. intros k. destruct (sget kcmp k matches); auto.
      destruct (is_prefix bcmp p k); auto.
  Qed.

  Lemma ix_prefix_chain st off ls n p : chain st off ls -> Forall nm_ok ls ->
    forall fuel matches, (length ls <= fuel)%nat -> fm_ok matches ->
    exists r, ix_prefix st fuel off n p matches = Ok r /\ fm_ok r /\
      forall k, sget kcmp k r =
        match sget kcmp k matches with
        | Some x => Some x
        | None => if is_prefix bcmp p k then layers_raw ls n k else None
        end.
  Proof.
    induction 1 as [off fi Hf Hp|off fi p' ls Hf Hp Hc IH]; intros Hall fuel matches Hfu Hm;
      (destruct fuel as [|fuel]; [cbn in Hfu; lia|]); cbn [ix_prefix]; rewrite Hf, Hp;
      inversion Hall as [|? ? Hok Hall']; subst;
      fold (step_matches (fi_facts fi) n p matches);
      destruct (step_matches_spec (fi_facts fi) n p matches Hok Hm) as [Hm' Hg'].
    - eexists; split; [reflexivity|]. split; auto.
      intros k. rewrite Hg'. cbn [layers_raw].
      destruct (sget kcmp k matches); auto.
      destruct (is_prefix bcmp p k); auto. destruct (nm_get (fi_facts fi) n k); auto.
    - destruct (IH Hall' fuel (step_matches (fi_facts fi) n p matches)) as (r & Hr & Sr & Hget); auto;
        [cbn in Hfu; lia|].
      exists r. split; auto. split; auto. intros k. rewrite Hget, Hg'. cbn [layers_raw].
      destruct (sget kcmp k matches); auto.
      destruct (is_prefix bcmp p k); auto.
  Qed.

  (** "The index at [off] denotes the flat map [f]." *)
  Definition iden (st : store) (off : N) (f : flat) : Prop :=
    exists ls, chain st off ls /\ layers_flat ls ≡ f.

  Lemma iden_app st ext off f : iden st off f -> iden (st ++ ext) off f.
  Proof. intros (ls & Hc & Hf). exists ls; split; auto using chain_app. Qed.

  Lemma iden_feq st off f g : f ≡ g -> iden st off f -> iden st off g.
  Proof. intros H (ls & Hc & Hf). exists ls; split; auto. eapply feq_trans; eauto. Qed.

  Lemma iden_det st off f g : iden st off f -> iden st off g -> f ≡ g.
  Proof.
    intros (l1 & C1 & F1) (l2 & C2 & F2). assert (l1 = l2) by (eapply chain_det; eauto); subst.
    eapply feq_trans; [apply feq_sym|]; eauto.
  Qed.

  Theorem index_query_den st off f n k : wf_store st -> iden st off f ->
    index_query st off n k = Ok (f n k).
  Proof.
    intros W (ls & Hc & Hf). unfold index_query.
    destruct (chain_wf _ _ _ W Hc) as (_ & Hlen & _).
    rewrite (ix_query_chain _ _ _ n k Hc); auto. rewrite Hf; auto.
  Qed.

  Theorem index_query_prefix_den st off f n p : wf_store st -> iden st off f ->
    exists l, index_query_prefix st off n p = Ok l /\ sorted_listing f n p l.
  Proof.
    intros W (ls & Hc & Hf). unfold index_query_prefix, index_prefix_inner.
    destruct (chain_wf _ _ _ W Hc) as (Hall & Hlen & _).
    destruct (ix_prefix_chain _ _ _ n p Hc Hall (length st) []) as (r & Hr & Sr & Hget); auto; [constructor|].
    rewrite Hr. cbn. eexists; split; [reflexivity|].
    apply (live_listing f n p r (layers_raw ls n)); auto.
    intros k. rewrite <- Hf. reflexivity.
  Qed.

  (** ** Perspective priors *)

  Inductive prior_layers (st : store) : fprior -> list nmap -> Prop :=
  | pl_none : prior_layers st PNone []
  | pl_index off ls : chain st off ls -> prior_layers st (PIndex off) ls
  | pl_persp m pr ls : nm_ok m -> prior_layers st pr ls -> prior_layers st (PPersp m pr) (m :: ls).

  Lemma prior_layers_app st ext pr ls : prior_layers st pr ls -> prior_layers (st ++ ext) pr ls.
  Proof. induction 1; constructor; auto using chain_app. Qed.

  Lemma prior_layers_ok st pr ls : wf_store st -> prior_layers st pr ls -> Forall nm_ok ls.
  Proof.
    intros W. induction 1; auto.
    eapply chain_wf; eauto.
  Qed.

  Lemma pr_query_layers st pr ls n k : wf_store st -> prior_layers st pr ls ->
    pr_query st pr n k = Ok (layers_flat ls n k).
  Proof.
    intros W. induction 1 as [|off ls Hc|m pr ls Hok Hp IH]; cbn [pr_query].
    - reflexivity.
    - unfold index_query. destruct (chain_wf _ _ _ W Hc) as (_ & Hlen & _).
      apply ix_query_chain; auto.
    - unfold layers_flat in *. cbn [layers_raw]. destruct (nm_get m n k); auto.
  Qed.

  Lemma pr_prefix_layers st pr ls n p : wf_store st -> prior_layers st pr ls ->
    exists r, pr_prefix st pr n p = Ok r /\ fm_ok r /\
      forall k, sget kcmp k r = if is_prefix bcmp p k then layers_raw ls n k else None.
  Proof.
    intros W. induction 1 as [|off ls Hc|m pr ls Hok Hp IH]; cbn [pr_prefix].
    - exists []. repeat split; [constructor|]. intros k. destruct (is_prefix bcmp p k); auto.
    - unfold index_prefix_inner. destruct (chain_wf _ _ _ W Hc) as (Hall & Hlen & _).
      destruct (ix_prefix_chain _ _ _ n p Hc Hall (length st) []) as (r & Hr & Sr & Hget); auto; [constructor|].
      exists r. repeat split; auto.
    - destruct IH as (r & Hr & Sr & Hget). rewrite Hr.
      eexists; split; [reflexivity|]. cbn [layers_raw]. unfold nm_get.
      destruct (sget bcmp n m) as [fm|] eqn:E.
      + assert (fm_ok fm) by (eapply nm_ok_inner; eauto).
        split; [apply overwrite_sorted; auto|]. intros k.
        rewrite overwrite_get, find_prefixes_get, Hget; auto using find_prefixes_sorted.
        destruct (is_prefix bcmp p k); auto.
      + split; auto.
  Qed.

  (** "The perspective prior [pr] denotes the flat map [f]." *)
  Definition pden (st : store) (pr : fprior) (f : flat) : Prop :=
    exists ls, prior_layers st pr ls /\ layers_flat ls ≡ f.

  Lemma pden_app st ext pr f : pden st pr f -> pden (st ++ ext) pr f.
  Proof. intros (ls & Hc & Hf). exists ls; split; auto using prior_layers_app. Qed.

  Lemma pden_feq st pr f g : f ≡ g -> pden st pr f -> pden st pr g.
  Proof. intros H (ls & Hc & Hf). exists ls; split; auto. eapply feq_trans; eauto. Qed.

  Lemma pden_none st : pden st PNone fempty.
  Proof. exists []. split; [constructor|apply layers_flat_nil]. Qed.

  Lemma pden_index st off f : iden st off f -> pden st (PIndex off) f.
  Proof. intros (ls & Hc & Hf). exists ls. split; auto. constructor; auto. Qed.

  Lemma pden_index_inv st off f : pden st (PIndex off) f -> iden st off f.
  Proof. intros (ls & Hc & Hf). inv Hc. exists ls; auto. Qed.

  Lemma pden_persp st m pr f : nm_ok m -> pden st pr f -> pden st (PPersp m pr) (over m f).
  Proof.
    intros Hok (ls & Hc & Hf). exists (m :: ls). split; [constructor; auto|].
    eapply feq_trans; [apply layers_flat_cons|]. apply over_feq; auto.
  Qed.

  Lemma pden_persp_inv st m pr f : pden st (PPersp m pr) f ->
    nm_ok m /\ exists g, pden st pr g /\ f ≡ over m g.
  Proof.
    intros (ls & Hc & Hf). inv Hc. split; auto. exists (layers_flat ls0). split.
    - exists ls0; split; auto. apply feq_refl.
    - eapply feq_trans; [apply feq_sym; eauto|]. apply layers_flat_cons.
  Qed.

  Lemma pden_none_inv st f : pden st PNone f -> f ≡ fempty.
  Proof. intros (ls & Hc & Hf). inv Hc. apply feq_sym; auto. Qed.

  Theorem pr_query_den st pr f n k : wf_store st -> pden st pr f -> pr_query st pr n k = Ok (f n k).
  Proof. intros W (ls & Hc & Hf). rewrite (pr_query_layers _ _ ls); auto. rewrite Hf; auto. Qed.

  Theorem pr_query_prefix_den st pr f n p : wf_store st -> pden st pr f ->
    exists l, map_res live (pr_prefix st pr n p) = Ok l /\ sorted_listing f n p l.
  Proof.
    intros W (ls & Hc & Hf).
    destruct (pr_prefix_layers _ _ _ n p W Hc) as (r & Hr & Sr & Hget). rewrite Hr. cbn.
    eexists; split; [reflexivity|].
    apply (live_listing f n p r (layers_raw ls n)); auto.
    intros k. rewrite <- Hf. reflexivity.
  Qed.

  (** "The fact perspective [fp] denotes [f]": its own map over its prior. *)
  Definition fden (st : store) (fp : fpersp) (f : flat) : Prop := pden st (as_prior fp) f.

  Theorem fp_query_den st fp f n k : wf_store st -> fden st fp f -> fp_query st fp n k = Ok (f n k).
  Proof. apply pr_query_den. Qed.

  Theorem fp_query_prefix_den st fp f n p : wf_store st -> fden st fp f ->
    exists l, fp_query_prefix st fp n p = Ok l /\ sorted_listing f n p l.
  Proof. apply pr_query_prefix_den. Qed.

  Lemma fden_app st ext fp f : fden st fp f -> fden (st ++ ext) fp f.
  Proof. apply pden_app. Qed.

  Lemma fden_feq st fp f g : f ≡ g -> fden st fp f -> fden st fp g.
  Proof. apply pden_feq. Qed.

  Lemma fden_new st pr f : pden st pr f -> fden st (fp_new pr) f.
  Proof.
    intros H. unfold fden, as_prior, fp_new; cbn.
    eapply pden_feq; [|apply pden_persp; eauto using nm_ok_nil]. apply over_nil.
  Qed.

  (** ** Updates *)

  Lemma is_none_true pr : is_none pr = true -> pr = PNone.
  Proof. destruct pr; cbn; congruence. Qed.

  Lemma fden_apply_update st fp f u : fden st fp f -> fden st (apply_update fp u) (fupd f u).
  Proof.
    intros H. destruct fp as [m pr]. unfold fden, as_prior in *; cbn [fp_map fp_prior] in *.
    apply pden_persp_inv in H as (Hok & g & Hg & Hfg).
    destruct u as [[n k] v]. unfold apply_update; cbn [fp_map fp_prior].
    destruct (is_none pr) eqn:En.
    - apply is_none_true in En; subst pr. apply pden_none_inv in Hg.
      destruct v as [b|]; cbn [fp_map fp_prior].
      + eapply pden_feq; [|apply pden_persp; [apply nm_ok_put; eauto|apply pden_none]].
        eapply feq_trans; [apply over_put|]. apply fupd_feq.
        eapply feq_trans; [|apply feq_sym; eauto]. apply over_feq. apply feq_sym; auto.
      + eapply pden_feq; [|apply pden_persp; [apply nm_ok_remove; eauto|apply pden_none]].
        eapply feq_trans; [apply over_remove_empty; auto|]. apply fupd_feq.
        eapply feq_trans; [|apply feq_sym; eauto]. apply over_feq. apply feq_sym; auto.
    - cbn [fp_map fp_prior].
      eapply pden_feq; [|apply pden_persp; [apply nm_ok_put; eauto|eauto]].
      eapply feq_trans; [apply over_put|]. apply fupd_feq. apply feq_sym; auto.
  Qed.

  Lemma fden_apply_updates st us : forall fp f, fden st fp f -> fden st (apply_updates fp us) (fupds f us).
  Proof.
    induction us as [|u us IH]; intros fp f H; cbn; auto.
    apply IH. apply fden_apply_update; auto.
  Qed.

  Lemma fp_insert_apply fp n k v : fp_insert fp n k v = apply_update fp (n, k, Some v).
  Proof. unfold fp_insert, apply_update. destruct (is_none (fp_prior fp)); auto. Qed.

  Lemma fp_delete_apply fp n k : fp_delete fp n k = apply_update fp (n, k, None).
  Proof. unfold fp_delete, apply_update. destruct (is_none (fp_prior fp)); auto. Qed.

  Lemma apply_update_prior fp u : fp_prior (apply_update fp u) = fp_prior fp.
  Proof.
    destruct u as [[n k] v]. unfold apply_update.
    destruct (is_none (fp_prior fp)); [destruct v|]; auto.
  Qed.

  Lemma apply_updates_prior us : forall fp, fp_prior (apply_updates fp us) = fp_prior fp.
  Proof.
    unfold apply_updates. induction us as [|u us IH]; intros fp; cbn [fold_left]; auto.
    rewrite IH. apply apply_update_prior.
  Qed.

  Lemma apply_updates_app fp us vs : apply_updates fp (us ++ vs) = apply_updates (apply_updates fp us) vs.
  Proof. unfold apply_updates. apply fold_left_app. Qed.
End WithDepth.
