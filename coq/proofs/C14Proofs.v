(** C14 — sessions overlay their own writes on committed facts. *)
From Coq Require Import String.
From Aranya Require Import base.Tactics base.ListLex base.SortedAssoc model.Facts model.Session
     model.FactsWorld proofs.FactsMaps proofs.FactsIndex proofs.FactsWorldProofs proofs.SessionMerge proofs.SessionProofs
     gen.GenFacts.
Open Scope list_scope.

(** [Session::action] and [Session::receive] take the client state by shared reference
    (regenerated from the signatures): the frame property is a typing fact of the code. *)
Lemma session_borrow_pinned :
  session_client_borrow = ["&ClientState<PS, SP>"; "&ClientState<PS, SP>"]%string.
Proof. reflexivity. Qed.

(** The inserts and deletes a script performs. *)
Definition writes_of (ops : list sop) : list update :=
  flat_map (fun o => match o with
                     | SInsert n k v => [(n, k, Some v)]
                     | SDelete n k => [(n, k, None)]
                     | _ => []
                     end) ops.

(** What a script must see, given the flat map it starts from: its own writes apply
    immediately; exact queries are lookups; prefix queries are sorted listings. *)
Fixpoint outs_ok (f : flat) (ops : list sop) (outs : list sout) : Prop :=
  match ops with
  | [] => outs = []
  | SInsert n k v :: r => outs_ok (fupd f (n, k, Some v)) r outs
  | SDelete n k :: r => outs_ok (fupd f (n, k, None)) r outs
  | SQuery n k :: r => exists o', outs = OutQuery (Ok (f n k)) :: o' /\ outs_ok f r o'
  | SPrefix n p :: r =>
    exists l o', outs = OutPrefix (Ok (map Ok l)) :: o' /\ sorted_listing f n p l /\ outs_ok f r o'
  | SPublish _ :: r => outs_ok f r outs
  end.

Lemma outs_ok_feq ops : forall f g outs, f ≡ g -> outs_ok f ops outs -> outs_ok g ops outs.
Proof.
  induction ops as [|o ops IH]; intros f g outs H; cbn [outs_ok]; auto.
  destruct o as [n k v|n k|n k|n p|id].
  - apply IH. apply fupd_feq; auto.
  - apply IH. apply fupd_feq; auto.
  - intros (o' & -> & Ho). exists o'. rewrite <- H. split; auto. eapply IH; eauto.
  - intros (l & o' & -> & Hl & Ho). exists l, o'. split; auto. split; [eapply sorted_listing_feq; eauto|eapply IH; eauto].
  - apply IH; auto.
Qed.

Lemma s_script_log st ops : forall s,
  s_log (fst (s_script st s ops)) = s_log s ++ writes_of ops /\
  s_base (fst (s_script st s ops)) = s_base s.
Proof.
  induction ops as [|o ops IH]; intros s; cbn [s_script writes_of flat_map].
  - rewrite app_nil_r; auto.
  - destruct (s_op st s o) as [s1 o1] eqn:E1. specialize (IH s1).
    destruct (s_script st s1 ops) as [s2 o2]. cbn [fst] in *. destruct IH as [IH1 IH2].
    rewrite IH1, IH2. destruct o; cbn in E1; inv E1; cbn; rewrite <- ?app_assoc; auto.
Qed.

Section WithDepth.
  Variable maxd : N.

  Theorem script_sees_overlay st g ops : wf_store maxd st -> forall s,
    iden st (s_base s) g -> session_inv s ->
    outs_ok (fupds g (s_log s)) ops (snd (s_script st s ops)).
  Proof.
    intros W. induction ops as [|o ops IH]; intros s Hg Hi; cbn [s_script outs_ok]; auto.
    destruct o as [n k v|n k|n k|n p|id]; cbn [s_op].
    - specialize (IH (s_insert s n k v) Hg (session_inv_insert s n k v Hi)).
      destruct (s_script st (s_insert s n k v) ops) as [s2 o2]. cbn [snd app] in *.
      cbn [s_insert s_log] in IH. rewrite fupds_app in IH. exact IH.
    - specialize (IH (s_delete s n k) Hg (session_inv_delete s n k Hi)).
      destruct (s_script st (s_delete s n k) ops) as [s2 o2]. cbn [snd app] in *.
      cbn [s_delete s_log] in IH. rewrite fupds_app in IH. exact IH.
    - specialize (IH s Hg Hi). destruct (s_script st s ops) as [s2 o2]. cbn [snd app] in *.
      exists o2. split; auto. rewrite (session_query_overlay maxd st s g n k); auto.
    - specialize (IH s Hg Hi). destruct (s_script st s ops) as [s2 o2]. cbn [snd app] in *.
      destruct (session_prefix_overlay maxd st s g n p W Hg Hi) as (l & Hl & Hs).
      exists l, o2. rewrite Hl. auto.
    - specialize (IH s Hg Hi). destruct (s_script st s ops) as [s2 o2]. cbn [snd app] in *. exact IH.
  Qed.

  (** A session's life: any sequence of calls, each with the script its policy runs
      and whether it then succeeds. *)
  Definition call := (list sop * bool)%type.

  Fixpoint run_calls (st : store) (s : session) (cs : list call) : res session :=
    match cs with
    | [] => Ok s
    | (ops, ok) :: r =>
      match fst (s_call st s ops ok) with
      | Ok s' => run_calls st s' r
      | Err e => Err e
      end
    end.

  (** Only successful calls leave writes behind. *)
  Definition committed_writes (cs : list call) : list update :=
    flat_map (fun c : call => if snd c then writes_of (fst c) else []) cs.

  Lemma run_calls_spec st cs : forall s, session_inv s ->
    exists s', run_calls st s cs = Ok s' /\ session_inv s' /\ s_base s' = s_base s /\
               s_log s' = s_log s ++ committed_writes cs.
  Proof.
    induction cs as [|[ops ok] cs IH]; intros s Hi; cbn [run_calls committed_writes flat_map].
    - exists s. rewrite app_nil_r. auto.
    - destruct ok; cbn [fst snd].
      + unfold s_call. pose proof (s_script_log st ops s) as [Hl Hb].
        destruct (s_script_ok st ops s s (s_extends_refl s) Hi) as [_ Hi1].
        destruct (s_script st s ops) as [s1 outs]. cbn [fst] in *.
        destruct (IH s1 Hi1) as (s' & Hr & Hi' & Hb' & Hl'). exists s'.
        rewrite Hr, Hb', Hl', Hl, Hb, app_assoc. auto.
      + rewrite failed_call_exact; auto.
  Qed.

  Definition session_answers (st : store) (s : session) (f : flat) : Prop :=
    (forall n k, s_query st s n k = Ok (f n k)) /\
    (forall n p, exists l, s_query_prefix st s n p = Ok (map Ok l) /\ sorted_listing f n p l).

  (** The committed facts followed by the session's successful writes, in order. *)
  Definition session_overlay_stmt : Prop :=
    forall (st : store) (base : N) (g : flat) (cs : list call),
    wf_store maxd st -> iden st base g ->
    exists s, run_calls st (s_new base) cs = Ok s /\
              session_answers st s (fupds g (committed_writes cs)) /\
              (* and whatever the next policy call does, it sees its own writes on top *)
              forall ops, outs_ok (fupds g (committed_writes cs)) ops (snd (s_script st s ops)).

  Lemma session_overlay_proof : session_overlay_stmt.
  Proof.
    intros st base g cs W Hg.
    destruct (run_calls_spec st cs (s_new base) (session_inv_new base)) as (s & Hr & Hi & Hb & Hl).
    cbn in Hb, Hl. exists s. split; auto.
    assert (Hg' : iden st (s_base s) g) by (rewrite Hb; auto).
    split; [split|].
    - intros n k. rewrite (session_query_overlay maxd st s g n k); auto. rewrite Hl; auto.
    - intros n p. destruct (session_prefix_overlay maxd st s g n p W Hg' Hi) as (l & H1 & H2).
      exists l. rewrite Hl in H2. auto.
    - intros ops. rewrite <- Hl. apply script_sees_overlay; auto.
  Qed.
End WithDepth.

(** C12 and C14 composed: the hypotheses of [session_overlay] hold of every store the
    storage model can reach, with the fact index of any written segment as the
    committed fact cache. *)
Definition session_on_reachable_store_stmt : Prop :=
  forall (maxd : N), (2 <= maxd)%N ->
  forall (ops : list op), ops_ok sworld0 ops ->
  forall s sg, nth_error (w_segs (mrun maxd ops)) s = Some sg ->
  exists ss, nth_error (sw_segs (srun ops)) s = Some ss /\
    forall cs : list (list sop * bool),
    let st := w_store (mrun maxd ops) in
    exists sess, run_calls st (s_new (sg_facts sg)) cs = Ok sess /\
                 session_answers st sess (fupds (sseg_head ss) (committed_writes cs)).

Lemma session_on_reachable_store_proof : session_on_reachable_store_stmt.
Proof.
  intros maxd Hm ops Hok s sg Hs.
  pose proof (run_wrel maxd Hm ops Hok) as Hw.
  pose proof (F2_nth _ _ _ (wr_segs maxd _ _ Hw) s) as G. rewrite Hs in G.
  destruct (nth_error (sw_segs (srun ops)) s) as [ss|]; [|tauto].
  exists ss. split; auto. intros cs st.
  destruct G as (_ & _ & _ & _ & Hd).
  destruct (session_overlay_proof maxd st (sg_facts sg) (sseg_head ss) cs (wr_wf maxd _ _ Hw) Hd)
    as (sess & Hr & Ha & _).
  exists sess; auto.
Qed.

(** The two-iterator merge, for all sorted inputs: the result is sorted and, key by key,
    the current entry wins (a tombstone hides the prior fact), otherwise the prior fact
    shows -- including equal keys, tombstones shadowing prior entries and current keys
    beyond the prior's end. *)
Definition query_iterator_merge_stmt : Prop :=
  forall (prior : list fact) (fm : fmap) (p : keys),
  sorted kcmp prior -> sorted kcmp fm ->
  let cur := pi_new fm p in
  let bound := S (S (length prior + length (pi_range cur))) in
  exists l, qi_collect bound bound (qi_new (map Ok prior) cur) = map Ok l /\
            sorted kcmp l /\
            forall k, sget kcmp k l =
                      match (if is_prefix bcmp p k then sget kcmp k fm else None) with
                      | Some (Some v) => Some v      (* current value *)
                      | Some None => None            (* current tombstone *)
                      | None => sget kcmp k prior    (* untouched prior fact *)
                      end.

Lemma query_iterator_merge_proof : query_iterator_merge_stmt.
Proof.
  intros prior fm p Sp Sf cur bound. exists (pmerge (find_prefixes fm p) prior).
  split; [apply query_iterator_merge|].
  destruct (pmerge_spec (find_prefixes fm p) (find_prefixes_sorted fm p Sf) prior Sp) as [Sm Gm].
  split; auto. intros k. rewrite Gm, find_prefixes_get; auto.
  destruct (is_prefix bcmp p k); cbn; auto. destruct (sget kcmp k fm) as [[v|]|]; auto.
Qed.

(** ** Non-vacuity *)

Definition nx : name := [120]%N.
Definition k1 : keys := [[97]%N].
Definition k2 : keys := [[97]; [98]]%N.
Definition k3 : keys := [[99]%N].

(** equal keys, a tombstone over a prior fact, a current key beyond the prior's end *)
Example merge_example :
  let prior := [(k1, [1]); (k2, [2])]%N in
  let fm := [(k1, None); (k2, Some [9]); (k3, Some [3])]%N in
  let cur := pi_new fm [] in
  let bound := S (S (length prior + length (pi_range cur))) in
  sorted kcmp prior /\ sorted kcmp fm /\
  qi_collect bound bound (qi_new (map Ok prior) cur) = [Ok (k2, [9]); Ok (k3, [3])]%N.
Proof.
  cbv zeta. split; [|split]; [repeat constructor|repeat constructor|vm_compute; reflexivity].
Qed.
