(** Proofs about the futex mutex model [model/Mutex.v] (C43). *)
From Coq Require Import String.
From Aranya Require Import base.Tactics base.Interleave gen.GenConc model.Mutex.
Open Scope string_scope.
Open Scope list_scope.
Open Scope N_scope.

(** The generated constants and the ledger of synchronisation operations are
    the ones the model was written for. *)
Lemma mutex_consts_pinned :
  (mutex_unlocked, mutex_locked, mutex_sleeping, passive_spin) = (0, 1, 2, 5%nat).
Proof. reflexivity. Qed.

Lemma mutex_ops_pinned :
  mutex_ops =
  [("sys_lock", "compare_exchange", "SeqCst,SeqCst");      (* CAS-only fallback *)
   ("sys_lock", "spin_loop", "");
   ("sys_lock", "compare_exchange", "SeqCst,SeqCst");      (* site 1 *)
   ("sys_lock", "load", "Relaxed");                        (* site 2 *)
   ("sys_lock", "compare_exchange", "SeqCst,SeqCst");      (* site 3 *)
   ("sys_lock", "sched_yield", "");                        (* site 4 *)
   ("sys_lock", "swap", "SeqCst");                         (* site 5 *)
   ("sys_lock", "futex_wait", "");                         (* site 6 *)
   ("sys_unlock", "swap", "SeqCst");                       (* CAS-only fallback *)
   ("sys_unlock", "swap", "SeqCst");                       (* site 8 *)
   ("sys_unlock", "futex_wake", "");                       (* site 9 *)
   ("futex", "syscall", "");
   ("futex_wait", "__ulock_wait", "");
   ("futex_wake", "__ulock_wake", "")].
Proof. reflexivity. Qed.

(** A thread that is awake inside [sys_lock] and is certain to leave the mutex
    word at SLEEPING when it acquires (or to wake a sleeper): the carriers of a
    pending wake-up. *)
Definition carrierb (t : nat) (l : local) (s : shared) : bool :=
  match lpc l with
  | PWake | PSwap | PFutexWait => true
  | PSpinLoad _ | PSpinCas _ | PYield _ => wait l =? 2
  | PSleeping => negb (memb t (waitset s))
  | _ => false
  end.

Definition spinningb (p : pc) : bool :=
  match p with PSpinLoad _ | PSpinCas _ | PYield _ => true | _ => false end.

(** The invariant, over an abstract thread table [At t l] ("thread t exists
    and has local state l"). *)
Section Invariant.
  Variable s : shared.
  Variable At : nat -> local -> Prop.

  Record InvR : Prop := {
    inv_key   : key s = 0 \/ key s = 1 \/ key s = 2;
    inv_free  : key s = 0 -> forall t l, At t l -> holdingb (lpc l) = false;
    inv_held  : key s <> 0 -> exists t l, At t l /\ holdingb (lpc l) = true;
    inv_excl  : forall t1 l1 t2 l2, At t1 l1 -> At t2 l2 ->
                holdingb (lpc l1) = true -> holdingb (lpc l2) = true -> t1 = t2;
    inv_wait  : forall t l, At t l -> spinningb (lpc l) = true -> wait l = 1 \/ wait l = 2;
    inv_wait2 : forall t l, At t l -> (lpc l = PFutexWait \/ lpc l = PSleeping) -> wait l = 2;
    inv_ws    : forall t, In t (waitset s) -> exists l, At t l /\ lpc l = PSleeping;
    (* no lost wake-up *)
    inv_nlw   : waitset s <> [] ->
                key s = 2 \/ exists t l, At t l /\ carrierb t l s = true;
    inv_nobug : forall t l, At t l -> lpc l <> PBug
  }.
End Invariant.

Definition Inv (g : mstate) : Prop := InvR (sh g) (at_ g).

(** ---- small facts ---- *)

Lemma memb_In t w : memb t w = true <-> In t w.
Proof.
  unfold memb. rewrite existsb_exists. split.
  - intros (x & Hx & E). apply Nat.eqb_eq in E. subst; auto.
  - intros H. exists t. split; auto. apply Nat.eqb_refl.
Qed.

Lemma memb_false t w : memb t w = false <-> ~ In t w.
Proof. rewrite <- memb_In. destruct (memb t w); split; intros; congruence. Qed.

Lemma remove_tid_In t x w : In x (remove_tid t w) <-> In x w /\ x <> t.
Proof.
  unfold remove_tid. rewrite filter_In. split; intros [H1 H2]; split; auto.
  - intros ->. rewrite Nat.eqb_refl in H2. discriminate.
  - apply Bool.negb_true_iff. apply Nat.eqb_neq. congruence.
Qed.

Lemma wake_one_In c x w : In x (wake_one c w) -> In x w.
Proof. destruct w; cbn [wake_one]; auto. intros H. apply remove_tid_In in H. tauto. Qed.

(** A wake with a non-empty queue really removes a queued thread. *)
Lemma wake_one_removed c w : w <> [] -> exists u, In u w /\ ~ In u (wake_one c w)
                                       /\ forall x, In x (wake_one c w) <-> In x w /\ x <> u.
Proof.
  intros Hne. destruct w as [|a r]; [congruence|].
  set (w := a :: r) in *. exists (nth (c mod length w) w O).
  assert (Hin : In (nth (c mod length w) w O) w).
  { apply nth_In. apply Nat.mod_upper_bound. subst w; cbn; lia. }
  split; auto. split.
  - unfold wake_one; fold w. subst w. rewrite remove_tid_In. tauto.
  - intros x. unfold wake_one; fold w. subst w. apply remove_tid_In.
Qed.

Lemma spin_at_cases i : spin_at i = PSpinLoad i \/ spin_at i = PSwap.
Proof. unfold spin_at. destruct (i <? passive_spin)%nat; auto. Qed.

Lemma next_iter_pc l : lpc (next_iter l) = PDone \/ lpc (next_iter l) = PLockCas.
Proof. unfold next_iter. destruct (iters l); cbn; auto. Qed.

Lemma app_nonnil {A} (l : list A) x : l ++ [x] <> [].
Proof. destruct l; cbn; congruence. Qed.

(** ---- preservation ---- *)

Lemma carrierb_ws t l s s' : waitset s' = waitset s -> carrierb t l s' = carrierb t l s.
Proof. unfold carrierb. intros ->. reflexivity. Qed.

Section Preservation.
  Variable s : shared.
  Variable At : nat -> local -> Prop.
  Hypothesis At_fun : forall t l1 l2, At t l1 -> At t l2 -> l1 = l2.

  Variables (t : nat) (l : local).
  Hypothesis Hat : At t l.
  Hypothesis HI : InvR s At.

  Definition At' (l' : local) (t0 : nat) (x : local) : Prop := (t0 = t /\ x = l') \/ (t0 <> t /\ At t0 x).

  Ltac thr H := destruct H as [[? ?] | [? H]]; subst.
  (* [x] is the local state of thread [t] *)
  Ltac self H := pose proof (At_fun _ _ _ H Hat); subst.

  Lemma holding_key : holdingb (lpc l) = true -> key s <> 0.
  Proof. intros Hh Hk. rewrite (inv_free _ _ HI Hk _ _ Hat) in Hh. discriminate. Qed.

  Lemma others_not_holding :
    holdingb (lpc l) = true -> forall t0 x, t0 <> t -> At t0 x -> holdingb (lpc x) = false.
  Proof.
    intros Hh t0 x Hne Hx. destruct (holdingb (lpc x)) eqn:E; auto.
    exfalso. apply Hne. eapply (inv_excl _ _ HI); eauto.
  Qed.

  Lemma not_queued : lpc l <> PSleeping -> ~ In t (waitset s).
  Proof.
    intros Hp Hin. destruct (inv_ws _ _ HI _ Hin) as (x & Hx & Hpx). self Hx. auto.
  Qed.

  (** Shape B: the step keeps the queue and either keeps the mutex word or
      overwrites a non-zero word with SLEEPING; the thread neither acquires
      nor releases. *)
  Lemma local_preserves l' s' :
    (key s' = key s \/ (key s <> 0 /\ key s' = 2)) ->
    waitset s' = waitset s ->
    holdingb (lpc l') = holdingb (lpc l) ->
    (carrierb t l s = true -> carrierb t l' s = true) ->
    (spinningb (lpc l') = true -> wait l' = 1 \/ wait l' = 2) ->
    (lpc l' = PFutexWait \/ lpc l' = PSleeping -> wait l' = 2) ->
    (In t (waitset s) -> lpc l' = PSleeping) ->
    lpc l' <> PBug ->
    InvR s' (At' l').
  Proof.
    intros Hkey Hws Hh Hcar Hsp Hw2 Hsl Hnb.
    constructor.
    - destruct Hkey as [->|[_ ->]]; auto. apply (inv_key _ _ HI).
    - intros Hk. assert (Hk0 : key s = 0) by (destruct Hkey as [E|[_ E]]; lia).
      intros t0 x HA. thr HA.
      + rewrite Hh. eapply (inv_free _ _ HI); eauto.
      + eapply (inv_free _ _ HI); eauto.
    - intros Hk. assert (Hk0 : key s <> 0) by (destruct Hkey as [E|[E _]]; lia).
      destruct (inv_held _ _ HI Hk0) as (u & x & Hx & Hhx).
      destruct (Nat.eq_dec u t) as [->|Hne].
      + self Hx. exists t, l'. split; [left; auto|congruence].
      + exists u, x. split; auto. right; auto.
    - intros t1 l1 t2 l2 H1 H2 Hh1 Hh2. thr H1; thr H2; auto.
      + rewrite Hh in Hh1. eapply (inv_excl _ _ HI); eauto.
      + rewrite Hh in Hh2. eapply (inv_excl _ _ HI); eauto.
      + eapply (inv_excl _ _ HI); eauto.
    - intros t0 x HA Hs. thr HA; auto. eapply (inv_wait _ _ HI); eauto.
    - intros t0 x HA Hs. thr HA; auto. eapply (inv_wait2 _ _ HI); eauto.
    - rewrite Hws. intros t0 Hin. destruct (inv_ws _ _ HI _ Hin) as (x & Hx & Hpx).
      destruct (Nat.eq_dec t0 t) as [->|Hne].
      + exists l'. split; [left; auto|auto].
      + exists x. split; auto. right; auto.
    - rewrite Hws. intros Hne. destruct (inv_nlw _ _ HI Hne) as [Hk|(u & x & Hx & Hc)].
      + left. destruct Hkey as [->|[_ ->]]; auto.
      + right. destruct (Nat.eq_dec u t) as [->|Hneq].
        * self Hx. exists t, l'. split; [left; auto|]. rewrite (carrierb_ws _ _ _ _ Hws). auto.
        * exists u, x. split; [right; auto|]. rewrite (carrierb_ws _ _ _ _ Hws). auto.
    - intros t0 x HA. thr HA; auto. eapply (inv_nobug _ _ HI); eauto.
  Qed.

  (** Shape A: acquisition. *)
  Lemma acquire_preserves l' s' k :
    key s = 0 -> (k = 1 \/ k = 2) ->
    s' = set_key s k ->
    lpc l' = PCrit0 ->
    lpc l <> PSleeping ->
    (carrierb t l s = true -> k = 2) ->
    InvR s' (At' l').
  Proof.
    intros Hk Hk' -> Hpc Hns Hcar.
    pose proof (not_queued Hns) as Hnq.
    constructor; cbn [key set_key waitset].
    - destruct Hk' as [-> | ->]; auto.
    - intros E; exfalso; lia.
    - intros _. exists t, l'. split; [left; auto|]. rewrite Hpc; auto.
    - intros t1 l1 t2 l2 H1 H2 Hh1 Hh2. thr H1; thr H2; auto.
      + rewrite (inv_free _ _ HI Hk _ _ H2) in Hh2. discriminate.
      + rewrite (inv_free _ _ HI Hk _ _ H1) in Hh1. discriminate.
      + rewrite (inv_free _ _ HI Hk _ _ H1) in Hh1. discriminate.
    - intros t0 x HA Hs. thr HA.
      + rewrite Hpc in Hs. discriminate.
      + eapply (inv_wait _ _ HI); eauto.
    - intros t0 x HA Hs. thr HA.
      + rewrite Hpc in Hs. destruct Hs; discriminate.
      + eapply (inv_wait2 _ _ HI); eauto.
    - intros t0 Hin. destruct (inv_ws _ _ HI _ Hin) as (x & Hx & Hp).
      exists x. split; auto. right. split; auto. intros ->. auto.
    - intros Hne. destruct (inv_nlw _ _ HI Hne) as [E|(u & x & Hx & Hc)]; [lia|].
      destruct (Nat.eq_dec u t) as [->|Hneq].
      + self Hx. left. auto.
      + right. exists u, x. split; [right; auto|]. exact Hc.
    - intros t0 x HA. thr HA.
      + rewrite Hpc. discriminate.
      + eapply (inv_nobug _ _ HI); eauto.
  Qed.

  (** Shape D: going to sleep in [futex_wait]. *)
  Lemma sleep_preserves l' s' :
    lpc l = PFutexWait -> key s = 2 ->
    l' = set_pc l PSleeping -> s' = set_ws s (waitset s ++ [t]) ->
    InvR s' (At' l').
  Proof.
    intros Hpc Hk -> ->.
    constructor; cbn [key set_ws waitset lpc set_pc wait].
    - apply (inv_key _ _ HI).
    - intros E; lia.
    - intros Hk0. destruct (inv_held _ _ HI Hk0) as (u & x & Hx & Hhx).
      exists u, x. split; auto. right. split; auto. intros ->. self Hx.
      rewrite Hpc in Hhx. discriminate.
    - intros t1 l1 t2 l2 H1 H2 Hh1 Hh2. thr H1; thr H2; auto; try discriminate.
      eapply (inv_excl _ _ HI); eauto.
    - intros t0 x HA Hs. thr HA; [discriminate|]. eapply (inv_wait _ _ HI); eauto.
    - intros t0 x HA Hs. thr HA.
      + cbn. eapply (inv_wait2 _ _ HI); eauto.
      + eapply (inv_wait2 _ _ HI); eauto.
    - intros t0 Hin. apply in_app_or in Hin. destruct Hin as [Hin|[<-|[]]].
      + destruct (inv_ws _ _ HI _ Hin) as (x & Hx & Hp).
        exists x. split; auto. right. split; auto. intros ->. self Hx. congruence.
      + eexists. split; [left; eauto|]. reflexivity.
    - auto.
    - intros t0 x HA. thr HA; [discriminate|]. eapply (inv_nobug _ _ HI); eauto.
  Qed.

  (** Shape E: the unlock swap. *)
  Lemma unlock_preserves l' s' :
    lpc l = PUnlock ->
    s' = set_key s 0 ->
    holdingb (lpc l') = false -> spinningb (lpc l') = false ->
    lpc l' <> PFutexWait -> lpc l' <> PSleeping -> lpc l' <> PBug ->
    (key s = 2 -> lpc l' = PWake) ->
    InvR s' (At' l').
  Proof.
    intros Hpc -> Hh Hsp Hn1 Hn2 Hn3 Hwk.
    assert (Hhl : holdingb (lpc l) = true) by (rewrite Hpc; auto).
    constructor; cbn [key set_key waitset].
    - auto.
    - intros _ t0 x HA. thr HA; auto. eapply others_not_holding; eauto.
    - intros E; congruence.
    - intros t1 l1 t2 l2 H1 H2 Hh1 Hh2. thr H1; thr H2; auto; try congruence.
      eapply (inv_excl _ _ HI); eauto.
    - intros t0 x HA Hs. thr HA; [congruence|]. eapply (inv_wait _ _ HI); eauto.
    - intros t0 x HA Hs. thr HA; [tauto|]. eapply (inv_wait2 _ _ HI); eauto.
    - intros t0 Hin. destruct (inv_ws _ _ HI _ Hin) as (x & Hx & Hp).
      exists x. split; auto. right. split; auto. intros ->. self Hx. congruence.
    - intros Hne. right. destruct (inv_nlw _ _ HI Hne) as [E|(u & x & Hx & Hc)].
      + exists t, l'. split; [left; auto|]. unfold carrierb. rewrite (Hwk E). auto.
      + exists u, x. split; [|exact Hc]. right. split; auto. intros ->. self Hx.
        unfold carrierb in Hc. rewrite Hpc in Hc. discriminate.
    - intros t0 x HA. thr HA; auto. eapply (inv_nobug _ _ HI); eauto.
  Qed.

  (** Shape F: [futex_wake]. *)
  Lemma wake_preserves l' s' c :
    lpc l = PWake -> l' = next_iter l -> s' = set_ws s (wake_one c (waitset s)) ->
    InvR s' (At' l').
  Proof.
    intros Hpc -> ->.
    assert (Hnp : forall p, (p = PDone \/ p = PLockCas) ->
                  holdingb p = false /\ spinningb p = false /\ p <> PFutexWait /\ p <> PSleeping /\ p <> PBug).
    { intros p [-> | ->]; repeat split; auto; discriminate. }
    destruct (Hnp _ (next_iter_pc l)) as (N1 & N2 & N3 & N4 & N5).
    constructor; cbn [key set_ws waitset].
    - apply (inv_key _ _ HI).
    - intros Hk t0 x HA. thr HA; auto. eapply (inv_free _ _ HI); eauto.
    - intros Hk. destruct (inv_held _ _ HI Hk) as (u & x & Hx & Hhx).
      exists u, x. split; auto. right. split; auto. intros ->. self Hx.
      rewrite Hpc in Hhx. discriminate.
    - intros t1 l1 t2 l2 H1 H2 Hh1 Hh2. thr H1; thr H2; auto; try congruence.
      eapply (inv_excl _ _ HI); eauto.
    - intros t0 x HA Hs. thr HA; [congruence|]. eapply (inv_wait _ _ HI); eauto.
    - intros t0 x HA Hs. thr HA; [tauto|]. eapply (inv_wait2 _ _ HI); eauto.
    - intros t0 Hin. apply wake_one_In in Hin. destruct (inv_ws _ _ HI _ Hin) as (x & Hx & Hp).
      exists x. split; auto. right. split; auto. intros ->. self Hx. congruence.
    - intros Hne. right.
      assert (Hne0 : waitset s <> []) by (intros E; rewrite E in Hne; cbn in Hne; congruence).
      destruct (wake_one_removed c _ Hne0) as (u & Hu & Hnu & _).
      destruct (inv_ws _ _ HI _ Hu) as (x & Hx & Hp).
      exists u, x. split.
      + right. split; auto. intros ->. self Hx. congruence.
      + unfold carrierb. rewrite Hp. cbn [waitset set_ws]. apply Bool.negb_true_iff. apply memb_false. auto.
    - intros t0 x HA. thr HA; auto. eapply (inv_nobug _ _ HI); eauto.
  Qed.

  (** Shape G: a spurious wake-up. *)
  Lemma spur_preserves l' s' :
    lpc l = PSleeping -> In t (waitset s) -> l' = l -> s' = set_ws s (remove_tid t (waitset s)) ->
    InvR s' (At' l').
  Proof.
    intros Hpc Hin -> ->.
    assert (Hsame : forall t0 x, At' l t0 x -> At t0 x).
    { intros t0 x HA. thr HA; auto. }
    constructor; cbn [key set_ws waitset].
    - apply (inv_key _ _ HI).
    - intros Hk t0 x HA. eapply (inv_free _ _ HI); eauto.
    - intros Hk. destruct (inv_held _ _ HI Hk) as (u & x & Hx & Hhx).
      exists u, x. split; auto. destruct (Nat.eq_dec u t) as [->|Hne].
      + self Hx. left; auto.
      + right; auto.
    - intros t1 l1 t2 l2 H1 H2. eapply (inv_excl _ _ HI); eauto.
    - intros t0 x HA. eapply (inv_wait _ _ HI); eauto.
    - intros t0 x HA. eapply (inv_wait2 _ _ HI); eauto.
    - intros t0 Hi. apply remove_tid_In in Hi. destruct Hi as [Hi Hne].
      destruct (inv_ws _ _ HI _ Hi) as (x & Hx & Hp). exists x. split; auto. right; auto.
    - intros _. right. exists t, l. split; [left; auto|].
      unfold carrierb. rewrite Hpc. cbn [waitset set_ws]. apply Bool.negb_true_iff. apply memb_false.
      intros Hc. apply remove_tid_In in Hc. tauto.
    - intros t0 x HA. eapply (inv_nobug _ _ HI); eauto.
  Qed.
End Preservation.

Lemma InvR_ext s (A1 A2 : nat -> local -> Prop) :
  (forall t l, A1 t l <-> A2 t l) -> InvR s A1 -> InvR s A2.
Proof.
  intros E HI. constructor.
  - apply (inv_key _ _ HI).
  - intros Hk t l H. apply E in H. eapply (inv_free _ _ HI); eauto.
  - intros Hk. destruct (inv_held _ _ HI Hk) as (t & l & H & Hh). exists t, l. split; auto. apply E; auto.
  - intros t1 l1 t2 l2 H1 H2. apply E in H1. apply E in H2. eapply (inv_excl _ _ HI); eauto.
  - intros t l H. apply E in H. eapply (inv_wait _ _ HI); eauto.
  - intros t l H. apply E in H. eapply (inv_wait2 _ _ HI); eauto.
  - intros t H. destruct (inv_ws _ _ HI _ H) as (l & Hl & Hp). exists l. split; auto. apply E; auto.
  - intros Hne. destruct (inv_nlw _ _ HI Hne) as [Hk|(t & l & H & Hc)]; auto.
    right. exists t, l. split; auto. apply E; auto.
  - intros t l H. apply E in H. eapply (inv_nobug _ _ HI); eauto.
Qed.

Lemma at_fun (g : mstate) t l1 l2 : at_ g t l1 -> at_ g t l2 -> l1 = l2.
Proof. unfold at_. congruence. Qed.

Lemma key_cases k : k = 0 \/ k = 1 \/ k = 2 -> (k =? 0) = true /\ k = 0 \/ (k =? 0) = false /\ k <> 0.
Proof. destruct (N.eqb_spec k 0); auto. Qed.

Lemma carrier_spin_at i l s t :
  wait l = 2 -> carrierb t (set_pc l (spin_at i)) s = true.
Proof.
  intros Hw. unfold carrierb. cbn [lpc set_pc wait]. destruct (spin_at_cases i) as [-> | ->]; auto.
  rewrite Hw. reflexivity.
Qed.

Lemma spin_at_props i :
  holdingb (spin_at i) = false /\ spin_at i <> PBug /\ spin_at i <> PFutexWait /\ spin_at i <> PSleeping.
Proof. destruct (spin_at_cases i) as [-> | ->]; repeat split; auto; discriminate. Qed.

Theorem step_preserves g e g' : Inv g -> mstep e g = Some g' -> Inv g'.
Proof.
  intros HI Hs. apply gstep_inv in Hs. destruct Hs as (l & l' & Hat & Hst & Hth).
  unfold Inv. eapply InvR_ext with (A1 := At' (at_ g) (tid_of e) l').
  { intros t0 x. symmetry. eapply at_after; eauto. }
  pose proof (at_fun g) as Hfun.
  unfold Inv in HI. revert Hst. generalize (sh g') as s'. intros s' Hst.
  pose proof (inv_key _ _ HI) as Hkey.
  change mutex_unlocked with 0 in *. change mutex_locked with 1 in *. change mutex_sleeping with 2 in *.
  destruct e as [t c | t]; cbn [tid_of step] in *.
  2: { (* spurious wake-up *)
    unfold spur in Hst. destruct (lpc l) eqn:Hpc; try discriminate.
    destruct (memb t (waitset (sh g))) eqn:Hm; try discriminate. inv Hst.
    eapply spur_preserves; eauto. apply memb_In; auto. }
  unfold tstep in Hst.
  change mutex_unlocked with 0 in *. change mutex_locked with 1 in *. change mutex_sleeping with 2 in *.
  assert (Hnq : lpc l <> PSleeping -> ~ In t (waitset (sh g))) by (eapply not_queued; eauto).
  assert (Hwsp : spinningb (lpc l) = true -> wait l = 1 \/ wait l = 2) by (eapply (inv_wait _ _ HI); eauto).
  assert (Hw2 : lpc l = PFutexWait \/ lpc l = PSleeping -> wait l = 2) by (eapply (inv_wait2 _ _ HI); eauto).
  Ltac side Hpc :=
    cbn [lpc wait set_pc key set_key waitset];
    first
      [ solve [auto]
      | solve [congruence]
      | solve [rewrite ?Hpc; auto]
      | solve [discriminate]
      | solve [intros [?|?]; congruence]
      | solve [intros [?|?]; discriminate]
      | solve [intros _; lia]
      | solve [intros _; apply carrier_spin_at; auto]
      | solve [unfold carrierb at 1; rewrite Hpc; discriminate]
      | solve [unfold carrierb; cbn [lpc set_pc wait]; rewrite Hpc; auto]
      | solve [unfold carrierb at 1; rewrite Hpc; let E := fresh in intros E; apply N.eqb_eq in E; auto using carrier_spin_at]
      | solve [let H := fresh in intros H; exfalso; match goal with Hn : _ -> ~ In _ _ |- _ => apply Hn in H; auto; congruence end]
      | idtac ].
  destruct (lpc l) eqn:Hpc.
  - (* PLockCas *)
    destruct (N.eqb_spec (key (sh g)) 0) as [Hk|Hk]; inv Hst.
    + eapply acquire_preserves with (k := 1); eauto; side Hpc.
    + destruct (spin_at_props 0) as (P1 & P2 & P3 & P4).
      eapply local_preserves; eauto; side Hpc.
  - (* PSpinLoad *)
    assert (Hw : wait l = 1 \/ wait l = 2) by auto.
    destruct (N.eqb_spec (key (sh g)) 0) as [Hk|Hk]; inv Hst.
    + eapply local_preserves; eauto; side Hpc.
    + destruct (spin_at_props (Datatypes.S i)) as (P1 & P2 & P3 & P4).
      eapply local_preserves; eauto; side Hpc.
  - (* PSpinCas *)
    assert (Hw : wait l = 1 \/ wait l = 2) by auto.
    destruct (N.eqb_spec (key (sh g)) 0) as [Hk|Hk]; inv Hst.
    + eapply acquire_preserves with (k := wait l); eauto; side Hpc.
    + eapply local_preserves; eauto; side Hpc.
  - (* PYield *)
    assert (Hw : wait l = 1 \/ wait l = 2) by auto.
    inv Hst. eapply local_preserves; eauto; side Hpc.
  - (* PSwap *)
    destruct (N.eqb_spec (key (sh g)) 0) as [Hk|Hk]; inv Hst.
    + eapply acquire_preserves with (k := 2); eauto; side Hpc.
    + eapply local_preserves; eauto; side Hpc.
  - (* PFutexWait *)
    assert (Hw : wait l = 2) by auto.
    destruct (N.eqb_spec (key (sh g)) 2) as [Hk|Hk]; inv Hst.
    + eapply sleep_preserves; eauto.
    + destruct (spin_at_props 0) as (P1 & P2 & P3 & P4).
      eapply local_preserves; eauto; side Hpc.
  - (* PSleeping *)
    assert (Hw : wait l = 2) by auto.
    destruct (memb t (waitset (sh g))) eqn:Hm; inv Hst.
    destruct (spin_at_props 0) as (P1 & P2 & P3 & P4).
    eapply local_preserves; eauto; side Hpc.
    intros Hin. apply memb_false in Hm. tauto.
  - (* PCrit0 *)
    inv Hst. eapply local_preserves; eauto; side Hpc.
  - (* PCrit1 *)
    inv Hst. eapply local_preserves; eauto; side Hpc.
  - (* PUnlock *)
    assert (Hk0 : key (sh g) <> 0).
    { eapply holding_key; eauto. rewrite Hpc. auto. }
    destruct (N.eqb_spec (key (sh g)) 0) as [Hk|_]; [congruence|].
    destruct (N.eqb_spec (key (sh g)) 2) as [Hk2|Hk2]; [|destruct (N.eqb_spec (key (sh g)) 1) as [Hk1|Hk1]]; inv Hst.
    + eapply unlock_preserves; eauto; side Hpc.
    + destruct (next_iter_pc l) as [E|E];
        eapply unlock_preserves; eauto; rewrite ?E; side Hpc.
    + exfalso. lia.
  - (* PWake *)
    inv Hst. eapply wake_preserves; eauto.
  - discriminate.
  - discriminate.
Qed.

(** ---- the invariant holds in every reachable state ---- *)

Lemma init_local_pc n : lpc (init_local n) = PDone \/ lpc (init_local n) = PLockCas.
Proof. destruct n; cbn; auto. Qed.

Lemma at_init ns t l : at_ (init ns) t l -> lpc l = PDone \/ lpc l = PLockCas.
Proof.
  unfold at_, init. cbn [th]. intros H. apply nth_error_In in H. apply in_map_iff in H.
  destruct H as (n & <- & _). apply init_local_pc.
Qed.

Lemma Inv_init ns : Inv (init ns).
Proof.
  constructor; cbn [sh init key waitset].
  - auto.
  - intros _ t l H. destruct (at_init _ _ _ H) as [-> | ->]; auto.
  - intros H. exfalso. apply H. reflexivity.
  - intros t1 l1 t2 l2 H1 _ Hh. destruct (at_init _ _ _ H1) as [E|E]; rewrite E in Hh; discriminate.
  - intros t l H Hs. destruct (at_init _ _ _ H) as [E|E]; rewrite E in Hs; discriminate.
  - intros t l H [E|E]; destruct (at_init _ _ _ H) as [E'|E']; congruence.
  - intros t [].
  - intros H. congruence.
  - intros t l H. destruct (at_init _ _ _ H) as [E|E]; rewrite E; discriminate.
Qed.

Theorem Inv_run ns sched : Inv (mrun sched (init ns)).
Proof.
  unfold mrun. apply invariant_run with (Inv := Inv).
  - apply Inv_init.
  - intros g e g' HI Hs. eapply step_preserves; eauto.
Qed.

Theorem Inv_reachable ns g : reachable tid_of step (init ns) g -> Inv g.
Proof.
  intros H. eapply invariant_induction with (Inv := Inv); eauto.
  - apply Inv_init.
  - intros g1 e g2 HI Hs. eapply step_preserves; eauto.
Qed.

(** ---- enabledness ---- *)

Lemma tstep_enabled t c l s :
  finishedb (lpc l) = false -> asleepb t l s = false -> tstep t c l s <> None.
Proof.
  unfold tstep, asleepb. destruct (lpc l); cbn [finishedb]; intros Hf Ha; try discriminate;
    repeat destr_if; try discriminate; try congruence.
Qed.

Lemma enabled_run (g : mstate) t c l :
  at_ g t l -> finishedb (lpc l) = false -> asleepb t l (sh g) = false ->
  enabled tid_of step (Run t c) g = true.
Proof.
  intros Hat Hf Ha. unfold enabled, gstep. cbn [tid_of]. unfold at_ in Hat. rewrite Hat.
  cbn [step]. pose proof (tstep_enabled t c l (sh g) Hf Ha) as Hn.
  destruct (tstep t c l (sh g)) as [[? ?]|]; auto; congruence.
Qed.

Lemma carrier_awake t l s : carrierb t l s = true -> finishedb (lpc l) = false /\ asleepb t l s = false.
Proof.
  unfold carrierb, asleepb. destruct (lpc l); cbn [finishedb]; intros H; try discriminate; auto.
  split; auto. apply Bool.negb_true_iff in H. auto.
Qed.

Lemma holding_awake t l s : holdingb (lpc l) = true -> finishedb (lpc l) = false /\ asleepb t l s = false.
Proof. unfold asleepb. destruct (lpc l); cbn; intros H; try discriminate; auto. Qed.

(** No reachable state is stuck: if some thread has not finished, some thread
    can take a (non-spurious) step. *)
Lemma Inv_not_stuck g :
  Inv g ->
  (exists t l, at_ g t l /\ finishedb (lpc l) = false) ->
  exists t c, enabled tid_of step (Run t c) g = true.
Proof.
  intros HI (t & l & Hat & Hf).
  destruct (asleepb t l (sh g)) eqn:Ha.
  - (* t sleeps in the queue: the queue is non-empty, so the word is SLEEPING
       (then a holder exists) or a carrier exists; both are awake *)
    assert (Hne : waitset (sh g) <> []).
    { unfold asleepb in Ha. destruct (lpc l); try discriminate. apply memb_In in Ha.
      intros E. rewrite E in Ha. destruct Ha. }
    destruct (inv_nlw _ _ HI Hne) as [Hk|(u & lu & Hu & Hc)].
    + destruct (inv_held _ _ HI) as (u & lu & Hu & Hh); [lia|].
      destruct (holding_awake u lu (sh g) Hh) as [F A].
      exists u, O. eapply enabled_run; eauto.
    + destruct (carrier_awake _ _ _ Hc) as [F A].
      exists u, O. eapply enabled_run; eauto.
  - exists t, O. eapply enabled_run; eauto.
Qed.

(** ---- statements (C43) ---- *)

Definition mutex_exclusive_stmt : Prop :=
  forall (ns : list nat) (sched : list event) (t1 t2 : nat) (l1 l2 : local),
  let g := mrun sched (init ns) in
  at_ g t1 l1 -> at_ g t2 l2 ->
  holdingb (lpc l1) = true -> holdingb (lpc l2) = true -> t1 = t2.
Lemma mutex_exclusive_proof : mutex_exclusive_stmt.
Proof. intros ns sched t1 t2 l1 l2 g. apply (inv_excl _ _ (Inv_run ns sched)). Qed.

(** The mutex word tells exactly whether somebody holds the lock. *)
Definition mutex_word_stmt : Prop :=
  forall (ns : list nat) (sched : list event),
  let g := mrun sched (init ns) in
  (key (sh g) = 0 \/ key (sh g) = 1 \/ key (sh g) = 2)
  /\ (key (sh g) = 0 <-> forall t l, at_ g t l -> holdingb (lpc l) = false).
Lemma mutex_word_proof : mutex_word_stmt.
Proof.
  intros ns sched g. pose proof (Inv_run ns sched) as HI. fold g in HI. split.
  - apply (inv_key _ _ HI).
  - split.
    + apply (inv_free _ _ HI).
    + intros H. destruct (N.eq_dec (key (sh g)) 0) as [E|E]; auto.
      destruct (inv_held _ _ HI E) as (t & l & Hat & Hh). rewrite (H _ _ Hat) in Hh. discriminate.
Qed.

Definition no_lost_wakeup_stmt : Prop :=
  forall (ns : list nat) (sched : list event),
  let g := mrun sched (init ns) in
  (exists t l, at_ g t l /\ asleepb t l (sh g) = true) ->
  key (sh g) = mutex_sleeping
  \/ exists u lu, at_ g u lu /\ carrierb u lu (sh g) = true.
Lemma no_lost_wakeup_proof : no_lost_wakeup_stmt.
Proof.
  intros ns sched g (t & l & Hat & Ha). pose proof (Inv_run ns sched) as HI. fold g in HI.
  apply (inv_nlw _ _ HI).
  unfold asleepb in Ha. destruct (lpc l); try discriminate. apply memb_In in Ha.
  intros E. rewrite E in Ha. destruct Ha.
Qed.

Definition no_stuck_state_stmt : Prop :=
  forall (ns : list nat) (sched : list event),
  let g := mrun sched (init ns) in
  (exists t l, at_ g t l /\ finishedb (lpc l) = false) ->
  exists t c, enabled tid_of step (Run t c) g = true.
Lemma no_stuck_state_proof : no_stuck_state_stmt.
Proof. intros ns sched g. apply Inv_not_stuck. apply Inv_run. Qed.

Definition unlock_never_bugs_stmt : Prop :=
  forall (ns : list nat) (sched : list event) (t : nat) (l : local),
  at_ (mrun sched (init ns)) t l -> lpc l <> PBug.
Lemma unlock_never_bugs_proof : unlock_never_bugs_stmt.
Proof. intros ns sched t l. apply (inv_nobug _ _ (Inv_run ns sched)). Qed.

(** The queue only ever contains threads that are blocked in futex_wait. *)
Definition waitset_sound_stmt : Prop :=
  forall (ns : list nat) (sched : list event) (t : nat),
  let g := mrun sched (init ns) in
  In t (waitset (sh g)) -> exists l, at_ g t l /\ lpc l = PSleeping.
Lemma waitset_sound_proof : waitset_sound_stmt.
Proof. intros ns sched t g. apply (inv_ws _ _ (Inv_run ns sched)). Qed.

(** ---- progress of a waiter when the lock is free ---- *)

Definition solo (t : nat) (k : nat) : list event := repeat (Run t O) k.

Lemma exec_run (g : mstate) t c l l' s' :
  at_ g t l -> tstep t c l (sh g) = Some (l', s') ->
  exec tid_of step g (Run t c) = G s' (upd (th g) t l').
Proof.
  intros Hat Hst. unfold exec. erewrite gstep_intro; eauto.
Qed.

Lemma at_upd_same (g : mstate) t l l' (s' : shared) : at_ g t l -> at_ (G s' (upd (th g) t l') : mstate) t l'.
Proof. unfold at_. cbn [th]. intros H. eapply nth_error_upd_same; eauto. Qed.

Lemma spin_at_0 : spin_at 0 = PSpinLoad 0.
Proof. reflexivity. Qed.

(** One solo step of [t] from a state where the word is 0. *)
Lemma solo_step_free (g : mstate) t l :
  at_ g t l -> key (sh g) = 0 -> lockingb (lpc l) = true -> asleepb t l (sh g) = false ->
  exists l' s', exec tid_of step g (Run t O) = G s' (upd (th g) t l')
    /\ ((holdingb (lpc l') = true)
        \/ (key s' = 0 /\ waitset s' = waitset (sh g) /\ lockingb (lpc l') = true
            /\ asleepb t l' s' = false
            /\ match lpc l, lpc l' with
               | PSpinLoad _, PSpinCas _ => True
               | PYield _, PSpinLoad _ => True
               | PFutexWait, PSpinLoad _ => True
               | PSleeping, PSpinLoad _ => True
               | _, _ => False
               end)).
Proof.
  intros Hat Hk Hl Ha. unfold asleepb in Ha.
  destruct (lpc l) eqn:Hpc; try discriminate.
  - (* PLockCas *)
    eexists _, _. split.
    { eapply exec_run; eauto. unfold tstep. rewrite Hpc, Hk. reflexivity. }
    left. reflexivity.
  - eexists _, _. split.
    { eapply exec_run; eauto. unfold tstep. rewrite Hpc, Hk. reflexivity. }
    right. cbn. rewrite Hk. auto 10.
  - eexists _, _. split.
    { eapply exec_run; eauto. unfold tstep. rewrite Hpc, Hk. reflexivity. }
    left. reflexivity.
  - eexists _, _. split.
    { eapply exec_run; eauto. unfold tstep. rewrite Hpc. reflexivity. }
    right. cbn. rewrite Hk. auto 10.
  - eexists _, _. split.
    { eapply exec_run; eauto. unfold tstep. rewrite Hpc, Hk. reflexivity. }
    left. reflexivity.
  - eexists _, _. split.
    { eapply exec_run; eauto. unfold tstep. rewrite Hpc, Hk. reflexivity. }
    right. rewrite spin_at_0. cbn. rewrite Hk. auto 10.
  - eexists _, _. split.
    { eapply exec_run; eauto. unfold tstep. rewrite Hpc, Ha. reflexivity. }
    right. rewrite spin_at_0. cbn. rewrite Hk. auto 10.
Qed.

(** If the lock is free, a thread that is awake inside [sys_lock] acquires it
    within 3 of its own steps (whatever the other threads' states are). *)
Definition free_lock_acquirable_stmt : Prop :=
  forall (g : mstate) (t : nat) (l : local),
  at_ g t l -> key (sh g) = 0 -> lockingb (lpc l) = true -> asleepb t l (sh g) = false ->
  exists k l', (k <= 3)%nat /\ at_ (mrun (solo t k) g) t l' /\ holdingb (lpc l') = true.
Lemma free_lock_acquirable_proof : free_lock_acquirable_stmt.
Proof.
  intros g t l Hat Hk Hl Ha.
  destruct (solo_step_free g t l Hat Hk Hl Ha) as (l1 & s1 & E1 & [Hh|(Hk1 & _ & Hl1 & Ha1 & Hm1)]).
  { exists 1%nat, l1. split; [lia|]. cbn. unfold mrun, run. cbn. rewrite E1. split; auto. eapply at_upd_same; eauto. }
  set (g1 := G s1 (upd (th g) t l1)) in *.
  assert (Hat1 : at_ g1 t l1) by (eapply at_upd_same; eauto).
  destruct (solo_step_free g1 t l1 Hat1 Hk1 Hl1 Ha1) as (l2 & s2 & E2 & [Hh|(Hk2 & _ & Hl2 & Ha2 & Hm2)]).
  { exists 2%nat, l2. split; [lia|]. unfold mrun, run. cbn. rewrite E1. fold g1. rewrite E2.
    split; auto. eapply at_upd_same; eauto. }
  set (g2 := G s2 (upd (th g1) t l2)) in *.
  assert (Hat2 : at_ g2 t l2) by (eapply at_upd_same; eauto).
  destruct (solo_step_free g2 t l2 Hat2 Hk2 Hl2 Ha2) as (l3 & s3 & E3 & [Hh|(Hk3 & _ & Hl3 & Ha3 & Hm3)]).
  { exists 3%nat, l3. split; [lia|]. unfold mrun, run. cbn. rewrite E1. fold g1. rewrite E2. fold g2. rewrite E3.
    split; auto. eapply at_upd_same; eauto. }
  (* three non-acquiring steps in a row are impossible *)
  exfalso. destruct (lpc l), (lpc l1); try contradiction; destruct (lpc l2); try contradiction;
    destruct (lpc l3); contradiction.
Qed.

(** ---- non-vacuity: a concrete contended run ---- *)

Definition demo_sched : list event :=
  [Run 0 0] ++ repeat (Run 1 0) 9 ++ repeat (Run 2 0) 9          (* 0 holds; 1 and 2 go to sleep *)
  ++ [Run 0 0; Run 0 0; Run 0 0; Run 0 1]                         (* 0 releases and wakes thread 2 *)
  ++ [Spur 1].                                                     (* 1 wakes up spuriously *)

Example demo_sleepers :
  let g := mrun (firstn 19 demo_sched) (init [2; 1; 1]%nat) in
  waitset (sh g) = [1; 2]%nat /\ key (sh g) = 2
  /\ map lpc (th g) = [PCrit0; PSleeping; PSleeping].
Proof. vm_compute. auto. Qed.

Example demo_woken :
  let g := mrun demo_sched (init [2; 1; 1]%nat) in
  waitset (sh g) = [] /\ key (sh g) = 0 /\ data (sh g) = 1
  /\ map lpc (th g) = [PLockCas; PSleeping; PSleeping]
  /\ (exists t l, at_ g t l /\ finishedb (lpc l) = false).
Proof. vm_compute. repeat split; auto. exists 0%nat. eexists. split; reflexivity. Qed.

Example demo_completes :
  let g := mrun (demo_sched ++ concat (repeat [Run 0 0; Run 1 0; Run 2 0] 40)) (init [2; 1; 1]%nat) in
  map lpc (th g) = [PDone; PDone; PDone] /\ data (sh g) = 4 /\ key (sh g) = 0 /\ waitset (sh g) = [].
Proof. vm_compute. auto. Qed.
