(** Proofs about the futex mutex model [model/Mutex.v] (C43). *)
From Coq Require Import String.
From Aranya Require Import base.Tactics base.Interleave gen.GenConc model.Mutex.
Open Scope string_scope.
Open Scope list_scope.
Open Scope N_scope.

(** The generated constants and the ledger of synchronisation operations are
    the ones the model was written for. *)
Lemma mutex_consts_pinned :
  (mutex_unlocked, mutex_locked, mutex_sleeping, passive_spin) = (0, 1, 2, 5%nat).
Proof. reflexivity. Qed.

Lemma mutex_ops_pinned :
  mutex_ops =
  [("sys_lock", "compare_exchange", "SeqCst,SeqCst");      (* CAS-only fallback *)
   ("sys_lock", "spin_loop", "");
   ("sys_lock", "compare_exchange", "SeqCst,SeqCst");      (* site 1 *)
   ("sys_lock", "load", "Relaxed");                        (* site 2 *)
   ("sys_lock", "compare_exchange", "SeqCst,SeqCst");      (* site 3 *)
   ("sys_lock", "sched_yield", "");                        (* site 4 *)
   ("sys_lock", "swap", "SeqCst");                         (* site 5 *)
   ("sys_lock", "futex_wait", "");                         (* site 6 *)
   ("sys_unlock", "swap", "SeqCst");                       (* CAS-only fallback *)
   ("sys_unlock", "swap", "SeqCst");                       (* site 8 *)
   ("sys_unlock", "futex_wake", "");                       (* site 9 *)
   ("futex", "syscall", "");
   ("futex_wait", "__ulock_wait", "");
   ("futex_wake", "__ulock_wake", "")].
Proof. reflexivity. Qed.

(** The futex of the model is a PROCESS-SHARED futex on the mutex word: the mutex
    lives in shared memory that every mapping places at a different virtual
    address, so [FUTEX_WAIT]/[FUTEX_WAKE] must be issued without
    [FUTEX_PRIVATE_FLAG] and on the address of [key].  The model's [waitset] is
    one queue for all threads whatever mapping they use; that is only what the
    code does if the system-call sites are exactly these (every argument
    expression of every futex / ulock call, the libc names they resolve to, and
    the ulock operation constants, regenerated from mutex.rs on every run). *)
Definition futex_shared_on_key_stmt : Prop :=
  futex_calls =
  [("sys_lock", "futex_wait", ["&self.key"; "Self::MUTEX_SLEEPING"]);
   ("sys_unlock", "futex_wake", ["&self.key"; "1"]);
   ("futex", "syscall", ["SYS_futex"; "uaddr"; "futex_op"; "val"; "timeout"; "uaddr2"; "val3"]);
   ("futex_wait", "futex", ["ptr::from_ref::<AtomicU32>(uaddr)"; "FUTEX_WAIT"; "val"; "ptr::null_mut()"; "ptr::null_mut()"; "0"]);
   ("futex_wake", "futex", ["ptr::from_ref::<AtomicU32>(uaddr)"; "FUTEX_WAKE"; "cnt"; "ptr::null_mut()"; "ptr::null_mut()"; "0"]);
   ("futex_wait", "__ulock_wait", ["UL_COMPARE_AND_WAIT|ULF_NO_ERRNO"; "ptr::from_ref::<AtomicU32>(addr).cast::<u32>().cast_mut().cast::<c_void>()"; "u64::from(val)"; "0"]);
   ("futex_wake", "__ulock_wake", ["UL_COMPARE_AND_WAIT|ULF_NO_ERRNO"; "ptr::from_ref::<AtomicU32>(addr).cast::<u32>().cast_mut().cast::<c_void>()"; "u64::from(cnt)"])]
  /\ futex_libc_imports = ["FUTEX_WAIT"; "FUTEX_WAKE"; "SYS_futex"; "c_int"; "syscall"; "timespec"]
  /\ ulock_consts = ["UL_COMPARE_AND_WAIT=1"; "ULF_NO_ERRNO=0x01000000"].
Lemma futex_shared_on_key_proof : futex_shared_on_key_stmt.
Proof. repeat split; reflexivity. Qed.

(** A thread that is awake inside [sys_lock] and is certain to leave the mutex
    word at SLEEPING when it acquires (or to wake a sleeper): the carriers of a
    pending wake-up. *)
Definition carrierb (t : nat) (l : local) (s : shared) : bool :=
  match lpc l with
  | PWake | PSwap | PFutexWait => true
  | PSpinLoad _ | PSpinCas _ | PYield _ => wait l =? 2
  | PSleeping => negb (memb t (waitset s))
  | _ => false
  end.

Definition spinningb (p : pc) : bool :=
  match p with PSpinLoad _ | PSpinCas _ | PYield _ => true | _ => false end.

(** The invariant, over an abstract thread table [At t l] ("thread t exists
    and has local state l"). *)
Section Invariant.
  Variable s : shared.
  Variable At : nat -> local -> Prop.

  Record InvR : Prop := {
    inv_key   : key s = 0 \/ key s = 1 \/ key s = 2;
    inv_free  : key s = 0 -> forall t l, At t l -> holdingb (lpc l) = false;
    inv_held  : key s <> 0 -> exists t l, At t l /\ holdingb (lpc l) = true;
    inv_excl  : forall t1 l1 t2 l2, At t1 l1 -> At t2 l2 ->
                holdingb (lpc l1) = true -> holdingb (lpc l2) = true -> t1 = t2;
    inv_wait  : forall t l, At t l -> spinningb (lpc l) = true -> wait l = 1 \/ wait l = 2;
    inv_wait2 : forall t l, At t l -> (lpc l = PFutexWait \/ lpc l = PSleeping) -> wait l = 2;
    inv_ws    : forall t, In t (waitset s) -> exists l, At t l /\ lpc l = PSleeping;
    (* no lost wake-up *)
    inv_nlw   : waitset s <> [] ->
                key s = 2 \/ exists t l, At t l /\ carrierb t l s = true;
    inv_nobug : forall t l, At t l -> lpc l <> PBug
  }.
End Invariant.

Definition Inv (g : mstate) : Prop := InvR (sh g) (at_ g).

(** ---- small facts ---- *)

Lemma memb_In t w : memb t w = true <-> In t w.
Proof.
  unfold memb. rewrite existsb_exists. split.
  - intros (x & Hx & E). apply Nat.eqb_eq in E. subst; auto.
  - intros H. exists t. split; auto. apply Nat.eqb_refl.
Qed.

Lemma memb_false t w : memb t w = false <-> ~ In t w.
Proof. rewrite <- memb_In. destruct (memb t w); split; intros; congruence. Qed.

Lemma remove_tid_In t x w : In x (remove_tid t w) <-> In x w /\ x <> t.
Proof.
  unfold remove_tid. rewrite filter_In. split; intros [H1 H2]; split; auto.
  - intros ->. rewrite Nat.eqb_refl in H2. discriminate.
  - apply Bool.negb_true_iff. apply Nat.eqb_neq. congruence.
Qed.

Lemma wake_one_In c x w : In x (wake_one c w) -> In x w.
Proof. destruct w; cbn [wake_one]; auto. intros H. apply remove_tid_In in H. tauto. Qed.

(** A wake with a non-empty queue really removes a queued thread. *)
Lemma wake_one_removed c w : w <> [] -> exists u, In u w /\ ~ In u (wake_one c w)
                                       /\ forall x, In x (wake_one c w) <-> In x w /\ x <> u.
Proof.
  intros Hne. destruct w as [|a r]; [congruence|].
  set (w := a :: r) in *. exists (nth (c mod length w) w O).
  assert (Hin : In (nth (c mod length w) w O) w).
  { apply nth_In. apply Nat.mod_upper_bound. subst w; cbn; lia. }
  split; auto. split.
  - unfold wake_one; fold w. subst w. rewrite remove_tid_In. tauto.
  - intros x. unfold wake_one; fold w. subst w. apply remove_tid_In.
Qed.

Lemma spin_at_cases i : spin_at i = PSpinLoad i \/ spin_at i = PSwap.
Proof. unfold spin_at. destruct (i <? passive_spin)%nat; auto. Qed.

Lemma next_iter_pc l : lpc (next_iter l) = PDone \/ lpc (next_iter l) = PLockCas.
Proof. unfold next_iter. destruct (iters l); cbn; auto. Qed.

Lemma app_nonnil {A} (l : list A) x : l ++ [x] <> [].
Proof. destruct l; cbn; congruence. Qed.

(** ---- preservation ---- *)

Lemma carrierb_ws t l s s' : waitset s' = waitset s -> carrierb t l s' = carrierb t l s.
Proof. unfold carrierb. intros ->. reflexivity. Qed.

Section Preservation.
  Variable s : shared.
  Variable At : nat -> local -> Prop.
  Hypothesis At_fun : forall t l1 l2, At t l1 -> At t l2 -> l1 = l2.

  Variables (t : nat) (l : local).
  Hypothesis Hat : At t l.
  Hypothesis HI : InvR s At.

  Definition At' (l' : local) (t0 : nat) (x : local) : Prop := (t0 = t /\ x = l') \/ (t0 <> t /\ At t0 x).

  Ltac thr H := destruct H as [[? ?] | [? H]]; subst.
  (* [x] is the local state of thread [t] *)
  Ltac self H := pose proof (At_fun _ _ _ H Hat); subst.

  Lemma holding_key : holdingb (lpc l) = true -> key s <> 0.
  Proof. intros Hh Hk. rewrite (inv_free _ _ HI Hk _ _ Hat) in Hh. discriminate. Qed.

  Lemma others_not_holding :
    holdingb (lpc l) = true -> forall t0 x, t0 <> t -> At t0 x -> holdingb (lpc x) = false.
  Proof.
    intros Hh t0 x Hne Hx. destruct (holdingb (lpc x)) eqn:E; auto.
    exfalso. apply Hne. eapply (inv_excl _ _ HI); eauto.
  Qed.

  Lemma not_queued : lpc l <> PSleeping -> ~ In t (waitset s).
  Proof.
    intros Hp Hin. destruct (inv_ws _ _ HI _ Hin) as (x & Hx & Hpx). self Hx. auto.
  Qed.

  (** Shape B: the step keeps the queue and either keeps the mutex word or
      overwrites a non-zero word with SLEEPING; the thread neither acquires
      nor releases. *)
  Lemma local_preserves l' s' :
    (key s' = key s \/ (key s <> 0 /\ key s' = 2)) ->
    waitset s' = waitset s ->
    holdingb (lpc l') = holdingb (lpc l) ->
    (carrierb t l s = true -> carrierb t l' s = true) ->
    (spinningb (lpc l') = true -> wait l' = 1 \/ wait l' = 2) ->
    (lpc l' = PFutexWait \/ lpc l' = PSleeping -> wait l' = 2) ->
    (In t (waitset s) -> lpc l' = PSleeping) ->
    lpc l' <> PBug ->
    InvR s' (At' l').
  Proof.
    intros Hkey Hws Hh Hcar Hsp Hw2 Hsl Hnb.
    constructor.
    - destruct Hkey as [->|[_ ->]]; auto. apply (inv_key _ _ HI).
    - intros Hk. assert (Hk0 : key s = 0) by (destruct Hkey as [E|[_ E]]; lia).
      intros t0 x HA. thr HA.
      + rewrite Hh. eapply (inv_free _ _ HI); eauto.
      + eapply (inv_free _ _ HI); eauto.
    - intros Hk. assert (Hk0 : key s <> 0) by (destruct Hkey as [E|[E _]]; lia).
      destruct (inv_held _ _ HI Hk0) as (u & x & Hx & Hhx).
      destruct (Nat.eq_dec u t) as [->|Hne].
      + self Hx. exists t, l'. split; [left; auto|congruence].
      + exists u, x. split; auto. right; auto.
    - intros t1 l1 t2 l2 H1 H2 Hh1 Hh2. thr H1; thr H2; auto.
      + rewrite Hh in Hh1. eapply (inv_excl _ _ HI); eauto.
      + rewrite Hh in Hh2. eapply (inv_excl _ _ HI); eauto.
      + eapply (inv_excl _ _ HI); eauto.
    - intros t0 x HA Hs. thr HA; auto. eapply (inv_wait _ _ HI); eauto.
    - intros t0 x HA Hs. thr HA; auto. eapply (inv_wait2 _ _ HI); eauto.
    - rewrite Hws. intros t0 Hin. destruct (inv_ws _ _ HI _ Hin) as (x & Hx & Hpx).
      destruct (Nat.eq_dec t0 t) as [->|Hne].
      + exists l'. split; [left; auto|auto].
      + exists x. split; auto. right; auto.
    - rewrite Hws. intros Hne. destruct (inv_nlw _ _ HI Hne) as [Hk|(u & x & Hx & Hc)].
      + left. destruct Hkey as [->|[_ ->]]; auto.
      + right. destruct (Nat.eq_dec u t) as [->|Hneq].
        * self Hx. exists t, l'. split; [left; auto|]. rewrite (carrierb_ws _ _ _ _ Hws). auto.
        * exists u, x. split; [right; auto|]. rewrite (carrierb_ws _ _ _ _ Hws). auto.
    - intros t0 x HA. thr HA; auto. eapply (inv_nobug _ _ HI); eauto.
  Qed.

  (** Shape A: acquisition. *)
  Lemma acquire_preserves l' s' k :
    key s = 0 -> (k = 1 \/ k = 2) ->
    s' = set_key s k ->
    lpc l' = PCrit0 ->
    lpc l <> PSleeping ->
    (carrierb t l s = true -> k = 2) ->
    InvR s' (At' l').
  Proof.
    intros Hk Hk' -> Hpc Hns Hcar.
    pose proof (not_queued Hns) as Hnq.
    constructor; cbn [key set_key waitset].
    - destruct Hk' as [-> | ->]; auto.
    - intros E; exfalso; lia.
    - intros _. exists t, l'. split; [left; auto|]. rewrite Hpc; auto.
    - intros t1 l1 t2 l2 H1 H2 Hh1 Hh2. thr H1; thr H2; auto.
      + rewrite (inv_free _ _ HI Hk _ _ H2) in Hh2. discriminate.
      + rewrite (inv_free _ _ HI Hk _ _ H1) in Hh1. discriminate.
      + rewrite (inv_free _ _ HI Hk _ _ H1) in Hh1. discriminate.
    - intros t0 x HA Hs. thr HA.
      + rewrite Hpc in Hs. discriminate.
      + eapply (inv_wait _ _ HI); eauto.
    - intros t0 x HA Hs. thr HA.
      + rewrite Hpc in Hs. destruct Hs; discriminate.
      + eapply (inv_wait2 _ _ HI); eauto.
    - intros t0 Hin. destruct (inv_ws _ _ HI _ Hin) as (x & Hx & Hp).
      exists x. split; auto. right. split; auto. intros ->. auto.
    - intros Hne. destruct (inv_nlw _ _ HI Hne) as [E|(u & x & Hx & Hc)]; [lia|].
      destruct (Nat.eq_dec u t) as [->|Hneq].
      + self Hx. left. auto.
      + right. exists u, x. split; [right; auto|]. exact Hc.
    - intros t0 x HA. thr HA.
      + rewrite Hpc. discriminate.
      + eapply (inv_nobug _ _ HI); eauto.
  Qed.

  (** Shape D: going to sleep in [futex_wait]. *)
  Lemma sleep_preserves l' s' :
    lpc l = PFutexWait -> key s = 2 ->
    l' = set_pc l PSleeping -> s' = set_ws s (waitset s ++ [t]) ->
    InvR s' (At' l').
  Proof.
    intros Hpc Hk -> ->.
    constructor; cbn [key set_ws waitset lpc set_pc wait].
    - apply (inv_key _ _ HI).
    - intros E; lia.
    - intros Hk0. destruct (inv_held _ _ HI Hk0) as (u & x & Hx & Hhx).
      exists u, x. split; auto. right. split; auto. intros ->. self Hx.
      rewrite Hpc in Hhx. discriminate.
    - intros t1 l1 t2 l2 H1 H2 Hh1 Hh2. thr H1; thr H2; auto; try discriminate.
      eapply (inv_excl _ _ HI); eauto.
    - intros t0 x HA Hs. thr HA; [discriminate|]. eapply (inv_wait _ _ HI); eauto.
    - intros t0 x HA Hs. thr HA.
      + cbn. eapply (inv_wait2 _ _ HI); eauto.
      + eapply (inv_wait2 _ _ HI); eauto.
    - intros t0 Hin. apply in_app_or in Hin. destruct Hin as [Hin|[<-|[]]].
      + destruct (inv_ws _ _ HI _ Hin) as (x & Hx & Hp).
        exists x. split; auto. right. split; auto. intros ->. self Hx. congruence.
      + eexists. split; [left; eauto|]. reflexivity.
    - auto.
    - intros t0 x HA. thr HA; [discriminate|]. eapply (inv_nobug _ _ HI); eauto.
  Qed.

  (** Shape E: the unlock swap. *)
  Lemma unlock_preserves l' s' :
    lpc l = PUnlock ->
    s' = set_key s 0 ->
    holdingb (lpc l') = false -> spinningb (lpc l') = false ->
    lpc l' <> PFutexWait -> lpc l' <> PSleeping -> lpc l' <> PBug ->
    (key s = 2 -> lpc l' = PWake) ->
    InvR s' (At' l').
  Proof.
    intros Hpc -> Hh Hsp Hn1 Hn2 Hn3 Hwk.
    assert (Hhl : holdingb (lpc l) = true) by (rewrite Hpc; auto).
    constructor; cbn [key set_key waitset].
    - auto.
    - intros _ t0 x HA. thr HA; auto. eapply others_not_holding; eauto.
    - intros E; congruence.
    - intros t1 l1 t2 l2 H1 H2 Hh1 Hh2. thr H1; thr H2; auto; try congruence.
      eapply (inv_excl _ _ HI); eauto.
    - intros t0 x HA Hs. thr HA; [congruence|]. eapply (inv_wait _ _ HI); eauto.
    - intros t0 x HA Hs. thr HA; [tauto|]. eapply (inv_wait2 _ _ HI); eauto.
    - intros t0 Hin. destruct (inv_ws _ _ HI _ Hin) as (x & Hx & Hp).
      exists x. split; auto. right. split; auto. intros ->. self Hx. congruence.
    - intros Hne. right. destruct (inv_nlw _ _ HI Hne) as [E|(u & x & Hx & Hc)].
      + exists t, l'. split; [left; auto|]. unfold carrierb. rewrite (Hwk E). auto.
      + exists u, x. split; [|exact Hc]. right. split; auto. intros ->. self Hx.
        unfold carrierb in Hc. rewrite Hpc in Hc. discriminate.
    - intros t0 x HA. thr HA; auto. eapply (inv_nobug _ _ HI); eauto.
  Qed.

  (** Shape F: [futex_wake]. *)
  Lemma wake_preserves l' s' c :
    lpc l = PWake -> l' = next_iter l -> s' = set_ws s (wake_one c (waitset s)) ->
    InvR s' (At' l').
  Proof.
    intros Hpc -> ->.
    assert (Hnp : forall p, (p = PDone \/ p = PLockCas) ->
                  holdingb p = false /\ spinningb p = false /\ p <> PFutexWait /\ p <> PSleeping /\ p <> PBug).
    { intros p [-> | ->]; repeat split; auto; discriminate. }
    destruct (Hnp _ (next_iter_pc l)) as (N1 & N2 & N3 & N4 & N5).
    constructor; cbn [key set_ws waitset].
    - apply (inv_key _ _ HI).
    - intros Hk t0 x HA. thr HA; auto. eapply (inv_free _ _ HI); eauto.
    - intros Hk. destruct (inv_held _ _ HI Hk) as (u & x & Hx & Hhx).
      exists u, x. split; auto. right. split; auto. intros ->. self Hx.
      rewrite Hpc in Hhx. discriminate.
    - intros t1 l1 t2 l2 H1 H2 Hh1 Hh2. thr H1; thr H2; auto; try congruence.
      eapply (inv_excl _ _ HI); eauto.
    - intros t0 x HA Hs. thr HA; [congruence|]. eapply (inv_wait _ _ HI); eauto.
    - intros t0 x HA Hs. thr HA; [tauto|]. eapply (inv_wait2 _ _ HI); eauto.
    - intros t0 Hin. apply wake_one_In in Hin. destruct (inv_ws _ _ HI _ Hin) as (x & Hx & Hp).
      exists x. split; auto. right. split; auto. intros ->. self Hx. congruence.
    - intros Hne. right.
      assert (Hne0 : waitset s <> []) by (intros E; rewrite E in Hne; cbn in Hne; congruence).
      destruct (wake_one_removed c _ Hne0) as (u & Hu & Hnu & _).
      destruct (inv_ws _ _ HI _ Hu) as (x & Hx & Hp).
      exists u, x. split.
      + right. split; auto. intros ->. self Hx. congruence.
      + unfold carrierb. rewrite Hp. cbn [waitset set_ws]. apply Bool.negb_true_iff. apply memb_false. auto.
    - intros t0 x HA. thr HA; auto. eapply (inv_nobug _ _ HI); eauto.
  Qed.

  (** Shape G: a spurious wake-up. *)
  Lemma spur_preserves l' s' :
    lpc l = PSleeping -> In t (waitset s) -> l' = l -> s' = set_ws s (remove_tid t (waitset s)) ->
    InvR s' (At' l').
  Proof.
    intros Hpc Hin -> ->.
    assert (Hsame : forall t0 x, At' l t0 x -> At t0 x).
    { intros t0 x HA. thr HA; auto. }
    constructor; cbn [key set_ws waitset].
    - apply (inv_key _ _ HI).
    - intros Hk t0 x HA. eapply (inv_free _ _ HI); eauto.
    - intros Hk. destruct (inv_held _ _ HI Hk) as (u & x & Hx & Hhx).
      exists u, x. split; auto. destruct (Nat.eq_dec u t) as [->|Hne].
      + self Hx. left; auto.
      + right; auto.
    - intros t1 l1 t2 l2 H1 H2. eapply (inv_excl _ _ HI); eauto.
    - intros t0 x HA. eapply (inv_wait _ _ HI); eauto.
    - intros t0 x HA. eapply (inv_wait2 _ _ HI); eauto.
    - intros t0 Hi. apply remove_tid_In in Hi. destruct Hi as [Hi Hne].
      destruct (inv_ws _ _ HI _ Hi) as (x & Hx & Hp). exists x. split; auto. right; auto.
    - intros _. right. exists t, l. split; [left; auto|].
      unfold carrierb. rewrite Hpc. cbn [waitset set_ws]. apply Bool.negb_true_iff. apply memb_false.
      intros Hc. apply remove_tid_In in Hc. tauto.
    - intros t0 x HA. eapply (inv_nobug _ _ HI); eauto.
  Qed.
End Preservation.

Lemma InvR_ext s (A1 A2 : nat -> local -> Prop) :
  (forall t l, A1 t l <-> A2 t l) -> InvR s A1 -> InvR s A2.
Proof.
  intros E HI. constructor.
  - apply (inv_key _ _ HI).
  - intros Hk t l H. apply E in H. eapply (inv_free _ _ HI); eauto.
  - intros Hk. destruct (inv_held _ _ HI Hk) as (t & l & H & Hh). exists t, l. split; auto. apply E; auto.
  - intros t1 l1 t2 l2 H1 H2. apply E in H1. apply E in H2. eapply (inv_excl _ _ HI); eauto.
  - intros t l H. apply E in H. eapply (inv_wait _ _ HI); eauto.
  - intros t l H. apply E in H. eapply (inv_wait2 _ _ HI); eauto.
  - intros t H. destruct (inv_ws _ _ HI _ H) as (l & Hl & Hp). exists l. split; auto. apply E; auto.
  - intros Hne. destruct (inv_nlw _ _ HI Hne) as [Hk|(t & l & H & Hc)]; auto.
    right. exists t, l. split; auto. apply E; auto.
  - intros t l H. apply E in H. eapply (inv_nobug _ _ HI); eauto.
Qed.

Lemma at_fun (g : mstate) t l1 l2 : at_ g t l1 -> at_ g t l2 -> l1 = l2.
Proof. unfold at_. congruence. Qed.

Lemma key_cases k : k = 0 \/ k = 1 \/ k = 2 -> (k =? 0) = true /\ k = 0 \/ (k =? 0) = false /\ k <> 0.
Proof. destruct (N.eqb_spec k 0); auto. Qed.

Lemma carrier_spin_at i l s t :
  wait l = 2 -> carrierb t (set_pc l (spin_at i)) s = true.
Proof.
  intros Hw. unfold carrierb. cbn [lpc set_pc wait]. destruct (spin_at_cases i) as [-> | ->]; auto.
  rewrite Hw. reflexivity.
Qed.

Lemma spin_at_props i :
  holdingb (spin_at i) = false /\ spin_at i <> PBug /\ spin_at i <> PFutexWait /\ spin_at i <> PSleeping.
Proof. destruct (spin_at_cases i) as [-> | ->]; repeat split; auto; discriminate. Qed.

Theorem step_preserves g e g' : Inv g -> mstep e g = Some g' -> Inv g'.
Proof.
  intros HI Hs. apply gstep_inv in Hs. destruct Hs as (l & l' & Hat & Hst & Hth).
  unfold Inv. eapply InvR_ext with (A1 := At' (at_ g) (tid_of e) l').
  { intros t0 x. symmetry. eapply at_after; eauto. }
  pose proof (at_fun g) as Hfun.
  unfold Inv in HI. revert Hst. generalize (sh g') as s'. intros s' Hst.
  pose proof (inv_key _ _ HI) as Hkey.
  change mutex_unlocked with 0 in *. change mutex_locked with 1 in *. change mutex_sleeping with 2 in *.
  destruct e as [t c | t]; cbn [tid_of step] in *.
  2: { (* spurious wake-up *)
    unfold spur in Hst. destruct (lpc l) eqn:Hpc; try discriminate.
    destruct (memb t (waitset (sh g))) eqn:Hm; try discriminate. inv Hst.
    eapply spur_preserves; eauto. apply memb_In; auto. }
  unfold tstep in Hst.
  change mutex_unlocked with 0 in *. change mutex_locked with 1 in *. change mutex_sleeping with 2 in *.
  assert (Hnq : lpc l <> PSleeping -> ~ In t (waitset (sh g))) by (eapply not_queued; eauto).
  assert (Hwsp : spinningb (lpc l) = true -> wait l = 1 \/ wait l = 2) by (eapply (inv_wait _ _ HI); eauto).
  assert (Hw2 : lpc l = PFutexWait \/ lpc l = PSleeping -> wait l = 2) by (eapply (inv_wait2 _ _ HI); eauto).
  Ltac side Hpc :=
    cbn [lpc wait set_pc key set_key waitset];
    first
      [ solve [auto]
      | solve [congruence]
      | solve [rewrite ?Hpc; auto]
      | solve [discriminate]
      | solve [intros [?|?]; congruence]
      | solve [intros [?|?]; discriminate]
      | solve [intros _; lia]
      | solve [intros _; apply carrier_spin_at; auto]
      | solve [unfold carrierb at 1; rewrite Hpc; discriminate]
      | solve [unfold carrierb; cbn [lpc set_pc wait]; rewrite Hpc; auto]
      | solve [unfold carrierb at 1; rewrite Hpc; let E := fresh in intros E; apply N.eqb_eq in E; auto using carrier_spin_at]
      | solve [let H := fresh in intros H; exfalso; match goal with Hn : _ -> ~ In _ _ |- _ => apply Hn in H; auto; congruence end]
      | idtac ].
  destruct (lpc l) eqn:Hpc.
  - (* PLockCas *)
    destruct (N.eqb_spec (key (sh g)) 0) as [Hk|Hk]; inv Hst.
    + eapply acquire_preserves with (k := 1); eauto; side Hpc.
    + destruct (spin_at_props 0) as (P1 & P2 & P3 & P4).
      eapply local_preserves; eauto; side Hpc.
  - (* PSpinLoad *)
    assert (Hw : wait l = 1 \/ wait l = 2) by auto.
    destruct (N.eqb_spec (key (sh g)) 0) as [Hk|Hk]; inv Hst.
    + eapply local_preserves; eauto; side Hpc.
    + destruct (spin_at_props (Datatypes.S i)) as (P1 & P2 & P3 & P4).
      eapply local_preserves; eauto; side Hpc.
  - (* PSpinCas *)
    assert (Hw : wait l = 1 \/ wait l = 2) by auto.
    destruct (N.eqb_spec (key (sh g)) 0) as [Hk|Hk]; inv Hst.
    + eapply acquire_preserves with (k := wait l); eauto; side Hpc.
    + eapply local_preserves; eauto; side Hpc.
  - (* PYield *)
    assert (Hw : wait l = 1 \/ wait l = 2) by auto.
    inv Hst. eapply local_preserves; eauto; side Hpc.
  - (* PSwap *)
    destruct (N.eqb_spec (key (sh g)) 0) as [Hk|Hk]; inv Hst.
    + eapply acquire_preserves with (k := 2); eauto; side Hpc.
    + eapply local_preserves; eauto; side Hpc.
  - (* PFutexWait *)
    assert (Hw : wait l = 2) by auto.
    destruct (N.eqb_spec (key (sh g)) 2) as [Hk|Hk]; inv Hst.
    + eapply sleep_preserves; eauto.
    + destruct (spin_at_props 0) as (P1 & P2 & P3 & P4).
      eapply local_preserves; eauto; side Hpc.
  - (* PSleeping *)
    assert (Hw : wait l = 2) by auto.
    destruct (memb t (waitset (sh g))) eqn:Hm; inv Hst.
    destruct (spin_at_props 0) as (P1 & P2 & P3 & P4).
    eapply local_preserves; eauto; side Hpc.
    intros Hin. apply memb_false in Hm. tauto.
  - (* PCrit0 *)
    inv Hst. eapply local_preserves; eauto; side Hpc.
  - (* PCrit1 *)
    inv Hst. eapply local_preserves; eauto; side Hpc.
  - (* PUnlock *)
    assert (Hk0 : key (sh g) <> 0).
    { eapply holding_key; eauto. rewrite Hpc. auto. }
    destruct (N.eqb_spec (key (sh g)) 0) as [Hk|_]; [congruence|].
    destruct (N.eqb_spec (key (sh g)) 2) as [Hk2|Hk2]; [|destruct (N.eqb_spec (key (sh g)) 1) as [Hk1|Hk1]]; inv Hst.
    + eapply unlock_preserves; eauto; side Hpc.
    + destruct (next_iter_pc l) as [E|E];
        eapply unlock_preserves; eauto; rewrite ?E; side Hpc.
    + exfalso. lia.
  - (* PWake *)
    inv Hst. eapply wake_preserves; eauto.
  - discriminate.
  - discriminate.
Qed.

(** ---- the invariant holds in every reachable state ---- *)

Lemma init_local_pc n : lpc (init_local n) = PDone \/ lpc (init_local n) = PLockCas.
Proof. destruct n; cbn; auto. Qed.

Lemma at_init ns t l : at_ (init ns) t l -> lpc l = PDone \/ lpc l = PLockCas.
Proof.
  unfold at_, init. cbn [th]. intros H. apply nth_error_In in H. apply in_map_iff in H.
  destruct H as (n & <- & _). apply init_local_pc.
Qed.

Lemma Inv_init ns : Inv (init ns).
Proof.
  constructor; cbn [sh init key waitset].
  - auto.
  - intros _ t l H. destruct (at_init _ _ _ H) as [-> | ->]; auto.
  - intros H. exfalso. apply H. reflexivity.
  - intros t1 l1 t2 l2 H1 _ Hh. destruct (at_init _ _ _ H1) as [E|E]; rewrite E in Hh; discriminate.
  - intros t l H Hs. destruct (at_init _ _ _ H) as [E|E]; rewrite E in Hs; discriminate.
  - intros t l H [E|E]; destruct (at_init _ _ _ H) as [E'|E']; congruence.
  - intros t [].
  - intros H. congruence.
  - intros t l H. destruct (at_init _ _ _ H) as [E|E]; rewrite E; discriminate.
Qed.

Theorem Inv_run ns sched : Inv (mrun sched (init ns)).
Proof.
  unfold mrun. apply invariant_run with (Inv := Inv).
  - apply Inv_init.
  - intros g e g' HI Hs. eapply step_preserves; eauto.
Qed.

Theorem Inv_reachable ns g : reachable tid_of step (init ns) g -> Inv g.
Proof.
  intros H. eapply invariant_induction with (Inv := Inv); eauto.
  - apply Inv_init.
  - intros g1 e g2 HI Hs. eapply step_preserves; eauto.
Qed.

(** ---- enabledness ---- *)

Lemma tstep_enabled t c l s :
  finishedb (lpc l) = false -> asleepb t l s = false -> tstep t c l s <> None.
Proof.
  unfold tstep, asleepb. destruct (lpc l); cbn [finishedb]; intros Hf Ha; try discriminate;
    repeat destr_if; try discriminate; try congruence.
Qed.

Lemma enabled_run (g : mstate) t c l :
  at_ g t l -> finishedb (lpc l) = false -> asleepb t l (sh g) = false ->
  enabled tid_of step (Run t c) g = true.
Proof.
  intros Hat Hf Ha. unfold enabled, gstep. cbn [tid_of]. unfold at_ in Hat. rewrite Hat.
  cbn [step]. pose proof (tstep_enabled t c l (sh g) Hf Ha) as Hn.
  destruct (tstep t c l (sh g)) as [[? ?]|]; auto; congruence.
Qed.

Lemma carrier_awake t l s : carrierb t l s = true -> finishedb (lpc l) = false /\ asleepb t l s = false.
Proof.
  unfold carrierb, asleepb. destruct (lpc l); cbn [finishedb]; intros H; try discriminate; auto.
  split; auto. apply Bool.negb_true_iff in H. auto.
Qed.

Lemma holding_awake t l s : holdingb (lpc l) = true -> finishedb (lpc l) = false /\ asleepb t l s = false.
Proof. unfold asleepb. destruct (lpc l); cbn; intros H; try discriminate; auto. Qed.

(** No reachable state is stuck: if some thread has not finished, some thread
    can take a (non-spurious) step. *)
Lemma Inv_not_stuck g :
  Inv g ->
  (exists t l, at_ g t l /\ finishedb (lpc l) = false) ->
  exists t c, enabled tid_of step (Run t c) g = true.
Proof.
  intros HI (t & l & Hat & Hf).
  destruct (asleepb t l (sh g)) eqn:Ha.
  - (* t sleeps in the queue: the queue is non-empty, so the word is SLEEPING
       (then a holder exists) or a carrier exists; both are awake *)
    assert (Hne : waitset (sh g) <> []).
    { unfold asleepb in Ha. destruct (lpc l); try discriminate. apply memb_In in Ha.
      intros E. rewrite E in Ha. destruct Ha. }
    destruct (inv_nlw _ _ HI Hne) as [Hk|(u & lu & Hu & Hc)].
    + destruct (inv_held _ _ HI) as (u & lu & Hu & Hh); [lia|].
      destruct (holding_awake u lu (sh g) Hh) as [F A].
      exists u, O. eapply enabled_run; eauto.
    + destruct (carrier_awake _ _ _ Hc) as [F A].
      exists u, O. eapply enabled_run; eauto.
  - exists t, O. eapply enabled_run; eauto.
Qed.

(** ---- statements (C43) ---- *)

Definition mutex_exclusive_stmt : Prop :=
  forall (ns : list nat) (sched : list event) (t1 t2 : nat) (l1 l2 : local),
  let g := mrun sched (init ns) in
  at_ g t1 l1 -> at_ g t2 l2 ->
  holdingb (lpc l1) = true -> holdingb (lpc l2) = true -> t1 = t2.
Lemma mutex_exclusive_proof : mutex_exclusive_stmt.
Proof. intros ns sched t1 t2 l1 l2 g. apply (inv_excl _ _ (Inv_run ns sched)). Qed.

(** The mutex word tells exactly whether somebody holds the lock. *)
Definition mutex_word_stmt : Prop :=
  forall (ns : list nat) (sched : list event),
  let g := mrun sched (init ns) in
  (key (sh g) = 0 \/ key (sh g) = 1 \/ key (sh g) = 2)
  /\ (key (sh g) = 0 <-> forall t l, at_ g t l -> holdingb (lpc l) = false).
Lemma mutex_word_proof : mutex_word_stmt.
Proof.
  intros ns sched g. pose proof (Inv_run ns sched) as HI. fold g in HI. split.
  - apply (inv_key _ _ HI).
  - split.
    + apply (inv_free _ _ HI).
    + intros H. destruct (N.eq_dec (key (sh g)) 0) as [E|E]; auto.
      destruct (inv_held _ _ HI E) as (t & l & Hat & Hh). rewrite (H _ _ Hat) in Hh. discriminate.
Qed.

Definition no_lost_wakeup_stmt : Prop :=
  forall (ns : list nat) (sched : list event),
  let g := mrun sched (init ns) in
  (exists t l, at_ g t l /\ asleepb t l (sh g) = true) ->
  key (sh g) = mutex_sleeping
  \/ exists u lu, at_ g u lu /\ carrierb u lu (sh g) = true.
Lemma no_lost_wakeup_proof : no_lost_wakeup_stmt.
Proof.
  intros ns sched g (t & l & Hat & Ha). pose proof (Inv_run ns sched) as HI. fold g in HI.
  apply (inv_nlw _ _ HI).
  unfold asleepb in Ha. destruct (lpc l); try discriminate. apply memb_In in Ha.
  intros E. rewrite E in Ha. destruct Ha.
Qed.

Definition no_stuck_state_stmt : Prop :=
  forall (ns : list nat) (sched : list event),
  let g := mrun sched (init ns) in
  (exists t l, at_ g t l /\ finishedb (lpc l) = false) ->
  exists t c, enabled tid_of step (Run t c) g = true.
Lemma no_stuck_state_proof : no_stuck_state_stmt.
Proof. intros ns sched g. apply Inv_not_stuck. apply Inv_run. Qed.

Definition unlock_never_bugs_stmt : Prop :=
  forall (ns : list nat) (sched : list event) (t : nat) (l : local),
  at_ (mrun sched (init ns)) t l -> lpc l <> PBug.
Lemma unlock_never_bugs_proof : unlock_never_bugs_stmt.
Proof. intros ns sched t l. apply (inv_nobug _ _ (Inv_run ns sched)). Qed.

(** The queue only ever contains threads that are blocked in futex_wait. *)
Definition waitset_sound_stmt : Prop :=
  forall (ns : list nat) (sched : list event) (t : nat),
  let g := mrun sched (init ns) in
  In t (waitset (sh g)) -> exists l, at_ g t l /\ lpc l = PSleeping.
Lemma waitset_sound_proof : waitset_sound_stmt.
Proof. intros ns sched t g. apply (inv_ws _ _ (Inv_run ns sched)). Qed.

(** ---- progress of a waiter when the lock is free ---- *)

Definition solo (t : nat) (k : nat) : list event := repeat (Run t O) k.

Lemma exec_run (g : mstate) t c l l' s' :
  at_ g t l -> tstep t c l (sh g) = Some (l', s') ->
  exec tid_of step g (Run t c) = G s' (upd (th g) t l').
Proof.
  intros Hat Hst. unfold exec. erewrite gstep_intro; eauto.
Qed.

Lemma at_upd_same (g : mstate) t l l' (s' : shared) : at_ g t l -> at_ (G s' (upd (th g) t l') : mstate) t l'.
Proof. unfold at_. cbn [th]. intros H. eapply nth_error_upd_same; eauto. Qed.

Lemma spin_at_0 : spin_at 0 = PSpinLoad 0.
Proof. reflexivity. Qed.

(** One solo step of [t] from a state where the word is 0. *)
Lemma solo_step_free (g : mstate) t l :
  at_ g t l -> key (sh g) = 0 -> lockingb (lpc l) = true -> asleepb t l (sh g) = false ->
  exists l' s', exec tid_of step g (Run t O) = G s' (upd (th g) t l')
    /\ ((holdingb (lpc l') = true)
        \/ (key s' = 0 /\ waitset s' = waitset (sh g) /\ lockingb (lpc l') = true
            /\ asleepb t l' s' = false
            /\ match lpc l, lpc l' with
               | PSpinLoad _, PSpinCas _ => True
               | PYield _, PSpinLoad _ => True
               | PFutexWait, PSpinLoad _ => True
               | PSleeping, PSpinLoad _ => True
               | _, _ => False
               end)).
Proof.
  intros Hat Hk Hl Ha. unfold asleepb in Ha.
  destruct (lpc l) eqn:Hpc; try discriminate.
  - (* PLockCas *)
    eexists _, _. split.
    { eapply exec_run; eauto. unfold tstep. rewrite Hpc, Hk. reflexivity. }
    left. reflexivity.
  - eexists _, _. split.
    { eapply exec_run; eauto. unfold tstep. rewrite Hpc, Hk. reflexivity. }
    right. cbn. rewrite Hk. auto 10.
  - eexists _, _. split.
    { eapply exec_run; eauto. unfold tstep. rewrite Hpc, Hk. reflexivity. }
    left. reflexivity.
  - eexists _, _. split.
    { eapply exec_run; eauto. unfold tstep. rewrite Hpc. reflexivity. }
    right. cbn. rewrite Hk. auto 10.
  - eexists _, _. split.
    { eapply exec_run; eauto. unfold tstep. rewrite Hpc, Hk. reflexivity. }
    left. reflexivity.
  - eexists _, _. split.
    { eapply exec_run; eauto. unfold tstep. rewrite Hpc, Hk. reflexivity. }
    right. rewrite spin_at_0. cbn. rewrite Hk. auto 10.
  - eexists _, _. split.
    { eapply exec_run; eauto. unfold tstep. rewrite Hpc, Ha. reflexivity. }
    right. rewrite spin_at_0. cbn. rewrite Hk. auto 10.
Qed.

(** If the lock is free, a thread that is awake inside [sys_lock] acquires it
    within 3 of its own steps (whatever the other threads' states are). *)
Definition free_lock_acquirable_stmt : Prop :=
  forall (g : mstate) (t : nat) (l : local),
  at_ g t l -> key (sh g) = 0 -> lockingb (lpc l) = true -> asleepb t l (sh g) = false ->
  exists k l', (k <= 3)%nat /\ at_ (mrun (solo t k) g) t l' /\ holdingb (lpc l') = true.
Lemma free_lock_acquirable_proof : free_lock_acquirable_stmt.
Proof.
  intros g t l Hat Hk Hl Ha.
  destruct (solo_step_free g t l Hat Hk Hl Ha) as (l1 & s1 & E1 & [Hh|(Hk1 & _ & Hl1 & Ha1 & Hm1)]).
  { exists 1%nat, l1. split; [lia|]. cbn. unfold mrun, run. cbn. rewrite E1. split; auto. eapply at_upd_same; eauto. }
  set (g1 := G s1 (upd (th g) t l1)) in *.
  assert (Hat1 : at_ g1 t l1) by (eapply at_upd_same; eauto).
  destruct (solo_step_free g1 t l1 Hat1 Hk1 Hl1 Ha1) as (l2 & s2 & E2 & [Hh|(Hk2 & _ & Hl2 & Ha2 & Hm2)]).
  { exists 2%nat, l2. split; [lia|]. unfold mrun, run. cbn. rewrite E1. fold g1. rewrite E2.
    split; auto. eapply at_upd_same; eauto. }
  set (g2 := G s2 (upd (th g1) t l2)) in *.
  assert (Hat2 : at_ g2 t l2) by (eapply at_upd_same; eauto).
  destruct (solo_step_free g2 t l2 Hat2 Hk2 Hl2 Ha2) as (l3 & s3 & E3 & [Hh|(Hk3 & _ & Hl3 & Ha3 & Hm3)]).
  { exists 3%nat, l3. split; [lia|]. unfold mrun, run. cbn. rewrite E1. fold g1. rewrite E2. fold g2. rewrite E3.
    split; auto. eapply at_upd_same; eauto. }
  (* three non-acquiring steps in a row are impossible *)
  exfalso. destruct (lpc l), (lpc l1); try contradiction; destruct (lpc l2); try contradiction;
    destruct (lpc l3); contradiction.
Qed.

(** ---- non-vacuity: a concrete contended run ---- *)

Definition demo_sched : list event :=
  [Run 0 0] ++ repeat (Run 1 0) 9 ++ repeat (Run 2 0) 9          (* 0 holds; 1 and 2 go to sleep *)
  ++ [Run 0 0; Run 0 0; Run 0 0; Run 0 1]                         (* 0 releases and wakes thread 2 *)
  ++ [Spur 1].                                                     (* 1 wakes up spuriously *)

Example demo_sleepers :
  let g := mrun (firstn 19 demo_sched) (init [2; 1; 1]%nat) in
  waitset (sh g) = [1; 2]%nat /\ key (sh g) = 2
  /\ map lpc (th g) = [PCrit0; PSleeping; PSleeping].
Proof. vm_compute. auto. Qed.

Example demo_woken :
  let g := mrun demo_sched (init [2; 1; 1]%nat) in
  waitset (sh g) = [] /\ key (sh g) = 0 /\ data (sh g) = 1
  /\ map lpc (th g) = [PLockCas; PSleeping; PSleeping]
  /\ (exists t l, at_ g t l /\ finishedb (lpc l) = false).
Proof. vm_compute. repeat split; auto. exists 0%nat. eexists. split; reflexivity. Qed.

Example demo_completes :
  let g := mrun (demo_sched ++ concat (repeat [Run 0 0; Run 1 0; Run 2 0] 40)) (init [2; 1; 1]%nat) in
  map lpc (th g) = [PDone; PDone; PDone] /\ data (sh g) = 4 /\ key (sh g) = 0 /\ waitset (sh g) = [].
Proof. vm_compute. auto. Qed.

(** ---- possibility of acquisition from every reachable state (EF liveness) ---- *)

Definition no_spur (sched : list event) : Prop :=
  Forall (fun e => match e with Run _ _ => True | Spur _ => False end) sched.

Definition same_others (g g' : mstate) (h : nat) : Prop :=
  forall t' x, t' <> h -> (at_ g' t' x <-> at_ g t' x).

Lemma same_others_refl g h : same_others g g h.
Proof. intros t' x _. tauto. Qed.

Lemma Inv_exec g e : Inv g -> Inv (exec tid_of step g e).
Proof.
  intros HI. unfold exec. destruct (gstep tid_of step e g) eqn:E; auto. eapply step_preserves; eauto.
Qed.

Lemma Inv_mrun sched : forall g, Inv g -> Inv (mrun sched g).
Proof.
  induction sched as [|e r IH]; intros g HI; auto.
  unfold mrun in *. cbn [run fold_left]. apply IH. apply Inv_exec; auto.
Qed.

Lemma mrun_app s1 s2 g : mrun (s1 ++ s2) g = mrun s2 (mrun s1 g).
Proof. apply run_app. Qed.

Lemma mrun_one e g : mrun [e] g = exec tid_of step g e.
Proof. reflexivity. Qed.

Lemma no_spur_app a b : no_spur a -> no_spur b -> no_spur (a ++ b).
Proof. unfold no_spur. intros. apply Forall_app; auto. Qed.

Lemma no_spur_one t c : no_spur [Run t c].
Proof. repeat constructor. Qed.

Lemma no_spur_solo t k : no_spur (solo t k).
Proof. unfold solo, no_spur. induction k; cbn; constructor; auto. Qed.

(** Effect of one enabled [Run] event. *)
Lemma exec_run_frame (g : mstate) t c l l' s' :
  at_ g t l -> tstep t c l (sh g) = Some (l', s') ->
  let g' := exec tid_of step g (Run t c) in
  sh g' = s' /\ at_ g' t l' /\ same_others g g' t.
Proof.
  intros Hat Hst g'. subst g'. rewrite (exec_run g t c l l' s' Hat Hst). cbn [sh]. split; auto. split.
  - eapply at_upd_same; eauto.
  - intros t' x Hne. unfold at_. cbn [th]. rewrite nth_error_upd_other by congruence. tauto.
Qed.

Lemma same_others_trans g1 g2 g3 h :
  same_others g1 g2 h -> same_others g2 g3 h -> same_others g1 g3 h.
Proof. intros H1 H2 t' x Hne. rewrite (H2 t' x Hne). apply H1; auto. Qed.

(** H1: the holder runs up to and including its unlock swap. *)
Lemma holder_releases g :
  Inv g -> key (sh g) <> 0 ->
  exists h k, (k <= 3)%nat /\ (exists l0, at_ g h l0 /\ holdingb (lpc l0) = true) /\
    let g' := mrun (solo h k) g in
    key (sh g') = 0 /\ waitset (sh g') = waitset (sh g) /\ same_others g g' h
    /\ (key (sh g) = 2 -> exists lh, at_ g' h lh /\ lpc lh = PWake)
    /\ (forall lh, at_ g' h lh -> holdingb (lpc lh) = false /\ carrierb h lh (sh g') = (key (sh g) =? 2)).
Proof.
  intros HI Hk. destruct (inv_held _ _ HI Hk) as (h & l & Hat & Hh). exists h.
  assert (Hunlock : forall (g0 : mstate) l0, Inv g0 -> at_ g0 h l0 -> lpc l0 = PUnlock -> key (sh g0) <> 0 ->
          let g' := mrun (solo h 1) g0 in
          key (sh g') = 0 /\ waitset (sh g') = waitset (sh g0) /\ same_others g0 g' h
          /\ (key (sh g0) = 2 -> exists lh, at_ g' h lh /\ lpc lh = PWake)
          /\ (forall lh, at_ g' h lh -> holdingb (lpc lh) = false /\ carrierb h lh (sh g') = (key (sh g0) =? 2))).
  { intros g0 l0 HI0 Hat0 Hpc0 Hk0 g'. subst g'. cbn [solo repeat]. rewrite mrun_one.
    pose proof (inv_key _ _ HI0) as Hkey.
    assert (exists l1, tstep h 0 l0 (sh g0) = Some (l1, set_key (sh g0) 0)
             /\ holdingb (lpc l1) = false /\ (key (sh g0) = 2 -> lpc l1 = PWake)
             /\ (key (sh g0) <> 2 -> lpc l1 = PDone \/ lpc l1 = PLockCas)) as (l1 & Hst & Hnh & Hw & Hnw).
    { unfold tstep. rewrite Hpc0.
      change mutex_unlocked with 0%N. change mutex_sleeping with 2%N. change mutex_locked with 1%N.
      destruct (N.eqb_spec (key (sh g0)) 0); [congruence|].
      destruct (N.eqb_spec (key (sh g0)) 2).
      - eexists. split; [reflexivity|]. cbn. split; auto. split; auto. congruence.
      - destruct (N.eqb_spec (key (sh g0)) 1); [|lia].
        eexists. split; [reflexivity|]. destruct (next_iter_pc l0) as [E|E]; rewrite E; cbn; split; auto. split; [congruence|auto]. split; [congruence|auto]. }
    destruct (exec_run_frame g0 h 0%nat l0 l1 _ Hat0 Hst) as (Hs & Hat1 & Hso).
    rewrite Hs. cbn [key set_key waitset].
    split; [reflexivity|]. split; [reflexivity|]. split; [exact Hso|]. split; [intros E; exists l1; auto|].
    intros lh Hlh. pose proof (at_fun _ _ _ _ Hlh Hat1). subst lh. split; auto.
    unfold carrierb. destruct (N.eqb_spec (key (sh g0)) 2) as [E|E].
    + rewrite (Hw E). reflexivity.
    + destruct (Hnw E) as [E1|E1]; rewrite E1; reflexivity. }
  assert (Hstep : forall (g0 : mstate) l0 l1, at_ g0 h l0 -> tstep h 0 l0 (sh g0) = Some (l1, sh g0) ->
            let g1 := exec tid_of step g0 (Run h 0) in
            sh g1 = sh g0 /\ at_ g1 h l1 /\ same_others g0 g1 h).
  { intros g0 l0 l1 Hat0 Hst0. apply (exec_run_frame g0 h 0%nat l0 l1 (sh g0) Hat0 Hst0). }
  destruct (lpc l) eqn:Hpc; try discriminate.
  - (* PCrit0: two local steps, then the swap *)
    exists 3%nat. split; [lia|]. split; [exists l; rewrite Hpc; auto|].
    assert (S1 : tstep h 0 l (sh g) = Some (L PCrit1 (wait l) (data (sh g)) (iters l), sh g)).
    { unfold tstep. rewrite Hpc. reflexivity. }
    destruct (exec_run_frame g h 0%nat _ _ _ Hat S1) as (E1 & A1 & F1).
    set (g1 := exec tid_of step g (Run h 0)) in *.
    assert (HI1 : Inv g1) by (apply Inv_exec; auto).
    assert (S2 : tstep h 0 (L PCrit1 (wait l) (data (sh g)) (iters l)) (sh g1)
                 = Some (set_pc (L PCrit1 (wait l) (data (sh g)) (iters l)) PUnlock,
                         S (key (sh g1)) (data (sh g) + 1) (waitset (sh g1)))).
    { unfold tstep. cbn [lpc tmp]. reflexivity. }
    destruct (exec_run_frame g1 h 0%nat _ _ _ A1 S2) as (E2 & A2 & F2).
    set (g2 := exec tid_of step g1 (Run h 0)) in *.
    assert (HI2 : Inv g2) by (apply Inv_exec; auto).
    assert (K2 : key (sh g2) = key (sh g) /\ waitset (sh g2) = waitset (sh g)).
    { rewrite E2. cbn [key waitset]. rewrite E1. auto. }
    destruct K2 as [K2 W2].
    destruct (Hunlock g2 _ HI2 A2 eq_refl ltac:(congruence)) as (R1 & R2 & R3 & R4 & R5).
    change (mrun (solo h 3) g) with (mrun (solo h 1) g2).
    cbv zeta. rewrite R1, R2, W2.
    split; [reflexivity|]. split; [reflexivity|]. split.
    { eapply same_others_trans; [exact F1|]. eapply same_others_trans; [exact F2|exact R3]. }
    split; [intros E; apply R4; congruence|].
    intros lh Hlh. rewrite <- K2. apply R5; auto.
  - (* PCrit1 *)
    exists 2%nat. split; [lia|]. split; [exists l; rewrite Hpc; auto|].
    assert (S2 : tstep h 0 l (sh g) = Some (set_pc l PUnlock, S (key (sh g)) (tmp l + 1) (waitset (sh g)))).
    { unfold tstep. rewrite Hpc. reflexivity. }
    destruct (exec_run_frame g h 0%nat _ _ _ Hat S2) as (E2 & A2 & F2).
    set (g2 := exec tid_of step g (Run h 0)) in *.
    assert (HI2 : Inv g2) by (apply Inv_exec; auto).
    assert (K2 : key (sh g2) = key (sh g) /\ waitset (sh g2) = waitset (sh g)).
    { rewrite E2. cbn [key waitset]. auto. }
    destruct K2 as [K2 W2].
    destruct (Hunlock g2 _ HI2 A2 eq_refl ltac:(congruence)) as (R1 & R2 & R3 & R4 & R5).
    change (mrun (solo h 2) g) with (mrun (solo h 1) g2).
    cbv zeta. rewrite R1, R2, W2.
    split; [reflexivity|]. split; [reflexivity|]. split.
    { eapply same_others_trans; [exact F2|exact R3]. }
    split; [intros E; apply R4; congruence|].
    intros lh Hlh. rewrite <- K2. apply R5; auto.
  - (* PUnlock *)
    exists 1%nat. split; [lia|]. split; [exists l; rewrite Hpc; auto|]. apply (Hunlock g l HI Hat Hpc Hk).
Qed.

Definition rank (p : pc) : nat :=
  match p with
  | PLockCas | PSpinCas _ | PSwap => 1
  | PSpinLoad _ => 2
  | PYield _ | PFutexWait | PSleeping => 3
  | _ => 0
  end.

Lemma solo_step_free2 (g : mstate) t l :
  Inv g -> at_ g t l -> key (sh g) = 0 -> lockingb (lpc l) = true -> asleepb t l (sh g) = false ->
  exists l' s', tstep t 0 l (sh g) = Some (l', s') /\ waitset s' = waitset (sh g)
    /\ ((holdingb (lpc l') = true /\ (carrierb t l (sh g) = true -> key s' = 2))
        \/ (key s' = 0 /\ lockingb (lpc l') = true /\ asleepb t l' s' = false
            /\ (carrierb t l (sh g) = true -> carrierb t l' s' = true)
            /\ (rank (lpc l') < rank (lpc l))%nat)).
Proof.
  intros HI Hat Hk Hl Ha. unfold asleepb in Ha.
  pose proof (inv_wait2 _ _ HI _ _ Hat) as Hw2.
  unfold tstep, carrierb.
  change mutex_unlocked with 0%N. change mutex_sleeping with 2%N. change mutex_locked with 1%N.
  destruct (lpc l) eqn:Hpc; try discriminate; rewrite ?Hk; cbn [N.eqb].
  - eexists _, _. split; [reflexivity|]. split; [reflexivity|]. left. split; auto. discriminate.
  - eexists _, _. split; [reflexivity|]. split; [reflexivity|]. right. cbn. rewrite Hk. repeat split; auto; lia.
  - eexists _, _. split; [reflexivity|]. split; [reflexivity|]. left. split; auto.
    cbn. intros E. apply N.eqb_eq in E. auto.
  - eexists _, _. split; [reflexivity|]. split; [reflexivity|]. right. cbn. rewrite Hk. repeat split; auto; lia.
  - eexists _, _. split; [reflexivity|]. split; [reflexivity|]. left. split; auto.
  - change (0 =? 2) with false. cbv iota.
    eexists _, _. split; [reflexivity|]. split; [reflexivity|]. right. rewrite spin_at_0. cbn. rewrite Hk.
    rewrite Hw2 by auto. repeat split; auto; lia.
  - rewrite Ha.
    eexists _, _. split; [reflexivity|]. split; [reflexivity|]. right. rewrite spin_at_0. cbn. rewrite Hk.
    rewrite Hw2 by auto. repeat split; auto; lia.
Qed.

(** H2: with the lock free, an awake waiter acquires by running alone. *)
Lemma solo_acquire : forall (r : nat) (g : mstate) t l,
  (rank (lpc l) <= r)%nat ->
  Inv g -> at_ g t l -> key (sh g) = 0 -> lockingb (lpc l) = true -> asleepb t l (sh g) = false ->
  exists k l', let g' := mrun (solo t k) g in
    at_ g' t l' /\ holdingb (lpc l') = true /\ waitset (sh g') = waitset (sh g)
    /\ same_others g g' t /\ (carrierb t l (sh g) = true -> key (sh g') = 2).
Proof.
  induction r as [|r IH]; intros g t l Hr HI Hat Hk Hl Ha.
  { exfalso. destruct (lpc l); cbn in Hr, Hl; try discriminate; lia. }
  destruct (solo_step_free2 g t l HI Hat Hk Hl Ha) as (l1 & s1 & Hst & Hws & Hcase).
  destruct (exec_run_frame g t 0%nat l l1 s1 Hat Hst) as (E1 & A1 & F1).
  set (g1 := exec tid_of step g (Run t 0)) in *.
  destruct Hcase as [[Hh Hc]|(Hk1 & Hl1 & Ha1 & Hc1 & Hrk)].
  - exists 1%nat, l1. cbn [solo repeat]. rewrite mrun_one. fold g1. rewrite E1. auto.
  - assert (HI1 : Inv g1) by (apply Inv_exec; auto).
    destruct (IH g1 t l1) as (k & l2 & A2 & Hh2 & W2 & F2 & C2); auto; try lia; try (rewrite E1; auto).
    exists (Datatypes.S k), l2. change (mrun (solo t (Datatypes.S k)) g) with (mrun (solo t k) g1).
    cbv zeta in *. split; auto. split; auto. split; [rewrite W2, E1; auto|]. split.
    + eapply same_others_trans; eauto.
    + intros C. apply C2. rewrite E1. auto.
Qed.

(** H3: a pending [futex_wake] can wake any given sleeper. *)
Lemma index_of t w : In t w -> exists c, (c < length w)%nat /\ nth c w O = t.
Proof. intros H. destruct (In_nth _ _ O H) as (c & Hc & E). eauto. Qed.

Lemma wake_target (g : mstate) w lw t :
  Inv g -> at_ g w lw -> lpc lw = PWake -> In t (waitset (sh g)) ->
  exists c, let g' := exec tid_of step g (Run w c) in
    key (sh g') = key (sh g) /\ ~ In t (waitset (sh g')) /\ same_others g g' w
    /\ (forall x, In x (waitset (sh g')) -> In x (waitset (sh g))).
Proof.
  intros HI Hat Hpc Hin. destruct (index_of _ _ Hin) as (c & Hc & E). exists c.
  assert (Hst : tstep w c lw (sh g) = Some (next_iter lw, set_ws (sh g) (wake_one c (waitset (sh g))))).
  { unfold tstep. rewrite Hpc. reflexivity. }
  destruct (exec_run_frame g w c lw _ _ Hat Hst) as (E1 & A1 & F1).
  cbv zeta. rewrite E1. cbn [key set_ws waitset]. split; auto. split; [|split; auto].
  - unfold wake_one. destruct (waitset (sh g)) eqn:Ew; [destruct Hin|]. rewrite <- Ew in *.
    rewrite Nat.mod_small by auto. rewrite E. intros H. apply remove_tid_In in H. tauto.
  - intros x. apply wake_one_In.
Qed.

Lemma pc_eq_PWake p : p = PWake \/ p <> PWake.
Proof. destruct p; auto; right; discriminate. Qed.

Lemma carrier_locking t l s :
  carrierb t l s = true -> lpc l <> PWake -> lockingb (lpc l) = true /\ asleepb t l s = false.
Proof.
  unfold carrierb, asleepb. destruct (lpc l); intros H Hn; try discriminate; try congruence; auto.
  split; auto. apply Bool.negb_true_iff in H. auto.
Qed.

Lemma holding_not_locking p : holdingb p = true -> lockingb p = true -> False.
Proof. destruct p; cbn; discriminate. Qed.

(** W1: if the word is SLEEPING, the holder's release can wake any given sleeper. *)
Lemma wake_from_sleeping_word g t l :
  Inv g -> at_ g t l -> asleepb t l (sh g) = true -> key (sh g) = 2 ->
  exists sched', no_spur sched' /\
    let g' := mrun sched' g in at_ g' t l /\ asleepb t l (sh g') = false /\ key (sh g') = 0.
Proof.
  intros HI Hat Ha Hk.
  assert (Hpc : lpc l = PSleeping /\ In t (waitset (sh g))).
  { unfold asleepb in Ha. destruct (lpc l); try discriminate. split; auto. apply memb_In; auto. }
  destruct Hpc as [Hpc Hin].
  destruct (holder_releases g HI ltac:(lia)) as (h & k & _ & (l0 & Hat0 & Hh0) & R).
  cbv zeta in R. destruct R as (K1 & W1 & F1 & P1 & _).
  set (g1 := mrun (solo h k) g) in *.
  assert (Hne : t <> h).
  { intros ->. pose proof (at_fun _ _ _ _ Hat Hat0). subst l0. rewrite Hpc in Hh0. discriminate. }
  destruct (P1 Hk) as (lh & Ath & Hpw).
  assert (HI1 : Inv g1) by (apply Inv_mrun; auto).
  destruct (wake_target g1 h lh t HI1 Ath Hpw ltac:(rewrite W1; auto)) as (c & R2).
  cbv zeta in R2. destruct R2 as (K2 & N2 & F2 & _).
  exists (solo h k ++ [Run h c]). split.
  { apply no_spur_app; [apply no_spur_solo|apply no_spur_one]. }
  cbv zeta. rewrite mrun_app. fold g1. rewrite mrun_one. split.
  - apply F2; auto. apply F1; auto.
  - split; [|congruence]. unfold asleepb. rewrite Hpc. apply memb_false. auto.
Qed.

(** W2/W3: otherwise a carrier exists; it can be run until the word is SLEEPING. *)
Lemma wake_possible g t l :
  Inv g -> at_ g t l -> asleepb t l (sh g) = true ->
  exists sched', no_spur sched' /\
    let g' := mrun sched' g in at_ g' t l /\ asleepb t l (sh g') = false.
Proof.
  intros HI Hat Ha.
  assert (Hpc : lpc l = PSleeping /\ In t (waitset (sh g))).
  { unfold asleepb in Ha. destruct (lpc l); try discriminate. split; auto. apply memb_In; auto. }
  destruct Hpc as [Hpc Hin].
  assert (Hne : waitset (sh g) <> []) by (intros E; rewrite E in Hin; destruct Hin).
  destruct (inv_nlw _ _ HI Hne) as [Hk|(u & lu & Atu & Hc)].
  { destruct (wake_from_sleeping_word g t l HI Hat Ha Hk) as (s' & Hns & A & B & _). exists s'. auto. }
  destruct (N.eq_dec (key (sh g)) 2) as [Hk2|Hk2].
  { destruct (wake_from_sleeping_word g t l HI Hat Ha Hk2) as (s' & Hns & A & B & _). exists s'. auto. }
  assert (Hut : u <> t).
  { intros ->. pose proof (at_fun _ _ _ _ Hat Atu). subst lu. unfold carrierb in Hc. rewrite Hpc in Hc.
    apply Bool.negb_true_iff in Hc. apply memb_false in Hc. auto. }
  destruct (pc_eq_PWake (lpc lu)) as [Hw|Hw].
  { (* a wake-up is pending: aim it at t *)
    destruct (wake_target g u lu t HI Atu Hw Hin) as (c & R). cbv zeta in R. destruct R as (_ & N & F & _).
    exists [Run u c]. split; [apply no_spur_one|]. cbv zeta. rewrite mrun_one. split.
    - apply F; auto.
    - unfold asleepb. rewrite Hpc. apply memb_false; auto. }
  (* u is awake inside sys_lock and will write SLEEPING when it acquires *)
  destruct (carrier_locking _ _ _ Hc Hw) as [Hlu Hau].
  (* first make the word 0 *)
  assert (Hfree : exists s0, no_spur s0 /\ let g0 := mrun s0 g in
            key (sh g0) = 0 /\ waitset (sh g0) = waitset (sh g) /\ at_ g0 t l /\ at_ g0 u lu).
  { destruct (N.eq_dec (key (sh g)) 0) as [Hk0|Hk0].
    - exists []. split; [constructor|]. cbv zeta. auto.
    - destruct (holder_releases g HI Hk0) as (h & k & _ & (l0 & Hat0 & Hh0) & R).
      cbv zeta in R. destruct R as (K1 & W1 & F1 & _).
      exists (solo h k). split; [apply no_spur_solo|]. cbv zeta. split; auto. split; auto. split.
      + apply F1; auto. intros ->. pose proof (at_fun _ _ _ _ Hat Hat0). subst l0. rewrite Hpc in Hh0. discriminate.
      + apply F1; auto. intros ->. pose proof (at_fun _ _ _ _ Atu Hat0). subst l0.
        eapply holding_not_locking; eauto. }
  destruct Hfree as (s0 & Hns0 & R0). cbv zeta in R0. destruct R0 as (K0 & W0 & At0 & Au0).
  set (g0 := mrun s0 g) in *.
  assert (HI0 : Inv g0) by (apply Inv_mrun; auto).
  assert (Hc0 : carrierb u lu (sh g0) = true) by (rewrite (carrierb_ws _ _ _ _ W0); auto).
  assert (Hau0 : asleepb u lu (sh g0) = false) by (unfold asleepb in *; rewrite W0; auto).
  destruct (solo_acquire 3 g0 u lu) as (k & lu' & R1); auto.
  { destruct (lpc lu); cbn; lia. }
  cbv zeta in R1. destruct R1 as (Au1 & Hh1 & W1 & F1 & C1).
  set (g1 := mrun (solo u k) g0) in *.
  assert (HI1 : Inv g1) by (apply Inv_mrun; auto).
  assert (At1 : at_ g1 t l) by (apply F1; auto).
  assert (Ha1 : asleepb t l (sh g1) = true) by (unfold asleepb in *; rewrite W1, W0; auto).
  destruct (wake_from_sleeping_word g1 t l HI1 At1 Ha1 (C1 Hc0)) as (s2 & Hns2 & A2 & B2 & _).
  exists (s0 ++ solo u k ++ s2). split.
  { apply no_spur_app; auto. apply no_spur_app; auto. apply no_spur_solo. }
  cbv zeta. rewrite !mrun_app. fold g0. fold g1. auto.
Qed.

(** From every state of the invariant (hence from every reachable state), a
    thread that is inside [sys_lock] — spinning, about to sleep, or asleep —
    has a continuation without spurious wake-ups in which it acquires. *)
Lemma acquire_possible_inv g t l :
  Inv g -> at_ g t l -> lockingb (lpc l) = true ->
  exists sched', no_spur sched' /\ exists l', at_ (mrun sched' g) t l' /\ holdingb (lpc l') = true.
Proof.
  intros HI Hat Hl.
  (* wake t up if it sleeps *)
  assert (Hawake : exists s1, no_spur s1 /\ let g1 := mrun s1 g in at_ g1 t l /\ asleepb t l (sh g1) = false).
  { destruct (asleepb t l (sh g)) eqn:Ha.
    - apply wake_possible; auto.
    - exists []. split; [constructor|]. cbv zeta. auto. }
  destruct Hawake as (s1 & Hns1 & R1). cbv zeta in R1. destruct R1 as (At1 & Ha1).
  set (g1 := mrun s1 g) in *.
  assert (HI1 : Inv g1) by (apply Inv_mrun; auto).
  (* free the lock *)
  assert (Hfree : exists s2, no_spur s2 /\ let g2 := mrun s2 g1 in
            key (sh g2) = 0 /\ at_ g2 t l /\ asleepb t l (sh g2) = false).
  { destruct (N.eq_dec (key (sh g1)) 0) as [Hk0|Hk0].
    - exists []. split; [constructor|]. cbv zeta. auto.
    - destruct (holder_releases g1 HI1 Hk0) as (h & k & _ & (l0 & Hat0 & Hh0) & R).
      cbv zeta in R. destruct R as (K & W & F & _).
      exists (solo h k). split; [apply no_spur_solo|]. cbv zeta. split; auto. split.
      + apply F; auto. intros ->. pose proof (at_fun _ _ _ _ At1 Hat0). subst l0.
        eapply holding_not_locking; eauto.
      + unfold asleepb in *. rewrite W. auto. }
  destruct Hfree as (s2 & Hns2 & R2). cbv zeta in R2. destruct R2 as (K2 & At2 & Ha2).
  set (g2 := mrun s2 g1) in *.
  assert (HI2 : Inv g2) by (apply Inv_mrun; auto).
  destruct (solo_acquire 3 g2 t l) as (k & l' & R3); auto.
  { destruct (lpc l); cbn; lia. }
  cbv zeta in R3. destruct R3 as (At3 & Hh3 & _).
  exists (s1 ++ s2 ++ solo t k). split.
  { apply no_spur_app; auto. apply no_spur_app; auto. apply no_spur_solo. }
  exists l'. rewrite !mrun_app. fold g1. fold g2. auto.
Qed.

Definition acquire_possible_stmt : Prop :=
  forall (ns : list nat) (sched : list event) (t : nat) (l : local),
  let g := mrun sched (init ns) in
  at_ g t l -> lockingb (lpc l) = true ->
  exists sched', no_spur sched' /\ exists l', at_ (mrun sched' g) t l' /\ holdingb (lpc l') = true.
Lemma acquire_possible_proof : acquire_possible_stmt.
Proof. intros ns sched t l g. apply acquire_possible_inv. apply Inv_run. Qed.
