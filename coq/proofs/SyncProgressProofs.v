(** Frontier progress: when the result of [find_needed_segments] is not
    truncated (fewer than SEGMENT_BUFFER_MAX entries), a responder with a head
    the requester's sample does not cover delivers a command that lies outside
    the closure of what the requester advertised.  The traversal lemmas of
    SyncCoverProofs are replayed for a generic "collected" witness. *)
From Aranya Require Import base.Tactics gen.GenQueue gen.GenSync model.Dag model.TravQueue model.Wire model.SyncStore model.SyncResp
  proofs.TravQueueVec proofs.TravQueueMoves proofs.TravQueueSpec proofs.TravQueueProofs
  proofs.SyncStoreProofs proofs.SyncQueueFacts proofs.SyncRespProofs proofs.SyncCoverProofs.
From Coq Require Import Sorted.
Local Open Scope N_scope.

Section Generic.
Variable dbg : bool.
Variable st : store.
Hypothesis W : wf_store st.
Variable haves : list loc.
Hypothesis Hhaves : Forall (valid_loc st) haves.

Notation Cov := (Cov st haves).
Notation cinv := (cinv st haves).
Notation tip := (tip st).
Notation cov_down := (cov_down st haves).
Notation same_seg_anc := (same_seg_anc st W).
Notation tip_anc := (tip_anc st W).
Notation tip_same := (tip_same st).
Notation push_all_cover := (push_all_cover dbg st W haves).
Notation pending_push := (pending_push st haves).
Notation scan_have_in := (scan_have_in haves).
Notation lift_q_inv := (@lift_q_inv dbg _).

(** what is known about [collected] *)
Variable Wc : list loc -> Prop.
Hypothesis HW_keep : forall v ls v', push_bounded_all v ls = ROk v' -> (length v <= cap_segs)%nat -> Wc v -> Wc v'.
Hypothesis HW_new : forall v ls v' y, push_bounded_all v ls = ROk v' -> (length v <= cap_segs)%nat ->
  In y ls -> ~ Cov (tip y) -> Wc v'.

Definition will_sendW (s : fstate) : Prop :=
  (exists y, qin (f_pending s) y false /\ ~ Cov (tip y)) \/ Wc (f_collected s).
Definition witW (s : fstate) : Prop := (exists e, qin (f_heads s) e false /\ ~ Cov e) \/ will_sendW s.

Lemma body_coverW s head covered c :
  cinv s -> valid_loc st head -> (covered = true -> Cov head) ->
  fns_body dbg st haves s head covered = ROk c ->
  cinv (ctl_state c) /\ ((witW s \/ (covered = false /\ ~ Cov head)) -> witW (ctl_state c)) /\
  (forall s2, c = Break s2 -> early_stop (f_heads s2) = true).
Proof.
  intros [Hhr Hpr Hhu Hpu Hhv Hpv Hhc Hpc Hcl] Hvh Hcov Hb. unfold fns_body in Hb.
  apply rbind_ok in Hb as (s1 & E1 & Hb).
  (* the flush *)
  assert (Hs1 : cinv s1 /\ f_heads s1 = f_heads s /\ (will_sendW s -> will_sendW s1)).
  { destruct (opt_N_eqb (f_prev s) (lmc head)).
    - inv E1. split; [constructor; auto|auto].
    - apply rbind_ok in E1 as ([p' ls] & Ed & E1). apply lift_q_inv in Ed.
      apply rbind_ok in E1 as (c' & Ec & E1). inv E1.
      destruct (q_drain_above (f_pending s) (lmc head) Hpr) as (p2 & ls2 & E2 & Hr2 & Hin2 & Hls2 & Hu2). rewrite Ed in E2. inv E2.
      destruct (push_bounded_all_ne _ _ _ Ec Hcl) as [Hcl' _].
      split; [|split; [reflexivity|]].
      + constructor; cbn; auto.
        * intros e b Hq. apply Hin2 in Hq as [Hq _]. eauto.
        * intros y Hq. apply Hin2 in Hq as [Hq _]. eauto.
      + intros [(y & Hy & Hn)|Hne0]; unfold will_sendW; cbn.
        * destruct (N.le_gt_cases (lmc y) (lmc head)).
          -- left. exists y. split; auto. apply Hin2. auto.
          -- right. eapply (HW_new _ _ _ y); eauto. apply Hls2. auto.
        * right. eapply HW_keep; eauto. }
  destruct Hs1 as ([Hhr1 Hpr1 Hhu1 Hpu1 Hhv1 Hpv1 Hhc1 Hpc1 Hcl1] & Eh & Hws).
  apply rbind_ok in Hb as (sg & Hsg & Hb).
  pose proof (get_segment_in _ _ _ Hsg) as [Hin Hidx].
  assert (Hfs : find_seg (st_segs st) (lseg head) = Some sg) by now apply get_segment_ok.
  assert (Hr : in_range sg (lmc head)).
  { destruct Hvh as (sg' & Hf' & Hr'). rewrite Hfs in Hf'. inv Hf'. exact Hr'. }
  assert (Hlg : seg_longest sg <= u64_max) by (pose proof (wf_bound _ W sg Hin); lia).
  assert (Htip : tip head = L (seg_longest sg) (lseg head)) by (unfold tip; now rewrite Hfs).
  assert (Hpv_pri : forall p, In p (prior_list (g_prior sg)) -> valid_loc st p).
  { intros p Hp. now destruct (wf_prior _ W sg p Hin Hp). }
  assert (Hw1 : (exists e, qin (f_heads s) e false /\ ~ Cov e) -> exists e, qin (f_heads s1) e false /\ ~ Cov e) by (rewrite Eh; auto).
  destruct covered.
  - (* covered *)
    specialize (Hcov eq_refl).
    apply rbind_ok in Hb as (p' & Ep & Hb). apply lift_q_inv in Ep.
    apply rbind_ok in Hb as (h' & Eh' & Hb).
    destruct (q_cover (f_pending s1) (lseg head) (lmc head) (seg_longest sg) Hpr1 Hlg) as (p2 & E2 & Hrp & Hinp & Hoth & Habove & Hraise & Hup).
    rewrite Ep in E2. inv E2.
    assert (Hfull : seg_longest sg <= lmc head -> Cov (tip head)).
    { intro Hle. rewrite Htip. replace (seg_longest sg) with (lmc head) by (unfold in_range in Hr; lia). now rewrite loc_eta. }
    destruct (push_all_cover _ true _ _ Eh' Hhr1 Hhu1 Hhv1) as (R1 & R2 & R3 & R4 & R5); auto.
    { intros p Hp. split; auto. intros _. eapply cov_down; [exact Hcov|].
      rewrite <- (loc_eta head), <- Hidx. apply prior_anc; auto. }
    set (s2 := {| f_heads := h'; f_pending := p2; f_collected := f_collected s1; f_prev := f_prev s1; f_cursor := f_cursor s1 |}).
    assert (Hinv : cinv s2).
    { constructor; cbn; auto.
      - intros e b Hq. destruct (Hinp e b Hq) as [H|[(_ & _ & H & _)|(_ & e0 & H0 & Hs0 & Hle & Hltc & ->)]]; eauto.
        exists sg. cbn. rewrite Hs0. split; auto. pose proof (Hpv1 e0 false H0) as (sg0 & Hf0 & Hr0).
        rewrite Hs0, Hfs in Hf0. inv Hf0. unfold in_range in *. lia.
      - intros y Hq. destruct (Hinp y true Hq) as [H|[(_ & Hs0 & H & Hle)|(Hf & _)]]; auto; [|discriminate].
        rewrite (tip_same y head Hs0). auto. }
    assert (Hwit : witW s \/ true = false /\ ~ Cov head -> witW s2).
    { intros [[Hw|Hw]|[Ef _]]; [| |discriminate].
      - left. cbn. apply R5. auto.
      - right. destruct (Hws Hw) as [(y & Hy & Hn)|Hne]; [|right; exact Hne].
        left. cbn. destruct (N.eq_dec (lseg y) (lseg head)) as [Hs|Hs]; [|exists y; split; auto].
        destruct (N.le_gt_cases (seg_longest sg) (lmc head)) as [Hle|Hgt].
        + exfalso. apply Hn. rewrite (tip_same y head Hs). auto.
        + destruct (N.le_gt_cases (lmc y) (lmc head)).
          * exists (with_mc y (lmc head + 1)). split; [apply Hraise; auto|].
            rewrite (tip_same _ y); auto.
          * exists y. split; auto. }
    destruct (early_stop h') eqn:Ees; inv Hb; cbn [ctl_state SyncRespProofs.ctl_state]; (split; [exact Hinv|split; [exact Hwit|]]).
    + intros s3 E3. inv E3. exact Ees.
    + intros s3 E3. discriminate.
  - (* uncovered *)
    apply rbind_ok in Hb as (best & Eb & Hb).
    apply rbind_ok in Hb as (s2 & E2 & Hb).
    assert (Hfin : cinv s2 /\ (witW s \/ false = false /\ ~ Cov head -> witW s2)).
    { destruct best as [hloc|].
      - apply scan_have_in in Eb as (Hinh & Hsegh & Hsh).
        assert (Hvl : valid_loc st hloc) by (eapply Forall_forall in Hhaves; eauto).
        assert (Hrl : in_range sg (lmc hloc)).
        { destruct Hvl as (sg' & Hf' & Hr'). rewrite Hsegh, Hfs in Hf'. inv Hf'. exact Hr'. }
        assert (Hch : Cov hloc) by (exists hloc; split; [auto|apply la_refl]).
        apply rbind_ok in E2 as (h' & Eh' & E2). apply rbind_ok in E2 as (p' & Ep & E2). inv E2.
        destruct (push_all_cover _ true _ _ Eh' Hhr1 Hhu1 Hhv1) as (R1 & R2 & R3 & R4 & R5); auto.
        { intros p Hp. split; auto. intros _. eapply cov_down; [exact Hch|].
          rewrite <- (loc_eta hloc), Hsegh, <- Hidx. apply prior_anc; auto. }
        assert (Hp : rep_ok p' /\ quniq p' /\ (forall e b, qin p' e b -> valid_loc st e) /\ (forall y, qin p' y true -> Cov (tip y)) /\
                     ((exists y, qin (f_pending s1) y false /\ ~ Cov (tip y)) -> exists y, qin p' y false /\ ~ Cov (tip y)) /\
                     (~ Cov head -> exists y, qin p' y false /\ ~ Cov (tip y))).
        { destruct (N.ltb_spec (lmc hloc) (seg_longest sg)).
          - destruct (N.ltb_spec (lmc hloc) u64_max); [|destruct dbg; discriminate].
            apply lift_q_inv in Ep.
            assert (Hvn : valid_loc st (L (lmc hloc + 1) (lseg head))).
            { exists sg. cbn. split; auto. unfold in_range in *. lia. }
            destruct (pending_push _ _ _ Ep Hpr1 Hpu1 Hvn Hpv1 Hpc1) as (Q1 & Q2 & Q3 & Q4 & Q5 & Q6).
            repeat split; auto. intro Hn. apply Q6. rewrite (tip_same _ head) by reflexivity.
            intro Hc. apply Hn. eapply cov_down; [exact Hc|]. now apply tip_anc.
          - inv Ep. repeat split; auto. intro Hn. exfalso. apply Hn. eapply cov_down; [exact Hch|].
            apply same_seg_anc; auto. unfold in_range in *. lia. }
        destruct Hp as (Q1 & Q2 & Q3 & Q4 & Q5 & Q6).
        split; [constructor; cbn; auto|].
        intros [[Hw|Hw]|[_ Hn]].
        + left. cbn. apply R5. auto.
        + right. destruct (Hws Hw) as [Hy|Hne]; [left; cbn; auto|right; exact Hne].
        + right. left. cbn. auto.
      - apply rbind_ok in E2 as (p' & Ep & E2). apply lift_q_inv in Ep. apply rbind_ok in E2 as (h' & Eh' & E2). inv E2.
        destruct (pending_push _ _ _ Ep Hpr1 Hpu1 (valid_first _ _ W Hin) Hpv1 Hpc1) as (Q1 & Q2 & Q3 & Q4 & Q5 & Q6).
        destruct (push_all_cover _ false _ _ Eh' Hhr1 Hhu1 Hhv1) as (R1 & R2 & R3 & R4 & R5); auto.
        { intros p Hp. split; auto. discriminate. }
        split; [constructor; cbn; auto|].
        intros [[Hw|Hw]|[_ Hn]].
        + left. cbn. apply R5. auto.
        + right. destruct (Hws Hw) as [Hy|Hne]; [left; cbn; auto|right; exact Hne].
        + right. left. cbn. apply Q6. rewrite (tip_same (seg_first_loc sg) head) by (cbn; auto).
          intro Hc. apply Hn. eapply cov_down; [exact Hc|]. now apply tip_anc. }
    destruct Hfin as [Hinv Hwit].
    destruct (early_stop (f_heads s2)) eqn:Ees; inv Hb; cbn [ctl_state SyncRespProofs.ctl_state]; (split; [exact Hinv|split; [exact Hwit|]]).
    + intros s3 E3. inv E3. exact Ees.
    + intros s3 E3. discriminate.
Qed.

Lemma loop_coverW : forall fuel s s',
  fns_loop fuel dbg st haves s = ROk s' -> cinv s -> cinv s' /\ (witW s -> will_sendW s').
Proof.
  induction fuel as [|f IH]; intros s s' E Hinv; cbn [fns_loop] in E; [discriminate|].
  pose proof Hinv as [Hhr Hpr Hhu Hpu Hhv Hpv Hhc Hpc Hcl].
  apply rbind_ok in E as ([h' r] & Ep & E). apply lift_q_inv in Ep.
  destruct (q_pop (f_heads s) Hhr) as (h2 & r2 & E2 & Hr' & Hspec & Hu'). rewrite Ep in E2. inv E2.
  destruct r2 as [[head covered]|].
  - destruct Hspec as (Hin & Hmax & Hsub & Hoth & Hdiff).
    apply rbind_ok in E as (c & Ec & E).
    set (s0 := {| f_heads := h2; f_pending := f_pending s; f_collected := f_collected s; f_prev := f_prev s; f_cursor := f_cursor s |}) in *.
    assert (Hinv0 : cinv s0) by (constructor; cbn; eauto).
    assert (Hvh : valid_loc st head) by eauto.
    assert (Hcv : covered = true -> Cov head) by (intros ->; auto).
    destruct (body_coverW s0 head covered c Hinv0 Hvh Hcv Ec) as (Hic & Hwc & Hbr).
    assert (Hw0 : witW s -> witW s0 \/ covered = false /\ ~ Cov head).
    { intros [(e & He & Hn)|Hw]; [|left; right; exact Hw].
      destruct (N.eq_dec (lseg e) (lseg head)) as [Hs|Hs]; [|left; left; exists e; split; auto; cbn; eapply Hoth; eauto].
      (* same segment as the popped entry: it is the popped entry *)
      assert (e = head /\ covered = false) as [-> ->].
      { unfold quniq, uniq_ms, qin in *. clear - Hhu He Hin Hs.
        induction (absq (f_heads s)) as [|[x bx] m IHm]; [destruct He|]. cbn in Hhu. apply NoDup_cons_iff in Hhu as [Hni Hnd].
        destruct He as [Ee|He'], Hin as [Eo|Ho].
        - inv Ee. inv Eo. auto.
        - inv Ee. exfalso. apply Hni. rewrite Hs. apply in_map_iff. exists (head, covered). auto.
        - inv Eo. exfalso. apply Hni. rewrite <- Hs. apply in_map_iff. exists (e, false). auto.
        - auto. }
      right. auto. }
    destruct c as [s1|s1]; cbn [ctl_state SyncRespProofs.ctl_state] in *.
    + destruct (IH s1 s' E Hic) as [Hi' Hw']. split; auto.
    + inv E. split; auto. intro Hw. destruct (Hwc (Hw0 Hw)) as [(e & He & Hn)|Hws]; auto.
      exfalso. specialize (Hbr _ eq_refl). unfold early_stop in Hbr. apply andb_true_iff in Hbr as [Hall _].
      pose proof (proj1 (q_all_covered _ (ci_hr _ _ _ Hic)) Hall e false He). discriminate.
  - inv E. destruct Hspec as [Hn1 Hn2]. split.
    + constructor; cbn; auto.
      * intros e b Hq. exfalso. eapply Hn2; eauto.
      * intros e Hq. exfalso. eapply Hn2; eauto.
    + intros [(e & He & _)|Hw]; [exfalso; eapply Hn1; eauto|exact Hw].
Qed.
End Generic.

(** * The instance: an uncovered-tip entry is in [collected], or [collected] is full *)
Lemma push_bounded_keep v l v' : push_bounded v l = ROk v' -> (length v <= cap_segs)%nat ->
  (length v' <= cap_segs)%nat /\ (forall x, In x v \/ x = l -> In x v' \/ length v' = cap_segs) /\
  (length v = cap_segs -> length v' = cap_segs).
Proof.
  intros E Hle. unfold push_bounded in E. destruct (Nat.ltb_spec (length v) cap_segs).
  - inv E. rewrite app_length. cbn [length]. split; [lia|]. split; [|lia].
    intros x [Hx| ->]; left; apply in_or_app; [now left|right; now left].
  - destruct (argmax_mc v) as [[i m]|]; [|discriminate]. destruct (nth_error v i); [|discriminate].
    destruct (_ <? _); inv E; rewrite ?set_at_length; (split; [lia|split; [intros; right; lia|lia]]).
Qed.

Lemma push_bounded_all_keep ls : forall v v', push_bounded_all v ls = ROk v' -> (length v <= cap_segs)%nat ->
  (forall x, In x v \/ In x ls -> In x v' \/ length v' = cap_segs) /\ (length v = cap_segs -> length v' = cap_segs).
Proof.
  induction ls as [|l ls IH]; intros v v' E Hle; cbn [push_bounded_all] in E.
  - inv E. split; auto. intros x [?|[]]; auto.
  - apply rbind_ok in E as (v1 & E1 & E). destruct (push_bounded_keep v l v1 E1 Hle) as (Hle1 & K1 & F1).
    destruct (IH v1 v' E Hle1) as [K2 F2]. split; [|auto].
    intros x Hx. assert (Hx1 : (In x v \/ x = l) \/ In x ls) by (destruct Hx as [?|[->|?]]; auto).
    destruct Hx1 as [H|H]; [|apply K2; auto].
    destruct (K1 x H) as [H1|H1]; [apply K2; auto|right; auto].
Qed.

Section Instance.
Variable dbg : bool.
Variable st : store.
Hypothesis W : wf_store st.
Variable cmds : list addr.
Let haves := sort_desc_mc (have_locations st cmds).

Definition Wc2 (v : list loc) : Prop := (exists y, In y v /\ ~ Cov st haves (tip st y)) \/ length v = cap_segs.

Lemma Wc2_keep v ls v' : push_bounded_all v ls = ROk v' -> (length v <= cap_segs)%nat -> Wc2 v -> Wc2 v'.
Proof.
  intros E Hle [(y & Hy & Hn)|Hf]; destruct (push_bounded_all_keep ls v v' E Hle) as [K F].
  - destruct (K y (or_introl Hy)) as [H|H]; [left; exists y; auto|right; auto].
  - right. auto.
Qed.
Lemma Wc2_new v ls v' y : push_bounded_all v ls = ROk v' -> (length v <= cap_segs)%nat ->
  In y ls -> ~ Cov st haves (tip st y) -> Wc2 v'.
Proof.
  intros E Hle Hy Hn. destruct (push_bounded_all_keep ls v v' E Hle) as [K F].
  destruct (K y (or_intror Hy)) as [H|H]; [left; exists y; auto|right; auto].
Qed.

(** an untruncated session with an uncovered head delivers the tip of a segment that lies outside
    the closure of what the requester advertised *)
Theorem frontier_progress0 ts :
  find_needed_segments dbg st cmds = ROk ts -> (length ts < cap_segs)%nat ->
  (exists i h, In (i, h) (st_heads st) /\ ~ covered_by st cmds h) ->
  exists x, In x ts /\ valid_loc st x /\ ~ covered_by st cmds (tip st x).
Proof.
  intros E Hlen (i & h & Hin & Hn).
  assert (Hlen0 : (length cmds <= N.to_nat COMMAND_SAMPLE_MAX)%nat).
  { unfold find_needed_segments in E. destruct (Nat.ltb_spec (N.to_nat COMMAND_SAMPLE_MAX) (length cmds)); [destruct dbg; discriminate|auto]. }
  destruct (find_needed_ok dbg st cmds W Hlen0) as (ts' & E' & Hall & _). rewrite E in E'. inv E'.
  unfold find_needed_segments in E.
  destruct (Nat.ltb _ _); [destruct dbg; discriminate|]. fold haves in E.
  set (hi := match haves with h0 :: _ => lmc h0 | [] => 0 end) in *.
  destruct (N.ltb_spec (u64_max - SEGMENT_BUFFER_MAX) hi); [destruct dbg; discriminate|].
  apply rbind_ok in E as (heads & Eh & E). apply rbind_ok in E as (s & Es & E).
  destruct (drain_all (f_pending s)) as [q' rest] eqn:Ed. apply rbind_ok in E as (c & Ec & E). inv E.
  pose proof (haves_valid st W cmds) as Hhv. fold haves in Hhv.
  destruct qnew_ok as (Hr0 & Hu0 & Hn0).
  destruct (seed_cover dbg st W cmds (hi + SEGMENT_BUFFER_MAX)) with (hs := st_heads st) (q := qnew) (q' := heads)
    as (R1 & R2 & R3 & R4); auto.
  { unfold highest. fold haves. fold hi. rewrite SEGMENT_BUFFER_MAX_pin. lia. }
  { intros e b Hq. exfalso. eapply Hn0; eauto. }
  { intros i' h' Hi'. eapply wf_heads; eauto. }
  assert (Hw : exists e, qin heads e false /\ ~ Cov st haves e).
  { apply R4. right. exists i, h. split; auto. intro Hc. apply Hn. now apply (cov_covered st cmds). }
  destruct (loop_coverW dbg st W haves Hhv Wc2 Wc2_keep Wc2_new _ _ _ Es) as [Hinv Hsend].
  { constructor; cbn; auto; try lia;
      try (intros e b Hq; now destruct (R3 e b Hq));
      try (intros e Hq; destruct (R3 e true Hq) as [_ Hf]; discriminate);
      try (intros; exfalso; eapply Hn0; eauto). }
  assert (Hc : Wc2 c).
  { destruct (Hsend (or_introl Hw)) as [(y & Hy & Hny)|Hcw].
    - eapply (Wc2_new _ rest c y); eauto; [apply (ci_cl _ _ _ Hinv)|].
      pose proof (q_drain_all (f_pending s) (ci_pr _ _ _ Hinv) y) as Hd. rewrite Ed in Hd. cbn [snd] in Hd. now apply Hd.
    - eapply Wc2_keep; eauto. apply (ci_cl _ _ _ Hinv). }
  rewrite sort_locs_length in Hlen. destruct Hc as [(y & Hy & Hny)|Hfull]; [|lia].
  exists y. split; [now apply sort_locs_in|]. split.
  - eapply Forall_forall in Hall; [|apply sort_locs_in; exact Hy]. now destruct Hall.
  - intro Hc. apply Hny. now apply (cov_covered st cmds).
Qed.
End Instance.

Definition frontier_progress_stmt : Prop :=
  forall (dbg : bool) (st : store) (cmds : list addr) (ts : list loc),
  wf_store st -> find_needed_segments dbg st cmds = ROk ts ->
  (* the plan is not truncated by push_bounded *)
  (length ts < N.to_nat SEGMENT_BUFFER_MAX)%nat ->
  (exists i h, In (i, h) (st_heads st) /\ ~ covered_by st cmds h) ->
  (* some entry's segment ends in a command outside the closure of what the requester advertised;
     the entry is sent to the end of its segment, so that command is delivered *)
  exists x, In x ts /\ valid_loc st x /\ ~ covered_by st cmds (tip st x).
Lemma frontier_progress_proof : frontier_progress_stmt.
Proof. intros dbg st cmds ts W E Hl Hh. exact (frontier_progress0 dbg st W cmds ts E Hl Hh). Qed.
