(** Top-level statements for C11 and a concrete non-vacuity example. *)
From Aranya Require Import base.Tactics gen.GenQueue model.TravQueue model.SegStore
  proofs.TravQueueVec proofs.TravQueueMoves proofs.TravQueueSpec proofs.TravQueueProofs
  proofs.SegStoreGraph proofs.SegStoreSearch proofs.SegStoreWrite.

Lemma min_skip_gap_pin : MIN_SKIP_GAP = 10%N.
Proof. reflexivity. Qed.


(** [skip_target_boundaries] never hits its [assume] sites nor runs out of fuel. *)
Lemma size_nat_bound p : (Npos p < 2 ^ N.of_nat (Pos.size_nat p))%N.
Proof.
  induction p as [p IH|p IH|]; cbn [Pos.size_nat].
  - rewrite Nat2N.inj_succ, N.pow_succ_r'. lia.
  - rewrite Nat2N.inj_succ, N.pow_succ_r'. lia.
  - cbn. lia.
Qed.

Lemma stb_loop_total n : (n <= u64_max)%N -> forall fuel b acc,
  (b <= n)%N -> (n - b <= 2 ^ N.of_nat (pred fuel))%N -> fuel <> 0 ->
  exists l, stb_loop fuel n b acc = ROk l.
Proof.
  intro Hn. induction fuel as [|f IH]; intros b acc Hb Hgap Hf; [congruence|].
  cbn [stb_loop pred] in *. destruct (N.ltb_spec 0 b); [|eauto].
  destruct (N.ltb_spec n b); [lia|].
  rewrite min_skip_gap_pin. destruct (N.leb_spec (n - b) 10); [eauto|].
  assert (Hdiv : ((n - b) / 2 <= n - b)%N) by (apply N.div_le_upper_bound; lia).
  destruct (N.ltb_spec u64_max (b + (n - b) / 2)); [lia|].
  destruct f as [|f'].
  - cbn in Hgap. lia.
  - apply IH; try lia. cbn [pred]. rewrite Nat2N.inj_succ, N.pow_succ_r' in Hgap.
    set (P := (2 ^ N.of_nat f')%N) in *.
    pose proof (N.div_mod (n - b) 2 ltac:(lia)) as Hdm. pose proof (N.mod_upper_bound (n - b) 2 ltac:(lia)) as Hmu.
    set (q := ((n - b) / 2)%N) in *. set (r := ((n - b) mod 2)%N) in *. lia.
Qed.

Definition skip_target_boundaries_total_stmt : Prop :=
  forall n, (n <= u64_max)%N -> exists l, skip_target_boundaries n = ROk l.
Lemma skip_target_boundaries_total_proof : skip_target_boundaries_total_stmt.
Proof.
  intros n Hn. unfold skip_target_boundaries. apply stb_loop_total; auto.
  - apply N.div_le_upper_bound; lia.
  - cbn [pred]. destruct n as [|p]; [cbn; lia|]. cbn [N.size_nat].
    pose proof (size_nat_bound p). lia.
Qed.

Definition get_location_exact_stmt : Prop :=
  forall (st : store) (hs : heads) (id mc : N),
    store_ok st -> heads_ok st hs ->
    exists r, get_location st hs id mc = ROk r /\
      match r with
      | Some l => from_heads st hs l /\ holds st l id mc
      | None => forall l, from_heads st hs l -> ~ holds st l id mc
      end.
Lemma get_location_exact_proof : get_location_exact_stmt.
Proof. intros st hs id mc Hok Hh. now apply get_location_exact_here. Qed.

Definition get_location_from_exact_stmt : Prop :=
  forall (st : store) (start : loc) (id mc : N),
    store_ok st -> valid st start ->
    exists r, get_location_from st start id mc = ROk r /\
      match r with
      | Some l => reach st start l /\ holds st l id mc
      | None => forall l, reach st start l -> ~ holds st l id mc
      end.
Lemma get_location_from_exact_proof : get_location_from_exact_stmt.
Proof. intros st start id mc Hok Hv. now apply get_location_from_exact_here. Qed.

Definition is_ancestor_exact_stmt : Prop :=
  forall (st : store) (target start : loc),
    store_ok st -> valid st start ->
    exists b, is_ancestor st target start = ROk b /\
      (b = true <-> (reach st start target /\ target <> start)).
Lemma is_ancestor_exact_proof : is_ancestor_exact_stmt.
Proof. intros st target start Hok Hv. now apply is_ancestor_exact_here. Qed.

(** * Non-vacuity: a store built by [write], with a non-empty skip list *)
Definition ex_p1 : perspective := Persp PNone [1; 2; 3]%N 0 None.
Definition ex_p2 : perspective := Persp (PSingle (L 2 1)) [4; 5; 6; 7; 8; 9; 10; 11; 12; 13; 14; 15]%N 3 None.
Definition ex_p3 : perspective := Persp (PSingle (L 14 2)) [16; 17; 18; 19; 20; 21; 22; 23; 24; 25; 26]%N 15 None.
Definition ex_p4 : perspective := Persp (PSingle (L 8 2)) [27; 28]%N 9 None.
Definition ex_st3 : store :=
  [(1, Seg PNone [1; 2; 3] 0 []);
   (2, Seg (PSingle (L 2 1)) [4; 5; 6; 7; 8; 9; 10; 11; 12; 13; 14; 15] 3 []);
   (3, Seg (PSingle (L 14 2)) [16; 17; 18; 19; 20; 21; 22; 23; 24; 25; 26] 15 [L 3 2]);
   (4, Seg (PSingle (L 8 2)) [27; 28] 9 [])]%N.

Lemma store_ok_nil : store_ok [].
Proof. intros i s H. discriminate. Qed.

Example c11_example :
  (* the store is produced by four [write]s and satisfies the invariant *)
  (exists s1 s2 s3,
     write [] 1 ex_p1 = ROk s1 /\ write s1 2 ex_p2 = ROk s2 /\ write s2 3 ex_p3 = ROk s3 /\
     write s3 4 ex_p4 = ROk ex_st3)
  /\ store_ok ex_st3
  /\ heads_ok ex_st3 [(26, L 25 3)]%N
  (* found through the skip list; a command on the side branch is not in the graph of this head *)
  /\ get_location ex_st3 [(26, L 25 3)]%N 2 1 = ROk (Some (L 1 1))
  /\ get_location ex_st3 [(26, L 25 3)]%N 28 10 = ROk None
  /\ is_ancestor ex_st3 (L 5 2) (L 10 4) = ROk true
  /\ is_ancestor ex_st3 (L 9 2) (L 10 4) = ROk false.
Proof.
  assert (W1 : write [] 1 ex_p1 = ROk [(1, Seg PNone [1; 2; 3] 0 [])]%N) by (vm_compute; reflexivity).
  assert (W2 : write [(1, Seg PNone [1; 2; 3] 0 [])]%N 2 ex_p2
             = ROk (firstn 2 ex_st3)) by (vm_compute; reflexivity).
  assert (W3 : write (firstn 2 ex_st3) 3 ex_p3 = ROk (firstn 3 ex_st3)) by (vm_compute; reflexivity).
  assert (W4 : write (firstn 3 ex_st3) 4 ex_p4 = ROk ex_st3) by (vm_compute; reflexivity).
  assert (V : forall st l, (exists s, get_segment st l = Some s /\ in_seg (lseg l) s l) -> valid st l) by (intros; assumption).
  assert (O1 : store_ok [(1, Seg PNone [1; 2; 3] 0 [])]%N).
  { eapply (write_preserves_proof [] 1%N ex_p1); [apply store_ok_nil|reflexivity| |exact W1].
    split; [intros q []|exact I]. }
  assert (O2 : store_ok (firstn 2 ex_st3)).
  { eapply (write_preserves_proof _ 2%N ex_p2); [exact O1|reflexivity| |exact W2].
    split; [|exact I]. intros q [<-|[]]. split; [|cbn; lia].
    apply V. eexists. split; [reflexivity|]. unfold in_seg. cbn. lia. }
  assert (O3 : store_ok (firstn 3 ex_st3)).
  { eapply (write_preserves_proof _ 3%N ex_p3); [exact O2|reflexivity| |exact W3].
    split; [|exact I]. intros q [<-|[]]. split; [|cbn; lia].
    apply V. eexists. split; [reflexivity|]. unfold in_seg. cbn. lia. }
  assert (O4 : store_ok ex_st3).
  { eapply (write_preserves_proof _ 4%N ex_p4); [exact O3|reflexivity| |exact W4].
    split; [|exact I]. intros q [<-|[]]. split; [|cbn; lia].
    apply V. eexists. split; [reflexivity|]. unfold in_seg. cbn. lia. }
  split; [eexists _, _, _; repeat split; eauto|].
  split; [exact O4|]. split.
  { intros h [<-|[]]. apply V. eexists. split; [reflexivity|]. unfold in_seg. cbn. lia. }
  repeat split; vm_compute; reflexivity.
Qed.
