(** C25 - the VM never panics on any bytecode: proofs about [model/Vm.v].

    Main results (statements collected at the end of the file):
      [step_total]        no machine, run state satisfying the representation
                          invariant, or I/O oracle makes [step] hit a panic site,
                          in either build profile; the invariant is preserved;
      [step_total_release] with debug assertions off no hypothesis on the run
                          state is needed at all;
      [run_total], [call_*_total]  the same for [run] with any fuel and for the
                          public entry points started from [RunState::new];
      [ledger_complete]   every panic-capable site the translator finds in the
                          anchored files is accounted for by the model. *)
From Aranya Require Import base.Tactics model.VmBase gen.GenVm gen.GenVmPanics model.Vm.
Local Open Scope N_scope.


Lemma STACK_SIZE_small : STACK_SIZE < usize_max.
Proof. reflexivity. Qed.

Lemma len_cons {A} (x : A) l : len (x :: l) = len l + 1.
Proof. unfold len. cbn [List.length]. lia. Qed.
Lemma len_nil {A} : len (@nil A) = 0.
Proof. reflexivity. Qed.
Lemma len_map {A B} (f : A -> B) l : len (map f l) = len l.
Proof. unfold len. now rewrite map_length. Qed.
Lemma nth_error_len_some {A} (l : list A) (i : N) : i < len l -> exists x, nth_error l (N.to_nat i) = Some x.
Proof.
  unfold len. intros H. destruct (nth_error l (N.to_nat i)) eqn:E; eauto.
  apply nth_error_None in E. lia.
Qed.
Lemma nth_error_some_len {A} (l : list A) (i : N) x : nth_error l (N.to_nat i) = Some x -> i < len l.
Proof.
  unfold len. intros H. assert (nth_error l (N.to_nat i) <> None) as H1 by congruence.
  apply nth_error_Some in H1. lia.
Qed.

(** * The code map never panics *)

Lemma bs_loop_bound fuel : forall keys ip base size,
  1 <= size -> base + size <= len keys ->
  let r := bs_loop fuel keys ip base size in base <= r /\ r < base + size.
Proof.
  induction fuel; intros keys ip base size H1 H2; cbn [bs_loop]; [lia|].
  destruct (1 <? size) eqn:E; [|lia].
  apply N.ltb_lt in E.
  set (half := size / 2).
  assert (1 <= half /\ half < size) as [Hh1 Hh2].
  { subst half. split.
    - apply N.div_le_lower_bound; lia.
    - apply N.div_lt; lia. }
  match goal with |- context [bs_loop fuel keys ip ?b ?s] =>
    assert (base <= b /\ b + s <= base + size /\ 1 <= s) as (Hb1 & Hb2 & Hb3)
  end.
  { destruct (nth_error keys (N.to_nat (base + half))); [destruct (ip <? n)|]; lia. }
  match goal with |- context [bs_loop fuel keys ip ?b ?s] =>
    specialize (IHfuel keys ip b s Hb3 ltac:(lia))
  end.
  cbv zeta in IHfuel. lia.
Qed.

Lemma binary_search_bound keys ip :
  match binary_search keys ip with
  | ROk i => i < len keys
  | RErr i => i <= len keys
  end.
Proof.
  unfold binary_search. destruct (len keys =? 0) eqn:E; [lia|].
  apply N.eqb_neq in E.
  pose proof (bs_loop_bound (List.length keys) keys ip 0 (len keys) ltac:(lia) ltac:(lia)) as H.
  cbv zeta in H.
  destruct (nth_error keys (N.to_nat (bs_loop (List.length keys) keys ip 0 (len keys)))) eqn:E2; [|lia].
  destruct (n ?= ip); lia.
Qed.

Lemma is_char_boundary_le t i : is_char_boundary t i = true -> i <= len t.
Proof.
  unfold is_char_boundary. destruct (i =? 0) eqn:E; [apply N.eqb_eq in E; lia|].
  destruct (i ?= len t) eqn:C; try discriminate.
  - apply N.compare_eq in C. lia.
  - intros _. rewrite N.compare_lt_iff in C. lia.
Qed.

Lemma linecol_loop_val : forall bytes line col,
  line + len bytes <= usize_max -> col + len bytes <= usize_max ->
  exists r, linecol_loop bytes line col = Val r.
Proof.
  induction bytes as [|b r IH]; intros line col H1 H2; cbn [linecol_loop]; eauto.
  rewrite len_cons in *.
  destruct (is_cont_byte b); [apply IH; lia|].
  destruct (b =? 10).
  - unfold usize_checked_add. destruct (line + 1 <=? usize_max) eqn:E; [apply IH; lia|lia].
  - unfold usize_checked_add. destruct (col + 1 <=? usize_max) eqn:E; [apply IH; lia|lia].
Qed.

Definition cm_ok (m : Machine) : Prop :=
  match codemap m with Some cm => len (cm_text cm) < usize_max | None => True end.

Lemma with_position_val m e pc : cm_ok m -> exists e', with_position e pc (codemap m) = Val e'.
Proof.
  unfold cm_ok, with_position. intros H.
  destruct (err_source e); [eauto|].
  destruct (codemap m) as [cm|]; [|eauto].
  unfold span_from_instruction.
  pose proof (binary_search_bound (map fst (cm_mapping cm)) pc) as Hb.
  rewrite len_map in Hb.
  set (idx := match binary_search (map fst (cm_mapping cm)) pc with
              | ROk i => Some i | RErr i => if i =? 0 then None else Some (i - 1) end).
  assert (match idx with Some i => i < len (cm_mapping cm) | None => True end) as Hi.
  { subst idx. destruct (binary_search (map fst (cm_mapping cm)) pc); [assumption|].
    destruct (b =? 0) eqn:E; [exact Logic.I|]. apply N.eqb_neq in E. lia. }
  destruct idx as [i|]; [|eauto].
  destruct (nth_error_len_some _ _ Hi) as [[k [s en]] Hn]. rewrite Hn.
  destruct (str_range_ok (cm_text cm) s en) eqn:Hr; [|eauto].
  unfold linecol, span_as_str. rewrite Hr.
  unfold str_range_ok in Hr. apply andb_prop in Hr as [Hr He]. apply andb_prop in Hr as [Hle Hs].
  pose proof (is_char_boundary_le _ _ Hs) as Hsl.
  destruct (s <=? len (cm_text cm)) eqn:E1; [|lia]. cbn [negb].
  rewrite Hs. cbn [negb].
  destruct (linecol_loop_val (firstn (N.to_nat s) (cm_text cm)) 1 1) as [r Hr2].
  - unfold len in *. rewrite firstn_length. lia.
  - unfold len in *. rewrite firstn_length. lia.
  - rewrite Hr2. eauto.
Qed.

(** * Hoare-style reasoning about the step monad *)

Section Total.
  Context {St : Type}.
  Variable dbg : bool.
  Variable io : MachineIO St.
  Variable m : Machine.
  Hypothesis Hcm : cm_ok m.
  (** [strict]: whether the representation invariant is tracked.  It must be when debug assertions
      are on; with them off the theorems hold for arbitrary run states ([strict := false]). *)
  Variable strict : bool.
  Hypothesis Hstrict : dbg = true -> strict = true.
  (** [pcb]: whether the invariant [I] includes the bound on the pc (inside [step] it does; in the
      entry points, which set the pc from a label, it does not). *)
  Variable pcb : bool.

  Notation RS := (RunState St).
  Notation MM := (@M St).

  (** The representation invariant of a run state between steps: what [heapless::Vec<_, STACK_SIZE>]
      guarantees by construction and what [call_state] can hold (saved stack depths and saved pcs).
      It matters only when debug assertions are on, where a failed [assume] panics. *)
  Definition W (rs : RS) : Prop :=
    strict = true -> len (rs_stack rs) <= STACK_SIZE /\ Forall (fun x => x < usize_max) (rs_call_state rs).
  (** inside a step, additionally: the pc is a valid address *)
  Definition I (rs : RS) : Prop := W rs /\ (pcb = true -> strict = true -> rs_pc rs < usize_max).

  Definition good (r : StepResult St) : Prop :=
    match r with
    | Panic _ => False
    | Executing rs | Exited _ rs | Errored _ rs => W rs
    end.
  Definition ok {A} (P Q : RS -> Prop) (e : MM A) : Prop :=
    forall rs, P rs -> match e rs with Go _ rs' => Q rs' | Stop r => good r end.

  Lemma I_W rs : I rs -> W rs.
  Proof. now intros [H _]. Qed.
  Hint Resolve I_W : core.

  Lemma ok_bind {A B} (P Q R : RS -> Prop) (e : MM A) (k : A -> MM B) :
    ok P Q e -> (forall a, ok Q R (k a)) -> ok P R (bind e k).
  Proof.
    intros He Hk rs HP. unfold bind. specialize (He rs HP).
    destruct (e rs) as [a rs'|r]; [apply Hk; assumption|assumption].
  Qed.
  Lemma ok_ret {A} (P : RS -> Prop) (a : A) : ok P P (ret a).
  Proof. intros rs HP. exact HP. Qed.
  Lemma ok_gets {A} (P : RS -> Prop) (f : RS -> A) : ok P P (gets f).
  Proof. intros rs HP. exact HP. Qed.
  Lemma ok_modify (P Q : RS -> Prop) (f : RS -> RS) : (forall rs, P rs -> Q (f rs)) -> ok P Q (modify f).
  Proof. intros H rs HP. apply H, HP. Qed.
  Lemma ok_weaken {A} (P P' Q Q' : RS -> Prop) (e : MM A) :
    ok P Q e -> (forall rs, P' rs -> P rs) -> (forall rs, Q rs -> Q' rs) -> ok P' Q' e.
  Proof.
    intros H H1 H2 rs HP. specialize (H rs (H1 _ HP)). destruct (e rs); auto.
  Qed.

  Lemma ok_fail_pos {A} (P Q : RS -> Prop) t : (forall rs, P rs -> W rs) -> ok P Q (@fail_pos St m A t).
  Proof.
    intros HPW rs HP. unfold fail_pos.
    destruct (with_position_val m (error_new t) (rs_pc rs) Hcm) as [e' ->]. cbn. auto.
  Qed.
  Lemma ok_fail_nopos {A} (P Q : RS -> Prop) t : (forall rs, P rs -> W rs) -> ok P Q (@fail_nopos St A t).
  Proof. intros HPW rs HP. cbn. auto. Qed.
  Lemma ok_fail_with {A} (P Q : RS -> Prop) e : (forall rs, P rs -> W rs) -> ok P Q (@fail_with St A e).
  Proof. intros HPW rs HP. cbn. auto. Qed.
  Lemma ok_stop_executing {A} (P Q : RS -> Prop) : (forall rs, P rs -> W rs) -> ok P Q (@stop_executing St A).
  Proof. intros HPW rs HP. cbn. auto. Qed.
  Lemma ok_stop_exited {A} (P Q : RS -> Prop) r : (forall rs, P rs -> W rs) -> ok P Q (@stop_exited St A r).
  Proof. intros HPW rs HP. cbn. auto. Qed.
  (** a failed [assume] is a panic only under debug assertions *)
  Lemma ok_bug_release {A} (P Q : RS -> Prop) s msg : dbg = false -> (forall rs, P rs -> W rs) -> ok P Q (@bug St dbg A s msg).
  Proof. intros D HPW. unfold bug. rewrite D. apply ok_fail_nopos, HPW. Qed.

  Lemma ok_lift_pos {A} (r : res A MachineErrorType) : ok I I (lift_pos m r).
  Proof. destruct r; [apply ok_ret|apply ok_fail_pos; auto]. Qed.
  Lemma ok_lift_nopos {A} (r : res A MachineErrorType) : ok I I (lift_nopos r).
  Proof. destruct r; [apply ok_ret|apply ok_fail_nopos; auto]. Qed.

  (** ** the invariant under the state setters *)
  Lemma I_set_stack rs st : I rs -> (strict = true -> len st <= STACK_SIZE) -> I (set_stack rs st).
  Proof. intros [Hw Hp] H. split; [|exact Hp]. intros D. cbn. destruct (Hw D). auto. Qed.
  Lemma I_set_scope rs sc : I rs -> I (set_scope rs sc).
  Proof. intros [Hw Hp]. split; assumption. Qed.
  Lemma I_set_io rs s : I rs -> I (set_io rs s).
  Proof. intros [Hw Hp]. split; assumption. Qed.
  Lemma I_set_ctx rs c : I rs -> I (set_ctx rs c).
  Proof. intros [Hw Hp]. split; assumption. Qed.
  Lemma I_set_query_iters rs q : I rs -> I (set_query_iters rs q).
  Proof. intros [Hw Hp]. split; assumption. Qed.
  Lemma I_set_call_state rs cs :
    I rs -> (strict = true -> Forall (fun x => x < usize_max) cs) -> I (set_call_state rs cs).
  Proof. intros [Hw Hp] H. split; [|exact Hp]. intros D. cbn. destruct (Hw D). auto. Qed.
  Lemma W_set_pc rs pc : W rs -> W (set_pc rs pc).
  Proof. intros Hw. exact Hw. Qed.
  Lemma I_stack rs : I rs -> strict = true -> len (rs_stack rs) <= STACK_SIZE.
  Proof. intros [Hw _] D. apply Hw, D. Qed.
  Lemma I_call_state rs : I rs -> strict = true -> Forall (fun x => x < usize_max) (rs_call_state rs).
  Proof. intros [Hw _] D. apply Hw, D. Qed.

  (** ** stack primitives *)
  Lemma push_value_len v st st' : push_value v st = ROk st' -> len st' <= STACK_SIZE.
  Proof.
    unfold push_value. destruct (len st <? STACK_SIZE) eqn:E; [|discriminate].
    intros [= <-]. rewrite len_cons. lia.
  Qed.
  Lemma ok_push_with failer v :
    (forall t, ok I I (failer t)) -> ok I I (push_with failer v).
  Proof.
    intros Hf. unfold push_with. eapply ok_bind; [apply ok_gets|]. intros st.
    destruct (push_value v st) eqn:E; [|apply Hf].
    apply ok_modify. intros rs HI. apply I_set_stack; [assumption|]. intros _. eapply push_value_len, E.
  Qed.
  Lemma ok_pop_with failer :
    (forall t, ok I I (failer t)) -> ok I I (pop_with failer).
  Proof.
    intros Hf rs HI. unfold pop_with, bind, gets. destruct (rs_stack rs) as [|v st] eqn:E; cbn [pop_value].
    - apply Hf, HI.
    - cbn. apply I_set_stack; [assumption|]. intros D. pose proof (I_stack rs HI D) as H.
      rewrite E, len_cons in H. lia.
  Qed.
  Lemma ok_ipush v : ok I I (ipush m v).
  Proof. apply ok_push_with. intros t. apply ok_fail_pos; auto. Qed.
  Lemma ok_push_nopos v : ok I I (push_nopos v).
  Proof. apply ok_push_with. intros t. apply ok_fail_nopos; auto. Qed.
  Lemma ok_ipop_value : ok I I (ipop_value m).
  Proof. apply ok_pop_with. intros t. apply ok_fail_pos; auto. Qed.
  Lemma ok_pop_nopos : ok I I (@pop_nopos St).
  Proof. apply ok_pop_with. intros t. apply ok_fail_nopos; auto. Qed.
  Lemma ok_ipop {A} (conv : Value -> res A MachineErrorType) : ok I I (ipop m conv).
  Proof. unfold ipop. eapply ok_bind; [apply ok_ipop_value|]. intros v. apply ok_lift_pos. Qed.
  Lemma ok_ipeek_value : ok I I (ipeek_value m).
  Proof.
    unfold ipeek_value. eapply ok_bind; [apply ok_gets|]. intros [|v st]; [apply ok_fail_pos; auto|apply ok_ret].
  Qed.
  Lemma ok_replace_top v : ok I I (@replace_top St v).
  Proof.
    apply ok_modify. intros rs HI. destruct (rs_stack rs) as [|x st] eqn:E; [assumption|].
    apply I_set_stack; [assumption|]. intros D. pose proof (I_stack rs HI D) as H.
    rewrite E in H. rewrite len_cons in *. lia.
  Qed.

  (** ** scope primitives *)
  Lemma ok_scope_op_pos f : ok I I (scope_op_pos m f).
  Proof.
    unfold scope_op_pos. eapply ok_bind; [apply ok_gets|]. intros sc.
    destruct (f sc); [apply ok_modify; intros; now apply I_set_scope|apply ok_fail_pos; auto].
  Qed.
  Lemma ok_scope_op_nopos f : ok I I (@scope_op_nopos St f).
  Proof.
    unfold scope_op_nopos. eapply ok_bind; [apply ok_gets|]. intros sc.
    destruct (f sc); [apply ok_modify; intros; now apply I_set_scope|apply ok_fail_nopos; auto].
  Qed.

  (** ** I/O primitives *)
  Lemma ok_io_lift {A} (r : res A MachineIOError) : ok I I (io_lift r).
  Proof. destruct r; [apply ok_ret|apply ok_fail_nopos; auto]. Qed.
  Lemma ok_do_fact_insert n k v : ok I I (do_fact_insert io n k v).
  Proof.
    unfold do_fact_insert. eapply ok_bind; [apply ok_gets|]. intros s.
    destruct (io_fact_insert io s n k v) as [s' r].
    eapply ok_bind; [apply ok_modify; intros; now apply I_set_io|]. intros _. apply ok_io_lift.
  Qed.
  Lemma ok_do_fact_delete n k : ok I I (do_fact_delete io n k).
  Proof.
    unfold do_fact_delete. eapply ok_bind; [apply ok_gets|]. intros s.
    destruct (io_fact_delete io s n k) as [s' r].
    eapply ok_bind; [apply ok_modify; intros; now apply I_set_io|]. intros _. apply ok_io_lift.
  Qed.
  Lemma ok_do_fact_query n k : ok I I (do_fact_query io n k).
  Proof.
    unfold do_fact_query. eapply ok_bind; [apply ok_gets|]. intros s.
    destruct (io_fact_query io s n k) as [s' r].
    eapply ok_bind; [apply ok_modify; intros; now apply I_set_io|]. intros _. apply ok_io_lift.
  Qed.

  Lemma apply_stack_op_len st o : len st <= STACK_SIZE -> len (apply_stack_op st o) <= STACK_SIZE.
  Proof.
    intros H. destruct o; cbn [apply_stack_op].
    - destruct (push_value v st) eqn:E; [eapply push_value_len, E|assumption].
    - destruct st; [assumption|]. rewrite len_cons in H. lia.
    - destruct st; [assumption|]. rewrite len_cons in *. lia.
  Qed.
  Lemma fold_stack_ops_len ops : forall st,
    len st <= STACK_SIZE -> len (fold_left apply_stack_op ops st) <= STACK_SIZE.
  Proof. induction ops; intros st H; cbn [fold_left]; [assumption|]. apply IHops, apply_stack_op_len, H. Qed.

  Lemma pop_while_gt_len sp : forall st, len (pop_while_gt st sp) <= len st.
  Proof.
    induction st as [|v st IH]; cbn [pop_while_gt]; [lia|].
    destruct (sp <? len (v :: st)); [|lia]. rewrite len_cons. lia.
  Qed.

  (** ** validation helpers *)
  Lemma ok_validate_fact_literal f : ok I I (validate_fact_literal m f).
  Proof.
    unfold validate_fact_literal.
    destruct (match fact_def m (Fact_name f) with Some d => validate_fact_schema f d | None => false end);
      [apply ok_ret|apply ok_fail_pos; auto].
  Qed.
  Lemma ok_validate_struct_schema s : ok I I (validate_struct_schema m s).
  Proof.
    unfold validate_struct_schema. destruct (struct_def m (Struct_name s)); [|apply ok_fail_pos; auto].
    match goal with |- ok _ _ (if ?c then _ else _) => destruct c end; [apply ok_ret|apply ok_fail_pos; auto].
  Qed.

  (** ** loops *)
  Lemma ok_pop_pairs n : ok I I (pop_pairs m n).
  Proof.
    induction n; cbn [pop_pairs]; [apply ok_ret|].
    eapply ok_bind; [apply ok_ipop_value|]. intros v.
    eapply ok_bind; [apply ok_ipop|]. intros k.
    eapply ok_bind; [apply IHn|]. intros r. apply ok_ret.
  Qed.
  Lemma ok_pop_idents n : ok I I (pop_idents m n).
  Proof.
    induction n; cbn [pop_idents]; [apply ok_ret|].
    eapply ok_bind; [apply ok_ipop|]. intros k.
    eapply ok_bind; [apply IHn|]. intros r. apply ok_ret.
  Qed.
  Lemma ok_mstruct_set_fields d pairs : forall fields, ok I I (mstruct_set_fields m d pairs fields).
  Proof.
    induction pairs as [|[k v] r IH]; intros fields; cbn [mstruct_set_fields]; [apply ok_ret|].
    destruct (field_named k (StructDef_items d)); [|apply ok_fail_pos; auto].
    destruct (fits_type v (Field_ty f)); [apply IH|apply ok_fail_pos; auto].
  Qed.
  Lemma ok_mstruct_get_fields names : forall fields, ok I I (mstruct_get_fields m names fields).
  Proof.
    induction names as [|k r IH]; intros fields; cbn [mstruct_get_fields]; [apply ok_ret|].
    destruct (amap_remove k fields) as [[v fields']|]; [|apply ok_fail_pos; auto].
    eapply ok_bind; [apply ok_ipush|]. intros _.
    eapply ok_bind; [apply ok_ipush|]. intros _. apply IH.
  Qed.
  Lemma ok_cast_check target items fields : ok I I (cast_check m target items fields).
  Proof.
    induction items as [|f r IH]; cbn [cast_check]; [apply ok_ret|].
    destruct (amap_get (Field_name f) fields); [|apply ok_fail_pos; auto].
    destruct (fits_type v (Field_ty f)); [apply IH|apply ok_fail_pos; auto].
  Qed.

  Lemma fact_count_loop_some q limit : (limit <= i64_max)%Z -> forall it count,
    (i64_min <= count + 1)%Z -> fact_count_loop q limit it count <> None.
  Proof.
    intros Hl. induction it as [|x r IH]; intros count Hc; cbn [fact_count_loop].
    - destruct (count <? limit)%Z; discriminate.
    - destruct (count <? limit)%Z eqn:E; [|discriminate].
      destruct x as [[ks vs]|e]; [|discriminate].
      destruct (fact_match q ks vs); [|apply IH, Hc].
      unfold i64_checked, in_i64.
      assert ((i64_min <=? count + 1)%Z && (count + 1 <=? i64_max)%Z = true) as ->.
      { apply andb_true_intro. split; lia. }
      apply IH. unfold i64_min in *. lia.
  Qed.

  Lemma ok_jump_to t : ok I I (jump_to m t).
  Proof.
    destruct t; cbn [jump_to]; [apply ok_fail_pos; auto|].
    eapply ok_bind with (Q := W); [apply ok_modify; intros rs HI; apply W_set_pc; auto|].
    intros _. apply ok_stop_executing; auto.
  Qed.

  (** reading a component of the state and continuing: the continuation may use what was read *)
  Lemma ok_bind_gets {A B} (P Q : RS -> Prop) (f : RS -> A) (k : A -> MM B) :
    (forall a, ok (fun rs => P rs /\ f rs = a) Q (k a)) -> ok P Q (bind (gets f) k).
  Proof. intros H rs HP. unfold bind, gets. apply (H (f rs)). auto. Qed.

  (** [self.pc + 1] cannot wrap: the pc is an address below [usize::MAX] *)
  Lemma ok_advance_pc s : pcb = true -> ok I W (advance_pc dbg s).
  Proof.
    intros Hpcb rs HI. unfold advance_pc, bind, gets, usize_checked_add.
    destruct (rs_pc rs + 1 <=? usize_max) eqn:E.
    - cbn. apply W_set_pc. auto.
    - destruct (Bool.bool_dec dbg true) as [D|D].
      + exfalso. destruct HI as [_ Hp]. specialize (Hp Hpcb (Hstrict D)). lia.
      + apply not_true_is_false in D.
        apply (@ok_bug_release unit I W s "self.pc + 1 must not wrap" D I_W rs HI).
  Qed.

  (** ** the instructions *)

  Definition instr_repr (i : Instruction) : Prop :=
    match i with I_FactCount limit => (limit <= i64_max)%Z | _ => True end.

  Ltac ok_prim :=
    first [ apply ok_ret | apply ok_gets | apply ok_ipush | apply ok_ipop_value | apply ok_ipop
          | apply ok_ipeek_value | apply ok_push_nopos | apply ok_pop_nopos | apply ok_replace_top
          | apply ok_scope_op_pos | apply ok_scope_op_nopos | apply ok_lift_pos | apply ok_lift_nopos
          | apply ok_do_fact_insert | apply ok_do_fact_delete | apply ok_do_fact_query
          | apply ok_validate_fact_literal | apply ok_validate_struct_schema
          | apply ok_pop_pairs | apply ok_pop_idents | apply ok_mstruct_set_fields
          | apply ok_mstruct_get_fields | apply ok_cast_check | apply ok_jump_to
          | apply ok_fail_pos; solve [auto] | apply ok_fail_nopos; solve [auto]
          | apply ok_fail_with; solve [auto]
          | apply ok_stop_executing; solve [auto] | apply ok_stop_exited; solve [auto]
          | apply ok_io_lift ].
  Ltac ok_I_modify :=
    apply ok_modify; intros ? ?;
    repeat first [ apply I_set_scope | apply I_set_io | apply I_set_ctx | apply I_set_query_iters ];
    assumption.
  Ltac ok_go :=
    repeat first
      [ ok_prim
      | eapply ok_bind; [ solve [ok_prim | ok_I_modify] | intros ]
      | match goal with
        | |- ok _ _ (match ?x with _ => _ end) => destruct x
        | |- ok _ _ (bind (match ?x with _ => _ end) _) => destruct x
        | |- ok _ _ (let '(_, _) := ?x in _) => destruct x
        end
      | solve [ok_I_modify] ].

  (** pushing the current pc on the call stack *)
  Lemma ok_push_pc :
    pcb = true -> ok I I (modify (fun rs : RS => set_call_state rs (rs_pc rs :: rs_call_state rs))).
  Proof.
    intros Hpcb. apply ok_modify. intros rs HI. apply I_set_call_state; [assumption|].
    intros D. constructor; [apply HI; [exact Hpcb|exact D]|apply (I_call_state rs HI D)].
  Qed.
  Lemma ok_set_pc_stop {A} n : ok I I (bind (modify (fun rs : RS => set_pc rs n)) (fun _ => @stop_executing St A)).
  Proof.
    eapply ok_bind with (Q := W); [apply ok_modify; intros rs HI; apply W_set_pc; auto|].
    intros _. apply ok_stop_executing; auto.
  Qed.

  Lemma ok_exec i : pcb = true -> (dbg = true -> instr_repr i) -> ok I I (exec dbg io m i).
  Proof.
    intros Hpcb Hi. destruct i; unfold exec; cbv beta iota.
    - (* Const *) ok_go.
    - (* Identifier *) ok_go.
    - (* Def *) ok_go.
    - (* Get *) ok_go.
    - (* Dup *) ok_go.
    - (* Pop *)
      apply ok_modify. intros rs HI. destruct (rs_stack rs) as [|v st] eqn:E; cbn [pop_value]; [assumption|].
      apply I_set_stack; [assumption|]. intros D. pose proof (I_stack rs HI D) as H.
      rewrite E, len_cons in H. lia.
    - (* Block *) ok_go.
    - (* End *) ok_go.
    - (* Jump *) ok_go.
    - (* Branch *) ok_go.
    - (* Next *) ok_go.
    - (* Last *) ok_go.
    - (* Call *)
      destruct t; [ok_go|].
      eapply ok_bind; [ok_I_modify|]. intros _.
      eapply ok_bind; [apply ok_push_pc, Hpcb|]. intros _. apply ok_set_pc_stop.
    - (* Recall *)
      destruct t; [ok_go|].
      eapply ok_bind; [apply ok_gets|]. intros ctx.
      destruct ctx; try (apply ok_fail_pos; solve [auto]).
      eapply ok_bind; [ok_I_modify|]. intros _.
      eapply ok_bind; [ok_I_modify|]. intros _.
      eapply ok_bind; [apply ok_push_pc, Hpcb|]. intros _. apply ok_set_pc_stop.
    - (* ExtCall *)
      eapply ok_bind; [apply ok_gets|]. intros rs0.
      destruct (io_call io (rs_io rs0) n n0 (rs_stack rs0) (rs_ctx rs0)) as [[s' ops] r].
      eapply ok_bind with (Q := I).
      { apply ok_modify. intros rs HI. apply I_set_stack; [now apply I_set_io|].
        intros D. apply fold_stack_ops_len, (I_stack rs HI D). }
      intros _. destruct r; ok_go.
    - (* Return *)
      apply ok_bind_gets. intros [|ra cs'].
      + apply ok_stop_exited. intros rs [HI _]. auto.
      + eapply ok_bind with (Q := I); [|intros _; ok_go].
        apply ok_modify. intros rs [HI Hcs]. split.
        * intros D. cbn. destruct HI as [Hw _]. destruct (Hw D) as [H1 H2]. split; [assumption|].
          rewrite Hcs in H2. now inversion H2.
        * intros _ D. cbn. destruct HI as [Hw _]. destruct (Hw D) as [H1 H2].
          rewrite Hcs in H2. now inversion H2.
    - (* Exit *) ok_go.
    - (* Add *) ok_go.
    - (* Sub *) ok_go.
    - (* SaturatingAdd *) ok_go.
    - (* SaturatingSub *) ok_go.
    - (* Not *) ok_go.
    - (* Gt *) ok_go.
    - (* Lt *) ok_go.
    - (* Eq *) ok_go.
    - (* FactNew *) ok_go.
    - (* FactKeySet *) ok_go.
    - (* FactValueSet *) ok_go.
    - (* StructNew *) ok_go.
    - (* StructSet *) ok_go.
    - (* StructGet *) ok_go.
    - (* MStructSet *) ok_go.
    - (* MStructGet *) ok_go.
    - (* Cast *) ok_go.
    - (* Wrap *) ok_go.
    - (* Is *) ok_go.
    - (* Unwrap *) ok_go.
    - (* Publish *)
      eapply ok_bind; [ok_prim|]. intros s.
      eapply ok_bind; [ok_prim|]. intros _.
      eapply ok_bind; [ok_prim|]. intros _.
      eapply ok_bind; [apply ok_advance_pc, Hpcb|]. intros _. apply ok_stop_exited. auto.
    - (* Create *) ok_go.
    - (* Delete *) ok_go.
    - (* Update *)
      eapply ok_bind; [ok_prim|]. intros fact_to.
      eapply ok_bind; [ok_prim|]. intros fact_from.
      eapply ok_bind; [ok_prim|]. intros it.
      eapply ok_bind with (Q := I).
      { destruct it as [|[kv|e] r]; ok_go. }
      intros replaced.
      eapply ok_bind with (Q := I).
      { destruct (Fact_values fact_from); [ok_go|].
        match goal with |- ok _ _ (if ?c then _ else _) => destruct c end; ok_go. }
      intros _. ok_go.
    - (* Emit *)
      eapply ok_bind; [ok_prim|]. intros s.
      eapply ok_bind; [ok_prim|]. intros _.
      eapply ok_bind; [ok_prim|]. intros ctx.
      match goal with |- ok _ _ (match ?x with _ => _ end) => destruct x as [[command recall]|] end; ok_go.
    - (* Query *)
      eapply ok_bind; [ok_prim|]. intros qf.
      eapply ok_bind; [ok_prim|]. intros _.
      eapply ok_bind; [ok_prim|]. intros it.
      destruct (query_find qf it) as [[[ks vs]|e]|]; ok_go.
    - (* FactCount *)
      eapply ok_bind; [ok_prim|]. intros fact.
      eapply ok_bind; [ok_prim|]. intros _.
      eapply ok_bind; [ok_prim|]. intros it.
      destruct (fact_count_loop fact z it 0%Z) as [[count|e]|] eqn:E; [ok_go|ok_go|].
      destruct (Bool.bool_dec dbg true) as [D|D].
      + exfalso. revert E. apply fact_count_loop_some; [apply Hi, D|]. unfold i64_min. lia.
      + apply not_true_is_false in D. apply ok_bug_release; auto.
    - (* QueryStart *) ok_go.
    - (* QueryNext *)
      eapply ok_bind; [ok_prim|]. intros qs.
      destruct qs as [|[fact it] qs']; [ok_go|].
      destruct (iter_find fact it) as [[result it']|].
      + eapply ok_bind; [ok_I_modify|]. intros _. destruct result as [[k v]|e]; ok_go.
      + ok_go.
    - (* Serialize *)
      eapply ok_bind; [ok_prim|]. intros ctx.
      destruct ctx; try (apply ok_fail_pos; solve [auto]).
      eapply ok_bind; [ok_prim|]. intros cs.
      match goal with |- ok _ _ (if ?c then _ else _) => destruct c end; [ok_go|].
      eapply ok_bind; [ok_prim|]. intros st.
      destruct (io_serialize io st cs) as [s' r].
      eapply ok_bind; [ok_I_modify|]. intros _. destruct r; ok_go.
    - (* Deserialize *)
      eapply ok_bind; [ok_prim|]. intros ctx.
      destruct ctx; try (apply ok_fail_pos; solve [auto]).
      eapply ok_bind; [ok_prim|]. intros bytes.
      eapply ok_bind; [ok_prim|]. intros st.
      destruct (io_deserialize io st (OpenContext_name o) bytes) as [s' r].
      eapply ok_bind; [ok_I_modify|]. intros _. destruct r; ok_go.
    - (* SaveSP *)
      apply ok_bind_gets. intros st. apply ok_modify. intros rs [HI Hst].
      apply I_set_call_state; [assumption|]. intros D. constructor; [|apply (I_call_state rs HI D)].
      pose proof (I_stack rs HI D) as H. rewrite Hst in H. pose proof STACK_SIZE_small. lia.
    - (* RestoreSP *)
      apply ok_bind_gets. intros [|saved_sp cs'].
      { apply ok_fail_pos. intros rs [HI _]. auto. }
      eapply ok_bind with (Q := fun rs => I rs /\ (strict = true -> saved_sp < usize_max)).
      { apply ok_modify. intros rs [HI Hcs]. split.
        - apply I_set_call_state; [assumption|]. intros D. pose proof (I_call_state rs HI D) as H.
          rewrite Hcs in H. now inversion H.
        - intros D. pose proof (I_call_state rs HI D) as H. rewrite Hcs in H. now inversion H. }
      intros _. unfold usize_checked_add.
      destruct (saved_sp + 1 <=? usize_max) eqn:E.
      + eapply ok_weaken with (P := I) (Q := I); [|intros rs [H _]; exact H|auto].
        eapply ok_bind; [ok_prim|]. intros st.
        destruct (len st ?= saved_sp + 1); [ok_go|ok_go|].
        eapply ok_bind; [ok_prim|]. intros v.
        eapply ok_bind with (Q := I); [|intros _; ok_go].
        apply ok_modify. intros rs HI. apply I_set_stack; [assumption|]. intros D.
        pose proof (I_stack rs HI D). pose proof (pop_while_gt_len saved_sp (rs_stack rs)). lia.
      + destruct (Bool.bool_dec dbg true) as [D|D].
        * intros rs [_ H]. specialize (H (Hstrict D)). lia.
        * apply not_true_is_false in D. apply ok_bug_release; [assumption|]. intros rs [HI _]. auto.
    - (* Meta *) ok_go.
  Qed.

  (** ** [step] *)
  Definition prog_repr : Prop :=
    (strict = true -> len (progmem m) <= usize_max) /\ (dbg = true -> Forall instr_repr (progmem m)).

  Lemma step_good rs : pcb = true -> prog_repr -> W rs -> good (step dbg io m rs).
  Proof.
    intros Hpcb Hp Hw. unfold step.
    destruct (len (progmem m) <=? rs_pc rs) eqn:E.
    - pose proof (@ok_fail_pos unit W W (ME_InvalidAddress "pc") (fun _ H => H) rs Hw) as H.
      destruct (fail_pos m (ME_InvalidAddress "pc") rs); exact H.
    - apply N.leb_gt in E.
      destruct (nth_error_len_some _ _ E) as [instruction Hn]. rewrite Hn.
      assert (ok I W (bind (exec dbg io m instruction) (fun _ => advance_pc dbg PS_step_pc_assume))) as Hok.
      { eapply ok_bind; [apply ok_exec; [exact Hpcb|]|intros _; apply ok_advance_pc, Hpcb].
        intros D. destruct Hp as [_ Hf]. specialize (Hf D). rewrite Forall_forall in Hf. apply Hf.
        eapply nth_error_In, Hn. }
      assert (I rs) as HI.
      { split; [exact Hw|]. intros _ D. destruct Hp as [Hl _]. specialize (Hl D). lia. }
      specialize (Hok rs HI).
      destruct (bind (exec dbg io m instruction) (fun _ => advance_pc dbg PS_step_pc_assume) rs); exact Hok.
  Qed.
End Total.

(** * [run] and the entry points *)
Section Run.
  Context {St : Type}.
  Variable dbg : bool.
  Variable io : MachineIO St.
  Variable m : Machine.
  Hypothesis Hcm : cm_ok m.
  Variable strict : bool.
  Hypothesis Hstrict : dbg = true -> strict = true.
  Hypothesis Hprog : prog_repr dbg m strict.

  Notation RS := (RunState St).
  Notation Wf := (@W St strict).
  (** the entry points set the pc from a label: no bound on it is tracked there *)
  Notation J := (@I St strict false).
  Notation okJ := (@ok St strict _ J J).

  Definition run_good (r : RunResult St) : Prop :=
    match r with
    | RunPanic _ => False
    | RunExited _ rs | RunErrored _ rs | RunOutOfFuel rs => Wf rs
    end.

  Lemma run_good_run fuel : forall rs, Wf rs -> run_good (run dbg io m fuel rs).
  Proof.
    induction fuel; intros rs Hw; cbn [run]; [exact Hw|].
    pose proof (step_good dbg io m Hcm strict Hstrict true rs eq_refl Hprog Hw) as Hs.
    destruct (step dbg io m rs) as [rs'|r rs'|e rs'|s]; cbn in Hs.
    - apply IHfuel, Hs.
    - exact Hs.
    - destruct (with_position_val m e (rs_pc rs') Hcm) as [e' ->]. exact Hs.
    - contradiction.
  Qed.

  Lemma J_of_W rs : Wf rs -> J rs.
  Proof. intros H. split; [exact H|discriminate]. Qed.
  Lemma W_of_J rs : J rs -> Wf rs.
  Proof. now intros [H _]. Qed.

  Lemma ok_ipushJ v : okJ (ipush m v).
  Proof. exact (ok_ipush dbg m Hcm strict Hstrict false v). Qed.
  Lemma ok_fail_posJ {A} t : @ok St strict A J J (fail_pos m t).
  Proof. apply ok_fail_pos; [exact Hcm|apply W_of_J]. Qed.
  Lemma ok_fail_noposJ {A} t : @ok St strict A J J (fail_nopos t).
  Proof. apply ok_fail_nopos, W_of_J. Qed.

  Lemma ok_setup_function l : okJ (setup_function m l).
  Proof.
    unfold setup_function. destruct (labels_get l (labels m)); [|apply ok_fail_posJ].
    apply ok_modify. intros rs [Hw _]. split; [|discriminate].
    intros D. destruct (Hw D) as [H1 _]. cbn. split; [exact H1|constructor].
  Qed.
  Lemma ok_check_args args : forall params, okJ (check_args args params).
  Proof.
    induction args as [|a ar IH]; intros [|p pr]; cbn [check_args]; try apply ok_ret.
    destruct (fits_type a (Field_ty p)); [apply IH|apply ok_fail_noposJ].
  Qed.
  Lemma ok_push_all args : okJ (push_all m args).
  Proof.
    induction args as [|a r IH]; cbn [push_all]; [apply ok_ret|].
    eapply ok_bind; [apply ok_ipushJ|]. intros _. exact IH.
  Qed.
  Lemma ok_setup_action name args : okJ (setup_action m name args).
  Proof.
    unfold setup_action. destruct (automap_get ActionDef_name name (action_defs m)); [|apply ok_fail_noposJ].
    match goal with |- ok _ _ _ (if ?c then _ else _) => destruct c end; [apply ok_fail_noposJ|].
    eapply ok_bind; [apply ok_check_args|]. intros _.
    eapply ok_bind; [apply ok_setup_function|]. intros _. apply ok_push_all.
  Qed.
  Lemma ok_check_fields defs : forall fs, okJ (check_fields m fs defs).
  Proof.
    induction fs as [|[n v] r IH]; cbn [check_fields]; [apply ok_ret|].
    destruct (field_named n defs); [|apply ok_fail_posJ].
    destruct (fits_type v (Field_ty f)); [apply IH|apply ok_fail_posJ].
  Qed.
  Lemma ok_setup_command l this_data : okJ (setup_command m l this_data).
  Proof.
    unfold setup_command. eapply ok_bind; [apply ok_setup_function|]. intros _.
    destruct (automap_get CommandDef_name (Struct_name this_data) (command_defs m));
      [|apply ok_fail_posJ].
    match goal with |- ok _ _ _ (if ?c then _ else _) => destruct c end;
      [apply ok_fail_posJ|].
    eapply ok_bind; [apply ok_check_fields|]. intros _. apply ok_ipushJ.
  Qed.

  Lemma then_run_good fuel (e : @M St unit) rs : okJ e -> Wf rs -> run_good (then_run dbg io m fuel e rs).
  Proof.
    intros He Hw. unfold then_run, run_setup. specialize (He rs (J_of_W rs Hw)).
    destruct (e rs) as [[] rs'|[rs'|r rs'|er rs'|s]]; cbn in He |- *;
      try (apply run_good_run; first [apply W_of_J, He|exact He]); try exact He.
  Qed.

  Lemma call_action_good fuel name args rs : Wf rs -> run_good (call_action dbg io m fuel name args rs).
  Proof.
    intros Hw. unfold call_action. destruct (rs_ctx rs); try exact Hw.
    destruct (ActionContext_name a =s? name); [|exact Hw].
    apply then_run_good; [apply ok_setup_action|exact Hw].
  Qed.
  Lemma call_command_policy_good fuel this_data envelope rs :
    Wf rs -> run_good (call_command_policy dbg io m fuel this_data envelope rs).
  Proof.
    intros Hw. unfold call_command_policy. destruct (rs_ctx rs); try exact Hw.
    destruct (PolicyContext_name p =s? Struct_name this_data); [|exact Hw].
    apply then_run_good; [|exact Hw].
    eapply ok_bind; [apply ok_setup_command|]. intros _. apply ok_ipushJ.
  Qed.
  Lemma call_seal_good fuel this_data payload rs :
    Wf rs -> run_good (call_seal dbg io m fuel this_data payload rs).
  Proof.
    intros Hw. unfold call_seal. destruct (rs_ctx rs); try exact Hw.
    destruct (SealContext_name s =s? Struct_name this_data); [|exact Hw].
    apply then_run_good; [|exact Hw].
    eapply ok_bind; [apply ok_setup_function|]. intros _.
    eapply ok_bind; [apply ok_ipushJ|]. intros _. apply ok_ipushJ.
  Qed.
  Lemma call_open_good fuel this_data payload envelope rs :
    Wf rs -> run_good (call_open dbg io m fuel this_data payload envelope rs).
  Proof.
    intros Hw. unfold call_open. destruct (rs_ctx rs); try exact Hw.
    destruct (OpenContext_name o =s? Struct_name this_data); [|exact Hw].
    apply then_run_good; [|exact Hw].
    eapply ok_bind; [apply ok_setup_function|]. intros _.
    eapply ok_bind; [apply ok_ipushJ|]. intros _.
    eapply ok_bind; [apply ok_ipushJ|]. intros _. apply ok_ipushJ.
  Qed.
End Run.

(** * Closed statements *)

(** What any [Machine] value held in memory satisfies: a [Vec<Instruction>] and a [String] have fewer
    than [usize::MAX] elements, and the operand of [FactCount] is an [i64]. *)
Definition machine_repr (m : Machine) : Prop :=
  len (progmem m) <= usize_max /\ Forall instr_repr (progmem m) /\ cm_ok m.

(** What any [RunState] satisfies: the stack is a [heapless::Vec<Value, STACK_SIZE>]; the call stack
    holds saved stack depths and saved program counters, all below [usize::MAX]. *)
Definition rs_wf {St} (rs : RunState St) : Prop :=
  len (rs_stack rs) <= STACK_SIZE /\ Forall (fun x => x < usize_max) (rs_call_state rs).

Definition step_ok {St} (r : StepResult St) : Prop :=
  match r with
  | Panic _ => False
  | Executing rs' | Exited _ rs' | Errored _ rs' => rs_wf rs'
  end.
Definition run_ok {St} (r : RunResult St) : Prop :=
  match r with
  | RunPanic _ => False
  | RunExited _ rs' | RunErrored _ rs' | RunOutOfFuel rs' => rs_wf rs'
  end.

Lemma W_true_wf {St} (rs : RunState St) : W true rs <-> rs_wf rs.
Proof. unfold W, rs_wf. intuition. Qed.
Lemma prog_repr_of dbg m : machine_repr m -> prog_repr dbg m true.
Proof. intros (H1 & H2 & _). split; auto. Qed.
Lemma good_step_ok {St} (r : StepResult St) : good true r -> step_ok r.
Proof. destruct r; cbn; try apply W_true_wf; auto. Qed.
Lemma run_good_ok {St} (r : RunResult St) : run_good true r -> run_ok r.
Proof. destruct r; cbn; try apply W_true_wf; auto. Qed.

Definition step_total_stmt : Prop :=
  forall (St : Type) (dbg : bool) (io : MachineIO St) (m : Machine) (rs : RunState St),
    machine_repr m -> rs_wf rs -> step_ok (step dbg io m rs).
Lemma step_total_proof : step_total_stmt.
Proof.
  intros St dbg io m rs Hm Hw. apply good_step_ok.
  apply (step_good dbg io m (proj2 (proj2 Hm)) true (fun _ => eq_refl) true rs eq_refl).
  - apply prog_repr_of, Hm.
  - apply W_true_wf, Hw.
Qed.

Definition step_total_release_stmt : Prop :=
  forall (St : Type) (io : MachineIO St) (m : Machine) (rs : RunState St) (s : psite),
    cm_ok m -> step false io m rs <> Panic s.
Lemma step_total_release_proof : step_total_release_stmt.
Proof.
  intros St io m rs s Hcm E.
  assert (good false (step false io m rs)) as H.
  { apply (step_good false io m Hcm false (fun H => H) true rs eq_refl).
    - split; discriminate.
    - intros D. discriminate. }
  rewrite E in H. exact H.
Qed.

Definition run_total_stmt : Prop :=
  forall (St : Type) (dbg : bool) (io : MachineIO St) (m : Machine) (fuel : nat) (rs : RunState St),
    machine_repr m -> rs_wf rs -> run_ok (run dbg io m fuel rs).
Lemma run_total_proof : run_total_stmt.
Proof.
  intros St dbg io m fuel rs Hm Hw. apply run_good_ok.
  apply (run_good_run dbg io m (proj2 (proj2 Hm)) true (fun _ => eq_refl) (prog_repr_of dbg m Hm)).
  apply W_true_wf, Hw.
Qed.

Definition run_total_release_stmt : Prop :=
  forall (St : Type) (io : MachineIO St) (m : Machine) (fuel : nat) (rs : RunState St) (s : psite),
    cm_ok m -> run false io m fuel rs <> RunPanic s.
Lemma run_total_release_proof : run_total_release_stmt.
Proof.
  intros St io m fuel rs s Hcm E.
  assert (run_good false (run false io m fuel rs)) as H.
  { apply (run_good_run false io m Hcm false (fun H => H)).
    - split; discriminate.
    - intros D. discriminate. }
  rewrite E in H. exact H.
Qed.

(** The public entry points, from any well-formed run state (in particular [RunState::new]), with any
    arguments. *)
Definition calls_total_stmt : Prop :=
  forall (St : Type) (dbg : bool) (io : MachineIO St) (m : Machine) (fuel : nat) (rs : RunState St),
    machine_repr m -> rs_wf rs ->
    (forall name args, run_ok (call_action dbg io m fuel name args rs))
    /\ (forall this_data envelope, run_ok (call_command_policy dbg io m fuel this_data envelope rs))
    /\ (forall this_data payload, run_ok (call_seal dbg io m fuel this_data payload rs))
    /\ (forall this_data payload envelope, run_ok (call_open dbg io m fuel this_data payload envelope rs)).
Lemma calls_total_proof : calls_total_stmt.
Proof.
  intros St dbg io m fuel rs Hm Hw.
  pose proof (proj2 (proj2 Hm)) as Hcm. pose proof (prog_repr_of dbg m Hm) as Hp.
  apply W_true_wf in Hw.
  repeat split; intros; apply run_good_ok.
  - apply (call_action_good dbg io m Hcm true (fun _ => eq_refl) Hp); exact Hw.
  - apply (call_command_policy_good dbg io m Hcm true (fun _ => eq_refl) Hp); exact Hw.
  - apply (call_seal_good dbg io m Hcm true (fun _ => eq_refl) Hp); exact Hw.
  - apply (call_open_good dbg io m Hcm true (fun _ => eq_refl) Hp); exact Hw.
Qed.

Lemma new_run_state_wf {St} (s : St) ctx : rs_wf (new_run_state s ctx).
Proof. split; [cbv; discriminate|constructor]. Qed.

(** [Machine::from_module] has no panic-capable site and keeps the program and the code map. *)
Definition module_repr (md : ModuleV0) : Prop :=
  len (mod_progmem md) <= usize_max /\ Forall instr_repr (mod_progmem md)
  /\ match mod_codemap md with Some cm => len (cm_text cm) < usize_max | None => True end.
Lemma from_module_repr md : module_repr md -> machine_repr (from_module md).
Proof. intros H. exact H. Qed.

(** Loading any module and running it from a fresh run state, under any I/O, with any fuel. *)
Definition module_run_total_stmt : Prop :=
  forall (St : Type) (dbg : bool) (io : MachineIO St) (md : ModuleV0) (s : St) (ctx : CommandContext)
         (fuel : nat),
    module_repr md -> run_ok (run dbg io (from_module md) fuel (new_run_state s ctx)).
Lemma module_run_total_proof : module_run_total_stmt.
Proof.
  intros St dbg io md s ctx fuel Hm.
  apply run_total_proof; [apply from_module_repr, Hm|apply new_run_state_wf].
Qed.

(** [update_context_with_new_head] is the one function of [RunState] with a caller contract: it is a
    [bug!] outside an action context (a panic only under debug assertions). *)
Lemma update_context_total {St} dbg (rs : RunState St) head :
  (dbg = false \/ exists c, rs_ctx rs = CC_Action c) ->
  forall s, update_context_with_new_head dbg head rs <> Stop (Panic s).
Proof.
  intros H s. unfold update_context_with_new_head, bind, gets.
  destruct H as [->|[c ->]]; [destruct (rs_ctx rs)|]; cbn; discriminate.
Qed.

(** The model runs the pop loops of [MStructSet n] / [MStructGet n] for [min n (len stack + 1)]
    iterations instead of [n] (so that evaluating the model on a hostile operand such as
    [usize::MAX] terminates quickly).  This is the same computation: each iteration pops at least one
    value or fails, so iteration [len stack + 1] is never completed. *)
Section Bounded.
  Context {St : Type}.
  Variable m : Machine.
  Lemma pop_idents_bounded : forall k n (rs : RunState St),
    len (rs_stack rs) < N.of_nat k -> (k <= n)%nat -> pop_idents m n rs = pop_idents m k rs.
  Proof.
    induction k; intros n rs H Hk; [lia|].
    destruct n; [lia|]. cbn [pop_idents].
    cbv beta iota delta [bind ipop ipop_value pop_with gets modify ret lift_pos pop_value].
    destruct (rs_stack rs) as [|v st] eqn:E; [reflexivity|].
    destruct (as_identifier v); [|reflexivity].
    rewrite (IHk n (set_stack rs st)); [reflexivity| |lia].
    cbn. rewrite len_cons in H. lia.
  Qed.
  Lemma pop_pairs_bounded : forall k n (rs : RunState St),
    len (rs_stack rs) < N.of_nat k -> (k <= n)%nat -> pop_pairs m n rs = pop_pairs m k rs.
  Proof.
    induction k; intros n rs H Hk; [lia|].
    destruct n; [lia|]. cbn [pop_pairs].
    cbv beta iota delta [bind ipop ipop_value pop_with gets modify ret lift_pos pop_value].
    destruct (rs_stack rs) as [|v st] eqn:E; [reflexivity|].
    cbn [rs_stack set_stack].
    destruct st as [|v2 st2]; [reflexivity|].
    destruct (as_identifier v2); [|reflexivity].
    rewrite (IHk n); [reflexivity| |lia].
    cbn. rewrite !len_cons in H. lia.
  Qed.
  (** hence the count used by the model is as good as the operand itself *)
  Lemma bounded_count_pop_idents (n : N) (rs : RunState St) :
    pop_idents m (bounded_count n rs) rs = pop_idents m (N.to_nat n) rs.
  Proof.
    unfold bounded_count. destruct (N.leb_spec n (len (rs_stack rs) + 1)).
    - rewrite N.min_l by lia. reflexivity.
    - rewrite N.min_r by lia. symmetry. apply pop_idents_bounded; lia.
  Qed.
  Lemma bounded_count_pop_pairs (n : N) (rs : RunState St) :
    pop_pairs m (bounded_count n rs) rs = pop_pairs m (N.to_nat n) rs.
  Proof.
    unfold bounded_count. destruct (N.leb_spec n (len (rs_stack rs) + 1)).
    - rewrite N.min_l by lia. reflexivity.
    - rewrite N.min_r by lia. symmetry. apply pop_pairs_bounded; lia.
  Qed.
End Bounded.

(** * Non-vacuity: a concrete machine, code map, run state and oracle satisfying every hypothesis *)
Definition ex_io : MachineIO unit :=
  mkMachineIO unit
    (fun s _ _ _ => (s, ROk tt)) (fun s _ _ => (s, RErr IOE_FactNotFound)) (fun s _ _ => (s, ROk []))
    (fun s _ _ _ _ => s) (fun s _ _ _ _ => (s, [SO_Push (V_Int 5); SO_Push (V_Int 1)], ROk tt))
    (fun s _ => (s, RErr 0)) (fun s _ _ => (s, RErr 0)).
Definition ex_machine : Machine :=
  mkMachine [I_Const (CV_Int 3); I_Const (CV_Int 4); I_Add; I_SaveSP; I_ExtCall 0 0; I_RestoreSP; I_Next]
            [] [] [] [] [] [] (Some (mkCodeMap [97; 98; 10; 99] [(0, (0, 2)); (3, (3, 4))])) [].
Example step_total_nonvacuous :
  machine_repr ex_machine
  /\ rs_wf (new_run_state tt (CC_Action (mkActionContext "a" 0)))
  /\ exists rs', run true ex_io ex_machine 10 (new_run_state tt (CC_Action (mkActionContext "a" 0)))
                 = RunErrored (mkMachineError ME_InvalidInstruction (Some ((2, 1), [99]))) rs'
                 /\ rs_stack rs' = [V_Int 1; V_Option (Some (V_Int 7))].
Proof.
  split; [|split].
  - split; [cbv; discriminate|]. split; [repeat constructor|reflexivity].
  - apply new_run_state_wf.
  - eexists. split; vm_compute; reflexivity.
Qed.

(** * Pinned shapes of the generated definitions

    [exec], [type_name], [tk_display], [const_to_value] and [hv_to_value] match exhaustively on the
    generated [Instruction], [Value], [TypeKind], [ConstValue], [HashableValue], [WrapType] and
    [Target], so a new variant there stops [model/Vm.v] from compiling.  The remaining shapes the
    model relies on are pinned here. *)
Local Open Scope string_scope.
Lemma shapes_pinned :
  Machine_shape = [("progmem", "Vec<Instruction>"); ("labels", "BTreeMap<Label,usize>");
                   ("action_defs", "AutoMap<ActionDef>"); ("command_defs", "AutoMap<CommandDef>");
                   ("fact_defs", "AutoMap<FactDef>"); ("struct_defs", "AutoMap<StructDef>");
                   ("enum_defs", "AutoMap<EnumDef>"); ("codemap", "Option<CodeMap>");
                   ("globals", "BTreeMap<Identifier,ConstValue>")]
  /\ RunState_shape = [("machine", "&'a Machine"); ("scope", "ScopeManager<'a >"); ("stack", "MachineStack");
                       ("call_state", "Vec<usize>"); ("pc", "usize"); ("io", "&'a mut M");
                       ("ctx", "CommandContext"); ("query_iter_stack", "Vec<(Fact,M::QueryIterator)>");
                       ("stopwatch", "Stopwatch")]
  /\ ModuleV0_shape = [("progmem", "Box<[Instruction]>"); ("labels", "BTreeMap<Label,usize>");
                       ("action_defs", "Vec<ActionDef>"); ("command_defs", "Vec<CommandDef>");
                       ("fact_defs", "Vec<FactDef>"); ("struct_defs", "Vec<StructDef>");
                       ("enum_defs", "Vec<EnumDef>"); ("codemap", "Option<CodeMap>");
                       ("globals", "BTreeMap<Identifier,ConstValue>")]
  /\ ScopeManager_shape = [("globals", "&'a BTreeMap<Identifier,ConstValue>");
                           ("locals", "Vec<Vec<BTreeMap<Identifier,Value>>>")]
  /\ CodeMap_shape = [("text", "String"); ("mapping", "Vec<(usize,Span)>")]
  /\ SpannedText_shape = [("text", "&'a str"); ("start", "usize"); ("end", "usize")]
  /\ MachineError_shape = [("err_type", "MachineErrorType"); ("source", "Option<MachineErrorSource>")]
  /\ MachineErrorSource_shape = [("linecol", "(usize,usize)"); ("text", "String")].
Proof. repeat split; reflexivity. Qed.

Lemma variants_pinned :
  ExitReason_variants = [("Normal", 0); ("Yield", 0); ("Check", 0); ("Panic", 0)]%nat
  /\ LabelType_variants = [("Action", 0); ("CommandPolicy", 0); ("CommandRecall", 0); ("CommandSeal", 0);
                           ("CommandOpen", 0); ("Temporary", 0); ("Function", 0)]%nat
  /\ CommandContext_variants = [("Action", 1); ("Seal", 1); ("Open", 1); ("Policy", 1); ("Recall", 1)]%nat
  /\ MachineIOError_variants = [("FactExists", 0); ("FactNotFound", 0); ("Internal", 0); ("Bug", 1)]%nat
  /\ MachineStatus_variants = [("Executing", 0); ("Exited", 1)]%nat
  /\ Meta_variants = [("Finish", 1); ("FFI", 2)]%nat.
Proof. repeat split; reflexivity. Qed.

(** * The panic-site ledger *)

Inductive disposition : Type :=
  | Modelled (p : psite)          (* a [Panic p] branch of the model with the guard transcribed *)
  | NotPanic (why : string)       (* the call cannot panic (the name is shared with a panicking method) *)
  | NotReached (why : string).    (* not reachable from machine.rs *)

Definition ledger : list (site * disposition) := [
  (("machine.rs", "RunState::step", "index", "self.machine.progmem[self.pc()]", 1%nat),
   Modelled PS_step_progmem_index);
  (("machine.rs", "RunState::step", "call:assume", "saved_sp.checked_add(1).assume(""stack size < isize::MAX"")", 1%nat),
   Modelled PS_step_restore_sp_assume);
  (("machine.rs", "RunState::step", "macro:unreachable", "unreachable!()", 1%nat), Modelled PS_step_unreachable_addsub);
  (("machine.rs", "RunState::step", "macro:unreachable", "unreachable!()", 2%nat), Modelled PS_step_unreachable_saturating);
  (("machine.rs", "RunState::step", "macro:unreachable", "unreachable!()", 3%nat), Modelled PS_step_unreachable_cmp);
  (("machine.rs", "RunState::step", "call:insert", "s.fields.insert(field_name,value)", 1%nat),
   NotPanic "BTreeMap::insert");
  (("machine.rs", "RunState::step", "call:remove", "s.fields.remove(&varname)", 1%nat),
   NotPanic "BTreeMap::remove");
  (("machine.rs", "RunState::step", "call:insert", "target.fields.insert(field_name,field_val)", 1%nat),
   NotPanic "BTreeMap::insert");
  (("machine.rs", "RunState::step", "call:remove", "s.fields.remove(&field_name)", 1%nat),
   NotPanic "BTreeMap::remove");
  (("machine.rs", "RunState::step", "call:assume", "self.pc.checked_add(1).assume(""self.pc + 1 must not wrap"")", 1%nat),
   Modelled PS_step_publish_pc_assume);
  (("machine.rs", "RunState::step", "call:assume", "count.checked_add(1).assume(""should be able to increment fact counter"")", 1%nat),
   Modelled PS_step_factcount_assume);
  (("machine.rs", "RunState::step", "call:assume", "self.pc.checked_add(1).assume(""self.pc + 1 must not wrap"")", 2%nat),
   Modelled PS_step_pc_assume);
  (("scope.rs", "ScopeManager::set", "call:insert", "block.insert(ident,value)", 1%nat),
   NotPanic "BTreeMap::insert");
  (("context.rs", "CommandContext::with_new_head", "macro:bug", "bug!(""Unable to call CommandContext::with_new_head in a non-action context"")", 1%nat),
   Modelled PS_ctx_with_new_head_bug);
  (("context.rs", "CommandContext::seal_from_action", "macro:bug", "bug!(""Trying to call CommandContext::seal_from_action on a variant that isn't CommandContext::Action"")", 1%nat),
   NotReached "seal_from_action is not called by machine.rs (it is used by aranya-runtime's VmPolicy)");
  (("codemap.rs", "SpannedText::as_str", "slice", "self.text[self.start..self.end]", 1%nat),
   Modelled PS_as_str_slice);
  (("codemap.rs", "SpannedText::linecol", "macro:assert", "assert!(pos<=self.text.len())", 1%nat),
   Modelled PS_linecol_assert);
  (("codemap.rs", "SpannedText::linecol", "slice", "self.text[0..pos]", 1%nat), Modelled PS_linecol_slice);
  (("codemap.rs", "SpannedText::linecol", "call:expect", "line.checked_add(1).expect(""line + 1 must not wrap"")", 1%nat),
   Modelled PS_linecol_line_expect);
  (("codemap.rs", "SpannedText::linecol", "call:expect", "col.checked_add(1).expect(""col + 1 must not wrap"")", 1%nat),
   Modelled PS_linecol_col_expect);
  (("codemap.rs", "CodeMap::span_from_instruction", "index", "self.mapping[idx]", 1%nat),
   Modelled PS_codemap_mapping_index);
  (* serialize.rs (the codec behind the Serialize / Deserialize instructions; an oracle of the model,
     its totality is property C26).  Every panic-capable construct there must be listed here with the
     reason it cannot panic: a new split_at / index / unwrap in that file breaks [ledger_complete]. *)
  (("serialize.rs", "DeserializeCtx::deserialize_struct", "call:insert", "fields.insert(d.name.clone(),v)", 1%nat),
   NotPanic "BTreeMap::insert");
  (("serialize.rs", "DeserializeCtx::take_exact", "call:split_first_chunk", "self.bytes.split_first_chunk()", 1%nat),
   NotPanic "<[u8]>::split_first_chunk::<N> returns None when fewer than N bytes remain (mapped to UnexpectedEnd)");
  (("serialize.rs", "DeserializeCtx::pop", "call:split_off_first", "self.bytes.split_off_first()", 1%nat),
   NotPanic "<&[u8]>::split_off_first returns None on an empty slice (mapped to UnexpectedEnd)");
  (("serialize.rs", "DeserializeCtx::try_take_n", "call:split_off", "self.bytes.split_off(..ct)", 1%nat),
   NotPanic "<&[u8]>::split_off(..ct) returns None when ct exceeds the length (mapped to UnexpectedEnd)")
].

Definition site_eqb (a b : site) : bool :=
  let '(f1, g1, k1, t1, o1) := a in
  let '(f2, g2, k2, t2, o2) := b in
  String.eqb f1 f2 && String.eqb g1 g2 && String.eqb k1 k2 && String.eqb t1 t2 && Nat.eqb o1 o2.
Lemma site_eqb_eq a b : site_eqb a b = true -> a = b.
Proof.
  destruct a as [[[[f1 g1] k1] t1] o1], b as [[[[f2 g2] k2] t2] o2]. cbn.
  intros H. repeat (apply andb_prop in H as [H ?]).
  repeat match goal with
         | H : String.eqb _ _ = true |- _ => apply String.eqb_eq in H
         | H : Nat.eqb _ _ = true |- _ => apply Nat.eqb_eq in H
         end.
  congruence.
Qed.
Definition in_ledger (s : site) : bool := existsb (fun e => site_eqb s (fst e)) ledger.

Definition ledger_complete_stmt : Prop :=
  forall s, In s vm_sites -> exists d, In (s, d) ledger.
Lemma ledger_complete_proof : ledger_complete_stmt.
Proof.
  assert (forallb in_ledger vm_sites = true) as H by (vm_compute; reflexivity).
  intros s Hs. rewrite forallb_forall in H. specialize (H s Hs).
  unfold in_ledger in H. apply existsb_exists in H as [[s' d] [Hin He]].
  apply site_eqb_eq in He. cbn in He. subst s'. eauto.
Qed.

(** every panic branch of the model is the image of a site of the code *)
Lemma psites_accounted : forall p : psite, exists s, In (s, Modelled p) ledger.
Proof.
  intros p. destruct p;
    match goal with |- exists s, In (s, Modelled ?p) _ =>
      let r := eval vm_compute in
        (find (fun e => match snd e with Modelled q => match p, q with
          | PS_step_progmem_index, PS_step_progmem_index | PS_step_restore_sp_assume, PS_step_restore_sp_assume
          | PS_step_unreachable_addsub, PS_step_unreachable_addsub
          | PS_step_unreachable_saturating, PS_step_unreachable_saturating
          | PS_step_unreachable_cmp, PS_step_unreachable_cmp
          | PS_step_publish_pc_assume, PS_step_publish_pc_assume
          | PS_step_factcount_assume, PS_step_factcount_assume | PS_step_pc_assume, PS_step_pc_assume
          | PS_codemap_mapping_index, PS_codemap_mapping_index | PS_linecol_assert, PS_linecol_assert
          | PS_linecol_slice, PS_linecol_slice | PS_linecol_line_expect, PS_linecol_line_expect
          | PS_linecol_col_expect, PS_linecol_col_expect | PS_as_str_slice, PS_as_str_slice
          | PS_ctx_with_new_head_bug, PS_ctx_with_new_head_bug => true
          | _, _ => false end | _ => false end) ledger) in
      match r with Some (?s, _) => exists s; cbn; tauto end
    end.
Qed.

(** * The three statements that were false of the code before it was repaired

    The faithful model of the pinned tree had three more panic branches; each made [step_total]
    false.  They are kept here as the pre-repair transcriptions with their refuting witnesses (each
    was replayed on the real code, see known_findings.d/F1.json); the model above transcribes the
    repaired code. *)
Local Open Scope N_scope.
(** F1 (repaired by 3270b50): [Instruction::Next => todo!()], [Instruction::Last => todo!()]. *)
Definition exec_todo_before_3270b50 (i : Instruction) : bool :=
  match i with I_Next | I_Last => true | _ => false end.
Example step_total_refuted_before_3270b50 :
  exists prog pc i, nth_error prog pc = Some i /\ exec_todo_before_3270b50 i = true.
Proof. exists [I_Next], 0%nat, I_Next. split; reflexivity. Qed.

(** F1-b (repaired by fab8204): [MStructSet(n)] began with [Vec::with_capacity(n)] of
    [(Identifier, Value)] pairs, which panics ("capacity overflow") when [n * size_of] exceeds
    [isize::MAX] and aborts the process when the allocation fails; the element is at least one byte. *)
Definition with_capacity_panics_before_fab8204 (elem_size n : N) : bool := (9223372036854775807 <? n * elem_size).
Example step_total_refuted_before_fab8204 :
  exists n, n <= usize_max /\ forall elem_size, 1 <= elem_size -> with_capacity_panics_before_fab8204 elem_size n = true.
Proof.
  exists usize_max. split; [lia|]. intros e He. unfold with_capacity_panics_before_fab8204, usize_max.
  apply N.ltb_lt. nia.
Qed.

(** F1-c (repaired by 380e5d2): [SpannedText::linecol] asserted [pos < text.len()] although
    [SpannedText::new] admits spans that start at [text.len()]. *)
Definition linecol_before_380e5d2 (text : list N) (pos : N) : P psite (N * N) :=
  if negb (pos <? len text) then PanicAt PS_linecol_assert
  else if negb (is_char_boundary text pos) then PanicAt PS_linecol_slice
  else linecol_loop (firstn (N.to_nat pos) text) 1 1.
Example step_total_refuted_before_380e5d2 :
  exists text s e, str_range_ok text s e = true /\ linecol_before_380e5d2 text s = PanicAt PS_linecol_assert.
Proof. exists [], 0, 0. split; reflexivity. Qed.
