(** C30, the syntactic part: what the statement-context table of [Typing.v] accepts
    has fact writes and effects only inside finish blocks / finish functions, finish
    code is made of whitelisted expressions only, and in the compiled code the
    write instructions sit inside [Meta (Finish true) ... Exit] regions whose
    instructions cannot branch, exit with a check or a panic, or recall. *)
From Aranya Require Import base.Tactics model.VmBase gen.GenVm model.Vm model.Lang model.Typing
  model.Compile model.CompileDirect proofs.SimBase proofs.CompileEqns proofs.CompileLayout.
Local Open Scope string_scope.
Local Open Scope N_scope.

(** ** Finish code: whitelisted expressions, write statements and finish-function calls only *)
Fixpoint fin_expr_ok (e : expr) : bool :=
  match e with
  | EUnit | EInt _ | EStr _ | EBool _ | EVar _ | ENone | EEnum _ _ => true
  | EWrap W_Some e => fin_expr_ok e
  | EStruct _ fs => fin_fields_ok fs
  | EDot e _ => fin_expr_ok e
  | _ => false
  end
with fin_fields_ok (fs : fields) : bool :=
  match fs with FNil => true | FCons _ e r => fin_expr_ok e && fin_fields_ok r end.
Fixpoint fin_exprs_ok (es : exprs) : bool :=
  match es with ENil => true | ECons e r => fin_expr_ok e && fin_exprs_ok r end.
Definition fin_stmt_ok (s : stmt) : bool :=
  match s with
  | SCreate _ k v => fin_fields_ok k && fin_fields_ok v
  | SUpdate _ k vals to =>
    fin_fields_ok k && (match vals with VNone => true | VSome fs => fin_fields_ok fs end) && fin_fields_ok to
  | SDelete _ k => fin_fields_ok k
  | SEmit e => fin_expr_ok e
  | SCall _ args => fin_exprs_ok args
  | _ => false
  end.
Fixpoint fin_stmts_ok (ss : stmts) : bool :=
  match ss with SNil => true | SCons s r => fin_stmt_ok s && fin_stmts_ok r end.

(** ** Code outside finish: no write statement, every finish block is finish code *)
Fixpoint nw_expr (e : expr) : bool :=
  match e with
  | EUnit | EInt _ | EStr _ | EBool _ | EEnum _ _ | ENone | EVar _ | ETodo => true
  | EWrap _ e | EDot e _ | ESubstruct e _ | ECast e _ | ENot e | EIs e _ | EReturn e => nw_expr e
  | EStruct _ fs => nw_fields fs
  | EAnd a b | EOr a b | EBin _ a b | ECoalesce a b => nw_expr a && nw_expr b
  | EIf c t f => nw_expr c && nw_expr t && nw_expr f
  | EBlock ss e => nw_stmts ss && nw_expr e
  | EMatch e arms => nw_expr e && nw_earms arms
  | ECall _ args | EFfi _ _ args | ERecall _ args => nw_exprs args
  end
with nw_exprs (es : exprs) : bool :=
  match es with ENil => true | ECons e r => nw_expr e && nw_exprs r end
with nw_fields (fs : fields) : bool :=
  match fs with FNil => true | FCons _ e r => nw_expr e && nw_fields r end
with nw_stmt (s : stmt) : bool :=
  match s with
  | SLet _ e | SReturn e | SDebugAssert e => nw_expr e
  | SCheck e els => nw_expr e && nw_expr els
  | SIf bs fb => nw_branches bs && nw_ostmts fb
  | SMatch e arms => nw_expr e && nw_sarms arms
  | SFinish ss => fin_stmts_ok ss
  | SCreate _ _ _ | SUpdate _ _ _ _ | SDelete _ _ | SEmit _ | SCall _ _ => false
  | SRecall _ args => nw_exprs args
  end
with nw_stmts (ss : stmts) : bool :=
  match ss with SNil => true | SCons s r => nw_stmt s && nw_stmts r end
with nw_ostmts (o : ostmts) : bool :=
  match o with ONone => true | OSome ss => nw_stmts ss end
with nw_ovals (o : ovals) : bool :=
  match o with VNone => true | VSome fs => nw_fields fs end
with nw_earms (a : earms) : bool :=
  match a with EANil => true | EACons _ e r => nw_expr e && nw_earms r end
with nw_sarms (a : sarms) : bool :=
  match a with SANil => true | SACons _ ss r => nw_stmts ss && nw_sarms r end
with nw_branches (b : branches) : bool :=
  match b with BNil => true | BCons c ss r => nw_expr c && nw_stmts ss && nw_branches r end.

(** inversion of the checker's monad *)
Lemma rbind_ok {A B} (r : R A) (k : A -> R B) b : rbind r k = ROk b -> exists a, r = ROk a /\ k a = ROk b.
Proof. destruct r; cbn; [eauto|discriminate]. Qed.
Lemma guard_ok b e : guard b e = ROk tt -> b = true.
Proof. destruct b; cbn; [auto|discriminate]. Qed.

Ltac rinv H :=
  repeat match type of H with
         | rbind (guard ?b ?e) _ = ROk _ =>
           let G := fresh "G" in let x := fresh in
           apply rbind_ok in H; destruct H as (x & G & H); destruct x; apply guard_ok in G
         | rbind _ _ = ROk _ =>
           let G := fresh "G" in let x := fresh "x" in apply rbind_ok in H; destruct H as (x & G & H)
         end.

Section Table.
  Variable p : policy.
  Variable is_debug : bool.
  Variable sigs : list (ident * fsig).
  Variable g : tglobals.
  Notation check_expr := (Typing.check_expr p is_debug sigs g).
  Notation check_stmt := (Typing.check_stmt p is_debug sigs g).
  Notation check_stmts := (Typing.check_stmts p is_debug sigs g).

  Notation check_args := (Typing.check_args p is_debug sigs g).
  Notation check_fields := (Typing.check_fields p is_debug sigs g).
  Notation check_fact_fields := (Typing.check_fact_fields p is_debug sigs g).
  Notation check_earms := (Typing.check_earms p is_debug sigs g).
  Notation check_sarms := (Typing.check_sarms p is_debug sigs g).
  Notation check_branches := (Typing.check_branches p is_debug sigs g).

  Lemma check_args_ECons cx te e r params :
    check_args cx te (ECons e r) params =
    match params with
    | pt :: ps => t <-- check_expr cx te e ;; _ <-- guard (ty_fits t pt) E_InvalidType ;; check_args cx te r ps
    | [] => ROk tt
    end.
  Proof. destruct params; reflexivity. Qed.
  Lemma check_fact_fields_FCons cx te f e r def :
    check_fact_fields cx te (FCons f e r) def =
    match def with
    | (n, ft) :: ds =>
      _ <-- guard (Nat.eqb (List.length (fields_names (FCons f e r))) (List.length def)) E_InvalidFactLiteral ;;
      _ <-- guard (String.eqb f n) E_InvalidFactLiteral ;;
      t <-- check_expr cx te e ;;
      _ <-- guard (ty_fits t ft) E_InvalidType ;;
      check_fact_fields cx te r ds
    | [] => RErr E_InvalidFactLiteral
    end.
  Proof. destruct def as [|[n ft] ds]; reflexivity. Qed.

  (** what an accepted piece of syntax looks like, outside and inside finish context *)
  Definition two (cx : sctx) (outside inside : bool) : Prop :=
    (is_finish cx = false -> outside = true) /\ (is_finish cx = true -> inside = true).

  Definition T_expr (e : expr) : Prop := forall cx te t, check_expr cx te e = ROk t -> two cx (nw_expr e) (fin_expr_ok e).
  Definition T_exprs (es : exprs) : Prop := forall cx te params u,
    exprs_len es = List.length params -> check_args cx te es params = ROk u -> two cx (nw_exprs es) (fin_exprs_ok es).
  Definition T_fields (fs : fields) : Prop :=
    (forall cx te def u, check_fields cx te fs def = ROk u -> two cx (nw_fields fs) (fin_fields_ok fs))
    /\ (forall cx te def u, check_fact_fields cx te fs def = ROk u -> two cx (nw_fields fs) (fin_fields_ok fs)).
  Definition T_stmt (s : stmt) : Prop := forall cx te last te',
    check_stmt cx te s last = ROk te' -> two cx (nw_stmt s) (fin_stmt_ok s).
  Definition T_stmts (ss : stmts) : Prop := forall cx te te',
    check_stmts cx te ss = ROk te' -> two cx (nw_stmts ss) (fin_stmts_ok ss).
  Definition T_ostmts (o : ostmts) : Prop := match o with ONone => True | OSome ss => T_stmts ss end.
  Definition T_ovals (o : ovals) : Prop := match o with VNone => True | VSome fs => T_fields fs end.
  Definition T_earms (a : earms) : Prop := forall cx te binds acc r,
    check_earms cx te a binds acc = ROk r -> is_finish cx = false -> nw_earms a = true.
  Definition T_sarms (a : sarms) : Prop := forall cx te binds u,
    check_sarms cx te a binds = ROk u -> is_finish cx = false -> nw_sarms a = true.
  Definition T_branches (b : branches) : Prop := forall cx te u,
    check_branches cx te b = ROk u -> is_finish cx = false -> nw_branches b = true.

  Ltac crunch :=
    repeat (match goal with
    | H : rbind _ _ = ROk _ |- _ => rinv H
    | H : RErr _ = ROk _ |- _ => discriminate H
    | H : match ?x with _ => _ end = ROk _ |- _ => destruct x eqn:?; try discriminate H
    end).
  Ltac use_ih :=
    repeat match goal with
    | IH : forall cx te t, Typing.check_expr _ _ _ _ cx te ?e = ROk t -> _,
      G : Typing.check_expr _ _ _ _ ?cx ?te ?e = ROk ?x |- _ =>
      let A := fresh "A" in let B := fresh "B" in destruct (IH _ _ _ G) as [A B]; clear IH
    | IH : _ /\ _ |- _ => let IH1 := fresh "IH" in let IH2 := fresh "IH" in destruct IH as [IH1 IH2]
    | IH : forall cx te def u, Typing.check_fields _ _ _ _ cx te ?e def = ROk u -> _,
      G : Typing.check_fields _ _ _ _ ?cx ?te ?e _ = ROk ?x |- _ =>
      let A := fresh "A" in let B := fresh "B" in destruct (IH _ _ _ _ G) as [A B]; clear IH
    | IH : forall cx te def u, Typing.check_fact_fields _ _ _ _ cx te ?e def = ROk u -> _,
      G : Typing.check_fact_fields _ _ _ _ ?cx ?te ?e _ = ROk ?x |- _ =>
      let A := fresh "A" in let B := fresh "B" in destruct (IH _ _ _ _ G) as [A B]; clear IH
    | IH : forall cx te binds acc r, Typing.check_earms _ _ _ _ cx te ?e binds acc = ROk r -> _,
      G : Typing.check_earms _ _ _ _ ?cx ?te ?e _ _ = ROk ?x |- _ =>
      let A := fresh "A" in pose proof (IH _ _ _ _ _ G) as A; clear IH
    | IH : forall cx te binds u, Typing.check_sarms _ _ _ _ cx te ?e binds = ROk u -> _,
      G : Typing.check_sarms _ _ _ _ ?cx ?te ?e _ = ROk ?x |- _ =>
      let A := fresh "A" in pose proof (IH _ _ _ _ G) as A; clear IH
    | IH : forall cx te u, Typing.check_branches _ _ _ _ cx te ?e = ROk u -> _,
      G : Typing.check_branches _ _ _ _ ?cx ?te ?e = ROk ?x |- _ =>
      let A := fresh "A" in pose proof (IH _ _ _ G) as A; clear IH
    | IH : forall cx te params u, exprs_len ?e = List.length params -> Typing.check_args _ _ _ _ cx te ?e params = ROk u -> _,
      G : Typing.check_args _ _ _ _ ?cx ?te ?e ?ps = ROk ?x, L : (_ =? _)%nat = true |- _ =>
      let A := fresh "A" in let B := fresh "B" in
      apply Nat.eqb_eq in L; symmetry in L || idtac;
      first [ destruct (IH _ _ _ _ L G) as [A B] | destruct (IH _ _ _ _ (eq_sym L) G) as [A B] ]; clear IH
    | IH : forall cx te te', Typing.check_stmts _ _ _ _ cx te ?e = ROk te' -> _,
      G : Typing.check_stmts _ _ _ _ ?cx ?te ?e = ROk ?x |- _ =>
      let A := fresh "A" in let B := fresh "B" in destruct (IH _ _ _ G) as [A B]; clear IH
    | IH : forall cx te last te', Typing.check_stmt _ _ _ _ cx te ?e last = ROk te' -> _,
      G : Typing.check_stmt _ _ _ _ ?cx ?te ?e _ = ROk ?x |- _ =>
      let A := fresh "A" in let B := fresh "B" in destruct (IH _ _ _ _ G) as [A B]; clear IH
    end.
  Ltac solve_bools :=
    repeat match goal with
    | A : ?c -> _ = true, Hc : ?c |- _ => rewrite (A Hc); clear A
    end; cbn; auto.

  Theorem table_all :
    (forall e, T_expr e) /\ (forall es, T_exprs es) /\ (forall fs, T_fields fs) /\ (forall s, T_stmt s)
    /\ (forall ss, T_stmts ss) /\ (forall o, T_ostmts o) /\ (forall o, T_ovals o)
    /\ (forall a, T_earms a) /\ (forall a, T_sarms a) /\ (forall b, T_branches b).
  Proof.
    apply syntax_mutind; unfold T_expr, T_exprs, T_fields, T_stmt, T_stmts, T_ostmts, T_ovals, T_earms, T_sarms, T_branches, two;
      intros; auto.
    all: try match goal with H : check_args _ _ (ECons _ _) ?ps = ROk _ |- _ =>
                 rewrite check_args_ECons in H; destruct ps; [cbn in *; discriminate|] end.
    all: try match goal with |- (forall cx te def u, check_fields _ _ (FCons _ _ _) _ = _ -> _) /\ _ => split; intros end.
    all: try match goal with H : check_fact_fields _ _ (FCons _ _ _) ?d = ROk _ |- _ =>
                 rewrite check_fact_fields_FCons in H; destruct d as [|[? ?] ?]; [discriminate|] end.
    all: try (match goal with H : _ = ROk _ |- _ => autorewrite with ckq in H end).
    all: crunch.
    all: unfold T_stmts in *.
    all: try match goal with |- (is_finish _ = false -> _) /\ _ => split; intro Hc; try (rewrite Hc in *); cbn in *; try discriminate; use_ih; try solve_bools end.
    - apply Nat.eqb_eq in G2. destruct (H cx te (map snd (fst x)) x1) as [A B]; [rewrite map_length; auto|auto|auto].
    - apply Nat.eqb_eq in G2. destruct (H (CxPolicy c) te (map snd (rc_params x0)) x1) as [A B]; [rewrite map_length; auto|auto|auto].
    - destruct (H0 cx te params u) as [A' B']; [congruence|auto|auto].
    - destruct (H0 cx te params u) as [A' B']; [congruence|auto|auto].
    - destruct cx; cbn in *; discriminate.
    - destruct H0 as [_ Hf]. destruct (Hf _ _ _ _ G3) as [_ B]. rewrite (B Hc). auto.
    - apply Nat.eqb_eq in G2. destruct (H cx te (map snd (fst x)) x0) as [A B]; [rewrite map_length; auto|auto|auto].
    - apply Nat.eqb_eq in G1. destruct (H (CxPolicy c) te (map snd (rc_params x0)) x1) as [A B]; [rewrite map_length; auto|auto|auto].
    - cbn. destruct (H _ _ _ G0) as [A _]. rewrite (A H2), (H0 _ _ _ _ _ H1 H2). auto.
    - cbn. destruct (H _ _ _ G0) as [A _]. rewrite (A H2), (H0 _ _ _ _ _ H1 H2). auto.
    - cbn. destruct (H _ _ _ G0) as [A _]. rewrite (A H2), (H0 _ _ _ _ H1 H2). auto.
    - cbn. destruct (H _ _ _ G) as [A _]. destruct (H0 _ _ _ G1) as [A' _]. rewrite (A H3), (A' H3), (H1 _ _ _ H2 H3). auto.
  Qed.

  (** C30, source level: a function-like body accepted in a non-finish context contains
      write statements only inside finish blocks, whose statements are finish code; a
      body accepted in finish context is finish code *)
  Corollary accepted_outside cx te ss te' :
    check_stmts cx te ss = ROk te' -> is_finish cx = false -> nw_stmts ss = true.
  Proof. intros H Hc. destruct table_all as (_ & _ & _ & _ & Hs & _). exact (proj1 (Hs ss cx te te' H) Hc). Qed.
  Corollary accepted_finish te ss te' :
    check_stmts CxFinish te ss = ROk te' -> fin_stmts_ok ss = true.
  Proof. intros H. destruct table_all as (_ & _ & _ & _ & Hs & _). exact (proj2 (Hs ss CxFinish te te' H) eq_refl). Qed.
End Table.

(** ** The compiled code: write instructions only inside [Meta (Finish true); Block; ...; End; Exit] *)
Definition is_write (i : Instruction) : bool :=
  match i with I_Create | I_Update | I_Delete | I_Emit => true | _ => false end.
(** what finish code compiles to: straight-line instructions, calls (of finish functions),
    no branch, jump, exit, recall or return *)
Definition fin_instr (i : Instruction) : bool :=
  match i with
  | I_Const _ | I_Get _ | I_StructNew _ | I_StructSet _ | I_StructGet _ | I_Wrap _ | I_Dup
  | I_FactNew _ | I_FactKeySet _ | I_FactValueSet _ | I_Create | I_Update | I_Delete | I_Emit
  | I_Call _ | I_Add | I_Sub | I_SaturatingAdd | I_SaturatingSub => true
  | _ => false
  end.
Definition opens_finish (i : Instruction) : bool :=
  match i with I_Meta (M_Finish true) => true | _ => false end.
Definition nowr (i : Instruction) : bool := negb (is_write i) && negb (opens_finish i).

(** [scan false c]: [c] is code outside finish; a write instruction occurs only in a segment
    [Meta (Finish true); Block; <fin_instr ...>; End; Exit Normal|Check], after which the
    scan is outside again. *)
Fixpoint scan (inf : bool) (c : list Instruction) : bool :=
  match c with
  | [] => negb inf
  | i :: r =>
    if inf then
      match i with
      | I_End => match r with
                 | I_Exit ER_Normal :: r' => scan false r'
                 | I_Exit ER_Check :: r' => scan false r'
                 | _ => false
                 end
      | _ => fin_instr i && scan true r
      end
    else
      match i with
      | I_Meta (M_Finish true) => match r with I_Block :: r' => scan true r' | _ => false end
      | _ => negb (is_write i) && scan false r
      end
  end.

Lemma scan_plain c r : forallb fin_instr c = true -> scan true (c ++ r) = scan true r.
Proof.
  induction c as [|i c IH]; cbn [forallb app]; intros H; [reflexivity|].
  apply andb_prop in H. destruct H as [Hi Hc]. specialize (IH Hc).
  destruct i; cbn in Hi; try discriminate Hi; cbn [scan fin_instr andb]; exact IH.
Qed.
Lemma scan_nowr c r : forallb nowr c = true -> scan false (c ++ r) = scan false r.
Proof.
  induction c as [|i c IH]; cbn [forallb app]; intros H; [reflexivity|].
  apply andb_prop in H. destruct H as [Hi Hc]. specialize (IH Hc). unfold nowr in Hi.
  apply andb_prop in Hi. destruct Hi as [Hw Ho].
  destruct i; cbn in Hw, Ho; try discriminate Hw; cbn [scan is_write negb andb]; try exact IH.
  destruct m as [[|]|]; cbn in Ho; try discriminate Ho; cbn [scan is_write negb andb]; exact IH.
Qed.
Lemma scan_app_gen r : forall n c b, (List.length c <= n)%nat -> scan b c = true -> scan b (c ++ r) = scan false r.
Proof.
  induction n as [|n IH]; intros c b Hl H.
  - destruct c; [|cbn in Hl; lia]. destruct b; cbn in H; [discriminate|reflexivity].
  - destruct c as [|i c]; [destruct b; cbn in H; [discriminate|reflexivity]|].
    cbn in Hl. destruct b.
    + destruct i; cbn [scan app] in *;
        try (apply andb_prop in H; destruct H as [Hi H]; rewrite Hi; cbn [andb]; apply IH; [lia|exact H]).
      destruct c as [|j c]; [discriminate|]. destruct j; try discriminate. cbn [app].
      match goal with H : match ?x with _ => _ end = true |- _ => destruct x; try discriminate H end;
        (apply (IH c false); [cbn in Hl; lia|exact H]).
    + destruct i; cbn [scan app] in *;
        try (apply andb_prop in H; destruct H as [Hi H]; rewrite Hi; cbn [andb]; apply IH; [lia|exact H]).
      destruct m as [[|]|].
      * destruct c as [|j c]; [discriminate|]. destruct j; try discriminate. cbn [app].
        apply (IH c true); [cbn in Hl; lia|exact H].
      * apply andb_prop in H; destruct H as [Hi H]; rewrite Hi; cbn [andb]; apply IH; [lia|exact H].
      * apply andb_prop in H; destruct H as [Hi H]; rewrite Hi; cbn [andb]; apply IH; [lia|exact H].
Qed.
Lemma scan_app c r : scan false c = true -> scan false (c ++ r) = scan false r.
Proof. apply (scan_app_gen r (List.length c)); auto. Qed.
Lemma scan_of_nowr c : forallb nowr c = true -> scan false c = true.
Proof. intros H. rewrite <- (app_nil_r c), scan_nowr by exact H. reflexivity. Qed.
Lemma forallb_app' {A} (f : A -> bool) a b : forallb f a = true -> forallb f b = true -> forallb f (a ++ b) = true.
Proof. intros. rewrite forallb_app. rewrite H, H0. reflexivity. Qed.

Lemma nowr_d_lit p l : forallb nowr (d_lit p l) = true.
Proof. induction l; cbn; auto; rewrite forallb_app, IHl; reflexivity. Qed.
Lemma nowr_d_tests p vals arm : forallb nowr (d_tests p vals arm) = true.
Proof.
  induction vals as [|[l|w x] r IH]; cbn [d_tests]; auto.
  rewrite !forallb_app, nowr_d_lit, IH. reflexivity.
Qed.
Lemma nowr_d_patterns p pats : forall addrs, forallb nowr (d_patterns p pats addrs) = true.
Proof.
  induction pats as [|pt r IH]; intros; cbn [d_patterns]; auto.
  rewrite forallb_app, IH. destruct pt; cbn [d_pattern]; [rewrite nowr_d_tests|]; reflexivity.
Qed.
Lemma nowr_d_arm_head pt : forallb nowr (d_arm_head pt) = true.
Proof. unfold d_arm_head. destruct (match pt with PVals v => first_bind v | PDefault => None end) as [[w x]|]; reflexivity. Qed.
Lemma nowr_cmp op : forallb nowr (cmp_instrs op) = true.
Proof. destruct op; reflexivity. Qed.

Section ScanCode.
  Variable p : policy.
  Variable is_debug : bool.
  Variable la : Label -> N.
  Variable cmd : ident.
  Variable in_recall : bool.
  Notation d_expr := (CompileDirect.d_expr p is_debug la cmd in_recall).
  Notation d_exprs := (CompileDirect.d_exprs p is_debug la cmd in_recall).
  Notation d_fields := (CompileDirect.d_fields p is_debug la cmd in_recall).
  Notation d_fkeys := (CompileDirect.d_fkeys p is_debug la cmd in_recall).
  Notation d_fvals := (CompileDirect.d_fvals p is_debug la cmd in_recall).
  Notation d_earms := (CompileDirect.d_earms p is_debug la cmd in_recall).
  Notation d_stmt := (CompileDirect.d_stmt p is_debug la cmd in_recall).
  Notation d_stmts := (CompileDirect.d_stmts p is_debug la cmd in_recall).
  Notation d_branches := (CompileDirect.d_branches p is_debug la cmd in_recall).
  Notation d_sarms := (CompileDirect.d_sarms p is_debug la cmd in_recall).

  Definition both (outside inside : bool) (c : list Instruction) : Prop :=
    (outside = true -> scan false c = true) /\ (inside = true -> forallb fin_instr c = true).

  Definition S_expr (e : expr) : Prop := forall pc, both (nw_expr e) (fin_expr_ok e) (d_expr pc e).
  Definition S_exprs (es : exprs) : Prop := forall pc, both (nw_exprs es) (fin_exprs_ok es) (d_exprs pc es).
  Definition S_fields (fs : fields) : Prop := forall pc,
    both (nw_fields fs) (fin_fields_ok fs) (d_fields pc fs)
    /\ both (nw_fields fs) (fin_fields_ok fs) (d_fkeys pc fs)
    /\ both (nw_fields fs) (fin_fields_ok fs) (d_fvals pc fs).
  Definition S_stmt (s : stmt) : Prop := forall pc, both (nw_stmt s) (fin_stmt_ok s) (d_stmt pc s).
  Definition S_stmts (ss : stmts) : Prop := forall pc, both (nw_stmts ss) (fin_stmts_ok ss) (d_stmts pc ss).
  Definition S_ostmts (o : ostmts) : Prop := match o with ONone => True | OSome ss => S_stmts ss end.
  Definition S_ovals (o : ovals) : Prop := match o with VNone => True | VSome fs => S_fields fs end.
  Definition S_earms (a : earms) : Prop := forall pc endl, nw_earms a = true -> scan false (d_earms pc endl a) = true.
  Definition S_sarms (a : sarms) : Prop := forall pc endl, nw_sarms a = true -> scan false (d_sarms pc endl a) = true.
  Definition S_branches (b : branches) : Prop := forall pc endl, nw_branches b = true -> scan false (d_branches pc endl b) = true.

  Lemma d_call_fin f : fin_instr (d_call la f) = true.
  Proof.
    unfold d_call, builtin_instr.
    repeat match goal with |- context [if ?c then _ else _] => destruct c; [reflexivity|] end. reflexivity.
  Qed.
  Lemma d_call_nowr f : nowr (d_call la f) = true.
  Proof.
    unfold d_call, builtin_instr.
    repeat match goal with |- context [if ?c then _ else _] => destruct c; [reflexivity|] end. reflexivity.
  Qed.

  Ltac bools :=
    repeat match goal with
           | H : _ && _ = true |- _ => apply andb_prop in H; destruct H
           end.
  Ltac ih_out :=
    first
    [ assumption
    | solve [apply scan_of_nowr; auto using nowr_d_patterns, nowr_d_arm_head, nowr_cmp]
    | match goal with
      | IH : forall pc : N, _ |- scan false (_ ?pc' _) = true =>
        first [ apply (proj1 (IH pc')); assumption
              | apply (proj1 (proj1 (IH pc'))); assumption
              | apply (proj1 (proj1 (proj2 (IH pc')))); assumption
              | apply (proj1 (proj2 (proj2 (IH pc')))); assumption ]
      end
    | match goal with
      | IH : forall pc endl : N, _ |- scan false (_ ?pc' ?e' _) = true => apply (IH pc' e'); assumption
      end ].
  Ltac ih_in :=
    first
    [ assumption
    | reflexivity
    | match goal with
      | IH : forall pc : N, _ |- forallb fin_instr (_ ?pc' _) = true =>
        first [ apply (proj2 (IH pc')); assumption
              | apply (proj2 (proj1 (IH pc'))); assumption
              | apply (proj2 (proj1 (proj2 (IH pc')))); assumption
              | apply (proj2 (proj2 (proj2 (IH pc')))); assumption ]
      end ].
  Ltac out_step :=
    first [ rewrite scan_app by ih_out
          | progress cbn [scan app is_write negb andb]
          | ih_out ].
  Ltac in_step :=
    first [ rewrite forallb_app | progress cbn [forallb app fin_instr andb] | rewrite d_call_fin
          | match goal with |- context [forallb fin_instr ?c] => let H := fresh in assert (H : forallb fin_instr c = true) by ih_in; rewrite H; clear H end ].

  Theorem scan_all :
    (forall e, S_expr e) /\ (forall es, S_exprs es) /\ (forall fs, S_fields fs) /\ (forall s, S_stmt s)
    /\ (forall ss, S_stmts ss) /\ (forall o, S_ostmts o) /\ (forall o, S_ovals o)
    /\ (forall a, S_earms a) /\ (forall a, S_sarms a) /\ (forall b, S_branches b).
  Proof.
    apply syntax_mutind; unfold S_expr, S_exprs, S_fields, S_stmt, S_stmts, S_ostmts, S_ovals, S_earms, S_sarms, S_branches, both;
      intros; auto.
    all: autorewrite with deq.
    all: repeat split; intros; repeat match goal with H : _ = true |- _ => progress cbn in H end; try discriminate; bools.
    all: try solve [repeat out_step; auto].
    all: try solve [repeat in_step; auto].
    - destruct w; try discriminate. repeat in_step; auto.
    - destruct (struct_fields_of p s) as [fs|]; [|reflexivity].
      cbn [scan is_write negb andb]. rewrite scan_app by ih_out. apply scan_of_nowr.
      rewrite forallb_app. replace (forallb nowr (map (fun f : ident * TypeKind => I_Identifier (fst f)) fs)) with true.
      + destruct fs; reflexivity.
      + induction fs; cbn; auto.
    - destruct some; repeat out_step; auto.
    - rewrite scan_app by ih_out. apply scan_of_nowr. cbn [forallb]. rewrite d_call_nowr. reflexivity.
    - cbn [scan is_write negb andb]. rewrite scan_app by ih_out.
      destruct (find _ (p_ffi p)); reflexivity.
    - destruct fallback as [|ss]; cbv zeta; [rewrite app_nil_r; ih_out|].
      unfold S_stmts, both in *. cbn in H2. repeat out_step; auto.
    - cbv zeta. cbn [scan]. rewrite scan_plain by ih_in. destruct in_recall; reflexivity.
    - cbv zeta. destruct vals as [|fs]; unfold S_fields, both in *; repeat in_step; auto.
    - destruct is_debug; [|reflexivity]. repeat out_step; auto.
  Qed.
End ScanCode.

(** ** What [Compile.compile] accepts: every body passed [Typing.check_function_like] in its context *)
Section Accepted.
  Variable p : policy.
  Variable dbg : bool.

  Definition fl_ok (g : tglobals) (cx : sctx) (params : list (ident * TypeKind)) (ret : option TypeKind) (body : stmts) : Prop :=
    check_function_like p dbg g cx params ret body = ROk tt.

  Definition cmd_ok (g : tglobals) (c : cmddef) : Prop :=
    fl_ok g (CxPolicy c) [("this", TK_Struct (cmd_name c)); ("envelope", envelope_ty)] None (cmd_policy c)
    /\ Forall (fun r => fl_ok g (CxRecall c)
                          (rc_params r ++ [("this", TK_Struct (cmd_name c)); ("envelope", envelope_ty)])%list None (rc_body r))
              (cmd_recalls c)
    /\ fl_ok g (CxPure envelope_ty) [("this", TK_Struct (cmd_name c)); ("payload", TK_Bytes)] (Some envelope_ty) (cmd_seal c)
    /\ fl_ok g (CxPure TK_Unit) [("this", TK_Struct (cmd_name c)); ("payload", TK_Bytes); ("envelope", envelope_ty)]
             (Some TK_Unit) (cmd_open c).

  Definition accepted (g : tglobals) : Prop :=
    Forall (fun d => fl_ok g (CxPure (fn_ret d)) (fn_params d) (Some (fn_ret d)) (fn_body d)) (p_funs p)
    /\ Forall (fun d => fl_ok g CxFinish (ff_params d) None (ff_body d)) (p_finfuns p)
    /\ Forall (cmd_ok g) (p_cmds p)
    /\ Forall (fun a => fl_ok g (CxAction (act_ret a)) (act_params a) (act_ret a) (act_body a)) (p_actions p).

  Lemma fl_inv g cx cmd ir params ret body l st :
    cs_err (c_function_like p dbg g cx cmd ir params ret body l st) = None ->
    cs_err st = None /\ fl_ok g cx params ret body.
  Proof.
    unfold c_function_like, fl_ok. destruct (cs_err st) eqn:E; [intros H; rewrite E in H; discriminate|].
    destruct (check_function_like p dbg g cx params ret body) as [[]|e]; [auto|].
    intros H. cbn in H. destruct (cs_err (def_label l st)); discriminate.
  Qed.

  Lemma fold_inv {A} (f : cstate -> A -> cstate) (Q : A -> Prop) :
    (forall st a, cs_err (f st a) = None -> cs_err st = None /\ Q a) ->
    forall l st, cs_err (fold_left f l st) = None -> cs_err st = None /\ Forall Q l.
  Proof.
    intros Hf l. induction l as [|a l IH]; intros st H; cbn in *; [auto|].
    destruct (IH _ H) as [H1 H2]. destruct (Hf _ _ H1). auto.
  Qed.

  Lemma fun_inv g st d : cs_err (c_function p dbg g d st) = None ->
    cs_err st = None /\ fl_ok g (CxPure (fn_ret d)) (fn_params d) (Some (fn_ret d)) (fn_body d).
  Proof. apply fl_inv. Qed.
  Lemma finfun_inv g st d : cs_err (c_finish_function p dbg g d st) = None ->
    cs_err st = None /\ fl_ok g CxFinish (ff_params d) None (ff_body d).
  Proof.
    unfold c_finish_function. intros H. eapply fl_inv.
    destruct (cs_err (c_function_like _ _ _ _ _ _ _ _ _ _ _)) eqn:E in H; [rewrite E in H; discriminate|eassumption].
  Qed.
  Lemma action_inv g st a : cs_err (c_action p dbg g a st) = None ->
    cs_err st = None /\ fl_ok g (CxAction (act_ret a)) (act_params a) (act_ret a) (act_body a).
  Proof.
    unfold c_action. intros H. eapply fl_inv.
    destruct (cs_err (c_function_like _ _ _ _ _ _ _ _ _ _ _)) eqn:E in H; [rewrite E in H; discriminate|eassumption].
  Qed.
  Lemma emit_if_ok_inv i st :
    cs_err (match cs_err st with Some _ => st | None => emit i st end) = None -> cs_err st = None.
  Proof. destruct (cs_err st) eqn:E; [rewrite E; auto|auto]. Qed.
  Lemma command_inv g st c : cs_err (c_command p dbg g c st) = None -> cs_err st = None /\ cmd_ok g c.
  Proof.
    unfold c_command, cmd_ok. cbv zeta. intros H.
    apply fl_inv in H. destruct H as [H Hopen].
    apply fl_inv in H. destruct H as [H Hseal].
    match type of H with cs_err (match cs_err ?s with _ => _ end) = None => assert (H' : cs_err s = None) end.
    { match type of H with cs_err (match cs_err ?s with _ => _ end) = None => destruct (cs_err s) eqn:E end;
        [rewrite E in H; discriminate|reflexivity]. }
    clear H.
    apply (fold_inv _ (fun r => fl_ok g (CxRecall c)
             (rc_params r ++ [("this", TK_Struct (cmd_name c)); ("envelope", envelope_ty)])%list None (rc_body r))) in H'.
    - destruct H' as [H Hrec]. apply emit_if_ok_inv in H. apply fl_inv in H. destruct H as [H Hpol]. auto.
    - intros st0 r H0. destruct (cs_err st0) eqn:E0; [rewrite E0 in H0; discriminate|].
      apply emit_if_ok_inv in H0. apply fl_inv in H0. destruct H0. auto.
  Qed.

  Theorem compile_accepted x : Compile.compile p dbg = ROk x -> exists g, tglobals_of p = ROk g /\ accepted g.
  Proof.
    unfold Compile.compile. destruct (cs_err (compile_state p dbg)) eqn:E; [discriminate|]. intros _.
    unfold compile_state in E. destruct (check_defs p); [|cbn in E; discriminate].
    destruct (tglobals_of p) as [g|]; [|cbn in E; discriminate].
    exists g. split; [reflexivity|].
    apply (fold_inv _ _ (action_inv g)) in E. destruct E as [E Ha].
    apply (fold_inv _ _ (command_inv g)) in E. destruct E as [E Hc].
    apply (fold_inv _ _ (finfun_inv g)) in E. destruct E as [E Hff].
    apply (fold_inv _ _ (fun_inv g)) in E. destruct E as [E Hf].
    unfold accepted. auto.
  Qed.
End Accepted.

(** ** C30, syntactic form, for whole policies *)
Section Program.
  Variable p : policy.
  Variable dbg : bool.

  Lemma fl_nw g cx params ret body :
    fl_ok p dbg g cx params ret body -> is_finish cx = false -> nw_stmts body = true.
  Proof.
    unfold fl_ok, check_function_like. intros H Hc. rinv H.
    eapply accepted_outside; eauto.
  Qed.
  Lemma fl_fin g params ret body : fl_ok p dbg g CxFinish params ret body -> fin_stmts_ok body = true.
  Proof.
    unfold fl_ok, check_function_like. intros H. rinv H.
    eapply accepted_finish; eauto.
  Qed.

  Variable la : Label -> N.

  Lemma nowr_defs (params : list (ident * TypeKind)) : forallb nowr (map (fun x => I_Def (fst x)) params) = true.
  Proof. induction params; cbn; auto. Qed.

  Lemma function_like_scan cmd ir pc params has_ret body :
    nw_stmts body = true -> scan false (d_function_like p dbg la cmd ir pc params has_ret body) = true.
  Proof.
    intros H. unfold d_function_like. cbv zeta.
    rewrite scan_nowr by apply nowr_defs.
    assert (Hb : forall pc', scan false (d_stmts p dbg la cmd ir pc' body) = true).
    { intros pc'. destruct (scan_all p dbg la cmd ir) as (_ & _ & _ & _ & Hs & _). apply (proj1 (Hs body pc')). exact H. }
    destruct has_ret; cbn [app scan is_write negb andb]; rewrite scan_app by apply Hb; reflexivity.
  Qed.

  Lemma finish_function_code pc d :
    fin_stmts_ok (ff_body d) = true ->
    exists code, d_finish_function p dbg la pc d
                 = (map (fun x => I_Def (fst x)) (rev (ff_params d)) ++ code ++ [I_Return])%list
                 /\ forallb fin_instr code = true.
  Proof.
    intros H. unfold d_finish_function, d_function_like. cbv zeta.
    eexists. split.
    - cbn [app]. rewrite app_nil_r, <- app_assoc. reflexivity.
    - destruct (scan_all p dbg la "" false) as (_ & _ & _ & _ & Hs & _). apply (proj2 (Hs (ff_body d) _)). exact H.
  Qed.

  Lemma recall_blocks_scan g c rs : forall pc,
    Forall (fun r => fl_ok p dbg g (CxRecall c)
                       (rc_params r ++ [("this", TK_Struct (cmd_name c)); ("envelope", envelope_ty)])%list None (rc_body r)) rs ->
    scan false (d_recall_blocks p dbg la pc c rs) = true.
  Proof.
    induction rs as [|r rs IH]; intros pc H; cbn [d_recall_blocks]; [reflexivity|].
    inversion H; subst. unfold d_recall_block. rewrite <- app_assoc.
    rewrite scan_app by (apply function_like_scan; eapply fl_nw; eauto).
    cbn [app scan is_write negb andb]. apply IH. assumption.
  Qed.

  Definition writes_only_in_finish_partial_stmt : Prop :=
    forall x, Compile.compile p dbg = ROk x ->
      (forall pc d, In d (p_funs p) -> scan false (d_function p dbg la pc d) = true)
      /\ (forall pc c, In c (p_cmds p) -> scan false (d_command p dbg la pc c) = true)
      /\ (forall pc a, In a (p_actions p) -> scan false (d_action p dbg la pc a) = true)
      /\ (forall pc d, In d (p_finfuns p) ->
            exists code, d_finish_function p dbg la pc d
                         = (map (fun x => I_Def (fst x)) (rev (ff_params d)) ++ code ++ [I_Return])%list
                         /\ forallb fin_instr code = true).

  Theorem writes_only_in_finish_partial_proof : writes_only_in_finish_partial_stmt.
  Proof.
    intros x Hc. destruct (compile_accepted p dbg x Hc) as (g & _ & Hf & Hff & Hcm & Ha).
    rewrite Forall_forall in Hf, Hff, Hcm, Ha. repeat split.
    - intros pc d Hin. apply function_like_scan. eapply fl_nw; [apply (Hf d Hin)|reflexivity].
    - intros pc c Hin. destruct (Hcm c Hin) as (Hpol & Hrec & Hseal & Hopen).
      unfold d_command. cbv zeta. unfold d_policy_block. rewrite <- app_assoc.
      rewrite scan_app by (apply function_like_scan; eapply fl_nw; [apply Hpol|reflexivity]).
      cbn [app scan is_write negb andb].
      rewrite scan_app by (eapply recall_blocks_scan; eauto).
      rewrite scan_app by (apply function_like_scan; eapply fl_nw; [apply Hseal|reflexivity]).
      apply function_like_scan. eapply fl_nw; [apply Hopen|reflexivity].
    - intros pc a Hin. unfold d_action.
      assert (Hn : nw_stmts (act_body a) = true) by (eapply fl_nw; [apply (Ha a Hin)|reflexivity]).
      destruct (act_ret a); [apply function_like_scan; exact Hn|].
      rewrite scan_app by (apply function_like_scan; exact Hn). reflexivity.
    - intros pc d Hin. apply finish_function_code. eapply fl_fin. apply (Hff d Hin).
  Qed.
End Program.

(** ** C30, full statement (about runs; NOT proved - see props/C30.v) *)
Definition is_recall_ctx (c : CommandContext) : bool := match c with CC_Recall _ => true | _ => false end.
Definition writes_only_in_finish_full_stmt : Prop :=
  forall (St Wl : Type) (io : MachineIO St) (wl : St -> Wl) (dbg : bool) (p : policy) (is_debug : bool)
         (code : list Instruction) (labels : list (Label * N)),
    (* [wl]: the log of fact writes and effects; reads, foreign calls and (de)serialisation leave it alone *)
    (forall s n k, wl (fst (io_fact_query io s n k)) = wl s) ->
    (forall s a b st c, wl (fst (fst (io_call io s a b st c))) = wl s) ->
    (forall s x, wl (fst (io_serialize io s x)) = wl s) ->
    (forall s n b, wl (fst (io_deserialize io s n b)) = wl s) ->
    Compile.compile p is_debug = ROk (code, labels) ->
    forall m : Machine, progmem m = code ->
    forall c, In c (p_cmds p) ->
    forall rs0 : RunState St,
      rs_pc rs0 = label_addr labels (mkLabel (cmd_name c) LT_CommandPolicy) -> rs_call_state rs0 = [] ->
      forall n r rs', run dbg io m n rs0 = RunExited r rs' ->
        (r = ER_Panic \/ (r = ER_Check /\ is_recall_ctx (rs_ctx rs') = false)) ->
        wl (rs_io rs') = wl (rs_io rs0).
