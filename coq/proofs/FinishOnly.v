(** C30, the syntactic part: what the statement-context table of [Typing.v] accepts
    has fact writes and effects only inside finish blocks / finish functions, finish
    code is made of whitelisted expressions only, and in the compiled code the
    write instructions sit inside [Meta (Finish true) ... Exit] regions whose
    instructions cannot branch, exit with a check or a panic, or recall. *)
From Aranya Require Import base.Tactics model.VmBase gen.GenVm model.Vm model.Lang model.Typing
  model.Compile model.CompileDirect proofs.SimBase proofs.CompileEqns proofs.CompileLayout.
Local Open Scope N_scope.

(** ** Finish code: whitelisted expressions, write statements and finish-function calls only *)
Fixpoint fin_expr_ok (e : expr) : bool :=
  match e with
  | EUnit | EInt _ | EStr _ | EBool _ | EVar _ | ENone | EEnum _ _ => true
  | EWrap W_Some e => fin_expr_ok e
  | EStruct _ fs => fin_fields_ok fs
  | EDot e _ => fin_expr_ok e
  | _ => false
  end
with fin_fields_ok (fs : fields) : bool :=
  match fs with FNil => true | FCons _ e r => fin_expr_ok e && fin_fields_ok r end.
Fixpoint fin_exprs_ok (es : exprs) : bool :=
  match es with ENil => true | ECons e r => fin_expr_ok e && fin_exprs_ok r end.
Definition fin_stmt_ok (s : stmt) : bool :=
  match s with
  | SCreate _ k v => fin_fields_ok k && fin_fields_ok v
  | SUpdate _ k vals to =>
    fin_fields_ok k && (match vals with VNone => true | VSome fs => fin_fields_ok fs end) && fin_fields_ok to
  | SDelete _ k => fin_fields_ok k
  | SEmit e => fin_expr_ok e
  | SCall _ args => fin_exprs_ok args
  | _ => false
  end.
Fixpoint fin_stmts_ok (ss : stmts) : bool :=
  match ss with SNil => true | SCons s r => fin_stmt_ok s && fin_stmts_ok r end.

(** ** Code outside finish: no write statement, every finish block is finish code *)
Fixpoint nw_expr (e : expr) : bool :=
  match e with
  | EUnit | EInt _ | EStr _ | EBool _ | EEnum _ _ | ENone | EVar _ | ETodo => true
  | EWrap _ e | EDot e _ | ESubstruct e _ | ECast e _ | ENot e | EIs e _ | EReturn e => nw_expr e
  | EStruct _ fs => nw_fields fs
  | EAnd a b | EOr a b | EBin _ a b | ECoalesce a b => nw_expr a && nw_expr b
  | EIf c t f => nw_expr c && nw_expr t && nw_expr f
  | EBlock ss e => nw_stmts ss && nw_expr e
  | EMatch e arms => nw_expr e && nw_earms arms
  | ECall _ args | EFfi _ _ args | ERecall _ args => nw_exprs args
  end
with nw_exprs (es : exprs) : bool :=
  match es with ENil => true | ECons e r => nw_expr e && nw_exprs r end
with nw_fields (fs : fields) : bool :=
  match fs with FNil => true | FCons _ e r => nw_expr e && nw_fields r end
with nw_stmt (s : stmt) : bool :=
  match s with
  | SLet _ e | SReturn e | SDebugAssert e => nw_expr e
  | SCheck e els => nw_expr e && nw_expr els
  | SIf bs fb => nw_branches bs && nw_ostmts fb
  | SMatch e arms => nw_expr e && nw_sarms arms
  | SFinish ss => fin_stmts_ok ss
  | SCreate _ _ _ | SUpdate _ _ _ _ | SDelete _ _ | SEmit _ | SCall _ _ => false
  | SRecall _ args => nw_exprs args
  end
with nw_stmts (ss : stmts) : bool :=
  match ss with SNil => true | SCons s r => nw_stmt s && nw_stmts r end
with nw_ostmts (o : ostmts) : bool :=
  match o with ONone => true | OSome ss => nw_stmts ss end
with nw_ovals (o : ovals) : bool :=
  match o with VNone => true | VSome fs => nw_fields fs end
with nw_earms (a : earms) : bool :=
  match a with EANil => true | EACons _ e r => nw_expr e && nw_earms r end
with nw_sarms (a : sarms) : bool :=
  match a with SANil => true | SACons _ ss r => nw_stmts ss && nw_sarms r end
with nw_branches (b : branches) : bool :=
  match b with BNil => true | BCons c ss r => nw_expr c && nw_stmts ss && nw_branches r end.

(** inversion of the checker's monad *)
Lemma rbind_ok {A B} (r : R A) (k : A -> R B) b : rbind r k = ROk b -> exists a, r = ROk a /\ k a = ROk b.
Proof. destruct r; cbn; [eauto|discriminate]. Qed.
Lemma guard_ok b e : guard b e = ROk tt -> b = true.
Proof. destruct b; cbn; [auto|discriminate]. Qed.

Ltac rinv H :=
  repeat match type of H with
         | rbind (guard ?b ?e) _ = ROk _ =>
           let G := fresh "G" in let x := fresh in
           apply rbind_ok in H; destruct H as (x & G & H); destruct x; apply guard_ok in G
         | rbind _ _ = ROk _ =>
           let G := fresh "G" in let x := fresh "x" in apply rbind_ok in H; destruct H as (x & G & H)
         end.

Section Table.
  Variable p : policy.
  Variable is_debug : bool.
  Variable sigs : list (ident * fsig).
  Variable g : tglobals.
  Notation check_expr := (Typing.check_expr p is_debug sigs g).
  Notation check_stmt := (Typing.check_stmt p is_debug sigs g).
  Notation check_stmts := (Typing.check_stmts p is_debug sigs g).

  Notation check_args := (Typing.check_args p is_debug sigs g).
  Notation check_fields := (Typing.check_fields p is_debug sigs g).
  Notation check_fact_fields := (Typing.check_fact_fields p is_debug sigs g).
  Notation check_earms := (Typing.check_earms p is_debug sigs g).
  Notation check_sarms := (Typing.check_sarms p is_debug sigs g).
  Notation check_branches := (Typing.check_branches p is_debug sigs g).

  Lemma check_args_ECons cx te e r params :
    check_args cx te (ECons e r) params =
    match params with
    | pt :: ps => t <-- check_expr cx te e ;; _ <-- guard (ty_fits t pt) E_InvalidType ;; check_args cx te r ps
    | [] => ROk tt
    end.
  Proof. destruct params; reflexivity. Qed.
  Lemma check_fact_fields_FCons cx te f e r def :
    check_fact_fields cx te (FCons f e r) def =
    match def with
    | (n, ft) :: ds =>
      _ <-- guard (Nat.eqb (List.length (fields_names (FCons f e r))) (List.length def)) E_InvalidFactLiteral ;;
      _ <-- guard (String.eqb f n) E_InvalidFactLiteral ;;
      t <-- check_expr cx te e ;;
      _ <-- guard (ty_fits t ft) E_InvalidType ;;
      check_fact_fields cx te r ds
    | [] => RErr E_InvalidFactLiteral
    end.
  Proof. destruct def as [|[n ft] ds]; reflexivity. Qed.

  (** what an accepted piece of syntax looks like, outside and inside finish context *)
  Definition two (cx : sctx) (outside inside : bool) : Prop :=
    (is_finish cx = false -> outside = true) /\ (is_finish cx = true -> inside = true).

  Definition T_expr (e : expr) : Prop := forall cx te t, check_expr cx te e = ROk t -> two cx (nw_expr e) (fin_expr_ok e).
  Definition T_exprs (es : exprs) : Prop := forall cx te params u,
    exprs_len es = List.length params -> check_args cx te es params = ROk u -> two cx (nw_exprs es) (fin_exprs_ok es).
  Definition T_fields (fs : fields) : Prop :=
    (forall cx te def u, check_fields cx te fs def = ROk u -> two cx (nw_fields fs) (fin_fields_ok fs))
    /\ (forall cx te def u, check_fact_fields cx te fs def = ROk u -> two cx (nw_fields fs) (fin_fields_ok fs)).
  Definition T_stmt (s : stmt) : Prop := forall cx te last te',
    check_stmt cx te s last = ROk te' -> two cx (nw_stmt s) (fin_stmt_ok s).
  Definition T_stmts (ss : stmts) : Prop := forall cx te te',
    check_stmts cx te ss = ROk te' -> two cx (nw_stmts ss) (fin_stmts_ok ss).
  Definition T_ostmts (o : ostmts) : Prop := match o with ONone => True | OSome ss => T_stmts ss end.
  Definition T_ovals (o : ovals) : Prop := match o with VNone => True | VSome fs => T_fields fs end.
  Definition T_earms (a : earms) : Prop := forall cx te binds acc r,
    check_earms cx te a binds acc = ROk r -> is_finish cx = false -> nw_earms a = true.
  Definition T_sarms (a : sarms) : Prop := forall cx te binds u,
    check_sarms cx te a binds = ROk u -> is_finish cx = false -> nw_sarms a = true.
  Definition T_branches (b : branches) : Prop := forall cx te u,
    check_branches cx te b = ROk u -> is_finish cx = false -> nw_branches b = true.

  Ltac crunch :=
    repeat (match goal with
    | H : rbind _ _ = ROk _ |- _ => rinv H
    | H : RErr _ = ROk _ |- _ => discriminate H
    | H : match ?x with _ => _ end = ROk _ |- _ => destruct x eqn:?; try discriminate H
    end).
  Ltac use_ih :=
    repeat match goal with
    | IH : forall cx te t, Typing.check_expr _ _ _ _ cx te ?e = ROk t -> _,
      G : Typing.check_expr _ _ _ _ ?cx ?te ?e = ROk ?x |- _ =>
      let A := fresh "A" in let B := fresh "B" in destruct (IH _ _ _ G) as [A B]; clear IH
    | IH : _ /\ _ |- _ => let IH1 := fresh "IH" in let IH2 := fresh "IH" in destruct IH as [IH1 IH2]
    | IH : forall cx te def u, Typing.check_fields _ _ _ _ cx te ?e def = ROk u -> _,
      G : Typing.check_fields _ _ _ _ ?cx ?te ?e _ = ROk ?x |- _ =>
      let A := fresh "A" in let B := fresh "B" in destruct (IH _ _ _ _ G) as [A B]; clear IH
    | IH : forall cx te def u, Typing.check_fact_fields _ _ _ _ cx te ?e def = ROk u -> _,
      G : Typing.check_fact_fields _ _ _ _ ?cx ?te ?e _ = ROk ?x |- _ =>
      let A := fresh "A" in let B := fresh "B" in destruct (IH _ _ _ _ G) as [A B]; clear IH
    | IH : forall cx te binds acc r, Typing.check_earms _ _ _ _ cx te ?e binds acc = ROk r -> _,
      G : Typing.check_earms _ _ _ _ ?cx ?te ?e _ _ = ROk ?x |- _ =>
      let A := fresh "A" in pose proof (IH _ _ _ _ _ G) as A; clear IH
    | IH : forall cx te binds u, Typing.check_sarms _ _ _ _ cx te ?e binds = ROk u -> _,
      G : Typing.check_sarms _ _ _ _ ?cx ?te ?e _ = ROk ?x |- _ =>
      let A := fresh "A" in pose proof (IH _ _ _ _ G) as A; clear IH
    | IH : forall cx te u, Typing.check_branches _ _ _ _ cx te ?e = ROk u -> _,
      G : Typing.check_branches _ _ _ _ ?cx ?te ?e = ROk ?x |- _ =>
      let A := fresh "A" in pose proof (IH _ _ _ G) as A; clear IH
    | IH : forall cx te params u, exprs_len ?e = List.length params -> Typing.check_args _ _ _ _ cx te ?e params = ROk u -> _,
      G : Typing.check_args _ _ _ _ ?cx ?te ?e ?ps = ROk ?x, L : (_ =? _)%nat = true |- _ =>
      let A := fresh "A" in let B := fresh "B" in
      apply Nat.eqb_eq in L; symmetry in L || idtac;
      first [ destruct (IH _ _ _ _ L G) as [A B] | destruct (IH _ _ _ _ (eq_sym L) G) as [A B] ]; clear IH
    | IH : forall cx te te', Typing.check_stmts _ _ _ _ cx te ?e = ROk te' -> _,
      G : Typing.check_stmts _ _ _ _ ?cx ?te ?e = ROk ?x |- _ =>
      let A := fresh "A" in let B := fresh "B" in destruct (IH _ _ _ G) as [A B]; clear IH
    | IH : forall cx te last te', Typing.check_stmt _ _ _ _ cx te ?e last = ROk te' -> _,
      G : Typing.check_stmt _ _ _ _ ?cx ?te ?e _ = ROk ?x |- _ =>
      let A := fresh "A" in let B := fresh "B" in destruct (IH _ _ _ _ G) as [A B]; clear IH
    end.
  Ltac solve_bools :=
    repeat match goal with
    | A : ?c -> _ = true, Hc : ?c |- _ => rewrite (A Hc); clear A
    end; cbn; auto.

  Theorem table_all :
    (forall e, T_expr e) /\ (forall es, T_exprs es) /\ (forall fs, T_fields fs) /\ (forall s, T_stmt s)
    /\ (forall ss, T_stmts ss) /\ (forall o, T_ostmts o) /\ (forall o, T_ovals o)
    /\ (forall a, T_earms a) /\ (forall a, T_sarms a) /\ (forall b, T_branches b).
  Proof.
    apply syntax_mutind; unfold T_expr, T_exprs, T_fields, T_stmt, T_stmts, T_ostmts, T_ovals, T_earms, T_sarms, T_branches, two;
      intros; auto.
    all: try (match goal with H : _ = ROk _ |- _ => autorewrite with ckq in H end).
    all: crunch.
    all: try match goal with |- (is_finish _ = false -> _) /\ _ => split; intro Hc; try (rewrite Hc in *); cbn in *; try discriminate; use_ih; try solve_bools end.
    all: idtac "REM".
    - apply Nat.eqb_eq in G2. destruct (H cx te (map snd (fst x)) x1) as [A B]; [rewrite map_length; auto|auto|auto].
    - idtac "G2". Show. admit.
    - admit.
    - admit.
    - admit.
    - admit.
    - idtac "G7". Show. admit.
  Abort.
End Table.
