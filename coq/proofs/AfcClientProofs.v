(** Proofs about [model/AfcClient.v] (C39). *)
From Coq Require Import String.
From Aranya Require Import base.Tactics gen.GenAfc model.AfcClient.
Local Open Scope N_scope.

(** * Generated shapes the model relies on (pinned) *)

Lemma afc_layout_pinned :
  afc_version_repr = "u16"%string /\ afc_msgtype_repr = "u16"%string
  /\ afc_version_current = "V1"%string
  /\ map fst afc_version_variants = ["V1"%string]
  /\ map fst afc_msgtype_variants = ["Data"%string; "Control"%string]
  /\ afc_header_fields = [("version", "Version"); ("msg_type", "MsgType")]%string
  /\ afc_dataheader_fields = [("seq", "Seq")]%string
  /\ afc_header_parse_chunks = [("version", "rest", "buf"); ("msg_typ", "rest", "rest")]%string
  /\ afc_header_parse_fields = [("version", "u16", "from_le_bytes", "version"); ("msg_type", "u16", "from_le_bytes", "msg_typ")]%string
  /\ afc_header_parse_checks_trailing = true
  /\ afc_header_encode_chunks = [("version_out", "rest", "out"); ("msg_typ_out", "rest", "rest")]%string
  /\ afc_header_encode_writes = [("version_out", "version", "to_u16", "to_le_bytes"); ("msg_typ_out", "msg_type", "to_u16", "to_le_bytes")]%string
  /\ afc_dataheader_parse_chunks = [("seq", "rest", "buf")]%string
  /\ afc_dataheader_parse_fields = [("seq", "u64", "from_le_bytes", "seq")]%string
  /\ afc_dataheader_parse_checks_trailing = true
  /\ afc_dataheader_encode_chunks = [("seq_out", "rest", "out")]%string
  /\ afc_dataheader_encode_writes = [("seq_out", "seq", "to_u64", "to_le_bytes")]%string
  /\ afc_authdata_fields = [("version", "u32"); ("label_id", "LabelId")]%string
  /\ afc_authdata_int_writes = [("LittleEndian", "u32", 0, 4, "version")]%string
  /\ afc_authdata_slice_writes = [(4, "", "label_id")]%string
  /\ afc_client_ad_versions = ["u32::from(Version::current().to_u16())"; "u32::from(Version::current().to_u16())"]%string
  /\ afc_client_seal_zeroizes = ["dst"%string] /\ afc_client_seal_in_place_zeroizes = ["data"%string]
  /\ afc_client_open_zeroizes = ["dst"%string] /\ afc_client_open_in_place_zeroizes = ["data"%string]
  /\ afc_client_seal_checked_ops = ["checked_add"; "get_mut"; "split_last_chunk_mut"]%string
  /\ afc_client_seal_in_place_checked_ops = ["try_reserve_exact"; "try_resize"; "split_last_chunk_mut"; "split_at_mut_checked"]%string
  /\ afc_client_open_checked_ops = ["split_last_chunk"; "checked_sub"]%string
  /\ afc_client_open_in_place_checked_ops = ["split_last_chunk_mut"; "checked_sub"; "split_at_mut_checked"; "truncate"]%string.
Proof. repeat split; reflexivity. Qed.

(** Discriminants fit their [repr] and are distinct. *)
Lemma discriminants_ok :
  version_v1 < 65536 /\ msg_data < 65536 /\ msg_control < 65536 /\ msg_data <> msg_control
  /\ version_v1 <> 0.
Proof. repeat split; try (vm_compute; reflexivity); vm_compute; discriminate. Qed.

(** Every panic-capable site of the four files is accounted for. *)
Definition ledger_complete_stmt : Prop := forallb site_known all_generated_sites = true.
Lemma ledger_complete_proof : ledger_complete_stmt.
Proof. vm_compute. reflexivity. Qed.

(** * Bytes and slices *)

Lemma len_app {A} (a b : list A) : len (a ++ b) = len a + len b.
Proof. unfold len. rewrite app_length. lia. Qed.
Lemma len_nil {A} : len (@nil A) = 0.
Proof. reflexivity. Qed.
Lemma len_firstn {A} (n : nat) (l : list A) : len (firstn n l) = N.min (N.of_nat n) (len l).
Proof. unfold len. rewrite firstn_length. lia. Qed.
Lemma len_skipn {A} (n : nat) (l : list A) : len (skipn n l) = len l - N.of_nat n.
Proof. unfold len. rewrite skipn_length. lia. Qed.
Lemma len_zeros n : len (zeros n) = N.of_nat n.
Proof. unfold len, zeros. rewrite repeat_length. reflexivity. Qed.
Lemma length_le_bytes n v : length (le_bytes n v) = n.
Proof. revert v; induction n; intros; cbn [le_bytes length]; auto. Qed.
Lemma len_le_bytes n v : len (le_bytes n v) = N.of_nat n.
Proof. unfold len. now rewrite length_le_bytes. Qed.

Lemma split_at_checked_spec mid l a b :
  split_at_checked mid l = Some (a, b) -> l = a ++ b /\ len a = mid.
Proof.
  unfold split_at_checked. destr_if; [|discriminate]. intros H; inv H. split.
  - symmetry. apply firstn_skipn.
  - rewrite len_firstn. lia.
Qed.
Lemma split_at_checked_none mid l : split_at_checked mid l = None -> len l < mid.
Proof. unfold split_at_checked. destr_if; [discriminate|]. intros _. lia. Qed.
Lemma split_at_checked_app a b : split_at_checked (len a) (a ++ b) = Some (a, b).
Proof.
  unfold split_at_checked. rewrite len_app.
  replace (len a <=? len a + len b) with true by lia.
  unfold len. rewrite Nat2N.id, firstn_app, skipn_app, Nat.sub_diag, firstn_all, skipn_all.
  cbn. now rewrite app_nil_r.
Qed.
Lemma split_at_checked_app' mid a b : mid = len a -> split_at_checked mid (a ++ b) = Some (a, b).
Proof. intros ->. apply split_at_checked_app. Qed.

Lemma split_last_chunk_spec n l a b :
  split_last_chunk n l = Some (a, b) -> l = a ++ b /\ len b = n.
Proof.
  unfold split_last_chunk. destr_if; [|discriminate]. intros H.
  apply split_at_checked_spec in H. destruct H as [H1 H2]. split; auto.
  assert (len l = len a + len b) by (rewrite H1 at 1; apply len_app). lia.
Qed.
Lemma split_last_chunk_none n l : split_last_chunk n l = None -> len l < n.
Proof.
  unfold split_last_chunk. destr_if.
  - intros H. apply split_at_checked_none in H. lia.
  - intros _. lia.
Qed.
Lemma split_last_chunk_app n a b : len b = n -> split_last_chunk n (a ++ b) = Some (a, b).
Proof.
  intros H. unfold split_last_chunk. rewrite len_app.
  replace (n <=? len a + len b) with true by lia.
  apply split_at_checked_app'. lia.
Qed.

(** Little-endian integers. *)
Lemma le_val_le_bytes n v : v < 256 ^ N.of_nat n -> le_val (le_bytes n v) = v.
Proof.
  revert v; induction n; intros v Hv.
  - cbn in *. lia.
  - cbn [le_bytes le_val]. rewrite IHn.
    + pose proof (N.div_mod v 256). lia.
    + rewrite Nat2N.inj_succ, N.pow_succ_r' in Hv.
      apply N.div_lt_upper_bound; lia.
Qed.
Definition bytes_ok (l : bytes) : Prop := Forall (fun b => b < 256) l.
Lemma le_bytes_le_val l : bytes_ok l -> le_bytes (length l) (le_val l) = l.
Proof.
  induction 1 as [|b r Hb Hr IH]; [reflexivity|].
  cbn [length le_bytes le_val].
  replace ((b + 256 * le_val r) mod 256) with b.
  2:{ rewrite (N.mul_comm 256), N.mod_add by lia. symmetry. apply N.mod_small; lia. }
  replace ((b + 256 * le_val r) / 256) with (le_val r).
  2:{ rewrite (N.mul_comm 256), N.div_add by lia. rewrite (N.div_small b) by lia. lia. }
  now rewrite IH.
Qed.
Lemma le_val_bound l : bytes_ok l -> le_val l < 256 ^ len l.
Proof.
  induction 1 as [|b r Hb Hr IH]; [cbn; lia|].
  cbn [le_val]. unfold len in *. cbn [length]. rewrite Nat2N.inj_succ, N.pow_succ_r'. lia.
Qed.
Lemma bytes_ok_le_bytes n v : bytes_ok (le_bytes n v).
Proof.
  revert v; induction n; intros; cbn [le_bytes]; constructor.
  - apply N.mod_lt; lia.
  - apply IHn.
Qed.
Lemma le_bytes_inj n v w : v < 256 ^ N.of_nat n -> w < 256 ^ N.of_nat n -> le_bytes n v = le_bytes n w -> v = w.
Proof. intros Hv Hw H. rewrite <- (le_val_le_bytes n v Hv), <- (le_val_le_bytes n w Hw). now rewrite H. Qed.

Lemma pow_256_8 : 256 ^ N.of_nat 8 = usize_mod.
Proof. reflexivity. Qed.

(** * Header codecs: [parse (encode h) = h], and parsing is total *)

Lemma split_first_chunk_app n a b : len a = n -> split_first_chunk n (a ++ b) = Some (a, b).
Proof. intros <-. apply split_at_checked_app. Qed.

Lemma header_encode_ok m h out :
  len out = header_size ->
  header_encode m h out = Ok (le_bytes 2 (version_to_u16 (h_version h)) ++ le_bytes 2 (msg_type_to_u16 (h_msg_type h))).
Proof.
  intros Hl. unfold header_encode, split_first_chunk.
  destruct (split_at_checked 2 out) as [[a r]|] eqn:E1.
  2:{ apply split_at_checked_none in E1. unfold header_size in *. lia. }
  apply split_at_checked_spec in E1. destruct E1 as [-> Ha].
  destruct (split_at_checked 2 r) as [[b r']|] eqn:E2.
  2:{ apply split_at_checked_none in E2. rewrite len_app in Hl. unfold header_size in *. lia. }
  apply split_at_checked_spec in E2. destruct E2 as [-> Hb].
  rewrite !len_app in Hl. unfold header_size in Hl.
  replace (len r' =? 0) with true by lia. reflexivity.
Qed.

Lemma header_parse_encode m h :
  header_try_parse m (le_bytes 2 (version_to_u16 (h_version h)) ++ le_bytes 2 (msg_type_to_u16 (h_msg_type h))) = Ok h.
Proof.
  destruct discriminants_ok as (Hv & Hd & Hc & Hne & _).
  unfold header_try_parse.
  rewrite split_first_chunk_app by (rewrite len_le_bytes; reflexivity).
  rewrite <- (app_nil_r (le_bytes 2 (msg_type_to_u16 _))).
  rewrite split_first_chunk_app by (rewrite len_le_bytes; reflexivity).
  cbn [len length negb N.of_nat N.eqb]. change (0 =? 0) with true. cbn [negb].
  rewrite !le_val_le_bytes.
  - destruct h as [[] []]; cbn [h_version h_msg_type version_to_u16 msg_type_to_u16];
      unfold version_try_from_u16, msg_type_try_from_u16; rewrite !N.eqb_refl; auto.
  - destruct (h_msg_type h); cbn; lia.
  - destruct (h_version h); cbn; lia.
Qed.

Lemma header_try_parse_total m buf : len buf = header_size -> is_panic (header_try_parse m buf) = false.
Proof.
  intros Hl. unfold header_try_parse, split_first_chunk.
  destruct (split_at_checked 2 buf) as [[a r]|] eqn:E1.
  2:{ apply split_at_checked_none in E1. unfold header_size in *. lia. }
  apply split_at_checked_spec in E1. destruct E1 as [-> Ha].
  destruct (split_at_checked 2 r) as [[b r']|] eqn:E2.
  2:{ apply split_at_checked_none in E2. rewrite len_app in Hl. unfold header_size in *. lia. }
  apply split_at_checked_spec in E2. destruct E2 as [-> Hb].
  rewrite !len_app in Hl. unfold header_size in Hl.
  replace (len r' =? 0) with true by lia. cbn [negb].
  destruct (version_try_from_u16 _); [|reflexivity].
  destruct (msg_type_try_from_u16 _); reflexivity.
Qed.

Lemma message_try_parse_total m buf : is_panic (message_try_parse m buf) = false.
Proof.
  unfold message_try_parse, split_first_chunk.
  destruct (split_at_checked header_size buf) as [[h p]|] eqn:E; [|reflexivity].
  apply split_at_checked_spec in E. destruct E as [-> Hh].
  pose proof (header_try_parse_total m h Hh).
  destruct (header_try_parse m h); auto.
Qed.

Lemma data_header_try_parse_ok m hdr : len hdr = data_header_size -> data_header_try_parse m hdr = Ok (le_val hdr).
Proof.
  intros Hl. unfold data_header_try_parse, split_first_chunk.
  destruct (split_at_checked 8 hdr) as [[a r]|] eqn:E1.
  2:{ apply split_at_checked_none in E1. unfold data_header_size in *. lia. }
  apply split_at_checked_spec in E1. destruct E1 as [-> Ha].
  rewrite len_app in Hl. unfold data_header_size in Hl.
  assert (len r = 0) by lia.
  destruct r; [|unfold len in *; cbn in *; lia].
  rewrite app_nil_r. cbn. reflexivity.
Qed.
Lemma data_header_encode_ok m seq out : len out = data_header_size -> data_header_encode m seq out = Ok (le_bytes 8 seq).
Proof.
  intros Hl. unfold data_header_encode, split_first_chunk.
  destruct (split_at_checked 8 out) as [[a r]|] eqn:E1.
  2:{ apply split_at_checked_none in E1. unfold data_header_size in *. lia. }
  apply split_at_checked_spec in E1. destruct E1 as [-> Ha].
  rewrite len_app in Hl. unfold data_header_size in Hl.
  replace (len r =? 0) with true by lia. reflexivity.
Qed.

Definition afc_header_roundtrip_stmt : Prop :=
  (forall m h out, len out = header_size ->
     exists enc, header_encode m h out = Ok enc /\ len enc = header_size /\ header_try_parse m enc = Ok h)
  /\ (forall m seq out, seq <= u64_max -> len out = data_header_size ->
     exists enc, data_header_encode m seq out = Ok enc /\ len enc = data_header_size
                 /\ data_header_try_parse m enc = Ok seq)
  /\ (forall m buf, len buf = header_size -> is_panic (header_try_parse m buf) = false)
  /\ (forall m buf, len buf = data_header_size -> is_panic (data_header_try_parse m buf) = false)
  /\ (forall m buf, is_panic (message_try_parse m buf) = false).
Lemma afc_header_roundtrip_proof : afc_header_roundtrip_stmt.
Proof.
  repeat split.
  - intros m h out Hl. eexists. split; [apply header_encode_ok; auto|]. split.
    + rewrite len_app, !len_le_bytes. reflexivity.
    + apply header_parse_encode.
  - intros m seq out Hs Hl. eexists. split; [apply data_header_encode_ok; auto|]. split.
    + rewrite len_le_bytes. reflexivity.
    + rewrite data_header_try_parse_ok by (rewrite len_le_bytes; reflexivity).
      f_equal. apply le_val_le_bytes. rewrite pow_256_8. unfold u64_max, usize_mod in *. lia.
  - apply header_try_parse_total.
  - intros m buf Hl. rewrite data_header_try_parse_ok by auto. reflexivity.
  - apply message_try_parse_total.
Qed.

(** * The client *)

Lemma is_panic_bug_at_false {A} s e : is_panic (@bug_at A nodebug_mode s e) = false.
Proof. reflexivity. Qed.

Section ClientProofs.
  Variable K : Type.
  Variable TAG : N.
  Variable aead_seal : K -> bytes -> bytes -> bytes -> option (bytes * bytes).
  Variable aead_open : K -> bytes -> bytes -> bytes -> bytes -> aead_open_res.
  Variable garbage : K -> bytes -> bytes -> bytes -> bytes -> bytes.

  Notation chan := (chan K).
  Notation seal := (seal K TAG aead_seal).
  Notation seal_in_place := (seal_in_place K TAG aead_seal).
  Notation open := (open K TAG aead_open).
  Notation open_in_place := (open_in_place K TAG aead_open garbage).
  Notation open_in_place_orig := (open_in_place_orig K TAG aead_open garbage).
  Notation do_seal := (do_seal K aead_seal).
  Notation key_seal := (key_seal K aead_seal).
  Notation key_open := (key_open K aead_open).
  Notation OVERHEAD := (OVERHEAD TAG).

  (** ** Totality: no input makes [open] / [open_in_place] panic (no hypotheses) *)

  Lemma key_open_no_panic c seq ct tag : is_panic (key_open c seq ct tag) = false.
  Proof.
    unfold AfcClient.key_open. destruct (compute_nonce _ _); [|reflexivity].
    destruct (aead_open _ _ _ _ _); reflexivity.
  Qed.

  Lemma open_total m c dst input : is_panic (fst (open m c dst input)) = false.
  Proof.
    unfold AfcClient.open.
    destruct (split_last_chunk data_header_size input) as [[ciphertext hdr]|] eqn:E; [|reflexivity].
    apply split_last_chunk_spec in E. destruct E as [-> Hh].
    rewrite data_header_try_parse_ok by auto.
    destruct (checked_sub _ _) as [pl|]; [|reflexivity].
    destr_if; [reflexivity|]. destr_if; [reflexivity|].
    destruct (split_at_checked pl ciphertext) as [[ct tag]|]; [|reflexivity].
    pose proof (key_open_no_panic c (le_val hdr) ct tag).
    destruct (key_open c (le_val hdr) ct tag); auto.
  Qed.

  Lemma open_in_place_tail_total c data seq rest hdr mid :
    is_panic (fst (open_in_place_tail K aead_open garbage c data seq rest hdr mid)) = false.
  Proof.
    unfold open_in_place_tail.
    destruct (split_at_checked mid rest) as [[ct tag]|]; [|reflexivity].
    destr_if; [reflexivity|].
    pose proof (key_open_no_panic c seq ct tag).
    destruct (key_open c seq ct tag); auto.
  Qed.

  Lemma open_in_place_total m c data : is_panic (fst (open_in_place m c data)) = false.
  Proof.
    unfold AfcClient.open_in_place.
    destruct (split_last_chunk data_header_size (vis data)) as [[rest hdr]|] eqn:E; [|reflexivity].
    apply split_last_chunk_spec in E. destruct E as [_ Hh].
    rewrite data_header_try_parse_ok by auto.
    destruct (checked_sub _ _) as [pl|]; [|reflexivity].
    apply open_in_place_tail_total.
  Qed.

  (** The original [open_in_place] (before the repair) does panic: F5. *)
  Lemma open_in_place_orig_panics c (rest : bytes) :
    len rest < TAG ->
    fst (open_in_place_orig dev_mode c {| kind := BVec; vis := rest ++ zeros 8; spare := [] |})
    = Panic S_oip_ar0.
  Proof.
    intros Hl. unfold AfcClient.open_in_place_orig. cbn [vis].
    rewrite split_last_chunk_app by reflexivity.
    rewrite data_header_try_parse_ok by reflexivity.
    unfold raw_sub. replace (TAG <=? len rest) with false by lia. reflexivity.
  Qed.

  (** ** Sealing never panics *)

  Lemma do_seal_no_panic m c hdr pt : len hdr = data_header_size -> is_panic (fst (do_seal m c hdr pt)) = false.
  Proof.
    intros Hh. unfold AfcClient.do_seal. destr_if; [reflexivity|].
    unfold AfcClient.key_seal.
    destruct (compute_nonce _ _); [|reflexivity].
    destruct (aead_seal _ _ _ _) as [[ct tag]|]; [|reflexivity].
    rewrite data_header_encode_ok by auto. reflexivity.
  Qed.

  Lemma seal_total m c dst pt : is_panic (fst (fst (seal m c dst pt))) = false.
  Proof.
    unfold AfcClient.seal.
    destruct (checked_add (len pt) OVERHEAD) as [cl|] eqn:Ec; [|reflexivity].
    unfold checked_add in Ec. destr_if_in Ec; inv Ec.
    destruct (split_at_checked _ dst) as [[d tail]|] eqn:Es; [|reflexivity].
    apply split_at_checked_spec in Es. destruct Es as [-> Hd].
    destruct (split_last_chunk data_header_size d) as [[out hdr]|] eqn:El.
    2:{ apply split_last_chunk_none in El. unfold AfcClient.OVERHEAD in Hd. lia. }
    apply split_last_chunk_spec in El. destruct El as [-> Hh].
    pose proof (do_seal_no_panic m c hdr pt Hh).
    destruct (do_seal m c hdr pt) as [[[[ct tag] hdr']|e|s] c']; cbn in *; auto; discriminate.
  Qed.

  (** Buffers: the capacity is a [usize]. *)
  Definition buf_wf (b : buf) : Prop := buf_capacity b <= isize_max.

  Lemma reserve_then_resize m b add :
    buf_wf b -> buf_try_reserve_exact m b add = Ok tt ->
    len (vis b) + add <= isize_max
    /\ exists d1, buf_try_resize m b (len (vis b) + add) = (Ok tt, d1)
       /\ kind d1 = kind b /\ vis d1 = vis b ++ zeros (N.to_nat add)
       /\ (kind b <> BVec -> spare d1 = skipn (N.to_nat add) (spare b) /\ add <= len (spare b))
       /\ (kind b = BVec -> spare d1 = spare b).
  Proof.
    unfold buf_wf, buf_try_reserve_exact, buf_try_resize, buf_capacity. intros Hwf.
    destruct b as [k v sp]; cbn [kind vis spare] in *. destruct k.
    - destr_if; [|discriminate]. intros _. split; [lia|].
      replace (len v <=? len v + add) with true by lia.
      replace (len v + add - len v) with add by lia.
      eexists; split; [reflexivity|]. cbn. repeat split; auto; congruence.
    - unfold raw_sub. replace (len v <=? len v + len sp) with true by lia.
      replace (len v + len sp - len v) with (len sp) by lia.
      destr_if; [discriminate|]. intros _. split; [lia|].
      replace (len v + len sp <? len v + add) with false by lia.
      replace (len v <=? len v + add) with true by lia.
      replace (len v + add - len v) with add by lia.
      eexists; split; [reflexivity|]. cbn. repeat split; auto; try lia; discriminate.
    - unfold raw_sub. replace (len v <=? len v + len sp) with true by lia.
      replace (len v + len sp - len v) with (len sp) by lia.
      destr_if; [discriminate|]. intros _. split; [lia|].
      unfold checked_sub. replace (len v <=? len v + add) with true by lia.
      replace (len v + add - len v) with add by lia.
      unfold buf_try_reserve_exact, raw_sub, buf_capacity. cbn [kind vis spare].
      replace (len v <=? len v + len sp) with true by lia.
      replace (len v + len sp - len v) with (len sp) by lia.
      rewrite E.
      replace (len v + add <=? len v + len sp) with true by lia.
      eexists; split; [reflexivity|]. cbn. repeat split; auto; try lia; discriminate.
  Qed.

  Lemma reserve_no_panic m b add : is_panic (buf_try_reserve_exact m b add) = false.
  Proof.
    unfold buf_try_reserve_exact, buf_capacity, raw_sub. destruct (kind b).
    - destr_if; reflexivity.
    - replace (len (vis b) <=? len (vis b) + len (spare b)) with true by lia. destr_if; reflexivity.
    - replace (len (vis b) <=? len (vis b) + len (spare b)) with true by lia. destr_if; reflexivity.
  Qed.

  Lemma isize_lt_usize : isize_max < usize_max.
  Proof. reflexivity. Qed.

  (** What [seal_in_place] computes once the space is reserved. *)
  Lemma seal_in_place_unfold m c data :
    buf_wf data -> TAG + data_header_size <= isize_max ->
    buf_try_reserve_exact m data OVERHEAD = Ok tt ->
    exists d1 hdr,
      kind d1 = kind data /\ vis d1 = vis data ++ zeros (N.to_nat OVERHEAD)
      /\ (kind data <> BVec -> spare d1 = skipn (N.to_nat OVERHEAD) (spare data))
      /\ (kind data = BVec -> spare d1 = spare data)
      /\ len hdr = data_header_size
      /\ seal_in_place m c data =
         match do_seal m c hdr (vis data) with
         | (Ok (ct, tag, hdr'), c') => (Ok data_header, set_vis d1 (ct ++ tag ++ hdr'), c')
         | (Err e, c') => (Err e, buf_zeroize d1, c')
         | (Panic s, c') => (Panic s, d1, c')
         end.
  Proof.
    intros Hwf Hov Hr.
    destruct (reserve_then_resize m data OVERHEAD Hwf Hr) as (Hle & d1 & Hrs & Hk & Hv & Hsp & Hsp').
    pose proof isize_lt_usize as Hiu.
    unfold AfcClient.seal_in_place. rewrite Hr.
    unfold raw_add. replace (len (vis data) + OVERHEAD <=? usize_max) with true by lia.
    rewrite Hrs.
    assert (Hz : zeros (N.to_nat OVERHEAD) = zeros (N.to_nat TAG) ++ zeros 8).
    { unfold zeros, AfcClient.OVERHEAD, data_header_size. rewrite N2Nat.inj_add.
      rewrite repeat_app. reflexivity. }
    rewrite Hv, Hz, app_assoc.
    rewrite split_last_chunk_app by reflexivity.
    unfold raw_sub. rewrite len_app, len_zeros, N2Nat.id.
    replace (TAG <=? len (vis data) + TAG) with true by lia.
    replace (len (vis data) + TAG - TAG) with (len (vis data)) by lia.
    rewrite split_at_checked_app.
    exists d1, (zeros 8). repeat split; auto.
    - rewrite Hv, Hz, app_assoc. reflexivity.
    - intros Hn. apply Hsp in Hn. tauto.
  Qed.

  Lemma seal_in_place_total m c data :
    buf_wf data -> TAG + data_header_size <= isize_max ->
    is_panic (fst (fst (seal_in_place m c data))) = false.
  Proof.
    intros Hwf Hov.
    destruct (buf_try_reserve_exact m data OVERHEAD) as [[]|e|s] eqn:Hr.
    - destruct (seal_in_place_unfold m c data Hwf Hov Hr) as (d1 & hdr & _ & _ & _ & _ & Hh & ->).
      pose proof (do_seal_no_panic m c hdr (vis data) Hh).
      destruct (do_seal m c hdr (vis data)) as [[[[ct tag] hdr']|e|s] c']; cbn in *; auto; discriminate.
    - unfold AfcClient.seal_in_place. rewrite Hr. reflexivity.
    - pose proof (reserve_no_panic m data OVERHEAD) as H. rewrite Hr in H. discriminate.
  Qed.

  (** ** Idealised AEAD (Section hypotheses, universally quantified after the Section) *)

  (** Ciphertext has the plaintext's length, the tag has [TAG] bytes. *)
  Hypothesis H_seal_len : forall k n ad pt ct tag,
    aead_seal k n ad pt = Some (ct, tag) -> length ct = length pt /\ len tag = TAG.
  (** Open succeeds exactly on what seal produced under the same key, nonce and AD. *)
  Hypothesis H_auth : forall k n ad ct tag pt,
    aead_open k n ad ct tag = AOk pt <-> aead_seal k n ad pt = Some (ct, tag).
  (** An in-place operation does not change the length of the buffer. *)
  Hypothesis H_garbage_len : forall k n ad ct tag, length (garbage k n ad ct tag) = length ct.

  (** [w] is what a sealer holding channel [c] writes for [pt]:
      ciphertext || tag || le64(seq). *)
  Definition sealed_as (c : chan) (pt w : bytes) : Prop :=
    exists nonce ct tag,
      compute_nonce (c_nonce K c) (c_seq K c) = Some nonce
      /\ aead_seal (c_key K c) nonce (ad_bytes (c_label K c)) pt = Some (ct, tag)
      /\ w = ct ++ tag ++ le_bytes 8 (c_seq K c).

  Definition chan_at (c : chan) (s : N) : chan :=
    {| c_live := c_live K c; c_label := c_label K c; c_key := c_key K c; c_nonce := c_nonce K c; c_seq := s |}.

  Lemma compute_nonce_some base seq n : compute_nonce base seq = Some n -> seq < u64_max.
  Proof. unfold compute_nonce, seq_limit. destr_if; [discriminate|]. intros _. lia. Qed.

  Lemma sealed_as_len c pt w : sealed_as c pt w -> len w = len pt + OVERHEAD.
  Proof.
    intros (n & ct & tag & _ & Hs & ->). apply H_seal_len in Hs. destruct Hs as [Hc Ht].
    rewrite !len_app, len_le_bytes, Ht. unfold len, AfcClient.OVERHEAD, data_header_size. rewrite Hc. lia.
  Qed.

  (** *** What a successful seal wrote *)

  Lemma do_seal_ok m c hdr pt ct tag hdr' c' :
    len hdr = data_header_size ->
    do_seal m c hdr pt = (Ok (ct, tag, hdr'), c') ->
    c_live K c = true /\ c' = chan_next K c /\ sealed_as c pt (ct ++ tag ++ hdr').
  Proof.
    intros Hh. unfold AfcClient.do_seal. destruct (c_live K c); cbn [negb]; [|discriminate].
    unfold AfcClient.key_seal.
    destruct (compute_nonce _ _) as [n|] eqn:En; [|discriminate].
    destruct (aead_seal _ _ _ _) as [[ct0 tag0]|] eqn:Es; [|discriminate].
    rewrite data_header_encode_ok by auto. intros H; inv H.
    repeat split; auto. exists n, ct, tag. auto.
  Qed.

  Lemma do_seal_succeeds m c hdr pt n ct tag :
    len hdr = data_header_size -> c_live K c = true ->
    compute_nonce (c_nonce K c) (c_seq K c) = Some n ->
    aead_seal (c_key K c) n (ad_bytes (c_label K c)) pt = Some (ct, tag) ->
    do_seal m c hdr pt = (Ok (ct, tag, le_bytes 8 (c_seq K c)), chan_next K c).
  Proof.
    intros Hh Hl Hn Hs. unfold AfcClient.do_seal, AfcClient.key_seal. rewrite Hl, Hn, Hs. cbn [negb].
    rewrite data_header_encode_ok by auto. reflexivity.
  Qed.

  Lemma seal_ok m c dst pt h dst' c' :
    seal m c dst pt = (Ok h, dst', c') ->
    exists w, sealed_as c pt w /\ dst' = w ++ skipn (N.to_nat (len pt + OVERHEAD)) dst
              /\ len pt + OVERHEAD <= len dst /\ h = data_header /\ c' = chan_next K c /\ c_live K c = true.
  Proof.
    unfold AfcClient.seal.
    destruct (checked_add (len pt) OVERHEAD) as [cl|] eqn:Ec; [|discriminate].
    unfold checked_add in Ec. destr_if_in Ec; inv Ec.
    destruct (split_at_checked _ dst) as [[d tail]|] eqn:Es; [|discriminate].
    pose proof Es as Es'. unfold split_at_checked in Es'. destr_if_in Es'; [|discriminate]. inv Es'.
    apply split_at_checked_spec in Es. destruct Es as [Hdst Hd].
    destruct (split_last_chunk data_header_size _) as [[out hdr]|] eqn:El.
    2:{ unfold bug_at. destr_if; discriminate. }
    apply split_last_chunk_spec in El. destruct El as [Hsplit Hh].
    destruct (do_seal m c hdr pt) as [[[[ct tag] hdr']|e|s] c''] eqn:Ed; try discriminate.
    intros H; inv H.
    apply do_seal_ok in Ed; auto. destruct Ed as (Hl & -> & Hw).
    exists (ct ++ tag ++ hdr'). rewrite <- !app_assoc. repeat split; auto. lia.
  Qed.

  Lemma seal_succeeds m c dst pt n ct tag :
    c_live K c = true -> len pt + OVERHEAD <= len dst -> len dst <= usize_max ->
    compute_nonce (c_nonce K c) (c_seq K c) = Some n ->
    aead_seal (c_key K c) n (ad_bytes (c_label K c)) pt = Some (ct, tag) ->
    seal m c dst pt = (Ok data_header,
                       (ct ++ tag ++ le_bytes 8 (c_seq K c)) ++ skipn (N.to_nat (len pt + OVERHEAD)) dst,
                       chan_next K c).
  Proof.
    intros Hl Hd Hu Hn Hs. unfold AfcClient.seal, checked_add.
    replace (len pt + OVERHEAD <=? usize_max) with true by lia.
    unfold split_at_checked. replace (len pt + OVERHEAD <=? len dst) with true by lia.
    set (d := firstn _ dst).
    assert (Hld : len d = len pt + OVERHEAD) by (unfold d; rewrite len_firstn, N2Nat.id; lia).
    destruct (split_last_chunk data_header_size d) as [[out hdr]|] eqn:El.
    2:{ apply split_last_chunk_none in El. unfold AfcClient.OVERHEAD in Hld. lia. }
    apply split_last_chunk_spec in El. destruct El as [_ Hh].
    rewrite (do_seal_succeeds m c hdr pt n ct tag Hh Hl Hn Hs).
    rewrite <- !app_assoc. reflexivity.
  Qed.

  Lemma seal_in_place_ok m c data h data' c' :
    buf_wf data -> TAG + data_header_size <= isize_max ->
    seal_in_place m c data = (Ok h, data', c') ->
    sealed_as c (vis data) (vis data') /\ kind data' = kind data
    /\ h = data_header /\ c' = chan_next K c /\ c_live K c = true.
  Proof.
    intros Hwf Hov H.
    destruct (buf_try_reserve_exact m data OVERHEAD) as [[]|e|s] eqn:Hr.
    2,3: unfold AfcClient.seal_in_place in H; rewrite Hr in H; discriminate.
    destruct (seal_in_place_unfold m c data Hwf Hov Hr) as (d1 & hdr & Hk & _ & _ & _ & Hh & Heq).
    rewrite Heq in H.
    destruct (do_seal m c hdr (vis data)) as [[[[ct tag] hdr']|e|s] c''] eqn:Ed; try discriminate.
    inv H. apply do_seal_ok in Ed; auto. destruct Ed as (Hl & -> & Hw). cbn [vis kind set_vis]. auto.
  Qed.

  Lemma seal_in_place_succeeds m c data n ct tag :
    buf_wf data -> TAG + data_header_size <= isize_max ->
    buf_try_reserve_exact m data OVERHEAD = Ok tt ->
    c_live K c = true ->
    compute_nonce (c_nonce K c) (c_seq K c) = Some n ->
    aead_seal (c_key K c) n (ad_bytes (c_label K c)) (vis data) = Some (ct, tag) ->
    exists data', seal_in_place m c data = (Ok data_header, data', chan_next K c)
                  /\ vis data' = ct ++ tag ++ le_bytes 8 (c_seq K c) /\ kind data' = kind data.
  Proof.
    intros Hwf Hov Hr Hl Hn Hs.
    destruct (seal_in_place_unfold m c data Hwf Hov Hr) as (d1 & hdr & Hk & _ & _ & _ & Hh & Heq).
    rewrite Heq, (do_seal_succeeds m c hdr (vis data) n ct tag Hh Hl Hn Hs).
    eexists; split; [reflexivity|]. cbn [vis kind set_vis]. auto.
  Qed.

  (** *** Opening what was sealed *)

  Lemma wire_split ct tag hdr :
    len hdr = data_header_size -> len tag = TAG ->
    split_last_chunk data_header_size (ct ++ tag ++ hdr) = Some (ct ++ tag, hdr)
    /\ checked_sub (len (ct ++ tag)) TAG = Some (len ct)
    /\ split_at_checked (len ct) (ct ++ tag) = Some (ct, tag).
  Proof.
    intros Hh Ht. repeat split.
    - rewrite app_assoc. apply split_last_chunk_app; auto.
    - unfold checked_sub. rewrite len_app, Ht. replace (TAG <=? len ct + TAG) with true by lia. f_equal. lia.
    - apply split_at_checked_app.
  Qed.

  Lemma open_sealed m cs co dst pt w :
    sealed_as cs pt w ->
    c_key K co = c_key K cs -> c_nonce K co = c_nonce K cs -> c_label K co = c_label K cs ->
    c_live K co = true -> len pt <= len dst ->
    open m co dst w = (Ok (c_label K cs, c_seq K cs), pt ++ skipn (length pt) dst).
  Proof.
    intros (n & ct & tag & Hn & Hs & ->) Hk Hb Hlab Hlive Hd.
    destruct (H_seal_len _ _ _ _ _ _ Hs) as [Hc Ht].
    destruct (wire_split ct tag (le_bytes 8 (c_seq K cs)) (len_le_bytes _ _) Ht) as (E1 & E2 & E3).
    unfold AfcClient.open. rewrite E1.
    rewrite data_header_try_parse_ok by apply len_le_bytes.
    rewrite le_val_le_bytes.
    2:{ rewrite pow_256_8. apply compute_nonce_some in Hn. unfold u64_max, usize_mod in *. lia. }
    rewrite E2. replace (len dst <? len ct) with false by (unfold len in *; rewrite Hc; lia).
    rewrite Hlive. cbn [negb]. rewrite E3.
    unfold AfcClient.key_open. rewrite Hb, Hn, Hk, Hlab.
    apply H_auth in Hs. rewrite Hs.
    unfold len. rewrite Nat2N.id, Hc. reflexivity.
  Qed.

  Lemma open_in_place_sealed m cs co data pt :
    sealed_as cs pt (vis data) ->
    c_key K co = c_key K cs -> c_nonce K co = c_nonce K cs -> c_label K co = c_label K cs ->
    c_live K co = true ->
    exists data', open_in_place m co data = (Ok (c_label K cs, c_seq K cs), data')
                  /\ vis data' = pt /\ kind data' = kind data.
  Proof.
    intros (n & ct & tag & Hn & Hs & Hv) Hk Hb Hlab Hlive.
    destruct (H_seal_len _ _ _ _ _ _ Hs) as [Hc Ht].
    destruct (wire_split ct tag (le_bytes 8 (c_seq K cs)) (len_le_bytes _ _) Ht) as (E1 & E2 & E3).
    unfold AfcClient.open_in_place. rewrite Hv, E1.
    rewrite data_header_try_parse_ok by apply len_le_bytes.
    rewrite le_val_le_bytes.
    2:{ rewrite pow_256_8. apply compute_nonce_some in Hn. unfold u64_max, usize_mod in *. lia. }
    rewrite E2. unfold open_in_place_tail. rewrite E3, Hlive. cbn [negb].
    unfold AfcClient.key_open. rewrite Hb, Hn, Hk, Hlab.
    apply H_auth in Hs. rewrite Hs.
    eexists; split; [reflexivity|].
    unfold buf_truncate. cbn [vis kind set_vis].
    rewrite !len_app, len_le_bytes, Ht.
    assert (len pt = len ct) by (unfold len; now rewrite Hc).
    replace (len ct <? len pt + (TAG + N.of_nat 8)) with true by lia.
    assert (Hf : firstn (N.to_nat (len ct)) (pt ++ tag ++ le_bytes 8 (c_seq K cs)) = pt).
    { unfold len. rewrite Nat2N.id, Hc, firstn_app, Nat.sub_diag, firstn_all. cbn. apply app_nil_r. }
    destruct (kind data); cbn [vis kind]; auto.
  Qed.

  (** *** Whatever opens was sealed (authenticity), and what an error leaves behind *)

  Lemma key_open_ok c seq ct tag pt :
    key_open c seq ct tag = Ok pt ->
    exists n, compute_nonce (c_nonce K c) seq = Some n
              /\ aead_seal (c_key K c) n (ad_bytes (c_label K c)) pt = Some (ct, tag).
  Proof.
    unfold AfcClient.key_open. destruct (compute_nonce _ _) as [n|]; [|discriminate].
    destruct (aead_open _ _ _ _ _) eqn:E; try discriminate. intros H; inv H.
    exists n. split; auto. now apply H_auth.
  Qed.

  Lemma open_ok_inv m c dst input lbl seq dst' :
    open m c dst input = (Ok (lbl, seq), dst') ->
    exists pt ct tag hdr n,
      input = ct ++ tag ++ hdr /\ len hdr = data_header_size /\ seq = le_val hdr
      /\ compute_nonce (c_nonce K c) seq = Some n
      /\ aead_seal (c_key K c) n (ad_bytes (c_label K c)) pt = Some (ct, tag)
      /\ lbl = c_label K c /\ c_live K c = true
      /\ len pt <= len dst /\ dst' = pt ++ skipn (length pt) dst.
  Proof.
    unfold AfcClient.open.
    destruct (split_last_chunk data_header_size input) as [[ciphertext hdr]|] eqn:E; [|discriminate].
    apply split_last_chunk_spec in E. destruct E as [-> Hh].
    rewrite data_header_try_parse_ok by auto.
    destruct (checked_sub _ _) as [pl|] eqn:Ec; [|discriminate].
    unfold checked_sub in Ec. destr_if_in Ec; inv Ec.
    destr_if; [discriminate|]. destruct (c_live K c) eqn:Hl; cbn [negb]; [|discriminate].
    destruct (split_at_checked _ ciphertext) as [[ct tag]|] eqn:Es; [|discriminate].
    apply split_at_checked_spec in Es. destruct Es as [-> Hct].
    destruct (key_open c (le_val hdr) ct tag) as [pt|e|s] eqn:Ek; try discriminate.
    intros H; inv H.
    apply key_open_ok in Ek. destruct Ek as (n & Hn & Hs).
    destruct (H_seal_len _ _ _ _ _ _ Hs) as [Hc Ht].
    exists pt, ct, tag, hdr, n. rewrite <- app_assoc.
    repeat split; auto.
    - unfold len in *. rewrite <- Hc. rewrite app_length in *. lia.
    - f_equal. f_equal. rewrite len_app in *. unfold len in *. lia.
  Qed.

  Lemma open_in_place_ok_inv m c data lbl seq data' :
    open_in_place m c data = (Ok (lbl, seq), data') ->
    exists pt ct tag hdr n,
      vis data = ct ++ tag ++ hdr /\ len hdr = data_header_size /\ seq = le_val hdr
      /\ compute_nonce (c_nonce K c) seq = Some n
      /\ aead_seal (c_key K c) n (ad_bytes (c_label K c)) pt = Some (ct, tag)
      /\ lbl = c_label K c /\ c_live K c = true
      /\ vis data' = pt /\ kind data' = kind data.
  Proof.
    unfold AfcClient.open_in_place.
    destruct (split_last_chunk data_header_size (vis data)) as [[rest hdr]|] eqn:E; [|discriminate].
    apply split_last_chunk_spec in E. destruct E as [Hv Hh].
    rewrite data_header_try_parse_ok by auto.
    destruct (checked_sub _ _) as [pl|] eqn:Ec; [|discriminate].
    unfold open_in_place_tail.
    destruct (split_at_checked pl rest) as [[ct tag]|] eqn:Es; [|discriminate].
    apply split_at_checked_spec in Es. destruct Es as [-> Hct].
    destruct (c_live K c) eqn:Hl; cbn [negb]; [|discriminate].
    destruct (key_open c (le_val hdr) ct tag) as [pt|e|s] eqn:Ek; try discriminate.
    intros H; inv H.
    apply key_open_ok in Ek. destruct Ek as (n & Hn & Hs).
    destruct (H_seal_len _ _ _ _ _ _ Hs) as [Hc Ht].
    exists pt, ct, tag, hdr, n. rewrite <- app_assoc in Hv.
    repeat split; auto.
    - unfold buf_truncate. cbn [vis kind set_vis].
      assert (Hf : firstn (N.to_nat (len ct)) (pt ++ tag ++ hdr) = pt).
      { unfold len. rewrite Nat2N.id, Hc, firstn_app, Nat.sub_diag, firstn_all. cbn. apply app_nil_r. }
      destr_if.
      + destruct (kind data); cbn [vis]; auto.
      + cbn [vis]. rewrite !len_app in E. unfold data_header_size in Hh.
        assert (len pt = len ct) by (unfold len; now rewrite Hc). lia.
    - unfold buf_truncate. cbn [vis kind set_vis]. destr_if; [destruct (kind data)|]; reflexivity.
  Qed.

  Lemma open_err_clean m c dst input e dst' :
    open m c dst input = (Err e, dst') -> dst' = dst \/ dst' = zeros (length dst).
  Proof.
    unfold AfcClient.open.
    destruct (split_last_chunk data_header_size input) as [[ciphertext hdr]|] eqn:E.
    2:{ intros H; inv H; auto. }
    apply split_last_chunk_spec in E. destruct E as [-> Hh].
    rewrite data_header_try_parse_ok by auto.
    destruct (checked_sub _ _) as [pl|]. 2:{ intros H; inv H; auto. }
    destr_if. { intros H; inv H; auto. }
    destr_if. { intros H; inv H; auto. }
    destruct (split_at_checked pl ciphertext) as [[ct tag]|]. 2:{ intros H; inv H; auto. }
    destruct (key_open c (le_val hdr) ct tag); intros H; inv H; auto.
  Qed.

  Definition zeroized (before after : buf) : Prop :=
    kind after = kind before /\ spare after = spare before /\ vis after = zeros (length (vis before)).

  Lemma open_in_place_err_clean m c data e data' :
    open_in_place m c data = (Err e, data') -> data' = data \/ zeroized data data'.
  Proof.
    unfold AfcClient.open_in_place.
    destruct (split_last_chunk data_header_size (vis data)) as [[rest hdr]|] eqn:E.
    2:{ intros H; inv H; auto. }
    apply split_last_chunk_spec in E. destruct E as [Hv Hh].
    rewrite data_header_try_parse_ok by auto.
    destruct (checked_sub _ _) as [pl|]. 2:{ intros H; inv H; auto. }
    unfold open_in_place_tail.
    destruct (split_at_checked pl rest) as [[ct tag]|] eqn:Es. 2:{ intros H; inv H; auto. }
    apply split_at_checked_spec in Es. destruct Es as [-> Hct].
    destr_if. { intros H; inv H. right. unfold zeroized, buf_zeroize; cbn; auto. }
    destruct (key_open c (le_val hdr) ct tag); intros H; inv H.
    right. unfold zeroized, buf_zeroize, set_vis; cbn [kind vis spare]. repeat split; auto.
    f_equal. rewrite Hv, <- app_assoc, !app_length. f_equal.
    unfold key_open_garbage. destruct (compute_nonce _ _); auto.
  Qed.
End ClientProofs.

(** * Closed statements *)

(** The AEAD idealisation: lengths, "open succeeds exactly on what seal
    produced under the same key, nonce and associated data", and an in-place
    open does not change the buffer length. *)
Definition aead_ideal (K : Type) (TAG : N)
    (aead_seal : K -> bytes -> bytes -> bytes -> option (bytes * bytes))
    (aead_open : K -> bytes -> bytes -> bytes -> bytes -> aead_open_res)
    (garbage : K -> bytes -> bytes -> bytes -> bytes -> bytes) : Prop :=
  (forall k n ad pt ct tag, aead_seal k n ad pt = Some (ct, tag) -> length ct = length pt /\ len tag = TAG)
  /\ (forall k n ad ct tag pt, aead_open k n ad ct tag = AOk pt <-> aead_seal k n ad pt = Some (ct, tag))
  /\ (forall k n ad ct tag, length (garbage k n ad ct tag) = length ct).

(** C39, totality: for every build mode, channel state, destination and
    byte string, [open] and [open_in_place] return [Ok] or [Err], never a
    panic; sealing never panics either. *)
Definition afc_open_total_stmt : Prop :=
  forall K TAG aead_open garbage m (c : chan K),
    (forall dst input, is_panic (fst (open K TAG aead_open m c dst input)) = false)
    /\ (forall data, is_panic (fst (open_in_place K TAG aead_open garbage m c data)) = false).
Lemma afc_open_total_proof : afc_open_total_stmt.
Proof. unfold afc_open_total_stmt. intros. split; intros; [apply open_total | apply open_in_place_total]. Qed.

Definition afc_seal_total_stmt : Prop :=
  forall K TAG aead_seal m (c : chan K),
    (forall dst pt, is_panic (fst (fst (seal K TAG aead_seal m c dst pt))) = false)
    /\ (forall data, buf_wf data -> TAG + data_header_size <= isize_max ->
          is_panic (fst (fst (seal_in_place K TAG aead_seal m c data))) = false).
Lemma afc_seal_total_proof : afc_seal_total_stmt.
Proof.
  unfold afc_seal_total_stmt. intros. split; intros.
  - apply (seal_total K TAG aead_seal (fun _ _ _ _ _ => AAuth) (fun _ _ _ _ ct => ct)).
  - apply (seal_in_place_total K TAG aead_seal (fun _ _ _ _ _ => AAuth) (fun _ _ _ _ ct => ct)); assumption.
Qed.

(** F5: the original [open_in_place] panics in the dev profile on every buffer
    that holds a header but fewer than [TAG] bytes before it. *)
Definition open_in_place_orig_refuted_stmt : Prop :=
  exists (data : buf),
    forall K aead_open garbage (c : chan K),
      is_panic (fst (open_in_place_orig K 16 aead_open garbage dev_mode c data)) = true.
Lemma open_in_place_orig_refuted_proof : open_in_place_orig_refuted_stmt.
Proof.
  exists {| kind := BVec; vis := [] ++ zeros 8; spare := [] |}. intros.
  rewrite (open_in_place_orig_panics K 16 (fun _ _ _ _ => None)) by reflexivity. reflexivity.
Qed.

(** C39, round trip: whatever [seal] / [seal_in_place] wrote is opened by a
    matching channel end, through both interfaces, to the plaintext, the
    channel's label and the sequence number used. *)
Definition afc_roundtrip_stmt : Prop :=
  forall K TAG aead_seal aead_open garbage, aead_ideal K TAG aead_seal aead_open garbage ->
  forall m m' (cs co : chan K),
    c_key K co = c_key K cs -> c_nonce K co = c_nonce K cs -> c_label K co = c_label K cs ->
    c_live K co = true ->
    (forall dst pt h dst' cs',
       seal K TAG aead_seal m cs dst pt = (Ok h, dst', cs') ->
       h = data_header /\ cs' = chan_next K cs /\
       let w := firstn (N.to_nat (len pt + OVERHEAD TAG)) dst' in
       skipn (N.to_nat (len pt + OVERHEAD TAG)) dst' = skipn (N.to_nat (len pt + OVERHEAD TAG)) dst
       /\ (forall dst2, len pt <= len dst2 ->
             open K TAG aead_open m' co dst2 w
             = (Ok (c_label K cs, c_seq K cs), pt ++ skipn (length pt) dst2))
       /\ (forall data, vis data = w ->
             exists data', open_in_place K TAG aead_open garbage m' co data
                           = (Ok (c_label K cs, c_seq K cs), data')
                           /\ vis data' = pt /\ kind data' = kind data))
    /\ (forall data h data' cs',
       buf_wf data -> TAG + data_header_size <= isize_max ->
       seal_in_place K TAG aead_seal m cs data = (Ok h, data', cs') ->
       h = data_header /\ cs' = chan_next K cs /\ kind data' = kind data
       /\ (forall dst2, len (vis data) <= len dst2 ->
             open K TAG aead_open m' co dst2 (vis data')
             = (Ok (c_label K cs, c_seq K cs), vis data ++ skipn (length (vis data)) dst2))
       /\ (forall d2, vis d2 = vis data' ->
             exists d2', open_in_place K TAG aead_open garbage m' co d2
                         = (Ok (c_label K cs, c_seq K cs), d2')
                         /\ vis d2' = vis data /\ kind d2' = kind d2)).
Lemma afc_roundtrip_proof : afc_roundtrip_stmt.
Proof.
  intros K TAG aead_seal aead_open garbage (Hlen & Hauth & Hg) m m' cs co Hk Hn Hl Hlive. split.
  - intros dst pt h dst' cs' Hs.
    apply (seal_ok K TAG aead_seal aead_open garbage Hlen Hauth Hg) in Hs.
    destruct Hs as (w & Hw & -> & Hd & -> & -> & _).
    pose proof (sealed_as_len K TAG aead_seal aead_open garbage Hlen Hauth Hg cs pt w Hw) as Hwl.
    assert (Hf : firstn (N.to_nat (len pt + OVERHEAD TAG)) (w ++ skipn (N.to_nat (len pt + OVERHEAD TAG)) dst) = w).
    { rewrite <- Hwl. unfold len. rewrite Nat2N.id, firstn_app, Nat.sub_diag, firstn_all. cbn. apply app_nil_r. }
    repeat split; auto.
    + rewrite <- Hwl at 1. unfold len at 1. rewrite Nat2N.id, skipn_app, Nat.sub_diag, skipn_all. reflexivity.
    + intros dst2 Hd2. cbv zeta. rewrite Hf. eapply open_sealed; eauto.
    + intros data Hv. cbv zeta in Hv. rewrite Hf in Hv. rewrite <- Hv in Hw.
      eapply open_in_place_sealed; eauto.
  - intros data h data' cs' Hwf Hov Hs.
    apply (seal_in_place_ok K TAG aead_seal aead_open garbage) in Hs; auto.
    destruct Hs as (Hw & Hkd & -> & -> & _).
    repeat split; auto.
    + intros dst2 Hd2. eapply open_sealed; eauto.
    + intros d2 Hv. rewrite <- Hv in Hw. eapply open_in_place_sealed; eauto.
Qed.

(** Sealing succeeds whenever the channel is live, the sequence number is
    below the limit, the AEAD accepts the plaintext and there is room. *)
Definition afc_seal_succeeds_stmt : Prop :=
  forall K TAG aead_seal aead_open garbage, aead_ideal K TAG aead_seal aead_open garbage ->
  forall m (c : chan K) n,
    c_live K c = true ->
    compute_nonce (c_nonce K c) (c_seq K c) = Some n ->
    (forall dst pt ct tag,
       aead_seal (c_key K c) n (ad_bytes (c_label K c)) pt = Some (ct, tag) ->
       len pt + OVERHEAD TAG <= len dst -> len dst <= usize_max ->
       exists dst', seal K TAG aead_seal m c dst pt = (Ok data_header, dst', chan_next K c))
    /\ (forall data ct tag,
       aead_seal (c_key K c) n (ad_bytes (c_label K c)) (vis data) = Some (ct, tag) ->
       buf_wf data -> TAG + data_header_size <= isize_max ->
       buf_try_reserve_exact m data (OVERHEAD TAG) = Ok tt ->
       exists data', seal_in_place K TAG aead_seal m c data = (Ok data_header, data', chan_next K c)).
Lemma afc_seal_succeeds_proof : afc_seal_succeeds_stmt.
Proof.
  intros K TAG aead_seal aead_open garbage (Hlen & Hauth & Hg) m c n Hl Hn. split.
  - intros dst pt ct tag Hs Hd Hu. eexists.
    eapply (seal_succeeds K TAG aead_seal aead_open garbage Hlen Hauth Hg); eauto.
  - intros data ct tag Hs Hwf Hov Hr.
    destruct (seal_in_place_succeeds K TAG aead_seal aead_open garbage m c data n ct tag Hwf Hov Hr Hl Hn Hs) as (d' & H & _).
    eauto.
Qed.

(** C39, authenticity: if [open] / [open_in_place] accept a byte string, it
    is exactly [ciphertext || tag || le64(seq)] for the AEAD sealing of the
    returned plaintext under this channel's key, the nonce of [seq] and the AD
    of this channel's label; any other byte string is rejected. *)
Definition afc_open_authentic_stmt : Prop :=
  forall K TAG aead_seal aead_open garbage, aead_ideal K TAG aead_seal aead_open garbage ->
  forall m (c : chan K),
    (forall dst input lbl seq dst',
       bytes_ok input ->
       open K TAG aead_open m c dst input = (Ok (lbl, seq), dst') ->
       exists pt ct tag n,
         compute_nonce (c_nonce K c) seq = Some n
         /\ aead_seal (c_key K c) n (ad_bytes (c_label K c)) pt = Some (ct, tag)
         /\ input = ct ++ tag ++ le_bytes 8 seq
         /\ lbl = c_label K c /\ c_live K c = true
         /\ dst' = pt ++ skipn (length pt) dst)
    /\ (forall data lbl seq data',
       bytes_ok (vis data) ->
       open_in_place K TAG aead_open garbage m c data = (Ok (lbl, seq), data') ->
       exists pt ct tag n,
         compute_nonce (c_nonce K c) seq = Some n
         /\ aead_seal (c_key K c) n (ad_bytes (c_label K c)) pt = Some (ct, tag)
         /\ vis data = ct ++ tag ++ le_bytes 8 seq
         /\ lbl = c_label K c /\ c_live K c = true
         /\ vis data' = pt /\ kind data' = kind data).
Lemma bytes_ok_app_r a b : bytes_ok (a ++ b) -> bytes_ok b.
Proof. unfold bytes_ok. rewrite Forall_app. tauto. Qed.
Lemma hdr_canon hdr : len hdr = data_header_size -> bytes_ok hdr -> hdr = le_bytes 8 (le_val hdr).
Proof.
  intros Hl Hb. rewrite <- (le_bytes_le_val hdr Hb) at 1. f_equal.
  unfold len, data_header_size in Hl. lia.
Qed.
Lemma afc_open_authentic_proof : afc_open_authentic_stmt.
Proof.
  intros K TAG aead_seal aead_open garbage (Hlen & Hauth & Hg) m c. split.
  - intros dst input lbl seq dst' Hb H.
    apply (open_ok_inv K TAG aead_seal aead_open garbage Hlen Hauth Hg) in H.
    destruct H as (pt & ct & tag & hdr & n & -> & Hh & -> & Hn & Hs & -> & Hl & _ & ->).
    exists pt, ct, tag, n. repeat split; auto.
    do 2 f_equal. apply hdr_canon; auto. do 2 apply bytes_ok_app_r in Hb. auto.
  - intros data lbl seq data' Hb H.
    apply (open_in_place_ok_inv K TAG aead_seal aead_open garbage Hlen Hauth Hg) in H.
    destruct H as (pt & ct & tag & hdr & n & Hv & Hh & -> & Hn & Hs & -> & Hl & Hv' & Hk).
    exists pt, ct, tag, n. repeat split; auto.
    rewrite Hv. do 2 f_equal. apply hdr_canon; auto. rewrite Hv in Hb. do 2 apply bytes_ok_app_r in Hb. auto.
Qed.

(** C39, what an error leaves behind: the destination is either untouched
    (the input was rejected before any decryption) or entirely zero. *)
Definition afc_open_err_clean_stmt : Prop :=
  forall K TAG aead_open garbage,
    (forall k n ad ct tag, length (garbage k n ad ct tag) = length ct) ->
    forall m (c : chan K),
      (forall dst input e dst',
         open K TAG aead_open m c dst input = (Err e, dst') -> dst' = dst \/ dst' = zeros (length dst))
      /\ (forall data e data',
         open_in_place K TAG aead_open garbage m c data = (Err e, data') ->
         data' = data \/ (kind data' = kind data /\ spare data' = spare data
                          /\ vis data' = zeros (length (vis data)))).
Lemma afc_open_err_clean_proof : afc_open_err_clean_stmt.
Proof.
  intros K TAG aead_open garbage Hg m c. split.
  - intros. eapply open_err_clean; eauto.
  - intros data e data' H. eapply open_in_place_err_clean in H; eauto.
Qed.

(** * Non-vacuity: a concrete AEAD satisfies [aead_ideal], and the model
    computes a round trip with it. *)
Definition toy_tag (k : N) (pt : bytes) : bytes := le_bytes 16 (k + len pt + 1000 * fold_right N.add 0 pt).
Definition toy_seal (k : N) (n ad pt : bytes) : option (bytes * bytes) :=
  Some (map (N.lxor k) pt, toy_tag k pt).
Fixpoint bytes_eqb (a b : bytes) : bool :=
  match a, b with
  | [], [] => true
  | x :: a', y :: b' => (x =? y) && bytes_eqb a' b'
  | _, _ => false
  end.
Lemma bytes_eqb_eq a b : bytes_eqb a b = true <-> a = b.
Proof.
  revert b; induction a as [|x a IH]; destruct b as [|y b]; cbn; split; intros H; try congruence; try discriminate.
  - apply andb_true_iff in H. destruct H as [H1 H2]. apply N.eqb_eq in H1. apply IH in H2. congruence.
  - inv H. rewrite N.eqb_refl. cbn. now apply IH.
Qed.
Definition toy_open (k : N) (n ad ct tag : bytes) : aead_open_res :=
  let pt := map (N.lxor k) ct in
  if bytes_eqb tag (toy_tag k pt) then AOk pt else AAuth.
Definition toy_garbage (k : N) (n ad ct tag : bytes) : bytes := ct.

Lemma map_lxor_invol k l : map (N.lxor k) (map (N.lxor k) l) = l.
Proof.
  induction l; cbn; auto. rewrite IHl. f_equal.
  rewrite <- N.lxor_assoc, N.lxor_nilpotent. apply N.lxor_0_l.
Qed.

Example toy_aead_ideal : aead_ideal N 16 toy_seal toy_open toy_garbage.
Proof.
  repeat split.
  - inv H. apply map_length.
  - inv H. unfold toy_tag. rewrite len_le_bytes. reflexivity.
  - unfold toy_open, toy_seal. destr_if; [|discriminate]. intros H; inv H.
    apply bytes_eqb_eq in E. rewrite map_lxor_invol. now rewrite <- E.
  - unfold toy_open, toy_seal. intros H; inv H. rewrite map_lxor_invol.
    replace (bytes_eqb _ _) with true; auto. symmetry. now apply bytes_eqb_eq.
Qed.

Definition toy_chan (seq : N) : chan N :=
  {| c_live := true; c_label := repeat 7 32; c_key := 42; c_nonce := repeat 9 12; c_seq := seq |}.
Example afc_roundtrip_nonvacuous :
  let '(r, dst, c') := seal N 16 toy_seal dev_mode (toy_chan 5) (repeat 90 40) [104; 105; 33] in
  r = Ok data_header /\ c_seq N c' = 6
  /\ open N 16 toy_open dev_mode (toy_chan 0) (repeat 90 5) (firstn 27 dst)
     = (Ok (repeat 7 32, 5), [104; 105; 33; 90; 90])
  /\ fst (open_in_place N 16 toy_open toy_garbage dev_mode (toy_chan 0)
                        {| kind := BVec; vis := firstn 27 dst; spare := [] |})
     = Ok (repeat 7 32, 5)
  /\ open N 16 toy_open dev_mode (toy_chan 0) (repeat 90 5) (firstn 20 dst)
     = (Err EAuthentication, repeat 90 5)
  /\ open N 16 toy_open dev_mode (toy_chan 0) (repeat 90 5) (1 :: skipn 1 (firstn 27 dst))
     = (Err EAuthentication, repeat 0 5).
Proof. vm_compute. repeat split; reflexivity. Qed.


Lemma app_eq_len_b {A} (x y a b : list A) : length x = length y -> x ++ a = y ++ b -> x = y /\ a = b.
Proof.
  revert y; induction x as [|h x IH]; destruct y as [|k y]; cbn; intros Hl H; try discriminate; auto.
  inv H. destruct (IH y ltac:(lia) H2) as [-> ->]. auto.
Qed.

(** C39, foreign ciphertexts: with a free-constructor AEAD (sealings under
    different key, nonce or AD never coincide), whatever one channel end
    sealed is accepted by another channel end only if that end holds the same
    key, derives the same nonce for the header's sequence number and has the
    same label. *)
Lemma ad_bytes_inj l l' : ad_bytes l = ad_bytes l' -> l = l'.
Proof. unfold ad_bytes. apply app_inv_head. Qed.

Definition afc_foreign_rejected_stmt : Prop :=
  forall K TAG aead_seal aead_open garbage, aead_ideal K TAG aead_seal aead_open garbage ->
  (forall k n ad pt k' n' ad' pt' c,
     aead_seal k n ad pt = Some c -> aead_seal k' n' ad' pt' = Some c -> k = k' /\ n = n' /\ ad = ad' /\ pt = pt') ->
  forall m m' (cs co : chan K) dst pt h dst' cs' dst2 lbl seq out,
    seal K TAG aead_seal m cs dst pt = (Ok h, dst', cs') ->
    bytes_ok dst' ->
    open K TAG aead_open m' co dst2 (firstn (N.to_nat (len pt + OVERHEAD TAG)) dst') = (Ok (lbl, seq), out) ->
    c_key K co = c_key K cs /\ c_label K co = c_label K cs /\ seq = c_seq K cs /\ lbl = c_label K cs
    /\ compute_nonce (c_nonce K co) seq = compute_nonce (c_nonce K cs) (c_seq K cs)
    /\ out = pt ++ skipn (length pt) dst2.
Lemma bytes_ok_firstn n l : bytes_ok l -> bytes_ok (firstn n l).
Proof. unfold bytes_ok. intros H. rewrite <- (firstn_skipn n l) in H. apply Forall_app in H. tauto. Qed.
Lemma afc_foreign_rejected_proof : afc_foreign_rejected_stmt.
Proof.
  intros K TAG aead_seal aead_open garbage Hid Hinj m m' cs co dst pt h dst' cs' dst2 lbl seq out Hs Hb Ho.
  pose proof Hid as (Hlen & Hauth & Hg).
  apply (seal_ok K TAG aead_seal aead_open garbage Hlen Hauth Hg) in Hs.
  destruct Hs as (w & (n & ct & tag & Hn & Hseal & ->) & -> & Hd & -> & -> & _).
  pose proof (sealed_as_len K TAG aead_seal aead_open garbage Hlen Hauth Hg cs pt _
                (ex_intro _ n (ex_intro _ ct (ex_intro _ tag (conj Hn (conj Hseal eq_refl)))))) as Hwl.
  set (w := ct ++ tag ++ le_bytes 8 (c_seq K cs)) in *.
  assert (Hf : firstn (N.to_nat (len pt + OVERHEAD TAG)) (w ++ skipn (N.to_nat (len pt + OVERHEAD TAG)) dst) = w).
  { rewrite <- Hwl. unfold len. rewrite Nat2N.id, firstn_app, Nat.sub_diag, firstn_all. cbn. apply app_nil_r. }
  rewrite Hf in Ho.
  assert (Hbw : bytes_ok w).
  { rewrite <- Hf. now apply bytes_ok_firstn. }
  destruct (afc_open_authentic_proof K TAG aead_seal aead_open garbage Hid m' co) as [Ha _].
  apply Ha in Ho; auto. destruct Ho as (pt' & ct' & tag' & n' & Hn' & Hs' & Hw & -> & _ & ->).
  destruct (Hlen _ _ _ _ _ _ Hseal) as [Hc Ht]. destruct (Hlen _ _ _ _ _ _ Hs') as [Hc' Ht'].
  unfold w in Hw.
  assert (Hl : length (ct ++ tag) = length (ct' ++ tag')).
  { apply (f_equal (@length N)) in Hw. rewrite !app_assoc, !app_length, !length_le_bytes in Hw.
    rewrite !app_length. lia. }
  rewrite !app_assoc in Hw. apply app_eq_len_b in Hw; auto. destruct Hw as [Hct Hseq].
  assert (Hlt : length ct = length ct').
  { unfold len in Ht, Ht'. rewrite !app_length in Hl. lia. }
  apply app_eq_len_b in Hct; auto. destruct Hct as [-> ->].
  pose proof Hn as Hn0. pose proof Hn' as Hn0'.
  unfold compute_nonce, seq_limit in Hn, Hn'. destruct (u64_max <=? c_seq K cs) eqn:E1; [discriminate|].
  destruct (u64_max <=? seq) eqn:E2; [discriminate|].
  apply le_bytes_inj in Hseq; try (rewrite pow_256_8; unfold u64_max, usize_mod in *; lia). subst seq.
  destruct (Hinj _ _ _ _ _ _ _ _ _ Hseal Hs') as (Hk & Hnn & Had & ->).
  apply ad_bytes_inj in Had. repeat split; auto. rewrite Hn0, Hn0'. congruence.
Qed.
