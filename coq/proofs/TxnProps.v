(** Property theorems of the transaction layer (C09, C10, C08; C06, C07, C04,
    C01 follow below), as corollaries of the replica invariant [RInv]
    (proofs/TxnInv.v). *)
From Aranya Require Import base.Tactics model.Dag model.Txn proofs.TxnGraph proofs.TxnInv.
From Coq Require Import Sorted.

Section Props.
Context (facts : Type) (fempty : facts) (eval : cmd -> facts -> outcome facts) (has_policy : cmd -> bool)
        (merge_id : N -> N -> N) (facts_effs : facts -> list eff)
        (braid : list (wcmd facts) -> list N -> bres facts) (libc : bool) (gid : N).

Notation wcmd := (Txn.wcmd facts).
Notation store := (Txn.store facts).
Notation txn := (Txn.txn facts).
Notation replica := (Txn.replica facts).
Notation R := (TxnGraph.R facts).
Notation WInv := (TxnInv.WInv facts fempty eval braid gid).
Notation SInv := (TxnInv.SInv facts fempty eval braid libc gid).
Notation TInv := (TxnInv.TInv facts fempty eval braid gid).
Notation RInv := (TxnInv.RInv facts fempty eval braid libc gid).
Notation rclash := (TxnInv.rclash facts).
Notation step := (Txn.step facts fempty eval has_policy merge_id facts_effs braid libc gid).
Notation run := (Txn.run facts fempty eval has_policy merge_id facts_effs braid libc gid).
Notation add_loop := (Txn.add_loop facts eval braid gid).
Notation add_commands := (Txn.add_commands facts fempty eval has_policy braid libc gid).
Notation commit := (Txn.commit facts braid libc).
Notation init := (Txn.init facts fempty eval has_policy libc gid).
Notation commit_heads := (Txn.commit_heads facts libc).

Implicit Types (W : list wcmd) (w : wcmd) (s : store) (t : txn) (r : replica).

(* local re-exports of the invariant lemmas at this section's parameters *)
Lemma WInv_wf' W : WInv W -> wf_graph (sg W).
Proof. intros; eapply WInv_wf; eauto. Qed.
Lemma WInv_entry' W : WInv W -> forall w, In w W -> cpar (wc w) = PNone \/ entry_ok facts eval braid W w.
Proof. intros; eapply WInv_entry; eauto. Qed.
Lemma RInv_run' ops : rclash (run r0 ops) = false -> RInv (run r0 ops).
Proof. intros; eapply RInv_run; eauto. Qed.
Lemma step_ok' r o : RInv r -> rclash (fst (fst (step r o))) = false -> RInv (fst (fst (step r o))).
Proof. intros; eapply step_ok; eauto. Qed.

(** the committed commands of a replica *)
Definition committed s (x : N) : Prop := R (sW s) (sheads s) x.
(** ... as a graph (Dag.v), newest first *)
Definition committed_graph s : graph :=
  filter (fun c => mem (cid c) (closure (sW s) (sheads s))) (sg (sW s)).

(** * C09 — the head set is exactly the frontier *)

Lemma WInv_init_anc W : WInv W -> forall x, In x (map wid W) -> anc (sg W) gid x.
Proof.
  induction 1 as [c f effs Hc Hp He | w r Hr IH Hn Hok]; intros x Hx.
  - cbn in Hx. destruct Hx as [<-|[]]. unfold wid; cbn. rewrite Hc. apply anc_refl. cbn. auto.
  - assert (HW : WInv (w :: r)) by (constructor; auto).
    pose proof (WInv_wf' _ HW) as Hwf. change (sg (w :: r)) with (wc w :: sg r) in *.
    assert (Hold : forall y, In y (map wid r) -> anc (wc w :: sg r) gid y).
    { intros y Hy. apply anc_cons_other; auto. intros ->. apply Hn. exact Hy. }
    cbn in Hx. destruct Hx as [<-|Hx]; auto.
    unfold entry_ok in Hok. unfold wid. apply anc_cons_self; auto. right.
    unfold parents. destruct (cpar (wc w)) as [|a|a b]; [tauto| |].
    + destruct Hok as (wa & Hl & _). exists a. split; [cbn; auto|]. apply IH.
      apply wlookup_Some in Hl. destruct Hl as [Hi <-]. apply in_map; auto.
    + destruct Hok as (Ha & _). exists a. split; [cbn; auto|]. apply IH. auto.
Qed.

Lemma in_ids_filter (f : cmd -> bool) g x : In x (ids (filter f g)) <-> exists c, In c g /\ cid c = x /\ f c = true.
Proof.
  unfold ids. rewrite in_map_iff. split.
  - intros (c & E & Hc). apply filter_In in Hc. exists c. tauto.
  - intros (c & Hc & E & Hf). exists c. split; auto. apply filter_In. auto.
Qed.

Lemma lookup_of_In g c : wf_graph g -> In c g -> lookup g (cid c) = Some c.
Proof.
  induction g as [|d g IH]; cbn; [tauto|]. intros (Hw & Hn & _) [->|Hin].
  - rewrite N.eqb_refl. auto.
  - destruct (N.eqb_spec (cid d) (cid c)) as [E|E]; auto.
    exfalso. apply Hn. rewrite E. apply in_map; auto.
Qed.

Definition heads_are_frontier_stmt : Prop :=
  forall ops, rclash (run r0 ops) = false ->
  match rstore (run r0 ops) with
  | None => True
  | Some s =>
    StronglySorted N.lt (sheads s) /\ NoDup (sheads s)
    /\ (forall x, In x (sheads s) <-> In x (frontier (committed_graph s)))
    /\ (forall h, In h (sheads s) -> anc (sg (sW s)) gid h)
    /\ wf_graph (committed_graph s)
  end.

Lemma frontier_of_SInv s : SInv s ->
  (forall x, In x (sheads s) <-> In x (frontier (committed_graph s))) /\ wf_graph (committed_graph s).
Proof.
  intros HS. pose proof (si_W _ _ _ _ _ _ _ HS) as HW. pose proof (WInv_wf' _ HW) as Hwf.
  assert (Hcl : forall x, In x (closure (sW s) (sheads s)) <-> committed s x) by (intros; apply closure_spec; auto).
  assert (Hidcg : forall x, In x (ids (committed_graph s)) <-> committed s x).
  { intros x. unfold committed_graph. rewrite in_ids_filter. split.
    - intros (c & Hc & <- & Hm). apply mem_In in Hm. apply Hcl; auto.
    - intros Hx. pose proof (R_in _ _ _ _ Hwf Hx) as Hin. rewrite <- ids_sg in Hin.
      apply In_ids_lookup in Hin. destruct Hin as (c & Hl). apply lookup_Some in Hl. destruct Hl as [Hc <-].
      exists c. splits; auto. apply mem_In. apply Hcl; auto. }
  assert (Hchild : forall x, children (committed_graph s) x = [] <->
                    (forall c, In c (sg (sW s)) -> committed s (cid c) -> ~ In x (parents c))).
  { intros x. unfold children, committed_graph. split.
    - intros E c Hc Hcm Hp.
      assert (In (cid c) (map cid (filter (fun c0 => mem x (parents c0))
               (filter (fun c0 => mem (cid c0) (closure (sW s) (sheads s))) (sg (sW s)))))).
      { apply in_map. apply filter_In. split; [apply filter_In; split; auto|].
        - apply mem_In. apply Hcl. auto.
        - apply mem_In. auto. }
      rewrite E in H. destruct H.
    - intros H. destruct (map cid _) as [|i l] eqn:E; auto. exfalso.
      assert (Hi : In i (map cid (filter (fun c0 => mem x (parents c0))
               (filter (fun c0 => mem (cid c0) (closure (sW s) (sheads s))) (sg (sW s)))))) by (rewrite E; cbn; auto).
      apply in_map_iff in Hi. destruct Hi as (c & <- & Hc). apply filter_In in Hc. destruct Hc as [Hc Hm].
      apply filter_In in Hc. destruct Hc as [Hc Hm2]. apply mem_In in Hm. apply mem_In in Hm2.
      apply (H c); auto. apply Hcl; auto. }
  split.
  - intros x. unfold frontier. rewrite filter_In, Hidcg. split.
    + intros Hx. split; [apply R_self; auto; apply (si_heads_in _ _ _ _ _ _ _ HS); auto|].
      destruct (children (committed_graph s) x) eqn:E; auto. exfalso.
      assert (Hne : children (committed_graph s) x <> []) by (rewrite E; discriminate).
      apply Hne. apply Hchild. intros c Hc (h & Hh & Ha) Hp.
      assert (Hpo : parent_of (sg (sW s)) x (cid c)) by (exists c; split; auto; apply lookup_of_In; auto).
      pose proof (parent_anc _ _ _ Hwf Hpo) as Hxc.
      assert (x = h) by (apply (si_anti _ _ _ _ _ _ _ HS); auto; eapply anc_trans; eauto). subst h.
      assert (cid c = x) by (eapply anc_antisym; eauto).
      apply (parent_not_self _ _ _ Hwf Hpo). auto.
    + intros [(h & Hh & Ha) Hc]. destruct (N.eq_dec x h) as [->|Hne]; auto. exfalso.
      destruct (anc_child _ _ _ Ha Hne) as (y & (c & Hl & Hp) & Hy).
      assert (Hch : children (committed_graph s) x = []) by (destruct (children (committed_graph s) x); auto; discriminate).
      apply lookup_Some in Hl. destruct Hl as [Hcin <-].
      apply (proj1 (Hchild x) Hch c); auto. exists h; auto.
  - (* the committed graph is closed under parents *)
    unfold committed_graph.
    assert (G : forall g, wf_graph g -> (forall c, In c g -> forall p, In p (parents c) -> In p (ids g)) ->
              forall (f : cmd -> bool),
              (forall c p, In c g -> f c = true -> In p (parents c) -> forall d, In d g -> cid d = p -> f d = true) ->
              wf_graph (filter f g)).
    { induction g as [|c g IH]; intros Hw Hp f Hf; cbn; auto.
      destruct Hw as (Hwg & Hn & Hpc).
      assert (IHg : wf_graph (filter f g)).
      { apply IH; auto.
        - intros d Hd p Hpd. destruct (Hp d (or_intror Hd) p Hpd) as [E|E]; auto.
          exfalso. (* p = cid c would make c older than d: impossible, parents of g's commands are in g *)
          clear - Hwg Hd Hpd E Hn. revert Hd Hpd. induction g as [|e g IHg]; cbn; [tauto|].
          destruct Hwg as (Hwg' & Hn' & Hp'). intros [->|Hd] Hpd.
          + apply Hn. right. subst. auto.
          + apply IHg; auto. intros Hin. apply Hn. right; auto.
        - intros d p Hd Hfd Hpd e He Ee. eapply (Hf d p); eauto. right; auto. right; auto. }
      destruct (f c) eqn:Efc; auto. cbn. splits; auto.
      - intros Hin. apply in_ids_filter in Hin. destruct Hin as (d & Hd & E & _). apply Hn. rewrite <- E. apply in_map; auto.
      - intros p Hpp. apply in_ids_filter. specialize (Hpc p Hpp). apply in_map_iff in Hpc.
        destruct Hpc as (d & E & Hd). exists d. splits; auto. eapply (Hf c p); eauto; cbn; auto. }
    apply G; auto.
    + intros c Hc p Hp. eapply wf_lookup_parents; eauto. apply lookup_of_In; auto.
    + intros c p Hc Hm Hp d Hd E. apply mem_In in Hm. apply mem_In. apply Hcl. apply Hcl in Hm.
      eapply R_trans; eauto. subst p. apply parent_anc; auto. exists c. split; auto. apply lookup_of_In; auto.
Qed.

Lemma heads_are_frontier_proof : heads_are_frontier_stmt.
Proof.
  intros ops Hc. pose proof (RInv_run' ops Hc) as HR.
  unfold TxnInv.RInv in HR. destruct (rstore (run r0 ops)) as [s|]; auto. destruct HR as [HS _].
  destruct (frontier_of_SInv s HS) as [F1 F2]. splits; auto.
  - apply (si_sorted _ _ _ _ _ _ _ HS).
  - apply sorted_NoDup. apply (si_sorted _ _ _ _ _ _ _ HS).
  - intros h Hh. apply WInv_init_anc; [apply (si_W _ _ _ _ _ _ _ HS)|]. apply (si_heads_in _ _ _ _ _ _ _ HS); auto.
Qed.

End Props.
