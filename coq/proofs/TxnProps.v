(** Property theorems of the transaction layer (C09, C10, C08; C06, C07, C04,
    C01 follow below), as corollaries of the replica invariant [RInv]
    (proofs/TxnInv.v). *)
From Aranya Require Import base.Tactics model.Dag model.Txn proofs.TxnGraph proofs.TxnInv.
From Coq Require Import Sorted.

Section Props.
Context (facts : Type) (fempty : facts) (eval : cmd -> facts -> outcome facts) (has_policy : cmd -> bool)
        (merge_id : N -> N -> N) (facts_effs : facts -> list eff)
        (braid : list (wcmd facts) -> list N -> bres facts) (libc : bool) (gid : N).

Notation wcmd := (Txn.wcmd facts).
Notation store := (Txn.store facts).
Notation txn := (Txn.txn facts).
Notation replica := (Txn.replica facts).
Notation R := (TxnGraph.R facts).
Notation WInv := (TxnInv.WInv facts fempty eval braid gid).
Notation SInv := (TxnInv.SInv facts fempty eval braid libc gid).
Notation TInv := (TxnInv.TInv facts eval braid).
Notation RInv := (TxnInv.RInv facts fempty eval braid libc gid).
Notation rclash := (TxnInv.rclash facts).
Notation step := (Txn.step facts fempty eval has_policy merge_id facts_effs braid libc gid).
Notation run := (Txn.run facts fempty eval has_policy merge_id facts_effs braid libc gid).
Notation add_loop := (Txn.add_loop facts eval braid gid).
Notation add_commands := (Txn.add_commands facts fempty eval has_policy braid libc gid).
Notation commit := (Txn.commit facts braid libc).
Notation init := (Txn.init facts fempty eval has_policy libc gid).
Notation commit_heads := (Txn.commit_heads facts libc).
Notation sext := (TxnInv.sext facts).
Notation collapse_step := (Txn.collapse_step facts merge_id braid).
Notation collapse_go := (Txn.collapse_go facts merge_id braid).
Notation collapse_heads := (Txn.collapse_heads facts merge_id braid).
Notation publish := (Txn.publish facts eval).
Notation do_action := (Txn.do_action facts eval merge_id facts_effs braid libc).
Notation merge_persp := (Txn.merge_persp facts).
Notation mk_merge := (Txn.mk_merge merge_id).
Notation add_single := (Txn.add_single facts eval).
Notation add_merge := (Txn.add_merge facts braid).
Notation pids := (TxnInv.pids facts).
Notation held := (TxnInv.held facts).
Notation ext := (TxnInv.ext facts).
Notation hello_head := (Txn.hello_head facts merge_id).
Notation synth_go := (Txn.synth_go merge_id).
Notation synth_step := (Txn.synth_step merge_id).
Notation PInv := (TxnInv.PInv facts eval braid).
Notation stored := (TxnInv.stored facts).

Implicit Types (W : list wcmd) (w : wcmd) (s : store) (t : txn) (r : replica).

(* local re-exports of the invariant lemmas at this section's parameters *)
Lemma WInv_wf' W : WInv W -> wf_graph (sg W).
Proof. intros; eapply WInv_wf; eauto. Qed.
Lemma WInv_NoDup' W : WInv W -> NoDup (map wid W).
Proof. intros; eapply WInv_NoDup; eauto. Qed.
Lemma WInv_entry' W : WInv W -> forall w, In w W -> cpar (wc w) = PNone \/ entry_ok facts eval braid W w.
Proof. intros; eapply WInv_entry; eauto. Qed.
Lemma RInv_run' ops : rclash (run r0 ops) = false -> RInv (run r0 ops).
Proof. intros; eapply RInv_run; eauto. Qed.
Lemma step_ok' r o : RInv r -> rclash (fst (fst (step r o))) = false -> RInv (fst (fst (step r o))).
Proof. intros; eapply step_ok; eauto. Qed.
Lemma write_perspective_ok' s t s1 t1 e :
  SInv s -> TInv s t -> write_perspective s t = (s1, t1, e) -> sclash s1 = false ->
  SInv s1 /\ sext s s1 /\ TInv s1 t1 /\ tpersp t1 = None
  /\ tstamp t1 = tstamp t /\ tseen t1 = tseen t /\ tadded t1 = tadded t
  /\ (tstamp t = Some (sstamp s) ->
      forall x, R (sW s1) (ttips t1) x <-> (R (sW s) (ttips t) x \/ In x (pids t))).
Proof. intros; eapply write_perspective_ok; eauto. Qed.
Lemma collapse_go_ok' n s q s1 (rr : N + cerr) :
  SInv s -> (forall x, In x q -> In x (map wid (sW s))) ->
  collapse_go n s q = (s1, rr) -> sclash s1 = false ->
  SInv s1 /\ sext s s1 /\ cmono facts s s1 /\ match rr with inl h => In h (map wid (sW s1)) | inr _ => True end.
Proof. intros; eapply collapse_go_ok; eauto. Qed.
Lemma collapse_step_ok' s a b s' m :
  SInv s -> In a (map wid (sW s)) -> In b (map wid (sW s)) ->
  collapse_step s a b = inl (s', m) -> sclash s' = false ->
  SInv s' /\ sext s s' /\ In m (map wid (sW s')) /\ cmono facts s s'.
Proof. intros; eapply collapse_step_ok with (a := a) (b := b); eauto. Qed.
Lemma write_ok' s (p : persp facts) s' hid :
  WInv (sW s) -> PInv (sW s) p -> write s p = Some (s', hid) -> sclash s' = false -> sclash s = false ->
  WInv (sW s') /\ sext s s' /\ (forall w, In w (pcmds p) -> stored (sW s') w)
  /\ exists w rest, pcmds p = w :: rest /\ hid = wid w.
Proof. intros; eapply write_ok; eauto. Qed.
Lemma publish_PInv' W cs (p : persp facts) i fail log p' log' :
  PInv W p -> publish p cs i fail log = inl (p', log') -> PInv W p' /\ pp p' = pp p.
Proof. intros; eapply publish_PInv; eauto. Qed.
Lemma merge_persp_PInv' W c (l rr : N) f effs (p : persp facts) :
  In l (map wid W) -> In rr (map wid W) -> braid (reachset W [l; rr]) [l; rr] = BOk f effs ->
  merge_persp W c l rr f = Some p -> PInv W p /\ exists w, pcmds p = [w] /\ wc w = c.
Proof. intros; eapply merge_persp_PInv with (l := l) (r := rr); eauto. Qed.
Lemma SInv_sext' s s' : SInv s -> sext s s' -> WInv (sW s') -> sclash s' = false -> SInv s'.
Proof. intros; eapply SInv_sext; eauto. Qed.
Lemma R_ext' W W' hs x :
  WInv W' -> ext W W' -> (forall h, In h hs -> In h (map wid W)) -> (R W' hs x <-> R W hs x).
Proof. intros; eapply R_ext; eauto. Qed.
Lemma anc_ext' W W' x h :
  WInv W' -> ext W W' -> In h (map wid W) -> (anc (sg W') x h <-> anc (sg W) x h).
Proof. intros; eapply anc_ext; eauto. Qed.
Lemma add_commands_ok' so t cs so' t' l x :
  match so with Some s => SInv s /\ TInv s t | None => tnew_like facts t end ->
  add_commands so t cs = (so', t', l, x) ->
  match so' with Some s' => sclash s' = false | None => True end ->
  match so' with
  | None => so = None /\ t' = t
  | Some s' =>
    SInv s' /\ TInv s' t'
    /\ match so with
       | Some s => sext s s' /\ cmono facts s s'
       | None => forall t2, tnew_like facts t2 -> TInv s' t2
       end
  end.
Proof. intros; eapply add_commands_ok; eauto. Qed.
Lemma add_single_ok' s t c parent s1 t1 l e :
  SInv s -> TInv s t -> tstamp t <> None ->
  ~ In (cid c) (pids t) -> (tstamp t = Some (sstamp s) -> ~ R (sW s) (ttips t) (cid c)) ->
  add_single s t c parent = (s1, t1, l, e) -> sclash s1 = false ->
  SInv s1 /\ sext s s1 /\ TInv s1 t1 /\ tstamp t1 = tstamp t /\ tseen t1 = tseen t
  /\ (tstamp t = Some (sstamp s) -> forall x, held s1 t1 x <-> (held s t x \/ (e = None /\ x = cid c)))
  /\ tadded t1 = (match e with None => cid c :: tadded t | Some _ => tadded t end).
Proof. intros; eapply add_single_ok; eauto. Qed.
Lemma chain_reach' pp0 base mc0 pcm :
  chain facts eval pp0 base mc0 pcm -> forall W w rest, pcm = w :: rest ->
  (forall x, In x pcm -> stored W x) ->
  forall x, anc (sg W) x (wid w) <-> In x (map wid pcm) \/ R W (prior_ids pp0) x.
Proof. intros; eapply chain_reach; eauto. Qed.

(** the committed commands of a replica *)
Definition committed s (x : N) : Prop := R (sW s) (sheads s) x.
(** ... as a graph (Dag.v), newest first *)
Definition committed_graph s : graph :=
  filter (fun c => mem (cid c) (closure (sW s) (sheads s))) (sg (sW s)).

(** * C09 — the head set is exactly the frontier *)

Lemma WInv_init_anc W : WInv W -> forall x, In x (map wid W) -> anc (sg W) gid x.
Proof.
  induction 1 as [c f effs Hc Hp He | w r Hr IH Hn Hok]; intros x Hx.
  - cbn in Hx. destruct Hx as [<-|[]]. unfold wid; cbn. rewrite Hc. apply anc_refl. cbn. auto.
  - assert (HW : WInv (w :: r)) by (constructor; auto).
    pose proof (WInv_wf' _ HW) as Hwf. change (sg (w :: r)) with (wc w :: sg r) in *.
    assert (Hold : forall y, In y (map wid r) -> anc (wc w :: sg r) gid y).
    { intros y Hy. apply anc_cons_other; auto. intros ->. apply Hn. exact Hy. }
    cbn in Hx. destruct Hx as [<-|Hx]; auto.
    unfold entry_ok in Hok. unfold wid. apply anc_cons_self; auto. right.
    unfold parents. destruct (cpar (wc w)) as [|a|a b]; [tauto| |].
    + destruct Hok as (wa & Hl & _). exists a. split; [cbn; auto|]. apply IH.
      apply wlookup_Some in Hl. destruct Hl as [Hi <-]. apply in_map; auto.
    + destruct Hok as (Ha & _). exists a. split; [cbn; auto|]. apply IH. auto.
Qed.

Lemma in_ids_filter (f : cmd -> bool) g x : In x (ids (filter f g)) <-> exists c, In c g /\ cid c = x /\ f c = true.
Proof.
  unfold ids. rewrite in_map_iff. split.
  - intros (c & E & Hc). apply filter_In in Hc. exists c. tauto.
  - intros (c & Hc & E & Hf). exists c. split; auto. apply filter_In. auto.
Qed.

Lemma lookup_of_In g c : wf_graph g -> In c g -> lookup g (cid c) = Some c.
Proof.
  induction g as [|d g IH]; cbn; [tauto|]. intros (Hw & Hn & _) [->|Hin].
  - rewrite N.eqb_refl. auto.
  - destruct (N.eqb_spec (cid d) (cid c)) as [E|E]; auto.
    exfalso. apply Hn. rewrite E. apply in_map; auto.
Qed.

Definition heads_are_frontier_stmt : Prop :=
  forall ops, rclash (run r0 ops) = false ->
  match rstore (run r0 ops) with
  | None => True
  | Some s =>
    StronglySorted N.lt (sheads s) /\ NoDup (sheads s)
    /\ (forall x, In x (sheads s) <-> In x (frontier (committed_graph s)))
    /\ (forall h, In h (sheads s) -> anc (sg (sW s)) gid h)
    /\ wf_graph (committed_graph s)
  end.

Lemma frontier_of_SInv s : SInv s ->
  (forall x, In x (sheads s) <-> In x (frontier (committed_graph s))) /\ wf_graph (committed_graph s).
Proof.
  intros HS. pose proof (si_W _ _ _ _ _ _ _ HS) as HW. pose proof (WInv_wf' _ HW) as Hwf.
  assert (Hcl : forall x, In x (closure (sW s) (sheads s)) <-> committed s x) by (intros; apply closure_spec; auto).
  assert (Hidcg : forall x, In x (ids (committed_graph s)) <-> committed s x).
  { intros x. unfold committed_graph. rewrite in_ids_filter. split.
    - intros (c & Hc & <- & Hm). apply mem_In in Hm. apply Hcl; auto.
    - intros Hx. pose proof (R_in _ _ _ _ Hwf Hx) as Hin. rewrite <- ids_sg in Hin.
      apply In_ids_lookup in Hin. destruct Hin as (c & Hl). apply lookup_Some in Hl. destruct Hl as [Hc <-].
      exists c. splits; auto. apply mem_In. apply Hcl; auto. }
  assert (Hchild : forall x, children (committed_graph s) x = [] <->
                    (forall c, In c (sg (sW s)) -> committed s (cid c) -> ~ In x (parents c))).
  { intros x. unfold children, committed_graph. split.
    - intros E c Hc Hcm Hp.
      assert (In (cid c) (map cid (filter (fun c0 => mem x (parents c0))
               (filter (fun c0 => mem (cid c0) (closure (sW s) (sheads s))) (sg (sW s)))))).
      { apply in_map. apply filter_In. split; [apply filter_In; split; auto|].
        - apply mem_In. apply Hcl. auto.
        - apply mem_In. auto. }
      rewrite E in H. destruct H.
    - intros H. destruct (map cid _) as [|i l] eqn:E; auto. exfalso.
      assert (Hi : In i (map cid (filter (fun c0 => mem x (parents c0))
               (filter (fun c0 => mem (cid c0) (closure (sW s) (sheads s))) (sg (sW s)))))) by (rewrite E; cbn; auto).
      apply in_map_iff in Hi. destruct Hi as (c & <- & Hc). apply filter_In in Hc. destruct Hc as [Hc Hm].
      apply filter_In in Hc. destruct Hc as [Hc Hm2]. apply mem_In in Hm. apply mem_In in Hm2.
      apply (H c); auto. apply Hcl; auto. }
  split.
  - intros x. unfold frontier. rewrite filter_In, Hidcg. split.
    + intros Hx. split; [apply R_self; auto; apply (si_heads_in _ _ _ _ _ _ _ HS); auto|].
      destruct (children (committed_graph s) x) eqn:E; auto. exfalso.
      assert (Hne : children (committed_graph s) x <> []) by (rewrite E; discriminate).
      apply Hne. apply Hchild. intros c Hc (h & Hh & Ha) Hp.
      assert (Hpo : parent_of (sg (sW s)) x (cid c)) by (exists c; split; auto; apply lookup_of_In; auto).
      pose proof (parent_anc _ _ _ Hwf Hpo) as Hxc.
      assert (x = h) by (apply (si_anti _ _ _ _ _ _ _ HS); auto; eapply anc_trans; eauto). subst h.
      assert (cid c = x) by (eapply anc_antisym; eauto).
      apply (parent_not_self _ _ _ Hwf Hpo). auto.
    + intros [(h & Hh & Ha) Hc]. destruct (N.eq_dec x h) as [->|Hne]; auto. exfalso.
      destruct (anc_child _ _ _ Ha Hne) as (y & (c & Hl & Hp) & Hy).
      assert (Hch : children (committed_graph s) x = []) by (destruct (children (committed_graph s) x); auto; discriminate).
      apply lookup_Some in Hl. destruct Hl as [Hcin <-].
      apply (proj1 (Hchild x) Hch c); auto. exists h; auto.
  - (* the committed graph is closed under parents *)
    unfold committed_graph.
    assert (G : forall g, wf_graph g -> (forall c, In c g -> forall p, In p (parents c) -> In p (ids g)) ->
              forall (f : cmd -> bool),
              (forall c p, In c g -> f c = true -> In p (parents c) -> forall d, In d g -> cid d = p -> f d = true) ->
              wf_graph (filter f g)).
    { induction g as [|c g IH]; intros Hw Hp f Hf; cbn; auto.
      destruct Hw as (Hwg & Hn & Hpc).
      assert (IHg : wf_graph (filter f g)).
      { apply IH; auto.
        - intros d Hd p Hpd. destruct (Hp d (or_intror Hd) p Hpd) as [E|E]; auto.
          exfalso. (* p = cid c would make c older than d: impossible, parents of g's commands are in g *)
          clear - Hwg Hd Hpd E Hn. revert Hd Hpd. induction g as [|e g IHg]; cbn; [tauto|].
          destruct Hwg as (Hwg' & Hn' & Hp'). intros [->|Hd] Hpd.
          + apply Hn. right. subst. auto.
          + apply IHg; auto. intros Hin. apply Hn. right; auto.
        - intros d p Hd Hfd Hpd e He Ee. eapply (Hf d p); eauto. right; auto. right; auto. }
      destruct (f c) eqn:Efc; auto. cbn. splits; auto.
      - intros Hin. apply in_ids_filter in Hin. destruct Hin as (d & Hd & E & _). apply Hn. rewrite <- E. apply in_map; auto.
      - intros p Hpp. apply in_ids_filter. specialize (Hpc p Hpp). apply in_map_iff in Hpc.
        destruct Hpc as (d & E & Hd). exists d. splits; auto. eapply (Hf c p); eauto; cbn; auto. }
    apply G; auto.
    + intros c Hc p Hp. eapply wf_lookup_parents; eauto. apply lookup_of_In; auto.
    + intros c p Hc Hm Hp d Hd E. apply mem_In in Hm. apply mem_In. apply Hcl. apply Hcl in Hm.
      eapply R_trans; eauto. subst p. apply parent_anc; auto. exists c. split; auto. apply lookup_of_In; auto.
Qed.

Lemma heads_are_frontier_proof : heads_are_frontier_stmt.
Proof.
  intros ops Hc. pose proof (RInv_run' ops Hc) as HR.
  unfold TxnInv.RInv in HR. destruct (rstore (run r0 ops)) as [s|]; auto. destruct HR as [HS _].
  destruct (frontier_of_SInv s HS) as [F1 F2]. splits; auto.
  - apply (si_sorted _ _ _ _ _ _ _ HS).
  - apply sorted_NoDup. apply (si_sorted _ _ _ _ _ _ _ HS).
  - intros h Hh. apply WInv_init_anc; [apply (si_W _ _ _ _ _ _ _ HS)|]. apply (si_heads_in _ _ _ _ _ _ _ HS); auto.
Qed.

(** * C10 — a graph is bound to its init command *)
Definition init_entry (c : cmd) (f : facts) : wcmd := {| wc := c; wmc := 0; wfacts := f |}.

Definition init_binding_stmt : Prop :=
  (* receiving commands for a graph that does not exist locally *)
  (forall t, add_commands None t [] = (None, t, [], RErr EInitError))
  /\ (forall t c rest, cid c <> gid \/ cpar c <> PNone \/ has_policy c = false ->
        add_commands None t (c :: rest) = (None, t, [], RErr EInitError))
  /\ (forall t c rest e d effs, cid c = gid -> cpar c = PNone -> has_policy c = true ->
        eval c fempty = Fail e d effs ->
        add_commands None t (c :: rest) = (None, t, SBegin :: consumes effs ++ [SRollback], RErr (EPolicy e)))
  /\ (forall t c rest f effs, cid c = gid -> cpar c = PNone -> has_policy c = true ->
        eval c fempty = Accept f effs ->
        exists s0, sW s0 = [init_entry c f] /\ sheads s0 = [gid] /\ scache s0 = f /\
        add_commands None t (c :: rest) =
          (let '(s1, t1, l, r) := add_loop s0 (capture s0 t) rest 1 (SBegin :: consumes effs ++ [SCommit]) in
           (Some s1, t1, l, r)))
  (* a graph that exists *)
  /\ (forall s t c rest n l, cpar c = PNone -> cid c = gid ->
        add_loop s t (c :: rest) n l = add_loop s t rest n l)
  /\ (forall s t c rest n l, cpar c = PNone -> cid c <> gid ->
        match tpersp t with Some p => includes p (cid c) | None => false end = false ->
        locate s t (cid c) = false ->
        add_loop s t (c :: rest) n l = (s, t, l, RErr EInitError))
  (* the graph id is the id of the one parentless command of the stored graph, and nothing stored
     under another id is parentless *)
  /\ (forall ops, rclash (run r0 ops) = false ->
      match rstore (run r0 ops) with
      | None => True
      | Some s => exists w0 pre, sW s = pre ++ [w0] /\ wid w0 = gid /\ cpar (wc w0) = PNone
                  /\ forall w, In w pre -> cpar (wc w) <> PNone
      end).

Lemma WInv_one_root W : WInv W ->
  exists w0 pre, W = pre ++ [w0] /\ wid w0 = gid /\ cpar (wc w0) = PNone /\ forall w, In w pre -> cpar (wc w) <> PNone.
Proof.
  induction 1 as [c f effs Hc Hp He | w r Hr IH Hn Hok].
  - eexists; exists []. cbn. splits; auto.
  - destruct IH as (w0 & pre & -> & H1 & H2 & H3). exists w0, (w :: pre). cbn. splits; auto.
    intros x [<-|Hx]; auto. unfold entry_ok in Hok. intros E. rewrite E in Hok. auto.
Qed.

Lemma init_binding_proof : init_binding_stmt.
Proof.
  unfold init_binding_stmt. splits.
  - reflexivity.
  - intros t c rest H. unfold Txn.add_commands, Txn.init.
    destruct (N.eqb_spec (cid c) gid) as [E|E]; cbn [negb]; auto.
    destruct (prior_eqb (cpar c) PNone) eqn:Ep; cbn [negb]; auto.
    apply prior_eqb_eq in Ep. destruct (has_policy c) eqn:Eh; cbn [negb]; auto.
    exfalso. destruct H as [H|[H|H]]; congruence.
  - intros t c rest e d effs E1 E2 E3 E4. unfold Txn.add_commands, Txn.init.
    rewrite E1, N.eqb_refl, E2, E3, E4. reflexivity.
  - intros t c rest f effs E1 E2 E3 E4. eexists. splits; cycle 3.
    + unfold Txn.add_commands, Txn.init. rewrite E1, N.eqb_refl, E2, E3. cbn [negb prior_eqb]. rewrite <- E1, E4.
      reflexivity.
    + reflexivity.
    + cbn. congruence.
    + reflexivity.
  - intros s t c rest n l E1 E2. cbn [Txn.add_loop].
    destruct (match tpersp t with Some p => includes p (cid c) | None => false end); auto.
    destruct (locate s t (cid c)); auto. rewrite E1, E2, N.eqb_refl. auto.
  - intros s t c rest n l E1 E2 E3 E4. cbn [Txn.add_loop]. rewrite E3, E4, E1.
    destruct (N.eqb_spec (cid c) gid); [congruence|auto].
  - intros ops Hc. pose proof (RInv_run' ops Hc) as HR. unfold TxnInv.RInv in HR.
    destruct (rstore (run r0 ops)) as [s|]; auto. destruct HR as [HS _].
    apply WInv_one_root. apply (si_W _ _ _ _ _ _ _ HS).
Qed.

(** * C08 — transactions are isolated and history only grows *)
Lemma committed_sext s s' : SInv s -> sext s s' -> WInv (sW s') -> forall y, committed s' y <-> committed s y.
Proof.
  intros HS (He & Eh & _) HW y. unfold committed. rewrite Eh. apply R_ext'; auto.
  apply (si_heads_in _ _ _ _ _ _ _ HS).
Qed.

Lemma commit_spec s t so' l x :
  SInv s -> TInv s t -> commit (Some s) t = (so', l, x) ->
  match so' with Some s' => sclash s' = false | None => True end ->
  exists s', so' = Some s' /\
   ((x = ROkB true /\ tstamp t = Some (sstamp s) /\ sncommit s' = (sncommit s + 1)%N
     /\ (sstamp s < sstamp s')%N
     /\ (forall y, committed s' y <-> committed s y \/ In y (tadded t)))
    \/ (x <> ROkB true /\ sheads s' = sheads s /\ scache s' = scache s /\ sstamp s' = sstamp s
        /\ sncommit s' = sncommit s /\ (forall y, committed s' y <-> committed s y)))
   /\ (x = RErr EConcurrentTransaction <-> (tstamp t <> None /\ tseen t <> sncommit s))
   /\ (x = RErr EConcurrentTransaction -> s' = s)
   /\ (x = ROkB false -> tstamp t = None /\ s' = s).
Proof.
  intros HS HT Hcm Hc. unfold Txn.commit in Hcm.
  pose proof HT as (H0 & Hf & Hst).
  destruct (tstamp t) as [o|] eqn:Es.
  2:{ inv Hcm. exists s. split; [reflexivity|]. split; [right; splits; auto; try discriminate; tauto|].
      split; [split; [discriminate|intros [H _]; congruence]|]. split; [discriminate|auto]. }
  unfold stamp_ok in Hst. rewrite Es in Hst. destruct Hst as (S1 & S2 & S3).
  destruct (N.eqb_spec o (sstamp s)) as [Eo|Eo]; cbn [negb] in Hcm.
  2:{ inv Hcm. exists s. split; [reflexivity|]. split; [right; splits; auto; try discriminate; tauto|].
      split; [split; auto; intros _; split; [discriminate|]; intros E; apply Eo; apply S3; auto|].
      split; [auto|discriminate]. }
  subst o.
  assert (Hseen : tseen t = sncommit s) by (apply S3; auto).
  destruct (write_perspective s t) as [[s1 t1] e] eqn:Ew.
  assert (Hc1 : sclash s1 = false).
  { destruct e; [inv Hcm; auto|]. destruct (ttips t1) as [|h0 tl]; [inv Hcm; auto|].
    destruct (fold_left _ _ _) as [|h [|h2 hs]]; try solve [destruct (braid _ _); inv Hcm; auto].
    destruct (wlookup (sW s1) h); inv Hcm; auto. }
  destruct (write_perspective_ok' _ _ _ _ _ HS HT Ew Hc1) as (A & B & C & D & E1 & E2 & E3 & F).
  pose proof (committed_sext s s1 HS B (si_W _ _ _ _ _ _ _ A)) as Hcs.
  assert (Hkeep : forall x0 : res, x0 <> ROkB true -> x0 <> RErr EConcurrentTransaction -> x0 <> ROkB false ->
     exists s', Some s1 = Some s' /\
     ((x0 = ROkB true /\ Some (sstamp s) = Some (sstamp s) /\ sncommit s' = (sncommit s + 1)%N
        /\ (sstamp s < sstamp s')%N /\ (forall y, committed s' y <-> committed s y \/ In y (tadded t)))
      \/ (x0 <> ROkB true /\ sheads s' = sheads s /\ scache s' = scache s /\ sstamp s' = sstamp s
          /\ sncommit s' = sncommit s /\ (forall y, committed s' y <-> committed s y)))
     /\ (x0 = RErr EConcurrentTransaction <-> (Some (sstamp s) <> None /\ tseen t <> sncommit s))
     /\ (x0 = RErr EConcurrentTransaction -> s' = s)
     /\ (x0 = ROkB false -> Some (sstamp s) = None /\ s' = s)).
  { intros x0 N1 N2 N3. exists s1. destruct B as (B1 & B2 & B3 & B4 & B5 & B6).
    split; [reflexivity|]. split; [right; splits; auto|].
    split; [split; [tauto|intros [_ H]; congruence]|]. split; tauto. }
  destruct e as [err|].
  { inv Hcm. apply Hkeep; try discriminate.
    unfold write_perspective in Ew. destruct (tpersp t); [|inv Ew].
    destruct (match tpparents t with PSingle _ => _ | _ => false end); [inv Ew|].
    destruct (write s p) as [[? ?]|]; inv Ew. discriminate. }
  pose proof C as (C0 & Cf & Cs). pose proof C0 as [T1 T2 T3 T4].
  assert (Efresh : tstamp t1 = Some (sstamp s1)).
  { rewrite E1, Es. destruct B as (_ & _ & _ & -> & _). auto. }
  destruct (Cf Efresh) as [G1 G2 G3 G4 G5].
  destruct (ttips t1) as [|h0 tl] eqn:Et.
  { exfalso. destruct (sheads s1) as [|h hs] eqn:Eh; [apply (si_heads_ne _ _ _ _ _ _ _ A); auto|].
    destruct (G1 h (or_introl eq_refl)) as (t0 & [] & _). }
  assert (Ehs : fold_left (fun l i => hs_push i l) (ttips t1) [] = ttips t1) by (rewrite Et; apply tins_sorted_id; auto).
  rewrite <- Et in Hcm. rewrite Ehs in Hcm.
  assert (Hcom : forall fc y, committed (commit_heads s1 (ttips t1) fc) y <-> committed s y \/ In y (tadded t)).
  { intros fc y. unfold committed. cbn [sW sheads Txn.commit_heads].
    rewrite Et. rewrite (F Es y). destruct (Hf eq_refl) as [K1 K2 K3 K4 K5]. apply K5. }
  assert (Hgood : forall fc, exists s', Some (commit_heads s1 (ttips t1) fc) = Some s' /\
     ((ROkB true = ROkB true /\ Some (sstamp s) = Some (sstamp s) /\ sncommit s' = (sncommit s + 1)%N
        /\ (sstamp s < sstamp s')%N /\ (forall y, committed s' y <-> committed s y \/ In y (tadded t)))
      \/ (ROkB true <> ROkB true /\ sheads s' = sheads s /\ scache s' = scache s /\ sstamp s' = sstamp s
          /\ sncommit s' = sncommit s /\ (forall y, committed s' y <-> committed s y)))
     /\ (ROkB true = RErr EConcurrentTransaction <-> (Some (sstamp s) <> None /\ tseen t <> sncommit s))
     /\ (ROkB true = RErr EConcurrentTransaction -> s' = s)
     /\ (ROkB true = ROkB false -> Some (sstamp s) = None /\ s' = s)).
  { intros fc. eexists. split; [reflexivity|]. destruct B as (B1 & B2 & B3 & B4 & B5 & B6).
    split; [left; splits; auto|].
    - cbn. lia.
    - rewrite <- B4. eapply commit_heads_stamp; eauto.
    - split; [split; [discriminate|intros [_ H]; congruence]|]. split; discriminate. }
  destruct (ttips t1) as [|h [|h2 hs]] eqn:Et1; [discriminate| |].
  - destruct (wlookup (sW s1) h) as [wh|] eqn:El; inv Hcm; [apply Hgood|apply Hkeep; discriminate].
  - destruct (braid (reachset (sW s1) (h :: h2 :: hs)) (h :: h2 :: hs)) as [fc effs| |err effs|] eqn:Eb; inv Hcm;
      try (apply Hgood); apply Hkeep; cbn; try discriminate.
Qed.

(** reachability through the merges written by [collapse_heads] *)
Definition is_merge_id (y : N) : Prop := exists a b, y = merge_id a b.

Lemma collapse_step_reach s a b s' m :
  SInv s -> In a (map wid (sW s)) -> In b (map wid (sW s)) ->
  collapse_step s a b = inl (s', m) -> sclash s' = false ->
  is_merge_id m /\ forall y, anc (sg (sW s')) y m <-> y = m \/ R (sW s) [a; b] y.
Proof.
  intros HS Ha Hb Hst Hc. pose proof Hst as Hst0. unfold Txn.collapse_step in Hst.
  destruct (N.eqb_spec a b) as [|Hab]; [discriminate|].
  destruct (if (b <? a)%N then (b, a) else (a, b)) as [l rgt] eqn:Elr.
  assert (Hset : forall y, R (sW s) [l; rgt] y <-> R (sW s) [a; b] y).
  { intros y. destruct (b <? a)%N; inv Elr; [|tauto]. unfold TxnGraph.R. split; intros (h & Hh & Hy); exists h; cbn in *; tauto. }
  assert (Hl : In l (map wid (sW s)) /\ In rgt (map wid (sW s))) by (destruct (b <? a)%N; inv Elr; auto).
  destruct Hl as [Hl Hr].
  destruct (braid (reachset (sW s) [l; rgt]) [l; rgt]) as [f effs| | |] eqn:Eb; try discriminate.
  destruct (merge_persp (sW s) (mk_merge l rgt) l rgt f) as [p|] eqn:Em; [|discriminate].
  destruct (write s p) as [[s2 hid]|] eqn:Ew; inv Hst.
  destruct (merge_persp_PInv' _ _ _ _ _ _ _ Hl Hr Eb Em) as (HP & w & Epc & Ewc).
  destruct (write_ok' s p s' m (si_W _ _ _ _ _ _ _ HS) HP Ew Hc (si_clash _ _ _ _ _ _ _ HS)) as (HW' & Hse & Hsto & w0 & rest & Ec & ->).
  rewrite Epc in Ec. inv Ec.
  assert (Hst' : stored (sW s') w0) by (apply Hsto; rewrite Epc; cbn; auto).
  split.
  - unfold wid. rewrite Ewc. cbn. exists l, rgt. auto.
  - intros y. rewrite (anc_unfold _ _ _ y (stored_lookup _ _ _ Hst')). rewrite Ewc. cbn [parents cpar Txn.mk_merge].
    rewrite <- Hset. unfold TxnGraph.R. destruct Hse as (He & _).
    split.
    + intros [->|(q & Hq & Hy)]; auto. right. exists q. split; auto.
      apply (anc_ext' (sW s) (sW s')); auto. destruct Hq as [<-|[<-|[]]]; auto.
    + intros [->|(q & Hq & Hy)]; auto. right. exists q. split; auto.
      apply (anc_ext' (sW s) (sW s')); auto. destruct Hq as [<-|[<-|[]]]; auto.
Qed.

Lemma collapse_go_reach n : forall s q s1 m,
  SInv s -> (forall x, In x q -> In x (map wid (sW s))) ->
  collapse_go n s q = (s1, inl m) -> sclash s1 = false ->
  (forall y, R (sW s) q y -> anc (sg (sW s1)) y m)
  /\ (forall y, anc (sg (sW s1)) y m -> R (sW s) q y \/ is_merge_id y).
Proof.
  induction n as [|n IH]; intros s q s1 m HS Hq Hg Hc; cbn [Txn.collapse_go] in Hg; [discriminate|].
  destruct q as [|a [|b rest]]; [discriminate| |].
  - inv Hg. split.
    + intros y (h & [<-|[]] & Hy). auto.
    + intros y Hy. left. exists m. cbn; auto.
  - destruct (collapse_step s a b) as [[s' mm]|e] eqn:Es; [|discriminate].
    assert (Hc' : sclash s' = false).
    { eapply cmono_false; [|exact Hc]. eapply collapse_go_cmono; eauto. }
    destruct (collapse_step_ok' s a b s' mm HS) as (A & B & C & D); auto; try (apply Hq; cbn; auto).
    destruct (collapse_step_reach s a b s' mm HS) as (Hmid & Hmm); auto; try (apply Hq; cbn; auto).
    assert (Hq' : forall x, In x (rest ++ [mm]) -> In x (map wid (sW s'))).
    { intros x Hx. apply in_app_or in Hx. destruct Hx as [Hx|[<-|[]]]; auto.
      eapply ids_ext; [apply B|]. apply Hq. cbn; auto. }
    destruct (IH s' (rest ++ [mm]) s1 m A Hq' Hg Hc) as [I1 I2].
    assert (Hrest : forall y, R (sW s') rest y <-> R (sW s) rest y).
    { intros y. apply R_ext'; [apply (si_W _ _ _ _ _ _ _ A)|apply B|]. intros h Hh. apply Hq. cbn; auto. }
    split.
    + intros y (h & Hh & Hy). apply I1. apply R_app.
      destruct Hh as [<-|[<-|Hh]].
      * right. exists mm. split; [cbn; auto|]. apply Hmm. right. exists a. cbn; auto.
      * right. exists mm. split; [cbn; auto|]. apply Hmm. right. exists b. cbn; auto.
      * left. apply Hrest. exists h; auto.
    + intros y Hy. destruct (I2 y Hy) as [Hr|Hm]; auto. apply R_app in Hr. destruct Hr as [Hr|(h & [<-|[]] & Hy')].
      * left. apply Hrest in Hr. destruct Hr as (h & Hh & Hy'). exists h. cbn; auto.
      * apply Hmm in Hy'. destruct Hy' as [->|(h & Hh & Hy')]; auto.
        left. exists h. split; auto. cbn in *. tauto.
Qed.

Lemma publish_ids cs : forall (p : persp facts) i fail log p' log',
  publish p cs i fail log = inl (p', log') ->
  map wid (pcmds p') = rev (map pid cs) ++ map wid (pcmds p).
Proof.
  induction cs as [|pc cs IH]; intros p i fail log p' log' Hp; cbn [Txn.publish] in Hp.
  - destruct (match fail with Some k => Nat.eqb k i | None => false end); inv Hp. auto.
  - destruct (match fail with Some k => Nat.eqb k i | None => false end); [discriminate|].
    destruct (eval _ (pfacts p)) as [f effs|]; [|discriminate].
    destruct (add_command p _ f) as [p1|] eqn:Ea; [|discriminate].
    unfold add_command in Ea. destruct (prior_eqb _ _); inv Ea.
    rewrite (IH _ _ _ _ _ _ Hp). cbn. rewrite <- app_assoc. reflexivity.
Qed.

Lemma publish_log cs : forall (p : persp facts) i fail log,
  match publish p cs i fail log with
  | inl (_, log') => exists m, log' = log ++ m /\ forall e, In e m -> exists x, e = SConsume x
  | inr (_, log') => exists m, log' = log ++ m /\ forall e, In e m -> exists x, e = SConsume x
  end.
Proof.
  assert (Hcons : forall effs e, In e (consumes effs) -> exists x, e = SConsume x).
  { intros effs e H. unfold consumes in H. apply in_map_iff in H. destruct H as (x & <- & _). eauto. }
  induction cs as [|pc cs IH]; intros p i fail log; cbn [Txn.publish].
  - destruct (match fail with Some k => Nat.eqb k i | None => false end); exists []; rewrite app_nil_r; split; auto; intros e [].
  - destruct (match fail with Some k => Nat.eqb k i | None => false end).
    { exists []; rewrite app_nil_r; split; auto; intros e []. }
    destruct (eval _ (pfacts p)) as [f effs|err d effs].
    + destruct (add_command p _ f) as [p1|].
      * specialize (IH p1 (S i) fail (log ++ consumes effs)).
        destruct (publish p1 cs (S i) fail (log ++ consumes effs)) as [[p2 l2]|[e2 l2]];
          destruct IH as (m & -> & Hm); exists (consumes effs ++ m); rewrite app_assoc; split; auto;
          intros e He; apply in_app_or in He; destruct He; eauto.
      * exists (consumes effs). split; auto. eauto.
    + exists (consumes effs). split; auto. eauto.
Qed.

(** what an action does *)
Lemma do_action_spec s a so' l x :
  SInv s -> do_action (Some s) a = (so', l, x) ->
  match so' with Some s' => sclash s' = false | None => True end ->
  exists s', so' = Some s' /\
  ((x = ROk
    /\ (exists pc pcs, rev (acmds a) = pc :: pcs
        /\ sheads s' = [pid pc]
        /\ (exists wh, wlookup (sW s') (pid pc) = Some wh /\ scache s' = wfacts wh))
    /\ sncommit s' = (sncommit s + 1)%N /\ (sstamp s < sstamp s')%N
    /\ (forall h, In h (sheads s) -> forall hd, In hd (sheads s') -> anc (sg (sW s')) h hd)
    /\ (forall y, committed s y -> committed s' y)
    /\ (forall y, committed s' y -> committed s y \/ is_merge_id y \/ In y (map pid (acmds a)))
    /\ (exists m, l = SBegin :: m ++ [SCommit] /\ forall e, In e m -> exists z, e = SConsume z))
   \/ (x <> ROk /\ sheads s' = sheads s /\ scache s' = scache s /\ sstamp s' = sstamp s
       /\ sncommit s' = sncommit s /\ (forall y, committed s' y <-> committed s y)
       /\ ~ In SCommit l)).
Proof.
  intros HS Hd Hc. unfold Txn.do_action in Hd.
  destruct (collapse_heads s (sheads s)) as [s1 rres] eqn:Ecol. unfold Txn.collapse_heads in Ecol.
  assert (Hc1 : sclash s1 = false).
  { destruct rres as [head|e]; [|inv Hd; auto].
    destruct (get_linear_perspective (sW s1) head) as [p|]; [|inv Hd; auto].
    destruct (publish p (acmds a) 0 (afail a) _) as [[p' lg]|[e lg]]; [|inv Hd; auto].
    destruct (write s1 p') as [[s2 hid]|] eqn:Ew; [|inv Hd; auto].
    pose proof (write_cmono _ _ _ _ _ Ew) as Hm.
    destruct (wlookup (sW s2) hid); inv Hd; eapply cmono_false; eauto. }
  destruct (collapse_go_ok' _ _ _ _ _ HS (si_heads_in _ _ _ _ _ _ _ HS) Ecol Hc1) as (A & B & C & D).
  pose proof (committed_sext s s1 HS B (si_W _ _ _ _ _ _ _ A)) as Hcs1.
  assert (Hnc : forall m0, (forall e, In e m0 -> exists z, e = SConsume z) -> ~ In SCommit (SBegin :: m0)).
  { intros m0 Hm [E|Hin]; [discriminate|]. destruct (Hm _ Hin); discriminate. }
  assert (Hkeep : forall (x0 : res) l0, x0 <> ROk -> ~ In SCommit l0 ->
      (x0 <> ROk /\ sheads s1 = sheads s /\ scache s1 = scache s /\ sstamp s1 = sstamp s
       /\ sncommit s1 = sncommit s /\ (forall y, committed s1 y <-> committed s y) /\ ~ In SCommit l0)).
  { intros x0 l0 N1 N2. destruct B as (B1 & B2 & B3 & B4 & B5 & B6). splits; auto. }
  destruct rres as [head|e]; [|inv Hd; exists s1; split; [reflexivity|right; apply Hkeep; [discriminate|cbn; tauto]]].
  destruct (get_linear_perspective (sW s1) head) as [p|] eqn:Eg;
    [|inv Hd; exists s1; split; [reflexivity|right; apply Hkeep; [discriminate|cbn; tauto]]].
  set (log0 := SBegin :: (if adump a then consumes (facts_effs (pfacts p)) else [])) in *.
  assert (Hlog0 : exists m0, log0 = SBegin :: m0 /\ forall e, In e m0 -> exists z, e = SConsume z).
  { unfold log0. eexists. split; [reflexivity|]. destruct (adump a); [|intros e []].
    intros e H. unfold consumes in H. apply in_map_iff in H. destruct H as (z & <- & _). eauto. }
  destruct Hlog0 as (m0 & El0 & Hm0).
  pose proof (publish_log (acmds a) p 0 (afail a) log0) as Hpl.
  destruct (publish p (acmds a) 0 (afail a) log0) as [[p' lg]|[e lg]] eqn:Ep.
  2:{ inv Hd. exists s1; split; [reflexivity|right]. apply Hkeep; [discriminate|]. destruct Hpl as (m1 & -> & Hm1). rewrite El0. cbn.
      intros [E|Hin]; [discriminate|]. apply in_app_or in Hin. destruct Hin as [Hin|[E|[]]]; [|discriminate].
      apply in_app_or in Hin. destruct Hin as [Hin|Hin]; [destruct (Hm0 _ Hin)|destruct (Hm1 _ Hin)]; discriminate. }
  destruct Hpl as (m1 & Elg & Hm1).
  assert (Hncl : ~ In SCommit lg).
  { rewrite Elg, El0. cbn. intros [E|Hin]; [discriminate|]. apply in_app_or in Hin.
    destruct Hin as [Hin|Hin]; [destruct (Hm0 _ Hin)|destruct (Hm1 _ Hin)]; discriminate. }
  destruct (write s1 p') as [[s2 hid]|] eqn:Ew;
    [|inv Hd; exists s1; split; [reflexivity|right; apply Hkeep; [discriminate|auto]]].
  assert (HP : PInv (sW s1) p).
  { unfold get_linear_perspective in Eg. destruct (wlookup (sW s1) head) as [wh|] eqn:El; inv Eg.
    split; cbn; [constructor|]. unfold base_ok. cbn. eauto. }
  assert (Epp : pp p = PSingle head /\ pcmds p = []).
  { unfold get_linear_perspective in Eg. destruct (wlookup (sW s1) head); inv Eg. auto. }
  destruct Epp as [Epp Epc].
  destruct (publish_PInv' _ _ _ _ _ _ _ _ HP Ep) as [HP' Epp'].
  pose proof (publish_ids _ _ _ _ _ _ _ Ep) as Eids. rewrite Epc in Eids. cbn in Eids. rewrite app_nil_r in Eids.
  assert (Hc2 : sclash s2 = false) by (destruct (wlookup (sW s2) hid); inv Hd; auto).
  destruct (write_ok' s1 p' s2 hid (si_W _ _ _ _ _ _ _ A) HP' Ew Hc2 (si_clash _ _ _ _ _ _ _ A)) as (HW2 & Hse & Hsto & w0 & rest & Ec & ->).
  assert (A2 : SInv s2) by (eapply SInv_sext'; eauto).
  pose proof (committed_sext s1 s2 A Hse HW2) as Hcs2.
  destruct (wlookup (sW s2) (wid w0)) as [wh|] eqn:El.
  2:{ inv Hd. exists s2. split; auto. right.
      destruct B as (B1 & B2 & B3 & B4 & B5 & B6). destruct Hse as (D1 & D2 & D3 & D4 & D5 & D6).
      splits; try congruence; try discriminate; auto. intros y. rewrite Hcs2. auto. }
  inv Hd. eexists. split; [reflexivity|]. left.
  (* reachability from the new head *)
  assert (Hreach : forall y, anc (sg (sW s2)) y (wid w0) <-> In y (map wid (pcmds p')) \/ R (sW s2) [head] y).
  { destruct HP' as [Hch _]. intros y.
    rewrite (chain_reach' _ _ _ _ Hch (sW s2) w0 rest Ec Hsto y). rewrite Epp', Epp. cbn. tauto. }
  destruct (collapse_go_reach _ _ _ _ _ HS (si_heads_in _ _ _ _ _ _ _ HS) Ecol Hc1) as [K1 K2].
  assert (Hhead2 : forall y, R (sW s2) [head] y <-> anc (sg (sW s1)) y head).
  { intros y. destruct Hse as (He2 & _). rewrite (R_ext' (sW s1) (sW s2)); auto.
    - unfold TxnGraph.R. split; [intros (h & [<-|[]] & Hy); auto|intros Hy; exists head; cbn; auto].
    - intros h [<-|[]]. auto. }
  assert (Hwid : pid (hd {| pid := 0; pprio := PMerge; pbody := 0 |} (rev (acmds a))) = wid w0
                 /\ rev (acmds a) <> []).
  { rewrite Ec in Eids. cbn in Eids. destruct (rev (acmds a)) as [|pc pcs] eqn:Er.
    - rewrite <- (rev_involutive (acmds a)), Er in Eids. cbn in Eids. discriminate.
    - split; [|discriminate]. rewrite <- (rev_involutive (acmds a)), Er in Eids. cbn [rev] in Eids.
      rewrite map_app, rev_app_distr in Eids. cbn in Eids. inv Eids. cbn. auto. }
  destruct Hwid as [Hwid Hne]. destruct (rev (acmds a)) as [|pc pcs] eqn:Er; [congruence|]. cbn in Hwid.
  destruct B as (B1 & B2 & B3 & B4 & B5 & B6). destruct Hse as (D1 & D2 & D3 & D4 & D5 & D6).
  splits; auto.
  - exists pc, pcs. splits; auto.
    + cbn. rewrite Hwid. auto.
    + exists wh. rewrite Hwid. auto.
  - cbn. lia.
  - rewrite <- B4, <- D4. eapply commit_heads_stamp; eauto.
  - cbn [sheads sW Txn.commit_heads]. intros h Hh hd [<-|[]]. apply Hreach. right. apply Hhead2. apply K1.
    exists h. split; auto. apply anc_refl. rewrite ids_sg. apply (si_heads_in _ _ _ _ _ _ _ HS); auto.
  - intros y Hy. unfold committed. cbn [sheads sW Txn.commit_heads]. exists (wid w0). split; [cbn; auto|].
    apply Hreach. right. apply Hhead2. apply K1. auto.
  - intros y (h & [<-|[]] & Hy). cbn [sW Txn.commit_heads] in Hy. apply Hreach in Hy. destruct Hy as [Hy|Hy].
    + right. right. rewrite Eids in Hy. rewrite <- in_rev in Hy. auto.
    + apply Hhead2 in Hy. destruct (K2 y Hy); auto.
  - rewrite El0. exists (m0 ++ m1). cbn. rewrite <- !app_assoc. split; auto.
    intros e He. apply in_app_or in He. destruct He; auto.
Qed.

Definition rcommitted r (x : N) : Prop := match rstore r with Some s => committed s x | None => False end.

Lemma run_app ops1 : forall ops2 r, run r (ops1 ++ ops2) = run (run r ops1) ops2.
Proof. induction ops1 as [|o ops1 IH]; intros ops2 r; cbn [app Txn.run]; auto. Qed.

Lemma run_cmono' ops r : rclash r = true -> rclash (run r ops) = true.
Proof. intros; eapply run_cmono; eauto. Qed.

Lemma rclash_prefix ops1 ops2 : rclash (run r0 (ops1 ++ ops2)) = false -> rclash (run r0 ops1) = false.
Proof.
  rewrite run_app. intros H. destruct (rclash (run r0 ops1)) eqn:E; auto.
  apply (run_cmono' ops2) in E. congruence.
Qed.

Lemma step_committed_mono r o x :
  RInv r -> rclash (fst (fst (step r o))) = false -> rcommitted r x -> rcommitted (fst (fst (step r o))) x.
Proof.
  intros HR Hc Hx. unfold rcommitted in Hx. destruct (rstore r) as [s|] eqn:Es; [|tauto].
  unfold TxnInv.RInv in HR. rewrite Es in HR. destruct HR as [HS HT].
  destruct o as [k|k cs|k|k|a]; cbn [Txn.step] in *.
  - unfold rcommitted. cbn. rewrite Es. auto.
  - destruct (tx_get (rtxs r) k) as [t|] eqn:Et; [|unfold rcommitted; cbn; rewrite Es; auto].
    destruct (add_commands (rstore r) t cs) as [[[so t'] l] res] eqn:E. cbn in *. rewrite Es in E.
    pose proof (add_commands_ok' (Some s) t cs so t' l res (conj HS (HT _ _ Et)) E) as Hok.
    unfold rcommitted, TxnInv.rclash in *. cbn in *. destruct so as [s'|].
    + destruct (Hok Hc) as (A & _ & B & _). apply (committed_sext s s' HS B (si_W _ _ _ _ _ _ _ A)). auto.
    + destruct (Hok I) as [E1 _]. discriminate.
  - destruct (tx_get (rtxs r) k) as [t|] eqn:Et; [|unfold rcommitted; cbn; rewrite Es; auto]. rewrite Es in *.
    destruct (write_perspective s t) as [[s1 t1] e] eqn:E. cbn in *. unfold TxnInv.rclash in Hc. cbn in Hc.
    destruct (write_perspective_ok' _ _ _ _ _ HS (HT _ _ Et) E Hc) as (A & B & _).
    unfold rcommitted. cbn. apply (committed_sext s s1 HS B (si_W _ _ _ _ _ _ _ A)). auto.
  - destruct (tx_get (rtxs r) k) as [t|] eqn:Et; [|unfold rcommitted; cbn; rewrite Es; auto]. rewrite Es in *.
    destruct (commit (Some s) t) as [[so l] res] eqn:E. cbn in *.
    assert (Hc' : match so with Some s' => sclash s' = false | None => True end)
      by (unfold TxnInv.rclash in Hc; cbn in Hc; destruct so; auto).
    destruct (commit_spec s t so l res HS (HT _ _ Et) E Hc') as (s' & -> & [H|H] & _).
    + unfold rcommitted. cbn. destruct H as (_ & _ & _ & _ & H). apply H. auto.
    + unfold rcommitted. cbn. destruct H as (_ & _ & _ & _ & _ & H). apply H. auto.
  - rewrite Es in *. destruct (do_action (Some s) a) as [[so l] res] eqn:E. cbn in *.
    assert (Hc' : match so with Some s' => sclash s' = false | None => True end)
      by (unfold TxnInv.rclash in Hc; cbn in Hc; destruct so; auto).
    destruct (do_action_spec s a so l res HS E Hc') as (s' & -> & [H|H]).
    + unfold rcommitted. cbn. destruct H as (_ & _ & _ & _ & _ & H & _). auto.
    + unfold rcommitted. cbn. destruct H as (_ & _ & _ & _ & _ & H & _). apply H. auto.
Qed.

Lemma run_committed_mono ops : forall r x,
  RInv r -> rclash (run r ops) = false -> rcommitted r x -> rcommitted (run r ops) x.
Proof.
  induction ops as [|o ops IH]; intros r x HR Hc Hx; cbn [Txn.run] in *; auto.
  assert (Hc1 : rclash (fst (fst (step r o))) = false).
  { destruct (rclash (fst (fst (step r o)))) eqn:E; auto. apply (run_cmono' ops) in E. congruence. }
  apply IH; auto.
  - apply step_ok'; auto.
  - apply step_committed_mono; auto.
Qed.

(** did this operation execute [commit_heads]? *)
Definition op_committed (o : op) (x : res) : bool :=
  match o, x with
  | Commit _, ROkB true => true
  | Action _, ROk => true
  | _, _ => false
  end.

Definition commit_isolated_stmt : Prop :=
  (* history only grows, along any operation list *)
  (forall ops1 ops2, rclash (run r0 (ops1 ++ ops2)) = false ->
     forall x, rcommitted (run r0 ops1) x -> rcommitted (run r0 (ops1 ++ ops2)) x)
  (* every commit, in every reachable state *)
  /\ (forall ops k, rclash (run r0 (ops ++ [Commit k])) = false ->
      forall s t, rstore (run r0 ops) = Some s -> tx_get (rtxs (run r0 ops)) k = Some t ->
      let '(r', l, x) := step (run r0 ops) (Commit k) in
      exists s', rstore r' = Some s' /\
        ((x = ROkB true /\ tstamp t = Some (sstamp s) /\ sncommit s' = (sncommit s + 1)%N /\ (sstamp s < sstamp s')%N
          /\ (forall y, committed s' y <-> committed s y \/ In y (tadded t)))
         \/ (x <> ROkB true /\ sheads s' = sheads s /\ scache s' = scache s /\ sstamp s' = sstamp s
             /\ sncommit s' = sncommit s /\ (forall y, committed s' y <-> committed s y)))
        /\ (x = RErr EConcurrentTransaction <-> (tstamp t <> None /\ tseen t <> sncommit s))
        /\ (x = RErr EConcurrentTransaction -> s' = s)
        /\ (x = ROkB false -> tstamp t = None /\ s' = s))
  (* the stamp changes on every commit_heads (both backends) and nowhere else; [sncommit] counts
     exactly the successful commits and actions; [tseen] is [sncommit] when the stamp was captured *)
  /\ (forall ops o, rclash (run r0 (ops ++ [o])) = false ->
      forall s, rstore (run r0 ops) = Some s ->
      let '(r', l, x) := step (run r0 ops) o in
      exists s', rstore r' = Some s'
        /\ sncommit s' = (sncommit s + (if op_committed o x then 1 else 0))%N
        /\ (if op_committed o x then (sstamp s < sstamp s')%N else sstamp s' = sstamp s))
  /\ (forall s t, tstamp t = None -> tseen (capture s t) = sncommit s /\ tstamp (capture s t) = Some (sstamp s)).

Lemma commit_isolated_proof : commit_isolated_stmt.
Proof.
  unfold commit_isolated_stmt. splits.
  - intros ops1 ops2 Hc x Hx. rewrite run_app in *. apply run_committed_mono; auto.
    apply RInv_run'. eapply rclash_prefix. rewrite run_app. eauto.
  - intros ops k Hc s t Es Et. rewrite run_app in Hc. cbn [Txn.run] in Hc.
    pose proof (RInv_run' ops (rclash_prefix ops [Commit k] ltac:(rewrite run_app; exact Hc))) as HR.
    unfold TxnInv.RInv in HR. rewrite Es in HR. destruct HR as [HS HT].
    cbn [Txn.step] in *. rewrite Et in *. rewrite Es in *.
    destruct (commit (Some s) t) as [[so l] res] eqn:E. cbn in Hc.
    assert (Hc' : match so with Some s' => sclash s' = false | None => True end)
      by (unfold TxnInv.rclash in Hc; cbn in Hc; destruct so; auto).
    destruct (commit_spec s t so l res HS (HT _ _ Et) E Hc') as (s' & -> & H).
    exists s'. split; auto.
  - intros ops o Hc s Es. rewrite run_app in Hc. cbn [Txn.run] in Hc.
    pose proof (RInv_run' ops (rclash_prefix ops [o] ltac:(rewrite run_app; exact Hc))) as HR.
    unfold TxnInv.RInv in HR. rewrite Es in HR. destruct HR as [HS HT].
    destruct o as [k|k cs|k|k|a]; cbn [Txn.step] in *.
    + cbn. exists s. splits; auto. lia.
    + destruct (tx_get (rtxs (run r0 ops)) k) as [t|] eqn:Et.
      2:{ exists s. cbn. splits; auto. lia. }
      destruct (add_commands (rstore (run r0 ops)) t cs) as [[[so t'] l] res] eqn:E. cbn in *. rewrite Es in E.
      pose proof (add_commands_ok' (Some s) t cs so t' l res (conj HS (HT _ _ Et)) E) as Hok.
      unfold TxnInv.rclash in Hc. cbn in Hc. destruct so as [s'|].
      * destruct (Hok Hc) as (A & _ & (B1 & B2 & B3 & B4 & B5 & B6) & _). exists s'. splits; auto. lia.
      * destruct (Hok I) as [E1 _]. discriminate.
    + destruct (tx_get (rtxs (run r0 ops)) k) as [t|] eqn:Et.
      2:{ exists s. cbn. splits; auto. lia. }
      rewrite Es in *. destruct (write_perspective s t) as [[s1 t1] e] eqn:E. cbn in *.
      unfold TxnInv.rclash in Hc. cbn in Hc.
      destruct (write_perspective_ok' _ _ _ _ _ HS (HT _ _ Et) E Hc) as (A & (B1 & B2 & B3 & B4 & B5 & B6) & _).
      exists s1. destruct e; splits; auto; lia.
    + destruct (tx_get (rtxs (run r0 ops)) k) as [t|] eqn:Et.
      2:{ exists s. cbn. splits; auto. lia. }
      rewrite Es in *. destruct (commit (Some s) t) as [[so l] res] eqn:E. cbn in *.
      assert (Hc' : match so with Some s' => sclash s' = false | None => True end)
        by (unfold TxnInv.rclash in Hc; cbn in Hc; destruct so; auto).
      destruct (commit_spec s t so l res HS (HT _ _ Et) E Hc') as (s' & -> & [H|H] & _).
      * destruct H as (-> & _ & H1 & H2 & _). exists s'. cbn. splits; auto.
      * destruct H as (N1 & _ & _ & H1 & H2 & _). exists s'. splits; auto.
        -- destruct res as [| |[|]| |]; cbn; try lia. congruence.
        -- destruct res as [| |[|]| |]; cbn; auto. congruence.
    + rewrite Es in *. destruct (do_action (Some s) a) as [[so l] res] eqn:E. cbn in *.
      assert (Hc' : match so with Some s' => sclash s' = false | None => True end)
        by (unfold TxnInv.rclash in Hc; cbn in Hc; destruct so; auto).
      destruct (do_action_spec s a so l res HS E Hc') as (s' & -> & [H|H]).
      * destruct H as (-> & _ & H1 & H2 & _). exists s'. cbn. splits; auto.
      * destruct H as (N1 & _ & _ & H1 & H2 & _). exists s'. splits; auto.
        -- destruct res; cbn; try lia. congruence.
        -- destruct res; cbn; auto. congruence.
  - intros s t E. unfold capture. rewrite E. cbn. auto.
Qed.

(** * C07 — actions are atomic *)
Definition action_atomic_stmt : Prop :=
  forall ops a, rclash (run r0 (ops ++ [Action a])) = false ->
  forall s, rstore (run r0 ops) = Some s ->
  let '(r', l, x) := step (run r0 ops) (Action a) in
  exists s', rstore r' = Some s' /\ rtxs r' = rtxs (run r0 ops) /\
  ((x = ROk
    (* all published commands are committed as ONE new head, with the facts stored at it *)
    /\ (exists pc pcs, rev (acmds a) = pc :: pcs
        /\ sheads s' = [pid pc]
        /\ (exists wh, wlookup (sW s') (pid pc) = Some wh /\ scache s' = wfacts wh))
    /\ sncommit s' = (sncommit s + 1)%N /\ (sstamp s < sstamp s')%N
    (* which descends from every previous head *)
    /\ (forall h, In h (sheads s) -> forall hd, In hd (sheads s') -> anc (sg (sW s')) h hd)
    (* nothing is lost; what is new are the collapse's merges and the published commands *)
    /\ (forall y, committed s y -> committed s' y)
    /\ (forall y, committed s' y -> committed s y \/ is_merge_id y \/ In y (map pid (acmds a)))
    (* the sink saw Begin, effects, Commit *)
    /\ (exists m, l = SBegin :: m ++ [SCommit] /\ forall e, In e m -> exists z, e = SConsume z))
   \/ (x <> ROk
       (* nothing committed: heads, fact cache, stamp, committed set unchanged; no effects committed *)
       /\ sheads s' = sheads s /\ scache s' = scache s /\ sstamp s' = sstamp s
       /\ sncommit s' = sncommit s /\ (forall y, committed s' y <-> committed s y)
       /\ ~ In SCommit l)).

Lemma action_atomic_proof : action_atomic_stmt.
Proof.
  intros ops a Hc s Es. rewrite run_app in Hc. cbn [Txn.run] in Hc.
  pose proof (RInv_run' ops (rclash_prefix ops [Action a] ltac:(rewrite run_app; exact Hc))) as HR.
  unfold TxnInv.RInv in HR. rewrite Es in HR. destruct HR as [HS HT].
  cbn [Txn.step] in *. rewrite Es in *.
  destruct (do_action (Some s) a) as [[so l] res] eqn:E. cbn in Hc.
  assert (Hc' : match so with Some s' => sclash s' = false | None => True end)
    by (unfold TxnInv.rclash in Hc; cbn in Hc; destruct so; auto).
  destruct (do_action_spec s a so l res HS E Hc') as (s' & -> & H).
  exists s'. cbn. splits; auto.
Qed.

(** * C06 — commands rejected at origin leave no trace *)
Definition stored_cmd s (c : cmd) : Prop := In c (sg (sW s)).

Lemma add_loop_app pre : forall rest s t n l,
  add_loop s t (pre ++ rest) n l =
  match add_loop s t pre n l with
  | (s1, t1, l1, ROkN n1) => add_loop s1 t1 rest n1 l1
  | other => other
  end.
Proof.
  induction pre as [|c pre IH]; intros rest s t n l; cbn [app Txn.add_loop]; auto.
  destruct (match tpersp t with Some p => includes p (cid c) | None => false end); auto.
  destruct (locate s t (cid c)); auto.
  destruct (cpar c) as [|parent|a b].
  - destruct (cid c =? gid)%N; auto.
  - destruct (add_single s t c parent) as [[[s1 t1] l1] e]. destruct e; auto.
  - destruct (add_merge s t c a b) as [[[s1 t1] l1] e]. destruct e; auto.
Qed.

Lemma add_all_ids cs : forall W cl W' cl' x,
  add_all cs W cl = (W', cl') -> In x (map wid W') -> In x (map wid W) \/ In x (map wid cs).
Proof.
  induction cs as [|w cs IH]; intros W cl W' cl' x H Hx; cbn [add_all] in H.
  - inv H. auto.
  - destruct (wlookup W (wid w)).
    + destruct (IH _ _ _ _ _ H Hx); auto. right. cbn. auto.
    + destruct (IH _ _ _ _ _ H Hx) as [[<-|Hi]|Hi]; cbn; auto.
Qed.

Lemma write_perspective_ids s t s1 t1 e x :
  write_perspective s t = (s1, t1, e) -> In x (map wid (sW s1)) -> In x (map wid (sW s)) \/ In x (pids t).
Proof.
  unfold write_perspective, pids. destruct (tpersp t) as [p|]; [|intros H; inv H; auto].
  destruct (match tpparents t with PSingle _ => _ | _ => false end); [intros H; inv H; auto|].
  unfold write. destruct (pcmds p) as [|w rest] eqn:Ep; [intros H; inv H; auto|].
  destruct (add_all (rev (w :: rest)) (sW s) (sclash s)) as [W' cl] eqn:Ea. intros H Hx. inv H. cbn [sW] in Hx.
  destruct (add_all_ids _ _ _ _ _ _ Ea Hx) as [Hi|Hi]; auto. right. rewrite map_rev in Hi. apply in_rev in Hi. auto.
Qed.

Lemma write_perspective_noerr s t s1 t1 e :
  TInv s t -> write_perspective s t = (s1, t1, e) -> e = None.
Proof.
  intros (H0 & _) Hw. unfold write_perspective in Hw. destruct (tpersp t) as [p|] eqn:Ep; [|inv Hw; auto].
  pose proof H0 as [T1 T2 T3 T4]. rewrite Ep in T3. destruct T3 as ((Hch & Hb) & Epp & Eph & Hne).
  destruct (match tpparents t with PSingle parent => match tphead t with Some ph => (ph =? parent)%N | None => false end | _ => false end) eqn:Et;
    [inv Hw; auto|].
  destruct (write s p) as [[s' hid]|] eqn:Ew; [inv Hw; auto|]. exfalso.
  unfold write in Ew. destruct (pcmds p) eqn:Epc; [|destruct (add_all _ _ _); discriminate].
  unfold base_ok in Hb. unfold phead_id in Eph. rewrite Epc in Eph. rewrite Epp, Eph in Et.
  destruct (pp p) as [|a|a b]; [tauto| |].
  - rewrite N.eqb_refl in Et. discriminate.
  - rewrite Epc in Hb. tauto.
Qed.

Definition rejected_no_trace_stmt : Prop :=
  (* A: nothing stored (reachable or not) was ever rejected: every stored single-parent command was
        accepted on the facts stored with its parent, and its stored facts are that result *)
  (forall ops, rclash (run r0 ops) = false -> forall s, rstore (run r0 ops) = Some s ->
     forall w a, In w (sW s) -> cpar (wc w) = PSingle a ->
     exists wa effs, wlookup (sW s) a = Some wa /\ eval (wc w) (wfacts wa) = Accept (wfacts w) effs)
  /\ (forall ops, rclash (run r0 ops) = false -> forall s, rstore (run r0 ops) = Some s ->
     forall c a wa, cpar c = PSingle a -> wlookup (sW s) a = Some wa ->
     (forall f effs, eval c (wfacts wa) <> Accept f effs) -> ~ stored_cmd s c)
  (* B: a rule that fails at origin: the perspective is left exactly as it was before the rule ran
        (revert is exact, C13), the effects are rolled back, the command is not added *)
  /\ (forall s t c parent s1 t1 p e d effs,
        get_perspective s t parent = (s1, t1, inl p) -> eval c (pfacts p) = Fail e d effs ->
        add_single s t c parent = (s1, t1, SBegin :: consumes effs ++ [SRollback], Some (EPolicy e)))
  (* C: the commands of the batch before the rejected one have been processed and stay in the
        transaction: the error returns with the state reached after them *)
  /\ (forall pre c rest s t n l s1 t1 l1 n1 parent s2 t2 l2 e,
        add_loop s t pre n l = (s1, t1, l1, ROkN n1) ->
        match tpersp t1 with Some p => includes p (cid c) | None => false end = false ->
        locate s1 t1 (cid c) = false -> cpar c = PSingle parent ->
        add_single s1 t1 c parent = (s2, t2, l2, Some e) ->
        add_loop s t (pre ++ c :: rest) n l = (s2, t2, l1 ++ l2, RErr e))
  (* ... and they are committed with their facts by the next Commit (C08: committed' = committed + tadded),
        [tadded] being extended exactly by the commands whose add succeeded *)
  /\ (forall ops k, rclash (run r0 ops) = false -> forall s t, rstore (run r0 ops) = Some s ->
        tx_get (rtxs (run r0 ops)) k = Some t -> tstamp t <> None ->
        forall c parent s1 t1 l e, ~ In (cid c) (pids t) -> ~ R (sW s) (sheads s ++ ttips t) (cid c) ->
        add_single s t c parent = (s1, t1, l, e) -> sclash s1 = false ->
        tadded t1 = match e with None => cid c :: tadded t | Some _ => tadded t end)
  (* D: a later command naming a command that is not stored (e.g. a rejected one) as parent is refused *)
  /\ (forall ops k, rclash (run r0 ops) = false -> forall s t, rstore (run r0 ops) = Some s ->
        tx_get (rtxs (run r0 ops)) k = Some t ->
        forall d p, ~ In p (map wid (sW s)) -> ~ In p (pids t) ->
        exists s1 t1, add_single s t d p = (s1, t1, [], Some (ENoSuchParent p))).

Lemma rejected_no_trace_proof : rejected_no_trace_stmt.
Proof.
  unfold rejected_no_trace_stmt.
  assert (PA : forall ops, rclash (run r0 ops) = false -> forall s, rstore (run r0 ops) = Some s ->
     forall w a, In w (sW s) -> cpar (wc w) = PSingle a ->
     exists wa effs, wlookup (sW s) a = Some wa /\ eval (wc w) (wfacts wa) = Accept (wfacts w) effs).
  { intros ops Hc s Es w a Hw Hp. pose proof (RInv_run' ops Hc) as HR. unfold TxnInv.RInv in HR. rewrite Es in HR.
    destruct HR as [HS _]. destruct (WInv_entry' _ (si_W _ _ _ _ _ _ _ HS) w Hw) as [E|E]; [congruence|].
    unfold entry_ok in E. rewrite Hp in E. destruct E as (wa & Hl & _ & effs & He). eauto. }
  splits; auto.
  - intros ops Hc s Es c a wa Hp Hl Hrej Hin. unfold stored_cmd, sg in Hin. apply in_map_iff in Hin.
    destruct Hin as (w & <- & Hw). destruct (PA ops Hc s Es w a Hw Hp) as (wa' & effs & Hl' & He).
    rewrite Hl in Hl'. inv Hl'. eapply Hrej; eauto.
  - intros s t c parent s1 t1 p e d effs Hg He. unfold Txn.add_single. rewrite Hg, He. reflexivity.
  - intros pre c rest s t n l s1 t1 l1 n1 parent s2 t2 l2 e H1 H2 H3 H4 H5.
    rewrite add_loop_app, H1. cbn [Txn.add_loop]. rewrite H2, H3, H4, H5. reflexivity.
  - intros ops k Hc s t Es Et Hns c parent s1 t1 l e Hnp Hnr Ha Hc1.
    pose proof (RInv_run' ops Hc) as HR. unfold TxnInv.RInv in HR. rewrite Es in HR. destruct HR as [HS HT].
    destruct (add_single_ok' s t c parent s1 t1 l e HS (HT _ _ Et) Hns Hnp) as (_ & _ & _ & _ & _ & _ & H); auto.
    intros _ Hr. apply Hnr. apply R_app. auto.
  - intros ops k Hc s t Es Et d p Hns Hnp.
    pose proof (RInv_run' ops Hc) as HR. unfold TxnInv.RInv in HR. rewrite Es in HR. destruct HR as [HS HT].
    pose proof (HT _ _ Et) as HTt. pose proof HTt as (H0 & _). pose proof H0 as [T1 T2 T3 T4].
    unfold Txn.add_single, get_perspective.
    assert (Eph : match tphead t with Some ph => (ph =? p)%N | None => false end = false).
    { destruct (tpersp t) as [q|] eqn:Eq.
      - destruct T3 as ((Hch & Hb) & Epp & Ephd & _). rewrite Ephd. unfold phead_id.
        destruct (pcmds q) as [|w rest] eqn:Epc.
        + destruct (pp q) as [|a|a b] eqn:Eppq; auto. destruct (N.eqb_spec a p); auto. subst a.
          exfalso. apply Hns. eapply base_ok_parents; eauto. rewrite Eppq. cbn; auto.
        + destruct (N.eqb_spec (wid w) p); auto. exfalso. apply Hnp. unfold pids. rewrite Eq, Epc. cbn; auto.
      - destruct T3 as [-> _]. auto. }
    rewrite Eph. destruct (write_perspective s t) as [[s1 t1] e] eqn:Ew.
    rewrite (write_perspective_noerr _ _ _ _ _ HTt Ew).
    assert (El : locate s1 t1 p = false).
    { unfold locate. apply mem_false. intros Hin. apply closure_sub in Hin.
      destruct (write_perspective_ids _ _ _ _ _ _ Ew Hin); auto. }
    rewrite El. eauto.
Qed.

(** * C04 — lazy merges *)
Lemma wmc_of_ext W W' i : WInv W' -> ext W W' -> In i (map wid W) -> wmc_of W' i = wmc_of W i.
Proof.
  intros HW He Hi. unfold wmc_of. apply wlookup_In_ids in Hi. destruct Hi as (w & Hl).
  rewrite Hl. erewrite wlookup_ext; eauto.
Qed.

(** what [collapse_step] writes *)
Lemma collapse_step_attr s a b s' m :
  SInv s -> In a (map wid (sW s)) -> In b (map wid (sW s)) ->
  collapse_step s a b = inl (s', m) -> sclash s' = false ->
  synth_step (a, wmc_of (sW s) a) (b, wmc_of (sW s) b) = Some (m, wmc_of (sW s') m)
  /\ exists wm effs, wlookup (sW s') m = Some wm
       /\ braid (reachset (sW s) (if (b <? a)%N then [b; a] else [a; b])) (if (b <? a)%N then [b; a] else [a; b])
          = BOk (wfacts wm) effs
       /\ wc wm = (if (b <? a)%N then mk_merge b a else mk_merge a b).
Proof.
  intros HS Ha Hb Hst Hc. unfold Txn.collapse_step in Hst. unfold Txn.synth_step. cbn [fst snd].
  destruct (N.eqb_spec a b) as [|Hab]; [discriminate|].
  destruct (b <? a)%N eqn:Elt.
  - destruct (braid (reachset (sW s) [b; a]) [b; a]) as [f effs| | |] eqn:Eb; try discriminate.
    destruct (merge_persp (sW s) (mk_merge b a) b a f) as [p|] eqn:Em; [|discriminate].
    destruct (write s p) as [[s2 hid]|] eqn:Ew; inv Hst.
    destruct (merge_persp_PInv' _ _ _ _ _ _ _ Hb Ha Eb Em) as (HP & w & Epc & Ewc).
    destruct (write_ok' s p s' m (si_W _ _ _ _ _ _ _ HS) HP Ew Hc (si_clash _ _ _ _ _ _ _ HS)) as (HW' & Hse & Hsto & w0 & rest & Ec & ->).
    rewrite Epc in Ec. inv Ec. destruct (Hsto w0) as (wm & Hl & Hcm & Hf & Hmc); [rewrite Epc; cbn; auto|].
    unfold Txn.merge_persp, add_command in Em. cbn [phead_addr pcmds pp] in Em.
    destruct (prior_eqb _ _); inv Em. cbn [pcmds] in Epc. inv Epc. cbn [wfacts wmc wid wc] in *.
    split.
    + remember (wmc_of (sW s) a) as ma. remember (wmc_of (sW s) b) as mb.
      unfold wmc_of. rewrite Hl, Hmc. unfold wid. cbn. f_equal. f_equal. lia.
    + exists wm, effs. rewrite Hf. splits; auto.
  - destruct (braid (reachset (sW s) [a; b]) [a; b]) as [f effs| | |] eqn:Eb; try discriminate.
    destruct (merge_persp (sW s) (mk_merge a b) a b f) as [p|] eqn:Em; [|discriminate].
    destruct (write s p) as [[s2 hid]|] eqn:Ew; inv Hst.
    destruct (merge_persp_PInv' _ _ _ _ _ _ _ Ha Hb Eb Em) as (HP & w & Epc & Ewc).
    destruct (write_ok' s p s' m (si_W _ _ _ _ _ _ _ HS) HP Ew Hc (si_clash _ _ _ _ _ _ _ HS)) as (HW' & Hse & Hsto & w0 & rest & Ec & ->).
    rewrite Epc in Ec. inv Ec. destruct (Hsto w0) as (wm & Hl & Hcm & Hf & Hmc); [rewrite Epc; cbn; auto|].
    unfold Txn.merge_persp, add_command in Em. cbn [phead_addr pcmds pp] in Em.
    destruct (prior_eqb _ _); inv Em. cbn [pcmds] in Epc. inv Epc. cbn [wfacts wmc wid wc] in *.
    split.
    + remember (wmc_of (sW s) a) as ma. remember (wmc_of (sW s) b) as mb.
      unfold wmc_of. rewrite Hl, Hmc. unfold wid. cbn. f_equal. f_equal. lia.
    + exists wm, effs. rewrite Hf. splits; auto.
Qed.

Lemma collapse_hello n : forall s q s1 m,
  SInv s -> (forall x, In x q -> In x (map wid (sW s))) ->
  collapse_go n s q = (s1, inl m) -> sclash s1 = false ->
  synth_go n (map (fun h => (h, wmc_of (sW s) h)) q) = Some (m, wmc_of (sW s1) m).
Proof.
  induction n as [|n IH]; intros s q s1 m HS Hq Hg Hc; cbn [Txn.collapse_go Txn.synth_go] in *; [discriminate|].
  destruct q as [|a [|b rest]]; [discriminate| |]; cbn [map].
  - inv Hg. reflexivity.
  - destruct (collapse_step s a b) as [[s' mm]|e] eqn:Es; [|discriminate].
    assert (Hc' : sclash s' = false) by (eapply cmono_false; [eapply collapse_go_cmono; eauto|auto]).
    destruct (collapse_step_ok' s a b s' mm HS) as (A & B & C & D); auto; try (apply Hq; cbn; auto).
    destruct (collapse_step_attr s a b s' mm HS) as (Hsy & _); auto; try (apply Hq; cbn; auto).
    rewrite Hsy.
    assert (Hq' : forall x, In x (rest ++ [mm]) -> In x (map wid (sW s'))).
    { intros x Hx. apply in_app_or in Hx. destruct Hx as [Hx|[<-|[]]]; auto.
      eapply ids_ext; [apply B|]. apply Hq. cbn; auto. }
    rewrite <- (IH s' (rest ++ [mm]) s1 m A Hq' Hg Hc). f_equal. rewrite map_app. cbn. f_equal.
    apply map_ext_in. intros x Hx. f_equal. symmetry. apply wmc_of_ext; [apply (si_W _ _ _ _ _ _ _ A)|apply B|].
    apply Hq. cbn; auto.
Qed.

Definition lazy_merge_stmt : Prop :=
  (* the hello head of a multi-head graph is the address (id, max cut) of the merge command the collapse writes *)
  (forall ops, rclash (run r0 ops) = false -> forall s, rstore (run r0 ops) = Some s ->
     forall s1 m, collapse_heads s (sheads s) = (s1, inl m) -> sclash s1 = false ->
     hello_head s = Some (m, wmc_of (sW s1) m))
  (* the collapse emits no effects: an action that itself emits nothing leaves no Consume in the sink,
     however many heads were braided together *)
  /\ (forall s a l so' x, acmds a = [] -> adump a = false -> do_action (Some s) a = (so', l, x) ->
        forall e z, In e l -> e <> SConsume z)
  (* for up to two heads the facts an action observes after the collapse are the committed fact cache
     (what queries and sessions read) *)
  /\ (forall ops, rclash (run r0 ops) = false -> forall s, rstore (run r0 ops) = Some s ->
     (length (sheads s) <= 2)%nat ->
     forall s1 m, collapse_heads s (sheads s) = (s1, inl m) -> sclash s1 = false ->
     exists p, get_linear_perspective (sW s1) m = Some p /\ pfacts p = scache s).

(** the full statement (any number of heads); it needs the braid's merge transparency, which is a
    property of the concrete braid (C03) and cannot be derived for an arbitrary function *)
Definition collapse_transparent_full_stmt : Prop :=
  forall ops, rclash (run r0 ops) = false -> forall s, rstore (run r0 ops) = Some s ->
  forall s1 m, collapse_heads s (sheads s) = (s1, inl m) -> sclash s1 = false ->
  exists p, get_linear_perspective (sW s1) m = Some p /\ pfacts p = scache s.

Lemma lazy_merge_proof : lazy_merge_stmt.
Proof.
  unfold lazy_merge_stmt. splits.
  - intros ops Hc s Es s1 m Hcol Hc1.
    pose proof (RInv_run' ops Hc) as HR. unfold TxnInv.RInv in HR. rewrite Es in HR. destruct HR as [HS _].
    unfold Txn.hello_head, Txn.collapse_heads in *. rewrite map_length.
    apply collapse_hello; auto. apply (si_heads_in _ _ _ _ _ _ _ HS).
  - intros s a l so' x Ea Ed Hd e z Hin. unfold Txn.do_action in Hd.
    destruct (collapse_heads s (sheads s)) as [s1 rres]. destruct rres as [head|err]; [|inv Hd; destruct Hin].
    destruct (get_linear_perspective (sW s1) head) as [p|] eqn:Eg; [|inv Hd; destruct Hin].
    rewrite Ea, Ed in Hd. cbn [Txn.publish] in Hd.
    assert (Epc : pcmds p = []) by (unfold get_linear_perspective in Eg; destruct (wlookup (sW s1) head); inv Eg; auto).
    destruct (match afail a with Some k => Nat.eqb k 0 | None => false end).
    + inv Hd. cbn in Hin. destruct Hin as [<-|[<-|[]]]; discriminate.
    + unfold write in Hd. rewrite Epc in Hd. inv Hd. cbn in Hin. destruct Hin as [<-|[]]. discriminate.
  - intros ops Hc s Es Hlen s1 m Hcol Hc1.
    pose proof (RInv_run' ops Hc) as HR. unfold TxnInv.RInv in HR. rewrite Es in HR. destruct HR as [HS _].
    pose proof (si_cache _ _ _ _ _ _ _ HS) as Hcache. unfold Txn.collapse_heads in Hcol.
    destruct (sheads s) as [|a [|b [|c rest]]] eqn:Eh; cbn in Hlen; try lia.
    + cbn in Hcol. discriminate.
    + cbn in Hcol. inv Hcol. destruct Hcache as (wh & Hl & Hf). unfold get_linear_perspective. rewrite Hl.
      eexists. split; [reflexivity|]. cbn. auto.
    + cbn [length Txn.collapse_go] in Hcol.
      destruct (collapse_step s a b) as [[s' mm]|e] eqn:Est; [|discriminate]. cbn [app] in Hcol. inv Hcol.
      assert (Ha : In a (map wid (sW s))) by (apply (si_heads_in _ _ _ _ _ _ _ HS); rewrite Eh; cbn; auto).
      assert (Hb : In b (map wid (sW s))) by (apply (si_heads_in _ _ _ _ _ _ _ HS); rewrite Eh; cbn; auto).
      destruct (collapse_step_attr s a b s1 m HS Ha Hb Est Hc1) as (_ & wm & effs & Hl & Hbr & _).
      assert (Hlt : (b <? a)%N = false).
      { pose proof (si_sorted _ _ _ _ _ _ _ HS) as Hs. rewrite Eh in Hs. inv Hs. inv H2. apply N.ltb_ge. lia. }
      rewrite Hlt in Hbr. destruct Hcache as (effs' & Hc'). rewrite Hbr in Hc'. inv Hc'.
      unfold get_linear_perspective. rewrite Hl. eexists. split; [reflexivity|]. cbn. auto.
Qed.

Definition hello_head_is_collapse_address_stmt : Prop :=
  forall ops, rclash (run r0 ops) = false -> forall s, rstore (run r0 ops) = Some s ->
  forall s1 m, collapse_heads s (sheads s) = (s1, inl m) -> sclash s1 = false ->
  hello_head s = Some (m, wmc_of (sW s1) m).

Lemma hello_head_is_collapse_address_proof : hello_head_is_collapse_address_stmt.
Proof. exact (proj1 lazy_merge_proof). Qed.

Definition collapse_no_effects_stmt : Prop :=
  forall s a l so' x, acmds a = [] -> adump a = false -> do_action (Some s) a = (so', l, x) ->
  forall e z, In e l -> e <> SConsume z.

Lemma collapse_no_effects_proof : collapse_no_effects_stmt.
Proof. exact (proj1 (proj2 lazy_merge_proof)). Qed.

Definition collapse_transparent_partial_stmt : Prop :=
  forall ops, rclash (run r0 ops) = false -> forall s, rstore (run r0 ops) = Some s ->
  (length (sheads s) <= 2)%nat ->
  forall s1 m, collapse_heads s (sheads s) = (s1, inl m) -> sclash s1 = false ->
  exists p, get_linear_perspective (sW s1) m = Some p /\ pfacts p = scache s.

Lemma collapse_transparent_partial_proof : collapse_transparent_partial_stmt.
Proof. exact (proj2 (proj2 lazy_merge_proof)). Qed.

(** ** the full statement, for every braid that is transparent to the collapse's merges *)
Definition bfacts (b : bres facts) : option facts := match b with BOk f _ => Some f | _ => None end.

(** Two properties of a braid function (both hold of the braid specification: a merge command has the
    least key and is popped, without being evaluated, as soon as it is ready; they are C03's
    [merge_transparent]): the facts do not depend on the order of two heads, and replacing two heads
    by a stored merge command of them — stored with the braid of the two — does not change the facts. *)
Definition braid_merge_transparent : Prop :=
  (forall cs x y, bfacts (braid cs [x; y]) = bfacts (braid cs [y; x]))
  /\ (forall W W' a b rest l rg wm,
        WInv W -> WInv W' -> ext W W' ->
        (forall x, In x (a :: b :: rest) -> In x (map wid W)) ->
        (l, rg) = (if (b <? a)%N then (b, a) else (a, b)) ->
        wlookup W' (merge_id l rg) = Some wm -> wc wm = mk_merge l rg ->
        bfacts (braid (reachset W [l; rg]) [l; rg]) = Some (wfacts wm) ->
        rest <> [] ->
        bfacts (braid (reachset W' (rest ++ [merge_id l rg])) (rest ++ [merge_id l rg]))
        = bfacts (braid (reachset W (a :: b :: rest)) (a :: b :: rest))).

Lemma rfold_ext cl1 cl2 W : (forall x, In x cl1 <-> In x cl2) -> rfold facts cl1 W = rfold facts cl2 W.
Proof.
  intros H. induction W as [|w W IH]; cbn; auto. fold (rfold facts cl1 W). fold (rfold facts cl2 W). rewrite IH.
  destruct (mem (wid w) cl1) eqn:E1, (mem (wid w) cl2) eqn:E2; auto.
  - apply mem_In in E1. apply H in E1. apply mem_In in E1. congruence.
  - apply mem_In in E2. apply H in E2. apply mem_In in E2. congruence.
Qed.
Lemma reachset_swap W a b : wf_graph (sg W) -> reachset W [a; b] = reachset W [b; a].
Proof.
  intros Hw. rewrite !reachset_rfold. apply rfold_ext. intros x. rewrite !closure_spec by auto.
  unfold TxnGraph.R. split; intros (h & Hh & Hy); exists h; cbn in *; tauto.
Qed.

Definition queue_facts s (q : list N) (fc : facts) : Prop :=
  match q with
  | [x] => exists wx, wlookup (sW s) x = Some wx /\ wfacts wx = fc
  | _ => bfacts (braid (reachset (sW s) q) q) = Some fc
  end.

Lemma collapse_go_facts (Hmt : braid_merge_transparent) n : forall s q s1 m fc,
  SInv s -> (forall x, In x q -> In x (map wid (sW s))) -> queue_facts s q fc ->
  collapse_go n s q = (s1, inl m) -> sclash s1 = false ->
  exists wm, wlookup (sW s1) m = Some wm /\ wfacts wm = fc.
Proof.
  destruct Hmt as [Hswap Hmerge].
  induction n as [|n IH]; intros s q s1 m fc HS Hq Hqf Hg Hc; cbn [Txn.collapse_go] in Hg; [discriminate|].
  destruct q as [|a [|b rest]]; [discriminate| |].
  - inv Hg. exact Hqf.
  - destruct (collapse_step s a b) as [[s' mm]|e] eqn:Es; [|discriminate].
    assert (Hc' : sclash s' = false) by (eapply cmono_false; [eapply collapse_go_cmono; eauto|auto]).
    assert (Ha : In a (map wid (sW s))) by (apply Hq; cbn; auto).
    assert (Hb : In b (map wid (sW s))) by (apply Hq; cbn; auto).
    destruct (collapse_step_ok' s a b s' mm HS Ha Hb Es Hc') as (A & B & C & D).
    destruct (collapse_step_attr s a b s' mm HS Ha Hb Es Hc') as (Hsy & wm & effs & Hl & Hbr & Hwc).
    assert (Hq' : forall x, In x (rest ++ [mm]) -> In x (map wid (sW s'))).
    { intros x Hx. apply in_app_or in Hx. destruct Hx as [Hx|[<-|[]]]; auto.
      eapply ids_ext; [apply B|]. apply Hq. cbn; auto. }
    apply (IH s' (rest ++ [mm]) s1 m fc A Hq'); auto.
    (* the merged id *)
    assert (Emm : mm = (if (b <? a)%N then merge_id b a else merge_id a b)).
    { apply wlookup_Some in Hl. destruct Hl as [_ Hid]. unfold wid in Hid. rewrite Hwc in Hid.
      destruct (b <? a)%N; cbn in Hid; auto. }
    destruct rest as [|c rest].
    + (* two heads: the merge carries their braid *)
      cbn [app queue_facts]. exists wm. split; auto.
      cbn [queue_facts] in Hqf. destruct (b <? a)%N.
      * rewrite Hswap in Hqf. rewrite reachset_swap in Hqf by (apply WInv_wf'; apply (si_W _ _ _ _ _ _ _ HS)).
        rewrite Hbr in Hqf. cbn in Hqf. congruence.
      * rewrite Hbr in Hqf. cbn in Hqf. congruence.
    + (* more heads: merge transparency *)
      assert (Hqf' : bfacts (braid (reachset (sW s) (a :: b :: c :: rest)) (a :: b :: c :: rest)) = Some fc) by exact Hqf.
      unfold queue_facts. destruct ((c :: rest) ++ [mm]) as [|x [|y l0]] eqn:El0.
      * destruct rest; discriminate.
      * destruct rest; discriminate.
      * rewrite <- El0. rewrite <- Hqf'.
        destruct B as (Bext & _).
        destruct (b <? a)%N eqn:Elt.
        -- subst mm. apply (Hmerge (sW s) (sW s') a b (c :: rest) b a wm); auto.
           ++ apply (si_W _ _ _ _ _ _ _ HS).
           ++ apply (si_W _ _ _ _ _ _ _ A).
           ++ rewrite Elt. reflexivity.
           ++ rewrite Hbr. reflexivity.
           ++ discriminate.
        -- subst mm. apply (Hmerge (sW s) (sW s') a b (c :: rest) a b wm); auto.
           ++ apply (si_W _ _ _ _ _ _ _ HS).
           ++ apply (si_W _ _ _ _ _ _ _ A).
           ++ rewrite Elt. reflexivity.
           ++ rewrite Hbr. reflexivity.
           ++ discriminate.
Qed.

Definition collapse_transparent_stmt : Prop :=
  braid_merge_transparent -> collapse_transparent_full_stmt.

Lemma collapse_transparent_proof : collapse_transparent_stmt.
Proof.
  intros Hmt ops Hc s Es s1 m Hcol Hc1.
  pose proof (RInv_run' ops Hc) as HR. unfold TxnInv.RInv in HR. rewrite Es in HR. destruct HR as [HS _].
  unfold Txn.collapse_heads in Hcol.
  assert (Hqf : queue_facts s (sheads s) (scache s)).
  { pose proof (si_cache _ _ _ _ _ _ _ HS) as Hcache. unfold queue_facts.
    destruct (sheads s) as [|a [|b rest]] eqn:Eh.
    - destruct Hcache as (effs & ->). reflexivity.
    - destruct Hcache as (wh & Hl & ->). eauto.
    - destruct Hcache as (effs & ->). reflexivity. }
  destruct (collapse_go_facts Hmt _ _ _ _ _ _ HS (si_heads_in _ _ _ _ _ _ _ HS) Hqf Hcol Hc1) as (wm & Hl & Hf).
  unfold get_linear_perspective. rewrite Hl. eexists. split; [reflexivity|]. cbn. auto.
Qed.

(** * C01 — replicas holding the same commands converge *)
Definition compatible s1 s2 : Prop :=
  forall w1 w2, In w1 (sW s1) -> In w2 (sW s2) -> wid w1 = wid w2 -> wc w1 = wc w2.
Definition same_committed s1 s2 : Prop := forall x, committed s1 x <-> committed s2 x.

Lemma WInv_root_attr W : WInv W -> forall w, In w W -> cpar (wc w) = PNone ->
  wmc w = 0%N /\ exists effs, eval (wc w) fempty = Accept (wfacts w) effs.
Proof.
  induction 1 as [c f effs Hc Hp He | w0 r Hr IH Hn Hok]; intros w Hin Hp0.
  - destruct Hin as [<-|[]]. cbn. eauto.
  - destruct Hin as [<-|Hin]; auto. unfold entry_ok in Hok. rewrite Hp0 in Hok. tauto.
Qed.

Lemma sortedN_ext (l1 l2 : list N) :
  StronglySorted N.lt l1 -> StronglySorted N.lt l2 -> (forall x, In x l1 <-> In x l2) -> l1 = l2.
Proof.
  revert l2; induction l1 as [|a l1 IH]; intros l2 H1 H2 Hx.
  - destruct l2 as [|b l2]; auto. exfalso. apply (Hx b). cbn; auto.
  - destruct l2 as [|b l2]; [exfalso; apply (Hx a); cbn; auto|].
    apply StronglySorted_inv in H1. destruct H1 as [S1 F1].
    apply StronglySorted_inv in H2. destruct H2 as [S2 F2].
    rewrite Forall_forall in F1, F2.
    assert (a = b).
    { destruct (proj1 (Hx a)) as [E|Ha]; [cbn; auto|auto|].
      destruct (proj2 (Hx b)) as [E|Hb]; [cbn; auto|auto|].
      specialize (F1 _ Hb). specialize (F2 _ Ha). lia. }
    subst b. f_equal. apply IH; auto. intros x. split; intros Hin.
    + destruct (proj1 (Hx x)) as [E|Hb]; [cbn; auto| |auto]. subst x. specialize (F1 _ Hin). lia.
    + destruct (proj2 (Hx x)) as [E|Hb]; [cbn; auto| |auto]. subst x. specialize (F2 _ Hin). lia.
Qed.

(** Two well-formed stores that agree on the identity of commands agree on everything below a
    command whose ancestors they both hold: ancestry, and the stored entry (max cut, facts). *)
Lemma agree_below W1 W2 :
  WInv W1 -> WInv W2 ->
  (forall w1 w2, In w1 W1 -> In w2 W2 -> wid w1 = wid w2 -> wc w1 = wc w2) ->
  forall suf pre, W1 = pre ++ suf ->
  forall x, In x (map wid suf) -> (forall y, anc (sg W1) y x -> In y (map wid W2)) ->
  (forall y, anc (sg W1) y x <-> anc (sg W2) y x)
  /\ (forall y, anc (sg W1) y x -> wlookup W1 y = wlookup W2 y).
Proof.
  intros HW1 HW2 Hcomp. pose proof (WInv_wf' _ HW1) as Hwf1. pose proof (WInv_wf' _ HW2) as Hwf2.
  pose proof (WInv_NoDup' _ HW1) as Hnd1. pose proof (WInv_NoDup' _ HW2) as Hnd2.
  induction suf as [|w suf IH]; intros pre E x Hx Hcl; [destruct Hx|].
  destruct Hx as [Ex|Hx].
  2:{ apply (IH (pre ++ [w])); auto. rewrite <- app_assoc. auto. }
  subst x.
  assert (Hw1 : In w W1) by (rewrite E; apply in_or_app; cbn; auto).
  assert (Hl1 : wlookup W1 (wid w) = Some w) by (apply wlookup_unique; auto).
  assert (Hx2 : In (wid w) (map wid W2)).
  { apply Hcl. apply anc_refl. rewrite ids_sg. apply in_map; auto. }
  destruct (wlookup_In_ids _ _ _ Hx2) as (w2 & Hl2).
  pose proof (wlookup_Some _ _ _ _ Hl2) as [Hw2 Eid2].
  assert (Ec : wc w = wc w2) by (apply Hcomp; auto).
  assert (Hlk1 : lookup (sg W1) (wid w) = Some (wc w)) by (rewrite wlookup_lookup, Hl1; auto).
  assert (Hlk2 : lookup (sg W2) (wid w) = Some (wc w)) by (rewrite wlookup_lookup, Hl2; cbn; congruence).
  (* the parents are older in W1, and closed *)
  assert (Hpar : forall p, In p (parents (wc w)) -> In p (map wid suf) /\ (forall y, anc (sg W1) y p -> In y (map wid W2))).
  { intros p Hp. split.
    - assert (HWs : WInv (w :: suf)).
      { rewrite E in HW1. eapply WInv_app; eauto. discriminate. }
      inv HWs.
      + exfalso. unfold parents in Hp. cbn in Hp. match goal with H : cpar _ = PNone |- _ => rewrite H in Hp end. destruct Hp.
      + eapply entry_ok_parents; eauto.
    - intros y Hy. apply Hcl. apply (anc_unfold _ _ _ y Hlk1). right. eauto. }
  assert (IHp : forall p, In p (parents (wc w)) ->
            (forall y, anc (sg W1) y p <-> anc (sg W2) y p) /\ (forall y, anc (sg W1) y p -> wlookup W1 y = wlookup W2 y)).
  { intros p Hp. destruct (Hpar p Hp) as [A B]. apply (IH (pre ++ [w])); auto. rewrite <- app_assoc. auto. }
  assert (Hanc : forall y, anc (sg W1) y (wid w) <-> anc (sg W2) y (wid w)).
  { intros y. rewrite (anc_unfold _ _ _ y Hlk1), (anc_unfold _ _ _ y Hlk2). split.
    - intros [->|(q & Hq & Hy)]; auto. right. exists q. split; auto. apply (IHp q Hq). auto.
    - intros [->|(q & Hq & Hy)]; auto. right. exists q. split; auto. apply (IHp q Hq). auto. }
  split; auto.
  intros y Hy. apply (anc_unfold _ _ _ y Hlk1) in Hy. destruct Hy as [->|(q & Hq & Hy)].
  2:{ apply (IHp q Hq). auto. }
  (* the entry of [w] itself *)
  rewrite Hl1, Hl2. f_equal.
  assert (Hattr : wfacts w = wfacts w2 /\ wmc w = wmc w2).
  { destruct (WInv_entry' _ HW1 w Hw1) as [E1|E1], (WInv_entry' _ HW2 w2 Hw2) as [E2|E2].
    - destruct (WInv_root_attr _ HW1 w Hw1 E1) as (M1 & effs1 & V1).
      destruct (WInv_root_attr _ HW2 w2 Hw2 E2) as (M2 & effs2 & V2).
      rewrite Ec in V1. rewrite V1 in V2. inv V2. split; congruence.
    - exfalso. unfold entry_ok in E2. rewrite <- Ec, E1 in E2. auto.
    - exfalso. unfold entry_ok in E1. rewrite Ec, E2 in E1. auto.
    - unfold entry_ok in E1, E2. rewrite <- Ec in E2. unfold parents in IHp.
      destruct (cpar (wc w)) as [|a|a b] eqn:Ecp; [tauto| |].
      + destruct E1 as (wa & La & Ma & effs & Va). destruct E2 as (wa2 & La2 & Ma2 & effs2 & Va2).
        assert (wlookup W1 a = wlookup W2 a).
        { apply (IHp a); [cbn; auto|]. apply anc_refl. rewrite ids_sg.
          apply wlookup_Some in La. destruct La as [Hi <-]. apply in_map; auto. }
        rewrite La, La2 in H. inv H. rewrite Va in Va2. inv Va2. split; congruence.
      + destruct E1 as (Ia & Ib & Ma & effs & Va). destruct E2 as (Ia2 & Ib2 & Ma2 & effs2 & Va2).
        assert (Hla : forall q, In q [a; b] -> forall y, anc (sg W1) y q -> wlookup W1 y = wlookup W2 y)
          by (intros q Hq; apply (IHp q Hq)).
        assert (Haa : forall q, In q [a; b] -> forall y, anc (sg W1) y q <-> anc (sg W2) y q)
          by (intros q Hq; apply (IHp q Hq)).
        assert (Era : reachset W1 [a; b] = reachset W2 [a; b]).
        { apply sorted_ext; try (rewrite reachset_rfold; apply rfold_sorted).
          intros z. rewrite !reachset_In by auto. unfold TxnGraph.R. split.
          - intros [Hz (q & Hq & Hy)]. pose proof (Hla q Hq _ Hy) as El.
            rewrite (wlookup_unique _ _ _ Hnd1 Hz) in El. symmetry in El. apply wlookup_Some in El.
            split; [tauto|]. exists q. split; auto. apply (Haa q Hq). auto.
          - intros [Hz (q & Hq & Hy)]. apply (Haa q Hq) in Hy. pose proof (Hla q Hq _ Hy) as El.
            rewrite (wlookup_unique _ _ _ Hnd2 Hz) in El. apply wlookup_Some in El.
            split; [tauto|]. exists q. split; auto. }
        assert (Hma : wmc_of W1 a = wmc_of W2 a /\ wmc_of W1 b = wmc_of W2 b).
        { unfold wmc_of. split.
          - rewrite (Hla a (or_introl eq_refl) a); auto. apply anc_refl. rewrite ids_sg; auto.
          - rewrite (Hla b (or_intror (or_introl eq_refl)) b); auto. apply anc_refl. rewrite ids_sg; auto. }
        destruct Hma as [Hm1 Hm2]. rewrite Era in Va. rewrite Va in Va2. inv Va2. split; [auto|congruence]. }
  destruct Hattr as [Hf Hm]. destruct w, w2. cbn in *. congruence.
Qed.

Lemma agree_committed s1 s2 :
  SInv s1 -> SInv s2 -> compatible s1 s2 -> same_committed s1 s2 ->
  forall x, committed s1 x ->
  (forall y, anc (sg (sW s1)) y x <-> anc (sg (sW s2)) y x)
  /\ (forall y, anc (sg (sW s1)) y x -> wlookup (sW s1) y = wlookup (sW s2) y).
Proof.
  intros H1 H2 Hc Hs x Hx.
  pose proof (si_W _ _ _ _ _ _ _ H1) as HW1. pose proof (si_W _ _ _ _ _ _ _ H2) as HW2.
  apply (agree_below (sW s1) (sW s2) HW1 HW2 Hc (sW s1) [] eq_refl).
  - eapply R_in; eauto. apply WInv_wf'; auto.
  - intros y Hy. assert (committed s2 y) by (apply Hs; eapply R_trans; eauto).
    eapply R_in; eauto. apply WInv_wf'; auto.
Qed.

Definition convergence_stmt : Prop :=
  forall ops1 ops2,
  rclash (run r0 ops1) = false -> rclash (run r0 ops2) = false ->
  forall s1 s2, rstore (run r0 ops1) = Some s1 -> rstore (run r0 ops2) = Some s2 ->
  compatible s1 s2 ->            (* the same id names the same command on both replicas *)
  same_committed s1 s2 ->        (* they have committed the same set of commands *)
  sheads s1 = sheads s2 /\ scache s1 = scache s2 /\ hello_head s1 = hello_head s2
  /\ (forall x, committed s1 x -> wlookup (sW s1) x = wlookup (sW s2) x).

Lemma convergence_SInv s1 s2 :
  SInv s1 -> SInv s2 -> compatible s1 s2 -> same_committed s1 s2 ->
  sheads s1 = sheads s2 /\ scache s1 = scache s2 /\ hello_head s1 = hello_head s2
  /\ (forall x, committed s1 x -> wlookup (sW s1) x = wlookup (sW s2) x).
Proof.
  intros H1 H2 Hc Hs.
  assert (Hc' : compatible s2 s1) by (intros a b Ha Hb E; symmetry; apply Hc; auto).
  assert (Hs' : same_committed s2 s1) by (intros x; symmetry; apply Hs).
  pose proof (agree_committed s1 s2 H1 H2 Hc Hs) as A12.
  pose proof (agree_committed s2 s1 H2 H1 Hc' Hs') as A21.
  pose proof (si_W _ _ _ _ _ _ _ H1) as HW1. pose proof (si_W _ _ _ _ _ _ _ H2) as HW2.
  pose proof (WInv_wf' _ HW1) as Hwf1. pose proof (WInv_wf' _ HW2) as Hwf2.
  assert (Hself : forall s, SInv s -> forall h, In h (sheads s) -> committed s h).
  { intros s HS h Hh. apply R_self; auto. apply (si_heads_in _ _ _ _ _ _ _ HS); auto. }
  assert (Hheads_sub : forall sa sb, SInv sa -> SInv sb -> same_committed sa sb ->
            (forall x, committed sa x -> forall y, anc (sg (sW sa)) y x <-> anc (sg (sW sb)) y x) ->
            (forall x, committed sb x -> forall y, anc (sg (sW sb)) y x <-> anc (sg (sW sa)) y x) ->
            forall x, In x (sheads sa) -> In x (sheads sb)).
  { intros sa sb Ha Hb Hsab Aab Aba x Hx.
    pose proof (WInv_wf' _ (si_W _ _ _ _ _ _ _ Ha)) as Hwa.
    assert (Hcx : committed sb x) by (apply Hsab; apply Hself; auto).
    destruct Hcx as (h2 & Hh2 & Hxh2).
    assert (Hch2 : committed sa h2) by (apply Hsab; apply Hself; auto).
    destruct Hch2 as (h1 & Hh1 & Hh2h1).
    assert (Hxh2a : anc (sg (sW sa)) x h2) by (apply (Aba h2); auto; apply Hself; auto).
    assert (x = h1) by (apply (si_anti _ _ _ _ _ _ _ Ha); auto; eapply anc_trans; eauto). subst h1.
    assert (x = h2) by (eapply anc_antisym; eauto). subst h2. auto. }
  assert (Eh : sheads s1 = sheads s2).
  { apply sortedN_ext; [apply (si_sorted _ _ _ _ _ _ _ H1) | apply (si_sorted _ _ _ _ _ _ _ H2) | ].
    intros x. split.
    - apply (Hheads_sub s1 s2); auto; intros; [apply A12|apply A21]; auto.
    - apply (Hheads_sub s2 s1); auto; intros; [apply A21|apply A12]; auto. }
  assert (Hlk : forall x, committed s1 x -> wlookup (sW s1) x = wlookup (sW s2) x).
  { intros x Hx. apply (A12 x Hx). apply anc_refl. rewrite ids_sg. eapply R_in; eauto. }
  splits; auto.
  - (* fact cache *)
    pose proof (si_cache _ _ _ _ _ _ _ H1) as C1. pose proof (si_cache _ _ _ _ _ _ _ H2) as C2.
    rewrite <- Eh in C2.
    assert (Ers : reachset (sW s1) (sheads s1) = reachset (sW s2) (sheads s1)).
    { apply sorted_ext; try (rewrite reachset_rfold; apply rfold_sorted).
      pose proof (WInv_NoDup' _ HW1) as Hnd1. pose proof (WInv_NoDup' _ HW2) as Hnd2.
      intros z. rewrite !reachset_In by auto. unfold TxnGraph.R. split.
      - intros [Hz (q & Hq & Hy)]. assert (Hcq : committed s1 q) by (apply Hself; auto).
        pose proof (proj2 (A12 q Hcq) _ Hy) as El. rewrite (wlookup_unique _ _ _ Hnd1 Hz) in El.
        symmetry in El. apply wlookup_Some in El. split; [tauto|]. exists q. split; auto. apply (A12 q Hcq). auto.
      - intros [Hz (q & Hq & Hy)]. assert (Hcq : committed s2 q) by (apply Hself; auto; rewrite <- Eh; auto).
        pose proof (proj2 (A21 q Hcq) _ Hy) as El. rewrite (wlookup_unique _ _ _ Hnd2 Hz) in El.
        symmetry in El. apply wlookup_Some in El. split; [tauto|]. exists q. split; auto. apply (A21 q Hcq). auto. }
    destruct (sheads s1) as [|h [|h2 hs]] eqn:Ehs.
    + exfalso. apply (si_heads_ne _ _ _ _ _ _ _ H1). auto.
    + destruct C1 as (w1 & L1 & F1). destruct C2 as (w2 & L2 & F2).
      assert (wlookup (sW s1) h = wlookup (sW s2) h) by (apply Hlk; apply Hself; auto; rewrite Ehs; cbn; auto).
      congruence.
    + destruct C1 as (e1 & B1). destruct C2 as (e2 & B2). rewrite Ers in B1. rewrite B1 in B2. inv B2. auto.
  - (* hello head *)
    assert (Em : map (fun h => (h, wmc_of (sW s1) h)) (sheads s1) = map (fun h => (h, wmc_of (sW s2) h)) (sheads s1)).
    { apply map_ext_in. intros h Hh. f_equal. unfold wmc_of. rewrite (Hlk h); auto. }
    unfold Txn.hello_head. rewrite <- Eh, Em. reflexivity.
Qed.

Lemma convergence_proof : convergence_stmt.
Proof.
  intros ops1 ops2 C1 C2 s1 s2 E1 E2 Hc Hs.
  pose proof (RInv_run' ops1 C1) as R1. pose proof (RInv_run' ops2 C2) as R2.
  unfold TxnInv.RInv in R1, R2. rewrite E1 in R1. rewrite E2 in R2.
  destruct R1 as [H1 _]. destruct R2 as [H2 _]. apply convergence_SInv; auto.
Qed.

End Props.
