(** Two structural properties of the braid used by the collapse of a head set
    (C04): the result does not depend on the order (or multiplicity) of the
    heads, and replacing two maximal heads by a merge command of them does
    not change the braided fact state. *)
From Coq Require Import Permutation.
From Aranya Require Import base.Tactics model.Dag model.Braid
  proofs.BraidDag proofs.BraidKey proofs.BraidSpec proofs.BraidLca proofs.BraidCount proofs.BraidRefine
  proofs.BraidMain proofs.BraidTrace.

(** * Heads as a set *)

Lemma existsb_same {T} (f : T -> bool) l1 l2 : (forall x, In x l1 <-> In x l2) -> existsb f l1 = existsb f l2.
Proof.
  intros H. destruct (existsb f l1) eqn:E1; destruct (existsb f l2) eqn:E2; auto.
  - apply existsb_exists in E1 as [x [Hx Hf]]. assert (existsb f l2 = true) by (apply existsb_exists; exists x; split; auto; apply H; auto). congruence.
  - apply existsb_exists in E2 as [x [Hx Hf]]. assert (existsb f l1 = true) by (apply existsb_exists; exists x; split; auto; apply H; auto). congruence.
Qed.

Lemma closure_heads_ext g hs1 hs2 : (forall x, In x hs1 <-> In x hs2) -> closure g hs1 = closure g hs2.
Proof. intros H. unfold closure. apply filter_ext. intros x. apply existsb_same; auto. Qed.

Lemma braid_spec_heads_ext g hs1 hs2 : (forall x, In x hs1 <-> In x hs2) -> braid_spec g hs1 = braid_spec g hs2.
Proof. intros H. unfold braid_spec. rewrite (closure_heads_ext g hs1 hs2 H). reflexivity. Qed.

Definition braid_heads_perm_stmt : Prop :=
  forall (g : graph) (hs1 hs2 : list N),
    wf_graph g -> single_root g -> hs1 <> [] -> incl hs1 (ids g) ->
    (forall x, In x hs1 <-> In x hs2) ->
    braid_L1 g hs1 = braid_L1 g hs2
    /\ forall facts (eval : cmd -> facts -> outcome facts) empty,
         braid_state facts eval empty g hs1 = braid_state facts eval empty g hs2.

Lemma braid_heads_perm_proof : braid_heads_perm_stmt.
Proof.
  intros g hs1 hs2 Hwf Hsr Hne Hin Hsame.
  assert (Hne2 : hs2 <> []).
  { destruct hs1 as [|h t]; [congruence|]. intros ->. apply (Hsame h). cbn; auto. }
  assert (Hin2 : incl hs2 (ids g)) by (intros x Hx; apply Hin; apply Hsame; auto).
  assert (E : braid_L1 g hs1 = braid_L1 g hs2).
  { rewrite !braid_refines_spec_proof by auto. apply braid_spec_heads_ext; auto. }
  split; auto. intros facts eval empty. unfold braid_state, braid_state_with. rewrite E. reflexivity.
Qed.

Corollary braid_heads_permutation g hs1 hs2 : wf_graph g -> single_root g -> hs1 <> [] -> incl hs1 (ids g) ->
  Permutation hs1 hs2 -> braid_L1 g hs1 = braid_L1 g hs2.
Proof.
  intros Hwf Hsr Hne Hin Hp. apply braid_heads_perm_proof; auto.
  intros x. split; apply Permutation_in; [auto|symmetry; auto].
Qed.

(** * Fuel does not matter once it suffices *)
Lemma spec_loop_S g A f done : spec_loop g A (S f) done =
  if 2 <=? count_fin g (ready g A done) then BParFin else
  match ready g A done with
  | [] => BBug
  | [b] => BOk b (filter (fun x => negb (is_merge_id g x)) done)
  | x :: r => spec_loop g A f (min_by g x r :: done)
  end.
Proof. reflexivity. Qed.

Lemma spec_loop_fuel_mono g A f : forall done r, spec_loop g A f done = r -> r <> BBug -> spec_loop g A (S f) done = r.
Proof.
  induction f as [|f IH]; intros done r H Hr; [cbn in H; congruence|].
  rewrite spec_loop_S in H. rewrite spec_loop_S.
  destruct (2 <=? count_fin g (ready g A done)); auto.
  destruct (ready g A done) as [|x [|y l]]; auto.
Qed.

Lemma spec_loop_fuel_ge g A f f' done r : f <= f' -> spec_loop g A f done = r -> r <> BBug -> spec_loop g A f' done = r.
Proof.
  induction 1 as [|f'' Hle IH]; auto. intros H1 Hr. apply spec_loop_fuel_mono; auto.
Qed.

Lemma filter_filter2 {T} (p q : T -> bool) l : filter p (filter q l) = filter (fun x => q x && p x) l.
Proof. induction l as [|x l IH]; cbn; auto. destruct (q x); cbn; rewrite ?IH; auto. Qed.

(** * Replacing two heads by a merge command of them *)
Section Merge.
  Variable g : graph.
  Variables a b mid body : N.
  Variable rest : list N.
  Hypothesis Hwf : wf_graph g.
  Hypothesis Hfresh : ~ In mid (ids g).
  Hypothesis Hin : incl (a :: b :: rest) (ids g).

  Definition mcmd : cmd := {| cid := mid; cprio := PMerge; cpar := PMerge2 a b; cbody := body |}.
  Definition g' : graph := mcmd :: g.
  Definition hs : list N := a :: b :: rest.
  Definition hs' : list N := rest ++ [mid].
  Definition A0 := closure g hs.
  Definition A1 := closure g' hs'.

  Lemma Ha : In a (ids g). Proof. apply Hin; cbn; auto. Qed.
  Lemma Hb : In b (ids g). Proof. apply Hin; cbn; auto. Qed.

  Lemma wf' : wf_graph g'.
  Proof.
    cbn. split; [auto|split; [auto|]]. intros p. unfold parents. cbn. intros [<-|[<-|[]]]; [apply Ha|apply Hb].
  Qed.

  Lemma anc_old x y : In y (ids g) -> (anc g' x y <-> anc g x y).
  Proof.
    intros Hy. split.
    - intros H. apply (anc_cons_inv mcmd g); auto; [apply wf'|]. intros ->. auto.
    - apply anc_cons. apply wf'.
  Qed.

  Lemma anc_mid x : anc g' x mid <-> x = mid \/ anc g x a \/ anc g x b.
  Proof.
    pose proof (anc_head mcmd g x wf') as H. cbn [cid mcmd] in H. rewrite H. unfold parents. cbn [cpar mcmd].
    split.
    - intros [->|[p [[<-|[<-|[]]] Hp]]]; auto.
    - intros [->|[Hx|Hx]]; auto; right; [exists a|exists b]; cbn; auto.
  Qed.

  Lemma A1_eq : A1 = mid :: A0.
  Proof.
    unfold A1, A0, closure, g'. cbn [ids map cid mcmd filter].
    assert (E : existsb (fun h => ancb (mcmd :: g) mid h) hs' = true).
    { apply existsb_exists. exists mid. split; [unfold hs'; apply in_or_app; cbn; auto|].
      apply (ancb_spec g' wf'). apply anc_refl. cbn; auto. }
    rewrite E. f_equal. apply filter_ext_in. intros x Hx.
    destruct (existsb (fun h => ancb g x h) hs) eqn:E0.
    - apply existsb_exists in E0 as [h [Hh Hxh]]. apply (ancb_spec g Hwf) in Hxh.
      apply existsb_exists. destruct Hh as [<-|[<-|Hh]].
      + exists mid. split; [unfold hs'; apply in_or_app; cbn; auto|]. apply (ancb_spec g' wf'). apply anc_mid. auto.
      + exists mid. split; [unfold hs'; apply in_or_app; cbn; auto|]. apply (ancb_spec g' wf'). apply anc_mid. auto.
      + exists h. split; [unfold hs'; apply in_or_app; auto|]. apply (ancb_spec g' wf'). apply anc_old; auto.
        apply Hin. cbn; auto.
    - destruct (existsb (fun h => ancb (mcmd :: g) x h) hs') eqn:E1; auto. exfalso.
      apply existsb_exists in E1 as [h [Hh Hxh]]. apply (ancb_spec g' wf') in Hxh.
      assert (Hex : existsb (fun h => ancb g x h) hs = true); [|congruence].
      apply existsb_exists. unfold hs' in Hh. apply in_app_or in Hh as [Hh|[<-|[]]].
      + exists h. split; [cbn; auto|]. apply (ancb_spec g Hwf). apply anc_old; auto. apply Hin. cbn; auto.
      + apply anc_mid in Hxh as [->|[Hx'|Hx']]; [tauto| |].
        * exists a. split; [cbn; auto|]. apply (ancb_spec g Hwf); auto.
        * exists b. split; [cbn; auto|]. apply (ancb_spec g Hwf); auto.
  Qed.

  Lemma lookup_old x : x <> mid -> lookup g' x = lookup g x.
  Proof. intros H. unfold g'. apply lookup_cons_other. cbn. auto. Qed.

  Lemma key_old x : x <> mid -> key_of g' x = key_of g x.
  Proof. intros H. unfold key_of. rewrite lookup_old; auto. Qed.
  Lemma fin_old x : x <> mid -> is_fin g' x = is_fin g x.
  Proof. intros H. unfold is_fin. rewrite lookup_old; auto. Qed.
  Lemma merge_old x : x <> mid -> is_merge_id g' x = is_merge_id g x.
  Proof. intros H. unfold is_merge_id. rewrite lookup_old; auto. Qed.
  Lemma fin_mid : is_fin g' mid = false.
  Proof. unfold is_fin, g'. cbn. rewrite N.eqb_refl. reflexivity. Qed.
  Lemma merge_mid : is_merge_id g' mid = true.
  Proof. unfold is_merge_id, g'. cbn. rewrite N.eqb_refl. reflexivity. Qed.

  Definition isab (x : N) : bool := mem x [a; b].

  Lemma children_new x : children g' x = (if isab x then [mid] else []) ++ children g x.
  Proof.
    unfold children, g'. cbn [filter]. unfold parents at 1. cbn [cpar mcmd]. fold (isab x).
    destruct (isab x); reflexivity.
  Qed.

  Lemma A0_ids x : In x A0 -> In x (ids g).
  Proof. apply (closure_ids g hs). Qed.
  Lemma A0_not_mid x : In x A0 -> x <> mid.
  Proof. intros H ->. apply Hfresh. apply A0_ids; auto. Qed.

  Lemma child_ids x c : In c (children g x) -> In c (ids g).
  Proof. intros H. apply (children_spec g x c Hwf) in H. apply (parent_in_ids g x c Hwf H). Qed.

  Lemma kids_new x : kids g' A1 x = (if isab x then [mid] else []) ++ kids g A0 x.
  Proof.
    unfold kids. rewrite children_new, filter_app, A1_eq. f_equal.
    - destruct (isab x); cbn [filter]; auto. unfold mem at 1. cbn [existsb]. rewrite N.eqb_refl. reflexivity.
    - apply filter_ext_in. intros c Hc. unfold mem. cbn [existsb].
      assert (c <> mid) by (intros ->; apply Hfresh; eapply child_ids; eauto).
      apply N.eqb_neq in H. rewrite H. reflexivity.
  Qed.

  Lemma mem_mid_skip x d1 d2 : x <> mid -> mem x (d1 ++ mid :: d2) = mem x (d1 ++ d2).
  Proof.
    intros H. destruct (mem x (d1 ++ mid :: d2)) eqn:E1; destruct (mem x (d1 ++ d2)) eqn:E2; auto.
    - apply mem_In in E1. apply mem_false in E2. exfalso. apply E2. apply in_app_or in E1 as [E1|[E1|E1]]; [apply in_or_app; auto|congruence|apply in_or_app; auto].
    - apply mem_In in E2. apply mem_false in E1. exfalso. apply E1. apply in_app_or in E2 as [E2|E2]; apply in_or_app; cbn; auto.
  Qed.

  Lemma ready_unfold done : ready g' A1 done =
    filter (fun x => negb (mem x done) && forallb (fun c => mem c done) (kids g' A1 x)) (mid :: A0).
  Proof. unfold ready. rewrite <- A1_eq. reflexivity. Qed.

  Lemma forallb_ext_in' {T} (f h : T -> bool) l : (forall x, In x l -> f x = h x) -> forallb f l = forallb h l.
  Proof. induction l as [|x l IH]; cbn; auto. intros H. rewrite H, IH; auto. Qed.

  Lemma kid_not_mid x c : In c (kids g A0 x) -> c <> mid.
  Proof. unfold kids. rewrite filter_In. intros [_ H]. apply mem_In in H. apply A0_not_mid; auto. Qed.

  (** After the merge command has been processed the two runs see the same ready commands. *)
  Lemma ready_post d1 d2 : ready g' A1 (d1 ++ mid :: d2) = ready g A0 (d1 ++ d2).
  Proof.
    rewrite ready_unfold. cbn [filter].
    assert (E : mem mid (d1 ++ mid :: d2) = true) by (apply mem_In; apply in_or_app; cbn; auto).
    rewrite E. cbn [negb andb]. unfold ready. apply filter_ext_in. intros x Hx.
    pose proof (A0_not_mid x Hx) as Hne. rewrite mem_mid_skip by auto. f_equal.
    rewrite kids_new, forallb_app.
    assert (E2 : forallb (fun c => mem c (d1 ++ mid :: d2)) (if isab x then [mid] else []) = true).
    { destruct (isab x); cbn [forallb]; auto. rewrite E. auto. }
    rewrite E2. cbn [andb]. apply forallb_ext_in'. intros c Hc. apply mem_mid_skip. eapply kid_not_mid; eauto.
  Qed.

  (** Before that, the merge command is ready and blocks its two parents. *)
  Lemma ready_pre d : ~ In mid d -> ready g' A1 d = mid :: filter (fun x => negb (isab x)) (ready g A0 d).
  Proof.
    intros Hd. rewrite ready_unfold. cbn [filter].
    assert (E : mem mid d = false) by (apply mem_false; auto). rewrite E. cbn [negb andb].
    assert (Ek : kids g' A1 mid = []).
    { unfold kids. destruct (children g' mid) as [|c l] eqn:Ec; auto. exfalso.
      assert (Hc : In c (children g' mid)) by (rewrite Ec; cbn; auto).
      apply (children_spec g' mid c wf') in Hc. destruct (parent_of_cons_inv _ _ _ _ wf' Hc) as [[_ Hp]|[_ Hp]].
      - unfold parents in Hp. cbn in Hp. destruct Hp as [<-|[<-|[]]]; [apply Hfresh, Ha|apply Hfresh, Hb].
      - apply Hfresh. apply (parent_in_ids g mid c Hwf Hp). }
    rewrite Ek. cbn [forallb]. f_equal. unfold ready. rewrite filter_filter2. apply filter_ext_in. intros x Hx.
    rewrite kids_new, forallb_app. destruct (isab x); cbn [forallb negb]; [rewrite E|]; cbn [andb]; rewrite ?andb_false_r, ?andb_true_r; auto.
  Qed.

  Lemma ready_in_A0 d y : In y (ready g A0 d) -> In y A0.
  Proof. unfold ready. rewrite filter_In. tauto. Qed.

  Lemma min_by_old l : forall x, (forall y, In y (x :: l) -> y <> mid) -> min_by g' x l = min_by g x l.
  Proof.
    induction l as [|z l IH]; intros x H; cbn [min_by]; auto.
    rewrite !key_old by (apply H; cbn; auto).
    destruct (key_ltb (key_of g z) (key_of g x)); apply IH; intros y Hy; apply H; cbn in *; tauto.
  Qed.

  Lemma count_fin_old l : (forall y, In y l -> y <> mid) -> count_fin g' l = count_fin g l.
  Proof. intros H. unfold count_fin. f_equal. apply filter_ext_in. intros y Hy. apply fin_old; auto. Qed.

  Lemma nm_filter_post d1 d2 : (forall y, In y (d1 ++ d2) -> y <> mid) ->
    filter (fun x => negb (is_merge_id g' x)) (d1 ++ mid :: d2) = filter (fun x => negb (is_merge_id g x)) (d1 ++ d2).
  Proof.
    intros H. rewrite !filter_app. cbn [filter]. rewrite merge_mid. cbn [negb]. f_equal.
    - apply filter_ext_in. intros y Hy. rewrite merge_old; auto. apply H. apply in_or_app; auto.
    - apply filter_ext_in. intros y Hy. rewrite merge_old; auto. apply H. apply in_or_app; auto.
  Qed.

  (** Once the merge command has been processed the two runs coincide. *)
  Lemma phase2 f : forall d1 d2, (forall y, In y (d1 ++ d2) -> y <> mid) ->
    spec_loop g' A1 f (d1 ++ mid :: d2) = spec_loop g A0 f (d1 ++ d2).
  Proof.
    induction f as [|f IH]; intros d1 d2 Hd; [reflexivity|].
    rewrite !spec_loop_S, ready_post.
    assert (Hr : forall y, In y (ready g A0 (d1 ++ d2)) -> y <> mid) by (intros y Hy; apply A0_not_mid; eapply ready_in_A0; eauto).
    rewrite count_fin_old by auto.
    destruct (2 <=? count_fin g (ready g A0 (d1 ++ d2))); auto.
    destruct (ready g A0 (d1 ++ d2)) as [|x [|y l]] eqn:Er; auto.
    - rewrite nm_filter_post; auto.
    - rewrite min_by_old by auto.
      change (min_by g x (y :: l) :: d1 ++ mid :: d2) with ((min_by g x (y :: l) :: d1) ++ mid :: d2).
      rewrite IH; auto. intros z [<-|Hz]; auto. apply Hr. apply min_by_in.
  Qed.

  (** ** The run below a lone pair {a, b} is the braid of [a; b]. *)
  Definition A2 := closure g [a; b].
  Definition lift (tl : list N) (r : bres) : bres := match r with BOk x o => BOk x (o ++ tl) | _ => r end.

  Lemma forallb_filter {T} (f p : T -> bool) l : forallb f (filter p l) = forallb (fun c => implb (p c) (f c)) l.
  Proof. induction l as [|x l IH]; cbn; auto. destruct (p x); cbn; rewrite IH; auto. Qed.

  Section Offset.
    Variable d : list N.
    Hypothesis Hok : okdone g hs d.
    Hypothesis Had : ~ In a d.
    Hypothesis Hbd : ~ In b d.
    Hypothesis Hlone : forall y, In y (ready g A0 d) -> y = a \/ y = b.

    Lemma A2_char x : In x A2 <-> In x A0 /\ ~ In x d.
    Proof.
      unfold A2, A0. rewrite !closure_spec by auto. split.
      - intros [h [Hh Hx]]. split.
        + exists h. split; auto. destruct Hh as [<-|[<-|[]]]; cbn; auto.
        + intros Hd. assert (In h d).
          { apply (okdone_desc g hs Hwf d Hok x h); auto. apply closure_spec; auto. exists h. split; [|apply anc_refl; apply (anc_in g x h); auto].
            destruct Hh as [<-|[<-|[]]]; cbn; auto. }
          destruct Hh as [<-|[<-|[]]]; auto.
      - intros [HxA Hxd]. assert (HxA' : In x (closure g hs)) by (apply closure_spec; auto).
        destruct (unprocessed_below_ready g hs Hwf d Hok x HxA' Hxd) as [r [Hr Hxr]].
        exists r. split; auto. destruct (Hlone r Hr) as [-> | ->]; cbn; auto.
    Qed.

    Lemma ready_offset d2 : ready g A0 (d2 ++ d) = ready g A2 d2.
    Proof.
      unfold ready. unfold A0 at 2, A2 at 2, closure. rewrite !filter_filter2. apply filter_ext_in. intros x Hx.
      fold (closure g hs) (closure g [a; b]). fold A0 A2.
      destruct (existsb (fun h => ancb g x h) [a; b]) eqn:E2.
      - assert (Hx2 : In x A2) by (unfold A2, closure; apply filter_In; auto).
        destruct (proj1 (A2_char x) Hx2) as [Hx0 Hxd].
        assert (E0 : existsb (fun h => ancb g x h) hs = true).
        { unfold A0, closure in Hx0. apply filter_In in Hx0. tauto. }
        rewrite E0. cbn [andb]. f_equal.
        + f_equal. destruct (mem x (d2 ++ d)) eqn:M1; destruct (mem x d2) eqn:M2; auto.
          * apply mem_In in M1. apply mem_false in M2. destruct (in_app_or _ _ _ M1); tauto.
          * apply mem_In in M2. apply mem_false in M1. exfalso. apply M1. apply in_or_app; auto.
        + unfold kids. rewrite !forallb_filter. apply forallb_ext_in'. intros c Hc.
          destruct (mem c A2) eqn:C2.
          * apply mem_In in C2. destruct (proj1 (A2_char c) C2) as [C0 Cd]. apply mem_In in C0. rewrite C0. cbn [implb].
            destruct (mem c (d2 ++ d)) eqn:M1; destruct (mem c d2) eqn:M2; auto.
            -- apply mem_In in M1. apply mem_false in M2. destruct (in_app_or _ _ _ M1); tauto.
            -- apply mem_In in M2. apply mem_false in M1. exfalso. apply M1. apply in_or_app; auto.
          * cbn [implb]. destruct (mem c A0) eqn:C0; auto. cbn [implb].
            apply mem_In in C0. apply mem_false in C2. apply mem_In. apply in_or_app. right.
            destruct (in_dec N.eq_dec c d); auto. exfalso. apply C2. apply A2_char. auto.
      - rewrite andb_false_l.
        destruct (existsb (fun h => ancb g x h) hs) eqn:E0; auto. cbn [andb].
        (* x in A0 but not in A2: it is processed *)
        assert (Hx0 : In x A0) by (unfold A0, closure; apply filter_In; auto).
        assert (Hxd : In x d).
        { destruct (in_dec N.eq_dec x d); auto. exfalso.
          assert (In x A2) by (apply A2_char; auto). unfold A2, closure in H. apply filter_In in H. destruct H. congruence. }
        assert (M : mem x (d2 ++ d) = true) by (apply mem_In; apply in_or_app; auto). rewrite M. reflexivity.
    Qed.

    Lemma loop_offset f : forall d2, spec_loop g A0 f (d2 ++ d) = lift (filter (fun x => negb (is_merge_id g x)) d) (spec_loop g A2 f d2).
    Proof.
      induction f as [|f IH]; intros d2; [reflexivity|].
      rewrite !spec_loop_S, ready_offset.
      destruct (2 <=? count_fin g (ready g A2 d2)); auto.
      destruct (ready g A2 d2) as [|x [|y l]]; auto.
      - cbn [lift]. rewrite filter_app. reflexivity.
      - change (min_by g x (y :: l) :: d2 ++ d) with ((min_by g x (y :: l) :: d2) ++ d). apply IH.
    Qed.
  End Offset.

  (** ** Before the merge command is processed *)
  (** [a] and [b] are maximal in the merged history (true of the heads of a
      head set, which are pairwise concurrent). *)
  Hypothesis Hmax : forall c, (parent_of g a c \/ parent_of g b c) -> ~ In c A0.
  (** Whatever is processed before the merge command would also be processed
      before [a] and [b] (true when [a] and [b] do not have Merge priority). *)
  Hypothesis Hbeats : forall x, In x A0 -> key_ltb (key_of g x) (PMerge, mid) = true ->
    key_ltb (key_of g x) (key_of g a) = true /\ key_ltb (key_of g x) (key_of g b) = true.

  Definition nmf (gg : graph) (l : list N) := filter (fun x => negb (is_merge_id gg x)) l.

  Definition Eqr (r' r : bres) : Prop :=
    r' = r
    \/ exists o' base2 order2, r' = BOk mid o' /\ r = BOk base2 (order2 ++ o')
         /\ braid_spec g [a; b] = BOk base2 order2 /\ forall y, In y o' -> y <> mid.

  Lemma key_mid : key_of g' mid = (PMerge, mid).
  Proof. unfold key_of, g'. cbn. rewrite N.eqb_refl. reflexivity. Qed.

  Lemma a_in_A0 : In a A0. Proof. apply (closure_head g hs Hwf a); [unfold hs; cbn; auto|apply Ha]. Qed.
  Lemma b_in_A0 : In b A0. Proof. apply (closure_head g hs Hwf b); [unfold hs; cbn; auto|apply Hb]. Qed.

  Lemma ab_ready d : ~ In a d -> ~ In b d -> In a (ready g A0 d) /\ In b (ready g A0 d).
  Proof.
    intros H1 H2. split; apply (ready_spec g hs Hwf); (split; [apply a_in_A0 || apply b_in_A0|split; [auto|]]);
      intros c Hc HcA; exfalso; apply (Hmax c); auto.
  Qed.

  Lemma count_fin_filter_le l p : count_fin g (filter p l) <= count_fin g l.
  Proof.
    unfold count_fin. induction l as [|x l IH]; cbn [filter]; auto.
    destruct (p x); cbn [filter]; destruct (is_fin g x); cbn [length]; lia.
  Qed.

  Lemma spec_fuel_agree A f1 f2 d r1 r2 : spec_loop g A f1 d = r1 -> spec_loop g A f2 d = r2 -> r1 <> BBug -> r2 <> BBug -> r1 = r2.
  Proof.
    intros H1 H2 N1 N2. destruct (le_ge_dec f1 f2) as [Hle|Hge].
    - rewrite <- H2. symmetry. eapply spec_loop_fuel_ge; eauto.
    - rewrite <- H1. eapply spec_loop_fuel_ge; eauto.
  Qed.

  Lemma phase1 f : forall d r, okdone g hs d -> ~ In a d -> ~ In b d ->
    spec_loop g A0 f d = r -> r <> BParFin -> r <> BBug ->
    Eqr (spec_loop g' A1 (S f) d) r.
  Proof.
    induction f as [|f IH]; intros d r Hok Had Hbd Hr Hnp Hnb; [cbn in Hr; congruence|].
    assert (Hdmid : ~ In mid d).
    { intros H. apply (A0_not_mid mid); auto. apply (okdone_incl g hs d Hok); auto. }
    assert (Hdne : forall y, In y d -> y <> mid) by (intros y Hy ->; auto).
    rewrite spec_loop_S in Hr. rewrite spec_loop_S, (ready_pre d Hdmid).
    set (rd := ready g A0 d) in *.
    destruct (ab_ready d Had Hbd) as [Hard Hbrd]. fold rd in Hard, Hbrd.
    assert (Hrdne : forall y, In y rd -> y <> mid) by (intros y Hy; apply A0_not_mid; eapply ready_in_A0; eauto).
    destruct (2 <=? count_fin g rd) eqn:Ec; [congruence|].
    set (rn := filter (fun x => negb (isab x)) rd).
    assert (Hrnsub : forall y, In y rn -> In y rd /\ isab y = false).
    { intros y Hy. unfold rn in Hy. apply filter_In in Hy as [H1 H2]. apply negb_true_iff in H2. auto. }
    assert (Ec' : (2 <=? count_fin g' (mid :: rn)) = false).
    { unfold count_fin. cbn [filter]. rewrite fin_mid. fold (count_fin g' rn).
      rewrite count_fin_old by (intros y Hy; apply Hrdne; apply Hrnsub; auto).
      pose proof (count_fin_filter_le rd (fun x => negb (isab x))). fold rn in H.
      apply Nat.leb_gt. apply Nat.leb_gt in Ec. lia. }
    rewrite Ec'.
    destruct rn as [|y l] eqn:Ern.
    - (* the merge command is alone: base = the merge command *)
      right. assert (Hlone : forall z, In z rd -> z = a \/ z = b).
      { intros z Hz. destruct (isab z) eqn:Ez.
        - unfold isab, mem in Ez. cbn in Ez. apply orb_true_iff in Ez as [Ez|Ez]; [left|right].
          + apply N.eqb_eq in Ez. auto.
          + rewrite orb_false_r in Ez. apply N.eqb_eq in Ez. auto.
        - exfalso. assert (In z rn) by (unfold rn; apply filter_In; rewrite Ez; auto). rewrite Ern in H. destruct H. }
      pose proof (loop_offset d Hok Had Hbd Hlone (S f) []) as Hoff. cbn [app] in Hoff.
      rewrite spec_loop_S in Hoff. fold rd in Hoff. rewrite Ec in Hoff. rewrite Hr in Hoff.
      destruct (spec_loop g A2 (S f) []) as [base2 order2| |] eqn:E2; cbn [lift] in Hoff; try congruence.
      exists (nmf g d), base2, order2. split; [|split; [auto|split]].
      + f_equal. unfold nmf. apply filter_ext_in. intros z Hz. rewrite merge_old; auto.
      + unfold braid_spec. fold A2.
        apply (spec_fuel_agree A2 (S (length g)) (S f) [] _ _ eq_refl E2); [|discriminate].
        apply (spec_total g [a; b] Hwf); [discriminate|]. intros z [<-|[<-|[]]]; [apply Ha|apply Hb].
      + intros z Hz. unfold nmf in Hz. apply filter_In in Hz as [Hz _]. auto.
    - (* at least two ready commands in the extended graph *)
      set (k := min_by g' mid (y :: l)).
      assert (Hkin : In k (mid :: y :: l)) by apply min_by_in.
      destruct (N.eq_dec k mid) as [Ek|Ek].
      + (* the merge command is processed now *)
        left. fold k. rewrite Ek. change (mid :: d) with ([] ++ mid :: d). rewrite (phase2 (S f) [] d) by auto. cbn [app].
        rewrite spec_loop_S. fold rd. rewrite Ec. exact Hr.
      + (* something with a smaller key is processed first: in both runs *)
        destruct Hkin as [Hk|Hk]; [congruence|].
        assert (Hkrn : In k rd /\ isab k = false) by (apply Hrnsub; auto).
        destruct Hkrn as [Hkrd Hkab].
        assert (HkA : In k A0) by (eapply ready_in_A0; eauto).
        (* k is least among mid :: y :: l *)
        assert (Hleast : forall z, In z (mid :: y :: l) -> key_ltb (key_of g' z) (key_of g' k) = false).
        { pose proof (min_key_least (map (key_of g') (y :: l)) (key_of g' mid)) as [_ Hl].
          intros z Hz. unfold k. rewrite min_by_map. apply Hl. rewrite <- map_cons. apply in_map. auto. }
        assert (Hklt : key_ltb (key_of g k) (PMerge, mid) = true).
        { pose proof (Hleast mid (or_introl eq_refl)) as Hm. rewrite key_mid, key_old in Hm by auto.
          destruct (key_ltb_total' (key_of g k) (PMerge, mid)) as [|Hc]; auto; [rewrite key_of_snd; cbn; auto|congruence]. }
        destruct (Hbeats k HkA Hklt) as [Hka Hkb].
        (* hence k is the choice of the original run too *)
        assert (Hmin : forall x0 rl, rd = x0 :: rl -> min_by g x0 rl = k).
        { intros x0 rl Erd.
          assert (E : key_of g (min_by g x0 rl) = key_of g k).
          { apply (least_unique (map (key_of g) (x0 :: rl)) (map (key_of g) (x0 :: rl))); auto.
            - tauto.
            - intros k1 k2 H1 H2 E12. apply in_map_iff in H1 as [z1 [<- _]]. apply in_map_iff in H2 as [z2 [<- _]].
              rewrite !key_of_snd in E12. congruence.
            - rewrite min_by_map. apply (min_key_least (map (key_of g) rl)).
            - split; [apply in_map; rewrite <- Erd; auto|].
              intros kz Hkz. apply in_map_iff in Hkz as [z [<- Hz]]. rewrite <- Erd in Hz.
              destruct (isab z) eqn:Ez.
              + unfold isab, mem in Ez. cbn in Ez. apply orb_true_iff in Ez as [Ez|Ez].
                * apply N.eqb_eq in Ez. subst z. apply key_ltb_asym; auto.
                * rewrite orb_false_r in Ez. apply N.eqb_eq in Ez. subst z. apply key_ltb_asym; auto.
              + assert (Hzl : In z (mid :: y :: l)) by (right; rewrite <- Ern; unfold rn; apply filter_In; rewrite Ez; auto).
                pose proof (Hleast z Hzl) as Hz'. rewrite !key_old in Hz' by auto. auto. }
          pose proof (f_equal snd E) as E'. rewrite !key_of_snd in E'. auto. }
        assert (Hka' : k <> a) by (intros ->; unfold isab, mem in Hkab; cbn in Hkab; rewrite N.eqb_refl in Hkab; discriminate).
        assert (Hkb' : k <> b) by (intros ->; unfold isab, mem in Hkab; cbn in Hkab; rewrite N.eqb_refl, orb_true_r in Hkab; discriminate).
        destruct rd as [|x0 [|x1 rl]] eqn:Erd; [destruct Hard| |].
        * (* a single ready command would be a, b and k at once *)
          exfalso. destruct Hard as [<-|[]]. destruct Hkrd as [E|[]]. auto.
        * rewrite (Hmin x0 (x1 :: rl) eq_refl) in Hr.
          apply IH; auto.
          -- apply okdone_ready; auto. fold A0. unfold rd in Erd. rewrite Erd. auto.
          -- intros [E|E]; auto.
          -- intros [E|E]; auto.
  Qed.
End Merge.

Lemma apply_order_app facts (eval : cmd -> facts -> outcome facts) g o1 : forall o2 f,
  apply_order facts eval g (o1 ++ o2) f =
  match apply_order facts eval g o1 f with Some f' => apply_order facts eval g o2 f' | None => None end.
Proof.
  induction o1 as [|x o1 IH]; intros o2 f; cbn [app apply_order]; auto.
  destruct (lookup g x); auto. destruct (eval c f); auto.
Qed.

Lemma apply_order_cons_old facts (eval : cmd -> facts -> outcome facts) c g o : (forall y, In y o -> y <> cid c) ->
  forall f, apply_order facts eval (c :: g) o f = apply_order facts eval g o f.
Proof.
  induction o as [|x o IH]; intros H f; cbn [apply_order]; auto.
  rewrite lookup_cons_other by (intros E; apply (H x); cbn; auto).
  destruct (lookup g x); auto. destruct (eval c0 f); auto; apply IH; intros y Hy; apply H; cbn; auto.
Qed.

Definition braid_merge_transparent_L1_stmt : Prop :=
  forall (g : graph) (a b mid body : N) (rest : list N),
    wf_graph g -> single_root g -> ~ In mid (ids g) -> incl (a :: b :: rest) (ids g) ->
    let m := {| cid := mid; cprio := PMerge; cpar := PMerge2 a b; cbody := body |} in
    (* a and b are maximal in the merged history *)
    (forall c, parent_of g a c \/ parent_of g b c -> ~ In c (closure g (a :: b :: rest))) ->
    (* whatever precedes the merge command also precedes a and b *)
    (forall x, In x (closure g (a :: b :: rest)) -> key_ltb (key_of g x) (PMerge, mid) = true ->
       key_ltb (key_of g x) (key_of g a) = true /\ key_ltb (key_of g x) (key_of g b) = true) ->
    braid_L1 g (a :: b :: rest) <> BParFin ->
    forall facts (eval : cmd -> facts -> outcome facts) empty,
      braid_state facts eval empty (m :: g) (rest ++ [mid]) = braid_state facts eval empty g (a :: b :: rest).

Lemma braid_merge_transparent_L1_proof : braid_merge_transparent_L1_stmt.
Proof.
  intros g a b mid body rest Hwf Hsr Hfresh Hin m Hmax Hbeats Hnp facts eval empty.
  pose proof (wf' g a b mid body rest Hwf Hfresh Hin) as Hwf'. fold m in Hwf'.
  change (g' g a b mid body) with (m :: g) in Hwf'.
  assert (Hsr' : single_root (m :: g)).
  { intros c1 c2 [<-|H1] [<-|H2] E1 E2; try discriminate. apply Hsr; auto. }
  assert (Hne' : rest ++ [mid] <> []) by (destruct rest; discriminate).
  assert (Hin' : incl (rest ++ [mid]) (ids (m :: g))).
  { intros x Hx. apply in_app_or in Hx as [Hx|[<-|[]]]; cbn; auto. right. apply Hin. cbn; auto. }
  assert (HL1 : braid_L1 g (a :: b :: rest) = braid_spec g (a :: b :: rest)) by (apply braid_refines_spec_proof; auto; discriminate).
  assert (HL1' : braid_L1 (m :: g) (rest ++ [mid]) = braid_spec (m :: g) (rest ++ [mid])) by (apply braid_refines_spec_proof; auto).
  assert (Hnb : braid_spec g (a :: b :: rest) <> BBug) by (apply spec_total; auto; discriminate).
  rewrite HL1 in Hnp.
  assert (Hph := phase1 g a b mid body rest Hwf Hfresh Hin Hmax Hbeats (S (length g)) [] (braid_spec g (a :: b :: rest))
                   (ok_nil g (a :: b :: rest)) (fun H => match H with end) (fun H => match H with end) eq_refl Hnp Hnb).
  change (spec_loop g (A0 g a b rest) (S (length g)) []) with (braid_spec g (a :: b :: rest)) in Hph.
  change (spec_loop (g' g a b mid body) (A1 g a b mid body rest) (S (S (length g))) []) with (braid_spec (m :: g) (rest ++ [mid])) in Hph.
  unfold braid_state, braid_state_with. rewrite HL1, HL1'.
  destruct Hph as [E|(o' & base2 & order2 & E1 & E2 & E3 & Ho')].
  - rewrite E. destruct (braid_spec g (a :: b :: rest)) as [base order| |] eqn:Es; auto.
    destruct (spec_result_props g (a :: b :: rest) Hwf base order Es) as [_ [HbA [_ [Hord _]]]].
    assert (Hbm : base <> mid) by (intros ->; apply Hfresh; apply (closure_ids g (a :: b :: rest)); auto).
    assert (Hom : forall y, In y order -> y <> cid m).
    { intros y Hy ->. apply Hfresh. destruct (Hord _ Hy) as [_ [HyA _]]. apply (closure_ids g (a :: b :: rest)); auto. }
    assert (Est : state_at_with facts eval empty braid_L1 (m :: g) base = state_at_with facts eval empty braid_L1 g base).
    { cbn [state_at_with]. assert (E0 : (cid m =? base)%N = false) by (apply N.eqb_neq; cbn; auto). rewrite E0. reflexivity. }
    rewrite Est. destruct (state_at_with facts eval empty braid_L1 g base); auto.
    apply apply_order_cons_old; auto.
  - rewrite E1, E2.
    assert (Est : state_at_with facts eval empty braid_L1 (m :: g) mid =
                  match state_at_with facts eval empty braid_L1 g base2 with
                  | Some f => apply_order facts eval g order2 f | None => None end).
    { cbn [state_at_with]. cbn [cid m]. rewrite N.eqb_refl. cbn [cpar m].
      rewrite (braid_refines_spec_proof g [a; b]); auto; [|discriminate|intros x [<-|[<-|[]]]; apply Hin; cbn; auto].
      rewrite E3. reflexivity. }
    rewrite Est. destruct (state_at_with facts eval empty braid_L1 g base2) as [f0|]; auto.
    rewrite apply_order_app. destruct (apply_order facts eval g order2 f0); auto.
    apply apply_order_cons_old. intros y Hy. cbn. auto.
Qed.

(** When neither [a] nor [b] has the Merge priority the second condition holds by itself. *)
Lemma beats_nonmerge g a b mid (A : list N) :
  (forall c, lookup g a = Some c -> cprio c <> PMerge) -> (forall c, lookup g b = Some c -> cprio c <> PMerge) ->
  In a (ids g) -> In b (ids g) ->
  forall x, In x A -> key_ltb (key_of g x) (PMerge, mid) = true ->
    key_ltb (key_of g x) (key_of g a) = true /\ key_ltb (key_of g x) (key_of g b) = true.
Proof.
  intros Hpa Hpb Ha Hb x _ Hx. apply key_ltb_spec in Hx. unfold k1, k2 in Hx. cbn [fst snd prio_rank] in Hx.
  assert (Hr : forall y, In y (ids g) -> (forall c, lookup g y = Some c -> cprio c <> PMerge) -> (1 <= k1 (key_of g y))%N).
  { intros y Hy Hp. destruct (ids_lookup g y Hy) as [c Hc]. unfold key_of, k1. rewrite Hc. cbn [fst].
    specialize (Hp c Hc). destruct (cprio c); cbn; try lia. congruence. }
  pose proof (Hr a Ha Hpa). pose proof (Hr b Hb Hpb).
  split; apply key_ltb_spec; unfold k1 in *; lia.
Qed.
