(** Injectivity of the byte framings of [model/TupleHash.v]. *)
From Aranya Require Import base.Tactics model.TupleHash.
Local Open Scope N_scope.

Fixpoint le_value (l : bytes) : N := match l with [] => 0 | b :: r => b + 256 * le_value r end.

Lemma le_value_le_digits fuel v : v < 256 ^ N.of_nat (S fuel) -> le_value (le_digits fuel v) = v.
Proof.
  revert v; induction fuel as [|f IH]; intros v Hv.
  - cbn [le_digits le_value]. change (256 ^ N.of_nat 1) with 256 in Hv. rewrite N.mod_small by lia. lia.
  - cbn [le_digits]. destr_if.
    + cbn [le_value]. lia.
    + cbn [le_value]. rewrite IH.
      * pose proof (N.div_mod v 256). lia.
      * rewrite Nat2N.inj_succ, N.pow_succ_r' in Hv. apply N.div_lt_upper_bound; lia.
Qed.

Lemma pow2_le_pow256 n : 2 ^ n <= 256 ^ n.
Proof. apply N.pow_le_mono_l. lia. Qed.

Lemma le_value_be v : le_value (rev (be_digits v)) = v.
Proof.
  unfold be_digits. rewrite rev_involutive. apply le_value_le_digits.
  rewrite Nat2N.inj_succ, N2Nat.id.
  destruct (N.eq_dec v 0) as [->|Hz]; [reflexivity|].
  pose proof (N.log2_spec v ltac:(lia)) as [_ H].
  pose proof (pow2_le_pow256 (N.succ (N.log2 v))). lia.
Qed.

Lemma be_digits_inj v w : be_digits v = be_digits w -> v = w.
Proof. intros H. rewrite <- (le_value_be v), <- (le_value_be w). now rewrite H. Qed.

Lemma be_digits_nonempty v : be_digits v <> [].
Proof.
  unfold be_digits. intros H. apply (f_equal (@rev N)) in H. rewrite rev_involutive in H. cbn in H.
  destruct (N.to_nat (N.log2 v)); cbn [le_digits] in H; [discriminate|]. destruct (v <? 256); discriminate.
Qed.

Lemma app_eq_len {A} (x y a b : list A) : length x = length y -> x ++ a = y ++ b -> x = y /\ a = b.
Proof.
  revert y; induction x as [|h x IH]; destruct y as [|k y]; cbn; intros Hl H; try discriminate; auto.
  inv H. destruct (IH y ltac:(lia) H2) as [-> ->]. auto.
Qed.

Lemma left_encode_prefix_free v w a b : left_encode v ++ a = left_encode w ++ b -> v = w /\ a = b.
Proof.
  unfold left_encode. cbn [app]. intros H. inv H.
  assert (Hl : length (be_digits v) = length (be_digits w)) by (unfold blen in H1; lia).
  destruct (app_eq_len _ _ _ _ Hl H2) as [Hd ->]. split; auto. now apply be_digits_inj.
Qed.

Lemma encode_string_prefix_free x y a b : encode_string x ++ a = encode_string y ++ b -> x = y /\ a = b.
Proof.
  unfold encode_string. rewrite <- !app_assoc. intros H.
  apply left_encode_prefix_free in H. destruct H as [Hl H].
  apply app_eq_len in H; [auto|]. unfold blen in Hl. lia.
Qed.

Lemma encode_string_nonempty x : encode_string x <> [].
Proof. unfold encode_string, left_encode. cbn. discriminate. Qed.

Lemma flat_encode_injective xs : forall ys,
  flat_map encode_string xs = flat_map encode_string ys -> xs = ys.
Proof.
  induction xs as [|x xs IH]; destruct ys as [|y ys]; cbn [flat_map]; intros H; auto.
  - symmetry in H. apply app_eq_nil in H. destruct H as [H _]. now apply encode_string_nonempty in H.
  - apply app_eq_nil in H. destruct H as [H _]. now apply encode_string_nonempty in H.
  - apply encode_string_prefix_free in H. destruct H as [-> H]. f_equal. auto.
Qed.

(** Prefix-freeness of whole sequences (used by the labeled KDF framings). *)
Lemma flat_encode_prefix_free xs : forall ys a b,
  length xs = length ys ->
  flat_map encode_string xs ++ a = flat_map encode_string ys ++ b -> xs = ys /\ a = b.
Proof.
  induction xs as [|x xs IH]; destruct ys as [|y ys]; cbn [flat_map length]; intros a b Hl H; try discriminate; auto.
  rewrite <- !app_assoc in H. apply encode_string_prefix_free in H. destruct H as [-> H].
  destruct (IH ys a b ltac:(lia) H) as [-> ->]. auto.
Qed.

(** C34/C36/C37/C38, bytes level: the TupleHash input determines the tuple. *)
Definition tuple_input_injective_stmt : Prop :=
  forall xs ys : list bytes, tuple_input xs = tuple_input ys -> xs = ys.
Lemma tuple_input_injective_proof : tuple_input_injective_stmt.
Proof.
  intros xs ys H. unfold tuple_input in H. apply app_inv_tail in H. now apply flat_encode_injective.
Qed.

(** [CS::tuple_hash]: tag and context are determined (for one suite). *)
Lemma cs_tuple_input_injective oids tag tag' ctx ctx' :
  cs_tuple_input oids tag ctx = cs_tuple_input oids tag' ctx' -> tag = tag' /\ ctx = ctx'.
Proof.
  unfold cs_tuple_input. intros H. apply tuple_input_injective_proof in H. inv H.
  apply app_inv_head in H2. auto.
Qed.
(** ... and different suites never collide either. *)
Lemma cs_tuple_input_injective_suites oids oids' tag tag' ctx ctx' :
  length oids = length oids' ->
  cs_tuple_input oids tag ctx = cs_tuple_input oids' tag' ctx' -> oids = oids' /\ tag = tag' /\ ctx = ctx'.
Proof.
  unfold cs_tuple_input. intros Hl H. apply tuple_input_injective_proof in H. inv H.
  apply app_eq_len in H2; tauto.
Qed.

Lemma id_input_injective oids tag tag' data data' :
  id_input oids tag data = id_input oids tag' data' -> tag = tag' /\ data = data'.
Proof.
  unfold id_input. intros H. apply cs_tuple_input_injective in H. destruct H as [_ H].
  apply app_inj_tail in H. tauto.
Qed.

(** Fixed-layout struct framings: a concatenation of fields whose sizes are
    fixed by the types determines the fields. *)
Definition fixed_concat_injective_stmt : Prop :=
  forall xs ys : list bytes,
    Forall2 (fun x y => length x = length y) xs ys -> concat xs = concat ys -> xs = ys.
Lemma fixed_concat_injective_proof : fixed_concat_injective_stmt.
Proof.
  intros xs ys HF. induction HF as [|x y xs ys Hl HF IH]; cbn [concat]; intros H; auto.
  apply app_eq_len in H; auto. destruct H as [-> H]. f_equal. auto.
Qed.

(** Non-vacuity / sanity: the framing computes the expected SP 800-185 bytes. *)
Example tuple_input_example :
  tuple_input [[97; 98; 99]; []] = [1; 24; 97; 98; 99; 1; 0; 1; 0; 2]
  /\ tuple_input [[97; 98]; [99]] <> tuple_input [[97]; [98; 99]]
  /\ left_encode 65536 = [3; 1; 0; 0] /\ right_encode 0 = [0; 1].
Proof. repeat split; try reflexivity. vm_compute. discriminate. Qed.
