(** C16: what repeated sync sessions guarantee.

    - [needed_nonempty]: if some head of the responder's store is not an
      ancestor-or-equal of a command the requester advertised (and the
      responder holds), the session delivers at least one command;
    - [quiescence_complete]: a session that delivers nothing proves that the
      requester — who holds what it advertises and is causally closed — holds
      every command of the responder; both directions quiescent => equal sets;
    - [each_session_progress_refuted]: the literal clause "each session
      delivers at least one MISSING command while any are missing" is false of
      the faithful model (finding F11): witness by [vm_compute]. *)
From Aranya Require Import base.Tactics gen.GenQueue gen.GenSync model.Dag model.TravQueue model.Wire model.SyncStore model.SyncResp model.SyncReq
  proofs.TravQueueVec proofs.TravQueueMoves proofs.TravQueueSpec proofs.TravQueueProofs
  proofs.SyncStoreProofs proofs.SyncQueueFacts proofs.SyncRespProofs proofs.SyncSessionProofs proofs.SyncC17
  proofs.SyncCoverProofs proofs.SyncWfCheck.
Local Open Scope N_scope.

(** * needed_nonempty *)
Definition needed_nonempty_stmt : Prop :=
  forall (dbg : bool) (st : store) (cmds : list addr) (ts : list loc),
  wf_store st -> find_needed_segments dbg st cmds = ROk ts ->
  (exists i h, In (i, h) (st_heads st) /\ ~ covered_by st cmds h) ->
  ts <> [] /\ plan st ts <> [].

Lemma needed_nonempty_proof : needed_nonempty_stmt.
Proof.
  intros dbg st cmds ts W E Hh. pose proof (needed_nonempty0 dbg st W cmds ts E Hh) as Hne. split; auto.
  destruct ts as [|l ts]; [congruence|].
  (* every returned location is valid, hence stands for at least one command *)
  assert (Hlen : (length cmds <= N.to_nat COMMAND_SAMPLE_MAX)%nat).
  { unfold find_needed_segments in E. destruct (Nat.ltb_spec (N.to_nat COMMAND_SAMPLE_MAX) (length cmds)); [destruct dbg; discriminate|auto]. }
  destruct (find_needed_ok dbg st cmds W Hlen) as (ts' & E' & Hc & _). rewrite E in E'. inv E'.
  inv Hc. destruct H1 as [Hv _]. rewrite plan_cons. pose proof (entry_cmds_valid st l W Hv).
  destruct (entry_cmds st l); [congruence|discriminate].
Qed.

(** * quiescence_complete *)
Definition id_at (st : store) (l : loc) : option N := option_map c_id (cmd_at st l).

Lemma valid_id_at st l : wf_store st -> valid_loc st l -> exists x, id_at st l = Some x.
Proof.
  intros W (s & Hf & Hr). unfold id_at, cmd_at. rewrite Hf. pose proof Hf as Hf'. apply find_seg_some in Hf' as [Hin Hi].
  unfold get_command. rewrite Hi, N.eqb_refl. pose proof (seg_len_pos _ _ W Hin).
  destruct (N.leb_spec (g_first s) (lmc l)); [|unfold in_range in Hr; lia].
  destruct (N.ltb_spec (lmc l - g_first s) (seg_len s)); [|unfold in_range, seg_longest in *; lia]. cbn [andb].
  destruct (nth_error (g_cmds s) (N.to_nat (lmc l - g_first s))) eqn:E; [cbn; eauto|].
  apply nth_error_None in E. unfold seg_len in *. lia.
Qed.

(** the requester's set is closed under the parent relation of the responder's store *)
Definition closed_under (st : store) (has : N -> bool) : Prop :=
  forall p l xp xl, loc_step st p l -> id_at st p = Some xp -> id_at st l = Some xl -> has xl = true -> has xp = true.

Lemma loc_step_valid st p l : wf_store st -> loc_step st p l -> valid_loc st p /\ valid_loc st l.
Proof.
  intros W H. destruct H.
  - auto.
  - pose proof H as Hf. apply find_seg_some in Hf as [Hin Hi]. destruct (wf_prior _ W s p Hin H1) as [Hvp _]. split; auto.
    exists s. split; auto. rewrite H0. pose proof (first_le_longest _ _ W Hin). unfold in_range. lia.
Qed.

Lemma closed_anc st has : wf_store st -> closed_under st has ->
  forall a b, loc_anc st a b -> valid_loc st b -> valid_loc st a /\ (forall xa xb, id_at st a = Some xa -> id_at st b = Some xb -> has xb = true -> has xa = true).
Proof.
  intros W Hc a b Ha. induction Ha as [a|a b c Hab IH Hbc]; intro Hv.
  - split; auto. intros xa xb E1 E2. rewrite E1 in E2. inv E2. auto.
  - destruct (loc_step_valid _ _ _ W Hbc) as [Hvb _]. destruct (IH Hvb) as [Hva Hi]. split; auto.
    intros xa xc Ea Ec Hh. destruct (valid_id_at st b W Hvb) as [xb Eb]. eapply Hi; eauto.
Qed.

Lemma get_location_in_cmd segs a l : get_location_in segs a = Some l ->
  exists s c, In s segs /\ l = L (amc a) (g_idx s) /\ g_first s <= amc a /\ amc a - g_first s < seg_len s /\
              nth_error (g_cmds s) (N.to_nat (amc a - g_first s)) = Some c /\ c_id c = aid a.
Proof.
  induction segs as [|s r IH]; cbn; [discriminate|]. destruct (seg_find_addr s a) eqn:E.
  - intro H; inv H. unfold seg_find_addr in E. destruct (N.leb_spec (g_first s) (amc a)); [|discriminate].
    destruct (N.ltb_spec (amc a - g_first s) (seg_len s)); [|discriminate]. cbn [andb] in E.
    destruct (nth_error _ _) as [c|] eqn:En; [|discriminate]. destruct (N.eqb_spec (c_id c) (aid a)); [|discriminate]. inv E.
    exists s, c. repeat split; auto.
  - intro H. destruct (IH H) as (s' & c & Hin & R). exists s', c. split; [now right|exact R].
Qed.

Lemma get_location_id st a l : wf_store st -> get_location st a = Some l -> id_at st l = Some (aid a).
Proof.
  intros W H. apply get_location_in_cmd in H as (s & c & Hin & -> & H1 & H2 & H3 & H4).
  unfold id_at, cmd_at. cbn [lseg]. rewrite (wf_idx_unique _ W s Hin). unfold get_command. cbn [lseg lmc].
  rewrite N.eqb_refl. destruct (N.leb_spec (g_first s) (amc a)); [|lia]. destruct (N.ltb_spec (amc a - g_first s) (seg_len s)); [|lia].
  cbn [andb]. rewrite H3. cbn. now rewrite H4.
Qed.

Lemma store_id_loc st x : In x (store_ids st) -> wf_store st -> exists l, valid_loc st l /\ id_at st l = Some x.
Proof.
  intros H W. unfold store_ids in H. apply in_flat_map in H as (s & Hin & Hx). apply in_map_iff in Hx as (c & <- & Hc).
  apply In_nth_error in Hc as [k Hk]. pose proof (nth_error_Some_lt _ _ _ Hk) as Hlt.
  exists (L (g_first s + N.of_nat k) (g_idx s)). split.
  - apply valid_in_seg; auto. unfold in_range, seg_longest, seg_len. lia.
  - unfold id_at, cmd_at. cbn [lseg]. rewrite (wf_idx_unique _ W s Hin). unfold get_command. cbn [lseg lmc].
    rewrite N.eqb_refl. destruct (N.leb_spec (g_first s) (g_first s + N.of_nat k)); [|lia].
    destruct (N.ltb_spec (g_first s + N.of_nat k - g_first s) (seg_len s)); [|unfold seg_len in *; lia]. cbn [andb].
    replace (N.to_nat (g_first s + N.of_nat k - g_first s)) with k by lia. rewrite Hk. reflexivity.
Qed.

Definition quiescence_complete_stmt : Prop :=
  forall (dbg : bool) (st : store) (cmds : list addr) (has : N -> bool),
  wf_store st ->
  (* the session delivers nothing *)
  find_needed_segments dbg st cmds = ROk [] ->
  (* the requester holds every command it advertised (that the responder knows) and its set is causally closed *)
  (forall a l, In a cmds -> get_location st a = Some l -> has (aid a) = true) ->
  closed_under st has ->
  forallb has (store_ids st) = true.

Lemma quiescence_complete_proof : quiescence_complete_stmt.
Proof.
  intros dbg st cmds has W E Hadv Hcl. apply forallb_forall. intros x Hx.
  destruct (has x) eqn:Ex; auto. exfalso.
  destruct (store_id_loc st x Hx W) as (l & Hvl & Hid).
  destruct (valid_committed st l W Hvl) as (i & h & Hh & Ha).
  assert (Hn : ~ covered_by st cmds h).
  { intros (a & la & Hina & Hl & Hanc).
    assert (Hvla : valid_loc st la) by (eapply get_location_valid; eauto).
    destruct (closed_anc st has W Hcl l la (loc_anc_trans _ _ _ _ Ha Hanc) Hvla) as [_ Hi].
    rewrite (Hi x (aid a) Hid (get_location_id st a la W Hl) (Hadv a la Hina Hl)) in Ex. discriminate. }
  pose proof (needed_nonempty0 dbg st W cmds [] E (ex_intro _ i (ex_intro _ h (conj Hh Hn)))). congruence.
Qed.

(** both directions quiescent: the two stores hold the same commands *)
Definition bidirectional_quiescence_stmt : Prop :=
  forall (dbg : bool) (sa sb : store) (ca cb : list addr),
  wf_store sa -> wf_store sb ->
  let in_a := fun x => existsb (N.eqb x) (store_ids sa) in
  let in_b := fun x => existsb (N.eqb x) (store_ids sb) in
  (* A requested from B with sample ca and got nothing; B requested from A with sample cb and got nothing *)
  find_needed_segments dbg sb ca = ROk [] -> find_needed_segments dbg sa cb = ROk [] ->
  (forall a l, In a ca -> get_location sb a = Some l -> in_a (aid a) = true) ->
  (forall a l, In a cb -> get_location sa a = Some l -> in_b (aid a) = true) ->
  closed_under sb in_a -> closed_under sa in_b ->
  forall x, In x (store_ids sa) <-> In x (store_ids sb).

Lemma existsb_eqb_in x l : existsb (N.eqb x) l = true <-> In x l.
Proof.
  rewrite existsb_exists. split.
  - intros (y & Hy & E). apply N.eqb_eq in E. now subst.
  - intro H. exists x. split; auto. apply N.eqb_refl.
Qed.

Lemma bidirectional_quiescence_proof : bidirectional_quiescence_stmt.
Proof.
  intros dbg sa sb ca cb Wa Wb in_a in_b E1 E2 H1 H2 C1 C2 x.
  pose proof (quiescence_complete_proof dbg sb ca in_a Wb E1 H1 C1) as Hb.
  pose proof (quiescence_complete_proof dbg sa cb in_b Wa E2 H2 C2) as Ha.
  rewrite forallb_forall in Ha, Hb. split; intro Hx.
  - apply existsb_eqb_in. now apply Ha.
  - apply existsb_eqb_in. now apply Hb.
Qed.

(** * The literal per-session progress clause is false: finding F11 *)
From Aranya Require Import model.SyncAnc.

(** "each session delivers at least one missing command while any are missing",
    for a requester with an empty peer cache and no open transaction *)
Definition each_session_progress_full_stmt : Prop :=
  forall (dbg : bool) (sa sb : store) (smp : list addr) (ts : list loc),
  wf_store sa -> wf_store sb ->
  sample is_ancestor sa [] [] = ROk smp ->
  find_needed_segments dbg sb smp = ROk ts ->
  (exists x, In x (store_ids sb) /\ ~ In x (store_ids sa)) ->
  exists y, In y (map c_id (plan sb ts)) /\ ~ In y (store_ids sa).

Definition w_cmd (i : N) (par : prior3 addr) : scmd := {| c_id := i; c_prio := PBasic 0; c_par := par; c_plen := None; c_dlen := 49 |}.
(** a single-command segment: index [i], command [id] at max cut [mc], parent (pid, mc-1) in segment [i-1] *)
Definition w_seg (i id mc pid : N) : seg :=
  {| g_idx := i; g_first := mc; g_cmds := [w_cmd id (if mc =? 0 then P0 else P1 (A pid (mc - 1)))];
     g_prior := if mc =? 0 then P0 else P1 (L (mc - 1) (i - 1)); g_skip := [] |}.

(** responder B: the common chain as 121 one-command segments (ids 1..121, max cuts 0..120), then its own command 5000 *)
Definition w_b : store :=
  {| st_segs := map (fun k => let n := N.of_nat k in w_seg (n + 1) (n + 1) n n) (seq 0 121) ++ [w_seg 122 5000 121 121];
     st_heads := [(5000, L 121 122)] |}.

(** requester A: the same chain received by sync (init segment + one 120-command segment), then 150 own one-command segments *)
Definition w_a : store :=
  {| st_segs :=
       [ {| g_idx := 1; g_first := 0; g_cmds := [w_cmd 1 P0]; g_prior := P0; g_skip := [] |};
         {| g_idx := 2; g_first := 1; g_cmds := map (fun k => let n := N.of_nat k in w_cmd (n + 2) (P1 (A (n + 1) n))) (seq 0 120);
            g_prior := P1 (L 0 1); g_skip := [] |} ]
       ++ map (fun k => let n := N.of_nat k in
                        {| g_idx := n + 3; g_first := n + 121;
                           g_cmds := [w_cmd (6001 + n) (P1 (A (if n =? 0 then 121 else 6000 + n) (n + 120)))];
                           g_prior := P1 (L (n + 120) (n + 2)); g_skip := [] |}) (seq 0 150);
     st_heads := [(6150, L 270 152)] |}.

Definition each_session_progress_refuted_stmt : Prop :=
  exists (sa sb : store) (smp : list addr) (ts : list loc),
    wf_store sa /\ wf_store sb /\
    sample is_ancestor sa [] [] = ROk smp /\ length smp = 100%nat /\
    find_needed_segments true sb smp = ROk ts /\ length ts = 100%nat /\
    (* B has a command A lacks … *)
    (In 5000 (store_ids sb) /\ ~ In 5000 (store_ids sa)) /\
    (* … but every one of the 100 commands the session delivers is already held by A *)
    length (plan sb ts) = 100%nat /\
    forallb (fun y => existsb (N.eqb y) (store_ids sa)) (map c_id (plan sb ts)) = true.

Lemma each_session_progress_refuted_proof : each_session_progress_refuted_stmt.
Proof.
  assert (Ea : exists smp, sample is_ancestor w_a [] [] = ROk smp) by (vm_compute; eauto).
  destruct Ea as [smp Ea].
  assert (Eb : exists ts, find_needed_segments true w_b smp = ROk ts).
  { vm_compute in Ea. inv Ea. vm_compute. eauto. }
  destruct Eb as [ts Eb].
  exists w_a, w_b, smp, ts.
  split; [apply wf_storeb_sound; vm_compute; reflexivity|].
  split; [apply wf_storeb_sound; vm_compute; reflexivity|].
  split; [exact Ea|]. vm_compute in Ea. inv Ea. split; [reflexivity|]. split; [exact Eb|].
  vm_compute in Eb. inv Eb. split; [reflexivity|]. split.
  - split; [apply existsb_eqb_in; vm_compute; reflexivity|].
    intro H. apply existsb_eqb_in in H. vm_compute in H. discriminate.
  - split; vm_compute; reflexivity.
Qed.

Lemma each_session_progress_full_false : ~ each_session_progress_full_stmt.
Proof.
  intro H. destruct each_session_progress_refuted_proof as (sa & sb & smp & ts & Wa & Wb & Es & _ & Et & _ & [Hin Hnin] & _ & Hall).
  destruct (H true sa sb smp ts Wa Wb Es Et (ex_intro _ 5000 (conj Hin Hnin))) as (y & Hy & Hn).
  rewrite forallb_forall in Hall. specialize (Hall y Hy). apply existsb_eqb_in in Hall. contradiction.
Qed.

(** * The measure behind "eventually everything"

    Abstractly: the responder's store is fixed; session [i] uses sample [S i];
    [C i] lists the locations of the store covered by [S i].  If coverage only
    grows (the requester keeps what it has; [update_heads] feeds the received
    addresses into the peer cache, whose heads lead the next sample) and every
    non-empty session delivers some location not yet covered which the next
    sample covers (frontier progress — true of F11-class sessions, which
    deliver old but un-advertised commands), then at most [length all_locs]
    sessions are non-empty; the next one is quiescent, and by
    [quiescence_complete] the requester then holds everything. *)
Section Measure.
Variable locs : list loc.                 (* all locations of the responder's store *)
Variable C : nat -> list loc.             (* covered locations before session i *)
Variable nonempty : nat -> Prop.          (* session i delivered something *)
Hypothesis C_sub : forall i, incl (C i) locs.
Hypothesis C_nodup : forall i, NoDup (C i).
Hypothesis C_mono : forall i, incl (C i) (C (S i)).
Hypothesis progress : forall i, nonempty i -> exists l, In l locs /\ ~ In l (C i) /\ In l (C (S i)).
Hypothesis nonempty_dec : forall i, nonempty i \/ ~ nonempty i.

Lemma covered_grows i : nonempty i -> (length (C i) < length (C (S i)))%nat.
Proof.
  intro Hn. destruct (progress i Hn) as (l & _ & Hnot & Hin).
  assert (Hincl : incl (l :: C i) (C (S i))).
  { intros x [->|Hx]; auto. now apply C_mono. }
  assert (Hnd : NoDup (l :: C i)) by (constructor; auto).
  pose proof (NoDup_incl_length Hnd Hincl). cbn in H. lia.
Qed.

Lemma all_nonempty_bound : forall n, (forall i, (i < n)%nat -> nonempty i) -> (n <= length (C n))%nat.
Proof.
  induction n as [|n IH]; intro H; [lia|].
  assert (n <= length (C n))%nat by (apply IH; intros; apply H; lia).
  pose proof (covered_grows n (H n ltac:(lia))). lia.
Qed.

Theorem sessions_bounded : exists i, (i <= length locs)%nat /\ ~ nonempty i.
Proof.
  assert (Hb : forall n, (exists i, (i < n)%nat /\ ~ nonempty i) \/ (forall i, (i < n)%nat -> nonempty i)).
  { induction n as [|n IH]; [right; intros; lia|].
    destruct IH as [(i & Hi & Hn)|Hall]; [left; exists i; split; auto|].
    destruct (nonempty_dec n) as [Hn|Hn]; [right|left; exists n; split; auto].
    intros i Hi. destruct (Nat.eq_dec i n) as [->|]; auto. apply Hall. lia. }
  destruct (Hb (S (length locs))) as [(i & Hi & Hn)|Hall]; [exists i; split; auto; lia|].
  exfalso. pose proof (all_nonempty_bound (S (length locs)) Hall) as H1.
  pose proof (NoDup_incl_length (C_nodup (S (length locs))) (C_sub (S (length locs)))). lia.
Qed.
End Measure.
