(** Multiset counting, arrival counts and the convergence map as a pure map. *)
From Aranya Require Import base.Tactics model.Dag model.Braid proofs.BraidDag.

Lemma countN_app x l1 l2 : countN x (l1 ++ l2) = (countN x l1 + countN x l2)%N.
Proof. induction l1 as [|y l1 IH]; cbn [countN app]; [lia|]. destruct (y =? x)%N; lia. Qed.

Lemma countN_pos x l : (0 < countN x l)%N <-> In x l.
Proof.
  induction l as [|y l IH]; cbn [countN In]; [split; [lia|tauto]|].
  destruct (y =? x)%N eqn:E.
  - apply N.eqb_eq in E. split; [auto|lia].
  - apply N.eqb_neq in E. rewrite IH. split; [auto|intros [H|H]; [congruence|auto]].
Qed.

Lemma countN_zero x l : countN x l = 0%N <-> ~ In x l.
Proof. rewrite <- countN_pos. lia. Qed.

Section Contrib.
  Variable g : graph.
  Hypothesis Hwf : wf_graph g.

  (** How often [x] is named as a parent by the commands selected by [f]. *)
  Definition contrib_in (l : graph) (f : cmd -> bool) (x : N) : N := countN x (flat_map parents (filter f l)).
  Definition contrib := contrib_in g.

  Lemma contrib_in_pos l f x : (0 < contrib_in l f x)%N <-> exists c, In c l /\ f c = true /\ In x (parents c).
  Proof.
    unfold contrib_in. rewrite countN_pos, in_flat_map. split.
    - intros [c [Hc Hx]]. apply filter_In in Hc. exists c. tauto.
    - intros [c [H1 [H2 H3]]]. exists c. split; auto. apply filter_In; auto.
  Qed.

  Lemma contrib_zero f x : contrib f x = 0%N <-> forall c, In c g -> f c = true -> ~ In x (parents c).
  Proof.
    split.
    - intros H c Hc Hf Hx. assert (0 < contrib f x)%N by (apply contrib_in_pos; eauto). lia.
    - intros H. destruct (N.eq_dec (contrib f x) 0) as [E|E]; auto.
      assert (Hp : (0 < contrib f x)%N) by lia. apply contrib_in_pos in Hp as [c [H1 [H2 H3]]]. exfalso. eapply H; eauto.
  Qed.

  Lemma contrib_in_ext l f f' x : (forall c, In c l -> f c = f' c) -> contrib_in l f x = contrib_in l f' x.
  Proof.
    intros H. unfold contrib_in. f_equal. f_equal. apply filter_ext_in. auto.
  Qed.

  Lemma contrib_in_le l f f' x : (forall c, In c l -> f c = true -> f' c = true) -> (contrib_in l f x <= contrib_in l f' x)%N.
  Proof.
    unfold contrib_in. induction l as [|c l IH]; intros H; cbn [filter flat_map]; [cbn; lia|].
    assert (IH' := IH (fun c Hc => H c (or_intror Hc))).
    destruct (f c) eqn:E.
    - rewrite (H c (or_introl eq_refl) E). cbn [flat_map]. rewrite !countN_app. lia.
    - destruct (f' c); cbn [flat_map]; rewrite ?countN_app; lia.
  Qed.

  (** Taking one selected command out. *)
  Lemma contrib_in_split l f cm x : NoDup (ids l) -> In cm l -> f cm = true ->
    contrib_in l f x = (countN x (parents cm) + contrib_in l (fun c => f c && negb (cid c =? cid cm)%N) x)%N.
  Proof.
    unfold contrib_in. induction l as [|c l IH]; intros Hnd Hin Hf; [destruct Hin|].
    cbn [ids map] in Hnd. inv Hnd. cbn [filter]. destruct Hin as [->|Hin].
    - rewrite Hf, N.eqb_refl. cbn [andb negb flat_map]. rewrite countN_app. f_equal.
      f_equal. f_equal. apply filter_ext_in. intros c Hc.
      destruct (cid c =? cid cm)%N eqn:E; [|rewrite andb_true_r; auto].
      apply N.eqb_eq in E. exfalso. apply H1. rewrite <- E. apply in_map; auto.
    - assert (Hne : (cid c =? cid cm)%N = false).
      { apply N.eqb_neq. intros E. apply H1. rewrite E. apply in_map; auto. }
      rewrite Hne, andb_true_r. destruct (f c); cbn [flat_map]; rewrite ?countN_app, IH by auto; lia.
  Qed.
End Contrib.

(** * The convergence map as a function *)

Fixpoint clook (m : list (N * N)) (x : N) : option N :=
  match m with
  | [] => None
  | (y, n) :: r => if (y =? x)%N then Some n else clook r x
  end.

Lemma clook_in m x n : clook m x = Some n -> In x (map fst m).
Proof.
  induction m as [|[y k] r IH]; cbn; [discriminate|].
  destruct (y =? x)%N eqn:E; [apply N.eqb_eq in E; auto|auto].
Qed.

Lemma clook_none m x : ~ In x (map fst m) -> clook m x = None.
Proof. intros H. destruct (clook m x) eqn:E; auto. apply clook_in in E. tauto. Qed.

Lemma clook_of_in m x : In x (map fst m) -> exists n, clook m x = Some n.
Proof.
  induction m as [|[y k] r IH]; cbn [map fst In clook]; [tauto|].
  destruct (y =? x)%N eqn:E; [eauto|]. apply N.eqb_neq in E. intros [H|H]; [congruence|auto].
Qed.

Lemma conv_query_spec m x : NoDup (map fst m) ->
  let '(m', go) := conv_query m x in
  NoDup (map fst m') /\ (forall y, y <> x -> clook m' y = clook m y) /\
  match clook m x with
  | Some n => if (1 <? n)%N then go = false /\ clook m' x = Some (n - 1)%N else go = true /\ clook m' x = None
  | None => go = true /\ clook m' x = None
  end.
Proof.
  induction m as [|[y k] r IH]; intros Hnd; cbn [conv_query clook].
  - repeat split; auto.
  - cbn [map fst] in Hnd. inv Hnd. destruct (y =? x)%N eqn:E.
    + apply N.eqb_eq in E. subst y. destruct (1 <? k)%N eqn:Ek.
      * cbn [map fst clook]. rewrite N.eqb_refl. repeat split; auto.
        -- constructor; auto.
        -- intros z Hz. apply N.eqb_neq in Hz. rewrite N.eqb_sym in Hz. rewrite Hz. auto.
      * repeat split; auto.
        -- intros z Hz. cbn [clook]. apply N.eqb_neq in Hz. rewrite N.eqb_sym in Hz. rewrite Hz. auto.
        -- apply clook_none; auto.
    + specialize (IH H2). destruct (conv_query r x) as [r' b]. destruct IH as [I1 [I2 I3]].
      cbn [map fst clook]. rewrite E. repeat split; auto.
      * constructor; auto. intros Hin.
        (* keys of r' are keys of r *)
        apply H1. destruct (clook_of_in _ _ Hin) as [n Ey].
        rewrite I2 in Ey by (apply N.eqb_neq in E; auto). eapply clook_in; eauto.
      * intros z Hz. destruct (y =? z)%N; auto.
Qed.

Lemma clook_init (P : N * N -> bool) (F : N -> N) l x : NoDup l ->
  clook (filter P (map (fun y => (y, F y)) l)) x = if in_dec N.eq_dec x l then (if P (x, F x) then Some (F x) else None) else None.
Proof.
  induction l as [|y l IH]; intros Hnd; cbn [map filter]; [destruct (in_dec N.eq_dec x []) as [[]|]; reflexivity|].
  inv Hnd. specialize (IH H2).
  destruct (in_dec N.eq_dec x (y :: l)) as [Hin|Hin].
  - destruct (N.eq_dec y x) as [->|Hne].
    + destruct (P (x, F x)) eqn:Ep.
      * cbn [clook]. rewrite N.eqb_refl. auto.
      * rewrite IH. destruct (in_dec N.eq_dec x l); [tauto|auto].
    + destruct Hin as [?|Hin]; [congruence|].
      destruct (in_dec N.eq_dec x l); [|tauto].
      destruct (P (y, F y)); cbn [clook]; rewrite ?IH; auto.
      apply N.eqb_neq in Hne. rewrite Hne. auto.
  - assert (y <> x) by (intros ->; apply Hin; cbn; auto).
    assert (~ In x l) by (intros Hx; apply Hin; cbn; auto).
    destruct (in_dec N.eq_dec x l); [tauto|].
    destruct (P (y, F y)); cbn [clook]; auto.
    apply N.eqb_neq in H. rewrite H. auto.
Qed.

Lemma filter_map_keys_nodup (P : N * N -> bool) (F : N -> N) l : NoDup l ->
  NoDup (map fst (filter P (map (fun y => (y, F y)) l))).
Proof.
  induction l as [|y l IH]; intros Hnd; cbn [map filter]; [constructor|].
  inv Hnd. destruct (P (y, F y)); auto. cbn [map fst]. constructor; auto.
  intros Hin. apply H1. apply in_map_iff in Hin as [[a b] [E Hab]]. cbn in E. subst a.
  apply filter_In in Hab as [Hab _]. apply in_map_iff in Hab as [z [Ez Hz]]. inv Ez. auto.
Qed.
