(** Writing fact indexes: compaction keeps the denotation; [write_facts_with_prior]
    produces an index denoting the perspective, keeps the store well formed and
    depth-bounded, and returns a prior-fact offset denoting the perspective's prior. *)
From Aranya Require Import base.Tactics base.ListLex base.SortedAssoc model.Facts
     proofs.FactsMaps proofs.FactsIndex.

(** ** Map helpers *)

Lemma sget_map_vals {K V W} (cmp : K -> K -> comparison) (g : V -> W) k (m : list (K * V)) :
  sget cmp k (map (fun e => (fst e, g (snd e))) m) = option_map g (sget cmp k m).
Proof.
  induction m as [|[k' v] r IH]; cbn; auto. destruct (cmp k k'); auto.
Qed.

Lemma sorted_map_vals {K V W} (cmp : K -> K -> comparison) (g : V -> W) (m : list (K * V)) :
  sorted cmp m -> sorted cmp (map (fun e => (fst e, g (snd e))) m).
Proof.
  induction m as [|e r IH]; intros S; cbn; [constructor|].
  apply sorted_inv in S as [Sr Hall]. apply sorted_cons; auto.
  rewrite Forall_forall in *. intros x Hx. apply in_map_iff in Hx as [y [<- Hy]].
  apply Hall in Hy. exact Hy.
Qed.

Lemma nm_or_insert_spec facts : nm_ok facts -> forall acc, nm_ok acc ->
  nm_ok (nm_or_insert acc facts) /\
  forall n k, nm_get (nm_or_insert acc facts) n k =
              match nm_get acc n k with Some x => Some x | None => nm_get facts n k end.
Proof.
  unfold nm_or_insert.
  induction facts as [|[n1 fm1] rest IH]; intros Hf acc Ha; cbn [fold_left].
  - split; auto. intros n k. destruct (nm_get acc n k); auto.
  - destruct Hf as [Sf Ff]. apply sorted_inv in Sf as [Sr Hall]. inversion Ff as [|? ? Hfm1 Ffr]; subst.
    cbn [fst snd] in *.
    set (a := match sget bcmp n1 acc with Some fm => fm | None => [] end).
    assert (Hsa : fm_ok a) by (apply inner_or_nil_ok; auto).
    assert (Ha1 : nm_ok (sput bcmp n1 (merge_keep a fm1) acc)).
    { apply nm_ok_sput; auto. apply merge_keep_sorted; auto. }
    destruct (IH (conj Sr Ffr) _ Ha1) as [Hok Hget]. split; auto.
    intros n k. rewrite Hget. unfold nm_get at 1.
    rewrite (sget_sput bcmp BL). unfold nm_get at 3. cbn [sget].
    unfold cmp_eqb. destruct (bcmp n n1) eqn:Ec.
    + apply (cmp_eq _ BL) in Ec; subst n1.
      rewrite merge_keep_get.
      assert (Hra : sget kcmp k a = nm_get acc n k).
      { unfold a, nm_get. destruct (sget bcmp n acc); auto. }
      rewrite Hra. destruct (nm_get acc n k); auto.
      destruct (sget kcmp k fm1); auto.
      unfold nm_get. rewrite (lb_sget_none bcmp); auto.
    + reflexivity.
    + reflexivity.
Qed.

Lemma nm_get_map_vals (g : fmap -> fmap) (m : nmap) n k :
  nm_get (map (fun e => (fst e, g (snd e))) m) n k =
  match sget bcmp n m with Some fm => sget kcmp k (g fm) | None => None end.
Proof. unfold nm_get. rewrite (sget_map_vals bcmp g). destruct (sget bcmp n m); auto. Qed.

Lemma drop_tombstones_spec m : nm_ok m ->
  nm_ok (drop_tombstones m) /\
  forall n k, nm_get (drop_tombstones m) n k =
              match nm_get m n k with Some (Some v) => Some (Some v) | _ => None end.
Proof.
  intros [S F]. unfold drop_tombstones.
  set (m' := map (fun e => (fst e, filter (fun kv : keys * val => is_some (snd kv)) (snd e))) m).
  assert (Hm' : nm_ok m').
  { split.
    - apply (sorted_map_vals bcmp (filter (fun kv : keys * val => is_some (snd kv)))); auto.
    - unfold m'. rewrite Forall_forall in *. intros x Hx. apply in_map_iff in Hx as [y [<- Hy]].
      cbn. apply sorted_filter. apply (F y); auto. }
  split; [apply nm_ok_retain; auto|].
  intros n k. rewrite nm_get_retain; auto.
  unfold m'. rewrite (nm_get_map_vals (filter (fun kv : keys * val => is_some (snd kv)))).
  unfold nm_get.
  destruct (sget bcmp n m) as [fm|] eqn:E; auto.
  assert (fm_ok fm) by (apply (nm_ok_inner m n fm (conj S F) E)).
  rewrite (sget_filter kcmp KL); auto.
  destruct (sget kcmp k fm) as [[v|]|]; auto.
Qed.

Section WithDepth.
  Variable maxd : N.
  Hypothesis maxd_ge2 : (2 <= maxd)%N.

  Notation wf_store := (wf_store maxd).
  Notation wf_index := (wf_index maxd).

  (** ** Appending keeps the store well formed *)

  Lemma wf_index_app st ext off fi : wf_index st off fi -> wf_index (st ++ ext) off fi.
  Proof.
    intros (Ho & Hok & Hd & Hp). unfold wf_index. split; [auto|]. split; [auto|]. split; [auto|].
    destruct (fi_prior fi); auto. destruct Hp as [Hl (fp & Hfp & Hdp)].
    split; auto. exists fp; split; auto using fetch_facts_app.
  Qed.

  Lemma wf_store_app_facts st fi : wf_store st -> wf_index st (length st) fi ->
    wf_store (st ++ [IFacts fi]).
  Proof.
    intros W Hn off fi' H.
    destruct (Nat.lt_ge_cases off (length st)) as [Hlt|Hge].
    - rewrite nth_error_app1 in H; auto. apply wf_index_app. apply W; auto.
    - rewrite nth_error_app2 in H; auto.
      destruct (off - length st)%nat as [|d] eqn:Ed; cbn in H.
      + inv H. assert (off = length st) by lia. subst off. apply wf_index_app; auto.
      + destruct d; discriminate.
  Qed.

  Lemma wf_store_app_seg st sg : wf_store st -> wf_store (st ++ [ISeg sg]).
  Proof.
    intros W off fi' H.
    destruct (Nat.lt_ge_cases off (length st)) as [Hlt|Hge].
    - rewrite nth_error_app1 in H; auto. apply wf_index_app. apply W; auto.
    - rewrite nth_error_app2 in H; auto.
      destruct (off - length st)%nat as [|d] eqn:Ed; cbn in H; [discriminate|].
      destruct d; discriminate.
  Qed.

  (** ** Compaction *)

  Lemma compact_go_chain st off ls : chain st off ls -> Forall nm_ok ls ->
    forall repr fuel acc, fetch_facts st off = Some repr -> (length ls <= fuel)%nat -> nm_ok acc ->
    exists map, compact_go st fuel repr acc = Ok map /\ nm_ok map /\
      forall n k, nm_get map n k =
                  match nm_get acc n k with Some x => Some x | None => layers_raw ls n k end.
  Proof.
    induction 1 as [off fi Hf Hp|off fi p ls Hf Hp Hc IH]; intros Hall repr fuel acc Hr Hfu Ha;
      (destruct fuel as [|fuel]; [cbn in Hfu; lia|]); cbn [compact_go];
      assert (repr = fi) by congruence; subst repr; rewrite Hp;
      inversion Hall as [|? ? Hok Hall']; subst;
      destruct (nm_or_insert_spec (fi_facts fi) Hok acc Ha) as [Ha' Hg'].
    - eexists; split; [reflexivity|]. split; auto. intros n k. rewrite Hg'. cbn [layers_raw].
      destruct (nm_get acc n k); auto. destruct (nm_get (fi_facts fi) n k); auto.
    - destruct (chain_fetch _ _ _ Hc) as [r Hfr]. rewrite Hfr.
      destruct (IH Hall' r fuel (nm_or_insert acc (fi_facts fi))) as (map & Hm & Hokm & Hget); auto;
        [cbn in Hfu; lia|].
      exists map. split; auto. split; auto. intros n k. rewrite Hget, Hg'. cbn [layers_raw].
      destruct (nm_get acc n k); auto.
  Qed.

  Lemma layer_alone m : layers_flat [m] ≡ over m fempty.
  Proof. eapply feq_trans; [apply layers_flat_cons|]. apply over_feq, layers_flat_nil. Qed.

  Lemma compact_spec st off repr f : wf_store st -> fetch_facts st off = Some repr -> iden st off f ->
    exists fi, compact maxd st repr = Ok (st ++ [IFacts fi], fi) /\
      wf_store (st ++ [IFacts fi]) /\ fi_offset fi = next_offset st /\ fi_depth fi = 1%N /\
      iden (st ++ [IFacts fi]) (fi_offset fi) f.
  Proof.
    intros W Hf (ls & Hc & Hfl). unfold compact.
    destruct (chain_wf maxd _ _ _ W Hc) as (Hall & Hlen & _).
    destruct (compact_go_chain st off ls Hc Hall repr (length st) []) as (map & Hm & Hokm & Hget);
      auto using nm_ok_nil.
    rewrite Hm. destruct (maxd <? 1)%N eqn:E; [lia|].
    unfold append_facts. eexists; split; [reflexivity|].
    destruct (drop_tombstones_spec map Hokm) as [Hokd Hgd].
    set (fi := {| fi_offset := next_offset st; fi_prior := None; fi_depth := 1;
                  fi_facts := drop_tombstones map |}).
    assert (Wn : wf_store (st ++ [IFacts fi])).
    { apply wf_store_app_facts; auto. unfold wf_index, fi, next_offset; cbn.
      split; [reflexivity|]. split; [exact Hokd|]. split; [lia|]. reflexivity. }
    split; [exact Wn|]. split; [reflexivity|]. split; [reflexivity|].
    exists [drop_tombstones map]. split.
    - apply (chain_base _ _ fi); [apply fetch_facts_last|reflexivity].
    - eapply feq_trans; [apply layer_alone|]. intros n k. unfold over, fempty.
      rewrite Hgd, Hget, <- Hfl. unfold layers_flat. cbn.
      destruct (layers_raw ls n k) as [[v|]|]; auto.
  Qed.

  (** ** [finish_write] *)

  (** What an optional index offset denotes. *)
  Definition oden (st : store) (o : option N) (f : flat) : Prop :=
    match o with Some off => iden st off f | None => f ≡ fempty end.

  Lemma oden_app st ext o f : oden st o f -> oden (st ++ ext) o f.
  Proof. destruct o; cbn; auto using iden_app. Qed.

  Lemma oden_feq st o f g : f ≡ g -> oden st o f -> oden st o g.
  Proof.
    destruct o; cbn; intros H1 H2; [eapply iden_feq; eauto|].
    eapply feq_trans; [apply feq_sym|]; eauto.
  Qed.

  Record write_ok (st st' : store) (m : nmap) (g : flat) (fi : findex) (pf : option N) : Prop := {
    wo_ext : exists ext, st' = st ++ ext;
    wo_wf : wf_store st';
    wo_fetch : fetch_facts st' (fi_offset fi) = Some fi;
    wo_den : iden st' (fi_offset fi) (over m g);
    wo_prior : oden st' pf g;
  }.

  Lemma append_facts_spec st prior depth m g :
    wf_store st -> nm_ok m -> (1 <= depth <= maxd)%N ->
    match prior with
    | None => depth = 1%N /\ g ≡ fempty
    | Some p => iden st p g /\ exists fp, fetch_facts st p = Some fp /\ depth = (fi_depth fp + 1)%N
    end ->
    let '(st', fi) := append_facts st prior depth m in
    write_ok st st' m g fi prior.
  Proof.
    intros W Hok Hd Hp. unfold append_facts.
    set (fi := {| fi_offset := next_offset st; fi_prior := prior; fi_depth := depth; fi_facts := m |}).
    assert (Wn : wf_store (st ++ [IFacts fi])).
    { apply wf_store_app_facts; auto. unfold wf_index, fi, next_offset; cbn.
      split; [reflexivity|]. split; [exact Hok|]. split; [lia|].
      destruct prior as [p|]; [|tauto]. destruct Hp as [_ (fp & Hfp & Hdp)].
      split; [apply fetch_facts_lt in Hfp; auto|]. eauto. }
    constructor; auto.
    - eexists; reflexivity.
    - apply fetch_facts_last.
    - cbn [fi_offset fi]. destruct prior as [p|].
      + destruct Hp as [(ls & Hc & Hfl) _]. exists (m :: ls). split.
        * apply (chain_step _ _ fi p); [apply fetch_facts_last|reflexivity|apply chain_app; auto].
        * eapply feq_trans; [apply layers_flat_cons|]. apply over_feq; auto.
      + destruct Hp as [_ Hg]. exists [m]. split.
        * apply (chain_base _ _ fi); [apply fetch_facts_last|reflexivity].
        * eapply feq_trans; [apply layer_alone|]. apply over_feq, feq_sym; auto.
    - destruct prior as [p|]; cbn.
      + apply iden_app. tauto.
      + tauto.
  Qed.

  Lemma write_ok_trans st st1 st2 m g fi pf :
    (exists ext, st1 = st ++ ext) -> write_ok st1 st2 m g fi pf -> write_ok st st2 m g fi pf.
  Proof.
    intros [e1 ->] [[e2 ->] H2 H3 H4 H5]. constructor; auto.
    exists (e1 ++ e2). rewrite app_assoc; auto.
  Qed.

  Lemma finish_write_spec st prior m g :
    wf_store st -> nm_ok m ->
    match prior with
    | None => g ≡ fempty
    | Some p => fetch_facts st (fi_offset p) = Some p /\ iden st (fi_offset p) g
    end ->
    exists st' fi pf, finish_write maxd st prior m = Ok (st', fi, pf) /\ write_ok st st' m g fi pf.
  Proof.
    intros W Hok Hp. unfold finish_write.
    destruct prior as [p|].
    - destruct Hp as [Hfp Hg].
      destruct (wf_fetch maxd _ _ _ W Hfp) as (_ & _ & Hd & _).
      destruct (maxd - 1 <? fi_depth p)%N eqn:Ec.
      + (* compaction *)
        destruct (compact_spec st (fi_offset p) p g W Hfp Hg) as (fi1 & Hc & W1 & Ho1 & Hd1 & Hg1).
        rewrite Hc. rewrite Hd1.
        assert (E2 : (maxd <? 1 + 1)%N = false) by lia. rewrite E2. cbn [option_map].
        assert (Hf1 : fetch_facts (st ++ [IFacts fi1]) (fi_offset fi1) = Some fi1)
          by (rewrite Ho1; apply fetch_facts_last).
        pose proof (append_facts_spec (st ++ [IFacts fi1]) (Some (fi_offset fi1)) (1 + 1) m g W1 Hok) as Ha.
        destruct (append_facts (st ++ [IFacts fi1]) (Some (fi_offset fi1)) (1 + 1) m) as [st2 fi2] eqn:Ea.
        do 3 eexists; split; [reflexivity|].
        eapply write_ok_trans; [eexists; reflexivity|]. apply Ha; [lia|].
        split; auto. exists fi1. split; auto. lia.
      + cbn [option_map].
        assert (E2 : (maxd <? fi_depth p + 1)%N = false) by lia. rewrite E2.
        pose proof (append_facts_spec st (Some (fi_offset p)) (fi_depth p + 1) m g W Hok) as Ha.
        destruct (append_facts st (Some (fi_offset p)) (fi_depth p + 1) m) as [st2 fi2] eqn:Ea.
        do 3 eexists; split; [reflexivity|]. apply Ha; [lia|].
        split; auto. exists p; auto.
    - assert (E2 : (maxd <? 0 + 1)%N = false) by lia. rewrite E2. cbn [option_map].
      pose proof (append_facts_spec st None (0 + 1) m g W Hok) as Ha.
      destruct (append_facts st None (0 + 1) m) as [st2 fi2] eqn:Ea.
      do 3 eexists; split; [reflexivity|]. apply Ha; [lia|]. split; auto.
  Qed.

  (** ** [write_facts_with_prior] *)

  Lemma over_empty_map (m : nmap) g : is_empty m = true -> over m g ≡ g.
  Proof. destruct m; cbn; [intros _; apply over_nil|discriminate]. Qed.

  Theorem write_facts_wp_spec pr : forall st m g,
    wf_store st -> nm_ok m -> pden st pr g ->
    exists st' fi pf, write_facts_wp maxd st m pr = Ok (st', fi, pf) /\ write_ok st st' m g fi pf.
  Proof.
    induction pr as [|off|m' pr' IH]; intros st m g W Hok Hg; cbn [write_facts_wp].
    - apply finish_write_spec; auto. apply pden_none_inv in Hg; auto.
    - apply pden_index_inv in Hg.
      destruct Hg as (ls & Hc & Hfl). destruct (chain_fetch _ _ _ Hc) as [fi Hf]. rewrite Hf.
      pose proof (wf_fetch_offset maxd _ _ _ W Hf) as Ho.
      assert (Hi : iden st (fi_offset fi) g) by (rewrite Ho; exists ls; auto).
      destruct (is_empty m) eqn:Em.
      + do 3 eexists; split; [reflexivity|]. constructor; auto.
        * exists []. rewrite app_nil_r; auto.
        * rewrite Ho; auto.
        * eapply iden_feq; [apply feq_sym, over_empty_map; auto|]. auto.
      + apply finish_write_spec; auto. rewrite Ho. split; auto. rewrite <- Ho; auto.
    - apply pden_persp_inv in Hg as (Hok' & g' & Hg' & Hgg).
      destruct (IH st m' g' W Hok' Hg') as (st1 & fi1 & pf1 & Hw & [Hext W1 Hf1 Hd1 _]).
      rewrite Hw.
      assert (Hi : iden st1 (fi_offset fi1) g) by (eapply iden_feq; [apply feq_sym|]; eauto).
      destruct (is_empty m) eqn:Em.
      + do 3 eexists; split; [reflexivity|]. constructor; auto.
        eapply iden_feq; [apply feq_sym, over_empty_map; auto|]. auto.
      + destruct (finish_write_spec st1 (Some fi1) m g W1 Hok) as (st2 & fi2 & pf2 & Hw2 & Hwo); auto.
        rewrite Hw2. do 3 eexists; split; [reflexivity|]. eapply write_ok_trans; eauto.
  Qed.

  Corollary write_facts_spec st fp g : wf_store st -> fden st fp g ->
    exists st' fi, write_facts maxd st fp = Ok (st', fi) /\
      (exists ext, st' = st ++ ext) /\ wf_store st' /\ iden st' (fi_offset fi) g.
  Proof.
    intros W Hg. unfold fden, as_prior in Hg. apply pden_persp_inv in Hg as (Hok & g' & Hg' & Hgg).
    destruct (write_facts_wp_spec (fp_prior fp) st (fp_map fp) g' W Hok Hg')
      as (st' & fi & pf & Hw & [Hext W1 Hf1 Hd1 _]).
    unfold write_facts. rewrite Hw. do 2 eexists; split; [reflexivity|].
    split; [auto|]. split; [auto|].
    eapply iden_feq; [apply feq_sym|]; eauto.
  Qed.
End WithDepth.
